(* SyncHBProofs.v — lemmas about model/SyncHB.v (property C05). *)
From Coq Require Import ZArith List Bool Lia ZifyBool QArith Permutation Sorting.Sorted.
From Verif Require Import model.Base model.SyncHB.
Import ListNotations.

(* ======================================================================== *)
(* Part 1: get_top_list                                                      *)
(* ======================================================================== *)

Lemma tid_eqb_eq : forall a b : tid, tid_eqb a b = true <-> a = b.
Proof.
  intros [x|] [y|]; unfold tid_eqb; simpl; split; intro H; try congruence; try reflexivity.
  - apply Z.eqb_eq in H. congruence.
  - inversion H. apply Z.eqb_refl.
Qed.

Lemma mem_tid_In : forall x l, mem_tid x l = true <-> In x l.
Proof.
  induction l as [|y l IH]; simpl; [split; [discriminate|tauto]|].
  rewrite orb_true_iff, IH, tid_eqb_eq. split; intros [H|H]; auto.
Qed.

Lemma mem_tid_false : forall x l, mem_tid x l = false <-> ~ In x l.
Proof.
  intros. rewrite <- mem_tid_In. destruct (mem_tid x l); split; congruence.
Qed.

Definition strictly_better (m : mode) (a b : Q) : Prop :=
  match m with Min => a < b | Max => b < a end.

Lemma Qleb_total : forall a b, Qleb a b = false -> Qleb b a = true.
Proof.
  intros a b H. unfold Qleb in *. apply Qle_bool_iff.
  destruct (Qlt_le_dec a b) as [L|L]; [|exact L].
  apply Qlt_le_weak in L. apply Qle_bool_iff in L. congruence.
Qed.

Lemma better_eq_total : forall m a b, better_eq m a b = false -> better_eq m b a = true.
Proof. intros [] a b H; simpl in *; apply Qleb_total; exact H. Qed.

Lemma better_eq_trans : forall m a b c,
  better_eq m a b = true -> better_eq m b c = true -> better_eq m a c = true.
Proof.
  intros [] a b c H1 H2; simpl in *; unfold Qleb in *;
  apply Qle_bool_iff in H1; apply Qle_bool_iff in H2; apply Qle_bool_iff;
  eapply Qle_trans; eauto.
Qed.

Lemma better_eq_not_strict : forall m x y, better_eq m x y = true -> ~ strictly_better m y x.
Proof.
  intros [] x y H S; simpl in *; unfold Qleb in H; apply Qle_bool_iff in H;
  eapply Qlt_not_le; eauto.
Qed.

Definition key_le (m : mode) (a b : tid * Q) : Prop := better_eq m (snd a) (snd b) = true.

Lemma insert_sorted_perm : forall m x l, Permutation (insert_sorted m x l) (x :: l).
Proof.
  induction l as [|y l IH]; simpl; [reflexivity|].
  destruct (better_eq m (snd x) (snd y)); [reflexivity|].
  rewrite IH. apply perm_swap.
Qed.

Lemma sort_stable_perm : forall m l, Permutation (sort_stable m l) l.
Proof.
  induction l as [|x l IH]; simpl; [reflexivity|].
  rewrite insert_sorted_perm. constructor. exact IH.
Qed.

Lemma insert_sorted_sorted : forall m x l,
  StronglySorted (key_le m) l -> StronglySorted (key_le m) (insert_sorted m x l).
Proof.
  induction l as [|y l IH]; intro S; simpl.
  - constructor; constructor.
  - destruct (better_eq m (snd x) (snd y)) eqn:E.
    + constructor; [exact S|]. constructor; [exact E|].
      inversion S as [|? ? S' F]; subst.
      eapply Forall_impl; [|exact F]. intros z Hz. unfold key_le in *.
      eapply better_eq_trans; eauto.
    + inversion S as [|? ? S' F]; subst. constructor; [apply IH; exact S'|].
      assert (P := insert_sorted_perm m x l).
      apply Forall_forall. intros z Hz.
      eapply Permutation_in in Hz; [|exact P]. destruct Hz as [<-|Hz].
      * apply better_eq_total. exact E.
      * rewrite Forall_forall in F. apply F. exact Hz.
Qed.

Lemma sort_stable_sorted : forall m l, StronglySorted (key_le m) (sort_stable m l).
Proof.
  induction l as [|x l IH]; simpl; [constructor|]. apply insert_sorted_sorted. exact IH.
Qed.

Lemma sorted_split : forall {A} (R : A -> A -> Prop) k l,
  StronglySorted R l -> forall a b, In a (firstn k l) -> In b (skipn k l) -> R a b.
Proof.
  intros A R k. induction k as [|k IH]; intros l S a b Ha Hb; simpl in *; [contradiction|].
  destruct l as [|x l]; [contradiction|]. simpl in *.
  inversion S as [|? ? S' F]; subst. destruct Ha as [<-|Ha].
  - rewrite Forall_forall in F. apply F.
    rewrite <- (firstn_skipn k l). apply in_or_app. right. exact Hb.
  - eapply IH; eauto.
Qed.

Lemma valid_entries_In : forall rung t x, In (t, x) (valid_entries rung) <-> In (t, Val x) rung.
Proof.
  induction rung as [|[t0 [|q0]] rung IH]; intros t x; simpl.
  - tauto.
  - rewrite IH. split; [auto|]. intros [H|H]; [discriminate|exact H].
  - rewrite IH. split; intros [H|H]; auto; left; congruence.
Qed.

Lemma invalid_ids_In : forall rung t, In t (invalid_ids rung) <-> In (t, NaN) rung.
Proof.
  unfold invalid_ids. induction rung as [|[t0 [|q0]] rung IH]; intros t; simpl.
  - tauto.
  - rewrite IH. split; intros [H|H]; auto; left; congruence.
  - rewrite IH. split; [auto|]. intros [H|H]; [discriminate|exact H].
Qed.

Lemma valid_invalid_perm : forall rung,
  Permutation (map fst (valid_entries rung) ++ invalid_ids rung) (map fst rung).
Proof.
  unfold invalid_ids. induction rung as [|[t0 [|q0]] rung IH]; simpl.
  - constructor.
  - apply Permutation_sym. eapply Permutation_trans; [|apply Permutation_middle].
    constructor. apply Permutation_sym. exact IH.
  - constructor. exact IH.
Qed.

Lemma valid_invalid_length : forall rung,
  (length (valid_entries rung) + length (invalid_ids rung) = length rung)%nat.
Proof.
  intro rung. assert (P := valid_invalid_perm rung). apply Permutation_length in P.
  rewrite app_length, !map_length in P. exact P.
Qed.

Lemma nodup_keys_functional : forall {B} (l : list (tid * B)) a u v,
  NoDup (map fst l) -> In (a, u) l -> In (a, v) l -> u = v.
Proof.
  induction l as [|[k w] l IH]; intros a u v N Hu Hv; simpl in *; [contradiction|].
  inversion N as [|? ? Hn N']; subst.
  destruct Hu as [Hu|Hu], Hv as [Hv|Hv].
  - congruence.
  - inversion Hu; subst. exfalso. apply Hn. apply (in_map fst) in Hv. exact Hv.
  - inversion Hv; subst. exfalso. apply Hn. apply (in_map fst) in Hu. exact Hu.
  - eapply IH; eauto.
Qed.

Lemma nodup_app_intro : forall {A} (a b : list A),
  NoDup a -> NoDup b -> (forall x, In x a -> ~ In x b) -> NoDup (a ++ b).
Proof.
  induction a as [|x a IH]; intros b Na Nb D; simpl; [exact Nb|].
  inversion Na; subst. constructor.
  - rewrite in_app_iff. intros [H|H]; [contradiction|]. eapply D; [left; reflexivity|exact H].
  - apply IH; auto. intros y Hy. apply D. right. exact Hy.
Qed.

Lemma nodup_app_l : forall {A} (a b : list A), NoDup (a ++ b) -> NoDup a.
Proof.
  induction a as [|x a IH]; intros b N; [constructor|]. simpl in N. inversion N; subst.
  constructor; [|eapply IH; eauto]. intro H. apply H1. apply in_or_app. left. exact H.
Qed.

Lemma nodup_firstn : forall {A} k (l : list A), NoDup l -> NoDup (firstn k l).
Proof.
  intros A k l N. rewrite <- (firstn_skipn k l) in N. eapply nodup_app_l; eauto.
Qed.

Lemma nodup_app_firstn : forall {A} (a b : list A) k, NoDup (a ++ b) -> NoDup (a ++ firstn k b).
Proof.
  intros A a b k N. rewrite <- (firstn_skipn k b) in N. rewrite app_assoc in N.
  eapply nodup_app_l; eauto.
Qed.

Lemma in_firstn : forall {A} k (l : list A) x, In x (firstn k l) -> In x l.
Proof.
  intros A k l x H. rewrite <- (firstn_skipn k l). apply in_or_app. left. exact H.
Qed.

Lemma filter_map_fst : forall {B} (f : tid -> bool) (l : list (tid * B)),
  map fst (filter (fun x => f (fst x)) l) = filter f (map fst l).
Proof.
  induction l as [|[k w] l IH]; simpl; [reflexivity|].
  destruct (f k); simpl; rewrite IH; reflexivity.
Qed.

Lemma nodup_filter' : forall {A} (f : A -> bool) l, NoDup l -> NoDup (filter f l).
Proof.
  induction l as [|x l IH]; intro N; simpl; [constructor|]. inversion N; subst.
  destruct (f x); [constructor|]; auto. intro H. apply filter_In in H. tauto.
Qed.

Lemma perm_partition : forall (l t : list tid),
  NoDup l -> NoDup t -> incl t l ->
  Permutation (t ++ filter (fun i => negb (mem_tid i t)) l) l.
Proof.
  intros l t Nl Nt I. apply NoDup_Permutation.
  - apply nodup_app_intro; [exact Nt|apply nodup_filter'; exact Nl|].
    intros x Hx Hf. apply filter_In in Hf. destruct Hf as [_ Hf].
    apply negb_true_iff, mem_tid_false in Hf. contradiction.
  - exact Nl.
  - intro x. rewrite in_app_iff, filter_In. split.
    + intros [H|[H _]]; auto.
    + intro H. destruct (mem_tid x t) eqn:E.
      * left. apply mem_tid_In. exact E.
      * right. split; [exact H|]. reflexivity.
Qed.

Lemma firstn_map : forall {A B} (f : A -> B) k l, firstn k (map f l) = map f (firstn k l).
Proof.
  intros A B f. induction k as [|k IH]; intros [|x l]; simpl; try reflexivity. rewrite IH. reflexivity.
Qed.

Theorem get_top_list_spec : forall m rung new_len top rest,
  get_top_list m rung new_len = (top, rest) ->
  NoDup (map fst rung) -> (new_len <= length rung)%nat ->
  length top = new_len /\
  Permutation (top ++ rest) (map fst rung) /\
  (forall a b x y, In a top -> In b rest -> In (a, Val x) rung -> In (b, Val y) rung ->
                   ~ strictly_better m y x) /\
  (forall a, In a top -> In (a, NaN) rung -> forall b y, In b rest -> ~ In (b, Val y) rung).
Proof.
  intros m rung k top rest G N Hk. unfold get_top_list in G.
  set (rv := valid_entries rung) in *.
  assert (Pvi := valid_invalid_perm rung). fold rv in Pvi.
  assert (Lvi := valid_invalid_length rung). fold rv in Lvi.
  assert (Nvi : NoDup (map fst rv ++ invalid_ids rung)).
  { eapply Permutation_NoDup; [apply Permutation_sym; exact Pvi|exact N]. }
  assert (Nv : NoDup (map fst rv)) by (eapply nodup_app_l; eauto).
  assert (Iv : forall a, In a (map fst rv) -> In a (map fst rung)).
  { intros a Ha. eapply Permutation_in; [exact Pvi|]. apply in_or_app. left. exact Ha. }
  (* the remaining list in terms of ids *)
  assert (Rest : rest = filter (fun i => negb (mem_tid i top)) (map fst rung)).
  { inversion G. rewrite <- (filter_map_fst (fun i => negb (mem_tid i _))). reflexivity. }
  assert (RestIn : forall b, In b rest -> ~ In b top).
  { intros b Hb. rewrite Rest in Hb. apply filter_In in Hb. destruct Hb as [_ Hb].
    apply negb_true_iff, mem_tid_false in Hb. exact Hb. }
  destruct (Nat.leb k (length rv)) eqn:E.
  - (* enough valid entries *)
    apply Nat.leb_le in E.
    set (srt := sort_stable m rv) in *.
    assert (Ps : Permutation srt rv) by apply sort_stable_perm.
    assert (Ss : StronglySorted (key_le m) srt) by apply sort_stable_sorted.
    assert (Top : top = map fst (firstn k srt)) by (inversion G; reflexivity).
    assert (Ntop : NoDup top).
    { rewrite Top, <- firstn_map. apply nodup_firstn.
      eapply Permutation_NoDup; [apply Permutation_map, Permutation_sym; exact Ps|exact Nv]. }
    assert (Itop : incl top (map fst rung)).
    { intros a Ha. rewrite Top in Ha. apply in_map_iff in Ha. destruct Ha as [[a' x] [<- Ha]].
      apply in_firstn in Ha. apply Iv. apply (in_map fst).
      eapply Permutation_in; [exact Ps|exact Ha]. }
    split; [|split; [|split]].
    + rewrite Top, map_length, firstn_length.
      apply Permutation_length in Ps. lia.
    + rewrite Rest. apply perm_partition; assumption.
    + intros a b x y Ha Hb Hax Hby.
      apply valid_entries_In in Hax. apply valid_entries_In in Hby. fold rv in Hax, Hby.
      apply better_eq_not_strict.
      assert (Hb' : In (b, y) (skipn k srt)).
      { apply Permutation_sym in Ps. eapply Permutation_in in Hby; [|exact Ps].
        rewrite <- (firstn_skipn k srt) in Hby. apply in_app_or in Hby. destruct Hby as [H|H]; [|exact H].
        exfalso. apply (RestIn b Hb). rewrite Top. apply (in_map fst) in H. exact H. }
      rewrite Top in Ha. apply in_map_iff in Ha. destruct Ha as [[a' x'] [Ea Ha]]. simpl in Ea. subst a'.
      assert (x' = x).
      { apply in_firstn in Ha. eapply Permutation_in in Ha; [|exact Ps].
        eapply (nodup_keys_functional rv); eauto. }
      subst x'. exact (sorted_split (key_le m) k srt Ss _ _ Ha Hb').
    + intros a Ha Hnan. exfalso.
      rewrite Top in Ha. apply in_map_iff in Ha. destruct Ha as [[a' x'] [Ea Ha]]. simpl in Ea. subst a'.
      apply in_firstn in Ha. eapply Permutation_in in Ha; [|exact Ps].
      apply valid_entries_In in Ha.
      assert (Val x' = NaN) by (eapply (nodup_keys_functional rung); eauto). discriminate.
  - (* not enough valid entries: all valid ones and some failed ones are promoted *)
    apply Nat.leb_gt in E.
    assert (Top : top = map fst rv ++ firstn (k - length rv) (invalid_ids rung)) by (inversion G; reflexivity).
    assert (AllValidTop : forall b y, In (b, Val y) rung -> In b top).
    { intros b y H. apply valid_entries_In in H. rewrite Top. apply in_or_app. left.
      apply (in_map fst) in H. exact H. }
    split; [|split; [|split]].
    + rewrite Top, app_length, map_length, firstn_length. lia.
    + rewrite Rest. apply perm_partition; [exact N| |].
      * rewrite Top. apply nodup_app_firstn. exact Nvi.
      * intros a Ha. rewrite Top in Ha. apply in_app_or in Ha.
        eapply Permutation_in; [exact Pvi|]. apply in_or_app.
        destruct Ha as [Ha|Ha]; [left; exact Ha|right; eapply in_firstn; exact Ha].
    + intros a b x y _ Hb _ Hby. exfalso. apply (RestIn b Hb). eapply AllValidTop; eauto.
    + intros a _ _ b y Hb Hby. apply (RestIn b Hb). eapply AllValidTop; eauto.
Qed.

(* without any hypothesis on the ids: [top] has the right length and is a sub-multiset of the rung *)
Lemma get_top_list_sub : forall m rung new_len top rest,
  get_top_list m rung new_len = (top, rest) -> (new_len <= length rung)%nat ->
  length top = new_len /\ exists rest', Permutation (top ++ rest') (map fst rung).
Proof.
  intros m rung k top rest G Hk. unfold get_top_list in G.
  set (rv := valid_entries rung) in *.
  assert (Pvi := valid_invalid_perm rung). fold rv in Pvi.
  assert (Lvi := valid_invalid_length rung). fold rv in Lvi.
  destruct (Nat.leb k (length rv)) eqn:E.
  - apply Nat.leb_le in E. set (srt := sort_stable m rv) in *.
    assert (Ps : Permutation srt rv) by apply sort_stable_perm.
    assert (Top : top = map fst (firstn k srt)) by (inversion G; reflexivity).
    split.
    + rewrite Top, map_length, firstn_length. apply Permutation_length in Ps. lia.
    + exists (map fst (skipn k srt) ++ invalid_ids rung). rewrite Top, app_assoc, <- map_app, firstn_skipn.
      eapply Permutation_trans; [|exact Pvi]. apply Permutation_app_tail. apply Permutation_map. exact Ps.
  - apply Nat.leb_gt in E.
    assert (Top : top = map fst rv ++ firstn (k - length rv) (invalid_ids rung)) by (inversion G; reflexivity).
    split.
    + rewrite Top, app_length, map_length, firstn_length. lia.
    + exists (skipn (k - length rv) (invalid_ids rung)). rewrite Top, <- app_assoc, firstn_skipn. exact Pvi.
Qed.

(* ======================================================================== *)
(* Part 2: list helpers                                                      *)
(* ======================================================================== *)

Lemma upd_length : forall {A} (l : list A) i x, length (upd l i x) = length l.
Proof. induction l as [|y l IH]; intros [|i] x; simpl; auto. Qed.

Lemma nth_error_upd_eq : forall {A} (l : list A) i x, (i < length l)%nat -> nth_error (upd l i x) i = Some x.
Proof. induction l as [|y l IH]; intros [|i] x H; simpl in *; try lia; auto. apply IH. lia. Qed.

Lemma nth_error_upd_neq : forall {A} (l : list A) i j x, i <> j -> nth_error (upd l i x) j = nth_error l j.
Proof.
  induction l as [|y l IH]; intros [|i] [|j] x H; simpl; auto; try congruence.
Qed.

Lemma nth_error_lt : forall {A} (l : list A) i x, nth_error l i = Some x -> (i < length l)%nat.
Proof. intros. apply nth_error_Some. congruence. Qed.

Lemma nth_error_upd : forall {A} (l : list A) i j x y,
  nth_error (upd l i x) j = Some y -> (i = j /\ y = x) \/ (i <> j /\ nth_error l j = Some y).
Proof.
  intros A l i j x y H. destruct (Nat.eq_dec i j) as [->|N].
  - left. split; [reflexivity|]. assert (j < length l)%nat.
    { apply nth_error_lt in H. rewrite upd_length in H. exact H. }
    rewrite nth_error_upd_eq in H by assumption. congruence.
  - right. rewrite nth_error_upd_neq in H by assumption. auto.
Qed.

Lemma In_upd : forall {A} (l : list A) i x y, In y (upd l i x) -> y = x \/ In y l.
Proof.
  intros A l i x y H. apply In_nth_error in H. destruct H as [j H].
  apply nth_error_upd in H. destruct H as [[_ ->]|[_ H]]; [left; reflexivity|right].
  eapply nth_error_In; eauto.
Qed.

Lemma upd_same_map : forall {A B} (f : A -> B) (l : list A) i x y,
  nth_error l i = Some y -> f x = f y -> map f (upd l i x) = map f l.
Proof.
  induction l as [|z l IH]; intros [|i] x y H E; simpl in *; try discriminate.
  - inversion H; subst. rewrite E. reflexivity.
  - f_equal. eapply IH; eauto.
Qed.

Fixpoint somes {A} (l : list (option A)) : list A :=
  match l with [] => [] | Some x :: r => x :: somes r | None :: r => somes r end.

Lemma somes_In : forall {A} (l : list (option A)) x, In x (somes l) <-> In (Some x) l.
Proof.
  induction l as [|[y|] l IH]; intro x; simpl.
  - tauto.
  - rewrite IH. split; intros [H|H]; auto; left; congruence.
  - rewrite IH. split; [auto|]. intros [H|H]; [discriminate|exact H].
Qed.

Lemma somes_app : forall {A} (a b : list (option A)), somes (a ++ b) = somes a ++ somes b.
Proof. induction a as [|[x|] a IH]; intro b; simpl; auto. rewrite IH. reflexivity. Qed.

Lemma somes_perm : forall {A} (a b : list (option A)), Permutation a b -> Permutation (somes a) (somes b).
Proof.
  intros A a b P. induction P as [|x l l' P IH|x y l|l l' l'' P1 IH1 P2 IH2]; simpl.
  - constructor.
  - destruct x; [constructor|]; exact IH.
  - destruct x, y; try reflexivity. apply perm_swap.
  - eapply Permutation_trans; eauto.
Qed.

Lemma somes_map_Some : forall {A} (l : list A), somes (map Some l) = l.
Proof. induction l; simpl; congruence. Qed.

(* replacing a None by Some t in position i adds t *)
Lemma somes_upd_None : forall {A} (l : list (option A)) i t,
  nth_error l i = Some None -> Permutation (somes (upd l i (Some t))) (t :: somes l).
Proof.
  induction l as [|[y|] l IH]; intros [|i] t H; simpl in *; try discriminate.
  - rewrite (IH _ _ H). apply perm_swap.
  - reflexivity.
  - apply IH. exact H.
Qed.

Lemma nodup_somes_pos : forall {A} (l : list (option A)) i j x,
  NoDup (somes l) -> nth_error l i = Some (Some x) -> nth_error l j = Some (Some x) -> i = j.
Proof.
  induction l as [|y l IH]; intros [|i] [|j] x N Hi Hj; simpl in *; try discriminate; auto.
  - inversion Hi; subst. simpl in N. inversion N; subst. exfalso. apply H1.
    apply somes_In. eapply nth_error_In; eauto.
  - inversion Hj; subst. simpl in N. inversion N; subst. exfalso. apply H1.
    apply somes_In. eapply nth_error_In; eauto.
  - f_equal. eapply IH; eauto. destruct y; simpl in N; [inversion N; auto|auto].
Qed.

Lemma all_some_map : forall (l : list (option Z)),
  (forall x, In x l -> x <> None) -> l = map Some (somes l).
Proof.
  induction l as [|[y|] l IH]; intro H; simpl.
  - reflexivity.
  - f_equal. apply IH. intros x Hx. apply H. right. exact Hx.
  - exfalso. apply (H None); [left; reflexivity|reflexivity].
Qed.

Lemma nodup_map_Some : forall {A} (l : list A), NoDup l -> NoDup (map Some l).
Proof.
  intros A l N. apply FinFun.Injective_map_NoDup; [|exact N]. intros x y E. congruence.
Qed.

(* ======================================================================== *)
(* Part 3: one bracket                                                       *)
(* ======================================================================== *)

Definition is_full (sl : list slot) (ffp : nat) : bool :=
  Nat.leb (length sl) ffp && Nat.eqb (count_pending sl ffp) 0.

Definition cur_ids (b : bracket) : list Z :=
  match current_rung_and_level b with Ok (sl, _) => somes (map fst sl) | Error _ => [] end.

Lemma crl_inv : forall b sl lv, current_rung_and_level b = Ok (sl, lv) ->
  nth_error (rungs b) (current_rung b) = Some (Filled sl lv) /\ is_bracket_complete b = false.
Proof.
  unfold current_rung_and_level, is_bracket_complete. intros b sl lv H.
  destruct (nth_error (rungs b) (current_rung b)) as [[sl' lv'|]|] eqn:E; try discriminate.
  inversion H; subst. split; [reflexivity|]. apply nth_error_lt in E. apply Nat.leb_gt. exact E.
Qed.

Lemma crl_of_nth : forall b sl lv, nth_error (rungs b) (current_rung b) = Some (Filled sl lv) ->
  current_rung_and_level b = Ok (sl, lv).
Proof. unfold current_rung_and_level. intros b sl lv ->. reflexivity. Qed.

Lemma complete_crl : forall b, is_bracket_complete b = true -> exists e, current_rung_and_level b = Error e.
Proof.
  unfold current_rung_and_level, is_bracket_complete. intros b H. apply Nat.leb_le in H.
  destruct (nth_error (rungs b) (current_rung b)) eqn:E.
  - apply nth_error_lt in E. lia.
  - eexists; reflexivity.
Qed.

Lemma count_pending_zero : forall sl ffp, (length sl <= ffp)%nat -> count_pending sl ffp = 0%nat ->
  forall s, In s sl -> snd s <> None.
Proof.
  unfold count_pending. intros sl ffp L C s Hs E.
  rewrite firstn_all2 in C by exact L.
  assert (In s (filter (fun x => is_none (snd x)) sl)).
  { apply filter_In. split; [exact Hs|]. rewrite E. reflexivity. }
  destruct (filter (fun x => is_none (snd x)) sl); [contradiction|discriminate].
Qed.

Lemma is_full_spec : forall sl ffp, is_full sl ffp = true ->
  (length sl <= ffp)%nat /\ forall s, In s sl -> snd s <> None.
Proof.
  unfold is_full. intros sl ffp H. apply andb_true_iff in H. destruct H as [H1 H2].
  apply Nat.leb_le in H1. apply Nat.eqb_eq in H2. split; [exact H1|].
  eapply count_pending_zero; eauto.
Qed.

Lemma not_full_spec : forall sl ffp, (ffp <= length sl)%nat -> is_full sl ffp = false ->
  (forall pos s, (ffp <= pos)%nat -> nth_error sl pos = Some s -> snd s = None) ->
  exists pos t, nth_error sl pos = Some (t, None).
Proof.
  unfold is_full, count_pending. intros sl ffp L H Free.
  apply andb_false_iff in H. destruct H as [H|H].
  - apply Nat.leb_gt in H. destruct (nth_error sl ffp) as [[t mv]|] eqn:E.
    + exists ffp, t. specialize (Free ffp (t, mv) (le_n _) E). simpl in Free. subst. exact E.
    + apply nth_error_None in E. lia.
  - apply Nat.eqb_neq in H.
    destruct (filter (fun x => is_none (snd x)) (firstn ffp sl)) as [|[t mv] r] eqn:E; [simpl in H; lia|].
    assert (I : In (t, mv) (filter (fun x => is_none (snd x)) (firstn ffp sl))) by (rewrite E; left; reflexivity).
    apply filter_In in I. destruct I as [I N]. apply in_firstn in I. simpl in N. destruct mv; [discriminate|].
    apply In_nth_error in I. destruct I as [pos I]. exists pos, t. exact I.
Qed.

Lemma occupied_values_all : forall sl, (forall s, In s sl -> snd s <> None) ->
  exists vals, occupied_values sl = Some vals /\ map fst vals = map fst sl /\
    forall t v, In (t, v) vals <-> In (t, Some v) sl.
Proof.
  induction sl as [|[t [v|]] sl IH]; intro H; simpl.
  - exists []. repeat split; simpl; tauto.
  - destruct IH as [vals [E [M I]]]. { intros s Hs. apply H. right. exact Hs. }
    rewrite E. exists ((t, v) :: vals). repeat split; simpl; try congruence.
    + intros [X|X]; [left; congruence|right; apply I; exact X].
    + intros [X|X]; [left; congruence|right; apply I; exact X].
  - exfalso. apply (H (t, None)); [left; reflexivity|reflexivity].
Qed.

Lemma occupied_values_some : forall sl vals, occupied_values sl = Some vals ->
  map fst vals = map fst sl /\ length vals = length sl.
Proof.
  induction sl as [|[t [v|]] sl IH]; intros vals H; simpl in *; try discriminate.
  - inversion H. auto.
  - destruct (occupied_values sl) eqn:E; [|discriminate]. inversion H; subst.
    destruct (IH _ eq_refl) as [A B]. simpl. split; congruence.
Qed.

(* what an accepted result does to a bracket *)
Lemma bor_inv : forall b r sl lv b' out,
  current_rung_and_level b = Ok (sl, lv) ->
  bracket_on_result b r = Ok (b', out) ->
  rung_index r = current_rung b /\ (slot_index r < first_free_pos b)%nat /\ level r = lv /\
  (exists t0, nth_error sl (slot_index r) = Some (t0, None) /\ (t0 = None \/ t0 = trial_id r)) /\
  exists v, metric_val r = Some v /\
  let sl' := upd sl (slot_index r) (trial_id r, Some v) in
  let rungs1 := upd (rungs b) (current_rung b) (Filled sl' lv) in
  ( (is_full sl' (first_free_pos b) = false /\
     b' = mkB (bmode b) (first_free_pos b) (current_rung b) rungs1 /\ out = None)
  \/ (is_full sl' (first_free_pos b) = true /\ (length rungs1 <= S (current_rung b))%nat /\
     b' = mkB (bmode b) 0 (S (current_rung b)) rungs1 /\ out = None)
  \/ (is_full sl' (first_free_pos b) = true /\
     exists nl ms vals top rem,
       nth_error rungs1 (S (current_rung b)) = Some (Future nl ms) /\
       occupied_values sl' = Some vals /\
       get_top_list (bmode b) vals nl = (top, rem) /\
       b' = mkB (bmode b) 0 (S (current_rung b))
                (upd rungs1 (S (current_rung b)) (Filled (map (fun t => (t, None)) top) ms)) /\
       out = Some rem)).
Proof.
  intros b r sl lv b' out C H. unfold bracket_on_result in H. rewrite C in H.
  destruct (crl_inv _ _ _ C) as [Nth NC].
  destruct (Nat.eqb (rung_index r) (current_rung b)) eqn:E1; simpl in H; [|discriminate].
  apply Nat.eqb_eq in E1.
  destruct (Nat.ltb (slot_index r) (first_free_pos b)) eqn:E2; simpl in H; [|discriminate].
  apply Nat.ltb_lt in E2.
  destruct (Z.eqb (level r) lv) eqn:E3; simpl in H; [|discriminate]. apply Z.eqb_eq in E3.
  destruct (nth_error sl (slot_index r)) as [[t0 mv0]|] eqn:E4; [|discriminate].
  destruct (match t0 with Some _ => negb (tid_eqb (trial_id r) t0) | None => false end) eqn:E5; [discriminate|].
  destruct mv0 as [?|]; [discriminate|].
  destruct (metric_val r) as [v|] eqn:E6; [|discriminate].
  split; [exact E1|]. split; [exact E2|]. split; [exact E3|]. split.
  { exists t0. split; [reflexivity|]. destruct t0 as [z|]; [right|left; reflexivity].
    apply negb_false_iff, tid_eqb_eq in E5. congruence. }
  exists v. split; [reflexivity|]. cbv zeta.
  set (sl' := upd sl (slot_index r) (trial_id r, Some v)) in *.
  set (rungs1 := upd (rungs b) (current_rung b) (Filled sl' lv)) in *.
  fold (is_full sl' (first_free_pos b)) in H.
  destruct (is_full sl' (first_free_pos b)) eqn:F.
  - unfold is_bracket_complete in H. cbn [rungs current_rung] in H.
    destruct (Nat.leb (length rungs1) (S (current_rung b))) eqn:L.
    + apply Nat.leb_le in L. inversion H; subst. right. left. auto.
    + right. right. split; [reflexivity|]. unfold promote in H. cbn [rungs current_rung bmode first_free_pos] in H.
      replace (S (current_rung b) - 1)%nat with (current_rung b) in H by lia.
      assert (N1 : nth_error rungs1 (current_rung b) = Some (Filled sl' lv)).
      { unfold rungs1. apply nth_error_upd_eq. eapply nth_error_lt; eauto. }
      rewrite N1 in H.
      destruct (nth_error rungs1 (S (current_rung b))) as [[?|nl ms]|] eqn:N2; try discriminate.
      destruct (occupied_values sl') as [vals|] eqn:OV; [|discriminate].
      destruct (get_top_list (bmode b) vals nl) as [top rem] eqn:G.
      inversion H; subst. exists nl, ms, vals, top, rem. auto.
  - inversion H; subst. left. auto.
Qed.

(* an answer that satisfies the protocol is accepted *)
Lemma bor_ok : forall b r sl lv t0 v,
  current_rung_and_level b = Ok (sl, lv) ->
  rung_index r = current_rung b -> (slot_index r < first_free_pos b)%nat -> level r = lv ->
  nth_error sl (slot_index r) = Some (t0, None) -> (t0 = None \/ t0 = trial_id r) ->
  metric_val r = Some v ->
  (forall e, nth_error (rungs b) (S (current_rung b)) = Some e -> exists nl ms, e = Future nl ms) ->
  exists b' out, bracket_on_result b r = Ok (b', out).
Proof.
  intros b r sl lv t0 v C E1 E2 E3 E4 E5 E6 Fut. unfold bracket_on_result. rewrite C.
  destruct (crl_inv _ _ _ C) as [Nth NC].
  apply Nat.eqb_eq in E1. rewrite E1. apply Nat.ltb_lt in E2. rewrite E2. simpl.
  apply Z.eqb_eq in E3. rewrite E3. simpl. rewrite E4.
  replace (match t0 with Some _ => negb (tid_eqb (trial_id r) t0) | None => false end) with false.
  2:{ destruct t0 as [z|]; [|reflexivity]. destruct E5 as [E5|E5]; [discriminate|].
      symmetry. apply negb_false_iff, tid_eqb_eq. congruence. }
  rewrite E6.
  set (sl' := upd sl (slot_index r) (trial_id r, Some v)).
  set (rungs1 := upd (rungs b) (current_rung b) (Filled sl' lv)).
  fold (is_full sl' (first_free_pos b)).
  destruct (is_full sl' (first_free_pos b)) eqn:F; [|eauto].
  unfold is_bracket_complete. cbn [rungs current_rung].
  destruct (Nat.leb (length rungs1) (S (current_rung b))) eqn:L; [eauto|].
  apply Nat.leb_gt in L. unfold promote. cbn [rungs current_rung bmode first_free_pos].
  replace (S (current_rung b) - 1)%nat with (current_rung b) by lia.
  assert (N1 : nth_error rungs1 (current_rung b) = Some (Filled sl' lv)).
  { unfold rungs1. apply nth_error_upd_eq. eapply nth_error_lt; eauto. }
  rewrite N1.
  destruct (nth_error rungs1 (S (current_rung b))) as [e|] eqn:N2.
  2:{ apply nth_error_None in N2. lia. }
  unfold rungs1 in N2. rewrite nth_error_upd_neq in N2 by lia.
  destruct (Fut _ N2) as [nl [ms ->]].
  destruct (is_full_spec _ _ F) as [_ Occ].
  destruct (occupied_values_all sl' Occ) as [vals [OV _]]. rewrite OV.
  destruct (get_top_list (bmode b) vals nl) as [top rem]. eauto.
Qed.

(* ---- the invariant of one bracket ---------------------------------------- *)

Definition entry_shape (e : rentry) : nat * Z :=
  match e with Filled sl lv => (length sl, lv) | Future n lv => (n, lv) end.
(* a slot without trial id can only hold NaN: the searcher delivered no config for it *)
Definition none_nan (sl : list slot) : Prop := forall v, In (None, Some v) sl -> v = NaN.
Definition full_rung (sl : list slot) : Prop :=
  Forall (fun s => snd s <> None) sl /\ NoDup (somes (map fst sl)) /\ none_nan sl.

(* [strict = true]: the searcher never failed to deliver a config, so every slot that has a value
   has a trial id.  All invariants below are stated for both settings at once. *)
Section Strict.
Variable strict : bool.

Definition no_none (b : bracket) : Prop :=
  forall k sl lv v, nth_error (rungs b) k = Some (Filled sl lv) -> ~ In (None, Some v) sl.

Record cur_ok (sl : list slot) (ffp : nat) : Prop := mkCurOk {
  co_ffp : (ffp <= length sl)%nat;
  co_free : forall pos s, (ffp <= pos)%nat -> nth_error sl pos = Some s -> snd s = None;
  co_open : exists pos t, nth_error sl pos = Some (t, None);
  co_nonan : none_nan sl;
  co_nodup : NoDup (somes (map fst sl)) }.

Record BInv (sys : rung_system) (md : mode) (b : bracket) : Prop := mkBInv {
  bi_sys : map entry_shape (rungs b) = sys;
  bi_mode : bmode b = md;
  bi_cur : (current_rung b <= length (rungs b))%nat;
  bi_done : forall k, (k < current_rung b)%nat ->
            exists sl lv, nth_error (rungs b) k = Some (Filled sl lv) /\ full_rung sl;
  bi_fut : forall k e, (current_rung b < k)%nat -> nth_error (rungs b) k = Some e ->
           exists n lv, e = Future n lv;
  bi_open : (current_rung b < length (rungs b))%nat ->
            exists sl lv, nth_error (rungs b) (current_rung b) = Some (Filled sl lv) /\
                          cur_ok sl (first_free_pos b);
  bi_closed : current_rung b = length (rungs b) -> first_free_pos b = 0%nat;
  bi_strict : strict = true -> no_none b }.

Lemma binv_cur_ok : forall sys md b sl lv, BInv sys md b ->
  current_rung_and_level b = Ok (sl, lv) -> cur_ok sl (first_free_pos b).
Proof.
  intros sys md b sl lv B C. destruct (crl_inv _ _ _ C) as [N _].
  destruct (bi_open _ _ _ B) as [sl' [lv' [N' CO]]]; [eapply nth_error_lt; eauto|].
  rewrite N in N'. inversion N'; subst. exact CO.
Qed.

Lemma binv_crl : forall sys md b, BInv sys md b -> is_bracket_complete b = false ->
  exists sl lv, current_rung_and_level b = Ok (sl, lv).
Proof.
  intros sys md b B NC. unfold is_bracket_complete in NC. apply Nat.leb_gt in NC.
  destruct (bi_open _ _ _ B NC) as [sl [lv [N _]]]. exists sl, lv. apply crl_of_nth. exact N.
Qed.

(* rung systems accepted by assert_check_rungs *)
Lemma decreasing_nth : forall l k a b, decreasing_nat l = true ->
  nth_error l k = Some a -> nth_error l (S k) = Some b -> (b < a)%nat.
Proof.
  induction l as [|x l IH]; intros k a b D Ha Hb; [destruct k; discriminate|].
  destruct l as [|y l]; [destruct k; simpl in Hb; try discriminate; destruct k; discriminate|].
  simpl in D. apply andb_true_iff in D. destruct D as [D1 D2]. destruct k as [|k].
  - simpl in Ha, Hb. inversion Ha; inversion Hb; subst. apply Nat.ltb_lt. exact D1.
  - eapply (IH k); eauto.
Qed.

Lemma check_rungs_spec : forall sys, check_rungs sys = true ->
  sys <> [] /\ (forall k n lv, nth_error sys k = Some (n, lv) -> (1 <= n)%nat) /\
  (forall k n lv n' lv', nth_error sys k = Some (n, lv) -> nth_error sys (S k) = Some (n', lv') -> (n' < n)%nat).
Proof.
  unfold check_rungs. intros sys H. repeat (apply andb_true_iff in H; destruct H as [H ?]).
  split; [|split].
  - destruct sys; [discriminate|congruence].
  - intros k n lv N. rewrite forallb_forall in H1. apply nth_error_In in N.
    specialize (H1 _ N). simpl in H1. apply Nat.leb_le. exact H1.
  - intros k n lv n' lv' N N'. eapply (decreasing_nth (map fst sys) k); eauto.
    + rewrite nth_error_map, N. reflexivity.
    + rewrite nth_error_map, N'. reflexivity.
Qed.

Lemma map_shape_future : forall rest : rung_system,
  map entry_shape (map (fun x => Future (fst x) (snd x)) rest) = rest.
Proof. induction rest as [|[a b] r IH]; simpl; congruence. Qed.

Lemma somes_repeat_none : forall n, somes (map fst (repeat ((None, None) : slot) n)) = [].
Proof. induction n; simpl; auto. Qed.

Lemma nth_error_repeat : forall {A} (x : A) n k y, nth_error (repeat x n) k = Some y -> y = x.
Proof. intros A x n k y H. apply nth_error_In in H. eapply repeat_spec; eauto. Qed.

Lemma binv_new : forall sys md, check_rungs sys = true -> BInv sys md (new_bracket sys md).
Proof.
  intros sys md CK. destruct (check_rungs_spec _ CK) as [NE [Pos _]].
  destruct sys as [|[size lv] rest]; [congruence|]. unfold new_bracket.
  assert (1 <= size)%nat by (apply (Pos 0%nat size lv); reflexivity).
  constructor; cbn [rungs current_rung first_free_pos bmode].
  - simpl. rewrite repeat_length, map_shape_future. reflexivity.
  - reflexivity.
  - lia.
  - intros k Hk. lia.
  - intros k e Hk N. destruct k as [|k]; [lia|]. simpl in N.
    rewrite nth_error_map in N. destruct (nth_error rest k); [|discriminate].
    inversion N. eauto.
  - intros _. exists (repeat (None, None) size), lv. split; [reflexivity|]. constructor.
    + lia.
    + intros pos s _ N. apply nth_error_repeat in N. subst. reflexivity.
    + exists 0%nat, None. destruct size; [lia|]. reflexivity.
    + intros v I. apply repeat_spec in I. discriminate.
    + rewrite somes_repeat_none. constructor.
  - simpl. intros. lia.
  - intros _ k sl0 lv0 v N I. destruct k as [|k]; simpl in N.
    + inversion N; subst. apply repeat_spec in I. discriminate.
    + rewrite nth_error_map in N. destruct (nth_error rest k); discriminate.
Qed.

Definition bump (b : bracket) : bracket :=
  mkB (bmode b) (S (first_free_pos b)) (current_rung b) (rungs b).

Lemma binv_bump : forall sys md b sl lv, BInv sys md b ->
  current_rung_and_level b = Ok (sl, lv) -> (first_free_pos b < length sl)%nat ->
  BInv sys md (bump b).
Proof.
  intros sys md b sl lv B C L. destruct (crl_inv _ _ _ C) as [N _].
  destruct B as [B1 B2 B3 B4 B5 B6 B7 B8].
  constructor; cbn [bump rungs current_rung first_free_pos bmode]; auto.
  - intro Hc. destruct (B6 Hc) as [sl' [lv' [N' CO]]]. rewrite N in N'. inversion N'; subst sl' lv'.
    exists sl, lv. split; [exact N|]. destruct CO as [C1 C2 C3 C4 C5]. constructor; auto.
    intros pos s Hp. apply C2. lia.
  - intro Hc. apply nth_error_lt in N. lia.
Qed.

Lemma map_upd : forall {A B} (f : A -> B) l i x, map f (upd l i x) = upd (map f l) i (f x).
Proof. induction l as [|y l IH]; intros [|i] x; simpl; auto. rewrite IH. reflexivity. Qed.

Lemma nodup_somes : forall {A} (l : list (option A)), NoDup l -> NoDup (somes l).
Proof.
  induction l as [|[x|] l IH]; intro N; simpl.
  - constructor.
  - inversion N; subst. constructor; [|apply IH; assumption]. intro H. apply somes_In in H. contradiction.
  - inversion N; subst. apply IH. assumption.
Qed.

(* ids of the rung after writing (Some t, Some v) into position pos *)
Lemma ids_after_write : forall (sl : list slot) pos t0 t v,
  nth_error sl pos = Some (t0, None) -> (t0 = None \/ t0 = Some t) ->
  (t0 = None -> ~ In t (somes (map fst sl))) ->
  NoDup (somes (map fst sl)) ->
  NoDup (somes (map fst (upd sl pos (Some t, Some v)))) /\
  forall x, In x (somes (map fst (upd sl pos (Some t, Some v)))) -> In x (somes (map fst sl)) \/ x = t.
Proof.
  intros sl pos t0 t v N T K ND. unfold slot in *. destruct T as [-> | ->].
  - rewrite map_upd. simpl.
    assert (P : Permutation (somes (upd (map fst sl) pos (Some t))) (t :: somes (map fst sl))).
    { apply somes_upd_None. rewrite nth_error_map. unfold slot in *. rewrite N. reflexivity. }
    split.
    + eapply Permutation_NoDup; [apply Permutation_sym; exact P|]. constructor; auto.
    + intros x Hx. eapply Permutation_in in Hx; [|exact P]. destruct Hx; auto.
  - rewrite (upd_same_map fst sl pos (Some t, Some v) (Some t, None) N eq_refl). auto.
Qed.

(* An accepted answer for a slot: [tr] is the trial id written (None: the searcher delivered no
   config and the slot is reported as failed, with NaN). *)
Section Answer.
  Variables (sys : rung_system) (md : mode) (b b' : bracket) (r : slot_in_rung)
            (sl : list slot) (lv : Z) (out : option (list tid)) (tr : tid).
  Hypothesis CK : check_rungs sys = true.
  Hypothesis B : BInv sys md b.
  Hypothesis C : current_rung_and_level b = Ok (sl, lv).
  Hypothesis R : bracket_on_result b r = Ok (b', out).
  Hypothesis TID : trial_id r = tr.
  Hypothesis FRESH : forall t, tr = Some t -> nth_error sl (slot_index r) = Some (None, None) -> ~ In t (cur_ids b).
  Hypothesis NANFAIL : tr = None -> metric_val r = Some NaN.
  Hypothesis STRICT : strict = true -> tr <> None.

  Lemma answer_facts :
    exists t0 v, nth_error sl (slot_index r) = Some (t0, None) /\ (t0 = None \/ t0 = tr) /\
      metric_val r = Some v /\
      let sl' := upd sl (slot_index r) (tr, Some v) in
      NoDup (somes (map fst sl')) /\
      (forall x, In x (somes (map fst sl')) -> In x (cur_ids b) \/ tr = Some x) /\
      none_nan sl' /\ length sl' = length sl.
  Proof.
    destruct (bor_inv _ _ _ _ _ _ C R) as [_ [_ [_ [[t0 [N T]] [v [MV _]]]]]].
    rewrite TID in T. exists t0, v. split; [exact N|]. split; [exact T|]. split; [exact MV|].
    assert (CO := binv_cur_ok _ _ _ _ _ B C). cbv zeta.
    assert (CI : cur_ids b = somes (map fst sl)) by (unfold cur_ids; rewrite C; reflexivity).
    assert (NN : none_nan (upd sl (slot_index r) (tr, Some v))).
    { intros w I. apply In_upd in I. destruct I as [I|I]; [|eapply (co_nonan _ _ CO); eauto].
      injection I as E1 E2. rewrite (NANFAIL (eq_sym E1)) in MV. congruence. }
    destruct tr as [t|] eqn:Etr.
    - destruct (ids_after_write sl (slot_index r) t0 t v N T) as [ND IN].
      { intros ->. rewrite <- CI. eapply FRESH; [reflexivity|exact N]. }
      { exact (co_nodup _ _ CO). }
      split; [exact ND|]. split; [|split; [exact NN|apply upd_length]].
      intros x Hx. destruct (IN x Hx) as [H|H]; [left; rewrite CI; exact H|right; congruence].
    - assert (t0 = None) by (destruct T; assumption). subst t0. unfold slot, tid in *.
      rewrite (upd_same_map fst sl (slot_index r) (None, Some v) (None, None) N eq_refl).
      split; [exact (co_nodup _ _ CO)|]. split; [|split; [exact NN|apply upd_length]].
      intros x Hx. left. rewrite CI. exact Hx.
  Qed.

  Lemma binv_answer : BInv sys md b'.
  Proof.
    destruct answer_facts as [t0 [v [N [T [MV [ND [_ [NN LEN]]]]]]]]. cbv zeta in *.
    destruct (bor_inv _ _ _ _ _ _ C R) as [E1 [E2 [E3 [_ [v' [MV' Cases]]]]]].
    rewrite MV in MV'. inversion MV'; subst v'. clear MV'. rewrite TID in Cases. cbv zeta in Cases.
    set (sl' := upd sl (slot_index r) (tr, Some v)) in *.
    set (rungs1 := upd (rungs b) (current_rung b) (Filled sl' lv)) in *.
    destruct (crl_inv _ _ _ C) as [Nth NC].
    assert (Lc : (current_rung b < length (rungs b))%nat) by (eapply nth_error_lt; eauto).
    assert (CO := binv_cur_ok _ _ _ _ _ B C).
    destruct B as [B1 B2 B3 B4 B5 B6 B7 B8].
    assert (NoN1 : strict = true -> forall k sl0 lv0 w, nth_error rungs1 k = Some (Filled sl0 lv0) -> ~ In (None, Some w) sl0).
    { intros St k sl0 lv0 w Hn I. unfold rungs1 in Hn. apply nth_error_upd in Hn. destruct Hn as [[_ Hn]|[_ Hn]].
      - inversion Hn; subst sl0 lv0. apply In_upd in I. destruct I as [I|I].
        + injection I as Ea Eb. exact (STRICT St (eq_sym Ea)).
        + exact (B8 St _ _ _ _ Nth I).
      - exact (B8 St _ _ _ _ Hn I). }
    assert (Sys1 : map entry_shape rungs1 = sys).
    { unfold rungs1. rewrite (upd_same_map entry_shape _ _ _ _ Nth); [exact B1|]. simpl. rewrite LEN. reflexivity. }
    assert (Len1 : length rungs1 = length (rungs b)) by apply upd_length.
    assert (N1 : nth_error rungs1 (current_rung b) = Some (Filled sl' lv))
      by (apply nth_error_upd_eq; exact Lc).
    assert (Done1 : forall k, (k < current_rung b)%nat ->
              exists sl0 lv0, nth_error rungs1 k = Some (Filled sl0 lv0) /\ full_rung sl0).
    { intros k Hk. unfold rungs1. rewrite nth_error_upd_neq by lia. apply B4. exact Hk. }
    assert (Fut1 : forall k e, (current_rung b < k)%nat -> nth_error rungs1 k = Some e -> exists n lv0, e = Future n lv0).
    { intros k e Hk. unfold rungs1. rewrite nth_error_upd_neq by lia. apply B5. exact Hk. }
    assert (Full : is_full sl' (first_free_pos b) = true -> full_rung sl').
    { intro F. destruct (is_full_spec _ _ F) as [_ Occ]. split; [|split; [exact ND|exact NN]].
      apply Forall_forall. exact Occ. }
    destruct Cases as [[F [-> _]]|[[F [L [-> _]]]|[F [nl [ms [vals [top [rem [N2 [OV [G [-> _]]]]]]]]]]]].
    - (* rung not complete *)
      constructor; cbn [rungs current_rung first_free_pos bmode].
      + exact Sys1.
      + exact B2.
      + rewrite ?upd_length; lia.
      + exact Done1.
      + exact Fut1.
      + intros _. exists sl', lv. split; [exact N1|].
        assert (Free' : forall pos s, (first_free_pos b <= pos)%nat -> nth_error sl' pos = Some s -> snd s = None).
        { intros pos s Hp Hs. unfold sl' in Hs. rewrite nth_error_upd_neq in Hs by lia.
          eapply (co_free _ _ CO); eauto. }
        constructor; auto.
        * rewrite LEN. exact (co_ffp _ _ CO).
        * apply (not_full_spec sl' (first_free_pos b)); auto. rewrite LEN. exact (co_ffp _ _ CO).
      + intros Hc. rewrite ?upd_length in *. lia.
      + exact NoN1.
    - (* last rung complete: the bracket is complete *)
      constructor; cbn [rungs current_rung first_free_pos bmode].
      + exact Sys1.
      + exact B2.
      + rewrite ?upd_length; lia.
      + intros k Hk. destruct (Nat.eq_dec k (current_rung b)) as [->|NE].
        * exists sl', lv. split; [exact N1|]. apply Full. exact F.
        * apply Done1. lia.
      + intros k e Hk Hn. apply nth_error_lt in Hn. rewrite ?upd_length in *. lia.
      + intros Hc. rewrite ?upd_length in *. lia.
      + reflexivity.
      + exact NoN1.
    - (* rung complete: promotion into the next rung *)
      assert (N2' : nth_error (rungs b) (S (current_rung b)) = Some (Future nl ms)).
      { unfold rungs1 in N2. rewrite nth_error_upd_neq in N2 by lia. exact N2. }
      destruct (check_rungs_spec _ CK) as [_ [Pos Dec]].
      assert (S0 : nth_error sys (current_rung b) = Some (length sl, lv)).
      { rewrite <- B1, nth_error_map, Nth. reflexivity. }
      assert (S1 : nth_error sys (S (current_rung b)) = Some (nl, ms)).
      { rewrite <- B1, nth_error_map, N2'. reflexivity. }
      assert (nl < length sl)%nat by (eapply Dec; eauto).
      assert (1 <= nl)%nat by (eapply Pos; eauto).
      destruct (occupied_values_some _ _ OV) as [MF LV].
      destruct (get_top_list_sub _ _ _ _ _ G) as [LT [rest' PT]].
      { rewrite LV, ?upd_length. lia. }
      assert (NDt : NoDup (somes top)).
      { apply somes_perm in PT. unfold tid in *. rewrite somes_app in PT. eapply nodup_app_l.
        eapply Permutation_NoDup; [apply Permutation_sym; exact PT|]. rewrite MF. exact ND. }
      set (newr := map (fun t1 : tid => (t1, @None mval)) top).
      assert (L2 : (S (current_rung b) < length rungs1)%nat) by (eapply nth_error_lt; eauto).
      constructor; cbn [rungs current_rung first_free_pos bmode].
      + rewrite (upd_same_map entry_shape _ _ _ _ N2); [exact Sys1|]. simpl. unfold newr.
        rewrite map_length, LT. reflexivity.
      + exact B2.
      + rewrite ?upd_length in *. lia.
      + intros k Hk. rewrite nth_error_upd_neq by lia. destruct (Nat.eq_dec k (current_rung b)) as [->|NE].
        * exists sl', lv. split; [exact N1|]. apply Full. exact F.
        * apply Done1. lia.
      + intros k e Hk. rewrite nth_error_upd_neq by lia. apply Fut1. lia.
      + intros _. exists newr, ms. split; [apply nth_error_upd_eq; exact L2|].
        assert (Snd : forall s, In s newr -> snd s = None).
        { intros s I. unfold newr in I. apply in_map_iff in I. destruct I as [x [<- _]]. reflexivity. }
        constructor.
        * lia.
        * intros pos s _ Hs. apply Snd. eapply nth_error_In; eauto.
        * destruct top as [|x top']; [simpl in LT; lia|]. exists 0%nat, x. reflexivity.
        * intros w I. apply Snd in I. discriminate.
        * unfold newr. rewrite map_map. simpl. rewrite map_id. exact NDt.
      + intros Hc. rewrite ?upd_length in *. lia.
      + intros St k sl0 lv0 w Hn I. apply nth_error_upd in Hn. destruct Hn as [[_ Hn]|[_ Hn]].
        * inversion Hn; subst sl0 lv0. unfold newr in I. apply in_map_iff in I. destruct I as [x [I _]]. discriminate.
        * exact (NoN1 St _ _ _ _ Hn I).
  Qed.

  (* the trial ids of the (new) current rung come from the old one, plus the trial written *)
  Lemma cur_ids_answer : forall x, In x (cur_ids b') -> In x (cur_ids b) \/ tr = Some x.
  Proof.
    destruct answer_facts as [t0 [v [N [T [MV [ND [IN [NN LEN]]]]]]]]. cbv zeta in *.
    destruct (bor_inv _ _ _ _ _ _ C R) as [E1 [E2 [E3 [_ [v' [MV' Cases]]]]]].
    rewrite MV in MV'. inversion MV'; subst v'. clear MV'. rewrite TID in Cases. cbv zeta in Cases.
    destruct (crl_inv _ _ _ C) as [Nth NC].
    assert (Lc : (current_rung b < length (rungs b))%nat) by (eapply nth_error_lt; eauto).
    assert (N1 : nth_error (upd (rungs b) (current_rung b) (Filled (upd sl (slot_index r) (tr, Some v)) lv))
                           (current_rung b) = Some (Filled (upd sl (slot_index r) (tr, Some v)) lv))
      by (apply nth_error_upd_eq; exact Lc).
    intros x Hx.
    destruct Cases as [[F [-> _]]|[[F [L [-> _]]]|[F [nl [ms [vals [top [rem [N2 [OV [G [-> _]]]]]]]]]]]];
      unfold cur_ids, current_rung_and_level in Hx; cbn [rungs current_rung] in Hx.
    - unfold slot, tid in *. rewrite N1 in Hx. apply IN. exact Hx.
    - match type of Hx with context [nth_error ?l ?k] => destruct (nth_error l k) eqn:E end.
      + apply nth_error_lt in E. rewrite ?upd_length in *. lia.
      + contradiction.
    - rewrite nth_error_upd_eq in Hx by (eapply nth_error_lt; eauto).
      rewrite map_map in Hx. simpl in Hx. rewrite map_id in Hx. apply somes_In in Hx.
      destruct (occupied_values_some _ _ OV) as [MF LV].
      destruct (get_top_list_sub _ _ _ _ _ G) as [_ [rest' PT]].
      { destruct (check_rungs_spec _ CK) as [_ [_ Dec]].
        assert (N2' : nth_error (rungs b) (S (current_rung b)) = Some (Future nl ms)).
        { rewrite nth_error_upd_neq in N2 by lia. exact N2. }
        assert (nl < length sl)%nat.
        { eapply (Dec (current_rung b)).
          - rewrite <- (bi_sys _ _ _ B), nth_error_map, Nth. reflexivity.
          - rewrite <- (bi_sys _ _ _ B), nth_error_map, N2'. reflexivity. }
        rewrite LV, ?upd_length. lia. }
      assert (Hv : In (Some x) (map fst vals)).
      { eapply Permutation_in; [exact PT|]. apply in_or_app. left. exact Hx. }
      apply IN. apply somes_In. rewrite MF in Hv. exact Hv.
  Qed.
End Answer.

(* ======================================================================== *)
(* Part 4: all brackets + the pending table                                  *)
(* ======================================================================== *)

Record pend_ok (bs : list bracket) (t : Z) (bid : nat) (s : slot_in_rung) : Prop := mkPendOk {
  po_b : exists b sl lv t0,
     nth_error bs bid = Some b /\ current_rung_and_level b = Ok (sl, lv) /\
     rung_index s = current_rung b /\ (slot_index s < first_free_pos b)%nat /\ level s = lv /\
     nth_error sl (slot_index s) = Some (t0, None) /\ (t0 = None \/ t0 = Some t) /\
     (t0 = None -> forall j b', nth_error bs j = Some b' -> ~ In t (cur_ids b'));
  po_tid : trial_id s = Some t;
  po_mv : metric_val s = None }.

Record InvCore (rss : list rung_system) (md : mode) (bs : list bracket) (P : list (Z * job)) (n : Z) : Prop := mkInvCore {
  ic_b : forall j b, nth_error bs j = Some b -> BInv (nth (j mod length rss) rss []) md b;
  ic_idlt : forall j b t, nth_error bs j = Some b -> In t (cur_ids b) -> (t < n)%Z;
  ic_g2 : forall j1 j2 b1 b2 t, j1 <> j2 -> nth_error bs j1 = Some b1 -> nth_error bs j2 = Some b2 ->
          In t (cur_ids b1) -> ~ In t (cur_ids b2);
  ic_keys : NoDup (map fst P);
  ic_klt : forall t j, In (t, j) P -> (t < n)%Z;
  ic_p : forall t bid s, In (t, (bid, s)) P -> pend_ok bs t bid s;
  ic_p3 : forall t1 t2 bid s1 s2, In (t1, (bid, s1)) P -> In (t2, (bid, s2)) P ->
          slot_index s1 = slot_index s2 -> t1 = t2;
  ic_p4 : forall j b sl lv pos t0, nth_error bs j = Some b -> current_rung_and_level b = Ok (sl, lv) ->
          (pos < first_free_pos b)%nat -> nth_error sl pos = Some (t0, None) ->
          exists t s, In (t, (j, s)) P /\ slot_index s = pos;
  (* trial ids are earlier values of the Tuner's counter, which starts at 0 *)
  ic_idge : forall j b t, nth_error bs j = Some b -> In t (cur_ids b) -> (0 <= t)%Z;
  ic_kge : forall t j, In (t, j) P -> (0 <= t)%Z;
  ic_nge : (0 <= n)%Z }.

Definition rss_ok (rss : list rung_system) : Prop :=
  rss <> [] /\ forall off, (off < length rss)%nat -> check_rungs (nth off rss []) = true.

Lemma check_offsets_ok : forall rss mx off, check_offsets rss mx off = true ->
  forall k, (k < length rss)%nat -> check_rungs (nth k rss []) = true.
Proof.
  induction rss as [|rs rss IH]; intros mx off H k Hk; simpl in *; [lia|].
  repeat (apply andb_true_iff in H; destruct H as [H ?]).
  destruct k as [|k]; [assumption|]. eapply IH; eauto. lia.
Qed.

Lemma check_bracket_rungs_ok : forall rss, check_bracket_rungs rss = true -> rss_ok rss.
Proof.
  unfold check_bracket_rungs, rss_ok. intros [|rs0 rss] H; [discriminate|].
  split; [congruence|]. intros off Ho. eapply check_offsets_ok; eauto.
Qed.

Lemma mod_lt_len : forall (rss : list rung_system) j, rss <> [] -> (j mod length rss < length rss)%nat.
Proof. intros rss j H. apply Nat.mod_upper_bound. destruct rss; simpl; [congruence|lia]. Qed.

Lemma nth_error_snoc : forall {A} (l : list A) x j y, nth_error (l ++ [x]) j = Some y ->
  ((j < length l)%nat /\ nth_error l j = Some y) \/ (j = length l /\ y = x).
Proof.
  intros A l x j y H. destruct (Nat.lt_ge_cases j (length l)) as [L|L].
  - left. rewrite nth_error_app1 in H by exact L. auto.
  - right. rewrite nth_error_app2 in H by exact L.
    destruct (j - length l)%nat as [|k] eqn:E; simpl in H.
    + inversion H. split; [lia|reflexivity].
    + destruct k; discriminate.
Qed.

Lemma cur_ids_new : forall sys md, cur_ids (new_bracket sys md) = [].
Proof.
  intros [|[size lv] rest] md; unfold cur_ids, current_rung_and_level, new_bracket; simpl; [reflexivity|].
  apply somes_repeat_none.
Qed.

Lemma pend_ok_ext : forall bs bs' t bid s,
  pend_ok bs t bid s ->
  (forall j b, nth_error bs j = Some b -> nth_error bs' j = Some b) ->
  (forall j b', nth_error bs' j = Some b' -> nth_error bs j = Some b' \/ cur_ids b' = []) ->
  pend_ok bs' t bid s.
Proof.
  intros bs bs' t bid s [[b [sl [lv [t0 [N [C [E1 [E2 [E3 [E4 [E5 K]]]]]]]]]]] T M] Ext Back.
  constructor; auto. exists b, sl, lv, t0. repeat split; auto.
  intros Z0 j b' Nj. destruct (Back _ _ Nj) as [Nj'|Em]; [eapply K; eauto|]. rewrite Em. auto.
Qed.

(* Lemma A: opening a new bracket *)
Lemma core_new_bracket : forall rss md bs P n, rss_ok rss -> InvCore rss md bs P n ->
  InvCore rss md (bs ++ [new_bracket (nth (length bs mod length rss) rss []) md]) P n.
Proof.
  intros rss md bs P n [NE CK] I. set (nb := new_bracket _ md).
  assert (Ext : forall j b, nth_error bs j = Some b -> nth_error (bs ++ [nb]) j = Some b).
  { intros j b H. rewrite nth_error_app1; [exact H|eapply nth_error_lt; eauto]. }
  assert (CN : cur_ids nb = []) by apply cur_ids_new.
  destruct I as [I1 I2 I3 I4 I5 I6 I7 I8 I9 I10 I11]. constructor; auto.
  - intros j b H. apply nth_error_snoc in H. destruct H as [[_ H]|[-> ->]]; [auto|].
    apply binv_new. apply CK. apply mod_lt_len. exact NE.
  - intros j b t H. apply nth_error_snoc in H. destruct H as [[_ H]|[-> ->]]; [eauto|].
    rewrite CN. contradiction.
  - intros j1 j2 b1 b2 t NEj H1 H2. apply nth_error_snoc in H1. apply nth_error_snoc in H2.
    destruct H1 as [[_ H1]|[-> ->]]; [|rewrite CN; contradiction].
    destruct H2 as [[_ H2]|[-> ->]]; [eauto|]. rewrite CN. auto.
  - intros t bid s H. eapply pend_ok_ext; eauto.
    intros j b' Hj. apply nth_error_snoc in Hj. destruct Hj as [[_ Hj]|[-> ->]]; auto.
  - intros j b sl lv pos t0 H C Hp Hn. apply nth_error_snoc in H. destruct H as [[_ H]|[-> ->]]; [eauto|].
    exfalso. unfold nb, new_bracket in Hp. destruct (nth _ rss []) as [|[? ?] ?]; simpl in Hp; lia.
  - intros j b t H. apply nth_error_snoc in H. destruct H as [[_ H]|[-> ->]]; [eauto|].
    rewrite CN. contradiction.
Qed.

Lemma crl_bump : forall b, current_rung_and_level (bump b) = current_rung_and_level b.
Proof. reflexivity. Qed.
Lemma cur_ids_bump : forall b, cur_ids (bump b) = cur_ids b.
Proof. reflexivity. Qed.

Lemma in_cur_ids : forall b sl lv pos t mv, current_rung_and_level b = Ok (sl, lv) ->
  nth_error sl pos = Some (Some t, mv) -> In t (cur_ids b).
Proof.
  intros b sl lv pos t mv C N. unfold cur_ids. rewrite C. apply somes_In.
  apply nth_error_In in N. apply (in_map fst) in N. exact N.
Qed.

Lemma nodup_Zkeys_functional : forall {B} (l : list (Z * B)) a u v,
  NoDup (map fst l) -> In (a, u) l -> In (a, v) l -> u = v.
Proof.
  induction l as [|[k w] l IH]; intros a u v N Hu Hv; simpl in *; [contradiction|].
  inversion N as [|? ? Hn N']; subst.
  destruct Hu as [Hu|Hu], Hv as [Hv|Hv].
  - congruence.
  - inversion Hu; subst. exfalso. apply Hn. apply (in_map fst) in Hv. exact Hv.
  - inversion Hv; subst. exfalso. apply Hn. apply (in_map fst) in Hu. exact Hu.
  - eapply IH; eauto.
Qed.

(* a trial waiting in a not yet handed-out slot is not pending *)
Lemma resume_not_pending : forall rss md bs P n i b sl lv t mv,
  InvCore rss md bs P n -> nth_error bs i = Some b -> current_rung_and_level b = Ok (sl, lv) ->
  nth_error sl (first_free_pos b) = Some (Some t, mv) -> ~ In t (map fst P).
Proof.
  intros rss md bs P n i b sl lv t mv I Nb C Ns Hin.
  apply in_map_iff in Hin. destruct Hin as [[t' [bid' s']] [E Hin]]. simpl in E. subst t'.
  assert (Tin : In t (cur_ids b)) by (eapply in_cur_ids; eauto).
  destruct (ic_p _ _ _ _ _ I _ _ _ Hin) as [[b2 [sl2 [lv2 [t0 [N2 [C2 [E1 [E2 [E3 [E4 [E5 K]]]]]]]]]]] _ _].
  destruct E5 as [->| ->].
  - exact (K eq_refl _ _ Nb Tin).
  - assert (Tin2 : In t (cur_ids b2)) by (eapply in_cur_ids; eauto).
    destruct (Nat.eq_dec bid' i) as [->|NEq].
    + rewrite Nb in N2. inversion N2; subst b2. rewrite C in C2. inversion C2; subst sl2 lv2.
      assert (CO := binv_cur_ok _ _ _ _ _ (ic_b _ _ _ _ _ I _ _ Nb) C).
      assert (slot_index s' = first_free_pos b).
      { eapply (nodup_somes_pos (map fst sl)); [exact (co_nodup _ _ CO)| |].
        - rewrite nth_error_map. unfold slot, tid in *. rewrite E4. reflexivity.
        - rewrite nth_error_map. unfold slot, tid in *. rewrite Ns. reflexivity. }
      lia.
    + exact (ic_g2 _ _ _ _ _ I _ _ _ _ _ NEq N2 Nb Tin2 Tin).
Qed.

(* Lemma B: handing out the first free slot of bracket i to trial t *)
Lemma core_hand_out : forall rss md bs P n n' i b sl lv t0 mv t,
  InvCore rss md bs P n -> nth_error bs i = Some b -> current_rung_and_level b = Ok (sl, lv) ->
  nth_error sl (first_free_pos b) = Some (t0, mv) ->
  ((t0 = None /\ t = n /\ n' = (n + 1)%Z) \/ (t0 = Some t /\ n' = n)) ->
  InvCore rss md (upd bs i (bump b))
          (P ++ [(t, (i, mkSIR (current_rung b) lv (first_free_pos b) (Some t) None))]) n'.
Proof.
  intros rss md bs P n n' i b sl lv t0 mv t I Nb C Ns Kind.
  assert (Li : (i < length bs)%nat) by (eapply nth_error_lt; eauto).
  assert (Bb := ic_b _ _ _ _ _ I _ _ Nb).
  assert (CO := binv_cur_ok _ _ _ _ _ Bb C).
  assert (MV : mv = None).
  { assert (X := co_free _ _ CO _ _ (le_n _) Ns). exact X. } subst mv.
  assert (Ls : (first_free_pos b < length sl)%nat) by (eapply nth_error_lt; eauto).
  assert (Nn' : (n <= n')%Z) by (destruct Kind as [[_ [_ ->]]|[_ ->]]; lia).
  assert (Tlt : (t < n')%Z).
  { destruct Kind as [[_ [-> ->]]|[-> ->]]; [lia|]. eapply (ic_idlt _ _ _ _ _ I); eauto. eapply in_cur_ids; eauto. }
  assert (Tnew : ~ In t (map fst P)).
  { destruct Kind as [[_ [-> _]]|[-> _]].
    - intro H. apply in_map_iff in H. destruct H as [[t' j] [E H]]. simpl in E. subst t'.
      apply (ic_klt _ _ _ _ _ I) in H. lia.
    - eapply resume_not_pending; eauto. }
  (* brackets after the update *)
  assert (Get : forall j bj', nth_error (upd bs i (bump b)) j = Some bj' ->
            exists bj, nth_error bs j = Some bj /\ current_rung_and_level bj' = current_rung_and_level bj /\
                       cur_ids bj' = cur_ids bj /\ (first_free_pos bj <= first_free_pos bj')%nat /\
                       current_rung bj' = current_rung bj /\ ((j = i /\ bj' = bump b /\ bj = b) \/ (j <> i /\ bj' = bj))).
  { intros j bj' H. apply nth_error_upd in H. destruct H as [[<- ->]|[NEq H]].
    - exists b. repeat split; auto. simpl. lia.
    - exists bj'. repeat split; auto. }
  set (s := mkSIR (current_rung b) lv (first_free_pos b) (Some t) None).
  assert (Ni : nth_error (upd bs i (bump b)) i = Some (bump b)) by (apply nth_error_upd_eq; exact Li).
  destruct I as [I1 I2 I3 I4 I5 I6 I7 I8 I9 I10 I11]. constructor.
  - intros j bj' H. destruct (Get _ _ H) as [bj [Hj [_ [_ [_ [_ [[-> [-> ->]]|[_ ->]]]]]]]]; [|auto].
    eapply binv_bump; eauto.
  - intros j bj' x H Hx. destruct (Get _ _ H) as [bj [Hj [_ [CI _]]]]. rewrite CI in Hx.
    specialize (I2 _ _ _ Hj Hx). lia.
  - intros j1 j2 b1 b2 x NEq H1 H2 Hx1 Hx2.
    destruct (Get _ _ H1) as [c1 [G1 [_ [CI1 _]]]]. destruct (Get _ _ H2) as [c2 [G2 [_ [CI2 _]]]].
    rewrite CI1 in Hx1. rewrite CI2 in Hx2. eapply I3; eauto.
  - rewrite map_app. simpl. apply nodup_app_intro; [exact I4|constructor; [simpl; tauto|constructor]|].
    intros x Hx [<-|[]]. contradiction.
  - intros x j H. apply in_app_or in H. destruct H as [H|[H|[]]]; [apply I5 in H; lia|]. inversion H; subst. exact Tlt.
  - intros x bid sx H. apply in_app_or in H. destruct H as [H|[H|[]]].
    + destruct (I6 _ _ _ H) as [[b2 [sl2 [lv2 [t2 [N2 [C2 [E1 [E2 [E3 [E4 [E5 K]]]]]]]]]]] T M].
      constructor; auto.
      destruct (Nat.eq_dec bid i) as [->|NEq].
      * rewrite Nb in N2. inversion N2; subst b2.
        exists (bump b), sl2, lv2, t2. rewrite crl_bump. repeat split; auto.
        { simpl. lia. }
        intros Z0 j bj' Hj. destruct (Get _ _ Hj) as [bj [Hj' [_ [CI _]]]]. rewrite CI. eapply K; eauto.
      * exists b2, sl2, lv2, t2. repeat split; auto.
        { rewrite nth_error_upd_neq by congruence. exact N2. }
        intros Z0 j bj' Hj. destruct (Get _ _ Hj) as [bj [Hj' [_ [CI _]]]]. rewrite CI. eapply K; eauto.
    + inversion H; subst x bid sx. subst s. constructor; [|reflexivity|reflexivity].
      exists (bump b), sl, lv, t0. rewrite crl_bump. repeat split; auto.
      * destruct Kind as [[-> _]|[-> _]]; auto.
      * intros -> j bj' Hj Hin. destruct (Get _ _ Hj) as [bj [Hj' [_ [CI _]]]]. rewrite CI in Hin.
        destruct Kind as [[_ [-> _]]|[Ab _]]; [|discriminate].
        specialize (I2 _ _ _ Hj' Hin). lia.
  - intros t1 t2 bid s1 s2 H1 H2 Es.
    apply in_app_or in H1. apply in_app_or in H2.
    destruct H1 as [H1|[H1|[]]], H2 as [H2|[H2|[]]].
    + eapply I7; eauto.
    + inversion H2; subst t2 bid s2. simpl in Es.
      destruct (I6 _ _ _ H1) as [[b2 [sl2 [lv2 [t3 [N2 [C2 [E1 [E2 _]]]]]]]] _ _].
      rewrite Nb in N2. inversion N2; subst b2. lia.
    + inversion H1; subst t1 bid s1. simpl in Es.
      destruct (I6 _ _ _ H2) as [[b2 [sl2 [lv2 [t3 [N2 [C2 [E1 [E2 _]]]]]]]] _ _].
      rewrite Nb in N2. inversion N2; subst b2. lia.
    + inversion H1; inversion H2; subst. reflexivity.
  - intros j bj' sl2 lv2 pos t2 H C2 Hp Hn.
    destruct (Get _ _ H) as [bj [Hj [CE [_ [_ [_ [[-> [-> ->]]|[NEq ->]]]]]]]].
    + rewrite crl_bump, C in C2. inversion C2; subst sl2 lv2. simpl in Hp.
      destruct (Nat.eq_dec pos (first_free_pos b)) as [->|NEp].
      * exists t, s. split; [apply in_or_app; right; left; reflexivity|reflexivity].
      * destruct (I8 i b sl lv pos t2 Nb C) as [x [sx [Hx Ex]]]; [lia|exact Hn|].
        exists x, sx. split; [apply in_or_app; left; exact Hx|exact Ex].
    + destruct (I8 j bj sl2 lv2 pos t2 Hj C2 Hp Hn) as [x [sx [Hx Ex]]].
      exists x, sx. split; [apply in_or_app; left; exact Hx|exact Ex].
  - intros j bj' x H Hx. destruct (Get _ _ H) as [bj [Hj [_ [CI _]]]]. rewrite CI in Hx. eapply I9; eauto.
  - intros x j H. apply in_app_or in H. destruct H as [H|[H|[]]]; [eapply I10; eauto|]. inversion H; subst.
    destruct Kind as [[_ [-> _]]|[-> _]]; [exact I11|]. eapply I9; [exact Nb|]. eapply in_cur_ids; eauto.
  - lia.
Qed.

Lemma remove_key_In : forall t (P : list (Z * job)) x, In x (remove_key t P) <-> In x P /\ fst x <> t.
Proof.
  induction P as [|[k w] P IH]; intro x; simpl; [tauto|].
  destruct (Z.eqb k t) eqn:E.
  - apply Z.eqb_eq in E. subst k. rewrite IH. split.
    + intros [H1 H2]. auto.
    + intros [[H1|H1] H2]; [subst x; simpl in H2; congruence|auto].
  - apply Z.eqb_neq in E. simpl. rewrite IH. split.
    + intros [H|[H1 H2]]; [subst x; simpl; auto|auto].
    + intros [[H1|H1] H2]; auto.
Qed.

Lemma remove_key_nodup : forall t (P : list (Z * job)), NoDup (map fst P) -> NoDup (map fst (remove_key t P)).
Proof.
  induction P as [|[k w] P IH]; intro N; simpl; [constructor|]. inversion N; subst.
  destruct (Z.eqb k t); [auto|]. simpl. constructor; [|auto].
  intro H. apply H1. apply in_map_iff in H. destruct H as [x [E H]]. apply remove_key_In in H.
  apply in_map_iff. exists x. tauto.
Qed.

Lemma lookup_In : forall t (P : list (Z * job)) j, lookup t P = Some j -> In (t, j) P.
Proof.
  induction P as [|[k w] P IH]; intros j H; simpl in *; [discriminate|].
  destruct (Z.eqb k t) eqn:E; [apply Z.eqb_eq in E; inversion H; subst; auto|auto].
Qed.

Lemma lookup_None : forall t (P : list (Z * job)), lookup t P = None -> ~ In t (map fst P).
Proof.
  induction P as [|[k w] P IH]; intros H; simpl in *; [tauto|].
  destruct (Z.eqb k t) eqn:E; [discriminate|]. apply Z.eqb_neq in E. intros [X|X]; [congruence|]. exact (IH H X).
Qed.

Lemma lookup_remove : forall t (P : list (Z * job)), lookup t (remove_key t P) = None.
Proof.
  induction P as [|[k w] P IH]; simpl; [reflexivity|].
  destruct (Z.eqb k t) eqn:E; [exact IH|]. simpl. rewrite E. exact IH.
Qed.

(* Lemma C: a pending job is answered (result at the milestone, or failure = NaN) *)
Lemma core_answer : forall rss md bs P n t bid s v b b' out,
  rss_ok rss -> InvCore rss md bs P n -> In (t, (bid, s)) P -> nth_error bs bid = Some b ->
  bracket_on_result b (mkSIR (rung_index s) (level s) (slot_index s) (trial_id s) (Some v)) = Ok (b', out) ->
  InvCore rss md (upd bs bid b') (remove_key t P) n.
Proof.
  intros rss md bs P n t bid s v b b' out [NE CKs] I Hin Nb R.
  set (r := mkSIR (rung_index s) (level s) (slot_index s) (trial_id s) (Some v)) in *.
  destruct (ic_p _ _ _ _ _ I _ _ _ Hin) as [[b2 [sl [lv [t0 [N2 [C [E1 [E2 [E3 [E4 [E5 K]]]]]]]]]]] T M].
  rewrite Nb in N2. inversion N2; subst b2. clear N2.
  assert (Lb : (bid < length bs)%nat) by (eapply nth_error_lt; eauto).
  assert (CK : check_rungs (nth (bid mod length rss) rss []) = true) by (apply CKs, mod_lt_len, NE).
  assert (Bb := ic_b _ _ _ _ _ I _ _ Nb).
  assert (TID : trial_id r = Some t) by exact T.
  assert (FRESH : forall t', Some t = Some t' -> nth_error sl (slot_index r) = Some (None, None) -> ~ In t' (cur_ids b)).
  { intros t' Et X. inversion Et; subst t'. simpl in X. rewrite E4 in X. inversion X; subst t0. eapply K; eauto. }
  assert (NANF : Some t = None -> metric_val r = Some NaN) by discriminate.
  assert (STR : strict = true -> Some t <> None) by (intros _; discriminate).
  assert (Bb' := binv_answer _ _ _ _ _ _ _ _ _ CK Bb C R TID FRESH NANF STR).
  assert (CIA0 := cur_ids_answer _ _ _ _ _ _ _ _ _ CK Bb C R TID FRESH NANF STR).
  assert (CIA : forall x, In x (cur_ids b') -> In x (cur_ids b) \/ x = t).
  { intros x Hx. destruct (CIA0 x Hx) as [H|H]; [left; exact H|right; congruence]. }
  assert (Telse : forall j b2, j <> bid -> nth_error bs j = Some b2 -> ~ In t (cur_ids b2)).
  { intros j b2 NEq Nj. destruct E5 as [->| ->]; [eapply K; eauto|].
    assert (In t (cur_ids b)) by (eapply in_cur_ids; eauto).
    eapply (ic_g2 _ _ _ _ _ I bid j); eauto. }
  destruct (bor_inv _ _ _ _ _ _ C R) as [_ [_ [_ [_ [v' [MV' Cases]]]]]].
  simpl in MV'. inversion MV'; subst v'. clear MV'. cbv zeta in Cases. rewrite TID in Cases. simpl slot_index in Cases.
  set (sl' := upd sl (slot_index s) (Some t, Some v)) in *.
  destruct (crl_inv _ _ _ C) as [Nth _].
  assert (Lc : (current_rung b < length (rungs b))%nat) by (eapply nth_error_lt; eauto).
  (* the shape of b' that matters for the pending table *)
  assert (Shape : (is_full sl' (first_free_pos b) = false /\ current_rung_and_level b' = Ok (sl', lv) /\
                   first_free_pos b' = first_free_pos b /\ current_rung b' = current_rung b)
                  \/ (is_full sl' (first_free_pos b) = true /\ first_free_pos b' = 0%nat)).
  { destruct Cases as [[F [-> _]]|[[F [L [-> _]]]|[F [nl [ms [vals [top [rem [_ [_ [_ [-> _]]]]]]]]]]]].
    - left. split; [exact F|]. split; [|split; reflexivity]. apply crl_of_nth. cbn [rungs current_rung].
      apply nth_error_upd_eq. exact Lc.
    - right. auto.
    - right. auto. }
  assert (Get : forall j bj', nth_error (upd bs bid b') j = Some bj' ->
                (j = bid /\ bj' = b') \/ (j <> bid /\ nth_error bs j = Some bj')).
  { intros j bj' H. apply nth_error_upd in H. destruct H as [[<- ->]|[N H]]; [left; auto|right; split; [congruence|exact H]]. }
  assert (Sl'pos : nth_error sl' (slot_index s) = Some (Some t, Some v)).
  { unfold sl'. apply nth_error_upd_eq. eapply nth_error_lt; eauto. }
  assert (Knew : forall t2, t2 <> t -> (forall j b'', nth_error bs j = Some b'' -> ~ In t2 (cur_ids b'')) ->
                 forall j bj', nth_error (upd bs bid b') j = Some bj' -> ~ In t2 (cur_ids bj')).
  { intros t2 NEt K2 j bj' Hj Hx. destruct (Get _ _ Hj) as [[-> ->]|[_ Hj']]; [|eapply K2; eauto].
    destruct (CIA _ Hx) as [Hx'|Hx']; [eapply K2; eauto|congruence]. }
  destruct I as [I1 I2 I3 I4 I5 I6 I7 I8 I9 I10 I11]. constructor.
  - intros j bj' H. destruct (Get _ _ H) as [[-> ->]|[_ H']]; auto.
  - intros j bj' x H Hx. destruct (Get _ _ H) as [[-> ->]|[_ H']]; [|eauto].
    destruct (CIA _ Hx) as [Hx' | ->]; eauto.
  - intros j1 j2 b1 b2 x NEq H1 H2 Hx1 Hx2.
    destruct (Get _ _ H1) as [[-> ->]|[N1 H1']]; destruct (Get _ _ H2) as [[-> ->]|[N2 H2']].
    + congruence.
    + destruct (CIA _ Hx1) as [Hx' | ->];
        [exact (I3 bid j2 b b2 x (not_eq_sym N2) Nb H2' Hx' Hx2)|exact (Telse j2 b2 N2 H2' Hx2)].
    + destruct (CIA _ Hx2) as [Hx' | ->];
        [exact (I3 j1 bid b1 b x N1 H1' Nb Hx1 Hx')|exact (Telse j1 b1 N1 H1' Hx1)].
    + exact (I3 _ _ _ _ _ NEq H1' H2' Hx1 Hx2).
  - apply remove_key_nodup. exact I4.
  - intros x j H. apply remove_key_In in H. destruct H as [H _]. eauto.
  - intros t2 bid2 s2 H. apply remove_key_In in H. destruct H as [H NEt]. simpl in NEt.
    destruct (I6 _ _ _ H) as [[b3 [sl3 [lv3 [t3 [N3 [C3 [F1 [F2 [F3 [F4 [F5 K3]]]]]]]]]]] T3 M3].
    constructor; auto.
    destruct (Nat.eq_dec bid2 bid) as [-> | NEq].
    + rewrite Nb in N3. inversion N3; subst b3. rewrite C in C3. inversion C3; subst sl3 lv3.
      assert (NEp : slot_index s2 <> slot_index s).
      { intro X. apply NEt. eapply I7; eauto. }
      assert (Sl2 : nth_error sl' (slot_index s2) = Some (t3, None)).
      { unfold sl'. rewrite nth_error_upd_neq by congruence. exact F4. }
      destruct Shape as [[F [C' [FF CR]]]|[F _]].
      * exists b', sl', lv, t3. repeat split; auto; try congruence.
        { apply nth_error_upd_eq. exact Lb. }
        intros Z0. apply Knew; [exact NEt|exact (K3 Z0)].
      * exfalso. destruct (is_full_spec _ _ F) as [_ Occ]. apply nth_error_In in Sl2.
        apply (Occ _ Sl2). reflexivity.
    + exists b3, sl3, lv3, t3. repeat split; auto.
      { rewrite nth_error_upd_neq by congruence. exact N3. }
      intros Z0. apply Knew; [exact NEt|exact (K3 Z0)].
  - intros t1 t2 bid2 s1 s2 H1 H2. apply remove_key_In in H1. apply remove_key_In in H2.
    destruct H1 as [H1 _]. destruct H2 as [H2 _]. eapply I7; eauto.
  - intros j bj' sl2 lv2 pos t2 H C2 Hp Hn. destruct (Get _ _ H) as [[-> ->]|[NEq H']].
    + destruct Shape as [[F [C' [FF CR]]]|[F FF]]; [|lia].
      rewrite C' in C2. inversion C2; subst sl2 lv2.
      assert (NEp : pos <> slot_index s).
      { intros ->. unfold slot, tid in *. rewrite Sl'pos in Hn. discriminate. }
      unfold sl' in Hn. rewrite nth_error_upd_neq in Hn by congruence.
      destruct (I8 bid b sl lv pos t2 Nb C) as [x [sx [Hx Ex]]]; [lia|exact Hn|].
      exists x, sx. split; [|exact Ex]. apply remove_key_In. split; [exact Hx|]. simpl. intros ->.
      assert (X := nodup_Zkeys_functional _ _ _ _ I4 Hx Hin). inversion X; subst. congruence.
    + destruct (I8 j bj' sl2 lv2 pos t2 H' C2 Hp Hn) as [x [sx [Hx Ex]]].
      exists x, sx. split; [|exact Ex]. apply remove_key_In. split; [exact Hx|]. simpl. intros ->.
      assert (X := nodup_Zkeys_functional _ _ _ _ I4 Hx Hin). inversion X; subst. congruence.
  - intros j bj' x H Hx. destruct (Get _ _ H) as [[-> ->]|[_ H']]; [|eauto].
    destruct (CIA _ Hx) as [Hx' | ->]; [eapply I9; eauto|eapply I10; eauto].
  - intros x j H. apply remove_key_In in H. destruct H as [H _]. eauto.
  - exact I11.
Qed.

(* Lemma C': the searcher delivers no config for the slot just handed out (trial id None):
   the slot is reported as failed (NaN) right away, no trial becomes pending *)
Lemma core_fail_slot : forall rss md bs P n i b sl lv b' out,
  strict = false ->
  rss_ok rss -> InvCore rss md bs P n -> nth_error bs i = Some b ->
  current_rung_and_level b = Ok (sl, lv) -> nth_error sl (first_free_pos b) = Some (None, None) ->
  bracket_on_result (bump b) (mkSIR (current_rung b) lv (first_free_pos b) None (Some NaN)) = Ok (b', out) ->
  InvCore rss md (upd bs i b') P n.
Proof.
  intros rss md bs P n i b sl lv b' out NS [NE CKs] I Nb C Ns R.
  set (r := mkSIR (current_rung b) lv (first_free_pos b) None (Some NaN)) in *.
  assert (Li : (i < length bs)%nat) by (eapply nth_error_lt; eauto).
  assert (CK : check_rungs (nth (i mod length rss) rss []) = true) by (apply CKs, mod_lt_len, NE).
  assert (Bb := ic_b _ _ _ _ _ I _ _ Nb).
  assert (Ls : (first_free_pos b < length sl)%nat) by (eapply nth_error_lt; eauto).
  assert (Bu := binv_bump _ _ _ _ _ Bb C Ls).
  assert (Cu : current_rung_and_level (bump b) = Ok (sl, lv)) by (rewrite crl_bump; exact C).
  assert (TID : trial_id r = None) by reflexivity.
  assert (FRESH : forall t', @None Z = Some t' -> nth_error sl (slot_index r) = Some (None, None) -> ~ In t' (cur_ids (bump b)))
    by (intros; discriminate).
  assert (NANF : @None Z = None -> metric_val r = Some NaN) by reflexivity.
  assert (STR : strict = true -> @None Z <> None) by (rewrite NS; discriminate).
  assert (Bb' := binv_answer _ _ _ _ _ _ _ _ _ CK Bu Cu R TID FRESH NANF STR).
  assert (CIA0 := cur_ids_answer _ _ _ _ _ _ _ _ _ CK Bu Cu R TID FRESH NANF STR).
  assert (CIA : forall x, In x (cur_ids b') -> In x (cur_ids b)).
  { intros x Hx. destruct (CIA0 x Hx) as [H|H]; [exact H|discriminate]. }
  destruct (bor_inv _ _ _ _ _ _ Cu R) as [_ [_ [_ [_ [v' [MV' Cases]]]]]].
  simpl in MV'. inversion MV'; subst v'. clear MV'. cbv zeta in Cases. simpl in Cases.
  set (sl' := upd sl (first_free_pos b) (@None Z, Some NaN)) in *.
  destruct (crl_inv _ _ _ C) as [Nth _].
  assert (Lc : (current_rung b < length (rungs b))%nat) by (eapply nth_error_lt; eauto).
  assert (Shape : (is_full sl' (S (first_free_pos b)) = false /\ current_rung_and_level b' = Ok (sl', lv) /\
                   first_free_pos b' = S (first_free_pos b) /\ current_rung b' = current_rung b)
                  \/ (is_full sl' (S (first_free_pos b)) = true /\ first_free_pos b' = 0%nat)).
  { destruct Cases as [[F [-> _]]|[[F [L [-> _]]]|[F [nl [ms [vals [top [rem [_ [_ [_ [-> _]]]]]]]]]]]].
    - left. split; [exact F|]. split; [|split; reflexivity]. apply crl_of_nth. cbn [rungs current_rung].
      apply nth_error_upd_eq. exact Lc.
    - right. auto.
    - right. auto. }
  assert (Get : forall j bj', nth_error (upd bs i b') j = Some bj' ->
                (j = i /\ bj' = b') \/ (j <> i /\ nth_error bs j = Some bj')).
  { intros j bj' H. apply nth_error_upd in H. destruct H as [[<- ->]|[N H]]; [left; auto|right; split; [congruence|exact H]]. }
  assert (Sl'pos : nth_error sl' (first_free_pos b) = Some (None, Some NaN)).
  { unfold sl'. apply nth_error_upd_eq. exact Ls. }
  assert (Knew : forall t2, (forall j b'', nth_error bs j = Some b'' -> ~ In t2 (cur_ids b'')) ->
                 forall j bj', nth_error (upd bs i b') j = Some bj' -> ~ In t2 (cur_ids bj')).
  { intros t2 K2 j bj' Hj Hx. destruct (Get _ _ Hj) as [[-> ->]|[_ Hj']]; [|eapply K2; eauto].
    eapply K2; [exact Nb|]. apply CIA. exact Hx. }
  destruct I as [I1 I2 I3 I4 I5 I6 I7 I8 I9 I10 I11]. constructor; auto.
  - intros j bj' H. destruct (Get _ _ H) as [[-> ->]|[_ H']]; auto.
  - intros j bj' x H Hx. destruct (Get _ _ H) as [[-> ->]|[_ H']]; [|eauto]. eapply I2; [exact Nb|]. apply CIA. exact Hx.
  - intros j1 j2 b1 b2 x NEq H1 H2 Hx1 Hx2.
    destruct (Get _ _ H1) as [[-> ->]|[N1 H1']]; destruct (Get _ _ H2) as [[-> ->]|[N2 H2']].
    + congruence.
    + exact (I3 i j2 b b2 x (not_eq_sym N2) Nb H2' (CIA _ Hx1) Hx2).
    + exact (I3 j1 i b1 b x N1 H1' Nb Hx1 (CIA _ Hx2)).
    + exact (I3 _ _ _ _ _ NEq H1' H2' Hx1 Hx2).
  - intros t2 bid2 s2 H.
    destruct (I6 _ _ _ H) as [[b3 [sl3 [lv3 [t3 [N3 [C3 [F1 [F2 [F3 [F4 [F5 K3]]]]]]]]]]] T3 M3].
    constructor; auto.
    destruct (Nat.eq_dec bid2 i) as [->|NEq].
    + rewrite Nb in N3. inversion N3; subst b3. rewrite C in C3. inversion C3; subst sl3 lv3.
      assert (Sl2 : nth_error sl' (slot_index s2) = Some (t3, None)).
      { unfold sl'. rewrite nth_error_upd_neq by lia. exact F4. }
      destruct Shape as [[F [C' [FF CR]]]|[F _]].
      * exists b', sl', lv, t3. repeat split; auto; try congruence; try lia.
        { apply nth_error_upd_eq. exact Li. }
        intros Z0. apply Knew. exact (K3 Z0).
      * exfalso. destruct (is_full_spec _ _ F) as [_ Occ]. apply nth_error_In in Sl2.
        apply (Occ _ Sl2). reflexivity.
    + exists b3, sl3, lv3, t3. repeat split; auto.
      { rewrite nth_error_upd_neq by congruence. exact N3. }
      intros Z0. apply Knew. exact (K3 Z0).
  - intros j bj' sl2 lv2 pos t2 H C2 Hp Hn. destruct (Get _ _ H) as [[-> ->]|[NEq H']].
    + destruct Shape as [[F [C' [FF CR]]]|[F FF]]; [|lia].
      rewrite C' in C2. inversion C2; subst sl2 lv2.
      assert (NEp : pos <> first_free_pos b).
      { intros ->. unfold slot, tid in *. rewrite Sl'pos in Hn. discriminate. }
      unfold sl' in Hn. rewrite nth_error_upd_neq in Hn by congruence.
      apply (I8 i b sl lv pos t2 Nb C); [lia|exact Hn].
    + eapply I8; eauto.
  - intros j bj' x H Hx. destruct (Get _ _ H) as [[-> ->]|[_ H']]; [|eauto]. eapply I9; [exact Nb|]. apply CIA. exact Hx.
Qed.

(* ======================================================================== *)
(* Part 5: bracket manager and scheduler shell                               *)
(* ======================================================================== *)

Definition has_free_slot (b : bracket) : bool :=
  match next_free_slot b with Ok (_, Some _) => true | _ => false end.

Record Inv (rss : list rung_system) (md : mode) (st : shell) : Prop := mkInv {
  iv_rs : m_rs (s_mgr st) = rss;
  iv_mode : m_mode (s_mgr st) = md;
  iv_off : m_offsets (s_mgr st) =
           map (fun j => (j mod length rss)%nat) (seq 0 (length (m_brackets (s_mgr st))));
  iv_prim : (m_primary (s_mgr st) < length (m_brackets (s_mgr st)))%nat;
  iv_lt : forall j b, nth_error (m_brackets (s_mgr st)) j = Some b -> (j < m_primary (s_mgr st))%nat ->
          is_bracket_complete b = true;
  iv_pc : forall b, nth_error (m_brackets (s_mgr st)) (m_primary (s_mgr st)) = Some b ->
          is_bracket_complete b = false;
  iv_core : InvCore rss md (m_brackets (s_mgr st)) (s_pending st) (s_ntrials st) }.

Lemma mkInv' : forall rss md bs offs p P rem n,
  offs = map (fun j => (j mod length rss)%nat) (seq 0 (length bs)) -> (p < length bs)%nat ->
  (forall j b, nth_error bs j = Some b -> (j < p)%nat -> is_bracket_complete b = true) ->
  (forall b, nth_error bs p = Some b -> is_bracket_complete b = false) ->
  InvCore rss md bs P n -> Inv rss md (mkS (mkM rss md bs offs p) P rem n).
Proof. intros. constructor; auto. Qed.

Lemma nfs_spec : forall sys md b, BInv sys md b ->
  (next_free_slot b = Ok (b, None) /\ has_free_slot b = false) \/
  (exists sl lv t0, current_rung_and_level b = Ok (sl, lv) /\
     nth_error sl (first_free_pos b) = Some (t0, None) /\ has_free_slot b = true /\
     next_free_slot b = Ok (bump b, Some (mkSIR (current_rung b) lv (first_free_pos b) t0 None))).
Proof.
  intros sys md b B. unfold has_free_slot, next_free_slot.
  destruct (is_bracket_complete b) eqn:E; [left; auto|].
  destruct (binv_crl _ _ _ B E) as [sl [lv C]]. rewrite C.
  destruct (nth_error sl (first_free_pos b)) as [[t0 mv]|] eqn:N; [|left; auto].
  assert (CO := binv_cur_ok _ _ _ _ _ B C).
  assert (X := co_free _ _ CO _ _ (le_n _) N). simpl in X. subst mv.
  right. exists sl, lv, t0. auto.
Qed.

(* for bracket_id in range(p, p + len): the FIRST bracket with a free slot gets the job *)
Lemma try_spec_seq : forall md bs len p,
  (forall i, (p <= i < p + len)%nat -> exists b sys, nth_error bs i = Some b /\ BInv sys md b) ->
  (try_brackets bs (seq p len) = Ok None /\
   forall i b, (p <= i < p + len)%nat -> nth_error bs i = Some b -> has_free_slot b = false) \/
  (exists i b sl lv t0, (p <= i < p + len)%nat /\ nth_error bs i = Some b /\
     current_rung_and_level b = Ok (sl, lv) /\
     nth_error sl (first_free_pos b) = Some (t0, None) /\ has_free_slot b = true /\
     (forall j bj, (p <= j < i)%nat -> nth_error bs j = Some bj -> has_free_slot bj = false) /\
     try_brackets bs (seq p len) =
       Ok (Some (upd bs i (bump b), i, mkSIR (current_rung b) lv (first_free_pos b) t0 None))).
Proof.
  intros md bs. induction len as [|len IH]; intros p H; simpl.
  - left. split; [reflexivity|]. intros i b Hi. lia.
  - destruct (H p) as [b [sys [Nb Bb]]]; [lia|]. rewrite Nb.
    destruct (nfs_spec _ _ _ Bb) as [[E HF]|[sl [lv [t0 [C [N [HF E]]]]]]]; rewrite E.
    + destruct (IH (S p)) as [[E2 A]|[i2 [b2 [sl2 [lv2 [t2 [I2 [N2 [C2 [S2 [HF2 [Low E2]]]]]]]]]]]].
      * intros j Hj. apply H. lia.
      * left. split; [exact E2|]. intros j bj Hj Nj. destruct (Nat.eq_dec j p) as [->|NE]; [congruence|].
        apply (A j); [lia|exact Nj].
      * right. exists i2, b2, sl2, lv2, t2. repeat split; auto; try lia.
        intros j bj Hj Nj. destruct (Nat.eq_dec j p) as [->|NE]; [congruence|]. apply (Low j); [lia|exact Nj].
    + right. exists p, b, sl, lv, t0. repeat split; auto; try lia.
Qed.

Lemma nfs_new : forall sys md, check_rungs sys = true ->
  exists sl lv, current_rung_and_level (new_bracket sys md) = Ok (sl, lv) /\
    nth_error sl (first_free_pos (new_bracket sys md)) = Some (None, None) /\
    is_bracket_complete (new_bracket sys md) = false /\
    next_free_slot (new_bracket sys md) =
      Ok (bump (new_bracket sys md),
          Some (mkSIR (current_rung (new_bracket sys md)) lv (first_free_pos (new_bracket sys md)) None None)).
Proof.
  intros sys md CK. destruct (check_rungs_spec _ CK) as [NE [Pos _]].
  destruct sys as [|[size lv] rest]; [congruence|].
  assert (1 <= size)%nat by (apply (Pos 0%nat size lv); reflexivity).
  destruct size as [|size]; [lia|].
  exists (repeat (None, None) (S size)), lv. repeat split.
Qed.

Lemma complete_new_bracket : forall sys md, check_rungs sys = true ->
  is_bracket_complete (new_bracket sys md) = false.
Proof. intros sys md CK. destruct (nfs_new sys md CK) as [_ [_ [_ [_ [X _]]]]]. exact X. Qed.

Lemma seq_snoc : forall n, seq 0 (S n) = seq 0 n ++ [n].
Proof. intro n. rewrite seq_S. reflexivity. Qed.

Lemma lookup_not_in : forall t (P : list (Z * job)), ~ In t (map fst P) -> lookup t P = None.
Proof.
  induction P as [|[k w] P IH]; intro H; simpl in *; [reflexivity|].
  destruct (Z.eqb k t) eqn:E; [apply Z.eqb_eq in E; tauto|]. apply IH. tauto.
Qed.

(* the sanity assert of _create_new_bracket never fires *)
Lemma create_ok : forall rss md bs offs p,
  offs = map (fun j => (j mod length rss)%nat) (seq 0 (length bs)) ->
  create_new_bracket (mkM rss md bs offs p) =
    Ok (mkM rss md (bs ++ [new_bracket (nth (length bs mod length rss) rss []) md])
            (offs ++ [(length bs mod length rss)%nat]) p, length bs) /\
  offs ++ [(length bs mod length rss)%nat] =
    map (fun j => (j mod length rss)%nat) (seq 0 (length (bs ++ [new_bracket (nth (length bs mod length rss) rss []) md]))).
Proof.
  intros rss md bs offs p E. unfold create_new_bracket. cbn [m_brackets m_offsets m_rs m_mode m_primary].
  replace (Nat.eqb (length bs) (length offs)) with true.
  2:{ symmetry. apply Nat.eqb_eq. rewrite E, map_length, seq_length. reflexivity. }
  split; [reflexivity|]. rewrite E, app_length. simpl. rewrite Nat.add_1_r, seq_snoc, map_app. reflexivity.
Qed.

Lemma advance_spec : forall fuel bs p last,
  (p <= last)%nat -> (last < length bs)%nat -> (last - p < fuel)%nat ->
  let p' := advance_primary fuel bs p last in
  (p <= p' <= last)%nat /\
  (forall j b, (p <= j < p')%nat -> nth_error bs j = Some b -> is_bracket_complete b = true) /\
  (forall b, nth_error bs p' = Some b -> is_bracket_complete b = true -> p' = last).
Proof.
  induction fuel as [|f IH]; intros bs p last H1 H2 H3; [lia|]. simpl.
  destruct (nth_error bs p) as [b|] eqn:Nb.
  2:{ apply nth_error_None in Nb. lia. }
  destruct (is_bracket_complete b) eqn:Cb; simpl.
  - destruct (Nat.ltb p last) eqn:L.
    + apply Nat.ltb_lt in L. destruct (IH bs (S p) last) as [A [B C]]; try lia.
      split; [lia|]. split; [|exact C].
      intros j bj Hj Nj. destruct (Nat.eq_dec j p) as [->|NE]; [congruence|]. apply (B j); [lia|exact Nj].
    + apply Nat.ltb_ge in L. split; [lia|]. split; [intros; lia|]. intros; lia.
  - split; [lia|]. split; [intros; lia|]. intros b0 N0 C0. congruence.
Qed.

(* mgr.on_result once the bracket has accepted the result: primary advance, maybe a new bracket *)
Lemma mgr_on_result_inv : forall rss md bs offs p bid b r b' out P' rem' n,
  rss_ok rss ->
  offs = map (fun j => (j mod length rss)%nat) (seq 0 (length bs)) -> (p < length bs)%nat ->
  (forall j bj, nth_error bs j = Some bj -> (j < p)%nat -> is_bracket_complete bj = true) ->
  (forall bj, nth_error bs p = Some bj -> is_bracket_complete bj = false) ->
  (p <= bid)%nat -> nth_error bs bid = Some b -> bracket_on_result b r = Ok (b', out) ->
  InvCore rss md (upd bs bid b') P' n ->
  exists m', mgr_on_result (mkM rss md bs offs p) bid r = Ok (m', out) /\
    Inv rss md (mkS m' P' rem' n) /\ nth_error (m_brackets m') bid = Some b' /\
    (m_brackets m' = upd bs bid b' \/
     m_brackets m' = upd bs bid b' ++ [new_bracket (nth (length bs mod length rss) rss []) md]).
Proof.
  intros rss md bs offs p bid b r b' out P' rem' n OK I3 I4 I5 I6 Pb Nb R Core.
  assert (OK' := OK). destruct OK' as [NE CKs].
  assert (Lb : (bid < length bs)%nat) by (eapply nth_error_lt; eauto).
  assert (CompOther : forall j bj, j <> bid -> nth_error (upd bs bid b') j = Some bj -> nth_error bs j = Some bj).
  { intros j bj NEq H. rewrite nth_error_upd_neq in H by congruence. exact H. }
  unfold mgr_on_result. cbn [m_rs m_mode m_brackets m_offsets m_primary].
  replace (Nat.leb p bid && Nat.ltb bid (length bs)) with true
    by (symmetry; apply andb_true_iff; split; [apply Nat.leb_le|apply Nat.ltb_lt]; lia).
  cbn [negb]. rewrite Nb, R.
  set (bs' := upd bs bid b') in *.
  assert (Lbs' : length bs' = length bs) by apply upd_length.
  assert (Nb' : nth_error bs' bid = Some b') by (apply nth_error_upd_eq; exact Lb).
  assert (Offs' : offs = map (fun j => (j mod length rss)%nat) (seq 0 (length bs'))) by (rewrite Lbs'; exact I3).
  destruct (Nat.eqb bid p) eqn:Ep.
  - apply Nat.eqb_eq in Ep. subst bid.
    destruct (advance_spec (length bs) bs' p (length bs - 1)) as [A [Bc Cl]]; try lia.
    set (p' := advance_primary (length bs) bs' p (length bs - 1)) in *.
    cbn [set_brackets set_primary m_rs m_mode m_brackets m_offsets m_primary].
    destruct (nth_error bs' p') as [bp|] eqn:Np.
    2:{ apply nth_error_None in Np. lia. }
    assert (Below : forall j bj, nth_error bs' j = Some bj -> (j < p')%nat -> is_bracket_complete bj = true).
    { intros j bj Nj Hj. destruct (Nat.lt_ge_cases j p) as [X|X].
      - eapply I5; [|exact X]. apply CompOther; [lia|exact Nj].
      - eapply Bc; [|exact Nj]. lia. }
    destruct (is_bracket_complete bp) eqn:Cp.
    + assert (p' = length bs - 1)%nat by (eapply Cl; eauto).
      destruct (create_ok rss md bs' offs p' Offs') as [CE CO].
      unfold set_primary, set_brackets. cbn [m_rs m_mode m_brackets m_offsets m_primary]. rewrite CE. rewrite Lbs' in *.
      assert (Core2 := core_new_bracket _ _ _ _ _ OK Core). fold bs' in Core2. rewrite Lbs' in Core2.
      eexists. split; [reflexivity|]. cbn [set_primary m_rs m_mode m_brackets m_offsets m_primary]. split; [|split].
      * apply mkInv'.
        -- exact CO.
        -- rewrite app_length. simpl. lia.
        -- intros j bj Hn Hj. rewrite nth_error_app1 in Hn by lia.
           destruct (Nat.eq_dec j p') as [->|NEq]; [congruence|]. eapply Below; eauto. lia.
        -- intros bj Hn. rewrite nth_error_app2 in Hn by lia. rewrite Lbs', Nat.sub_diag in Hn. simpl in Hn.
           inversion Hn. apply complete_new_bracket. apply CKs, mod_lt_len, NE.
        -- exact Core2.
      * rewrite nth_error_app1 by lia. exact Nb'.
      * right. reflexivity.
    + eexists. split; [reflexivity|]. unfold set_primary, set_brackets. cbn [m_rs m_mode m_brackets m_offsets m_primary]. split; [|split].
      * apply mkInv'; [exact Offs'|unfold bs' in *; rewrite ?upd_length in *; lia|exact Below|intros bj Hn; congruence|exact Core].
      * exact Nb'.
      * left. reflexivity.
  - apply Nat.eqb_neq in Ep. eexists. split; [reflexivity|].
    unfold set_primary, set_brackets. cbn [m_rs m_mode m_brackets m_offsets m_primary]. split; [|split].
    + apply mkInv'; [exact Offs'|unfold bs' in *; rewrite ?upd_length in *; lia| | |exact Core].
      * intros j bj Hn Hj. eapply I5; [|exact Hj]. apply CompOther; [lia|exact Hn].
      * intros bj Hn. apply I6. apply CompOther; [lia|exact Hn].
    + exact Nb'.
    + left. reflexivity.
Qed.

(* ---- a request for work --------------------------------------------------- *)
Lemma suggest_inv : forall rss md st cfg_ok, rss_ok rss -> Inv rss md st ->
  (cfg_ok = false -> strict = false) ->
  exists st' sg bid s m',
    suggest st cfg_ok = Ok (st', sg) /\ Inv rss md st' /\
    next_job (s_mgr st) = Ok (m', (bid, s)) /\
    (m_primary (s_mgr st) <= bid)%nat /\
    (* an open bracket with a free slot is served, the one with the lowest id; a new bracket
       is opened exactly when no open bracket has a free slot *)
    ((length (m_brackets m') = length (m_brackets (s_mgr st)) /\ (bid < length (m_brackets (s_mgr st)))%nat /\
      (exists b, nth_error (m_brackets (s_mgr st)) bid = Some b /\ has_free_slot b = true) /\
      (forall j bj, (m_primary (s_mgr st) <= j < bid)%nat -> nth_error (m_brackets (s_mgr st)) j = Some bj ->
                    has_free_slot bj = false))
     \/ (length (m_brackets m') = S (length (m_brackets (s_mgr st))) /\ bid = length (m_brackets (s_mgr st)) /\
         forall j b, (m_primary (s_mgr st) <= j)%nat -> nth_error (m_brackets (s_mgr st)) j = Some b ->
                     has_free_slot b = false)) /\
    (* the job is a slot of the rung the bracket is filling; all lower rungs are fully occupied *)
    (exists b', nth_error (m_brackets m') bid = Some b' /\ rung_index s = current_rung b' /\
                is_bracket_complete b' = false /\
                forall k, (k < rung_index s)%nat ->
                  exists sl lv, nth_error (rungs b') k = Some (Filled sl lv) /\ full_rung sl) /\
    (* no config from the searcher: no suggestion, nothing becomes pending, the slot holds NaN *)
    (cfg_ok = false -> trial_id s = None ->
       sg = SNone /\ s_pending st' = s_pending st /\ s_ntrials st' = s_ntrials st /\
       exists b2 sl2 lv2, nth_error (m_brackets (s_mgr st')) bid = Some b2 /\
         nth_error (rungs b2) (rung_index s) = Some (Filled sl2 lv2) /\
         nth_error sl2 (slot_index s) = Some (None, Some NaN)) /\
    (sg = SNone -> cfg_ok = false).
Proof.
  intros rss md [[rs md0 bs offs p] P rem n] cfg_ok OK I NS.
  destruct I as [I1 I2 I3 I4 I5 I6 I7]. cbn [s_mgr s_pending s_ntrials s_removable m_rs m_mode m_brackets m_offsets m_primary] in *.
  subst rs md0. assert (OK' := OK). destruct OK' as [NE CKs].
  (* what next_job does: the state [bs1, offs1] (maybe with a new bracket) and the bracket [i] that is bumped *)
  assert (NJ : exists bs1 offs1 i b sl lv t0,
     InvCore rss md bs1 P n /\ nth_error bs1 i = Some b /\ current_rung_and_level b = Ok (sl, lv) /\
     nth_error sl (first_free_pos b) = Some (t0, None) /\ (p <= i)%nat /\
     offs1 = map (fun j => (j mod length rss)%nat) (seq 0 (length bs1)) /\
     (length bs <= length bs1)%nat /\
     (forall j bj, nth_error bs j = Some bj -> nth_error bs1 j = Some bj) /\
     (forall bj, nth_error bs1 p = Some bj -> is_bracket_complete bj = false) /\
     (forall j bj, nth_error bs1 j = Some bj -> (j < p)%nat -> is_bracket_complete bj = true) /\
     next_job (mkM rss md bs offs p) =
       Ok (mkM rss md (upd bs1 i (bump b)) offs1 p, (i, mkSIR (current_rung b) lv (first_free_pos b) t0 None)) /\
     ((length bs1 = length bs /\ (i < length bs)%nat /\
       (exists b0, nth_error bs i = Some b0 /\ has_free_slot b0 = true) /\
       (forall j bj, (p <= j < i)%nat -> nth_error bs j = Some bj -> has_free_slot bj = false))
      \/ (length bs1 = S (length bs) /\ i = length bs /\
          forall j bj, (p <= j)%nat -> nth_error bs j = Some bj -> has_free_slot bj = false))).
  { unfold next_job. cbn [m_rs m_mode m_brackets m_offsets m_primary].
    destruct (try_spec_seq md bs (length bs - p) p) as [[E NoFree]|[i [b [sl [lv [t0 [Ii [Nb [C [Ns [HF [Low E]]]]]]]]]]]].
    { intros i Hi. destruct (nth_error bs i) as [b|] eqn:Nb.
      - exists b, (nth (i mod length rss) rss []). split; [reflexivity|]. eapply ic_b; eauto.
      - apply nth_error_None in Nb. lia. }
    - rewrite E. destruct (create_ok rss md bs offs p I3) as [CE CO]. rewrite CE.
      cbn [m_rs m_mode m_brackets m_offsets m_primary].
      set (sys := nth (length bs mod length rss) rss []) in *.
      assert (CK : check_rungs sys = true) by (apply CKs, mod_lt_len, NE).
      set (nb := new_bracket sys md) in *.
      assert (Nnb : nth_error (bs ++ [nb]) (length bs) = Some nb).
      { rewrite nth_error_app2 by lia. rewrite Nat.sub_diag. reflexivity. }
      rewrite Nnb.
      destruct (nfs_new sys md CK) as [sl [lv [C [Ns [NC Enfs]]]]]. fold nb in C, Ns, NC, Enfs. rewrite Enfs.
      assert (Core1 := core_new_bracket _ _ _ _ _ OK I7). fold sys nb in Core1.
      exists (bs ++ [nb]), (offs ++ [(length bs mod length rss)%nat]), (length bs), nb, sl, lv, None.
      split; [exact Core1|]. split; [exact Nnb|]. split; [exact C|]. split; [exact Ns|]. split; [lia|].
      split; [exact CO|]. split; [rewrite app_length; simpl; lia|].
      split; [intros j bj Hj; rewrite nth_error_app1; [exact Hj|eapply nth_error_lt; eauto]|].
      split; [intros bj Hj; rewrite nth_error_app1 in Hj by lia; eauto|].
      split; [intros j bj Hj Hp; rewrite nth_error_app1 in Hj by lia; eauto|].
      split; [reflexivity|]. right. rewrite app_length. simpl. split; [lia|]. split; [reflexivity|].
      intros j bj Hj Nj. eapply NoFree; eauto. apply nth_error_lt in Nj. lia.
    - rewrite E. exists bs, offs, i, b, sl, lv, t0.
      split; [exact I7|]. split; [exact Nb|]. split; [exact C|]. split; [exact Ns|]. split; [lia|].
      split; [exact I3|]. split; [lia|]. split; [auto|]. split; [exact I6|]. split; [exact I5|].
      split; [reflexivity|]. left. split; [reflexivity|]. split; [apply nth_error_lt in Nb; exact Nb|].
      split; [eauto|]. exact Low. }
  destruct NJ as [bs1 [offs1 [i [b [sl [lv [t0 [Core1 [Nb [C [Ns [Pi [Offs1 [Lbs1 [Ext [PC1 [LT1 [NJ Cases]]]]]]]]]]]]]]]]]].
  assert (Li : (i < length bs1)%nat) by (eapply nth_error_lt; eauto).
  destruct (crl_inv _ _ _ C) as [_ NC].
  assert (Bb := ic_b _ _ _ _ _ Core1 _ _ Nb).
  set (bs2 := upd bs1 i (bump b)) in *.
  assert (Lbs2 : length bs2 = length bs1) by apply upd_length.
  assert (Ni2 : nth_error bs2 i = Some (bump b)) by (apply nth_error_upd_eq; exact Li).
  assert (PC2 : forall bj, nth_error bs2 p = Some bj -> is_bracket_complete bj = false).
  { intros bj H. apply nth_error_upd in H. destruct H as [[<- ->]|[_ H]]; [exact NC|eauto]. }
  assert (LT2 : forall j bj, nth_error bs2 j = Some bj -> (j < p)%nat -> is_bracket_complete bj = true).
  { intros j bj H Hj. apply nth_error_upd in H. destruct H as [[<- ->]|[_ H]]; [lia|eauto]. }
  assert (Offs2 : offs1 = map (fun j => (j mod length rss)%nat) (seq 0 (length bs2))) by (rewrite Lbs2; exact Offs1).
  assert (Fin : exists b', nth_error bs2 i = Some b' /\ current_rung b = current_rung b' /\
                  is_bracket_complete b' = false /\
                  forall k, (k < current_rung b)%nat -> exists sl0 lv0, nth_error (rungs b') k = Some (Filled sl0 lv0) /\ full_rung sl0).
  { exists (bump b). split; [exact Ni2|]. split; [reflexivity|]. split; [exact NC|].
    intros k Hk. exact (bi_done _ _ _ Bb k Hk). }
  assert (CasesOut :
    (length bs2 = length bs /\ (i < length bs)%nat /\
      (exists b0, nth_error bs i = Some b0 /\ has_free_slot b0 = true) /\
      (forall j bj, (p <= j < i)%nat -> nth_error bs j = Some bj -> has_free_slot bj = false))
     \/ (length bs2 = S (length bs) /\ i = length bs /\
         forall j bj, (p <= j)%nat -> nth_error bs j = Some bj -> has_free_slot bj = false)).
  { rewrite Lbs2. exact Cases. }
  unfold suggest. cbn [s_mgr s_pending s_ntrials s_removable]. rewrite NJ.
  cbn [trial_id rung_index level slot_index metric_val].
  assert (PrimInv : forall P' n', InvCore rss md bs2 P' n' ->
            Inv rss md (mkS (mkM rss md bs2 offs1 p) P' rem n')).
  { intros P' n' Core. apply mkInv'; auto. lia. }
  destruct t0 as [t|].
  - (* a promoted trial is resumed *)
    assert (LK : lookup t P = None).
    { apply lookup_not_in. eapply resume_not_pending; eauto. }
    rewrite LK. cbn [is_none].
    assert (Core2 := core_hand_out _ _ _ _ _ n _ _ _ _ _ _ t Core1 Nb C Ns (or_intror (conj eq_refl eq_refl))).
    eexists _, _, _, _, _. split; [reflexivity|]. split; [apply PrimInv; exact Core2|].
    split; [reflexivity|]. split; [exact Pi|]. split; [exact CasesOut|]. split; [exact Fin|].
    split; [intros _ X; discriminate|intro X; discriminate].
  - destruct cfg_ok.
    + (* a new trial is started *)
      assert (LK : lookup n P = None).
      { apply lookup_not_in. intro H. apply in_map_iff in H. destruct H as [[k j] [Ek H]]. simpl in Ek. subst k.
        apply (ic_klt _ _ _ _ _ I7) in H. lia. }
      rewrite LK. cbn [is_none].
      assert (Core2 := core_hand_out _ _ _ _ _ (n + 1)%Z _ _ _ _ _ _ n Core1 Nb C Ns
                         (or_introl (conj eq_refl (conj eq_refl eq_refl)))).
      eexists _, _, _, _, _. split; [reflexivity|]. split; [apply PrimInv; exact Core2|].
      split; [reflexivity|]. split; [exact Pi|]. split; [exact CasesOut|]. split; [exact Fin|].
      split; [intros X; discriminate|intro X; discriminate].
    + (* the searcher has no config: the slot is reported as failed *)
      unfold report_as_failed, shell_on_result. cbn [s_mgr s_pending s_ntrials s_removable rung_index level slot_index trial_id].
      set (r := mkSIR (current_rung b) lv (first_free_pos b) None (Some NaN)).
      assert (Cu : current_rung_and_level (bump b) = Ok (sl, lv)) by (rewrite crl_bump; exact C).
      destruct (bor_ok (bump b) r sl lv None NaN Cu eq_refl (Nat.lt_succ_diag_r _) eq_refl Ns (or_introl eq_refl) eq_refl)
        as [b' [out R]].
      { intros e Ne. eapply (bi_fut _ _ _ Bb); [|exact Ne]. simpl. lia. }
      assert (Core3 := core_fail_slot _ _ _ _ _ _ _ _ _ _ _ (NS eq_refl) OK Core1 Nb C Ns R).
      assert (Upd2 : upd bs2 i b' = upd bs1 i b').
      { unfold bs2. clear. revert i. induction bs1 as [|x l IH]; intros [|i]; simpl; auto. rewrite IH. reflexivity. }
      rewrite <- Upd2 in Core3.
      destruct (mgr_on_result_inv rss md bs2 offs1 p i (bump b) r b' out P
                  (match out with Some l => rem ++ l | None => rem end) n OK Offs2) as [m' [EM [IM [NM _]]]]; auto; try lia.
      rewrite EM. eexists _, _, _, _, _. split; [reflexivity|]. split; [exact IM|].
      split; [reflexivity|]. split; [exact Pi|]. split; [exact CasesOut|]. split; [exact Fin|].
      split; [|reflexivity]. intros _ _. cbn [s_pending s_ntrials s_mgr]. repeat (split; [reflexivity|]).
      exists b'. cbn [rung_index slot_index].
      destruct (bor_inv _ _ _ _ _ _ Cu R) as [_ [_ [_ [_ [v' [MV' BC]]]]]].
      simpl in MV'. inversion MV'; subst v'. cbv zeta in BC. simpl in BC.
      destruct (crl_inv _ _ _ C) as [Nth _].
      assert (Lc : (current_rung b < length (rungs b))%nat) by (eapply nth_error_lt; eauto).
      exists (upd sl (first_free_pos b) (None, Some NaN)), lv. split; [exact NM|].
      split; [|apply nth_error_upd_eq; eapply nth_error_lt; eauto].
      destruct BC as [[_ [-> _]]|[[_ [_ [-> _]]]|[_ [nl [ms [vals [top [rem0 [_ [_ [_ [-> _]]]]]]]]]]]];
        cbn [rungs]; try (rewrite nth_error_upd_neq by lia); apply nth_error_upd_eq; exact Lc.
Qed.

(* level_to_prev_level finds its key *)
Lemma prev_level_in_some : forall rs prev lv k n0, nth_error rs k = Some (n0, lv) ->
  exists q, prev_level_in rs prev lv = Some q.
Proof.
  induction rs as [|[n1 l1] rs IH]; intros prev lv k n0 H; [destruct k; discriminate|]. simpl.
  destruct (Z.eqb l1 lv) eqn:E; [eauto|]. destruct k as [|k]; simpl in H.
  - inversion H; subst. rewrite Z.eqb_refl in E. discriminate.
  - eapply IH; eauto.
Qed.

Lemma prev_level_ok : forall rss md st bid lv k n0, Inv rss md st ->
  (bid < length (m_brackets (s_mgr st)))%nat ->
  nth_error (nth (bid mod length rss) rss []) k = Some (n0, lv) ->
  exists q, level_to_prev_level (s_mgr st) bid lv = Ok q.
Proof.
  intros rss md st bid lv k n0 I Hb Hk. unfold level_to_prev_level.
  rewrite (iv_off _ _ _ I), (iv_rs _ _ _ I).
  rewrite nth_error_map. rewrite (nth_error_nth' (seq 0 _) 0%nat) by (rewrite seq_length; exact Hb).
  rewrite seq_nth by exact Hb. simpl.
  destruct (prev_level_in_some _ 0%Z _ _ _ Hk) as [q E]. rewrite E. eauto.
Qed.

(* ---- a pending job is answered -------------------------------------------- *)
Lemma answer_inv : forall rss md st t bid s v, rss_ok rss -> Inv rss md st ->
  lookup t (s_pending st) = Some (bid, s) ->
  exists st', shell_on_result st bid (mkSIR (rung_index s) (level s) (slot_index s) (trial_id s) (Some v)) = Ok st' /\
    Inv rss md (mkS (s_mgr st') (remove_key t (s_pending st')) (s_removable st') (s_ntrials st')) /\
    (exists b' sl' lv', nth_error (m_brackets (s_mgr st')) bid = Some b' /\
        nth_error (rungs b') (rung_index s) = Some (Filled sl' lv') /\
        nth_error sl' (slot_index s) = Some (Some t, Some v)) /\
    (exists k n0, nth_error (nth (bid mod length rss) rss []) k = Some (n0, level s)) /\
    trial_id s = Some t.
Proof.
  intros rss md [[rs md0 bs offs p] P rem n] t bid s v OK I LK.
  destruct I as [I1 I2 I3 I4 I5 I6 I7].
  cbn [s_mgr s_pending s_ntrials s_removable m_rs m_mode m_brackets m_offsets m_primary] in *.
  subst rs md0. assert (OK' := OK). destruct OK' as [NE CKs].
  apply lookup_In in LK.
  destruct (ic_p _ _ _ _ _ I7 _ _ _ LK) as [[b [sl [lv [t0 [Nb [C [E1 [E2 [E3 [E4 [E5 K]]]]]]]]]]] T M].
  destruct (crl_inv _ _ _ C) as [Nth NC].
  assert (Lb : (bid < length bs)%nat) by (eapply nth_error_lt; eauto).
  assert (Pb : (p <= bid)%nat).
  { destruct (Nat.le_gt_cases p bid) as [X|X]; [exact X|]. rewrite (I5 _ _ Nb X) in NC. discriminate. }
  assert (Bb := ic_b _ _ _ _ _ I7 _ _ Nb).
  set (r := mkSIR (rung_index s) (level s) (slot_index s) (trial_id s) (Some v)).
  destruct (bor_ok b r sl lv t0 v C E1 E2 E3 E4) as [b' [out R]].
  { unfold r. cbn [trial_id]. rewrite T. exact E5. } { reflexivity. }
  { intros e Ne. eapply (bi_fut _ _ _ Bb); [|exact Ne]. lia. }
  assert (Core := core_answer _ _ _ _ _ _ _ _ _ _ _ _ OK I7 LK Nb R).
  assert (Slot : exists sl' lv', nth_error (rungs b') (rung_index s) = Some (Filled sl' lv') /\
                                 nth_error sl' (slot_index s) = Some (Some t, Some v)).
  { destruct (bor_inv _ _ _ _ _ _ C R) as [_ [_ [_ [_ [v' [MV' Cases]]]]]].
    simpl in MV'. inversion MV'; subst v'. cbv zeta in Cases. simpl trial_id in Cases. rewrite T in Cases.
    simpl slot_index in Cases. rewrite E1.
    assert (Lc : (current_rung b < length (rungs b))%nat) by (eapply nth_error_lt; eauto).
    exists (upd sl (slot_index s) (Some t, Some v)), lv.
    split; [|apply nth_error_upd_eq; eapply nth_error_lt; eauto].
    destruct Cases as [[_ [-> _]]|[[_ [_ [-> _]]]|[_ [nl [ms [vals [top [rem0 [_ [_ [_ [-> _]]]]]]]]]]]];
      cbn [rungs]; try (rewrite nth_error_upd_neq by lia); apply nth_error_upd_eq; exact Lc. }
  destruct Slot as [sl' [lv' [S1 S2]]].
  destruct (mgr_on_result_inv rss md bs offs p bid b r b' out (remove_key t P)
              (match out with Some l => rem ++ l | None => rem end) n OK I3 I4 I5 I6 Pb Nb R Core)
    as [m' [EM [IM [NM _]]]].
  unfold shell_on_result. cbn [s_mgr s_pending s_ntrials s_removable]. fold r. rewrite EM.
  eexists. split; [reflexivity|]. cbn [s_mgr s_pending s_removable s_ntrials]. split; [exact IM|].
  split; [exists b', sl', lv'; auto|]. split; [|exact T].
  exists (current_rung b), (length sl). rewrite <- (bi_sys _ _ _ Bb), nth_error_map, Nth. simpl. rewrite E3. reflexivity.
Qed.

(* which events respect [strict] *)
Definition op_ok (o : op) : Prop := strict = true -> o <> OSuggest false.

(* ---- every event keeps the invariant and is accepted ----------------------- *)
Lemma step_inv : forall rss md st o, rss_ok rss -> Inv rss md st -> op_ok o ->
  exists st', step st o = Ok st' /\ Inv rss md st'.
Proof.
  intros rss md st o OK I OP. destruct o as [cfg_ok|t below v|t|]; simpl.
  - destruct (suggest_inv _ _ _ cfg_ok OK I) as [st' [sg [bid [s [m' [E [I' _]]]]]]].
    { intros ->. destruct (Bool.bool_dec strict true) as [ES|ES]; [exfalso; exact (OP ES eq_refl)|apply not_true_is_false; exact ES]. }
    rewrite E. eauto.
  - unfold on_trial_result. destruct (lookup t (s_pending st)) as [[bid s]|] eqn:LK; [|eauto].
    assert (LK' := lookup_In _ _ _ LK).
    assert (Core := iv_core _ _ _ I).
    destruct (ic_p _ _ _ _ _ Core _ _ _ LK') as [[b [sl [lv [t0 [Nb [C [E1 [E2 [E3 _]]]]]]]]] T _].
    rewrite T. replace (tid_eqb (Some t) (Some t)) with true by (symmetry; apply tid_eqb_eq; reflexivity).
    cbn [negb]. destruct below as [|k].
    + replace (level s - Z.of_nat 0)%Z with (level s) by lia.
      rewrite Z.leb_refl, Z.eqb_refl. cbn [negb].
      destruct (answer_inv _ _ _ _ _ _ v OK I LK) as [st' [E [I' [[b' [sl' [lv' [Nb' _]]]] [[k [n0 Hk]] _]]]]].
      rewrite T in E. rewrite E.
      destruct (prev_level_ok _ _ _ bid (level s) k n0 I') as [q Eq]; [eapply nth_error_lt; exact Nb'|exact Hk|].
      cbn [s_mgr] in Eq |- *. rewrite Eq. eauto.
    + replace (Z.leb (level s) (level s - Z.of_nat (S k))) with false by (symmetry; apply Z.leb_gt; lia).
      destruct (crl_inv _ _ _ C) as [Nth _].
      assert (Bb := ic_b _ _ _ _ _ Core _ _ Nb).
      destruct (prev_level_ok _ _ _ bid (level s) (current_rung b) (length sl) I) as [q Eq];
        [eapply nth_error_lt; exact Nb| |].
      { rewrite <- (bi_sys _ _ _ Bb), nth_error_map, Nth. simpl. rewrite E3. reflexivity. }
      rewrite Eq. eauto.
  - unfold on_trial_error, report_as_failed. destruct (lookup t (s_pending st)) as [[bid s]|] eqn:LK; [|eauto].
    destruct (answer_inv _ _ _ _ _ _ NaN OK I LK) as [st' [E [I' _]]]. rewrite E. eauto.
  - eexists. split; [reflexivity|]. destruct I as [I1 I2 I3 I4 I5 I6 I7]. constructor; auto.
Qed.

Lemma init_inv : forall rss md, check_bracket_rungs rss = true ->
  exists st, shell_init rss md = Ok st /\ Inv rss md st.
Proof.
  intros rss md CK. assert (OK := check_bracket_rungs_ok _ CK). destruct OK as [NE CKs].
  unfold shell_init, mgr_init. rewrite CK.
  destruct (create_ok rss md [] [] 0 eq_refl) as [CE CO]. rewrite CE. cbn [length] in *.
  eexists. split; [reflexivity|].
  set (sys := nth (0 mod length rss) rss []) in *.
  assert (CKsys : check_rungs sys = true) by (apply CKs, mod_lt_len, NE).
  assert (Core0 : InvCore rss md [] [] 0).
  { constructor; try (intros; match goal with H : nth_error [] ?j = Some _ |- _ => destruct j; discriminate end);
      try (intros; contradiction); try lia. constructor. }
  assert (Core1 := core_new_bracket _ _ _ _ _ (conj NE CKs) Core0). cbn [length app] in Core1.
  unfold set_primary. cbn [m_rs m_mode m_brackets m_offsets m_primary app].
  apply mkInv'; auto.
  - intros j b H Hj. lia.
  - intros b H. simpl in H. inversion H. apply complete_new_bracket. exact CKsys.
Qed.

Lemma run_inv : forall rss md ops st, rss_ok rss -> Inv rss md st -> Forall op_ok ops ->
  exists st', run st ops = Ok st' /\ Inv rss md st'.
Proof.
  intros rss md. induction ops as [|o ops IH]; intros st OK I F; simpl; [eauto|].
  inversion F; subst.
  destruct (step_inv _ _ _ o OK I) as [st1 [E I1]]; [assumption|]. rewrite E. apply IH; assumption.
Qed.

Theorem run_from_inv : forall rss md ops, check_bracket_rungs rss = true -> Forall op_ok ops ->
  exists st, run_from rss md ops = Ok st /\ Inv rss md st.
Proof.
  intros rss md ops CK F. unfold run_from. destruct (init_inv rss md CK) as [st0 [E I]]. rewrite E.
  apply run_inv; [apply check_bracket_rungs_ok; exact CK|exact I|exact F].
Qed.

End Strict.

(* ======================================================================== *)
(* Part 6: the statements of C05 on reachable states                         *)
(* ======================================================================== *)

(* the searcher always delivers a config *)
Definition searcher_ok (ops : list op) : Prop := Forall (fun o => o <> OSuggest false) ops.

Lemma all_ok_false : forall ops, Forall (op_ok false) ops.
Proof. intro ops. apply Forall_forall. intros o _ X. discriminate. Qed.

Lemma all_ok_true : forall ops, searcher_ok ops -> Forall (op_ok true) ops.
Proof. intros ops H. eapply Forall_impl; [|exact H]. intros o Ho _. exact Ho. Qed.

Theorem no_error : forall rss md ops, check_bracket_rungs rss = true ->
  exists st, run_from rss md ops = Ok st.
Proof.
  intros rss md ops CK. destruct (run_from_inv false rss md ops CK (all_ok_false ops)) as [st [E _]]. eauto.
Qed.

Lemma reach_inv : forall rss md ops st, check_bracket_rungs rss = true ->
  run_from rss md ops = Ok st -> Inv false rss md st /\ rss_ok rss.
Proof.
  intros rss md ops st CK E. destruct (run_from_inv false rss md ops CK (all_ok_false ops)) as [st' [E' I]].
  rewrite E in E'. inversion E'; subst. split; [exact I|apply check_bracket_rungs_ok; exact CK].
Qed.

Lemma reach_inv_strict : forall rss md ops st, check_bracket_rungs rss = true -> searcher_ok ops ->
  run_from rss md ops = Ok st -> Inv true rss md st.
Proof.
  intros rss md ops st CK S E. destruct (run_from_inv true rss md ops CK (all_ok_true ops S)) as [st' [E' I]].
  rewrite E in E'. inversion E'; subst. exact I.
Qed.

Lemma nth_error_map_seq : forall (f : nat -> nat) n j, (j < n)%nat -> nth_error (map f (seq 0 n)) j = Some (f j).
Proof.
  intros f n j H. rewrite nth_error_map. rewrite (nth_error_nth' (seq 0 n) 0%nat) by (rewrite seq_length; exact H).
  rewrite seq_nth by exact H. reflexivity.
Qed.

Theorem offsets_cycle : forall rss md ops st, check_bracket_rungs rss = true ->
  run_from rss md ops = Ok st ->
  length (m_offsets (s_mgr st)) = length (m_brackets (s_mgr st)) /\
  forall j b, nth_error (m_brackets (s_mgr st)) j = Some b ->
    nth_error (m_offsets (s_mgr st)) j = Some (j mod length rss)%nat /\
    map entry_shape (rungs b) = nth (j mod length rss) rss [] /\ bmode b = md.
Proof.
  intros rss md ops st CK E. destruct (reach_inv _ _ _ _ CK E) as [I _].
  rewrite (iv_off _ _ _ _ I). split; [rewrite map_length, seq_length; reflexivity|].
  intros j b Nb. split; [apply (nth_error_map_seq (fun j0 => (j0 mod length rss)%nat)); eapply nth_error_lt; eauto|].
  assert (B := ic_b _ _ _ _ _ _ (iv_core _ _ _ _ I) _ _ Nb). split; [exact (bi_sys _ _ _ _ B)|exact (bi_mode _ _ _ _ B)].
Qed.

Theorem rung_filled_by_distinct : forall rss md ops st, check_bracket_rungs rss = true ->
  run_from rss md ops = Ok st ->
  forall j b, nth_error (m_brackets (s_mgr st)) j = Some b ->
  forall k, (k < current_rung b)%nat ->
    exists sl lv, nth_error (rungs b) k = Some (Filled sl lv) /\
      nth_error (nth (j mod length rss) rss []) k = Some (length sl, lv) /\
      Forall (fun s => snd s <> None) sl /\ NoDup (somes (map fst sl)) /\
      (forall v, In (None, Some v) sl -> v = NaN).
Proof.
  intros rss md ops st CK E j b Nb k Hk. destruct (reach_inv _ _ _ _ CK E) as [I _].
  assert (B := ic_b _ _ _ _ _ _ (iv_core _ _ _ _ I) _ _ Nb).
  destruct (bi_done _ _ _ _ B k Hk) as [sl [lv [N [F [ND NN]]]]]. exists sl, lv. split; [exact N|].
  split; [|auto]. rewrite <- (bi_sys _ _ _ _ B), nth_error_map, N. reflexivity.
Qed.

Lemma strict_rung : forall (sl : list slot),
  Forall (fun s => snd s <> None) sl -> NoDup (somes (map fst sl)) ->
  (forall v, ~ In (None, Some v) sl) ->
  Forall (fun s => exists t v, s = (Some t, Some v)) sl /\ NoDup (map fst sl).
Proof.
  intros sl F ND NoN. rewrite Forall_forall in F. split.
  - apply Forall_forall. intros [[t|] [v|]] I.
    + eauto.
    + exfalso. apply (F _ I). reflexivity.
    + exfalso. exact (NoN v I).
    + exfalso. apply (F _ I). reflexivity.
  - rewrite (all_some_map (map fst sl)).
    + apply nodup_map_Some. exact ND.
    + intros x Hx. apply in_map_iff in Hx. destruct Hx as [[x' [w|]] [<- Hi]]; simpl.
      * intros ->. exact (NoN w Hi).
      * exfalso. apply (F _ Hi). reflexivity.
Qed.

Theorem rung_filled_by_distinct_strict : forall rss md ops st, check_bracket_rungs rss = true ->
  searcher_ok ops -> run_from rss md ops = Ok st ->
  forall j b, nth_error (m_brackets (s_mgr st)) j = Some b ->
  forall k, (k < current_rung b)%nat ->
    exists sl lv, nth_error (rungs b) k = Some (Filled sl lv) /\
      nth_error (nth (j mod length rss) rss []) k = Some (length sl, lv) /\
      Forall (fun s => exists t v, s = (Some t, Some v)) sl /\ NoDup (map fst sl).
Proof.
  intros rss md ops st CK S E j b Nb k Hk. assert (I := reach_inv_strict _ _ _ _ CK S E).
  assert (B := ic_b _ _ _ _ _ _ (iv_core _ _ _ _ I) _ _ Nb).
  destruct (bi_done _ _ _ _ B k Hk) as [sl [lv [N [F [ND NN]]]]]. exists sl, lv. split; [exact N|].
  split; [rewrite <- (bi_sys _ _ _ _ B), nth_error_map, N; reflexivity|].
  apply strict_rung; auto. intros v Hv. exact (bi_strict _ _ _ _ B eq_refl _ _ _ _ N Hv).
Qed.

Theorem current_rung_shape : forall rss md ops st, check_bracket_rungs rss = true ->
  run_from rss md ops = Ok st ->
  forall j b sl lv, nth_error (m_brackets (s_mgr st)) j = Some b ->
    current_rung_and_level b = Ok (sl, lv) ->
    nth_error (nth (j mod length rss) rss []) (current_rung b) = Some (length sl, lv) /\
    NoDup (somes (map fst sl)) /\ (first_free_pos b <= length sl)%nat /\
    (exists pos t, nth_error sl pos = Some (t, None)).
Proof.
  intros rss md ops st CK E j b sl lv Nb C. destruct (reach_inv _ _ _ _ CK E) as [I _].
  assert (B := ic_b _ _ _ _ _ _ (iv_core _ _ _ _ I) _ _ Nb). assert (CO := binv_cur_ok _ _ _ _ _ _ B C).
  destruct (crl_inv _ _ _ C) as [N _]. split.
  - rewrite <- (bi_sys _ _ _ _ B), nth_error_map, N. reflexivity.
  - split; [exact (co_nodup _ _ CO)|]. split; [exact (co_ffp _ _ CO)|exact (co_open _ _ CO)].
Qed.

Theorem never_blocks : forall rss md ops st, check_bracket_rungs rss = true ->
  run_from rss md ops = Ok st ->
  exists m' bid s, next_job (s_mgr st) = Ok (m', (bid, s)) /\
    (m_primary (s_mgr st) <= bid)%nat /\
    ((length (m_brackets m') = length (m_brackets (s_mgr st)) /\ (bid < length (m_brackets (s_mgr st)))%nat /\
      (exists b, nth_error (m_brackets (s_mgr st)) bid = Some b /\ has_free_slot b = true) /\
      (forall j bj, (m_primary (s_mgr st) <= j < bid)%nat -> nth_error (m_brackets (s_mgr st)) j = Some bj ->
                    has_free_slot bj = false))
     \/ (length (m_brackets m') = S (length (m_brackets (s_mgr st))) /\ bid = length (m_brackets (s_mgr st)) /\
         forall j b, (m_primary (s_mgr st) <= j)%nat -> nth_error (m_brackets (s_mgr st)) j = Some b ->
                     has_free_slot b = false)).
Proof.
  intros rss md ops st CK E. destruct (reach_inv _ _ _ _ CK E) as [I OK].
  destruct (suggest_inv false _ _ _ true OK I) as [st' [sg [bid [s [m' [_ [_ [NJ [Pb [Cases _]]]]]]]]]]; [discriminate|].
  exists m', bid, s. auto.
Qed.

Theorem promote_after_complete : forall rss md ops st m' bid s, check_bracket_rungs rss = true ->
  run_from rss md ops = Ok st -> next_job (s_mgr st) = Ok (m', (bid, s)) ->
  exists b', nth_error (m_brackets m') bid = Some b' /\ rung_index s = current_rung b' /\
    is_bracket_complete b' = false /\
    forall k, (k < rung_index s)%nat ->
      exists sl lv, nth_error (rungs b') k = Some (Filled sl lv) /\
                    Forall (fun x => snd x <> None) sl.
Proof.
  intros rss md ops st m' bid s CK E NJ. destruct (reach_inv _ _ _ _ CK E) as [I OK].
  destruct (suggest_inv false _ _ _ true OK I) as [st' [sg [bid0 [s0 [m0 [_ [_ [NJ0 [_ [_ [[b' [Nb' [Er [NC Dn]]]] _]]]]]]]]]]]; [discriminate|].
  rewrite NJ in NJ0. injection NJ0 as -> -> ->. exists b'. split; [exact Nb'|]. split; [exact Er|]. split; [exact NC|].
  intros k Hk. destruct (Dn k Hk) as [sl [lv [N [F _]]]]. eauto.
Qed.

(* the searcher has no config for a new trial: suggest answers None, the job is reported as failed
   at once (its slot holds NaN), nothing becomes pending *)
Theorem searcher_failure_fills_slot : forall rss md ops st m' bid s, check_bracket_rungs rss = true ->
  run_from rss md ops = Ok st -> next_job (s_mgr st) = Ok (m', (bid, s)) -> trial_id s = None ->
  exists st', suggest st false = Ok (st', SNone) /\ s_pending st' = s_pending st /\
    s_ntrials st' = s_ntrials st /\
    exists b2 sl2 lv2, nth_error (m_brackets (s_mgr st')) bid = Some b2 /\
      nth_error (rungs b2) (rung_index s) = Some (Filled sl2 lv2) /\
      nth_error sl2 (slot_index s) = Some (None, Some NaN).
Proof.
  intros rss md ops st m' bid s CK E NJ Tn. destruct (reach_inv _ _ _ _ CK E) as [I OK].
  destruct (suggest_inv false _ _ _ false OK I) as [st' [sg [bid0 [s0 [m0 [Es [_ [NJ0 [_ [_ [_ [Fl _]]]]]]]]]]]]; [reflexivity|].
  rewrite NJ in NJ0. injection NJ0 as -> -> ->.
  destruct (Fl eq_refl Tn) as [-> [Ep [En Slot]]]. exists st'. auto.
Qed.

Lemma In_lookup : forall t j (P : list (Z * job)), NoDup (map fst P) -> In (t, j) P -> lookup t P = Some j.
Proof.
  induction P as [|[k w] P IH]; intros N H; simpl in *; [contradiction|]. inversion N; subst.
  destruct H as [H|H].
  - inversion H; subst. rewrite Z.eqb_refl. reflexivity.
  - destruct (Z.eqb k t) eqn:E; [|auto]. apply Z.eqb_eq in E. subst k. exfalso. apply H2.
    apply (in_map fst) in H. exact H.
Qed.

Theorem pending_slots_have_trials : forall rss md ops st, check_bracket_rungs rss = true ->
  run_from rss md ops = Ok st ->
  forall j b sl lv pos t0, nth_error (m_brackets (s_mgr st)) j = Some b ->
    current_rung_and_level b = Ok (sl, lv) -> (pos < first_free_pos b)%nat ->
    nth_error sl pos = Some (t0, None) ->
    exists t s, lookup t (s_pending st) = Some (j, s) /\ slot_index s = pos /\
                rung_index s = current_rung b /\ level s = lv /\ trial_id s = Some t.
Proof.
  intros rss md ops st CK E j b sl lv pos t0 Nb C Hp Hn. destruct (reach_inv _ _ _ _ CK E) as [I _].
  assert (Core := iv_core _ _ _ _ I).
  destruct (ic_p4 _ _ _ _ _ _ Core _ _ _ _ _ _ Nb C Hp Hn) as [t [s [Hin Es]]].
  exists t, s. split; [apply In_lookup; [exact (ic_keys _ _ _ _ _ _ Core)|exact Hin]|]. split; [exact Es|].
  destruct (ic_p _ _ _ _ _ _ Core _ _ _ Hin) as [[b2 [sl2 [lv2 [t2 [N2 [C2 [E1 [E2 [E3 _]]]]]]]]] T _].
  rewrite Nb in N2. inversion N2; subst b2. rewrite C in C2. inversion C2; subst. auto.
Qed.

Theorem trial_error_fills_slot : forall rss md ops st t bid s, check_bracket_rungs rss = true ->
  run_from rss md ops = Ok st -> lookup t (s_pending st) = Some (bid, s) ->
  exists st', on_trial_error st t = Ok st' /\ lookup t (s_pending st') = None /\
    exists b' sl' lv', nth_error (m_brackets (s_mgr st')) bid = Some b' /\
      nth_error (rungs b') (rung_index s) = Some (Filled sl' lv') /\
      nth_error sl' (slot_index s) = Some (Some t, Some NaN).
Proof.
  intros rss md ops st t bid s CK E LK. destruct (reach_inv _ _ _ _ CK E) as [I OK].
  destruct (answer_inv false _ _ _ _ _ _ NaN OK I LK) as [st' [Ea [_ [Slot _]]]].
  unfold on_trial_error, report_as_failed. rewrite LK, Ea. eexists. split; [reflexivity|].
  cbn [s_pending s_mgr]. split; [apply lookup_remove|exact Slot].
Qed.

(* the trials put into the next rung are the top list of the completed one *)
Lemma promoted_are_top_gen : forall strict rss md st t bid s v b b' rem, rss_ok rss ->
  Inv strict rss md st -> lookup t (s_pending st) = Some (bid, s) ->
  nth_error (m_brackets (s_mgr st)) bid = Some b ->
  bracket_on_result b (mkSIR (rung_index s) (level s) (slot_index s) (trial_id s) (Some v)) = Ok (b', Some rem) ->
  exists sl lv vals nl ms top,
    current_rung_and_level b = Ok (sl, lv) /\
    occupied_values (upd sl (slot_index s) (Some t, Some v)) = Some vals /\
    nth_error (rungs b) (S (current_rung b)) = Some (Future nl ms) /\
    get_top_list md vals nl = (top, rem) /\
    current_rung_and_level b' = Ok (map (fun x => (x, None)) top, ms) /\
    current_rung b' = S (current_rung b) /\
    NoDup (somes (map fst vals)) /\ (nl <= length vals)%nat /\
    (strict = true -> NoDup (map fst vals)).
Proof.
  intros strict rss md st t bid s v b b' rem [NE CKs] I LK Nb R.
  assert (Core := iv_core _ _ _ _ I). apply lookup_In in LK.
  destruct (ic_p _ _ _ _ _ _ Core _ _ _ LK) as [[b2 [sl [lv [t0 [N2 [C [E1 [E2 [E3 [E4 [E5 K]]]]]]]]]]] T M].
  rewrite Nb in N2. inversion N2; subst b2. clear N2.
  assert (Bb := ic_b _ _ _ _ _ _ Core _ _ Nb).
  assert (CKb : check_rungs (nth (bid mod length rss) rss []) = true) by (apply CKs, mod_lt_len, NE).
  set (r := mkSIR (rung_index s) (level s) (slot_index s) (trial_id s) (Some v)) in *.
  assert (TID : trial_id r = Some t) by exact T.
  assert (FRESH : forall t', Some t = Some t' -> nth_error sl (slot_index r) = Some (None, None) -> ~ In t' (cur_ids b)).
  { intros t' Et X. inversion Et; subst t'. simpl in X. rewrite E4 in X. inversion X; subst t0. eapply K; eauto. }
  assert (NANF : Some t = None -> metric_val r = Some NaN) by discriminate.
  assert (STR : strict = true -> Some t <> None) by (intros _; discriminate).
  destruct (answer_facts _ _ _ _ _ _ _ _ _ _ Bb C R TID FRESH NANF STR) as [t1 [v1 [_ [_ [MV Rest]]]]].
  cbv zeta in Rest. destruct Rest as [ND [_ [NN LEN]]].
  assert (Bb' := binv_answer _ _ _ _ _ _ _ _ _ _ CKb Bb C R TID FRESH NANF STR).
  simpl in MV. inversion MV; subst v1. cbv zeta in *. simpl slot_index in *.
  destruct (bor_inv _ _ _ _ _ _ C R) as [_ [_ [_ [_ [v' [MV' Cases]]]]]].
  simpl in MV'. inversion MV'; subst v'. cbv zeta in Cases. simpl trial_id in Cases. rewrite T in Cases. simpl slot_index in Cases.
  destruct (crl_inv _ _ _ C) as [Nth _].
  assert (Lc : (current_rung b < length (rungs b))%nat) by (eapply nth_error_lt; eauto).
  destruct Cases as [[_ [_ X]]|[[_ [_ [_ X]]]|[F [nl [ms [vals [top [rem0 [N2 [OV [G [Eb X]]]]]]]]]]]]; try discriminate.
  inversion X; subst rem0. rewrite nth_error_upd_neq in N2 by lia.
  exists sl, lv, vals, nl, ms, top. split; [exact C|]. split; [exact OV|]. split; [exact N2|].
  rewrite (bi_mode _ _ _ _ Bb) in G. split; [exact G|].
  destruct (occupied_values_some _ _ OV) as [MF LV].
  destruct (is_full_spec _ _ F) as [_ Occ].
  assert (N1' : nth_error (rungs b') (current_rung b) = Some (Filled (upd sl (slot_index s) (Some t, Some v)) lv)).
  { rewrite Eb. cbn [rungs]. rewrite nth_error_upd_neq by lia. apply nth_error_upd_eq. exact Lc. }
  unfold slot, tid in *. split; [|split; [|split; [|split]]].
  - rewrite Eb. apply crl_of_nth. cbn [rungs current_rung]. apply nth_error_upd_eq. rewrite upd_length.
    apply nth_error_lt in N2. exact N2.
  - rewrite Eb. reflexivity.
  - rewrite MF. exact ND.
  - destruct (check_rungs_spec _ CKb) as [_ [_ Dec]].
    assert (S0 : nth_error (nth (bid mod length rss) rss []) (current_rung b) = Some (length sl, lv)).
    { rewrite <- (bi_sys _ _ _ _ Bb), nth_error_map, Nth. reflexivity. }
    assert (S1 : nth_error (nth (bid mod length rss) rss []) (S (current_rung b)) = Some (nl, ms)).
    { rewrite <- (bi_sys _ _ _ _ Bb), nth_error_map, N2. reflexivity. }
    assert (nl < length sl)%nat by (eapply Dec; eauto). rewrite LV, LEN. lia.
  - intros St. rewrite MF. apply (strict_rung (upd sl (slot_index s) (Some t, Some v))).
    + apply Forall_forall. exact Occ.
    + exact ND.
    + intros w Hw. exact (bi_strict _ _ _ _ Bb' St _ _ _ _ N1' Hw).
Qed.

Theorem promoted_are_top : forall rss md ops st t bid s v b b' rem, check_bracket_rungs rss = true ->
  run_from rss md ops = Ok st -> lookup t (s_pending st) = Some (bid, s) ->
  nth_error (m_brackets (s_mgr st)) bid = Some b ->
  bracket_on_result b (mkSIR (rung_index s) (level s) (slot_index s) (trial_id s) (Some v)) = Ok (b', Some rem) ->
  exists sl lv vals nl ms top,
    current_rung_and_level b = Ok (sl, lv) /\
    occupied_values (upd sl (slot_index s) (Some t, Some v)) = Some vals /\
    nth_error (rungs b) (S (current_rung b)) = Some (Future nl ms) /\
    get_top_list md vals nl = (top, rem) /\
    current_rung_and_level b' = Ok (map (fun x => (x, None)) top, ms) /\
    current_rung b' = S (current_rung b) /\
    NoDup (somes (map fst vals)) /\ (nl <= length vals)%nat /\
    (searcher_ok ops -> NoDup (map fst vals)).
Proof.
  intros rss md ops st t bid s v b b' rem CK E LK Nb R. destruct (reach_inv _ _ _ _ CK E) as [I OK].
  destruct (promoted_are_top_gen false _ _ _ _ _ _ _ _ _ _ OK I LK Nb R)
    as [sl [lv [vals [nl [ms [top [A1 [A2 [A3 [A4 [A5 [A6 [A7 [A8 _]]]]]]]]]]]]]].
  exists sl, lv, vals, nl, ms, top. repeat (split; [assumption|]).
  intro S. assert (I' := reach_inv_strict _ _ _ _ CK S E).
  destruct (promoted_are_top_gen true _ _ _ _ _ _ _ _ _ _ OK I' LK Nb R)
    as [sl2 [lv2 [vals2 [nl2 [ms2 [top2 [B1 [B2 [_ [_ [_ [_ [_ [_ B9]]]]]]]]]]]]]].
  rewrite A1 in B1. inversion B1; subst sl2 lv2. rewrite A2 in B2. inversion B2; subst vals2. exact (B9 eq_refl).
Qed.

(* ======================================================================== *)
(* Part 7: DEHB bracket manager                                              *)
(* ======================================================================== *)

(* a slot is untouched, holds (trial, value), or was reported as failed without trial: (None, NaN) *)
Definition dslot_ok (s : slot) : Prop :=
  match s with (None, None) => True | (Some _, Some _) => True | (None, Some NaN) => True | _ => False end.

Record dcur_ok (sl : list slot) (ffp : nat) : Prop := mkDCurOk {
  dco_ffp : (ffp <= length sl)%nat;
  dco_free : forall pos s, (ffp <= pos)%nat -> nth_error sl pos = Some s -> s = (None, None);
  dco_open : exists pos, nth_error sl pos = Some (None, None);
  dco_slots : Forall dslot_ok sl }.

Record DB (sys : rung_system) (md : mode) (b : bracket) : Prop := mkDB {
  db_sys : map entry_shape (rungs b) = sys;
  db_mode : bmode b = md;
  db_cur : (current_rung b <= length (rungs b))%nat;
  db_filled : forall k e, nth_error (rungs b) k = Some e -> exists sl lv, e = Filled sl lv;
  db_done : forall k sl lv, (k < current_rung b)%nat -> nth_error (rungs b) k = Some (Filled sl lv) ->
            Forall (fun s => snd s <> None /\ dslot_ok s) sl;
  db_fut : forall k sl lv, (current_rung b < k)%nat -> nth_error (rungs b) k = Some (Filled sl lv) ->
           (1 <= length sl)%nat /\ Forall (fun s => s = (None, None)) sl;
  db_open : forall sl lv, nth_error (rungs b) (current_rung b) = Some (Filled sl lv) ->
            dcur_ok sl (first_free_pos b);
  db_closed : current_rung b = length (rungs b) -> first_free_pos b = 0%nat }.

Lemma db_crl : forall sys md b, DB sys md b -> is_bracket_complete b = false ->
  exists sl lv, current_rung_and_level b = Ok (sl, lv).
Proof.
  intros sys md b B NC. unfold is_bracket_complete in NC. apply Nat.leb_gt in NC.
  destruct (nth_error (rungs b) (current_rung b)) as [e|] eqn:E.
  - destruct (db_filled _ _ _ B _ _ E) as [sl [lv ->]]. exists sl, lv. apply crl_of_nth. exact E.
  - apply nth_error_None in E. lia.
Qed.

Lemma db_cur_ok : forall sys md b sl lv, DB sys md b -> current_rung_and_level b = Ok (sl, lv) ->
  dcur_ok sl (first_free_pos b).
Proof. intros sys md b sl lv B C. destruct (crl_inv _ _ _ C) as [N _]. exact (db_open _ _ _ B _ _ N). Qed.

Lemma map_shape_dehb : forall rs : rung_system,
  map entry_shape (map (fun x => Filled (repeat ((None, None) : slot) (fst x)) (snd x)) rs) = rs.
Proof. induction rs as [|[a b] r IH]; simpl; [reflexivity|]. rewrite repeat_length, IH. reflexivity. Qed.

Lemma forall_repeat : forall {A} (P : A -> Prop) x n, P x -> Forall P (repeat x n).
Proof. intros A P x n H. apply Forall_forall. intros y Hy. apply repeat_spec in Hy. subst. exact H. Qed.

Lemma db_new : forall sys md, check_rungs sys = true -> DB sys md (dehb_new_bracket sys md).
Proof.
  intros sys md CK. destruct (check_rungs_spec _ CK) as [NE [Pos _]]. unfold dehb_new_bracket.
  assert (Ent : forall k e, nth_error (map (fun x => Filled (repeat ((None, None) : slot) (fst x)) (snd x)) sys) k = Some e ->
            exists n lv, nth_error sys k = Some (n, lv) /\ e = Filled (repeat (None, None) n) lv).
  { intros k e H. rewrite nth_error_map in H. destruct (nth_error sys k) as [[n lv]|] eqn:E; [|discriminate].
    inversion H. eauto. }
  constructor; cbn [rungs current_rung first_free_pos bmode].
  - apply map_shape_dehb.
  - reflexivity.
  - lia.
  - intros k e H. destruct (Ent _ _ H) as [n [lv [_ ->]]]. eauto.
  - intros k sl lv Hk. lia.
  - intros k sl lv Hk H. destruct (Ent _ _ H) as [n [lv' [Hs E]]]. inversion E; subst.
    rewrite repeat_length. split; [eapply Pos; eauto|]. apply forall_repeat. reflexivity.
  - intros sl lv H. destruct (Ent _ _ H) as [n [lv' [Hs E]]]. inversion E; subst.
    assert (1 <= n)%nat by (eapply Pos; eauto). constructor.
    + lia.
    + intros pos s _ N. apply nth_error_repeat in N. exact N.
    + exists 0%nat. destruct n; [lia|]. reflexivity.
    + apply forall_repeat. exact I.
  - rewrite map_length. intros H. destruct sys; [congruence|discriminate].
Qed.

Lemma db_bump : forall sys md b sl lv, DB sys md b ->
  current_rung_and_level b = Ok (sl, lv) -> (first_free_pos b < length sl)%nat -> DB sys md (bump b).
Proof.
  intros sys md b sl lv B C L. destruct (crl_inv _ _ _ C) as [N _].
  destruct B as [B1 B2 B3 B4 B5 B6 B7 B8].
  constructor; cbn [bump rungs current_rung first_free_pos bmode]; auto.
  - intros sl' lv' N'. rewrite N in N'. inversion N'; subst sl' lv'.
    destruct (B7 _ _ N) as [C1 C2 C3 C4]. constructor; auto. intros pos s Hp. apply C2. lia.
  - intro Hc. apply nth_error_lt in N. lia.
Qed.

(* what an accepted result does to a DEHB bracket *)
Lemma dbor_inv : forall b r sl lv b' out,
  current_rung_and_level b = Ok (sl, lv) ->
  dehb_bracket_on_result b r = Ok (b', out) ->
  rung_index r = current_rung b /\ (slot_index r < first_free_pos b)%nat /\ level r = lv /\
  (exists t0, nth_error sl (slot_index r) = Some (t0, None)) /\
  exists v, metric_val r = Some v /\
  let sl' := upd sl (slot_index r) (trial_id r, Some v) in
  let rungs1 := upd (rungs b) (current_rung b) (Filled sl' lv) in
  ( (is_full sl' (first_free_pos b) = false /\
     b' = mkB (bmode b) (first_free_pos b) (current_rung b) rungs1 /\ out = None)
  \/ (is_full sl' (first_free_pos b) = true /\
     b' = mkB (bmode b) 0 (S (current_rung b)) rungs1 /\
     out = if Nat.leb (length rungs1) (S (current_rung b)) then None else Some [])).
Proof.
  intros b r sl lv b' out C H. unfold dehb_bracket_on_result in H. rewrite C in H.
  destruct (Nat.eqb (rung_index r) (current_rung b)) eqn:E1; simpl in H; [|discriminate].
  apply Nat.eqb_eq in E1.
  destruct (Nat.ltb (slot_index r) (first_free_pos b)) eqn:E2; simpl in H; [|discriminate].
  apply Nat.ltb_lt in E2.
  destruct (Z.eqb (level r) lv) eqn:E3; simpl in H; [|discriminate]. apply Z.eqb_eq in E3.
  destruct (nth_error sl (slot_index r)) as [[t0 mv0]|] eqn:E4; [|discriminate].
  destruct mv0 as [?|]; [discriminate|].
  destruct (metric_val r) as [v|] eqn:E6; [|discriminate].
  split; [exact E1|]. split; [exact E2|]. split; [exact E3|]. split; [eauto|].
  exists v. split; [reflexivity|]. cbv zeta.
  set (sl' := upd sl (slot_index r) (trial_id r, Some v)) in *.
  set (rungs1 := upd (rungs b) (current_rung b) (Filled sl' lv)) in *.
  fold (is_full sl' (first_free_pos b)) in H.
  destruct (is_full sl' (first_free_pos b)) eqn:F.
  - unfold is_bracket_complete in H. cbn [rungs current_rung] in H.
    destruct (Nat.leb (length rungs1) (S (current_rung b))); inversion H; subst; right; auto.
  - inversion H; subst. left. auto.
Qed.

Lemma dbor_ok : forall b r sl lv t0 v,
  current_rung_and_level b = Ok (sl, lv) ->
  rung_index r = current_rung b -> (slot_index r < first_free_pos b)%nat -> level r = lv ->
  nth_error sl (slot_index r) = Some (t0, None) -> metric_val r = Some v ->
  exists b' out, dehb_bracket_on_result b r = Ok (b', out).
Proof.
  intros b r sl lv t0 v C E1 E2 E3 E4 E6. unfold dehb_bracket_on_result. rewrite C.
  apply Nat.eqb_eq in E1. rewrite E1. apply Nat.ltb_lt in E2. rewrite E2. simpl.
  apply Z.eqb_eq in E3. rewrite E3. simpl. rewrite E4, E6.
  match goal with |- context [if ?c then _ else _] => destruct c end; [|eauto].
  match goal with |- context [if ?c then _ else _] => destruct c end; eauto.
Qed.

Lemma db_answer : forall sys md b b' r sl lv out,
  DB sys md b -> current_rung_and_level b = Ok (sl, lv) ->
  dehb_bracket_on_result b r = Ok (b', out) ->
  ((exists t, trial_id r = Some t) \/ (trial_id r = None /\ metric_val r = Some NaN)) -> DB sys md b'.
Proof.
  intros sys md b b' r sl lv out B C R T.
  destruct (dbor_inv _ _ _ _ _ _ C R) as [E1 [E2 [E3 [[t0 N] [v [MV Cases]]]]]]. cbv zeta in Cases.
  destruct (crl_inv _ _ _ C) as [Nth NC].
  assert (Lc : (current_rung b < length (rungs b))%nat) by (eapply nth_error_lt; eauto).
  assert (CO := db_cur_ok _ _ _ _ _ B C).
  set (sl' := upd sl (slot_index r) (trial_id r, Some v)) in *.
  assert (New : dslot_ok (trial_id r, Some v)).
  { destruct T as [[t T]|[T1 T2]]; [rewrite T; exact I|]. rewrite T1. rewrite T2 in MV. inversion MV. exact I. }
  assert (LEN : length sl' = length sl) by apply upd_length.
  assert (Slots' : Forall dslot_ok sl').
  { apply Forall_forall. intros s Hs. apply In_upd in Hs. destruct Hs as [->|Hs]; [exact New|].
    assert (X := dco_slots _ _ CO). rewrite Forall_forall in X. exact (X _ Hs). }
  destruct B as [B1 B2 B3 B4 B5 B6 B7 B8].
  assert (Get : forall k e, nth_error (upd (rungs b) (current_rung b) (Filled sl' lv)) k = Some e ->
            (k = current_rung b /\ e = Filled sl' lv) \/ (k <> current_rung b /\ nth_error (rungs b) k = Some e)).
  { intros k e H. apply nth_error_upd in H. destruct H as [[<- ->]|[Nq H]]; [left; auto|right; split; [congruence|exact H]]. }
  assert (Sys1 : map entry_shape (upd (rungs b) (current_rung b) (Filled sl' lv)) = sys).
  { rewrite (upd_same_map entry_shape _ _ _ _ Nth); [exact B1|]. simpl. rewrite LEN. reflexivity. }
  assert (Fill1 : forall k e, nth_error (upd (rungs b) (current_rung b) (Filled sl' lv)) k = Some e -> exists sl0 lv0, e = Filled sl0 lv0).
  { intros k e H. destruct (Get _ _ H) as [[_ ->]|[_ H']]; eauto. }
  destruct Cases as [[F [-> _]]|[F [-> _]]].
  - constructor; cbn [rungs current_rung first_free_pos bmode]; auto.
    + rewrite upd_length. exact B3.
    + intros k sl0 lv0 Hk H. destruct (Get _ _ H) as [[-> _]|[_ H']]; [lia|eauto].
    + intros k sl0 lv0 Hk H. destruct (Get _ _ H) as [[-> _]|[_ H']]; [lia|eauto].
    + intros sl0 lv0 H. rewrite nth_error_upd_eq in H by exact Lc. inversion H; subst sl0 lv0.
      assert (Free' : forall pos s, (first_free_pos b <= pos)%nat -> nth_error sl' pos = Some s -> s = (None, None)).
      { intros pos s Hp Hs. unfold sl' in Hs. rewrite nth_error_upd_neq in Hs by lia. eapply (dco_free _ _ CO); eauto. }
      constructor; auto.
      * rewrite ?LEN; unfold sl'; rewrite ?upd_length; exact (dco_ffp _ _ CO).
      * destruct (not_full_spec sl' (first_free_pos b)) as [pos [t1 Hp]]; auto.
        { rewrite ?LEN; unfold sl'; rewrite ?upd_length; exact (dco_ffp _ _ CO). }
        { intros pos s Hp Hs. rewrite (Free' _ _ Hp Hs). reflexivity. }
        exists pos. rewrite Forall_forall in Slots'. assert (X := Slots' _ (nth_error_In _ _ Hp)).
        destruct t1; [contradiction|exact Hp].
    + rewrite upd_length. intro Hc. lia.
  - assert (Full : Forall (fun s => snd s <> None /\ dslot_ok s) sl').
    { destruct (is_full_spec _ _ F) as [_ Occ]. apply Forall_forall. intros s Hs. split; [exact (Occ _ Hs)|].
      rewrite Forall_forall in Slots'. exact (Slots' _ Hs). }
    constructor; cbn [rungs current_rung first_free_pos bmode]; auto.
    + rewrite upd_length. lia.
    + intros k sl0 lv0 Hk H. destruct (Get _ _ H) as [[-> E]|[Nq H']].
      * inversion E; subst. exact Full.
      * eapply B5; [|exact H']. lia.
    + intros k sl0 lv0 Hk H. destruct (Get _ _ H) as [[-> _]|[_ H']]; [lia|]. eapply B6; [|exact H']. lia.
    + intros sl0 lv0 H. rewrite nth_error_upd_neq in H by lia.
      destruct (B6 _ _ _ (Nat.lt_succ_diag_r _) H) as [L1 Fn]. rewrite Forall_forall in Fn. constructor.
      * lia.
      * intros pos s _ Hs. apply Fn. eapply nth_error_In; eauto.
      * exists 0%nat. destruct sl0 as [|x sl0]; [simpl in L1; lia|]. simpl. rewrite (Fn x (or_introl eq_refl)). reflexivity.
      * apply Forall_forall. intros s Hs. rewrite (Fn _ Hs). exact I.
Qed.

Definition nfs_good (b : bracket) : Prop :=
  (next_free_slot b = Ok (b, None) /\ has_free_slot b = false) \/
  (exists sl lv t0, current_rung_and_level b = Ok (sl, lv) /\
     nth_error sl (first_free_pos b) = Some (t0, None) /\ has_free_slot b = true /\
     next_free_slot b = Ok (bump b, Some (mkSIR (current_rung b) lv (first_free_pos b) t0 None))).

Lemma nfs_db : forall sys md b, DB sys md b -> nfs_good b.
Proof.
  intros sys md b B. unfold nfs_good, has_free_slot, next_free_slot.
  destruct (is_bracket_complete b) eqn:E; [left; auto|].
  destruct (db_crl _ _ _ B E) as [sl [lv C]]. rewrite C.
  destruct (nth_error sl (first_free_pos b)) as [[t0 mv]|] eqn:N; [|left; auto].
  assert (CO := db_cur_ok _ _ _ _ _ B C).
  assert (X := dco_free _ _ CO _ _ (le_n _) N). inversion X; subst.
  right. exists sl, lv, None. auto.
Qed.

Lemma try_spec_gen : forall bs len p,
  (forall i, (p <= i < p + len)%nat -> exists b, nth_error bs i = Some b /\ nfs_good b) ->
  (try_brackets bs (seq p len) = Ok None /\
   forall i b, (p <= i < p + len)%nat -> nth_error bs i = Some b -> has_free_slot b = false) \/
  (exists i b sl lv t0, (p <= i < p + len)%nat /\ nth_error bs i = Some b /\
     current_rung_and_level b = Ok (sl, lv) /\
     nth_error sl (first_free_pos b) = Some (t0, None) /\ has_free_slot b = true /\
     (forall j bj, (p <= j < i)%nat -> nth_error bs j = Some bj -> has_free_slot bj = false) /\
     try_brackets bs (seq p len) =
       Ok (Some (upd bs i (bump b), i, mkSIR (current_rung b) lv (first_free_pos b) t0 None))).
Proof.
  intros bs. induction len as [|len IH]; intros p H; simpl.
  - left. split; [reflexivity|]. intros i b Hi. lia.
  - destruct (H p) as [b [Nb Gb]]; [lia|]. rewrite Nb.
    destruct Gb as [[E HF]|[sl [lv [t0 [C [N [HF E]]]]]]]; rewrite E.
    + destruct (IH (S p)) as [[E2 A]|[i2 [b2 [sl2 [lv2 [t2 [I2 [N2 [C2 [S2 [HF2 [Low E2]]]]]]]]]]]].
      * intros j Hj. apply H. lia.
      * left. split; [exact E2|]. intros j bj Hj Nj. destruct (Nat.eq_dec j p) as [->|NE]; [congruence|].
        apply (A j); [lia|exact Nj].
      * right. exists i2, b2, sl2, lv2, t2. repeat split; auto; try lia.
        intros j bj Hj Nj. destruct (Nat.eq_dec j p) as [->|NE]; [congruence|]. apply (Low j); [lia|exact Nj].
    + right. exists p, b, sl, lv, t0. repeat split; auto; try lia.
Qed.

(* outstanding jobs point to handed-out slots without a value of the rung being filled *)
Definition out_ok (bs : list bracket) (j : job) : Prop :=
  exists b sl lv, nth_error bs (fst j) = Some b /\ current_rung_and_level b = Ok (sl, lv) /\
    rung_index (snd j) = current_rung b /\ (slot_index (snd j) < first_free_pos b)%nat /\
    level (snd j) = lv /\ nth_error sl (slot_index (snd j)) = Some (None, None) /\
    trial_id (snd j) = None.

Definition job_key (j : job) : nat * nat := (fst j, slot_index (snd j)).

Record DInv (rss : list rung_system) (md : mode) (st : dstate) : Prop := mkDInv {
  di_rs : m_rs (d_mgr st) = rss;
  di_mode : m_mode (d_mgr st) = md;
  di_off : m_offsets (d_mgr st) =
           map (fun j => (j mod length rss)%nat) (seq 0 (length (m_brackets (d_mgr st))));
  di_prim : (m_primary (d_mgr st) < length (m_brackets (d_mgr st)))%nat;
  di_lt : forall j b, nth_error (m_brackets (d_mgr st)) j = Some b -> (j < m_primary (d_mgr st))%nat ->
          is_bracket_complete b = true;
  di_pc : forall b, nth_error (m_brackets (d_mgr st)) (m_primary (d_mgr st)) = Some b ->
          is_bracket_complete b = false;
  di_b : forall j b, nth_error (m_brackets (d_mgr st)) j = Some b -> DB (nth (j mod length rss) rss []) md b;
  di_out : Forall (out_ok (m_brackets (d_mgr st))) (d_out st);
  di_keys : NoDup (map job_key (d_out st)) }.

Lemma mkDInv' : forall rss md bs offs p O,
  offs = map (fun j => (j mod length rss)%nat) (seq 0 (length bs)) -> (p < length bs)%nat ->
  (forall j b, nth_error bs j = Some b -> (j < p)%nat -> is_bracket_complete b = true) ->
  (forall b, nth_error bs p = Some b -> is_bracket_complete b = false) ->
  (forall j b, nth_error bs j = Some b -> DB (nth (j mod length rss) rss []) md b) ->
  Forall (out_ok bs) O -> NoDup (map job_key O) ->
  DInv rss md (mkD (mkM rss md bs offs p) O).
Proof. intros. constructor; auto. Qed.

Lemma dcreate_ok : forall rss md bs offs p,
  offs = map (fun j => (j mod length rss)%nat) (seq 0 (length bs)) ->
  dehb_create_new_bracket (mkM rss md bs offs p) =
    Ok (mkM rss md (bs ++ [dehb_new_bracket (nth (length bs mod length rss) rss []) md])
            (offs ++ [(length bs mod length rss)%nat]) p, length bs) /\
  offs ++ [(length bs mod length rss)%nat] =
    map (fun j => (j mod length rss)%nat) (seq 0 (length (bs ++ [dehb_new_bracket (nth (length bs mod length rss) rss []) md]))).
Proof.
  intros rss md bs offs p E. unfold dehb_create_new_bracket. cbn [m_brackets m_offsets m_rs m_mode m_primary].
  replace (Nat.eqb (length bs) (length offs)) with true.
  2:{ symmetry. apply Nat.eqb_eq. rewrite E, map_length, seq_length. reflexivity. }
  split; [reflexivity|]. rewrite E, app_length. simpl. rewrite Nat.add_1_r, seq_snoc, map_app. reflexivity.
Qed.

Lemma out_ok_ext : forall bs bs' j, out_ok bs j ->
  (forall k b, nth_error bs k = Some b -> nth_error bs' k = Some b) -> out_ok bs' j.
Proof.
  intros bs bs' j [b [sl [lv [N R]]]] Ext. exists b, sl, lv. split; [apply Ext; exact N|exact R].
Qed.

Lemma dnew_facts : forall sys md, check_rungs sys = true ->
  exists sl lv, current_rung_and_level (dehb_new_bracket sys md) = Ok (sl, lv) /\
    nth_error sl 0 = Some (None, None) /\ first_free_pos (dehb_new_bracket sys md) = 0%nat /\
    current_rung (dehb_new_bracket sys md) = 0%nat /\
    is_bracket_complete (dehb_new_bracket sys md) = false /\
    next_free_slot (dehb_new_bracket sys md) =
      Ok (bump (dehb_new_bracket sys md), Some (mkSIR 0 lv 0 None None)).
Proof.
  intros sys md CK. destruct (check_rungs_spec _ CK) as [NE [Pos _]].
  destruct sys as [|[size lv] rest]; [congruence|].
  assert (1 <= size)%nat by (apply (Pos 0%nat size lv); reflexivity).
  destruct size as [|size]; [lia|].
  exists (repeat (None, None) (S size)), lv. repeat split.
Qed.

(* a request for work on the DEHB manager *)
Lemma dnext_inv : forall rss md st, rss_ok rss -> DInv rss md st ->
  exists m' bid s, dehb_next_job (d_mgr st) = Ok (m', (bid, s)) /\
    DInv rss md (mkD m' (d_out st ++ [(bid, s)])) /\ trial_id s = None /\
    (m_primary (d_mgr st) <= bid)%nat /\
    ((length (m_brackets m') = length (m_brackets (d_mgr st)) /\ (bid < length (m_brackets (d_mgr st)))%nat /\
      (exists b, nth_error (m_brackets (d_mgr st)) bid = Some b /\ has_free_slot b = true) /\
      (forall j bj, (m_primary (d_mgr st) <= j < bid)%nat -> nth_error (m_brackets (d_mgr st)) j = Some bj ->
                    has_free_slot bj = false))
     \/ (length (m_brackets m') = S (length (m_brackets (d_mgr st))) /\ bid = length (m_brackets (d_mgr st)) /\
         forall j b, (m_primary (d_mgr st) <= j)%nat -> nth_error (m_brackets (d_mgr st)) j = Some b ->
                     has_free_slot b = false)).
Proof.
  intros rss md [[rs md0 bs offs p] O] OK I.
  destruct I as [I1 I2 I3 I4 I5 I6 I7 I8 I9]. cbn [d_mgr d_out m_rs m_mode m_brackets m_offsets m_primary] in *.
  subst rs md0. assert (OK' := OK). destruct OK' as [NE CKs].
  (* handing out slot [ffp] of bracket [i] of [bs1] *)
  assert (Hand : forall bs1 offs1 i b sl lv t0,
     (forall j bj, nth_error bs1 j = Some bj -> DB (nth (j mod length rss) rss []) md bj) ->
     Forall (out_ok bs1) O ->
     nth_error bs1 i = Some b -> current_rung_and_level b = Ok (sl, lv) ->
     nth_error sl (first_free_pos b) = Some (t0, None) -> (p <= i)%nat ->
     offs1 = map (fun j => (j mod length rss)%nat) (seq 0 (length bs1)) -> (length bs <= length bs1)%nat ->
     (forall bj, nth_error bs1 p = Some bj -> is_bracket_complete bj = false) ->
     (forall j bj, nth_error bs1 j = Some bj -> (j < p)%nat -> is_bracket_complete bj = true) ->
     t0 = None /\
     DInv rss md (mkD (mkM rss md (upd bs1 i (bump b)) offs1 p)
                      (O ++ [(i, mkSIR (current_rung b) lv (first_free_pos b) t0 None)]))).
  { intros bs1 offs1 i b sl lv t0 DB1 O1 Nb C Ns Pi Offs1 Lbs1 PC1 LT1.
    assert (Bb := DB1 _ _ Nb). assert (CO := db_cur_ok _ _ _ _ _ Bb C).
    assert (X := dco_free _ _ CO _ _ (le_n _) Ns). inversion X; subst t0. split; [reflexivity|].
    assert (Li : (i < length bs1)%nat) by (eapply nth_error_lt; eauto).
    assert (Ls : (first_free_pos b < length sl)%nat) by (eapply nth_error_lt; eauto).
    destruct (crl_inv _ _ _ C) as [_ NC].
    apply mkDInv'.
    - rewrite upd_length. exact Offs1.
    - rewrite upd_length. lia.
    - intros j bj H Hj. apply nth_error_upd in H. destruct H as [[<- ->]|[_ H]]; [lia|eauto].
    - intros bj H. apply nth_error_upd in H. destruct H as [[<- ->]|[_ H]]; [exact NC|eauto].
    - intros j bj H. apply nth_error_upd in H. destruct H as [[<- ->]|[_ H]]; [eapply db_bump; eauto|eauto].
    - apply Forall_app. split.
      + eapply Forall_impl; [|exact O1]. intros [bid s] [b2 [sl2 [lv2 [N2 [C2 [E1 [E2 R]]]]]]].
        cbn [fst snd] in *. destruct (Nat.eq_dec bid i) as [->|NEq].
        * rewrite Nb in N2. inversion N2; subst b2. exists (bump b), sl2, lv2. cbn [fst snd].
          split; [apply nth_error_upd_eq; exact Li|]. split; [exact C2|]. split; [exact E1|]. split; [simpl; lia|exact R].
        * exists b2, sl2, lv2. cbn [fst snd]. split; [rewrite nth_error_upd_neq by congruence; exact N2|auto].
      + constructor; [|constructor]. exists (bump b), sl, lv. cbn [fst snd rung_index slot_index level trial_id].
        split; [apply nth_error_upd_eq; exact Li|]. split; [exact C|]. split; [reflexivity|]. split; [simpl; lia|].
        split; [reflexivity|]. split; [exact Ns|reflexivity].
    - rewrite map_app. simpl. apply nodup_app_intro; [exact I9|constructor; [simpl; tauto|constructor]|].
      intros k Hk [<-|[]]. apply in_map_iff in Hk. destruct Hk as [[bid s] [Ek Hin]].
      unfold job_key in Ek. cbn [fst snd slot_index] in Ek. inversion Ek; subst.
      rewrite Forall_forall in O1. destruct (O1 _ Hin) as [b2 [sl2 [lv2 [N2 [C2 [E1 [E2 R]]]]]]]. cbn [fst snd] in *.
      rewrite Nb in N2. inversion N2; subst b2. lia. }
  unfold dehb_next_job. cbn [m_rs m_mode m_brackets m_offsets m_primary].
  destruct (try_spec_gen bs (length bs - p) p) as [[E NoFree]|[i [b [sl [lv [t0 [Ii [Nb [C [Ns [HF [Low E]]]]]]]]]]]].
  { intros i Hi. destruct (nth_error bs i) as [b|] eqn:Nb.
    - exists b. split; [reflexivity|]. eapply nfs_db. eapply I7; eauto.
    - apply nth_error_None in Nb. lia. }
  - rewrite E. destruct (dcreate_ok rss md bs offs p I3) as [CE CO]. rewrite CE.
    cbn [m_rs m_mode m_brackets m_offsets m_primary].
    set (sys := nth (length bs mod length rss) rss []) in *.
    assert (CK : check_rungs sys = true) by (apply CKs, mod_lt_len, NE).
    set (nb := dehb_new_bracket sys md) in *.
    assert (Nnb : nth_error (bs ++ [nb]) (length bs) = Some nb).
    { rewrite nth_error_app2 by lia. rewrite Nat.sub_diag. reflexivity. }
    rewrite Nnb.
    destruct (dnew_facts sys md CK) as [sl [lv [C [Ns [F0 [C0 [NC Enfs]]]]]]]. fold nb in C, Ns, F0, C0, NC, Enfs. rewrite Enfs.
    assert (H1 : forall j bj, nth_error (bs ++ [nb]) j = Some bj -> DB (nth (j mod length rss) rss []) md bj).
    { intros j bj H. apply nth_error_snoc in H. destruct H as [[_ H]|[-> ->]]; [eauto|]. apply db_new. exact CK. }
    assert (H2 : Forall (out_ok (bs ++ [nb])) O).
    { eapply Forall_impl; [|exact I8]. intros j Hj. eapply out_ok_ext; [exact Hj|].
      intros k bk Hk. rewrite nth_error_app1; [exact Hk|eapply nth_error_lt; eauto]. }
    assert (H3 : nth_error sl (first_free_pos nb) = Some (None, None)) by (rewrite F0; exact Ns).
    assert (H4 : (length bs <= length (bs ++ [nb]))%nat) by (rewrite app_length; simpl; lia).
    assert (H5 : forall bj, nth_error (bs ++ [nb]) p = Some bj -> is_bracket_complete bj = false).
    { intros bj H. rewrite nth_error_app1 in H by lia. eauto. }
    assert (H6 : forall j bj, nth_error (bs ++ [nb]) j = Some bj -> (j < p)%nat -> is_bracket_complete bj = true).
    { intros j bj H Hj. rewrite nth_error_app1 in H by lia. eauto. }
    destruct (Hand (bs ++ [nb]) (offs ++ [(length bs mod length rss)%nat]) (length bs) nb sl lv None
                H1 H2 Nnb C H3 (Nat.lt_le_incl _ _ I4) CO H4 H5 H6) as [_ DI].
    rewrite F0, C0 in DI. eexists _, _, _. split; [reflexivity|]. split; [exact DI|]. split; [reflexivity|]. split; [lia|].
    right. cbn [m_brackets set_brackets]. rewrite upd_length, app_length. simpl. split; [lia|]. split; [reflexivity|].
    intros j bj Hj Nj. eapply NoFree; eauto. apply nth_error_lt in Nj. lia.
  - rewrite E. assert (Pi : (p <= i)%nat) by lia.
    destruct (Hand bs offs i b sl lv t0 I7 I8 Nb C Ns Pi I3 (le_n _) I6 I5) as [-> DI].
    eexists _, _, _. split; [reflexivity|]. split; [exact DI|]. split; [reflexivity|]. split; [lia|].
    left. cbn [m_brackets set_brackets]. rewrite upd_length. split; [reflexivity|]. split; [eapply nth_error_lt; eauto|].
    split; [eauto|exact Low].
Qed.

Lemma remove_nth_split : forall {A} (l : list A) k e, nth_error l k = Some e ->
  exists l1 l2, l = l1 ++ e :: l2 /\ remove_nth l k = l1 ++ l2.
Proof.
  induction l as [|x l IH]; intros [|k] e H; simpl in *; try discriminate.
  - inversion H; subst. exists [], l. auto.
  - destruct (IH _ _ H) as [l1 [l2 [E1 E2]]]. exists (x :: l1), l2. simpl. rewrite <- E1, E2. auto.
Qed.

(* an outstanding DEHB job returns *)
Lemma dret_inv : forall rss md st k bid s tr v, rss_ok rss -> DInv rss md st ->
  nth_error (d_out st) k = Some (bid, s) ->
  ((exists t, tr = Some t) \/ (tr = None /\ v = NaN)) ->
  exists m' out, dehb_mgr_on_result (d_mgr st) bid
                   (mkSIR (rung_index s) (level s) (slot_index s) tr (Some v)) = Ok (m', out) /\
    DInv rss md (mkD m' (remove_nth (d_out st) k)).
Proof.
  intros rss md [[rs md0 bs offs p] O] k bid s tr v OK I Hk TR.
  destruct I as [I1 I2 I3 I4 I5 I6 I7 I8 I9]. cbn [d_mgr d_out m_rs m_mode m_brackets m_offsets m_primary] in *.
  subst rs md0. assert (OK' := OK). destruct OK' as [NE CKs].
  destruct (remove_nth_split _ _ _ Hk) as [O1 [O2 [EO ER]]]. rewrite ER.
  assert (Hin : In (bid, s) O) by (eapply nth_error_In; eauto).
  rewrite Forall_forall in I8.
  destruct (I8 _ Hin) as [b [sl [lv [Nb [C [E1 [E2 [E3 [E4 E5]]]]]]]]]. cbn [fst snd] in *.
  destruct (crl_inv _ _ _ C) as [Nth NC].
  assert (Lb : (bid < length bs)%nat) by (eapply nth_error_lt; eauto).
  assert (Pb : (p <= bid)%nat).
  { destruct (Nat.le_gt_cases p bid) as [X|X]; [exact X|]. rewrite (I5 _ _ Nb X) in NC. discriminate. }
  assert (Bb := I7 _ _ Nb).
  set (r := mkSIR (rung_index s) (level s) (slot_index s) tr (Some v)).
  destruct (dbor_ok b r sl lv None v C E1 E2 E3 E4 eq_refl) as [b' [out R]].
  assert (Bb' : DB (nth (bid mod length rss) rss []) md b').
  { eapply db_answer; eauto. unfold r. cbn [trial_id metric_val].
    destruct TR as [[t ->]|[-> ->]]; [left; eauto|right; auto]. }
  destruct (dbor_inv _ _ _ _ _ _ C R) as [_ [_ [_ [_ [v' [MV' Cases]]]]]].
  simpl in MV'. inversion MV'; subst v'. clear MV'. cbv zeta in Cases. simpl trial_id in Cases. simpl slot_index in Cases.
  set (sl' := upd sl (slot_index s) (tr, Some v)) in *.
  assert (Lc : (current_rung b < length (rungs b))%nat) by (eapply nth_error_lt; eauto).
  assert (Shape : (is_full sl' (first_free_pos b) = false /\ current_rung_and_level b' = Ok (sl', lv) /\
                   first_free_pos b' = first_free_pos b /\ current_rung b' = current_rung b)
                  \/ is_full sl' (first_free_pos b) = true).
  { destruct Cases as [[F [-> _]]|[F _]]; [left|right; exact F].
    split; [exact F|]. split; [|split; reflexivity]. apply crl_of_nth. cbn [rungs current_rung].
    apply nth_error_upd_eq. exact Lc. }
  set (bs' := upd bs bid b') in *.
  assert (Lbs' : length bs' = length bs) by apply upd_length.
  assert (Nb' : nth_error bs' bid = Some b') by (apply nth_error_upd_eq; exact Lb).
  assert (CompOther : forall j bj, j <> bid -> nth_error bs' j = Some bj -> nth_error bs j = Some bj).
  { intros j bj NEq H. unfold bs' in H. rewrite nth_error_upd_neq in H by congruence. exact H. }
  assert (DBs' : forall j bj, nth_error bs' j = Some bj -> DB (nth (j mod length rss) rss []) md bj).
  { intros j bj H. unfold bs' in H. apply nth_error_upd in H. destruct H as [[<- ->]|[_ H]]; eauto. }
  (* the other outstanding jobs *)
  assert (Keys : NoDup (map job_key (O1 ++ O2)) /\ forall j, In j (O1 ++ O2) -> In j O /\ job_key j <> job_key (bid, s)).
  { rewrite EO, map_app in I9. simpl in I9. split.
    - rewrite map_app. eapply NoDup_remove_1; eauto.
    - intros j Hj. split; [rewrite EO; apply in_app_or in Hj; apply in_or_app; simpl; tauto|].
      intro Ek. apply NoDup_remove_2 in I9. apply I9. rewrite <- Ek, <- map_app. apply in_map. exact Hj. }
  destruct Keys as [Keys1 Keys2].
  assert (Out' : Forall (out_ok bs') (O1 ++ O2)).
  { apply Forall_forall. intros [bid2 s2] Hj. destruct (Keys2 _ Hj) as [Hin2 NK].
    destruct (I8 _ Hin2) as [b2 [sl2 [lv2 [N2 [C2 [F1 [F2 [F3 [F4 F5]]]]]]]]]. cbn [fst snd] in *.
    destruct (Nat.eq_dec bid2 bid) as [->|NEq].
    - rewrite Nb in N2. inversion N2; subst b2. rewrite C in C2. inversion C2; subst sl2 lv2.
      assert (NEp : slot_index s2 <> slot_index s).
      { intro X. apply NK. unfold job_key. cbn [fst snd]. rewrite X. reflexivity. }
      assert (Sl2 : nth_error sl' (slot_index s2) = Some (None, None)).
      { unfold sl'. rewrite nth_error_upd_neq by congruence. exact F4. }
      destruct Shape as [[F [C' [FF CR]]]|F].
      + exists b', sl', lv. cbn [fst snd]. repeat split; auto; congruence.
      + exfalso. destruct (is_full_spec _ _ F) as [_ Occ]. apply nth_error_In in Sl2. apply (Occ _ Sl2). reflexivity.
    - exists b2, sl2, lv2. cbn [fst snd]. split; [unfold bs'; rewrite nth_error_upd_neq by congruence; exact N2|].
      exact (conj C2 (conj F1 (conj F2 (conj F3 (conj F4 F5))))). }
  unfold dehb_mgr_on_result. cbn [m_rs m_mode m_brackets m_offsets m_primary].
  replace (Nat.leb p bid && Nat.ltb bid (length bs)) with true
    by (symmetry; apply andb_true_iff; split; [apply Nat.leb_le|apply Nat.ltb_lt]; lia).
  cbn [negb]. rewrite Nb. fold r. rewrite R. fold bs'.
  assert (Offs' : offs = map (fun j => (j mod length rss)%nat) (seq 0 (length bs'))) by (rewrite Lbs'; exact I3).
  destruct (Nat.eqb bid p) eqn:Ep.
  - apply Nat.eqb_eq in Ep. subst bid.
    destruct (advance_spec (length bs) bs' p (length bs - 1)) as [A [Bc Cl]]; try lia.
    set (p' := advance_primary (length bs) bs' p (length bs - 1)) in *.
    destruct (nth_error bs' p') as [bp|] eqn:Np.
    2:{ apply nth_error_None in Np. lia. }
    assert (Below : forall j bj, nth_error bs' j = Some bj -> (j < p')%nat -> is_bracket_complete bj = true).
    { intros j bj Nj Hj. destruct (Nat.lt_ge_cases j p) as [X|X].
      - eapply I5; [|exact X]. apply CompOther; [lia|exact Nj].
      - eapply Bc; [|exact Nj]. lia. }
    destruct (is_bracket_complete bp) eqn:Cp.
    + assert (p' = length bs - 1)%nat by (eapply Cl; eauto).
      destruct (dcreate_ok rss md bs' offs p' Offs') as [CE CO].
      unfold set_primary, set_brackets. cbn [m_rs m_mode m_brackets m_offsets m_primary]. rewrite CE.
      set (sys := nth (length bs' mod length rss) rss []) in *.
      assert (CK : check_rungs sys = true) by (apply CKs, mod_lt_len, NE).
      eexists _, _. split; [reflexivity|]. cbn [m_rs m_mode m_brackets m_offsets m_primary].
      apply mkDInv'.
      * exact CO.
      * rewrite app_length. simpl. lia.
      * intros j bj Hn Hj. rewrite nth_error_app1 in Hn by lia.
        destruct (Nat.eq_dec j p') as [->|NEq]; [congruence|]. eapply Below; eauto. lia.
      * intros bj Hn. rewrite nth_error_app2 in Hn by lia. rewrite Nat.sub_diag in Hn. simpl in Hn.
        inversion Hn. destruct (dnew_facts sys md CK) as [_ [_ [_ [_ [_ [_ [X _]]]]]]]. exact X.
      * intros j bj H0. apply nth_error_snoc in H0. destruct H0 as [[_ H0]|[-> ->]]; [eauto|]. apply db_new. exact CK.
      * eapply Forall_impl; [|exact Out']. intros j Hj. eapply out_ok_ext; [exact Hj|].
        intros k0 bk Hk0. rewrite nth_error_app1; [exact Hk0|eapply nth_error_lt; eauto].
      * exact Keys1.
    + unfold set_primary, set_brackets. cbn [m_rs m_mode m_brackets m_offsets m_primary].
      eexists _, _. split; [reflexivity|].
      apply mkDInv'; [exact Offs'|lia|exact Below|intros bj Hn; congruence|exact DBs'|exact Out'|exact Keys1].
  - apply Nat.eqb_neq in Ep. unfold set_brackets. cbn [m_rs m_mode m_brackets m_offsets m_primary].
    eexists _, _. split; [reflexivity|].
    apply mkDInv'; [exact Offs'|lia| | |exact DBs'|exact Out'|exact Keys1].
    + intros j bj Hn Hj. eapply I5; [|exact Hj]. apply CompOther; [lia|exact Hn].
    + intros bj Hn. apply I6. apply CompOther; [lia|exact Hn].
Qed.

Lemma dstep_inv : forall rss md st o, rss_ok rss -> DInv rss md st ->
  exists st', dstep st o = Ok st' /\ DInv rss md st'.
Proof.
  intros rss md st o OK I.
  assert (Ans : forall i tr v, ((exists t, tr = Some t) \/ (tr = None /\ v = NaN)) ->
            exists st', danswer st i tr v = Ok st' /\ DInv rss md st').
  { intros i tr v TR. unfold danswer. destruct (d_out st) as [|j0 O'] eqn:EO; [eauto|]. rewrite <- EO.
    assert (Lk : (i mod length (d_out st) < length (d_out st))%nat).
    { apply Nat.mod_upper_bound. rewrite EO. simpl. lia. }
    destruct (nth_error (d_out st) (i mod length (d_out st))) as [[bid s]|] eqn:Hk.
    2:{ apply nth_error_None in Hk. lia. }
    destruct (dret_inv _ _ _ _ _ _ tr v OK I Hk TR) as [m' [out [E I']]]. rewrite E. eauto. }
  destruct o as [|i t v|i]; simpl.
  - destruct (dnext_inv _ _ _ OK I) as [m' [bid [s [E [I' _]]]]]. rewrite E. eauto.
  - apply Ans. left. eauto.
  - apply Ans. right. auto.
Qed.

Lemma drun_inv : forall rss md ops st, rss_ok rss -> DInv rss md st ->
  exists st', drun st ops = Ok st' /\ DInv rss md st'.
Proof.
  intros rss md. induction ops as [|o ops IH]; intros st OK I; simpl; [eauto|].
  destruct (dstep_inv _ _ _ o OK I) as [st1 [E I1]]. rewrite E. apply IH; assumption.
Qed.

(* the rung systems of a DEHB manager: suffixes of the first bracket's *)
Definition dehb_rss (first : rung_system) (nb : option nat) : list rung_system :=
  dehb_bracket_rungs first (match nb with Some k => k | None => length first end).

Lemma dinit_inv : forall first md nb m, dehb_mgr_init first md nb = Ok m ->
  rss_ok (dehb_rss first nb) /\ DInv (dehb_rss first nb) md (mkD m []).
Proof.
  intros first md nb m H. unfold dehb_mgr_init in H. fold (dehb_rss first nb) in H.
  destruct (Nat.eqb (length first) 0); [discriminate|].
  destruct (negb _); [discriminate|].
  set (rss := dehb_rss first nb) in *.
  destruct (check_bracket_rungs rss) eqn:CK; [|discriminate].
  assert (OK := check_bracket_rungs_ok _ CK). split; [exact OK|]. destruct OK as [NE CKs].
  destruct (dcreate_ok rss md [] [] 0 eq_refl) as [CE CO]. rewrite CE in H. inversion H; subst m. cbn [length] in *.
  set (sys := nth (0 mod length rss) rss []) in *.
  assert (CKsys : check_rungs sys = true) by (apply CKs, mod_lt_len, NE).
  unfold set_primary. cbn [m_rs m_mode m_brackets m_offsets m_primary app].
  apply mkDInv'; auto.
  - intros j b H0 Hj. lia.
  - intros b H0. simpl in H0. inversion H0. destruct (dnew_facts sys md CKsys) as [_ [_ [_ [_ [_ [_ [X _]]]]]]]. exact X.
  - intros j b H0. destruct j as [|j]; simpl in H0; [|destruct j; discriminate]. inversion H0. apply db_new. exact CKsys.
  - constructor.
Qed.

Theorem drun_from_inv : forall first md nb ops m0, dehb_mgr_init first md nb = Ok m0 ->
  exists st, drun_from first md nb ops = Ok st /\ DInv (dehb_rss first nb) md st /\ rss_ok (dehb_rss first nb).
Proof.
  intros first md nb ops m0 H. unfold drun_from. rewrite H. destruct (dinit_inv _ _ _ _ H) as [OK I].
  destruct (drun_inv _ _ ops _ OK I) as [st [E I']]. eauto.
Qed.

Theorem dehb_no_error : forall first md nb ops m0, dehb_mgr_init first md nb = Ok m0 ->
  exists st, drun_from first md nb ops = Ok st.
Proof. intros. destruct (drun_from_inv _ _ _ ops _ H) as [st [E _]]. eauto. Qed.

Lemma dreach : forall first md nb ops m0 st, dehb_mgr_init first md nb = Ok m0 ->
  drun_from first md nb ops = Ok st -> DInv (dehb_rss first nb) md st /\ rss_ok (dehb_rss first nb).
Proof.
  intros first md nb ops m0 st H E. destruct (drun_from_inv _ _ _ ops _ H) as [st' [E' [I OK]]].
  rewrite E in E'. inversion E'; subst. auto.
Qed.

Theorem dehb_rungs_filled : forall first md nb ops m0 st, dehb_mgr_init first md nb = Ok m0 ->
  drun_from first md nb ops = Ok st ->
  length (m_offsets (d_mgr st)) = length (m_brackets (d_mgr st)) /\
  forall j b, nth_error (m_brackets (d_mgr st)) j = Some b ->
    let rss := dehb_rss first nb in
    nth_error (m_offsets (d_mgr st)) j = Some (j mod length rss)%nat /\
    map entry_shape (rungs b) = nth (j mod length rss) rss [] /\
    (forall k sl lv, (k < current_rung b)%nat -> nth_error (rungs b) k = Some (Filled sl lv) ->
       Forall (fun s => snd s <> None /\ dslot_ok s) sl) /\
    (forall k sl lv, (current_rung b < k)%nat -> nth_error (rungs b) k = Some (Filled sl lv) ->
       Forall (fun s => s = (None, None)) sl).
Proof.
  intros first md nb ops m0 st H E. destruct (dreach _ _ _ _ _ _ H E) as [I _].
  rewrite (di_off _ _ _ I). split; [rewrite map_length, seq_length; reflexivity|].
  intros j b Nb rss. assert (B := di_b _ _ _ I _ _ Nb).
  split; [apply (nth_error_map_seq (fun j0 => (j0 mod length (dehb_rss first nb))%nat)); eapply nth_error_lt; eauto|].
  split; [exact (db_sys _ _ _ B)|]. split; [exact (db_done _ _ _ B)|].
  intros k sl lv Hk N. exact (proj2 (db_fut _ _ _ B _ _ _ Hk N)).
Qed.

Theorem dehb_never_blocks : forall first md nb ops m0 st, dehb_mgr_init first md nb = Ok m0 ->
  drun_from first md nb ops = Ok st ->
  exists m' bid s, dehb_next_job (d_mgr st) = Ok (m', (bid, s)) /\ trial_id s = None /\
    (m_primary (d_mgr st) <= bid)%nat /\
    ((length (m_brackets m') = length (m_brackets (d_mgr st)) /\ (bid < length (m_brackets (d_mgr st)))%nat /\
      (exists b, nth_error (m_brackets (d_mgr st)) bid = Some b /\ has_free_slot b = true) /\
      (forall j bj, (m_primary (d_mgr st) <= j < bid)%nat -> nth_error (m_brackets (d_mgr st)) j = Some bj ->
                    has_free_slot bj = false))
     \/ (length (m_brackets m') = S (length (m_brackets (d_mgr st))) /\ bid = length (m_brackets (d_mgr st)) /\
         forall j b, (m_primary (d_mgr st) <= j)%nat -> nth_error (m_brackets (d_mgr st)) j = Some b ->
                     has_free_slot b = false)).
Proof.
  intros first md nb ops m0 st H E. destruct (dreach _ _ _ _ _ _ H E) as [I OK].
  destruct (dnext_inv _ _ _ OK I) as [m' [bid [s [E1 [_ [T [Pb Cases]]]]]]]. exists m', bid, s. auto.
Qed.

(* top_of_previous_rung lists the top list of the rung below the current one *)
Theorem dehb_top_of_previous_rung : forall first md nb ops m0 st bid b sl lv,
  dehb_mgr_init first md nb = Ok m0 -> drun_from first md nb ops = Ok st ->
  nth_error (m_brackets (d_mgr st)) bid = Some b -> current_rung_and_level b = Ok (sl, lv) ->
  (0 < current_rung b)%nat ->
  exists prev lvp vals top rest,
    nth_error (rungs b) (current_rung b - 1) = Some (Filled prev lvp) /\
    occupied_values prev = Some vals /\
    get_top_list md vals (length sl) = (top, rest) /\
    (length sl <= length vals)%nat /\ length top = length sl /\
    top_list_for_previous_rung b = Ok top /\
    (forall pos t, nth_error top pos = Some t -> top_of_previous_rung (d_mgr st) bid pos = Ok t) /\
    (* every entry of the top list is a trial id if enough jobs of the rung below have a valid
       result, or if no job of that rung was reported as failed without a trial *)
    ((length sl <= length (valid_entries vals))%nat -> Forall (fun t => t <> None) top) /\
    ((forall s, In s prev -> fst s <> None) -> Forall (fun t => t <> None) top).
Proof.
  intros first md nb ops m0 st bid b sl lv H E Nb C Hc. destruct (dreach _ _ _ _ _ _ H E) as [I [NE CKs]].
  assert (B := di_b _ _ _ I _ _ Nb). destruct (crl_inv _ _ _ C) as [Nth _].
  assert (Lc : (current_rung b < length (rungs b))%nat) by (eapply nth_error_lt; eauto).
  destruct (nth_error (rungs b) (current_rung b - 1)) as [e|] eqn:Np.
  2:{ apply nth_error_None in Np. lia. }
  destruct (db_filled _ _ _ B _ _ Np) as [prev [lvp ->]].
  assert (Occ := db_done _ _ _ B (current_rung b - 1)%nat prev lvp ltac:(lia) Np).
  destruct (occupied_values_all prev) as [vals [OV [MF _]]].
  { rewrite Forall_forall in Occ. intros s Hs. exact (proj1 (Occ _ Hs)). }
  destruct (occupied_values_some _ _ OV) as [_ LV].
  assert (CK : check_rungs (nth (bid mod length (dehb_rss first nb)) (dehb_rss first nb) []) = true) by (apply CKs, mod_lt_len, NE).
  destruct (check_rungs_spec _ CK) as [_ [_ Dec]].
  assert (Lt : (length sl < length prev)%nat).
  { eapply (Dec (current_rung b - 1)%nat).
    - rewrite <- (db_sys _ _ _ B), nth_error_map, Np. reflexivity.
    - replace (S (current_rung b - 1)) with (current_rung b) by lia.
      rewrite <- (db_sys _ _ _ B), nth_error_map, Nth. reflexivity. }
  destruct (get_top_list md vals (length sl)) as [top rest] eqn:G.
  destruct (get_top_list_sub _ _ _ _ _ G) as [LT _]; [lia|].
  assert (TL : top_list_for_previous_rung b = Ok top).
  { unfold top_list_for_previous_rung, size_of_current_rung.
    replace (Nat.eqb (current_rung b) 0) with false by (symmetry; apply Nat.eqb_neq; lia).
    rewrite Np, C, OV, (db_mode _ _ _ B), G. reflexivity. }
  destruct (occupied_values_all prev) as [vals' [OV' [_ IFF]]].
  { rewrite Forall_forall in Occ. intros s Hs. exact (proj1 (Occ _ Hs)). }
  rewrite OV in OV'. inversion OV'; subst vals'. clear OV'.
  exists prev, lvp, vals, top, rest.
  split; [reflexivity|]. split; [exact OV|]. split; [exact G|]. split; [lia|]. split; [exact LT|]. split; [exact TL|].
  split; [|split].
  - intros pos t Ht. unfold top_of_previous_rung. rewrite Nb, TL, Ht. reflexivity.
  - intros Hv. unfold get_top_list in G. apply Nat.leb_le in Hv. rewrite Hv in G. inversion G as [[Top Rem]].
    apply Forall_forall. intros t Ht. apply in_map_iff in Ht. destruct Ht as [[t' q] [Et Hin]]. simpl in Et. subst t'.
    apply in_firstn in Hin. eapply Permutation_in in Hin; [|apply sort_stable_perm].
    apply valid_entries_In in Hin. apply IFF in Hin.
    rewrite Forall_forall in Occ. destruct (Occ _ Hin) as [_ Ok']. destruct t; [discriminate|contradiction].
  - intros Hs. destruct (get_top_list_sub _ _ _ _ _ G) as [_ [rest' PT]]; [lia|].
    apply Forall_forall. intros t Ht.
    assert (Hin : In t (map fst vals)) by (eapply Permutation_in; [exact PT|apply in_or_app; left; exact Ht]).
    rewrite MF in Hin. apply in_map_iff in Hin. destruct Hin as [s0 [<- Hs0]]. exact (Hs _ Hs0).
Qed.

(* ---- dehb.py _mutation: the trial ids read for a job above the base rung ----------------- *)
Theorem dehb_mutation_reads_trials : forall first md nb ops m0 st bid b sl lv prev lvp vals gp rt,
  dehb_mgr_init first md nb = Ok m0 -> drun_from first md nb ops = Ok st ->
  nth_error (m_brackets (d_mgr st)) bid = Some b -> current_rung_and_level b = Ok (sl, lv) ->
  (0 < current_rung b)%nat ->
  nth_error (rungs b) (current_rung b - 1) = Some (Filled prev lvp) -> occupied_values prev = Some vals ->
  ((length sl <= length (valid_entries vals))%nat \/ (forall s, In s prev -> fst s <> None)) ->
  forall pos, (pos < length sl)%nat ->
    exists t, read_trial_info (mutation_parent (d_mgr st) bid false lv (length sl) gp rt pos) = Ok t.
Proof.
  intros first md nb ops m0 st bid b sl lv prev lvp vals gp rt H E Nb C Hc Np OV Cond pos Hp.
  destruct (dehb_top_of_previous_rung _ _ _ _ _ _ _ _ _ _ H E Nb C Hc)
    as [prev' [lvp' [vals' [top [rest [Np' [OV' [G [Lv [LT [TL [Top [F1 F2]]]]]]]]]]]]].
  rewrite Np in Np'. inversion Np'; subst prev' lvp'. rewrite OV in OV'. inversion OV'; subst vals'.
  assert (F : Forall (fun t => t <> None) top) by (destruct Cond as [X|X]; [exact (F1 X)|exact (F2 X)]).
  destruct (nth_error top pos) as [t|] eqn:Ht.
  2:{ apply nth_error_None in Ht. lia. }
  rewrite Forall_forall in F. assert (X := F _ (nth_error_In _ _ Ht)).
  destruct t as [t|]; [|congruence]. exists t. unfold mutation_parent.
  replace (Nat.leb (length sl) pos) with false by (symmetry; apply Nat.leb_gt; exact Hp).
  rewrite (Top _ _ Ht). reflexivity.
Qed.

(* since the fix of F-C13-3 the lookup is total above the base rung: a failed job's slot in the top
   list is replaced by a random existing trial *)
Theorem dehb_mutation_reads_trials_total : forall first md nb ops m0 st bid b sl lv gp rt,
  dehb_mgr_init first md nb = Ok m0 -> drun_from first md nb ops = Ok st ->
  nth_error (m_brackets (d_mgr st)) bid = Some b -> current_rung_and_level b = Ok (sl, lv) ->
  (0 < current_rung b)%nat ->
  forall pos, (pos < length sl)%nat ->
    exists t, read_trial_info (mutation_parent (d_mgr st) bid false lv (length sl) gp rt pos) = Ok t.
Proof.
  intros first md nb ops m0 st bid b sl lv gp rt H E Nb C Hc pos Hp.
  destruct (dehb_top_of_previous_rung _ _ _ _ _ _ _ _ _ _ H E Nb C Hc)
    as [prev [lvp [vals [top [rest [_ [_ [_ [_ [LT [_ [Top _]]]]]]]]]]]].
  destruct (nth_error top pos) as [t|] eqn:Ht.
  2:{ apply nth_error_None in Ht. lia. }
  unfold mutation_parent.
  replace (Nat.leb (length sl) pos) with false by (symmetry; apply Nat.leb_gt; exact Hp).
  rewrite (Top _ _ Ht). destruct t as [t|]; eexists; reflexivity.
Qed.


(* regression example for former finding F-C05-2 (3 rung levels, 1 bracket per iteration): the job
   (bracket 1, rung 2) now finds its parent, the trial in rung 2 of bracket 0 *)
Definition dehb_witness_first : rung_system := [(4%nat, 1%Z); (2%nat, 2%Z); (1%nat, 3%Z)].
Definition dehb_witness_ops : list dop :=
  flat_map (fun t => [DNext; DRet 0 (Z.of_nat t) (Val (inject_Z (Z.of_nat t)))]) (seq 0 13) ++ [DNext].

Theorem dehb_parent_slot_example :
  exists st bid s,
    drun_from dehb_witness_first Min (Some 1%nat) dehb_witness_ops = Ok st /\ In (bid, s) (d_out st) /\
    trial_id_from_parent_slot (d_mgr st) bid (level s) (slot_index s) = Ok (Some 6%Z).
Proof.
  destruct (drun_from dehb_witness_first Min (Some 1%nat) dehb_witness_ops) as [st|e] eqn:E; vm_compute in E; [|discriminate].
  inversion E; subst st. eexists _, _, _. split; [reflexivity|]. split; [left; reflexivity|]. vm_compute. reflexivity.
Qed.

(* ======================================================================== *)
(* Part 9: the top list in order; a rung completes exactly with its last value *)
(* ======================================================================== *)

(* entries with the same metric value as [z] *)
Definition same_key (z x : tid * Q) : bool := Qeq_bool (snd z) (snd x).

Lemma better_eq_of_eq : forall m a b, Qeq_bool a b = true -> better_eq m a b = true.
Proof.
  intros m a b H. apply Qeq_bool_iff in H. destruct m; simpl; unfold Qleb; apply Qle_bool_iff; rewrite H; apply Qle_refl.
Qed.

Lemma same_key_strict : forall m z x y, same_key z x = true -> better_eq m (snd x) (snd y) = false -> same_key z y = false.
Proof.
  intros m z x y Hzx Hxy. unfold same_key in *. destruct (Qeq_bool (snd z) (snd y)) eqn:E; [|reflexivity].
  exfalso. apply Qeq_bool_iff in Hzx. apply Qeq_bool_iff in E.
  assert (Qeq_bool (snd x) (snd y) = true) by (apply Qeq_bool_iff; rewrite <- Hzx; exact E).
  rewrite (better_eq_of_eq m _ _ H) in Hxy. discriminate.
Qed.

(* inserting keeps, for every metric value, the input order of the entries having it: x goes in
   front of the entries that are not strictly better, in particular in front of its equals *)
Lemma insert_sorted_stable : forall m z x l,
  filter (same_key z) (insert_sorted m x l) = filter (same_key z) (x :: l).
Proof.
  intros m z x. induction l as [|y l IH]; [reflexivity|]. simpl insert_sorted.
  destruct (better_eq m (snd x) (snd y)) eqn:E; [reflexivity|].
  simpl. simpl in IH. rewrite IH. destruct (same_key z x) eqn:Zx.
  - rewrite (same_key_strict m z x y Zx E). reflexivity.
  - reflexivity.
Qed.

Lemma sort_stable_stable : forall m z l, filter (same_key z) (sort_stable m l) = filter (same_key z) l.
Proof.
  intros m z. induction l as [|x l IH]; [reflexivity|]. simpl sort_stable.
  rewrite insert_sorted_stable. simpl. rewrite IH. reflexivity.
Qed.

(* get_top_list, exactly.  No hypothesis on the trial ids.
   Enough valid entries: the first new_len entries of the valid entries sorted by metric (best first
   for the mode, equal metrics in rung order) and no failed entry.
   Fewer valid entries than slots: ALL valid entries (the code keeps them in rung order here), and
   behind them the first failed entries in rung order as padding. *)
Theorem get_top_list_order : forall m rung new_len top rest,
  get_top_list m rung new_len = (top, rest) -> (new_len <= length rung)%nat ->
  exists srt,
    Permutation srt (valid_entries rung) /\
    StronglySorted (fun a b => better_eq m (snd a) (snd b) = true) srt /\
    (forall z, filter (same_key z) srt = filter (same_key z) (valid_entries rung)) /\
    length top = new_len /\
    (((new_len <= length (valid_entries rung))%nat /\ top = map fst (firstn new_len srt)) \/
     ((length (valid_entries rung) < new_len)%nat /\
      top = map fst (valid_entries rung) ++ firstn (new_len - length (valid_entries rung)) (invalid_ids rung))).
Proof.
  intros m rung k top rest G Hk. unfold get_top_list in G.
  set (rv := valid_entries rung) in *.
  assert (Lvi := valid_invalid_length rung). fold rv in Lvi.
  exists (sort_stable m rv).
  assert (Ps : Permutation (sort_stable m rv) rv) by apply sort_stable_perm.
  assert (Ls : length (sort_stable m rv) = length rv) by (apply Permutation_length; exact Ps).
  split; [exact Ps|]. split; [apply sort_stable_sorted|]. split; [intro z; apply sort_stable_stable|].
  destruct (Nat.leb k (length rv)) eqn:E.
  - apply Nat.leb_le in E. inversion G as [[Top Rem]]. clear G Rem.
    split; [rewrite map_length, firstn_length; lia|]. left. split; [exact E|reflexivity].
  - apply Nat.leb_gt in E. inversion G as [[Top Rem]]. clear G Rem.
    split; [rewrite app_length, map_length, firstn_length; lia|]. right. split; [exact E|reflexivity].
Qed.

(* ---- a rung completes exactly when its last slot receives a value --------------------------- *)
Lemma is_full_iff : forall sl ffp, is_full sl ffp = true <->
  (length sl <= ffp)%nat /\ forall s, In s sl -> snd s <> None.
Proof.
  intros sl ffp. split; [apply is_full_spec|]. intros [L A]. unfold is_full, count_pending.
  apply andb_true_iff. split; [apply Nat.leb_le; exact L|]. apply Nat.eqb_eq.
  rewrite firstn_all2 by exact L.
  destruct (filter (fun x => is_none (snd x)) sl) as [|x l] eqn:E; [reflexivity|].
  assert (I : In x (filter (fun x => is_none (snd x)) sl)) by (rewrite E; left; reflexivity).
  apply filter_In in I. destruct I as [I N]. exfalso. apply (A _ I). destruct (snd x); [discriminate|reflexivity].
Qed.

Lemma upd_all_valued : forall (sl : list slot) pos t v, (pos < length sl)%nat ->
  ((forall s, In s (upd sl pos (t, Some v)) -> snd s <> None) <->
   (forall p s, p <> pos -> nth_error sl p = Some s -> snd s <> None)).
Proof.
  intros sl pos t v L. split.
  - intros A p s Np Hs. apply A. eapply nth_error_In.
    rewrite nth_error_upd_neq by (intro Heq; apply Np; symmetry; exact Heq). exact Hs.
  - intros A s Hs. apply In_nth_error in Hs. destruct Hs as [p Hp]. apply nth_error_upd in Hp.
    destruct Hp as [[_ ->]|[Np Hp]]; [discriminate|]. eapply A; [|exact Hp]. intro Heq. apply Np. symmetry. exact Heq.
Qed.

Theorem rung_completes_iff_last_value : forall b r sl lv b' out,
  current_rung_and_level b = Ok (sl, lv) -> bracket_on_result b r = Ok (b', out) ->
  (current_rung b' = S (current_rung b) <->
     ((length sl <= first_free_pos b)%nat /\
      forall pos s, pos <> slot_index r -> nth_error sl pos = Some s -> snd s <> None)) /\
  (current_rung b' = current_rung b \/ current_rung b' = S (current_rung b)) /\
  (current_rung b' = current_rung b ->
     first_free_pos b' = first_free_pos b /\
     exists v, metric_val r = Some v /\
       current_rung_and_level b' = Ok (upd sl (slot_index r) (trial_id r, Some v), lv)).
Proof.
  intros b r sl lv b' out C R.
  destruct (bor_inv _ _ _ _ _ _ C R) as [_ [E2 [_ [[t0 N] [v [MV Cases]]]]]]. cbv zeta in Cases.
  destruct (crl_inv _ _ _ C) as [Nth _].
  assert (Lc : (current_rung b < length (rungs b))%nat) by (eapply nth_error_lt; eauto).
  assert (Lp : (slot_index r < length sl)%nat) by (destruct N as [N _]; eapply nth_error_lt; eauto).
  assert (Full : is_full (upd sl (slot_index r) (trial_id r, Some v)) (first_free_pos b) = true <->
            ((length sl <= first_free_pos b)%nat /\
             forall pos s, pos <> slot_index r -> nth_error sl pos = Some s -> snd s <> None)).
  { rewrite is_full_iff, upd_length, (upd_all_valued sl _ _ _ Lp). tauto. }
  unfold slot, tid in *.
  destruct Cases as [[F [-> _]]|[[F [_ [-> _]]]|[F [nl [ms [vals [top [rem [_ [_ [_ [-> _]]]]]]]]]]]]; cbn [current_rung first_free_pos].
  - split; [|split; [left; reflexivity|]].
    + split; [lia|]. intro X. apply Full in X. congruence.
    + intros _. split; [reflexivity|]. exists v. split; [exact MV|]. apply crl_of_nth. cbn [rungs current_rung].
      apply nth_error_upd_eq. exact Lc.
  - split; [|split; [right; reflexivity|intro X; lia]]. split; [intros _; apply Full; exact F|reflexivity].
  - split; [|split; [right; reflexivity|intro X; lia]]. split; [intros _; apply Full; exact F|reflexivity].
Qed.

Theorem dehb_rung_completes_iff_last_value : forall b r sl lv b' out,
  current_rung_and_level b = Ok (sl, lv) -> dehb_bracket_on_result b r = Ok (b', out) ->
  (current_rung b' = S (current_rung b) <->
     ((length sl <= first_free_pos b)%nat /\
      forall pos s, pos <> slot_index r -> nth_error sl pos = Some s -> snd s <> None)) /\
  (current_rung b' = current_rung b \/ current_rung b' = S (current_rung b)).
Proof.
  intros b r sl lv b' out C R.
  destruct (dbor_inv _ _ _ _ _ _ C R) as [_ [E2 [_ [[t0 N] [v [MV Cases]]]]]]. cbv zeta in Cases.
  assert (Lp : (slot_index r < length sl)%nat) by (eapply nth_error_lt; eauto).
  assert (Full : is_full (upd sl (slot_index r) (trial_id r, Some v)) (first_free_pos b) = true <->
            ((length sl <= first_free_pos b)%nat /\
             forall pos s, pos <> slot_index r -> nth_error sl pos = Some s -> snd s <> None)).
  { rewrite is_full_iff, upd_length, (upd_all_valued sl _ _ _ Lp). tauto. }
  unfold slot, tid in *.
  destruct Cases as [[F [-> _]]|[F [-> _]]]; cbn [current_rung].
  - split; [|left; reflexivity]. split; [lia|]. intro X. apply Full in X. congruence.
  - split; [|right; reflexivity]. split; [intros _; apply Full; exact F|reflexivity].
Qed.

(* ======================================================================== *)
(* Part 10: the cache of top_of_previous_rung is transparent                  *)
(* ======================================================================== *)

Lemma tlfpr_ext : forall b1 b0, rungs b1 = rungs b0 -> current_rung b1 = current_rung b0 -> bmode b1 = bmode b0 ->
  top_list_for_previous_rung b1 = top_list_for_previous_rung b0.
Proof.
  intros b1 b0 E1 E2 E3. unfold top_list_for_previous_rung, size_of_current_rung, current_rung_and_level.
  rewrite E1, E2, E3. reflexivity.
Qed.

Lemma nfs_frame : forall b b' o, next_free_slot b = Ok (b', o) ->
  rungs b' = rungs b /\ current_rung b' = current_rung b /\ bmode b' = bmode b.
Proof.
  intros b b' o H. unfold next_free_slot in H.
  destruct (is_bracket_complete b); [inversion H; auto|].
  destruct (current_rung_and_level b) as [[sl lv]|e]; [|discriminate].
  destruct (nth_error sl (first_free_pos b)) as [[t mv]|]; inversion H; auto.
Qed.

Lemma try_brackets_frame : forall bs ids bs' i s, try_brackets bs ids = Ok (Some (bs', i, s)) ->
  exists b b', nth_error bs i = Some b /\ bs' = upd bs i b' /\
    rungs b' = rungs b /\ current_rung b' = current_rung b /\ bmode b' = bmode b.
Proof.
  intros bs. induction ids as [|j ids IH]; intros bs' i s H; simpl in H; [discriminate|].
  destruct (nth_error bs j) as [b|] eqn:Nb; [|discriminate].
  destruct (next_free_slot b) as [[b' [s'|]]|e] eqn:E; try discriminate.
  - inversion H; subst. exists b, b'. split; [exact Nb|]. split; [reflexivity|]. eapply nfs_frame; eauto.
  - eapply IH; eauto.
Qed.

Lemma dnext_frame : forall m m' j, dehb_next_job m = Ok (m', j) ->
  forall k b0, nth_error (m_brackets m) k = Some b0 ->
    exists b1, nth_error (m_brackets m') k = Some b1 /\
      rungs b1 = rungs b0 /\ current_rung b1 = current_rung b0 /\ bmode b1 = bmode b0.
Proof.
  intros m m' j H k b0 Nk. unfold dehb_next_job in H.
  assert (Lk : (k < length (m_brackets m))%nat) by (eapply nth_error_lt; eauto).
  destruct (try_brackets (m_brackets m) _) as [[[[bs' i] s]|]|e] eqn:T; try discriminate.
  - inversion H; subst. cbn [m_brackets set_brackets].
    destruct (try_brackets_frame _ _ _ _ _ T) as [b [b' [Nb [-> [R1 [R2 R3]]]]]].
    destruct (Nat.eq_dec i k) as [->|NE].
    + rewrite Nb in Nk. inversion Nk; subst b0. exists b'. split; [apply nth_error_upd_eq; exact Lk|auto].
    + exists b0. rewrite nth_error_upd_neq by exact NE. auto.
  - unfold dehb_create_new_bracket in H.
    destruct (negb _); [discriminate|]. cbn [m_brackets] in H.
    rewrite nth_error_app2 in H by lia. rewrite Nat.sub_diag in H. cbn [nth_error] in H.
    destruct (next_free_slot _) as [[b' [s'|]]|e] eqn:E; try discriminate.
    inversion H; subst. cbn [m_brackets set_brackets]. exists b0.
    rewrite nth_error_upd_neq by lia. rewrite nth_error_app1 by exact Lk. auto.
Qed.

Lemma dbor_frame : forall b r b' out, dehb_bracket_on_result b r = Ok (b', out) ->
  (current_rung b <= current_rung b')%nat /\
  (current_rung b' = current_rung b -> top_list_for_previous_rung b' = top_list_for_previous_rung b).
Proof.
  intros b r b' out R.
  destruct (current_rung_and_level b) as [[sl lv]|e] eqn:C.
  2:{ unfold dehb_bracket_on_result in R. rewrite C in R.
      destruct (negb _); [discriminate|]. destruct (negb _); discriminate. }
  destruct (dbor_inv _ _ _ _ _ _ C R) as [_ [_ [_ [_ [v [_ Cases]]]]]]. cbv zeta in Cases.
  destruct (crl_inv _ _ _ C) as [Nth _].
  assert (Lc : (current_rung b < length (rungs b))%nat) by (eapply nth_error_lt; eauto).
  destruct Cases as [[_ [-> _]]|[_ [-> _]]]; cbn [current_rung]; [|split; [lia|intro; lia]].
  split; [lia|]. intros _.
  unfold top_list_for_previous_rung, size_of_current_rung, current_rung_and_level. cbn [rungs current_rung bmode].
  destruct (Nat.eqb (current_rung b) 0) eqn:Z; [reflexivity|]. apply Nat.eqb_neq in Z.
  rewrite nth_error_upd_neq by lia. rewrite nth_error_upd_eq by exact Lc. rewrite Nth, upd_length. reflexivity.
Qed.

Lemma dmor_frame : forall m bid r m' out, dehb_mgr_on_result m bid r = Ok (m', out) ->
  forall k b0, nth_error (m_brackets m) k = Some b0 ->
    exists b1, nth_error (m_brackets m') k = Some b1 /\
      (k <> bid -> b1 = b0) /\ (k = bid -> dehb_bracket_on_result b0 r = Ok (b1, out)).
Proof.
  intros m bid r m' out H k b0 Nk. unfold dehb_mgr_on_result in H.
  assert (Lk : (k < length (m_brackets m))%nat) by (eapply nth_error_lt; eauto).
  destruct (negb _); [discriminate|].
  destruct (nth_error (m_brackets m) bid) as [b|] eqn:Nb; [|discriminate].
  destruct (dehb_bracket_on_result b r) as [[b' tnp]|e] eqn:R; [|discriminate].
  assert (Lb : (bid < length (m_brackets m))%nat) by (eapply nth_error_lt; eauto).
  assert (Main : forall bs2, (bs2 = upd (m_brackets m) bid b' \/ exists x, bs2 = upd (m_brackets m) bid b' ++ [x]) ->
            out = tnp ->
            exists b1, nth_error bs2 k = Some b1 /\ (k <> bid -> b1 = b0) /\ (k = bid -> dehb_bracket_on_result b0 r = Ok (b1, out))).
  { intros bs2 Hbs ->.
    assert (N2 : nth_error bs2 k = nth_error (upd (m_brackets m) bid b') k).
    { destruct Hbs as [->|[x ->]]; [reflexivity|]. apply nth_error_app1. rewrite upd_length. exact Lk. }
    rewrite N2. destruct (Nat.eq_dec bid k) as [->|NE].
    - rewrite Nb in Nk. inversion Nk; subst b0. exists b'. rewrite nth_error_upd_eq by exact Lk.
      split; [reflexivity|]. split; [congruence|intros _; exact R].
    - exists b0. rewrite nth_error_upd_neq by exact NE. split; [exact Nk|]. split; [reflexivity|congruence]. }
  destruct (Nat.eqb bid (m_primary m)).
  - destruct (nth_error (upd (m_brackets m) bid b') _) as [bp|]; [|discriminate].
    destruct (is_bracket_complete bp).
    + unfold dehb_create_new_bracket in H. destruct (negb _); [discriminate|].
      inversion H; subst. cbn [m_brackets set_primary set_brackets]. apply Main; [right; eexists; reflexivity|reflexivity].
    + inversion H; subst. cbn [m_brackets set_primary set_brackets]. apply Main; [left; reflexivity|reflexivity].
  - inversion H; subst. cbn [m_brackets set_brackets]. apply Main; [left; reflexivity|reflexivity].
Qed.

Lemma dstep_frame : forall st o st', dstep st o = Ok st' ->
  forall k b0, nth_error (m_brackets (d_mgr st)) k = Some b0 ->
    exists b1, nth_error (m_brackets (d_mgr st')) k = Some b1 /\
      (current_rung b0 <= current_rung b1)%nat /\
      (current_rung b1 = current_rung b0 -> top_list_for_previous_rung b1 = top_list_for_previous_rung b0).
Proof.
  intros st o st' H k b0 Nk.
  assert (Ans : forall i tr v, danswer st i tr v = Ok st' ->
            exists b1, nth_error (m_brackets (d_mgr st')) k = Some b1 /\
              (current_rung b0 <= current_rung b1)%nat /\
              (current_rung b1 = current_rung b0 -> top_list_for_previous_rung b1 = top_list_for_previous_rung b0)).
  { intros i tr v Ha. unfold danswer in Ha.
    destruct (d_out st) as [|j0 O']; [inversion Ha; subst; exists b0; auto|].
    match type of Ha with context [nth_error ?l ?k0] => destruct (nth_error l k0) as [[bid s]|] end; [|discriminate].
    match type of Ha with context [dehb_mgr_on_result ?a1 ?a2 ?a3] =>
      destruct (dehb_mgr_on_result a1 a2 a3) as [[m' out]|e] eqn:M end; [|discriminate].
    inversion Ha; subst. cbn [d_mgr].
    destruct (dmor_frame _ _ _ _ _ M _ _ Nk) as [b1 [N1 [Same Upd]]]. exists b1. split; [exact N1|].
    destruct (Nat.eq_dec k bid) as [E|NE].
    - exact (dbor_frame _ _ _ _ (Upd E)).
    - rewrite (Same NE). auto. }
  destruct o as [|i t v|i]; simpl in H.
  - destruct (dehb_next_job (d_mgr st)) as [[m' j]|e] eqn:N; [|discriminate]. inversion H; subst. cbn [d_mgr].
    destruct (dnext_frame _ _ _ N _ _ Nk) as [b1 [N1 [R1 [R2 R3]]]]. exists b1. split; [exact N1|].
    split; [lia|]. intros _. apply tlfpr_ext; assumption.
  - eapply Ans; eauto.
  - eapply Ans; eauto.
Qed.

(* what the cache holds: for an existing bracket, under a rung index not beyond its current rung;
   an entry for the current rung is the top list that would be computed now *)
Definition cache_ok (st : dstate) (c : tcache) : Prop :=
  forall bid k top, cache_get (bid, k) c = Some top ->
    exists b, nth_error (m_brackets (d_mgr st)) bid = Some b /\ (k <= current_rung b)%nat /\
      (current_rung b = k -> top_list_for_previous_rung b = Ok top).

Lemma cache_get_cons : forall key v c k, cache_get k ((key, v) :: c) =
  if Nat.eqb (fst k) (fst key) && Nat.eqb (snd k) (snd key) then Some v else cache_get k c.
Proof. reflexivity. Qed.

Lemma dcstep_cache_ok : forall sc o sc', cache_ok (fst sc) (snd sc) -> dcstep sc o = Ok sc' ->
  cache_ok (fst sc') (snd sc').
Proof.
  intros [st c] o [st' c'] CO H. cbn [fst snd] in *. destruct o as [o|bid pos]; simpl in H.
  - destruct (dstep st o) as [st1|e] eqn:D; [|discriminate]. inversion H; subst.
    intros bid k top G. destruct (CO _ _ _ G) as [b [Nb [Lk Cur]]].
    destruct (dstep_frame _ _ _ D _ _ Nb) as [b1 [N1 [Le Same]]]. exists b1. split; [exact N1|]. split; [lia|].
    intros E. assert (current_rung b1 = current_rung b) by lia. rewrite (Same H0). apply Cur. lia.
  - inversion H; subst st' c'. clear H. unfold top_of_previous_rung_cached.
    destruct (nth_error (m_brackets (d_mgr st)) bid) as [b|] eqn:Nb; [|exact CO].
    destruct (cache_get (bid, current_rung b) c) as [top0|] eqn:G0; [exact CO|].
    destruct (top_list_for_previous_rung b) as [top|e] eqn:T; [|exact CO]. cbn [fst].
    intros bid2 k top2 G. rewrite cache_get_cons in G. cbn [fst snd] in G.
    destruct (Nat.eqb bid2 bid && Nat.eqb k (current_rung b)) eqn:E.
    + apply andb_true_iff in E. destruct E as [E1 E2]. apply Nat.eqb_eq in E1. apply Nat.eqb_eq in E2. subst bid2 k.
      inversion G; subst top2. exists b. split; [exact Nb|]. split; [lia|]. intros _. exact T.
    + exact (CO _ _ _ G).
Qed.

Lemma dcrun_cache_ok : forall ops sc sc', cache_ok (fst sc) (snd sc) -> dcrun sc ops = Ok sc' ->
  cache_ok (fst sc') (snd sc').
Proof.
  induction ops as [|o ops IH]; intros sc sc' CO H; simpl in H; [inversion H; subst; exact CO|].
  destruct (dcstep sc o) as [sc1|e] eqn:D; [|discriminate]. eapply IH; [|exact H]. eapply dcstep_cache_ok; eauto.
Qed.

(* the cached lookup answers exactly what the uncached computation answers, in every state reachable
   by any sequence of requests, results, failures and (also failing) top-list queries *)
Theorem dehb_cache_transparent : forall first md nb ops st c bid pos,
  dcrun_from first md nb ops = Ok (st, c) ->
  snd (top_of_previous_rung_cached (d_mgr st) c bid pos) = top_of_previous_rung (d_mgr st) bid pos.
Proof.
  intros first md nb ops st c bid pos H. unfold dcrun_from in H.
  destruct (dehb_mgr_init first md nb) as [m|e]; [|discriminate].
  assert (CO : cache_ok st c).
  { apply (dcrun_cache_ok ops (mkD m [], []) (st, c)); [|exact H]. intros b0 k top G. discriminate. }
  unfold top_of_previous_rung_cached, top_of_previous_rung.
  destruct (nth_error (m_brackets (d_mgr st)) bid) as [b|] eqn:Nb; [|reflexivity].
  destruct (cache_get (bid, current_rung b) c) as [top|] eqn:G.
  - destruct (CO _ _ _ G) as [b2 [N2 [_ Cur]]]. rewrite Nb in N2. inversion N2; subst b2.
    rewrite (Cur eq_refl). reflexivity.
  - destruct (top_list_for_previous_rung b); reflexivity.
Qed.

(* the manager part of such a run is the run without the queries: queries never change the brackets *)
Fixpoint strip_queries (ops : list dcop) : list dop :=
  match ops with [] => [] | DCOp o :: r => o :: strip_queries r | DCTop _ _ :: r => strip_queries r end.

Theorem dcrun_strip : forall first md nb ops st c,
  dcrun_from first md nb ops = Ok (st, c) -> drun_from first md nb (strip_queries ops) = Ok st.
Proof.
  intros first md nb ops st c H. unfold dcrun_from in H. unfold drun_from.
  destruct (dehb_mgr_init first md nb) as [m|e]; [|discriminate].
  revert H. generalize (mkD m []) ([] : tcache). induction ops as [|o ops IH]; intros st0 c0 H; simpl in H.
  - inversion H; reflexivity.
  - destruct o as [o|bid pos]; simpl in H; simpl.
    + destruct (dstep st0 o) as [st1|e]; [|discriminate]. eapply IH; eauto.
    + eapply IH; eauto.
Qed.

(* ---- liveness in invariant form: a rung whose slots are all handed out stays the current rung only
   as long as a job of it is still outstanding (pending in the scheduler's map); once every job of the
   rung has reported or failed, the rung is complete *)
Theorem rung_waits_only_for_outstanding_jobs : forall rss md ops st bid b sl lv,
  check_bracket_rungs rss = true -> run_from rss md ops = Ok st ->
  nth_error (m_brackets (s_mgr st)) bid = Some b -> current_rung_and_level b = Ok (sl, lv) ->
  first_free_pos b = length sl ->
  exists t s, lookup t (s_pending st) = Some (bid, s) /\ rung_index s = current_rung b /\
              (slot_index s < length sl)%nat /\ trial_id s = Some t.
Proof.
  intros rss md ops st bid b sl lv CK E Nb C Full.
  destruct (current_rung_shape _ _ _ _ CK E _ _ _ _ Nb C) as [_ [_ [_ [pos [t0 Np]]]]].
  assert (Lp : (pos < first_free_pos b)%nat) by (rewrite Full; eapply nth_error_lt; eauto).
  destruct (pending_slots_have_trials _ _ _ _ CK E _ _ _ _ _ _ Nb C Lp Np) as [t [s [LK [Es [Er [_ Et]]]]]].
  exists t, s. split; [exact LK|]. split; [exact Er|]. split; [rewrite Es; rewrite <- Full; exact Lp|exact Et].
Qed.

(* ======================================================================== *)
(* Part 11: the primary-bracket pointer                                       *)
(* ======================================================================== *)

Lemma complete_no_free_slot : forall b, is_bracket_complete b = true -> has_free_slot b = false.
Proof. intros b H. unfold has_free_slot, next_free_slot. rewrite H. reflexivity. Qed.

(* Nothing that still needs service lies below the primary pointer: the pointer is a valid bracket id,
   the primary bracket is not complete, every bracket below it is complete (so it has no free slot, and
   no pending job refers to it), every pending job belongs to a bracket at or above the pointer — which is
   what on_result asserts — and next_job scans exactly the brackets from the pointer upwards. *)
Theorem primary_pointer : forall rss md ops st, check_bracket_rungs rss = true -> run_from rss md ops = Ok st ->
  let m := s_mgr st in
  (m_primary m < length (m_brackets m))%nat /\
  (forall b, nth_error (m_brackets m) (m_primary m) = Some b -> is_bracket_complete b = false) /\
  (forall j b, (j < m_primary m)%nat -> nth_error (m_brackets m) j = Some b ->
     is_bracket_complete b = true /\ has_free_slot b = false) /\
  (forall j b, nth_error (m_brackets m) j = Some b -> is_bracket_complete b = false -> (m_primary m <= j)%nat) /\
  (forall t bid s, lookup t (s_pending st) = Some (bid, s) ->
     (m_primary m <= bid < length (m_brackets m))%nat).
Proof.
  intros rss md ops st CK E m. destruct (reach_inv _ _ _ _ CK E) as [I _]. unfold m.
  split; [exact (iv_prim _ _ _ _ I)|]. split; [exact (iv_pc _ _ _ _ I)|].
  assert (Below : forall j b, (j < m_primary (s_mgr st))%nat -> nth_error (m_brackets (s_mgr st)) j = Some b ->
            is_bracket_complete b = true) by (intros j b Hj Nj; exact (iv_lt _ _ _ _ I _ _ Nj Hj)).
  split; [intros j b Hj Nj; split; [eauto|apply complete_no_free_slot; eauto]|].
  assert (Above : forall j b, nth_error (m_brackets (s_mgr st)) j = Some b -> is_bracket_complete b = false ->
            (m_primary (s_mgr st) <= j)%nat).
  { intros j b Nj NC. destruct (Nat.le_gt_cases (m_primary (s_mgr st)) j) as [X|X]; [exact X|].
    rewrite (Below _ _ X Nj) in NC. discriminate. }
  split; [exact Above|].
  intros t bid s LK. apply lookup_In in LK.
  destruct (ic_p _ _ _ _ _ _ (iv_core _ _ _ _ I) _ _ _ LK) as [[b [sl [lv [t0 [Nb [C _]]]]]] _ _].
  destruct (crl_inv _ _ _ C) as [_ NC]. split; [eapply Above; eauto|eapply nth_error_lt; eauto].
Qed.

Theorem dehb_primary_pointer : forall first md nb ops m0 st, dehb_mgr_init first md nb = Ok m0 ->
  drun_from first md nb ops = Ok st ->
  let m := d_mgr st in
  (m_primary m < length (m_brackets m))%nat /\
  (forall b, nth_error (m_brackets m) (m_primary m) = Some b -> is_bracket_complete b = false) /\
  (forall j b, (j < m_primary m)%nat -> nth_error (m_brackets m) j = Some b ->
     is_bracket_complete b = true /\ has_free_slot b = false) /\
  (forall bid s, In (bid, s) (d_out st) -> (m_primary m <= bid < length (m_brackets m))%nat).
Proof.
  intros first md nb ops m0 st H E m. destruct (dreach _ _ _ _ _ _ H E) as [I _]. unfold m.
  split; [exact (di_prim _ _ _ I)|]. split; [exact (di_pc _ _ _ I)|].
  split; [intros j b Hj Nj; assert (X := di_lt _ _ _ I _ _ Nj Hj); split; [exact X|apply complete_no_free_slot; exact X]|].
  intros bid s Hin. assert (O := di_out _ _ _ I). rewrite Forall_forall in O.
  destruct (O _ Hin) as [b [sl [lv [Nb [C _]]]]]. cbn [fst snd] in *. destruct (crl_inv _ _ _ C) as [_ NC].
  split; [|eapply nth_error_lt; eauto].
  destruct (Nat.le_gt_cases (m_primary (d_mgr st)) bid) as [X|X]; [exact X|].
  rewrite (di_lt _ _ _ I _ _ Nb X) in NC. discriminate.
Qed.

(* ======================================================================== *)
(* Part 12: _trial_to_config and the config of a suggestion                   *)
(* ======================================================================== *)

Lemma lookup_app_new : forall t j (P : list (Z * job)), lookup t P = None -> lookup t (P ++ [(t, j)]) = Some j.
Proof.
  induction P as [|[k w] P IH]; intro H; simpl in *; [rewrite Z.eqb_refl; reflexivity|].
  destruct (Z.eqb k t); [discriminate|]. apply IH. exact H.
Qed.

Lemma shell_on_result_counter : forall st bid r st', shell_on_result st bid r = Ok st' -> s_ntrials st' = s_ntrials st.
Proof.
  intros st bid r st' H. unfold shell_on_result in H. destruct (mgr_on_result _ _ _) as [[m' tnp]|e]; [|discriminate].
  inversion H. reflexivity.
Qed.

(* what suggest does to the Tuner's counter and the pending map *)
Lemma suggest_counter : forall st b st' sg, suggest st b = Ok (st', sg) ->
  match sg with
  | SStart t => t = s_ntrials st /\ s_ntrials st' = (t + 1)%Z /\ exists j, lookup t (s_pending st') = Some j
  | SResume t => s_ntrials st' = s_ntrials st /\ exists j, lookup t (s_pending st') = Some j
  | SNone => s_ntrials st' = s_ntrials st
  end.
Proof.
  intros st b st' sg H. unfold suggest in H.
  destruct (next_job (s_mgr st)) as [[m' [bid s]]|e]; [|discriminate].
  destruct (trial_id s) as [t|].
  - destruct (lookup t (s_pending st)) eqn:L; simpl in H; [discriminate|]. inversion H; subst. cbn [s_ntrials s_pending].
    split; [reflexivity|]. eexists. apply lookup_app_new. exact L.
  - destruct b.
    + destruct (lookup (s_ntrials st) (s_pending st)) eqn:L; simpl in H; [discriminate|]. inversion H; subst.
      cbn [s_ntrials s_pending]. split; [reflexivity|]. split; [reflexivity|]. eexists. apply lookup_app_new. exact L.
    + unfold report_as_failed in H. destruct (shell_on_result _ _ _) as [st2|e] eqn:R; [|discriminate].
      inversion H; subst. apply shell_on_result_counter in R. exact R.
Qed.

Lemma step_counter : forall st o st', step st o = Ok st' -> (forall c, o <> OSuggest c) -> s_ntrials st' = s_ntrials st.
Proof.
  intros st o st' H NS. destruct o as [c|t below v|t|]; simpl in H.
  - exfalso. exact (NS c eq_refl).
  - unfold on_trial_result in H. destruct (lookup t (s_pending st)) as [[bid s]|]; [|inversion H; reflexivity].
    destruct (negb _); [discriminate|].
    destruct (Z.leb _ _).
    + destruct (negb _); [discriminate|].
      destruct (shell_on_result _ _ _) as [st2|e] eqn:R; [|discriminate]. apply shell_on_result_counter in R.
      destruct (level_to_prev_level _ _ _); [|discriminate]. inversion H; subst. exact R.
    + destruct (level_to_prev_level _ _ _); [|discriminate]. inversion H; reflexivity.
  - unfold on_trial_error, report_as_failed in H. destruct (lookup t (s_pending st)) as [[bid s]|]; [|inversion H; reflexivity].
    destruct (shell_on_result _ _ _) as [st2|e] eqn:R; [|discriminate]. apply shell_on_result_counter in R.
    inversion H; subst. exact R.
  - inversion H; reflexivity.
Qed.

Definition trial_of (sg : suggestion) : option Z :=
  match sg with SStart t => Some t | SResume t => Some t | SNone => None end.

Section ConfigProofs.
  Variable hp : Type.
  Variable has_attr : bool.

  (* exactly the trials started so far have a stored config *)
  Definition cfgs_ok (cs : cstate hp) : Prop :=
    forall t, (0 <= t < s_ntrials (fst cs))%Z -> exists c, clookup hp t (snd cs) = Some c.

  Lemma suggest_cfg_inv : forall rss md cs nc, rss_ok rss -> Inv false rss md (fst cs) -> cfgs_ok cs ->
    exists cs' out, suggest_cfg hp has_attr cs nc = Ok (cs', out) /\ Inv false rss md (fst cs') /\ cfgs_ok cs'.
  Proof.
    intros rss md [st cfgs] nc OK I CO. unfold cfgs_ok in *. cbn [fst snd] in *.
    destruct (suggest_inv false _ _ _ (is_some nc) OK I) as [st' [sg [bid [s [m' [E [I' _]]]]]]]; [reflexivity|].
    assert (Cn := suggest_counter _ _ _ _ E).
    unfold suggest_cfg. cbn [fst snd]. rewrite E. destruct sg as [t|t|].
    - destruct Cn as [Et [En [[b0 s0] L]]]. rewrite L. destruct nc as [c|].
      + eexists _, _. split; [reflexivity|]. cbn [fst snd]. split; [exact I'|].
        intros t' Ht'. cbn [fst snd] in Ht' |- *. rewrite En in Ht'. simpl. destruct (Z.eqb t t') eqn:Q; [eauto|].
        apply Z.eqb_neq in Q. apply CO. cbn [fst]. lia.
      + (* a new trial is only started when the searcher delivered a config *)
        exfalso. unfold suggest in E. simpl in E.
        destruct (next_job (s_mgr st)) as [[m1 [b1 s1]]|e]; [|discriminate].
        destruct (trial_id s1); [destruct (is_none _); discriminate|].
        destruct (report_as_failed _ _ _); discriminate.
    - destruct Cn as [En [[b0 s0] L]]. rewrite L.
      assert (Core := iv_core _ _ _ _ I'). apply lookup_In in L.
      assert (T1 := ic_klt _ _ _ _ _ _ Core _ _ L). assert (T2 := ic_kge _ _ _ _ _ _ Core _ _ L).
      destruct (CO t) as [c0 Ec]; [cbn [fst]; lia|]. rewrite Ec.
      eexists _, _. split; [reflexivity|]. cbn [fst snd]. split; [exact I'|].
      intros t' Ht'. cbn [fst snd] in Ht' |- *. rewrite En in Ht'. apply CO. exact Ht'.
    - eexists _, _. split; [reflexivity|]. cbn [fst snd]. split; [exact I'|].
      intros t' Ht'. cbn [fst snd] in Ht' |- *. rewrite Cn in Ht'. apply CO. exact Ht'.
  Qed.

  Lemma crun_inv : forall rss md ops cs, rss_ok rss -> Inv false rss md (fst cs) -> cfgs_ok cs ->
    exists cs', crun hp has_attr cs ops = Ok cs' /\ Inv false rss md (fst cs') /\ cfgs_ok cs'.
  Proof.
    intros rss md. induction ops as [|o ops IH]; intros cs OK I CO; simpl; [eauto|].
    assert (Step : exists cs1, cstep hp has_attr cs o = Ok cs1 /\ Inv false rss md (fst cs1) /\ cfgs_ok cs1).
    { destruct o as [nc|o]; simpl.
      - destruct (suggest_cfg_inv _ _ _ nc OK I CO) as [cs1 [out [E [I1 C1]]]]. rewrite E. eauto.
      - destruct o as [c|t below v|t|].
        + eauto.
        + destruct (step_inv false _ _ _ (OReport t below v) OK I) as [st1 [E I1]]; [intros X; discriminate|].
          rewrite E. eexists. split; [reflexivity|]. split; [exact I1|].
          intros t' Ht'. cbn [fst snd] in *. rewrite (step_counter _ _ _ E) in Ht' by (intros c X; discriminate). apply CO. exact Ht'.
        + destruct (step_inv false _ _ _ (OError t) OK I) as [st1 [E I1]]; [intros X; discriminate|].
          rewrite E. eexists. split; [reflexivity|]. split; [exact I1|].
          intros t' Ht'. cbn [fst snd] in *. rewrite (step_counter _ _ _ E) in Ht' by (intros c X; discriminate). apply CO. exact Ht'.
        + destruct (step_inv false _ _ _ OCollect OK I) as [st1 [E I1]]; [intros X; discriminate|].
          rewrite E. eexists. split; [reflexivity|]. split; [exact I1|].
          intros t' Ht'. cbn [fst snd] in *. rewrite (step_counter _ _ _ E) in Ht' by (intros c X; discriminate). apply CO. exact Ht'. }
    destruct Step as [cs1 [E [I1 C1]]]. rewrite E. apply IH; assumption.
  Qed.

  (* no KeyError on _trial_to_config, no other exception: every sequence of requests (with or without a
     config from the searcher), reports and failures is accepted *)
  Theorem config_no_error : forall rss md ops, check_bracket_rungs rss = true ->
    exists cs, crun_from hp has_attr rss md ops = Ok cs /\ cfgs_ok cs.
  Proof.
    intros rss md ops CK. unfold crun_from. destruct (init_inv false rss md CK) as [st0 [E I]]. rewrite E.
    assert (C0 : cfgs_ok (st0, [])).
    { intros t Ht. cbn [fst] in Ht. unfold shell_init in E. destruct (mgr_init rss md); [|discriminate].
      inversion E; subst. simpl in Ht. lia. }
    destruct (crun_inv rss md ops (st0, []) (check_bracket_rungs_ok _ CK) I C0) as [cs [Ec [_ Cc]]]. eauto.
  Qed.

  (* the config of a suggestion: a new trial is told to run to its slot's level, a resumed trial gets
     the config stored for it with max_resource_attr set to the level of the slot it is resumed for *)
  Theorem suggestion_config : forall cs nc cs' sg c,
    suggest_cfg hp has_attr cs nc = Ok (cs', Some (sg, c)) ->
    exists t bid s, lookup t (s_pending (fst cs')) = Some (bid, s) /\ trial_of sg = Some t /\
      (has_attr = true -> snd c = Some (level s)) /\
      match sg with
      | SStart _ => exists c0, nc = Some c0 /\ c = set_resource hp has_attr c0 (level s) /\ clookup hp t (snd cs') = Some c
      | SResume _ => exists c0, clookup hp t (snd cs) = Some c0 /\ c = set_resource hp has_attr c0 (level s) /\
                      fst c = fst c0 /\ snd cs' = snd cs
      | SNone => False
      end.
  Proof.
    intros [st cfgs] nc cs' sg c H. unfold suggest_cfg in H. cbn [fst snd] in H.
    destruct (suggest st (is_some nc)) as [[st' sg']|e]; [|discriminate]. destruct sg' as [t|t|]; [| |discriminate].
    - destruct (lookup t (s_pending st')) as [[bid s]|] eqn:L; [|discriminate]. destruct nc as [c0|]; [|discriminate].
      inversion H; subst. exists t, bid, s. cbn [fst snd]. split; [exact L|]. split; [reflexivity|]. split.
      + intros ->. reflexivity.
      + exists c0. split; [reflexivity|]. split; [reflexivity|]. simpl. rewrite Z.eqb_refl. reflexivity.
    - destruct (lookup t (s_pending st')) as [[bid s]|] eqn:L; [|discriminate].
      destruct (clookup hp t cfgs) as [c0|] eqn:Ec; [|discriminate].
      inversion H; subst. exists t, bid, s. cbn [fst snd]. split; [exact L|]. split; [reflexivity|]. split.
      + intros ->. reflexivity.
      + exists c0. split; [exact Ec|]. split; [reflexivity|]. split; [|reflexivity].
        unfold set_resource. destruct has_attr; reflexivity.
  Qed.
End ConfigProofs.
