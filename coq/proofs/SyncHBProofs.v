(* SyncHBProofs.v — lemmas about model/SyncHB.v (property C05). *)
From Coq Require Import ZArith List Bool Lia ZifyBool QArith Permutation Sorting.Sorted.
From Verif Require Import model.Base model.SyncHB.
Import ListNotations.

(* ======================================================================== *)
(* Part 1: get_top_list                                                      *)
(* ======================================================================== *)

Lemma tid_eqb_eq : forall a b : tid, tid_eqb a b = true <-> a = b.
Proof.
  intros [x|] [y|]; unfold tid_eqb; simpl; split; intro H; try congruence; try reflexivity.
  - apply Z.eqb_eq in H. congruence.
  - inversion H. apply Z.eqb_refl.
Qed.

Lemma mem_tid_In : forall x l, mem_tid x l = true <-> In x l.
Proof.
  induction l as [|y l IH]; simpl; [split; [discriminate|tauto]|].
  rewrite orb_true_iff, IH, tid_eqb_eq. split; intros [H|H]; auto.
Qed.

Lemma mem_tid_false : forall x l, mem_tid x l = false <-> ~ In x l.
Proof.
  intros. rewrite <- mem_tid_In. destruct (mem_tid x l); split; congruence.
Qed.

Definition strictly_better (m : mode) (a b : Q) : Prop :=
  match m with Min => a < b | Max => b < a end.

Lemma Qleb_total : forall a b, Qleb a b = false -> Qleb b a = true.
Proof.
  intros a b H. unfold Qleb in *. apply Qle_bool_iff.
  destruct (Qlt_le_dec a b) as [L|L]; [|exact L].
  apply Qlt_le_weak in L. apply Qle_bool_iff in L. congruence.
Qed.

Lemma better_eq_total : forall m a b, better_eq m a b = false -> better_eq m b a = true.
Proof. intros [] a b H; simpl in *; apply Qleb_total; exact H. Qed.

Lemma better_eq_trans : forall m a b c,
  better_eq m a b = true -> better_eq m b c = true -> better_eq m a c = true.
Proof.
  intros [] a b c H1 H2; simpl in *; unfold Qleb in *;
  apply Qle_bool_iff in H1; apply Qle_bool_iff in H2; apply Qle_bool_iff;
  eapply Qle_trans; eauto.
Qed.

Lemma better_eq_not_strict : forall m x y, better_eq m x y = true -> ~ strictly_better m y x.
Proof.
  intros [] x y H S; simpl in *; unfold Qleb in H; apply Qle_bool_iff in H;
  eapply Qlt_not_le; eauto.
Qed.

Definition key_le (m : mode) (a b : tid * Q) : Prop := better_eq m (snd a) (snd b) = true.

Lemma insert_sorted_perm : forall m x l, Permutation (insert_sorted m x l) (x :: l).
Proof.
  induction l as [|y l IH]; simpl; [reflexivity|].
  destruct (better_eq m (snd x) (snd y)); [reflexivity|].
  rewrite IH. apply perm_swap.
Qed.

Lemma sort_stable_perm : forall m l, Permutation (sort_stable m l) l.
Proof.
  induction l as [|x l IH]; simpl; [reflexivity|].
  rewrite insert_sorted_perm. constructor. exact IH.
Qed.

Lemma insert_sorted_sorted : forall m x l,
  StronglySorted (key_le m) l -> StronglySorted (key_le m) (insert_sorted m x l).
Proof.
  induction l as [|y l IH]; intro S; simpl.
  - constructor; constructor.
  - destruct (better_eq m (snd x) (snd y)) eqn:E.
    + constructor; [exact S|]. constructor; [exact E|].
      inversion S as [|? ? S' F]; subst.
      eapply Forall_impl; [|exact F]. intros z Hz. unfold key_le in *.
      eapply better_eq_trans; eauto.
    + inversion S as [|? ? S' F]; subst. constructor; [apply IH; exact S'|].
      assert (P := insert_sorted_perm m x l).
      apply Forall_forall. intros z Hz.
      eapply Permutation_in in Hz; [|exact P]. destruct Hz as [<-|Hz].
      * apply better_eq_total. exact E.
      * rewrite Forall_forall in F. apply F. exact Hz.
Qed.

Lemma sort_stable_sorted : forall m l, StronglySorted (key_le m) (sort_stable m l).
Proof.
  induction l as [|x l IH]; simpl; [constructor|]. apply insert_sorted_sorted. exact IH.
Qed.

Lemma sorted_split : forall {A} (R : A -> A -> Prop) k l,
  StronglySorted R l -> forall a b, In a (firstn k l) -> In b (skipn k l) -> R a b.
Proof.
  intros A R k. induction k as [|k IH]; intros l S a b Ha Hb; simpl in *; [contradiction|].
  destruct l as [|x l]; [contradiction|]. simpl in *.
  inversion S as [|? ? S' F]; subst. destruct Ha as [<-|Ha].
  - rewrite Forall_forall in F. apply F.
    rewrite <- (firstn_skipn k l). apply in_or_app. right. exact Hb.
  - eapply IH; eauto.
Qed.

Lemma valid_entries_In : forall rung t x, In (t, x) (valid_entries rung) <-> In (t, Val x) rung.
Proof.
  induction rung as [|[t0 [|q0]] rung IH]; intros t x; simpl.
  - tauto.
  - rewrite IH. split; [auto|]. intros [H|H]; [discriminate|exact H].
  - rewrite IH. split; intros [H|H]; auto; left; congruence.
Qed.

Lemma invalid_ids_In : forall rung t, In t (invalid_ids rung) <-> In (t, NaN) rung.
Proof.
  unfold invalid_ids. induction rung as [|[t0 [|q0]] rung IH]; intros t; simpl.
  - tauto.
  - rewrite IH. split; intros [H|H]; auto; left; congruence.
  - rewrite IH. split; [auto|]. intros [H|H]; [discriminate|exact H].
Qed.

Lemma valid_invalid_perm : forall rung,
  Permutation (map fst (valid_entries rung) ++ invalid_ids rung) (map fst rung).
Proof.
  unfold invalid_ids. induction rung as [|[t0 [|q0]] rung IH]; simpl.
  - constructor.
  - apply Permutation_sym. eapply Permutation_trans; [|apply Permutation_middle].
    constructor. apply Permutation_sym. exact IH.
  - constructor. exact IH.
Qed.

Lemma valid_invalid_length : forall rung,
  (length (valid_entries rung) + length (invalid_ids rung) = length rung)%nat.
Proof.
  intro rung. assert (P := valid_invalid_perm rung). apply Permutation_length in P.
  rewrite app_length, !map_length in P. exact P.
Qed.

Lemma nodup_keys_functional : forall {B} (l : list (tid * B)) a u v,
  NoDup (map fst l) -> In (a, u) l -> In (a, v) l -> u = v.
Proof.
  induction l as [|[k w] l IH]; intros a u v N Hu Hv; simpl in *; [contradiction|].
  inversion N as [|? ? Hn N']; subst.
  destruct Hu as [Hu|Hu], Hv as [Hv|Hv].
  - congruence.
  - inversion Hu; subst. exfalso. apply Hn. apply (in_map fst) in Hv. exact Hv.
  - inversion Hv; subst. exfalso. apply Hn. apply (in_map fst) in Hu. exact Hu.
  - eapply IH; eauto.
Qed.

Lemma nodup_app_intro : forall {A} (a b : list A),
  NoDup a -> NoDup b -> (forall x, In x a -> ~ In x b) -> NoDup (a ++ b).
Proof.
  induction a as [|x a IH]; intros b Na Nb D; simpl; [exact Nb|].
  inversion Na; subst. constructor.
  - rewrite in_app_iff. intros [H|H]; [contradiction|]. eapply D; [left; reflexivity|exact H].
  - apply IH; auto. intros y Hy. apply D. right. exact Hy.
Qed.

Lemma nodup_app_l : forall {A} (a b : list A), NoDup (a ++ b) -> NoDup a.
Proof.
  induction a as [|x a IH]; intros b N; [constructor|]. simpl in N. inversion N; subst.
  constructor; [|eapply IH; eauto]. intro H. apply H1. apply in_or_app. left. exact H.
Qed.

Lemma nodup_firstn : forall {A} k (l : list A), NoDup l -> NoDup (firstn k l).
Proof.
  intros A k l N. rewrite <- (firstn_skipn k l) in N. eapply nodup_app_l; eauto.
Qed.

Lemma nodup_app_firstn : forall {A} (a b : list A) k, NoDup (a ++ b) -> NoDup (a ++ firstn k b).
Proof.
  intros A a b k N. rewrite <- (firstn_skipn k b) in N. rewrite app_assoc in N.
  eapply nodup_app_l; eauto.
Qed.

Lemma in_firstn : forall {A} k (l : list A) x, In x (firstn k l) -> In x l.
Proof.
  intros A k l x H. rewrite <- (firstn_skipn k l). apply in_or_app. left. exact H.
Qed.

Lemma filter_map_fst : forall {B} (f : tid -> bool) (l : list (tid * B)),
  map fst (filter (fun x => f (fst x)) l) = filter f (map fst l).
Proof.
  induction l as [|[k w] l IH]; simpl; [reflexivity|].
  destruct (f k); simpl; rewrite IH; reflexivity.
Qed.

Lemma nodup_filter' : forall {A} (f : A -> bool) l, NoDup l -> NoDup (filter f l).
Proof.
  induction l as [|x l IH]; intro N; simpl; [constructor|]. inversion N; subst.
  destruct (f x); [constructor|]; auto. intro H. apply filter_In in H. tauto.
Qed.

Lemma perm_partition : forall (l t : list tid),
  NoDup l -> NoDup t -> incl t l ->
  Permutation (t ++ filter (fun i => negb (mem_tid i t)) l) l.
Proof.
  intros l t Nl Nt I. apply NoDup_Permutation.
  - apply nodup_app_intro; [exact Nt|apply nodup_filter'; exact Nl|].
    intros x Hx Hf. apply filter_In in Hf. destruct Hf as [_ Hf].
    apply negb_true_iff, mem_tid_false in Hf. contradiction.
  - exact Nl.
  - intro x. rewrite in_app_iff, filter_In. split.
    + intros [H|[H _]]; auto.
    + intro H. destruct (mem_tid x t) eqn:E.
      * left. apply mem_tid_In. exact E.
      * right. split; [exact H|]. reflexivity.
Qed.

Lemma firstn_map : forall {A B} (f : A -> B) k l, firstn k (map f l) = map f (firstn k l).
Proof.
  intros A B f. induction k as [|k IH]; intros [|x l]; simpl; try reflexivity. rewrite IH. reflexivity.
Qed.

Theorem get_top_list_spec : forall m rung new_len top rest,
  get_top_list m rung new_len = (top, rest) ->
  NoDup (map fst rung) -> (new_len <= length rung)%nat ->
  length top = new_len /\
  Permutation (top ++ rest) (map fst rung) /\
  (forall a b x y, In a top -> In b rest -> In (a, Val x) rung -> In (b, Val y) rung ->
                   ~ strictly_better m y x) /\
  (forall a, In a top -> In (a, NaN) rung -> forall b y, In b rest -> ~ In (b, Val y) rung).
Proof.
  intros m rung k top rest G N Hk. unfold get_top_list in G.
  set (rv := valid_entries rung) in *.
  assert (Pvi := valid_invalid_perm rung). fold rv in Pvi.
  assert (Lvi := valid_invalid_length rung). fold rv in Lvi.
  assert (Nvi : NoDup (map fst rv ++ invalid_ids rung)).
  { eapply Permutation_NoDup; [apply Permutation_sym; exact Pvi|exact N]. }
  assert (Nv : NoDup (map fst rv)) by (eapply nodup_app_l; eauto).
  assert (Iv : forall a, In a (map fst rv) -> In a (map fst rung)).
  { intros a Ha. eapply Permutation_in; [exact Pvi|]. apply in_or_app. left. exact Ha. }
  (* the remaining list in terms of ids *)
  assert (Rest : rest = filter (fun i => negb (mem_tid i top)) (map fst rung)).
  { inversion G. rewrite <- (filter_map_fst (fun i => negb (mem_tid i _))). reflexivity. }
  assert (RestIn : forall b, In b rest -> ~ In b top).
  { intros b Hb. rewrite Rest in Hb. apply filter_In in Hb. destruct Hb as [_ Hb].
    apply negb_true_iff, mem_tid_false in Hb. exact Hb. }
  destruct (Nat.leb k (length rv)) eqn:E.
  - (* enough valid entries *)
    apply Nat.leb_le in E.
    set (srt := sort_stable m rv) in *.
    assert (Ps : Permutation srt rv) by apply sort_stable_perm.
    assert (Ss : StronglySorted (key_le m) srt) by apply sort_stable_sorted.
    assert (Top : top = map fst (firstn k srt)) by (inversion G; reflexivity).
    assert (Ntop : NoDup top).
    { rewrite Top, <- firstn_map. apply nodup_firstn.
      eapply Permutation_NoDup; [apply Permutation_map, Permutation_sym; exact Ps|exact Nv]. }
    assert (Itop : incl top (map fst rung)).
    { intros a Ha. rewrite Top in Ha. apply in_map_iff in Ha. destruct Ha as [[a' x] [<- Ha]].
      apply in_firstn in Ha. apply Iv. apply (in_map fst).
      eapply Permutation_in; [exact Ps|exact Ha]. }
    split; [|split; [|split]].
    + rewrite Top, map_length, firstn_length.
      apply Permutation_length in Ps. lia.
    + rewrite Rest. apply perm_partition; assumption.
    + intros a b x y Ha Hb Hax Hby.
      apply valid_entries_In in Hax. apply valid_entries_In in Hby. fold rv in Hax, Hby.
      apply better_eq_not_strict.
      assert (Hb' : In (b, y) (skipn k srt)).
      { apply Permutation_sym in Ps. eapply Permutation_in in Hby; [|exact Ps].
        rewrite <- (firstn_skipn k srt) in Hby. apply in_app_or in Hby. destruct Hby as [H|H]; [|exact H].
        exfalso. apply (RestIn b Hb). rewrite Top. apply (in_map fst) in H. exact H. }
      rewrite Top in Ha. apply in_map_iff in Ha. destruct Ha as [[a' x'] [Ea Ha]]. simpl in Ea. subst a'.
      assert (x' = x).
      { apply in_firstn in Ha. eapply Permutation_in in Ha; [|exact Ps].
        eapply (nodup_keys_functional rv); eauto. }
      subst x'. exact (sorted_split (key_le m) k srt Ss _ _ Ha Hb').
    + intros a Ha Hnan. exfalso.
      rewrite Top in Ha. apply in_map_iff in Ha. destruct Ha as [[a' x'] [Ea Ha]]. simpl in Ea. subst a'.
      apply in_firstn in Ha. eapply Permutation_in in Ha; [|exact Ps].
      apply valid_entries_In in Ha.
      assert (Val x' = NaN) by (eapply (nodup_keys_functional rung); eauto). discriminate.
  - (* not enough valid entries: all valid ones and some failed ones are promoted *)
    apply Nat.leb_gt in E.
    assert (Top : top = map fst rv ++ firstn (k - length rv) (invalid_ids rung)) by (inversion G; reflexivity).
    assert (AllValidTop : forall b y, In (b, Val y) rung -> In b top).
    { intros b y H. apply valid_entries_In in H. rewrite Top. apply in_or_app. left.
      apply (in_map fst) in H. exact H. }
    split; [|split; [|split]].
    + rewrite Top, app_length, map_length, firstn_length. lia.
    + rewrite Rest. apply perm_partition; [exact N| |].
      * rewrite Top. apply nodup_app_firstn. exact Nvi.
      * intros a Ha. rewrite Top in Ha. apply in_app_or in Ha.
        eapply Permutation_in; [exact Pvi|]. apply in_or_app.
        destruct Ha as [Ha|Ha]; [left; exact Ha|right; eapply in_firstn; exact Ha].
    + intros a b x y _ Hb _ Hby. exfalso. apply (RestIn b Hb). eapply AllValidTop; eauto.
    + intros a _ _ b y Hb Hby. apply (RestIn b Hb). eapply AllValidTop; eauto.
Qed.
