(* SimHeapProofs.v — the binary heap array of model/Sim.v (functions bh_push, bh_pop, bh_heapify) versus the sorted list (C10). *)
From Verif Require Import model.Base model.Sim proofs.SimProofs.
From Coq Require Import Lqa Sorted Permutation.
Open Scope Q_scope.

(* x <= y in the (time, insertion counter) order *)
Definition key_le (x y : hentry) : Prop := ~ key_lt y x.

Lemma key_leb_le x y : key_leb x y = true <-> key_le x y.
Proof.
  unfold key_leb, key_le. rewrite negb_true_iff. split.
  - intros H Hl. apply key_ltb_lt in Hl. congruence.
  - intro H. destruct (key_ltb y x) eqn:E; [|reflexivity]. apply key_ltb_lt in E. contradiction.
Qed.

Lemma key_le_refl x : key_le x x.
Proof. apply key_lt_irrefl. Qed.

Lemma key_le_trans x y z : key_le x y -> key_le y z -> key_le x z.
Proof.
  unfold key_le, key_lt. intros Hxy Hyz Hzx.
  assert (A1 : ~ h_time y < h_time x) by tauto.
  assert (A2 : h_time y == h_time x -> ~ (h_cnt y < h_cnt x)%nat) by tauto.
  assert (B1 : ~ h_time z < h_time y) by tauto.
  assert (B2 : h_time z == h_time y -> ~ (h_cnt z < h_cnt y)%nat) by tauto.
  destruct Hzx as [H|[H1 H2]].
  - destruct (Qlt_le_dec (h_time y) (h_time x)); [contradiction|].
    destruct (Qlt_le_dec (h_time z) (h_time y)); [contradiction|]. lra.
  - destruct (Qlt_le_dec (h_time y) (h_time x)); [contradiction|].
    destruct (Qlt_le_dec (h_time z) (h_time y)); [contradiction|].
    assert (E1 : h_time y == h_time x) by lra. assert (E2 : h_time z == h_time y) by lra.
    specialize (A2 E1). specialize (B2 E2). lia.
Qed.

(* the heap condition of heapq: every entry is >= its parent *)
Definition IsHeap (a : list hentry) : Prop :=
  forall i, (0 < i < length a)%nat -> key_le (nth (Nat.div2 (i - 1)) a hdummy) (nth i a hdummy).

Lemma is_heap_b_spec a : is_heap_b a = true <-> IsHeap a.
Proof.
  unfold is_heap_b, IsHeap. rewrite forallb_forall. split.
  - intros H i Hi. apply key_leb_le. apply H. apply in_seq. lia.
  - intros H i Hi. apply in_seq in Hi. apply key_leb_le. apply H. lia.
Qed.

Lemma div2_pred_lt i : (0 < i)%nat -> (Nat.div2 (i - 1) < i)%nat.
Proof. intro H. pose proof (Nat.div2_decr (i - 1) (i - 1)). lia. Qed.

(* the first entry of a heap is a minimum *)
Lemma heap_root_min a : IsHeap a -> forall i, (i < length a)%nat -> key_le (nth 0 a hdummy) (nth i a hdummy).
Proof.
  intros H i. induction i as [i IH] using lt_wf_ind. intro Hi.
  destruct i as [|i]; [apply key_le_refl|].
  pose proof (div2_pred_lt (S i) ltac:(lia)) as Hp.
  eapply key_le_trans; [apply IH; [exact Hp|lia]|]. apply H. lia.
Qed.

(* ... hence a heap and the sorted list of the same events show the same event first: next_until
   looks at the same entry in both representations *)
Lemma heap_top_is_sorted_head a l : IsHeap a -> Permutation a l -> StronglySorted key_lt l ->
  nth 0 a hdummy = hd hdummy l /\ (a = [] <-> l = []).
Proof.
  intros HH HP HS. split.
  - destruct l as [|y l'].
    + apply Permutation_sym, Permutation_nil in HP. subst. reflexivity.
    + simpl. destruct a as [|a0 a']; [apply Permutation_nil in HP; discriminate|]. simpl.
      assert (Ha0 : In a0 (y :: l')) by (eapply Permutation_in; [exact HP|left; reflexivity]).
      destruct Ha0 as [->|Hin]; [reflexivity|]. exfalso.
      inversion HS as [|y' l'' _ Hall]; subst. rewrite Forall_forall in Hall. pose proof (Hall a0 Hin) as Hlt.
      assert (Hy : In y (a0 :: a')) by (eapply Permutation_in; [apply Permutation_sym; exact HP|left; reflexivity]).
      apply (In_nth _ _ hdummy) in Hy as (i & Hi & Hnth).
      pose proof (heap_root_min (a0 :: a') HH i Hi) as Hle. rewrite Hnth in Hle. simpl in Hle. exact (Hle Hlt).
  - split; intros ->; [apply Permutation_nil in HP; exact HP | apply Permutation_sym, Permutation_nil in HP; exact HP].
Qed.
