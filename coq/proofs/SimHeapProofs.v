(* SimHeapProofs.v — the binary heap array of model/Sim.v (functions bh_push, bh_pop, bh_heapify) versus the sorted list (C10). *)
From Verif Require Import model.Base model.Sim proofs.SimProofs.
From Coq Require Import Lqa Sorted Permutation.
Open Scope Q_scope.

(* x <= y in the (time, insertion counter) order *)
Definition key_le (x y : hentry) : Prop := ~ key_lt y x.

Lemma key_leb_le x y : key_leb x y = true <-> key_le x y.
Proof.
  unfold key_leb, key_le. rewrite negb_true_iff. split.
  - intros H Hl. apply key_ltb_lt in Hl. congruence.
  - intro H. destruct (key_ltb y x) eqn:E; [|reflexivity]. apply key_ltb_lt in E. contradiction.
Qed.

Lemma key_le_refl x : key_le x x.
Proof. apply key_lt_irrefl. Qed.

Lemma key_le_trans x y z : key_le x y -> key_le y z -> key_le x z.
Proof.
  unfold key_le, key_lt. intros Hxy Hyz Hzx.
  assert (A1 : ~ h_time y < h_time x) by tauto.
  assert (A2 : h_time y == h_time x -> ~ (h_cnt y < h_cnt x)%nat) by tauto.
  assert (B1 : ~ h_time z < h_time y) by tauto.
  assert (B2 : h_time z == h_time y -> ~ (h_cnt z < h_cnt y)%nat) by tauto.
  destruct Hzx as [H|[H1 H2]].
  - destruct (Qlt_le_dec (h_time y) (h_time x)); [contradiction|].
    destruct (Qlt_le_dec (h_time z) (h_time y)); [contradiction|]. lra.
  - destruct (Qlt_le_dec (h_time y) (h_time x)); [contradiction|].
    destruct (Qlt_le_dec (h_time z) (h_time y)); [contradiction|].
    assert (E1 : h_time y == h_time x) by lra. assert (E2 : h_time z == h_time y) by lra.
    specialize (A2 E1). specialize (B2 E2). lia.
Qed.

(* the heap condition of heapq: every entry is >= its parent *)
Definition IsHeap (a : list hentry) : Prop :=
  forall i, (0 < i < length a)%nat -> key_le (nth (Nat.div2 (i - 1)) a hdummy) (nth i a hdummy).

Lemma is_heap_b_spec a : is_heap_b a = true <-> IsHeap a.
Proof.
  unfold is_heap_b, IsHeap. rewrite forallb_forall. split.
  - intros H i Hi. apply key_leb_le. apply H. apply in_seq. lia.
  - intros H i Hi. apply in_seq in Hi. apply key_leb_le. apply H. lia.
Qed.

Lemma div2_pred_lt i : (0 < i)%nat -> (Nat.div2 (i - 1) < i)%nat.
Proof. intro H. pose proof (Nat.div2_decr (i - 1) (i - 1)). lia. Qed.

(* the first entry of a heap is a minimum *)
Lemma heap_root_min a : IsHeap a -> forall i, (i < length a)%nat -> key_le (nth 0 a hdummy) (nth i a hdummy).
Proof.
  intros H i. induction i as [i IH] using lt_wf_ind. intro Hi.
  destruct i as [|i]; [apply key_le_refl|].
  pose proof (div2_pred_lt (S i) ltac:(lia)) as Hp.
  eapply key_le_trans; [apply IH; [exact Hp|lia]|]. apply H. lia.
Qed.

(* ... hence a heap and the sorted list of the same events show the same event first: next_until
   looks at the same entry in both representations *)
Lemma heap_top_is_sorted_head a l : IsHeap a -> Permutation a l -> StronglySorted key_lt l ->
  nth 0 a hdummy = hd hdummy l /\ (a = [] <-> l = []).
Proof.
  intros HH HP HS. split.
  - destruct l as [|y l'].
    + apply Permutation_sym, Permutation_nil in HP. subst. reflexivity.
    + simpl. destruct a as [|a0 a']; [apply Permutation_nil in HP; discriminate|]. simpl.
      assert (Ha0 : In a0 (y :: l')) by (eapply Permutation_in; [exact HP|left; reflexivity]).
      destruct Ha0 as [->|Hin]; [reflexivity|]. exfalso.
      inversion HS as [|y' l'' _ Hall]; subst. rewrite Forall_forall in Hall. pose proof (Hall a0 Hin) as Hlt.
      assert (Hy : In y (a0 :: a')) by (eapply Permutation_in; [apply Permutation_sym; exact HP|left; reflexivity]).
      apply (In_nth _ _ hdummy) in Hy as (i & Hi & Hnth).
      pose proof (heap_root_min (a0 :: a') HH i Hi) as Hle. rewrite Hnth in Hle. simpl in Hle. exact (Hle Hlt).
  - split; intros ->; [apply Permutation_nil in HP; exact HP | apply Permutation_sym, Permutation_nil in HP; exact HP].
Qed.

(* ======================================================================== *)
(*  heappush and heappop preserve the heap condition                         *)
(* ======================================================================== *)
Notation par i := (Nat.div2 (i - 1)).

Lemma length_set_nth {A} (l : list A) : forall i x, length (set_nth i x l) = length l.
Proof. induction l as [|y l IH]; intros [|i] x; simpl; auto. Qed.

Lemma nth_set_nth {A} (l : list A) d : forall i x j, (i < length l)%nat ->
  nth j (set_nth i x l) d = if Nat.eqb j i then x else nth j l d.
Proof.
  induction l as [|y l IH]; intros i x j Hi; simpl in Hi; [lia|].
  destruct i as [|i]; destruct j as [|j]; simpl; try reflexivity. apply IH. lia.
Qed.

Lemma par_child i p : (0 < i)%nat -> par i = p -> i = (2 * p + 1)%nat \/ i = (2 * p + 2)%nat.
Proof.
  intros Hi <-. pose proof (Nat.div2_odd (i - 1)) as H. destruct (Nat.odd (i - 1)); simpl in H; lia.
Qed.
Lemma par_left p : par (2 * p + 1) = p.
Proof. replace (2 * p + 1 - 1)%nat with (2 * p)%nat by lia. apply Nat.div2_double. Qed.
Lemma par_right p : par (2 * p + 2) = p.
Proof. replace (2 * p + 2 - 1)%nat with (S (2 * p)) by lia. apply Nat.div2_succ_double. Qed.

Lemma key_lt_le x y : key_lt x y -> key_le x y.
Proof. intros H H'. apply (key_lt_irrefl x). eapply key_lt_trans; eauto. Qed.
Lemma key_ltb_false_le x y : key_ltb x y = false -> key_le y x.
Proof. intros H Hl. apply key_ltb_lt in Hl. congruence. Qed.

Notation "a .[ i ]" := (nth i a hdummy) (at level 2, format "a .[ i ]").

(* a heap with a hole at [pos] into which [x] is to be placed (loop invariant of _siftdown(heap, 0, pos)):
   all parent/child pairs are ordered except the pair whose child is the hole; x is <= the children of
   the hole; the parent of the hole is <= the children of the hole *)
Definition Hole (b : list hentry) (pos : nat) (x : hentry) : Prop :=
  (pos < length b)%nat /\
  (forall i, (0 < i < length b)%nat -> i <> pos -> key_le b.[par i] b.[i]) /\
  (forall i, (0 < i < length b)%nat -> par i = pos -> key_le x b.[i]) /\
  (forall i, (0 < i < length b)%nat -> par i = pos -> (0 < pos)%nat -> key_le b.[par pos] b.[i]).

Lemma Hole_done b pos x : Hole b pos x -> (pos = 0%nat \/ key_le b.[par pos] x) -> IsHeap (set_nth pos x b).
Proof.
  intros (Hp & J1 & J2 & _) Hend i Hi. rewrite length_set_nth in Hi.
  rewrite !nth_set_nth by exact Hp.
  destruct (Nat.eqb i pos) eqn:E1.
  - apply Nat.eqb_eq in E1. subst i. pose proof (div2_pred_lt pos ltac:(lia)).
    replace (Nat.eqb (par pos) pos) with false by (symmetry; apply Nat.eqb_neq; lia).
    destruct Hend as [->|H']; [lia|exact H'].
  - apply Nat.eqb_neq in E1. destruct (Nat.eqb (par i) pos) eqn:E2.
    + apply Nat.eqb_eq in E2. apply J2; assumption.
    + apply J1; assumption.
Qed.

Lemma Hole_step b pos x : Hole b pos x -> (0 < pos)%nat -> key_lt x b.[par pos] ->
  Hole (set_nth pos b.[par pos] b) (par pos) x.
Proof.
  intros (Hp & J1 & J2 & J3) Hpos Hlt.
  pose proof (div2_pred_lt pos Hpos) as Hpp.
  assert (Hne : forall j, Nat.eqb j pos = false -> (set_nth pos b.[par pos] b).[j] = b.[j]).
  { intros j Hj. rewrite nth_set_nth by exact Hp. rewrite Hj. reflexivity. }
  assert (Heq : (set_nth pos b.[par pos] b).[pos] = b.[par pos]).
  { rewrite nth_set_nth by exact Hp. rewrite Nat.eqb_refl. reflexivity. }
  unfold Hole. rewrite length_set_nth. split; [lia|]. split; [|split].
  - intros i Hi Hne'. destruct (Nat.eq_dec i pos) as [->|Hip].
    + rewrite Heq. rewrite Hne by (apply Nat.eqb_neq; lia). apply key_le_refl.
    + rewrite (Hne i) by (apply Nat.eqb_neq; exact Hip).
      destruct (Nat.eq_dec (par i) pos) as [Epi|Epi].
      * rewrite Epi, Heq. apply J3; assumption.
      * rewrite Hne by (apply Nat.eqb_neq; exact Epi). apply J1; assumption.
  - intros i Hi Epi. destruct (Nat.eq_dec i pos) as [->|Hip].
    + rewrite Heq. apply key_lt_le. exact Hlt.
    + rewrite (Hne i) by (apply Nat.eqb_neq; exact Hip).
      eapply key_le_trans; [apply key_lt_le; exact Hlt|]. rewrite <- Epi. apply J1; assumption.
  - intros i Hi Epi Hpp0. pose proof (div2_pred_lt (par pos) Hpp0) as Hppp.
    rewrite (Hne (par (par pos))) by (apply Nat.eqb_neq; lia).
    assert (Hgp : key_le b.[par (par pos)] b.[par pos]) by (apply J1; lia).
    destruct (Nat.eq_dec i pos) as [->|Hip].
    + rewrite Heq. exact Hgp.
    + rewrite (Hne i) by (apply Nat.eqb_neq; exact Hip).
      eapply key_le_trans; [exact Hgp|]. rewrite <- Epi. apply J1; assumption.
Qed.

Lemma siftdown_heap fuel : forall b pos x, (pos <= fuel)%nat -> Hole b pos x ->
  IsHeap (bh_siftdown fuel b 0 pos x).
Proof.
  induction fuel as [|f IH]; intros b pos x Hf HH; simpl.
  - apply Hole_done; [exact HH|left; lia].
  - destruct (Nat.ltb 0 pos) eqn:E0.
    + apply Nat.ltb_lt in E0. destruct (key_ltb x b.[par pos]) eqn:E1.
      * apply IH; [pose proof (div2_pred_lt pos E0); lia|]. apply Hole_step; [exact HH|exact E0|apply key_ltb_lt; exact E1].
      * apply Hole_done; [exact HH|right; apply key_ltb_false_le; exact E1].
    + apply Nat.ltb_ge in E0. apply Hole_done; [exact HH|left; lia].
Qed.

(* heapq.heappush keeps the heap condition *)
Lemma push_heap a x : IsHeap a -> IsHeap (bh_push a x).
Proof.
  intro H. unfold bh_push. apply siftdown_heap; [rewrite app_length; simpl; lia|].
  unfold Hole. rewrite app_length. simpl. split; [lia|]. split; [|split].
  - intros i Hi Hne. assert (Hil : (i < length a)%nat) by lia.
    pose proof (div2_pred_lt i ltac:(lia)).
    rewrite !app_nth1 by lia. apply H. lia.
  - intros i Hi Epi. exfalso. destruct (par_child i (length a) ltac:(lia) Epi); lia.
  - intros i Hi Epi. exfalso. destruct (par_child i (length a) ltac:(lia) Epi); lia.
Qed.

(* first loop of _siftup(heap, 0): the hole travels from the root to a leaf, the smaller child moving up.
   Invariant: all parent/child pairs are ordered except those with the hole as parent or as child, and
   the parent of the hole is <= the children of the hole *)
Definition Leafward (b : list hentry) (pos : nat) : Prop :=
  (pos < length b)%nat /\
  (forall i, (0 < i < length b)%nat -> i <> pos -> par i <> pos -> key_le b.[par i] b.[i]) /\
  (forall i, (0 < i < length b)%nat -> par i = pos -> (0 < pos)%nat -> key_le b.[par pos] b.[i]).

Lemma leafward_inv fuel : forall b pos, Leafward b pos -> (length b - pos <= fuel)%nat ->
  let '(b1, p) := bh_leafward fuel b (length b) pos in
  Leafward b1 p /\ length b1 = length b /\ (length b <= 2 * p + 1)%nat.
Proof.
  induction fuel as [|f IH]; intros b pos HL Hf; cbn [bh_leafward].
  - pose proof (proj1 HL). lia.
  - destruct (Nat.ltb (2 * pos + 1) (length b)) eqn:Ec.
    2:{ apply Nat.ltb_ge in Ec. cbv beta iota. split; [exact HL|]. split; [reflexivity|lia]. }
    apply Nat.ltb_lt in Ec.
    set (c := (2 * pos + 1)%nat) in *. set (r := (c + 1)%nat).
    set (c' := if Nat.ltb r (length b) && negb (key_ltb b.[c] b.[r]) then r else c).
    destruct HL as (Hp & L1 & L2).
    assert (Hc' : (c' = c \/ c' = r) /\ (c' < length b)%nat /\ par c' = pos /\
                  (forall i, (0 < i < length b)%nat -> par i = pos -> key_le b.[c'] b.[i])).
    { unfold c'. destruct (Nat.ltb r (length b)) eqn:Er; simpl.
      - apply Nat.ltb_lt in Er. destruct (key_ltb b.[c] b.[r]) eqn:Ek; simpl.
        + split; [left; reflexivity|]. split; [exact Ec|]. split; [apply par_left|].
          intros i Hi Epi. destruct (par_child i pos ltac:(lia) Epi) as [-> | ->]; [apply key_le_refl|].
          replace (2 * pos + 2)%nat with r by (unfold r, c; lia). apply key_lt_le. apply key_ltb_lt. exact Ek.
        + split; [right; reflexivity|]. split; [exact Er|]. split; [unfold r, c; replace (2 * pos + 1 + 1)%nat with (2 * pos + 2)%nat by lia; apply par_right|].
          intros i Hi Epi. destruct (par_child i pos ltac:(lia) Epi) as [-> | ->].
          * apply key_ltb_false_le. exact Ek.
          * unfold r, c. replace (2 * pos + 1 + 1)%nat with (2 * pos + 2)%nat by lia. apply key_le_refl.
      - apply Nat.ltb_ge in Er. split; [left; reflexivity|]. split; [exact Ec|]. split; [apply par_left|].
        intros i Hi Epi. destruct (par_child i pos ltac:(lia) Epi) as [-> | ->]; [apply key_le_refl|]. unfold r, c in Er. lia. }
    destruct Hc' as (Hcr & Hclt & Hpar & Hmin).
    assert (Hgt : (pos < c')%nat) by (destruct Hcr as [-> | ->]; unfold r, c; lia).
    assert (Hne : forall j, j <> pos -> (set_nth pos b.[c'] b).[j] = b.[j]).
    { intros j Hj. rewrite nth_set_nth by exact Hp. apply Nat.eqb_neq in Hj. rewrite Hj. reflexivity. }
    assert (Heq : (set_nth pos b.[c'] b).[pos] = b.[c']).
    { rewrite nth_set_nth by exact Hp. rewrite Nat.eqb_refl. reflexivity. }
    specialize (IH (set_nth pos b.[c'] b) c'). rewrite length_set_nth in IH.
    assert (HL' : Leafward (set_nth pos b.[c'] b) c').
    { unfold Leafward. rewrite length_set_nth. split; [exact Hclt|]. split.
      - intros i Hi Hic Hpic. destruct (Nat.eq_dec i pos) as [->|Hip].
        + rewrite Heq. pose proof (div2_pred_lt pos ltac:(lia)). rewrite Hne by lia.
          apply L2; [lia|exact Hpar|lia].
        + rewrite (Hne i) by exact Hip. destruct (Nat.eq_dec (par i) pos) as [Epi|Epi].
          * rewrite Epi, Heq. apply Hmin; assumption.
          * rewrite Hne by exact Epi. apply L1; assumption.
      - intros i Hi Epi _. rewrite Hpar, Heq.
        assert (i <> pos) by (pose proof (div2_pred_lt i ltac:(lia)); lia).
        rewrite (Hne i) by assumption. rewrite <- Epi. apply L1; [exact Hi|assumption|lia]. }
    specialize (IH HL' ltac:(lia)).
    destruct (bh_leafward f (set_nth pos b.[c'] b) (length b) c') as [b1 p]. exact IH.
Qed.

Lemma siftup0_heap a0 : a0 <> [] ->
  (forall i, (0 < i < length a0)%nat -> par i <> 0%nat -> key_le a0.[par i] a0.[i]) ->
  IsHeap (bh_siftup a0 0).
Proof.
  intros Hne Hrel. unfold bh_siftup.
  assert (HL : Leafward a0 0).
  { split; [destruct a0; [contradiction|simpl; lia]|]. split; [intros i Hi _ Hp; apply Hrel; assumption|intros; lia]. }
  pose proof (leafward_inv (length a0) a0 0 HL ltac:(lia)) as H.
  destruct (bh_leafward (length a0) a0 (length a0) 0) as [b1 p].
  destruct H as ((Hp & L1 & L2) & Hlen & Hleaf).
  apply siftdown_heap; [lia|].
  assert (Hnochild : forall i, (0 < i < length b1)%nat -> par i <> p).
  { intros i Hi Epi. destruct (par_child i p ltac:(lia) Epi); lia. }
  unfold Hole. rewrite length_set_nth. split; [exact Hp|]. split; [|split].
  - intros i Hi Hip. rewrite !nth_set_nth by exact Hp.
    replace (Nat.eqb i p) with false by (symmetry; apply Nat.eqb_neq; exact Hip).
    replace (Nat.eqb (par i) p) with false by (symmetry; apply Nat.eqb_neq; apply Hnochild; exact Hi).
    apply L1; [exact Hi|exact Hip|apply Hnochild; exact Hi].
  - intros i Hi Epi. exfalso. exact (Hnochild i Hi Epi).
  - intros i Hi Epi. exfalso. exact (Hnochild i Hi Epi).
Qed.

(* heapq.heappop keeps the heap condition *)
Lemma pop_heap a x a' : IsHeap a -> bh_pop a = Some (x, a') -> IsHeap a'.
Proof.
  intros H. unfold bh_pop. destruct (rev a) as [|lastelt rinit] eqn:Er; [discriminate|].
  destruct (rev rinit) as [|top rest] eqn:Er2.
  - intro E. injection E as _ <-. intros i Hi. simpl in Hi. lia.
  - intro E. injection E as _ <-.
    assert (Ha : a = (top :: rest) ++ [lastelt]).
    { rewrite <- (rev_involutive a), Er. simpl. rewrite Er2. reflexivity. }
    apply siftup0_heap; [discriminate|].
    intros i Hi Hp. simpl length in Hi.
    assert (Hi0 : (0 < par i)%nat) by lia. pose proof (div2_pred_lt i ltac:(lia)) as Hlt.
    assert (E1 : (lastelt :: rest).[i] = a.[i]).
    { rewrite Ha, app_nth1 by (simpl; lia). destruct i; [lia|reflexivity]. }
    assert (E2 : (lastelt :: rest).[par i] = a.[par i]).
    { rewrite Ha, app_nth1 by (simpl; lia). destruct (par i); [lia|reflexivity]. }
    rewrite E1, E2. apply H. rewrite Ha, app_length. simpl. lia.
Qed.

Lemma pop_top a x a' : bh_pop a = Some (x, a') -> x = a.[0].
Proof.
  unfold bh_pop. destruct (rev a) as [|lastelt rinit] eqn:Er; [discriminate|].
  assert (Ha : a = rev rinit ++ [lastelt]) by (rewrite <- (rev_involutive a), Er; reflexivity).
  destruct (rev rinit) as [|top rest]; intro E; injection E as <- _; rewrite Ha; reflexivity.
Qed.

(* ======================================================================== *)
(*  heappush and heappop keep the events (as a multiset)                     *)
(* ======================================================================== *)
Lemma set_nth_overwrite {A} (l : list A) : forall i x y, set_nth i y (set_nth i x l) = set_nth i y l.
Proof. induction l as [|z l IH]; intros [|i] x y; simpl; try reflexivity. rewrite IH. reflexivity. Qed.

Lemma set_nth_comm {A} (l : list A) : forall i j x y, i <> j ->
  set_nth i x (set_nth j y l) = set_nth j y (set_nth i x l).
Proof.
  induction l as [|z l IH]; intros [|i] [|j] x y Hne; simpl; try reflexivity; try lia.
  rewrite IH by lia. reflexivity.
Qed.

Lemma set_nth_app_r {A} (l1 l : list A) k x : set_nth (length l1 + k) x (l1 ++ l) = l1 ++ set_nth k x l.
Proof. induction l1 as [|y l1 IH]; simpl; [reflexivity|]. rewrite IH. reflexivity. Qed.

Lemma split_at {A} (l : list A) d : forall i, (i < length l)%nat ->
  exists l1 l2, l = l1 ++ nth i l d :: l2 /\ length l1 = i.
Proof.
  induction l as [|y l IH]; intros i Hi; simpl in Hi; [lia|]. destruct i as [|i].
  - exists [], l. split; reflexivity.
  - destruct (IH i ltac:(lia)) as (l1 & l2 & E & Hl). exists (y :: l1), l2. simpl. rewrite <- E. split; [reflexivity|lia].
Qed.

Lemma swap_perm_lt (l : list hentry) i j : (i < j < length l)%nat ->
  Permutation (set_nth i l.[j] (set_nth j l.[i] l)) l.
Proof.
  intros Hij. destruct (split_at l hdummy i ltac:(lia)) as (l1 & r1 & E1 & Hl1).
  set (u := l.[i]) in *. set (v := l.[j]) in *.
  assert (Hj' : (j - S i < length r1)%nat).
  { rewrite E1, app_length in Hij. simpl in Hij. lia. }
  destruct (split_at r1 hdummy (j - S i) Hj') as (l2 & l3 & E2 & Hl2).
  assert (Ev : r1.[j - S i] = v).
  { unfold v. rewrite E1. rewrite app_nth2 by lia. rewrite Hl1.
    replace (j - i)%nat with (S (j - S i)) by lia. reflexivity. }
  rewrite Ev in E2.
  assert (El : l = l1 ++ u :: l2 ++ v :: l3) by (rewrite E1 at 1; rewrite E2 at 1; reflexivity).
  assert (S1 : set_nth j u l = l1 ++ u :: l2 ++ u :: l3).
  { rewrite El at 1. replace j with (length l1 + S (length l2))%nat by lia.
    rewrite set_nth_app_r. simpl. f_equal. f_equal.
    replace (length l2) with (length l2 + 0)%nat by lia. rewrite set_nth_app_r. reflexivity. }
  rewrite S1. replace i with (length l1 + 0)%nat by lia. rewrite set_nth_app_r. simpl.
  rewrite El. apply Permutation_app_head.
  eapply perm_trans; [apply perm_skip; apply Permutation_sym; apply Permutation_middle|].
  eapply perm_trans; [apply perm_swap|]. apply perm_skip. apply Permutation_middle.
Qed.

Lemma swap_perm (l : list hentry) i j : (i < length l)%nat -> (j < length l)%nat -> i <> j ->
  Permutation (set_nth i l.[j] (set_nth j l.[i] l)) l.
Proof.
  intros Hi Hj Hne. destruct (Nat.lt_ge_cases i j) as [H|H].
  - apply swap_perm_lt. lia.
  - rewrite set_nth_comm by exact Hne. apply swap_perm_lt. lia.
Qed.

(* moving the hole from pos to q (the entry of q goes to pos) is a transposition of the array with x in the hole *)
Lemma hole_move_perm b pos q x : (pos < length b)%nat -> (q < length b)%nat -> pos <> q ->
  Permutation (set_nth q x (set_nth pos b.[q] b)) (set_nth pos x b).
Proof.
  intros Hp Hq Hne. set (c := set_nth pos x b).
  assert (Hc : length c = length b) by apply length_set_nth.
  assert (E : set_nth q x (set_nth pos b.[q] b) = set_nth q c.[pos] (set_nth pos c.[q] c)).
  { unfold c. rewrite !nth_set_nth by exact Hp. rewrite Nat.eqb_refl.
    replace (Nat.eqb q pos) with false by (symmetry; apply Nat.eqb_neq; lia).
    rewrite set_nth_overwrite. reflexivity. }
  rewrite E. apply swap_perm; lia.
Qed.

Lemma siftdown_perm k fuel : forall b pos x, (pos < length b)%nat ->
  Permutation (bh_siftdown fuel b k pos x) (set_nth pos x b).
Proof.
  induction fuel as [|f IH]; intros b pos x Hp; simpl; [reflexivity|].
  destruct (Nat.ltb k pos) eqn:E0; [|reflexivity].
  apply Nat.ltb_lt in E0. destruct (key_ltb x b.[par pos]); [|reflexivity].
  pose proof (div2_pred_lt pos ltac:(lia)) as Hpp.
  eapply perm_trans; [apply IH; rewrite length_set_nth; lia|].
  apply hole_move_perm; lia.
Qed.

Lemma push_perm a x : Permutation (bh_push a x) (x :: a).
Proof.
  unfold bh_push. eapply perm_trans; [apply siftdown_perm; rewrite app_length; simpl; lia|].
  replace (length a) with (length a + 0)%nat at 1 by lia. rewrite set_nth_app_r. simpl.
  apply Permutation_sym. apply Permutation_cons_append.
Qed.

Lemma leafward_perm fuel : forall b pos x, (pos < length b)%nat ->
  let '(b1, p) := bh_leafward fuel b (length b) pos in
  Permutation (set_nth p x b1) (set_nth pos x b) /\ length b1 = length b /\ (p < length b)%nat.
Proof.
  induction fuel as [|f IH]; intros b pos x Hp; cbn [bh_leafward]; [cbv beta iota; auto|].
  destruct (Nat.ltb (2 * pos + 1) (length b)) eqn:Ec; [|cbv beta iota; auto].
  apply Nat.ltb_lt in Ec.
  set (c' := if Nat.ltb (2 * pos + 1 + 1) (length b) && negb (key_ltb b.[2 * pos + 1] b.[2 * pos + 1 + 1])
             then (2 * pos + 1 + 1)%nat else (2 * pos + 1)%nat).
  assert (Hc : (pos < c' < length b)%nat).
  { unfold c'. destruct (Nat.ltb (2 * pos + 1 + 1) (length b)) eqn:Er; simpl.
    - apply Nat.ltb_lt in Er. destruct (negb _); lia.
    - lia. }
  specialize (IH (set_nth pos b.[c'] b) c' x). rewrite length_set_nth in IH. specialize (IH ltac:(lia)).
  destruct (bh_leafward f (set_nth pos b.[c'] b) (length b) c') as [b1 p].
  destruct IH as (P & L & Hlt). split; [|split; assumption].
  eapply perm_trans; [exact P|]. apply hole_move_perm; lia.
Qed.

Lemma pop_perm a x a' : bh_pop a = Some (x, a') -> Permutation a (x :: a').
Proof.
  unfold bh_pop. destruct (rev a) as [|lastelt rinit] eqn:Er; [discriminate|].
  assert (Ha : a = rev rinit ++ [lastelt]) by (rewrite <- (rev_involutive a), Er; reflexivity).
  destruct (rev rinit) as [|top rest].
  - intro E. injection E as <- <-. rewrite Ha. reflexivity.
  - intro E. injection E as <- <-. rewrite Ha. simpl.
    apply perm_skip. unfold bh_siftup.
    pose proof (leafward_perm (length (lastelt :: rest)) (lastelt :: rest) 0 lastelt ltac:(simpl; lia)) as H.
    change ((lastelt :: rest).[0]) with lastelt.
    destruct (bh_leafward (length (lastelt :: rest)) (lastelt :: rest) (length (lastelt :: rest)) 0) as [b1 p].
    destruct H as (P & L & Hlt).
    eapply perm_trans; [apply Permutation_sym; apply Permutation_cons_append|].
    apply Permutation_sym. eapply perm_trans; [apply siftdown_perm; rewrite length_set_nth, L; exact Hlt|].
    rewrite set_nth_overwrite. exact P.
Qed.

(* _siftup at any position and heapify keep the events; so does remove_events up to the filter *)
Lemma siftup_perm a pos : (pos < length a)%nat -> Permutation (bh_siftup a pos) a.
Proof.
  intro Hp. unfold bh_siftup.
  pose proof (leafward_perm (length a) a pos a.[pos] Hp) as H.
  destruct (bh_leafward (length a) a (length a) pos) as [b1 p]. destruct H as (P & L & Hlt).
  eapply perm_trans; [apply siftdown_perm; rewrite length_set_nth, L; exact Hlt|].
  rewrite set_nth_overwrite. eapply perm_trans; [exact P|].
  assert (E : set_nth pos a.[pos] a = a).
  { clear. revert pos. induction a as [|y a IH]; intros [|pos]; simpl; try reflexivity. rewrite IH. reflexivity. }
  rewrite E. reflexivity.
Qed.

Lemma heapify_perm a : Permutation (bh_heapify a) a.
Proof.
  unfold bh_heapify.
  assert (H : forall idx acc, Permutation acc a -> (forall i, In i idx -> (i < length a)%nat) ->
              Permutation (fold_left (fun acc i => bh_siftup acc i) idx acc) a).
  { induction idx as [|i idx IH]; intros acc HP Hidx; simpl; [exact HP|].
    apply IH; [|intros j Hj; apply Hidx; right; exact Hj].
    eapply perm_trans; [apply siftup_perm|exact HP].
    rewrite (Permutation_length HP). apply Hidx. left. reflexivity. }
  apply H; [reflexivity|]. intros i Hi. apply in_rev, in_seq in Hi.
  pose proof (Nat.div2_decr (length a) (length a)). destruct (length a); simpl in *; lia.
Qed.

(* the three SimulatorState operations on the array *)
Lemma bhs_push_ok s t ev time : IsHeap (fst s) ->
  IsHeap (fst (bhs_push s t ev time)) /\ Permutation (fst (bhs_push s t ev time)) (mkH time (snd s) t ev :: fst s).
Proof. intro H. split; [apply push_heap; exact H|apply push_perm]. Qed.

Lemma bhs_next_ok s until : IsHeap (fst s) ->
  match bhs_next_until s until with
  | (Some x, s') => In x (fst s) /\ (forall y, In y (fst s) -> key_le x y) /\ h_time x <= until /\
                    Permutation (fst s) (x :: fst s') /\ IsHeap (fst s') /\ snd s' = snd s
  | (None, s') => s' = s /\ (forall y, In y (fst s) -> until < h_time y)
  end.
Proof.
  intro H. unfold bhs_next_until. destruct (fst s) as [|top rest] eqn:Ea.
  - split; [reflexivity|intros y []].
  - destruct (Qleb (h_time top) until) eqn:Eq.
    + destruct (bh_pop (top :: rest)) as [[x a']|] eqn:Ep.
      * pose proof (pop_top _ _ _ Ep) as Ex. simpl in Ex. subst x.
        pose proof (pop_perm _ _ _ Ep) as HP. pose proof (pop_heap _ _ _ H Ep) as HH.
        simpl. split; [left; reflexivity|]. split.
        -- intros y Hy. change (In y (top :: rest)) in Hy. apply (In_nth _ _ hdummy) in Hy as (i & Hi & <-).
           exact (heap_root_min (top :: rest) H i Hi).
        -- split; [apply Qleb_le; exact Eq|]. split; [exact HP|]. split; [exact HH|reflexivity].
      * exfalso. unfold bh_pop in Ep. destruct (rev (top :: rest)) as [|l r] eqn:Er.
        -- apply (f_equal (@length hentry)) in Er. rewrite rev_length in Er. discriminate.
        -- destruct (rev r); discriminate.
    + split; [reflexivity|]. intros y Hy.
      assert (Hlt : until < h_time top).
      { apply Qnot_le_lt. intro Hle. apply Qleb_le in Hle. congruence. }
      change (In y (top :: rest)) in Hy. apply (In_nth _ _ hdummy) in Hy as (i & Hi & <-).
      pose proof (heap_root_min (top :: rest) H i Hi) as Hle. simpl in Hle.
      unfold key_le, key_lt in Hle.
      destruct (Qlt_le_dec (h_time (nth i (top :: rest) hdummy)) (h_time top)) as [Hl|Hl]; [exfalso; apply Hle; left; exact Hl|lra].
Qed.

Lemma bhs_remove_perm s t : Permutation (fst (bhs_remove s t)) (remove_events t (fst s)).
Proof. apply heapify_perm. Qed.

(* sequences of push / next_until on the array, from the empty queue *)
Inductive qop := QPush (t : nat) (ev : event) (time : Q) | QNext (until : Q).
Definition q_step (s : bh_state) (o : qop) : bh_state :=
  match o with
  | QPush t ev time => bhs_push s t ev time
  | QNext until => snd (bhs_next_until s until)
  end.
Lemma q_run_heap ops : forall s, IsHeap (fst s) -> IsHeap (fst (fold_left q_step ops s)).
Proof.
  induction ops as [|o ops IH]; intros s H; simpl; [exact H|]. apply IH.
  destruct o as [t ev time|until]; simpl.
  - apply push_heap. exact H.
  - pose proof (bhs_next_ok s until H) as Hn. destruct (bhs_next_until s until) as [[x|] s'].
    + destruct Hn as (_ & _ & _ & _ & HH & _). exact HH.
    + destruct Hn as [-> _]. exact H.
Qed.
Lemma heap_nil : IsHeap [].
Proof. intros i Hi. simpl in Hi. lia. Qed.
