(* DomainProofs.v — lemmas about model/Domain.v (property C07).  Over exact rationals.
   A scaling is an arbitrary pair of functions; what a lemma needs from it is an explicit
   hypothesis ([sc_good], [sc_sample_good]: facts of log/exp), trivially true of [Domain.linear]. *)
From Verif Require Import model.Base model.Domain.
From Coq Require Import Qround Qabs Lqa Lia ZArith ZifyBool.
Open Scope Q_scope.

Lemma Qltb_false a b : Qltb a b = false <-> b <= a.
Proof.
  unfold Qltb. rewrite negb_false_iff. apply Qle_bool_iff.
Qed.
Lemma Qeqb_eq a b : Qeqb a b = true <-> a == b.
Proof. apply Qeq_bool_iff. Qed.
Lemma Qeqb_neq a b : Qeqb a b = false <-> ~ a == b.
Proof.
  split; intro H.
  - intro E. apply Qeqb_eq in E. congruence.
  - destruct (Qeqb a b) eqn:E; [|reflexivity]. apply Qeqb_eq in E. contradiction.
Qed.

Lemma Qclip_bounds x lo hi : lo <= hi -> lo <= Qclip x lo hi <= hi.
Proof.
  intro H. unfold Qclip.
  destruct (Qltb x lo) eqn:E1.
  - destruct (Qltb hi lo) eqn:E2.
    + apply Qltb_lt in E2. lra.
    + lra.
  - apply Qltb_false in E1. destruct (Qltb hi x) eqn:E2.
    + lra.
    + apply Qltb_false in E2. lra.
Qed.
Lemma Qclip_id x lo hi : lo <= x <= hi -> Qclip x lo hi = x.
Proof.
  intros [H1 H2]. unfold Qclip.
  destruct (Qltb x lo) eqn:E1.
  - apply Qltb_lt in E1. lra.
  - destruct (Qltb hi x) eqn:E2; [apply Qltb_lt in E2; lra | reflexivity].
Qed.
Lemma Qclip_mono_bounds x lo hi a b : lo <= hi -> lo <= a -> b <= hi -> a <= b -> a <= x <= b -> a <= Qclip x lo hi <= b.
Proof.
  intros. rewrite Qclip_id; lra.
Qed.
(* clip keeps a value that is pushed from outside at least at the bound it crossed *)
Lemma Qclip_ge x lo hi a : lo <= hi -> a <= hi -> a <= x -> a <= Qclip x lo hi.
Proof.
  intros H Ha Hx. unfold Qclip.
  destruct (Qltb x lo) eqn:E1.
  - apply Qltb_lt in E1. destruct (Qltb hi lo) eqn:E2; [apply Qltb_lt in E2|]; lra.
  - destruct (Qltb hi x) eqn:E2; lra.
Qed.
Lemma Qclip_le x lo hi b : lo <= hi -> lo <= b -> x <= b -> Qclip x lo hi <= b.
Proof.
  intros H Hb Hx. unfold Qclip.
  destruct (Qltb x lo) eqn:E1.
  - destruct (Qltb hi lo) eqn:E2; [apply Qltb_lt in E2|]; lra.
  - apply Qltb_false in E1. destruct (Qltb hi x) eqn:E2; [apply Qltb_lt in E2|]; lra.
Qed.

Lemma Zclip_bounds x lo hi : (lo <= hi -> lo <= Zclip x lo hi <= hi)%Z.
Proof. unfold Zclip. lia. Qed.
Lemma Zclip_id x lo hi : (lo <= x <= hi -> Zclip x lo hi = x)%Z.
Proof. unfold Zclip. lia. Qed.

(* ---- round half to even ---- *)
Lemma round_he_cases x :
  let f := Qfloor x in
  (round_he x = f /\ x - inject_Z f <= 1#2) \/ (round_he x = (f + 1)%Z /\ 1#2 <= x - inject_Z f).
Proof.
  intro f. unfold round_he. fold f.
  destruct (Qcompare_spec (x - inject_Z f) (1#2)) as [E|E|E].
  - destruct (Z.even f); [left | right]; split; auto; lra.
  - left. split; auto. lra.
  - right. split; auto. lra.
Qed.

Lemma inject_Z_plus1 f : inject_Z (f + 1) == inject_Z f + 1.
Proof. rewrite inject_Z_plus. reflexivity. Qed.

Lemma round_he_near x : x - (1#2) <= inject_Z (round_he x) <= x + (1#2).
Proof.
  pose proof (Qfloor_le x) as H1. pose proof (Qlt_floor x) as H2.
  rewrite inject_Z_plus1 in H2.
  destruct (round_he_cases x) as [[E H]|[E H]]; rewrite E; try rewrite inject_Z_plus1; lra.
Qed.

Lemma inject_Z_minus1 f : inject_Z (f - 1) == inject_Z f - 1.
Proof. unfold Z.sub. rewrite inject_Z_plus. unfold Qminus. apply Qplus_comp; reflexivity. Qed.
Lemma inject_Z_lt a b : inject_Z a < inject_Z b <-> (a < b)%Z.
Proof. rewrite Zlt_Qlt. reflexivity. Qed.
Lemma inject_Z_le a b : inject_Z a <= inject_Z b <-> (a <= b)%Z.
Proof. rewrite Zle_Qle. reflexivity. Qed.

Lemma round_he_lb x z : inject_Z z - (1#2) < x -> (z <= round_he x)%Z.
Proof.
  intro H. pose proof (round_he_near x) as [H1 _].
  assert (inject_Z (z - 1) < inject_Z (round_he x)) as H3.
  { rewrite inject_Z_minus1. lra. }
  rewrite <- Zlt_Qlt in H3. lia.
Qed.
Lemma round_he_ub x z : x < inject_Z z + (1#2) -> (round_he x <= z)%Z.
Proof.
  intro H. pose proof (round_he_near x) as [_ H1].
  assert (inject_Z (round_he x) < inject_Z (z + 1)) as H3.
  { rewrite inject_Z_plus1. lra. }
  rewrite <- Zlt_Qlt in H3. lia.
Qed.
Lemma round_he_inject z : round_he (inject_Z z) = z.
Proof.
  apply Z.le_antisymm; [apply round_he_ub | apply round_he_lb]; lra.
Qed.
Lemma round_he_comp x y : x == y -> round_he x = round_he y.
Proof.
  intro H. unfold round_he. rewrite (Qfloor_comp _ _ H).
  assert (Qcompare (x - inject_Z (Qfloor y)) (1#2) = Qcompare (y - inject_Z (Qfloor y)) (1#2)) as E.
  { apply Qcompare_comp; [rewrite H|]; reflexivity. }
  rewrite E. reflexivity.
Qed.
Lemma round_he_eq_inject x z : x == inject_Z z -> round_he x = z.
Proof. intro H. rewrite (round_he_comp _ _ H). apply round_he_inject. Qed.

Lemma round_he_mono x y : x <= y -> (round_he x <= round_he y)%Z.
Proof.
  intro H.
  pose proof (Qfloor_resp_le _ _ H) as Hf.
  pose proof (Qfloor_le x) as Hx1. pose proof (Qlt_floor x) as Hx2. rewrite inject_Z_plus1 in Hx2.
  pose proof (Qfloor_le y) as Hy1. pose proof (Qlt_floor y) as Hy2. rewrite inject_Z_plus1 in Hy2.
  destruct (Z.eq_dec (Qfloor x) (Qfloor y)) as [E|NE].
  - unfold round_he. rewrite <- E.
    destruct (Qcompare_spec (x - inject_Z (Qfloor x)) (1#2)) as [Cx|Cx|Cx];
    destruct (Qcompare_spec (y - inject_Z (Qfloor x)) (1#2)) as [Cy|Cy|Cy];
    try (exfalso; lra); destruct (Z.even (Qfloor x)); lia.
  - assert (Qfloor x + 1 <= Qfloor y)%Z as Hlt by lia.
    destruct (round_he_cases x) as [[Ex _]|[Ex _]]; destruct (round_he_cases y) as [[Ey _]|[Ey _]]; lia.
Qed.

(* ================= continuous / integer ranges ================= *)
Lemma Qleb_true a b : Qleb a b = true <-> a <= b.
Proof. apply Qleb_le. Qed.

Lemma ratio_bounds a l u : l < u -> l <= a <= u -> 0 <= (a - l) / (u - l) <= 1.
Proof.
  intros H [H1 H2]. split.
  - apply Qle_shift_div_l; lra.
  - apply Qle_shift_div_r; lra.
Qed.
Lemma ratio_inv a l u : l < u -> (a - l) / (u - l) * (u - l) + l == a.
Proof. intro H. field. lra. Qed.

Lemma sfzo_member eps v lb ub sc li ui x :
  lb <= ub -> scale_from_zero_one eps v lb ub sc li ui = Some x -> lb <= x <= ub.
Proof.
  unfold scale_from_zero_one. intros H E.
  destruct (Qleb (- eps) v && Qleb v (1 + eps)); [|discriminate].
  injection E as <-. destruct (Qltb 0 (ui - li)); [apply Qclip_bounds; assumption | lra].
Qed.
Lemma sfzo_total eps v lb ub sc li ui :
  0 <= eps -> 0 <= v <= 1 -> exists x, scale_from_zero_one eps v lb ub sc li ui = Some x.
Proof.
  intros He [H0 H1]. unfold scale_from_zero_one.
  assert (Qleb (- eps) v && Qleb v (1 + eps) = true) as ->.
  { apply andb_true_iff. split; apply Qleb_true; lra. }
  eexists. reflexivity.
Qed.

Lemma cont_decode_member eps r v x :
  c_lo r <= c_hi r -> cont_from_nd eps r v = Some x -> c_lo r <= x <= c_hi r.
Proof. unfold cont_from_nd. apply sfzo_member. Qed.
Lemma cont_decode_total eps r v :
  0 <= eps -> 0 <= v <= 1 -> exists x, cont_from_nd eps r v = Some x.
Proof. unfold cont_from_nd. apply sfzo_total. Qed.

Lemma int_decode_member eps r v z :
  (i_lo r <= i_hi r)%Z -> int_from_nd eps r v = Some z -> (i_lo r <= z <= i_hi r)%Z.
Proof.
  unfold int_from_nd. intros H E.
  destruct (int_from_nd_pre eps r v); [|discriminate]. injection E as <-.
  unfold round_to_int. apply Zclip_bounds. assumption.
Qed.
Lemma int_decode_total eps r v :
  0 <= eps -> 0 <= v <= 1 -> exists z, int_from_nd eps r v = Some z.
Proof.
  intros He Hv. unfold int_from_nd, int_from_nd_pre.
  destruct (cont_decode_total eps (i_cont eps r) v He Hv) as [x ->]. eexists. reflexivity.
Qed.

(* what the round trip needs from a scaling on [lo, hi] (facts of log/exp; trivial for Domain.linear) *)
Definition sc_good (sc : scaling) (lo hi : Q) : Prop :=
  (forall a b, a == b -> from_int sc a == from_int sc b) /\
  (forall y, lo <= y <= hi -> from_int sc (to_int sc y) == y) /\
  (forall y, lo <= y <= hi -> to_int sc lo <= to_int sc y <= to_int sc hi) /\
  (forall y, lo <= y <= hi -> sc_dom sc y = true).
Lemma linear_good lo hi : sc_good Domain.linear lo hi.
Proof. repeat split; simpl; intros; try lra; auto. Qed.

Lemma cont_roundtrip eps r x :
  0 <= eps -> sc_good (c_sc r) (c_lo r) (c_hi r) -> c_lo r <= x <= c_hi r ->
  exists e y, cont_to_nd eps r x = Some e /\ 0 <= e <= 1 /\
              cont_from_nd eps r e = Some y /\ y == x.
Proof.
  intros He (Hcomp & Hinv & Hmono & Hdom) Hx.
  unfold cont_to_nd, cont_from_nd, scale_from_zero_one, c_lo_i, c_hi_i.
  set (sc := c_sc r) in *. set (lo := c_lo r) in *. set (hi := c_hi r) in *.
  assert (Qleb (lo - eps) x && Qleb x (hi + eps) = true) as ->.
  { apply andb_true_iff. split; apply Qleb_true; lra. }
  assert (lo <= hi) as Hlh by lra.
  pose proof (Hmono hi (conj Hlh (Qle_refl hi))) as [Hlu _].
  pose proof (Hmono x Hx) as [Hx1 Hx2].
  destruct (Qeqb (to_int sc hi) (to_int sc lo)) eqn:E.
  - apply Qeqb_eq in E. exists 0, lo. split; [reflexivity|]. split; [lra|].
    assert (Qleb (- eps) 0 && Qleb 0 (1 + eps) = true) as ->.
    { apply andb_true_iff. split; apply Qleb_true; lra. }
    assert (Qltb 0 (to_int sc hi - to_int sc lo) = false) as ->.
    { apply Qltb_false. lra. }
    split; [reflexivity|].
    assert (to_int sc x == to_int sc lo) as Ex by lra.
    rewrite <- (Hinv x Hx). rewrite <- (Hinv lo) by lra. apply Hcomp. symmetry. exact Ex.
  - apply Qeqb_neq in E. assert (to_int sc lo < to_int sc hi) as Hlt.
    { destruct (Qlt_le_dec (to_int sc lo) (to_int sc hi)); [assumption|]. exfalso. apply E. lra. }
    rewrite (Hdom x Hx).
    pose proof (ratio_bounds (to_int sc x) _ _ Hlt (conj Hx1 Hx2)) as Hr.
    set (e := (to_int sc x - to_int sc lo) / (to_int sc hi - to_int sc lo)) in *.
    rewrite (Qclip_id e 0 1 Hr).
    exists e. eexists. split; [reflexivity|]. split; [exact Hr|].
    assert (Qleb (- eps) e && Qleb e (1 + eps) = true) as ->.
    { apply andb_true_iff. split; apply Qleb_true; lra. }
    assert (Qltb 0 (to_int sc hi - to_int sc lo) = true) as ->.
    { apply Qltb_lt. lra. }
    split; [reflexivity|].
    assert (from_int sc (e * (to_int sc hi - to_int sc lo) + to_int sc lo) == x) as Ey.
    { transitivity (from_int sc (to_int sc x)); [apply Hcomp; unfold e; apply ratio_inv; exact Hlt | apply Hinv; exact Hx]. }
    rewrite Qclip_id; [exact Ey|]. rewrite Ey. exact Hx.
Qed.

Lemma i_cont_bounds eps r x : 0 < eps < 1#2 -> (i_lo r <= x <= i_hi r)%Z ->
  c_lo (i_cont eps r) <= inject_Z x <= c_hi (i_cont eps r).
Proof.
  intros He [H1 H2]. simpl. apply inject_Z_le in H1. apply inject_Z_le in H2. lra.
Qed.

Lemma int_roundtrip eps r x :
  0 < eps < 1#2 -> sc_good (i_sc r) (c_lo (i_cont eps r)) (c_hi (i_cont eps r)) ->
  (i_lo r <= x <= i_hi r)%Z ->
  exists e, int_to_nd eps r x = Some e /\ 0 <= e <= 1 /\ int_from_nd eps r e = Some x.
Proof.
  intros He Hg Hx.
  destruct (cont_roundtrip eps (i_cont eps r) (inject_Z x)) as (e & y & E1 & E2 & E3 & E4).
  - lra.
  - exact Hg.
  - apply i_cont_bounds; assumption.
  - exists e. unfold int_to_nd, int_from_nd, int_from_nd_pre. rewrite E1, E3. simpl.
    repeat split; try apply E2.
    unfold round_to_int. rewrite (round_he_eq_inject _ _ E4). rewrite Zclip_id; [reflexivity | exact Hx].
Qed.

(* ---- active sub-range, Domain.linear scaling ---- *)
Lemma cont_active eps r a b v x :
  0 <= eps -> c_sc r = Domain.linear -> crange_ok r = true ->
  cont_bounds eps r = Some (a, b) -> a <= v <= b -> cont_from_nd eps r v = Some x ->
  0 <= a /\ b <= 1 /\ c_alo r <= x <= c_ahi r.
Proof.
  intros He Hsc Hok Hb Hv Hx.
  unfold crange_ok in Hok. rewrite Hsc in Hok. simpl in Hok.
  repeat (apply andb_true_iff in Hok; destruct Hok as [Hok ?]).
  repeat match goal with H : Qleb _ _ = true |- _ => apply Qleb_true in H end.
  unfold cont_bounds, cont_to_nd, c_lo_i, c_hi_i in Hb. rewrite Hsc in Hb. simpl in Hb.
  unfold cont_from_nd, scale_from_zero_one, c_lo_i, c_hi_i in Hx. rewrite Hsc in Hx. simpl in Hx.
  set (lo := c_lo r) in *. set (hi := c_hi r) in *. set (alo := c_alo r) in *. set (ahi := c_ahi r) in *.
  assert (Qleb (lo - eps) alo && Qleb alo (hi + eps) = true) as E1.
  { apply andb_true_iff. split; apply Qleb_true; lra. }
  assert (Qleb (lo - eps) ahi && Qleb ahi (hi + eps) = true) as E2.
  { apply andb_true_iff. split; apply Qleb_true; lra. }
  rewrite E1, E2 in Hb.
  destruct (Qleb (- eps) v && Qleb v (1 + eps)); [|discriminate]. injection Hx as <-.
  destruct (Qeqb hi lo) eqn:E.
  - apply Qeqb_eq in E. injection Hb as <- <-.
    assert (Qltb 0 (hi - lo) = false) as -> by (apply Qltb_false; lra).
    repeat split; lra.
  - apply Qeqb_neq in E. assert (lo < hi) as Hlt.
    { destruct (Qlt_le_dec lo hi); [assumption|]. exfalso. apply E. lra. }
    assert (Qltb 0 (hi - lo) = true) as -> by (apply Qltb_lt; lra).
    pose proof (ratio_bounds alo lo hi Hlt) as Ra. pose proof (ratio_bounds ahi lo hi Hlt) as Rb.
    rewrite (Qclip_id _ 0 1 (Ra ltac:(lra))) in Hb. rewrite (Qclip_id _ 0 1 (Rb ltac:(lra))) in Hb.
    injection Hb as <- <-.
    split; [apply Ra; lra|]. split; [apply Rb; lra|].
    assert (alo <= v * (hi - lo) + lo <= ahi) as Hin.
    { destruct Hv as [Hv1 Hv2].
      pose proof (ratio_inv alo lo hi Hlt) as Ia. pose proof (ratio_inv ahi lo hi Hlt) as Ib.
      assert (0 <= hi - lo) as Hp by lra.
      pose proof (Qmult_le_compat_r _ _ (hi - lo) Hv1 Hp).
      pose proof (Qmult_le_compat_r _ _ (hi - lo) Hv2 Hp). lra. }
    rewrite Qclip_id; lra.
Qed.

Lemma int_active eps r a b v z :
  0 < eps < 1#2 -> i_sc r = Domain.linear -> irange_ok eps r = true ->
  int_bounds eps r = Some (a, b) -> a <= v <= b -> int_from_nd eps r v = Some z ->
  0 <= a /\ b <= 1 /\ (i_alo r <= z <= i_ahi r)%Z.
Proof.
  intros He Hsc Hok Hb Hv Hz.
  unfold irange_ok in Hok. apply andb_true_iff in Hok. destruct Hok as [Hlh Hok].
  unfold int_from_nd, int_from_nd_pre in Hz.
  destruct (cont_from_nd eps (i_cont eps r) v) as [x|] eqn:Ex; [|discriminate].
  injection Hz as <-.
  destruct (cont_active eps (i_cont eps r) a b v x) as (Ha & Hb' & Hx); auto; try lra.
  split; [exact Ha|]. split; [exact Hb'|].
  simpl in Hx.
  (* the active integer bounds lie inside the bounds *)
  unfold crange_ok in Hok. simpl in Hok.
  repeat (apply andb_true_iff in Hok; destruct Hok as [Hok ?]).
  repeat match goal with H : Qleb _ _ = true |- _ => apply Qleb_true in H end.
  assert (i_lo r <= i_alo r)%Z by (apply inject_Z_le; lra).
  assert (i_ahi r <= i_hi r)%Z by (apply inject_Z_le; lra).
  assert (i_alo r <= round_he x)%Z by (apply round_he_lb; lra).
  assert (round_he x <= i_ahi r)%Z by (apply round_he_ub; lra).
  unfold round_to_int, Zclip. lia.
Qed.

(* ================= list helpers ================= *)
Lemma val_eqb_refl x : val_eqb x x = true.
Proof. destruct x; simpl; try apply Z.eqb_refl. apply Qeqb_eq. reflexivity. Qed.
Lemma nth_error_mem_val l : forall i x, nth_error l i = Some x -> mem_val x l = true.
Proof.
  induction l as [|y l IH]; intros [|i] x H; simpl in *; try discriminate.
  - injection H as ->. rewrite val_eqb_refl. reflexivity.
  - rewrite (IH _ _ H). apply orb_true_r.
Qed.
Lemma nth_error_some_lt {A} (l : list A) i : (i < length l)%nat -> exists x, nth_error l i = Some x.
Proof.
  intro H. destruct (nth_error l i) eqn:E; [eexists; reflexivity|].
  apply nth_error_None in E. lia.
Qed.

Lemma index_num_spec y : forall l i, index_num y l = Some i ->
  (i < length l)%nat /\ exists v, nth_error l i = Some v /\ val_num v == y.
Proof.
  induction l as [|v l IH]; intros i H; simpl in H; [discriminate|].
  destruct (Qeqb (val_num v) y) eqn:E.
  - injection H as <-. simpl. split; [lia|]. exists v. split; [reflexivity | apply Qeqb_eq; exact E].
  - destruct (index_num y l) as [j|] eqn:Ej; [|discriminate]. injection H as <-.
    destruct (IH j eq_refl) as (Hj & w & Hw & Ew). simpl. split; [lia|]. exists w. auto.
Qed.
Lemma index_num_exists y : forall l k v, nth_error l k = Some v -> val_num v == y ->
  exists i, index_num y l = Some i.
Proof.
  induction l as [|w l IH]; intros k v Hk Hv; [destruct k; discriminate|]. simpl.
  destruct (Qeqb (val_num w) y) eqn:E; [eauto|].
  destruct k; simpl in Hk.
  - injection Hk as ->. apply Qeqb_eq in Hv. congruence.
  - destruct (IH k v Hk Hv) as [i ->]. simpl. eauto.
Qed.

Lemma argmin_from_range l : forall best bi cur,
  argmin_from best bi cur l = bi \/ (cur <= argmin_from best bi cur l < cur + length l)%nat.
Proof.
  induction l as [|x l IH]; intros; simpl; [left; reflexivity|].
  destruct (Qltb x best).
  - destruct (IH x cur (S cur)) as [E|E]; right; lia.
  - destruct (IH best bi (S cur)) as [E|E]; [left; assumption | right; lia].
Qed.
Lemma argmin_lt l : l <> [] -> (argmin l < length l)%nat.
Proof.
  destruct l as [|x l]; [congruence|]. intros _. simpl.
  destruct (argmin_from_range l x 0%nat 1%nat); lia.
Qed.
Lemma argmax_from_range l : forall best bi cur,
  argmax_from best bi cur l = bi \/ (cur <= argmax_from best bi cur l < cur + length l)%nat.
Proof.
  induction l as [|x l IH]; intros; simpl; [left; reflexivity|].
  destruct (Qltb best x).
  - destruct (IH x cur (S cur)) as [E|E]; right; lia.
  - destruct (IH best bi (S cur)) as [E|E]; [left; assumption | right; lia].
Qed.
Lemma argmax_lt l : l <> [] -> (argmax l < length l)%nat.
Proof.
  destruct l as [|x l]; [congruence|]. intros _. simpl.
  destruct (argmax_from_range l x 0%nat 1%nat); lia.
Qed.

(* ================= samplers ================= *)
Lemma affine_in a b u : a <= b -> 0 <= u -> u < 1 -> a <= a + (b - a) * u <= b.
Proof. intros. nra. Qed.

(* facts of log/exp (resp. -log(1-x), 1-exp(-x)) the log samplers rely on *)
Definition sc_sample_good (sc : scaling) (lo hi : Q) : Prop :=
  to_int sc lo <= to_int sc hi /\
  (forall a b, a <= b -> from_int sc a <= from_int sc b) /\
  from_int sc (to_int sc lo) == lo /\ from_int sc (to_int sc hi) == hi.

Lemma log_draw_in sc lo hi u :
  sc_sample_good sc lo hi -> 0 <= u -> u < 1 ->
  lo <= from_int sc (to_int sc lo + (to_int sc hi - to_int sc lo) * u) <= hi.
Proof.
  intros (Hle & Hmono & El & Eh) H0 H1.
  pose proof (affine_in _ _ u Hle H0 H1) as [A B].
  pose proof (Hmono _ _ A). pose proof (Hmono _ _ B). lra.
Qed.

Definition dom_wf (d : domain) : Prop :=
  match d with
  | DFloat lo hi _ => lo <= hi
  | DInteger lo hi _ => (lo <= hi)%Z
  | DCategorical c _ | DOrdinal c _ | DOrdinalNN c _ => c <> []
  | DFiniteRange lo hi size _ _ => lo <= hi /\ (1 <= size)%Z
  end.
(* the only side condition of the sampler theorem: a quantisation factor is positive (every log
   sampler clips, so no fact about log/exp is needed) *)
Definition samp_hyp (sl sr : scaling) (d : domain) : Prop :=
  match d with
  | DInteger _ _ (SQuant _ q) => 0 < q
  | _ => True
  end.

Lemma round_he_in_Z x lo hi : inject_Z lo <= x <= inject_Z hi -> (lo <= round_he x <= hi)%Z.
Proof.
  intros [H1 H2]. split.
  - rewrite <- (round_he_inject lo). apply round_he_mono. exact H1.
  - rewrite <- (round_he_inject hi). apply round_he_mono. exact H2.
Qed.

Lemma andb_leb_Q a b c : Qleb a b && Qleb b c = true <-> a <= b <= c.
Proof. rewrite andb_true_iff, !Qleb_true. reflexivity. Qed.

Lemma nn_cast_int_mem cats ci x y : length ci = length cats -> nn_cast_int cats ci x = Some y -> mem_val y cats = true.
Proof.
  unfold nn_cast_int. intros _ H. destruct (Nat.ltb 1 (length cats)); eapply nth_error_mem_val; exact H.
Qed.

Lemma sample_float_in sl sr lo hi s r v :
  lo <= hi -> (forall u, r = RawU u -> 0 <= u /\ u < 1) ->
  sample_float sl sr lo hi s r = Some v -> lo <= v <= hi.
Proof.
  intros Hl Hu H. destruct s; destruct r as [u|i]; simpl in H; try discriminate; injection H as <-.
  - destruct (Hu u eq_refl). apply affine_in; assumption.
  - apply Qclip_bounds; assumption.
  - apply Qclip_bounds; assumption.
Qed.

Lemma quant_bounds_int_in q lo hi a b :
  0 < q -> (lo <= hi)%Z -> quant_bounds_int q lo hi = (a, b) ->
  inject_Z lo <= a /\ a <= b /\ b <= inject_Z hi.
Proof.
  intros Hq Hl. unfold quant_bounds_int.
  destruct (Qleb (inject_Z (Qceiling (inject_Z lo / q)) * q) (inject_Z (Qfloor (inject_Z hi / q)) * q)) eqn:E;
    intro H; apply pair_equal_spec in H; destruct H as [<- <-].
  - apply Qleb_true in E. split; [|split; [exact E|]].
    + pose proof (Qle_ceiling (inject_Z lo / q)) as Hc.
      assert (inject_Z lo / q * q == inject_Z lo) as Ef by (field; lra).
      pose proof (Qmult_le_compat_r _ _ q Hc ltac:(lra)). lra.
    + pose proof (Qfloor_le (inject_Z hi / q)) as Hc.
      assert (inject_Z hi / q * q == inject_Z hi) as Ef by (field; lra).
      pose proof (Qmult_le_compat_r _ _ q Hc ltac:(lra)). lra.
  - apply inject_Z_le in Hl. lra.
Qed.
Lemma quantize_int_in q lo hi v : 0 < q -> (lo <= hi)%Z -> (lo <= quantize_int q lo hi v <= hi)%Z.
Proof.
  intros Hq Hl. unfold quantize_int. destruct (quant_bounds_int q lo hi) as [a b] eqn:E.
  apply (quant_bounds_int_in q lo hi a b Hq Hl) in E. destruct E as (E1 & E2 & E3).
  apply round_he_in_Z. pose proof (Qclip_bounds (quantize q v) a b E2). lra.
Qed.

(* EVERY sampler, the Quantized wrapper included *)
Lemma sample_member sl sr d r x :
  dom_wf d -> samp_hyp sl sr d -> raw_ok d r = true ->
  dom_sample sl sr d r = Some x -> dom_member sl d x = true.
Proof.
  intros Hwf Hh Hr Hs.
  destruct d as [lo hi s|lo hi s|c s|c s|c ls|lo hi size ls ci]; simpl in Hwf.
  - (* Float *)
    assert (forall u, r = RawU u -> 0 <= u /\ u < 1) as Hu.
    { intros u ->. destruct s; simpl in Hr; apply andb_true_iff in Hr; destruct Hr as [H0 H1];
        apply Qleb_true in H0; apply Qltb_lt in H1; auto. }
    destruct s as [| | |s' q]; cbn [dom_sample] in Hs.
    1-3: match type of Hs with option_map _ ?e = _ => destruct e as [v|] eqn:Ev; [|discriminate] end;
         injection Hs as <-; simpl; apply andb_leb_Q; eapply sample_float_in; [exact Hwf | exact Hu | exact Ev].
    destruct (sample_float sl sr lo hi s' r) as [v|]; [|discriminate]. injection Hs as <-.
    simpl. apply andb_leb_Q. apply Qclip_bounds. exact Hwf.
  - (* Integer *)
    destruct s as [| | |s' q]; cbn [dom_sample] in Hs; simpl in Hh.
    + destruct r as [u|i]; simpl in Hs; try discriminate. injection Hs as <-. simpl in *.
      rewrite round_he_inject. exact Hr.
    + destruct r as [u|i]; simpl in Hs; try discriminate. injection Hs as <-. simpl in *.
      apply andb_true_iff in Hr; destruct Hr as [Hu0 Hu1]; apply Qleb_true in Hu0; apply Qltb_lt in Hu1.
      rewrite round_he_inject.
      pose proof (Zclip_bounds (round_he (from_int sl (to_int sl (inject_Z lo) +
                   (to_int sl (inject_Z hi) - to_int sl (inject_Z lo)) * u))) lo hi Hwf). lia.
    + destruct r; discriminate.
    + destruct (sample_int sl lo hi s' r) as [v|]; [|discriminate]. injection Hs as <-.
      simpl. pose proof (quantize_int_in q lo hi v Hh Hwf). lia.
  - simpl in *. destruct s; try discriminate. destruct r; try discriminate.
    apply nth_error_mem_val in Hs. destruct x; exact Hs.
  - simpl in *. destruct s; try discriminate. destruct r; try discriminate.
    apply nth_error_mem_val in Hs. destruct x; exact Hs.
  - simpl in *. destruct r; try discriminate. unfold nn_sample in Hs.
    destruct (Nat.ltb 1 (length c)).
    + apply nn_cast_int_mem in Hs; [destruct x; exact Hs|]. unfold nn_cats_int. apply map_length.
    + apply nth_error_mem_val in Hs. destruct x; exact Hs.
  - simpl in *. destruct r; try discriminate. apply nth_error_mem_val in Hs. destruct x; exact Hs.
Qed.

(* ================= Quantized ================= *)
Lemma quantize_mono q a b : 0 < q -> a <= b -> quantize q a <= quantize q b.
Proof.
  intros Hq H. unfold quantize.
  assert (a / q <= b / q) as Hd.
  { unfold Qdiv. apply Qmult_le_compat_r; [exact H|]. apply Qlt_le_weak. apply Qinv_lt_0_compat. exact Hq. }
  pose proof (round_he_mono _ _ Hd) as Hz. apply inject_Z_le in Hz.
  apply Qmult_le_compat_r; lra.
Qed.

Lemma quantized_float_iff q lo hi : 0 < q -> lo <= hi ->
  ((forall v, lo <= v <= hi -> lo <= quantize q v <= hi) <->
   (lo <= quantize q lo /\ quantize q hi <= hi)).
Proof.
  intros Hq Hlh. split.
  - intro H. split; [apply (H lo) | apply (H hi)]; lra.
  - intros [H1 H2] v [Hv1 Hv2]. pose proof (quantize_mono q _ _ Hq Hv1). pose proof (quantize_mono q _ _ Hq Hv2). lra.
Qed.

Lemma quantized_int_iff q lo hi : 0 < q -> (lo <= hi)%Z ->
  ((forall i, (lo <= i <= hi)%Z -> (lo <= round_he (quantize q (inject_Z i)) <= hi)%Z) <->
   ((lo <= round_he (quantize q (inject_Z lo)))%Z /\ (round_he (quantize q (inject_Z hi)) <= hi)%Z)).
Proof.
  intros Hq Hlh. split.
  - intro H. split; [apply (H lo) | apply (H hi)]; lia.
  - intros [H1 H2] i [Hi1 Hi2]. apply inject_Z_le in Hi1. apply inject_Z_le in Hi2.
    pose proof (round_he_mono _ _ (quantize_mono q _ _ Hq Hi1)).
    pose proof (round_he_mono _ _ (quantize_mono q _ _ Hq Hi2)). lia.
Qed.

Lemma quantize_multiple k m : (0 < k)%Z -> quantize (inject_Z k) (inject_Z (k * m)) == inject_Z (k * m).
Proof.
  intro Hk. unfold quantize.
  assert (inject_Z (k * m) / inject_Z k == inject_Z m) as E.
  { rewrite inject_Z_mult. field. intro E0. assert (inject_Z 0 < inject_Z k) as Hlt by (rewrite <- Zlt_Qlt; exact Hk).
    change (inject_Z 0) with 0 in Hlt. lra. }
  rewrite (round_he_eq_inject _ _ E). rewrite inject_Z_mult. ring.
Qed.

Lemma quantized_int_divides k lo hi i :
  (0 < k)%Z -> (k | lo)%Z -> (k | hi)%Z -> (lo <= i <= hi)%Z ->
  (lo <= round_he (quantize (inject_Z k) (inject_Z i)) <= hi)%Z.
Proof.
  intros Hk [a Ha] [b Hb] Hi.
  assert (0 < inject_Z k) as Hq by (change 0 with (inject_Z 0); rewrite <- Zlt_Qlt; exact Hk).
  apply (quantized_int_iff (inject_Z k) lo hi Hq); [lia| |exact Hi].
  split.
  - subst lo. rewrite Z.mul_comm. rewrite (round_he_eq_inject _ _ (quantize_multiple k a Hk)). lia.
  - subst hi. rewrite Z.mul_comm. rewrite (round_he_eq_inject _ _ (quantize_multiple k b Hk)). lia.
Qed.

(* ================= JSON ================= *)
(* samplers that exist: Uniform / LogUniform, ReverseLogUniform for Float only, and ONE Quantized
   wrapper around them *)
Definition json_sampler_ok (is_float : bool) (s : sampler) : Prop :=
  match s with
  | SUniform | SLogUniform => True
  | SRevLog => is_float = true
  | SQuant (SQuant _ _) _ => False
  | SQuant SRevLog _ => is_float = true
  | SQuant _ _ => True
  end.
Definition json_ok (d : domain) : Prop :=
  match d with
  | DFloat lo hi s => lo <= hi /\ json_sampler_ok true s
  | DInteger lo hi s => (lo <= hi)%Z /\ json_sampler_ok false s
  | DCategorical c s | DOrdinal c s => all_same_type c = true /\ s = SUniform
  | DOrdinalNN c _ => all_same_type c = true
  | DFiniteRange lo hi size _ _ => lo <= hi /\ (1 <= size)%Z
  end.

Lemma json_roundtrip_ok base d : 0 < base -> json_ok d -> json_roundtrip base d = Some d.
Proof.
  intros Hb H. apply Qltb_lt in Hb.
  destruct d as [lo hi s|lo hi s|c s|c s|c ls|lo hi size ls ci]; simpl in H.
  - destruct H as [Hl Hs]. apply Qleb_true in Hl.
    destruct s as [| | |i q]; [| | |destruct i]; cbn in Hs; try contradiction; try discriminate;
      unfold json_roundtrip; cbn -[Qleb Qltb Z.leb]; rewrite ?Hb; cbn -[Qleb Qltb Z.leb]; rewrite Hl; reflexivity.
  - destruct H as [Hl Hs]. apply Z.leb_le in Hl.
    destruct s as [| | |i q]; [| | |destruct i]; cbn in Hs; try contradiction; try discriminate;
      unfold json_roundtrip; cbn -[Qleb Qltb Z.leb]; rewrite ?Hb; cbn -[Qleb Qltb Z.leb]; rewrite Hl; reflexivity.
  - destruct H as [Hl ->]. unfold json_roundtrip; cbn -[Qleb Qltb Z.leb all_same_type]. rewrite Hl. reflexivity.
  - destruct H as [Hl ->]. unfold json_roundtrip; cbn -[Qleb Qltb Z.leb all_same_type]. rewrite Hl. reflexivity.
  - unfold json_roundtrip; cbn -[Qleb Qltb Z.leb all_same_type]. rewrite H. reflexivity.
  - destruct H as [Hl Hs]. apply Qleb_true in Hl. apply Z.leb_le in Hs.
    unfold json_roundtrip; cbn -[Qleb Qltb Z.leb all_same_type]. rewrite Hl, Hs. reflexivity.
Qed.

(* ================= cast ================= *)
Lemma fd_values_length r : length (fd_values r) = Z.to_nat (f_size r).
Proof. unfold fd_values. rewrite map_length, seq_length. reflexivity. Qed.

Lemma fd_cast_member r y : (1 <= f_size r)%Z -> exists v, fd_cast r y = Some v /\ mem_val v (fd_values r) = true.
Proof.
  intro Hs. unfold fd_cast.
  assert (0 <= fd_map_to_int r y <= f_size r - 1)%Z as Hi.
  { unfold fd_map_to_int. destruct (Qeqb (f_step r) 0); [lia|].
    destruct (castint_lookup r y) as [i|] eqn:E; [|apply Zclip_bounds; lia].
    unfold castint_lookup in E. destruct (f_cast_int r); [|discriminate].
    apply index_num_spec in E. destruct E as [E _]. rewrite fd_values_length in E. lia. }
  destruct (nth_error_some_lt (fd_values r) (Z.to_nat (fd_map_to_int r y))) as [v Hv].
  { rewrite fd_values_length. lia. }
  exists v. split; [exact Hv|]. eapply nth_error_mem_val. exact Hv.
Qed.

Lemma nn_cast_int_total cats ci x : cats <> [] -> length ci = length cats ->
  exists v, nn_cast_int cats ci x = Some v /\ mem_val v cats = true.
Proof.
  intros Hne Hlen. unfold nn_cast_int.
  assert (exists v, (if Nat.ltb 1 (length cats) then nth_error cats (argmin (map (fun c => Qabs (c - x)) ci))
                     else nth_error cats 0) = Some v) as [v Hv].
  { destruct (Nat.ltb 1 (length cats)).
    - apply nth_error_some_lt. rewrite <- Hlen. rewrite <- (map_length (fun c => Qabs (c - x)) ci).
      apply argmin_lt. destruct ci; [destruct cats; simpl in *; congruence|]. simpl. congruence.
    - apply nth_error_some_lt. destruct cats; [congruence|]. simpl. lia. }
  exists v. split; [exact Hv|]. destruct (Nat.ltb 1 (length cats)); eapply nth_error_mem_val; exact Hv.
Qed.

Lemma cast_member sl d x :
  dom_wf d -> dom_member sl d x = true -> exists y, dom_cast sl d x = Some y /\ dom_member sl d y = true.
Proof.
  intros Hwf Hm.
  destruct d as [lo hi s|lo hi s|c s|c s|c ls|lo hi size ls ci]; simpl in *.
  - destruct x; try discriminate. eexists. split; [reflexivity|]. simpl. exact Hm.
  - destruct x; try discriminate. eexists. split; [reflexivity|]. simpl. rewrite round_he_inject. exact Hm.
  - exists x. unfold cat_cast. assert (mem_val x c = true) as E by (destruct x; exact Hm). rewrite E. split; reflexivity.
  - exists x. unfold cat_cast. assert (mem_val x c = true) as E by (destruct x; exact Hm). rewrite E. split; reflexivity.
  - unfold nn_cast. destruct (nn_cast_int_total c (nn_cats_int (if ls then sl else Domain.linear) c)
                                (to_int (if ls then sl else Domain.linear) (val_num x)) Hwf) as (v & Hv & Hmem).
    { unfold nn_cats_int. apply map_length. }
    exists v. split; [exact Hv|]. destruct v; exact Hmem.
  - destruct Hwf as [_ Hs]. destruct (fd_cast_member (fd_frange sl lo hi size ls ci) (val_num x) Hs) as (v & Hv & Hmem).
    exists v. split; [exact Hv|]. destruct v; exact Hmem.
Qed.

(* ================= one-hot ================= *)
Lemma onehot_length : forall n i, length (onehot i n) = n.
Proof.
  induction n as [|n IH]; intros i; simpl; [reflexivity|].
  destruct i; simpl; [rewrite repeat_length | rewrite IH]; reflexivity.
Qed.
Definition unit_itv (t : Q) : Prop := 0 <= t <= 1.
Lemma onehot_unit : forall n i, Forall unit_itv (onehot i n).
Proof.
  induction n as [|n IH]; intros i; simpl; [constructor|].
  destruct i; constructor; try (unfold unit_itv; lra); [|apply IH].
  clear. induction n; simpl; constructor; [unfold unit_itv; lra | assumption].
Qed.
Lemma argmax_from_zeros : forall n best bi cur, 0 <= best -> argmax_from best bi cur (repeat 0 n) = bi.
Proof.
  induction n as [|n IH]; intros; simpl; [reflexivity|].
  assert (Qltb best 0 = false) as -> by (apply Qltb_false; assumption). apply IH. assumption.
Qed.
Lemma argmax_from_onehot : forall n i best bi cur, (i < n)%nat -> 0 <= best < 1 ->
  argmax_from best bi cur (onehot i n) = (cur + i)%nat.
Proof.
  induction n as [|n IH]; intros i best bi cur Hi Hb; [lia|].
  destruct i; simpl.
  - assert (Qltb best 1 = true) as -> by (apply Qltb_lt; lra). rewrite argmax_from_zeros; [lia | lra].
  - assert (Qltb best 0 = false) as -> by (apply Qltb_false; lra). rewrite IH; [lia | lia | exact Hb].
Qed.
Lemma argmax_onehot n i : (i < n)%nat -> argmax (onehot i n) = i.
Proof.
  intro Hi. destruct n; [lia|]. destruct i; simpl.
  - apply argmax_from_zeros. lra.
  - rewrite argmax_from_onehot; [lia | lia | lra].
Qed.

Lemma index_of_spec l : forall x i, index_of x l = Some i ->
  (i < length l)%nat /\ exists y, nth_error l i = Some y /\ val_eqb x y = true.
Proof.
  induction l as [|y l IH]; intros x i H; simpl in H; [discriminate|].
  destruct (val_eqb x y) eqn:E.
  - injection H as <-. simpl. split; [lia|]. exists y. auto.
  - destruct (index_of x l) as [j|] eqn:Ej; [|discriminate]. injection H as <-.
    destruct (IH x j Ej) as (Hj & z & Hz & Ez). simpl. split; [lia|]. exists z. auto.
Qed.
Lemma mem_val_index_of l : forall x, mem_val x l = true -> exists i, index_of x l = Some i.
Proof.
  induction l as [|y l IH]; intros x H; simpl in *; [discriminate|].
  destruct (val_eqb x y); [eexists; reflexivity|]. simpl in H. destruct (IH x H) as [i ->]. eexists. reflexivity.
Qed.

Lemma first_tie_spec act best : forall choices v c,
  first_tie act best choices v = Some c -> mem_val c act = true /\ mem_val c choices = true.
Proof.
  induction choices as [|c0 cs IH]; intros [|x xs] c H; simpl in H; try discriminate.
  destruct (mem_val c0 act && Qeqb x best) eqn:E.
  - injection H as <-. apply andb_true_iff in E. destruct E as [E _]. split; [exact E|].
    simpl. rewrite val_eqb_refl. reflexivity.
  - destruct (IH xs c H) as [H1 H2]. split; [exact H1|]. simpl. rewrite H2. apply orb_true_r.
Qed.
Lemma first_tie_exists act best : forall choices v k c,
  nth_error choices k = Some c -> mem_val c act = true -> (k < length v)%nat -> nth k v 0 == best ->
  exists c', first_tie act best choices v = Some c'.
Proof.
  induction choices as [|a cs IH]; intros v k c Hn Hm Hk He; destruct k; simpl in Hn; try discriminate.
  - injection Hn as ->. destruct v as [|x xs]; [simpl in Hk; lia|]. simpl in *. rewrite Hm.
    assert (Qeqb x best = true) as -> by (apply Qeqb_eq; exact He). simpl. eauto.
  - destruct v as [|x xs]; [simpl in Hk; lia|]. simpl.
    destruct (mem_val a act && Qeqb x best); [eauto|]. eapply IH; eauto. simpl in Hk. lia.
Qed.
Lemma first_tie_zeros act : forall n choices, first_tie act 1 choices (repeat 0 n) = None.
Proof.
  induction n as [|n IH]; intros [|c cs]; simpl; auto.
  assert (Qeqb 0 1 = false) as -> by reflexivity. rewrite andb_false_r. apply IH.
Qed.
Lemma first_tie_onehot act : forall n i choices,
  (forall y, nth_error choices i = Some y -> mem_val y act = false) ->
  first_tie act 1 choices (onehot i n) = None.
Proof.
  induction n as [|n IH]; intros i [|c cs] H; simpl; auto.
  destruct i; simpl.
  - rewrite (H c eq_refl). simpl. apply first_tie_zeros.
  - assert (Qeqb 0 1 = false) as -> by reflexivity. rewrite andb_false_r. apply IH.
    intros y Hy. apply (H y). exact Hy.
Qed.
Lemma nth_onehot : forall n i, (i < n)%nat -> nth i (onehot i n) 0 = 1.
Proof.
  induction n as [|n IH]; intros i Hi; [lia|]. destruct i; simpl; [reflexivity|]. apply IH. lia.
Qed.

(* round trip, with or without active choices (encodings of inactive members decode as before) *)
Lemma onehot_roundtrip choices active x : mem_val x choices = true ->
  exists e y, onehot_to_nd choices x = Some e /\ length e = length choices /\ Forall unit_itv e /\
              onehot_from_nd choices active e = Some y /\ val_eqb x y = true.
Proof.
  intro Hm. destruct (mem_val_index_of _ _ Hm) as [i Hi].
  destruct (index_of_spec _ _ _ Hi) as (Hlt & y & Hy & Exy).
  exists (onehot i (length choices)), y. unfold onehot_to_nd, onehot_from_nd. rewrite Hi. simpl.
  rewrite onehot_length, Nat.eqb_refl, argmax_onehot by exact Hlt. rewrite Hy.
  split; [reflexivity|]. split; [reflexivity|]. split; [apply onehot_unit|]. split; [|exact Exy].
  destruct active as [act|]; [|reflexivity].
  destruct (mem_val y act) eqn:Ea; [reflexivity|].
  rewrite nth_onehot by exact Hlt. rewrite first_tie_onehot; [reflexivity|].
  intros y' Hy'. rewrite Hy in Hy'. injection Hy' as <-. exact Ea.
Qed.
Lemma onehot_from_nd_mem choices active v y :
  onehot_from_nd choices active v = Some y -> mem_val y choices = true.
Proof.
  unfold onehot_from_nd. destruct (Nat.eqb (length v) (length choices)); [|discriminate].
  destruct (nth_error choices (argmax v)) as [c|] eqn:E; [|destruct active; discriminate].
  pose proof (nth_error_mem_val _ _ _ E) as Hc.
  destruct active as [act|]; [|intro H; injection H as <-; exact Hc].
  destruct (mem_val c act); [intro H; injection H as <-; exact Hc|].
  destruct (first_tie act (nth (argmax v) v 0) choices v) as [c'|] eqn:T; intro H; injection H as <-.
  - apply first_tie_spec in T. tauto.
  - exact Hc.
Qed.
Lemma onehot_decode choices active v : choices <> [] -> length v = length choices ->
  exists y, onehot_from_nd choices active v = Some y /\ mem_val y choices = true.
Proof.
  intros Hne Hlen.
  destruct (nth_error_some_lt choices (argmax v)) as [c Hc].
  { rewrite <- Hlen. apply argmax_lt. destruct v; [destruct choices; simpl in *; congruence | congruence]. }
  assert (exists y, onehot_from_nd choices active v = Some y) as [y Hy].
  { unfold onehot_from_nd. rewrite Hlen, Nat.eqb_refl, Hc. destruct active as [act|]; [|eauto].
    destruct (mem_val c act); [eauto|]. destruct (first_tie act (nth (argmax v) v 0) choices v); eauto. }
  exists y. split; [exact Hy | eapply onehot_from_nd_mem; exact Hy].
Qed.

(* ---- np.argmax returns a position of the maximum ---- *)
Lemma skipn_cons_nth {A} (d : A) : forall cur (L : list A) x l,
  skipn cur L = x :: l -> nth cur L d = x /\ skipn (S cur) L = l.
Proof.
  induction cur as [|cur IH]; intros L x l H; destruct L as [|a L]; simpl in *; try discriminate.
  - injection H as -> ->. auto.
  - apply IH. exact H.
Qed.
Lemma skipn_nil_len {A} : forall cur (L : list A), skipn cur L = [] -> (length L <= cur)%nat.
Proof.
  induction cur as [|cur IH]; intros [|a L] H; simpl in *; try discriminate; try lia.
  apply IH in H. lia.
Qed.
Lemma argmax_from_spec : forall l L best bi cur,
  skipn cur L = l -> nth bi L 0 == best -> (forall j, (j < cur)%nat -> nth j L 0 <= best) ->
  forall j, (j < length L)%nat -> nth j L 0 <= nth (argmax_from best bi cur l) L 0.
Proof.
  induction l as [|x l IH]; intros L best bi cur Hs Hb Hall j Hj; simpl.
  - apply skipn_nil_len in Hs. rewrite Hb. apply Hall. lia.
  - destruct (skipn_cons_nth 0 cur L x l Hs) as [Hx Hs'].
    destruct (Qltb best x) eqn:E.
    + apply Qltb_lt in E. apply (IH L x cur (S cur)); auto.
      * rewrite Hx. reflexivity.
      * intros j' Hj'. destruct (Nat.eq_dec j' cur) as [->|Hne]; [rewrite Hx; lra|].
        assert (j' < cur)%nat as Hlt by lia. specialize (Hall j' Hlt). lra.
    + apply Qltb_false in E. apply (IH L best bi (S cur)); auto.
      intros j' Hj'. destruct (Nat.eq_dec j' cur) as [->|Hne]; [rewrite Hx; exact E | apply Hall; lia].
Qed.
Lemma argmax_max v j : (j < length v)%nat -> nth j v 0 <= nth (argmax v) v 0.
Proof.
  destruct v as [|x r]; [simpl; lia|]. intro Hj. unfold argmax.
  apply (argmax_from_spec r (x :: r) x 0%nat 1%nat); auto.
  - simpl. reflexivity.
  - intros j' Hj'. assert (j' = 0)%nat as -> by lia. simpl. lra.
Qed.

(* ---- active sub-range of a one-hot block ---- *)
Lemma count_in_pos act : forall choices, (0 < count_in act choices)%nat ->
  exists k c, nth_error choices k = Some c /\ mem_val c act = true.
Proof.
  unfold count_in. induction choices as [|a cs IH]; simpl; intro H; [lia|].
  destruct (mem_val a act) eqn:E.
  - exists 0%nat, a. auto.
  - destruct (IH H) as (k & c & H1 & H2). exists (S k), c. auto.
Qed.
Lemma in_bounds_pointwise (f : val -> Q * Q) : forall choices v,
  in_bounds (map f choices) v = true ->
  forall k c, nth_error choices k = Some c ->
    (k < length v)%nat /\ fst (f c) <= nth k v 0 <= snd (f c).
Proof.
  unfold in_bounds. induction choices as [|a cs IH]; intros v H k c Hk; [destruct k; discriminate|].
  apply andb_true_iff in H. destruct H as [Hl Hf]. apply Nat.eqb_eq in Hl.
  destruct v as [|x xs]; [simpl in Hl; lia|]. simpl in Hl, Hf.
  apply andb_true_iff in Hf. destruct Hf as [Hp Hf].
  destruct k; simpl in Hk.
  - injection Hk as ->. simpl. split; [lia|]. apply andb_leb_Q. exact Hp.
  - destruct (IH xs) with (k := k) (c := c) as [H1 H2]; auto.
    { apply andb_true_iff. split; [apply Nat.eqb_eq; rewrite map_length in *; lia | exact Hf]. }
    simpl. split; [lia | exact H2].
Qed.

(* every vector inside get_ndarray_bounds decodes to an ACTIVE category *)
Lemma onehot_active choices act b v y :
  onehot_bounds choices (Some act) = Some b -> in_bounds b v = true ->
  onehot_from_nd choices (Some act) v = Some y -> mem_val y act = true.
Proof.
  unfold onehot_bounds. intros Hb Hin Hy.
  destruct (Nat.ltb 0 (length act) && Nat.eqb (count_in act choices) (length act)) eqn:Hc; [|discriminate].
  injection Hb as <-. apply andb_true_iff in Hc. destruct Hc as [Hpos Hcnt].
  apply Nat.ltb_lt in Hpos. apply Nat.eqb_eq in Hcnt.
  set (nz := if Nat.ltb 1 (length act) then (0, 1) else (1, 1)) in *.
  set (f := fun c : val => if mem_val c act then nz else (0, 0)) in *.
  pose proof (in_bounds_pointwise f choices v Hin) as Hpt.
  assert (0 <= fst nz) as Hnz by (unfold nz; destruct (Nat.ltb 1 (length act)); simpl; lra).
  unfold onehot_from_nd in Hy.
  destruct (Nat.eqb (length v) (length choices)) eqn:Hlen; [|discriminate]. apply Nat.eqb_eq in Hlen.
  destruct (nth_error choices (argmax v)) as [c|] eqn:Ec; [|discriminate].
  destruct (mem_val c act) eqn:Ea; [injection Hy as <-; exact Ea|].
  destruct (first_tie act (nth (argmax v) v 0) choices v) as [c'|] eqn:T.
  - injection Hy as <-. apply first_tie_spec in T. tauto.
  - exfalso.
    destruct (count_in_pos act choices ltac:(lia)) as (k & ck & Hk & Hka).
    destruct (Hpt _ _ Ec) as [_ [_ Hi]]. unfold f in Hi. rewrite Ea in Hi. simpl in Hi.
    destruct (Hpt _ _ Hk) as [Hkl [Hk0 _]]. unfold f in Hk0. rewrite Hka in Hk0.
    pose proof (argmax_max v k Hkl) as Hmax.
    destruct (first_tie_exists act (nth (argmax v) v 0) choices v k ck Hk Hka Hkl) as [c' Hc']; [lra|].
    congruence.
Qed.

(* ================= index ranges (binary categorical, ordinal equal) ================= *)
Lemma idx_roundtrip eps choices r x :
  0 < eps < 1#2 -> i_sc r = Domain.linear -> i_lo r = 0%Z -> i_hi r = (Z.of_nat (length choices) - 1)%Z ->
  mem_val x choices = true ->
  exists e y, idx_to_nd eps choices r x = Some e /\ 0 <= e <= 1 /\
              idx_from_nd eps choices r e = Some y /\ val_eqb x y = true.
Proof.
  intros He Hsc Hlo Hhi Hm. destruct (mem_val_index_of _ _ Hm) as [i Hi].
  destruct (index_of_spec _ _ _ Hi) as (Hlt & y & Hy & Exy).
  destruct (int_roundtrip eps r (Z.of_nat i)) as (e & E1 & E2 & E3); auto.
  - rewrite Hsc. apply linear_good.
  - lia.
  - exists e, y. unfold idx_to_nd, idx_from_nd. rewrite Hi, E1, E3, Nat2Z.id. auto.
Qed.
Lemma idx_decode eps choices r v :
  0 <= eps -> 0 <= v <= 1 -> choices <> [] -> i_lo r = 0%Z -> i_hi r = (Z.of_nat (length choices) - 1)%Z ->
  exists y, idx_from_nd eps choices r v = Some y /\ mem_val y choices = true.
Proof.
  intros He Hv Hne Hlo Hhi. unfold idx_from_nd.
  destruct (int_decode_total eps r v He Hv) as [z Hz]. rewrite Hz.
  assert (i_lo r <= i_hi r)%Z as Hle. { destruct choices; [congruence|]. simpl length in Hhi. lia. }
  pose proof (int_decode_member eps r v z Hle Hz) as Hb.
  destruct (nth_error_some_lt choices (Z.to_nat z)) as [y Hy]; [lia|].
  exists y. split; [exact Hy|]. eapply nth_error_mem_val. exact Hy.
Qed.
Lemma idx_active eps choices r a b v y :
  0 < eps < 1#2 -> i_sc r = Domain.linear -> irange_ok eps r = true ->
  int_bounds eps r = Some (a, b) -> a <= v <= b -> idx_from_nd eps choices r v = Some y ->
  exists z, (i_alo r <= z <= i_ahi r)%Z /\ nth_error choices (Z.to_nat z) = Some y.
Proof.
  intros He Hsc Hok Hb Hv Hy. unfold idx_from_nd in Hy.
  destruct (int_from_nd eps r v) as [z|] eqn:Ez; [|discriminate].
  exists z. split; [|exact Hy]. eapply int_active; eauto.
Qed.

(* ================= finite range ================= *)
Lemma nth_error_map_seq {A} (f : nat -> A) : forall n s k, (k < n)%nat -> nth_error (map f (seq s n)) k = Some (f (s + k)%nat).
Proof.
  induction n as [|n IH]; intros s k Hk; [lia|]. destruct k; simpl.
  - rewrite Nat.add_0_r. reflexivity.
  - rewrite IH by lia. f_equal. f_equal. lia.
Qed.
Lemma fd_values_nth r z : (0 <= z < f_size r)%Z -> nth_error (fd_values r) (Z.to_nat z) = Some (fr_map_from_int r z).
Proof.
  intro Hz. unfold fd_values. rewrite nth_error_map_seq by lia. simpl. rewrite Z2Nat.id by lia. reflexivity.
Qed.
Lemma fr_decode_member eps r v x : (1 <= f_size r)%Z -> fr_from_nd eps r v = Some x -> mem_val x (fd_values r) = true.
Proof.
  intros Hs H. unfold fr_from_nd in H.
  destruct (int_from_nd eps (f_rint r) v) as [z|] eqn:Ez; [|discriminate]. injection H as <-.
  apply int_decode_member in Ez; [|simpl; lia]. simpl in Ez.
  eapply nth_error_mem_val. apply fd_values_nth. lia.
Qed.
Lemma fr_decode_total eps r v : 0 <= eps -> 0 <= v <= 1 -> exists x, fr_from_nd eps r v = Some x.
Proof.
  intros He Hv. unfold fr_from_nd. destruct (int_decode_total eps (f_rint r) v He Hv) as [z ->]. eexists. reflexivity.
Qed.

(* round trip, linear scaling, float values: every listed value values[i] *)
Lemma f_step_in r i : f_sc r = Domain.linear -> f_lo r <= f_hi r -> (0 <= i < f_size r)%Z ->
  f_lo r <= inject_Z i * f_step r + f_lo r <= f_hi r.
Proof.
  intros Hsc Hlh Hi. unfold f_step, f_lo_i, f_hi_i. rewrite Hsc. cbn [to_int Domain.linear].
  set (lo := f_lo r) in *. set (hi := f_hi r) in *. set (n := f_size r) in *.
  destruct (Z.ltb 1 n) eqn:En.
  - apply Z.ltb_lt in En.
    assert (0 < inject_Z (n - 1)) as Hn1.
    { change 0 with (inject_Z 0). rewrite <- Zlt_Qlt. lia. }
    set (step := (hi - lo) / inject_Z (n - 1)).
    assert (0 <= step) as Hst. { unfold step. apply Qle_shift_div_l; lra. }
    assert (step * inject_Z (n - 1) == hi - lo) as Est. { unfold step. field. lra. }
    assert (0 <= inject_Z i) as Hi0. { change 0 with (inject_Z 0). rewrite <- Zle_Qle. lia. }
    assert (inject_Z i <= inject_Z (n - 1)) as Hi1. { rewrite <- Zle_Qle. lia. }
    pose proof (Qmult_le_compat_r _ _ step Hi1 Hst).
    pose proof (Qmult_le_0_compat _ _ Hi0 Hst). lra.
  - assert (inject_Z i * 0 + lo == lo) as E by ring. lra.
Qed.

Lemma fr_roundtrip_linear eps r i :
  0 < eps < 1#2 -> f_sc r = Domain.linear -> f_cast_int r = false -> f_lo r <= f_hi r -> (0 <= i < f_size r)%Z ->
  exists e y, fr_to_nd eps r (fr_map_from_int r i) = Some e /\ 0 <= e <= 1 /\
              fr_from_nd eps r e = Some y /\ val_eqb (fr_map_from_int r i) y = true.
Proof.
  intros He Hsc Hci Hlh Hi.
  pose proof (f_step_in r i Hsc Hlh Hi) as Hin.
  pose proof (f_step_in r 0%Z Hsc Hlh ltac:(lia)) as Hin0.
  assert (sc_good (i_sc (f_rint r)) (c_lo (i_cont eps (f_rint r))) (c_hi (i_cont eps (f_rint r)))) as Hg
    by (apply linear_good).
  unfold fr_to_nd, fr_from_nd, fr_map_to_int, castint_lookup, fr_map_to_int_pre, fr_map_from_int, fr_map_from_int_pre, f_lo_i, f_hi_i.
  rewrite Hsc, Hci. cbn [to_int from_int sc_dom Domain.linear val_num].
  set (step := f_step r) in *. set (lo := f_lo r) in *. set (hi := f_hi r) in *.
  rewrite !(Qclip_id _ lo hi Hin).
  destruct (Qeqb step 0) eqn:E0.
  - apply Qeqb_eq in E0.
    destruct (int_roundtrip eps (f_rint r) 0%Z He Hg) as (e & E1 & E2 & E3); [simpl; lia|].
    exists e. rewrite E1, E3. eexists. split; [reflexivity|]. split; [exact E2|]. split; [reflexivity|].
    cbn [val_eqb]. apply Qeqb_eq. rewrite (Qclip_id _ lo hi Hin0). rewrite E0. ring.
  - apply Qeqb_neq in E0.
    assert (round_he ((inject_Z i * step + lo - lo) / step) = i) as ->.
    { apply round_he_eq_inject. field. exact E0. }
    destruct (int_roundtrip eps (f_rint r) i He Hg) as (e & E1 & E2 & E3); [simpl; lia|].
    exists e. rewrite E1, E3. eexists. split; [reflexivity|]. split; [exact E2|]. split; [reflexivity|].
    cbn [val_eqb]. apply Qeqb_eq. rewrite (Qclip_id _ lo hi Hin). reflexivity.
Qed.



(* ================= nearest-neighbour ordinal: round trip ================= *)
(* is_increasing(categories), on the internal (possibly log) values *)
Fixpoint increasing (l : list Q) : Prop :=
  match l with
  | a :: ((b :: _) as r) => a < b /\ increasing r
  | _ => True
  end.
Lemma increasing_head : forall r a, increasing (a :: r) -> forall j, (j < length r)%nat -> a < nth j r 0.
Proof.
  induction r as [|b r IH]; intros a H j Hj; [simpl in Hj; lia|].
  destruct H as [Hab Hr]. destruct j; simpl; [exact Hab|].
  apply Qlt_trans with b; [exact Hab|]. apply IH; [exact Hr | simpl in Hj; lia].
Qed.
Lemma increasing_tail a r : increasing (a :: r) -> increasing r.
Proof. destruct r; [intros; exact I | intros [_ H]; exact H]. Qed.
Lemma increasing_lt : forall l i j, increasing l -> (i < j < length l)%nat -> nth i l 0 < nth j l 0.
Proof.
  induction l as [|a r IH]; intros i j H Hij; [simpl in Hij; lia|].
  destruct j; [lia|]. destruct i; simpl.
  - apply increasing_head; [exact H | simpl in Hij; lia].
  - apply IH; [eapply increasing_tail; exact H | simpl in Hij; lia].
Qed.
Lemma increasing_le_last : forall l i, increasing l -> (i < length l)%nat -> nth i l 0 <= last l 0.
Proof.
  induction l as [|a r IH]; intros i H Hi; [simpl in Hi; lia|].
  destruct r as [|b r'].
  - destruct i; [simpl; lra | simpl in Hi; lia].
  - change (last (a :: b :: r') 0) with (last (b :: r') 0).
    destruct i.
    + simpl nth. destruct H as [Hab Hr]. pose proof (IH 0%nat Hr ltac:(simpl; lia)) as H0. simpl nth in H0. lra.
    + change (nth (S i) (a :: b :: r') 0) with (nth i (b :: r') 0).
      apply IH; [eapply increasing_tail; exact H | simpl in *; lia].
Qed.
Lemma increasing_hd_le l i : increasing l -> (i < length l)%nat -> hd 0 l <= nth i l 0.
Proof.
  intros H Hi. destruct l as [|a r]; [simpl in Hi; lia|]. destruct i; simpl; [lra|].
  apply Qlt_le_weak. apply increasing_head; [exact H | simpl in Hi; lia].
Qed.
Lemma diffs_pos : forall l, increasing l -> Forall (fun d => 0 < d) (diffs l).
Proof.
  induction l as [|a r IH]; intro H; [constructor|].
  destruct r as [|b r']; [constructor|]. destruct H as [Hab Hr].
  change (diffs (a :: b :: r')) with ((b - a) :: diffs (b :: r')). constructor; [lra | apply IH; exact Hr].
Qed.
Lemma Qsum_nonneg l : Forall (fun d => 0 < d) l -> 0 <= Qsum l.
Proof. induction 1; simpl; [lra|]. unfold Qsum in *. simpl. lra. Qed.
Lemma nn_avg_dist_nonneg ci : increasing ci -> 0 <= nn_avg_dist ci.
Proof.
  intro H. unfold nn_avg_dist, Qmean, Qdiv.
  pose proof (Qsum_nonneg _ (diffs_pos ci H)) as Hs.
  assert (0 <= / inject_Z (Z.of_nat (length (diffs ci)))) as Hi.
  { apply Qinv_le_0_compat. change 0 with (inject_Z 0). rewrite <- Zle_Qle. lia. }
  pose proof (Qmult_le_0_compat _ _ Hs Hi). lra.
Qed.

(* np.argmin on distances with a unique zero *)
Lemma argmin_from_keep : forall l best bi cur,
  (forall j, (j < length l)%nat -> best <= nth j l 0) -> argmin_from best bi cur l = bi.
Proof.
  induction l as [|x l IH]; intros best bi cur H; simpl; [reflexivity|].
  assert (Qltb x best = false) as ->. { apply Qltb_false. apply (H 0%nat). simpl. lia. }
  apply IH. intros j Hj. apply (H (S j)). simpl. lia.
Qed.
Lemma argmin_from_zero : forall l best bi cur i,
  (i < length l)%nat -> nth i l 0 == 0 -> (forall j, (j < i)%nat -> 0 < nth j l 0) ->
  (forall j, (j < length l)%nat -> 0 <= nth j l 0) -> 0 < best ->
  argmin_from best bi cur l = (cur + i)%nat.
Proof.
  induction l as [|x l IH]; intros best bi cur i Hi Hz Hpos Hnn Hb; [simpl in Hi; lia|].
  destruct i; simpl.
  - simpl in Hz. assert (Qltb x best = true) as -> by (apply Qltb_lt; lra).
    rewrite argmin_from_keep; [lia|]. intros j Hj. pose proof (Hnn (S j) ltac:(simpl; lia)) as H. simpl in H. lra.
  - pose proof (Hpos 0%nat ltac:(lia)) as Hx. simpl in Hx.
    assert (forall j, (j < i)%nat -> 0 < nth j l 0) as Hpos' by (intros j Hj; apply (Hpos (S j)); lia).
    assert (forall j, (j < length l)%nat -> 0 <= nth j l 0) as Hnn' by (intros j Hj; apply (Hnn (S j)); simpl; lia).
    simpl in Hi, Hz.
    destruct (Qltb x best) eqn:Eb.
    + rewrite (IH x cur (S cur) i); auto; lia.
    + rewrite (IH best bi (S cur) i); auto; lia.
Qed.
Lemma argmin_zero l i :
  (i < length l)%nat -> nth i l 0 == 0 -> (forall j, (j < i)%nat -> 0 < nth j l 0) ->
  (forall j, (j < length l)%nat -> 0 <= nth j l 0) -> argmin l = i.
Proof.
  intros Hi Hz Hpos Hnn. destruct l as [|x r]; [simpl in Hi; lia|]. unfold argmin.
  destruct i.
  - simpl in Hz. apply argmin_from_keep. intros j Hj. pose proof (Hnn (S j) ltac:(simpl; lia)) as H. simpl in H. lra.
  - pose proof (Hpos 0%nat ltac:(lia)) as Hx. simpl in Hx.
    rewrite (argmin_from_zero r x 0%nat 1%nat i); auto; try lia.
    + simpl in Hi. lia.
    + intros j Hj. apply (Hpos (S j)). lia.
    + intros j Hj. apply (Hnn (S j)). simpl. lia.
Qed.

Lemma nth_map_dist (ci : list Q) (y : Q) j : (j < length ci)%nat ->
  nth j (map (fun c => Qabs (c - y)) ci) 0 = Qabs (nth j ci 0 - y).
Proof.
  intro Hj. rewrite (nth_indep _ 0 (Qabs (0 - y))) by (rewrite map_length; exact Hj).
  apply (map_nth (fun c => Qabs (c - y))).
Qed.

Lemma nn_cast_int_exact cats ci y i x :
  length ci = length cats -> increasing ci -> nth_error cats i = Some x -> y == nth i ci 0 ->
  nn_cast_int cats ci y = Some x.
Proof.
  intros Hlen Hinc Hx Hy. unfold nn_cast_int.
  assert (i < length cats)%nat as Hi by (apply nth_error_Some; congruence).
  destruct (Nat.ltb 1 (length cats)) eqn:E.
  - rewrite (argmin_zero _ i); [exact Hx | | | |].
    + rewrite map_length. lia.
    + rewrite nth_map_dist by lia. rewrite Hy. setoid_replace (nth i ci 0 - nth i ci 0) with 0 by ring. reflexivity.
    + intros j Hj. rewrite nth_map_dist by lia.
      pose proof (increasing_lt ci j i Hinc ltac:(lia)) as Hlt.
      apply Qabs_case; intros; lra.
    + intros j Hj. rewrite map_length in Hj. rewrite nth_map_dist by lia. apply Qabs_nonneg.
  - apply Nat.ltb_ge in E. assert (i = 0)%nat as -> by lia. exact Hx.
Qed.

Lemma nth_cats_int sc cats i x : nth_error cats i = Some x ->
  nth i (nn_cats_int sc cats) 0 = to_int sc (val_num x).
Proof.
  intro H. unfold nn_cats_int.
  assert (i < length cats)%nat as Hi by (apply nth_error_Some; congruence).
  rewrite (nth_indep _ 0 (to_int sc (val_num (VI 0)))) by (rewrite map_length; exact Hi).
  rewrite (map_nth (fun c => to_int sc (val_num c))). f_equal. f_equal.
  apply nth_error_nth with (d := VI 0) in H. exact H.
Qed.

(* every category cats[i] encodes into [0,1] and decodes back to itself.  [sc] is the transform of
   the domain (identity, or log for kind "nn-log": then [increasing] is a fact of log); the range
   is the one HyperparameterRangeOrdinalNearestNeighbor builds (linear on the internal values) *)
Lemma nn_roundtrip eps sc cats r i x :
  0 <= eps -> increasing (nn_cats_int sc cats) ->
  c_sc r = Domain.linear -> c_lo r = nn_lower_int (nn_cats_int sc cats) ->
  c_hi r = nn_upper_int (nn_cats_int sc cats) ->
  nth_error cats i = Some x ->
  exists e, nn_to_nd eps sc cats r x = Some e /\ 0 <= e <= 1 /\ nn_from_nd eps sc cats r e = Some x.
Proof.
  intros He Hinc Hsc Hlo Hhi Hx.
  set (ci := nn_cats_int sc cats) in *.
  assert (length ci = length cats) as Hlen by (unfold ci, nn_cats_int; apply map_length).
  assert (i < length cats)%nat as Hi by (apply nth_error_Some; congruence).
  pose proof (nth_cats_int sc cats i x Hx) as Hci. fold ci in Hci.
  assert (c_lo r <= to_int sc (val_num x) <= c_hi r) as Hin.
  { rewrite Hlo, Hhi, <- Hci. unfold nn_lower_int, nn_upper_int.
    pose proof (nn_avg_dist_nonneg ci Hinc). pose proof (increasing_hd_le ci i Hinc ltac:(lia)).
    pose proof (increasing_le_last ci i Hinc ltac:(lia)). lra. }
  destruct (cont_roundtrip eps r (to_int sc (val_num x)) He) as (e & y & E1 & E2 & E3 & E4); auto.
  { rewrite Hsc. apply linear_good. }
  exists e. unfold nn_to_nd, nn_from_nd. rewrite (nth_error_mem_val _ _ _ Hx), E1, E3.
  split; [reflexivity|]. split; [exact E2|]. fold ci.
  apply (nn_cast_int_exact cats ci y i x Hlen Hinc Hx). rewrite Hci. exact E4.
Qed.



(* ================= finite range with cast_int: round trip =================
   [castint_core] below: for LINEAR scaling the rounding path alone already returns to the same
   value (a fact about round-half-even on a grid; since the fix of F-C07-15 the code looks a listed
   value up directly, so the theorems no longer go through it) *)
Lemma Qfloor_unique q z : inject_Z z <= q -> q < inject_Z z + 1 -> Qfloor q = z.
Proof.
  intros H1 H2. pose proof (Qfloor_le q) as F1. pose proof (Qlt_floor q) as F2.
  rewrite inject_Z_plus1 in F2.
  assert (inject_Z (Qfloor q) < inject_Z (z + 1)) as A by (rewrite inject_Z_plus1; lra).
  assert (inject_Z z < inject_Z (Qfloor q + 1)) as B by (rewrite inject_Z_plus1; lra).
  rewrite <- Zlt_Qlt in A, B. lia.
Qed.
(* a half-integer goes to the even neighbour *)
Lemma round_he_tie z : round_he (inject_Z z + (1#2)) = if Z.even z then z else (z + 1)%Z.
Proof.
  unfold round_he. rewrite (Qfloor_unique (inject_Z z + (1#2)) z) by lra.
  destruct (Qcompare_spec (inject_Z z + (1 # 2) - inject_Z z) (1 # 2)) as [E|E|E]; try (exfalso; lra).
  reflexivity.
Qed.
Lemma round_he_tie_up x : round_he (inject_Z x + (1#2)) = x <-> Z.even x = true.
Proof. rewrite round_he_tie. destruct (Z.even x); split; intro; try lia; try discriminate; reflexivity. Qed.
Lemma round_he_tie_down x : round_he (inject_Z x - (1#2)) = x <-> Z.even x = true.
Proof.
  assert (inject_Z x - (1#2) == inject_Z (x - 1) + (1#2)) as E by (rewrite inject_Z_minus1; ring).
  rewrite (round_he_comp _ _ E), round_he_tie.
  replace (x - 1)%Z with (Z.pred x) by lia. rewrite Z.even_pred, <- Z.negb_even.
  destruct (Z.even x); simpl; split; intro; try lia; try discriminate; reflexivity.
Qed.

Lemma Qclip_cases X lo hi : lo <= hi ->
  (X < lo /\ Qclip X lo hi = lo) \/ (hi < X /\ Qclip X lo hi = hi) \/ (lo <= X <= hi /\ Qclip X lo hi = X).
Proof.
  intro H. unfold Qclip. destruct (Qltb X lo) eqn:E1.
  - apply Qltb_lt in E1. left. split; [exact E1|]. destruct (Qltb hi lo) eqn:E2; [apply Qltb_lt in E2; lra | reflexivity].
  - apply Qltb_false in E1. destruct (Qltb hi X) eqn:E2.
    + apply Qltb_lt in E2. right. left. auto.
    + apply Qltb_false in E2. right. right. split; [lra | reflexivity].
Qed.

(* the arithmetic core: y = lo + i*s is a grid point, x = round(y) the listed value, x' its clip,
   j = round((x' - lo)/s) the index found by _map_to_int; then the grid point j rounds to x again *)
Lemma castint_core lo hi s y t (i j x : Z) :
  lo <= hi -> 0 < s -> y == inject_Z i * s + lo -> lo <= y <= hi ->
  x = round_he y -> t * s == Qclip (inject_Z x) lo hi - lo -> j = round_he t ->
  round_he (inject_Z j * s + lo) = x.
Proof.
  intros Hlh Hs Ey Hy Hx Et Hj.
  set (X := inject_Z x) in *. set (x' := Qclip X lo hi) in *.
  set (J := inject_Z j). set (I := inject_Z i) in *.
  pose proof (round_he_near y) as Ny. rewrite <- Hx in Ny. fold X in Ny.
  pose proof (round_he_near t) as Nt. rewrite <- Hj in Nt. fold J in Nt.
  destruct Nt as [Nt1 Nt2].
  assert (0 <= s) as Hs0 by lra.
  pose proof (Qmult_le_compat_r _ _ s Nt1 Hs0) as P2.   (* (t - 1/2) s <= J s *)
  pose proof (Qmult_le_compat_r _ _ s Nt2 Hs0) as P1.   (* J s <= (t + 1/2) s *)
  assert ((t - (1#2)) * s == t * s - s * (1#2)) as R2 by ring.
  assert ((t + (1#2)) * s == t * s + s * (1#2)) as R1 by ring.
  set (Js := J * s) in *. set (ts := t * s) in *.
  pose proof (Qclip_cases X lo hi Hlh) as Hc. fold x' in Hc.
  apply Z.le_antisymm.
  - (* round (y_j) <= x *)
    destruct (Z_le_gt_dec j i) as [Hji|Hji].
    + rewrite Hx. apply round_he_mono. rewrite Ey.
      assert (J <= I) as HJI by (unfold J, I; rewrite <- Zle_Qle; exact Hji).
      pose proof (Qmult_le_compat_r _ _ s HJI Hs0). fold Js in H. lra.
    + assert (I + 1 <= J) as HJI.
      { unfold J, I. rewrite <- inject_Z_plus1, <- Zle_Qle. lia. }
      pose proof (Qmult_le_compat_r _ _ s HJI Hs0) as Q. fold Js in Q.
      assert ((I + 1) * s == I * s + s) as RQ by ring.
      set (Is := I * s) in *.
      (* x' >= y + s/2 > lo, hence x' <= X *)
      assert (x' <= X) as HxX by (destruct Hc as [[? E]|[[? E]|[? E]]]; rewrite E in *; lra).
      destruct (Qlt_le_dec (Js + lo) (X + (1#2))) as [Hlt|Hge].
      * apply round_he_ub. fold J. fold Js. exact Hlt.
      * (* tie: s = 1, x' = X, y = X - 1/2, so x is even *)
        assert (y == X - (1#2)) as Ey2 by lra.
        assert (Js + lo == X + (1#2)) as Ej by lra.
        assert (Z.even x = true) as Hev.
        { apply round_he_tie_down. fold X. rewrite <- (round_he_comp _ _ Ey2). symmetry. exact Hx. }
        fold J. fold Js. rewrite (round_he_comp _ _ Ej). apply Z.eq_le_incl. apply round_he_tie_up. exact Hev.
  - (* x <= round (y_j) *)
    destruct (Z_le_gt_dec i j) as [Hij|Hij].
    + rewrite Hx. apply round_he_mono. rewrite Ey.
      assert (I <= J) as HJI by (unfold J, I; rewrite <- Zle_Qle; exact Hij).
      pose proof (Qmult_le_compat_r _ _ s HJI Hs0). fold Js in H. lra.
    + assert (J + 1 <= I) as HJI.
      { unfold J, I. rewrite <- inject_Z_plus1, <- Zle_Qle. lia. }
      pose proof (Qmult_le_compat_r _ _ s HJI Hs0) as Q. fold Js in Q.
      assert ((J + 1) * s == J * s + s) as RQ by ring. fold Js in RQ.
      set (Is := I * s) in *.
      assert (X <= x') as HxX by (destruct Hc as [[? E]|[[? E]|[? E]]]; rewrite E in *; lra).
      destruct (Qlt_le_dec (X - (1#2)) (Js + lo)) as [Hlt|Hge].
      * apply round_he_lb. fold J. fold Js. exact Hlt.
      * assert (y == X + (1#2)) as Ey2 by lra.
        assert (Js + lo == X - (1#2)) as Ej by lra.
        assert (Z.even x = true) as Hev.
        { apply round_he_tie_up. fold X. rewrite <- (round_he_comp _ _ Ey2). symmetry. exact Hx. }
        fold J. fold Js. rewrite (round_he_comp _ _ Ej). apply Z.eq_le_incl. symmetry. apply round_he_tie_down. exact Hev.
Qed.

Lemma f_step_nonneg r : f_sc r = Domain.linear -> f_lo r <= f_hi r -> 0 <= f_step r.
Proof.
  intros Hsc Hlh. unfold f_step, f_lo_i, f_hi_i. rewrite Hsc. cbn [to_int Domain.linear].
  destruct (Z.ltb 1 (f_size r)) eqn:En; [|lra]. apply Z.ltb_lt in En.
  apply Qle_shift_div_l; [change 0 with (inject_Z 0); rewrite <- Zlt_Qlt; lia | lra].
Qed.
Lemma f_step_span r : f_sc r = Domain.linear -> ~ f_step r == 0 ->
  (1 < f_size r)%Z /\ inject_Z (f_size r - 1) * f_step r == f_hi r - f_lo r.
Proof.
  intros Hsc Hne. unfold f_step, f_lo_i, f_hi_i in *. rewrite Hsc in *. cbn [to_int Domain.linear] in *.
  destruct (Z.ltb 1 (f_size r)) eqn:En; [|exfalso; apply Hne; reflexivity]. apply Z.ltb_lt in En.
  split; [exact En|]. field. intro E0.
  assert (inject_Z 0 < inject_Z (f_size r - 1)) as Hlt by (rewrite <- Zlt_Qlt; lia).
  change (inject_Z 0) with 0 in Hlt. lra.
Qed.

Lemma fr_from_castint_VI r k : f_cast_int r = true -> exists z, fr_map_from_int r k = VI z.
Proof. unfold fr_map_from_int. intros ->. eexists. reflexivity. Qed.

(* with cast_int a listed value is looked up in the list of values: ANY scaling *)
Lemma fr_roundtrip_castint_lookup eps r i :
  0 < eps < 1#2 -> f_cast_int r = true -> Qeqb (f_step r) 0 = false -> (0 <= i < f_size r)%Z ->
  exists e y, fr_to_nd eps r (fr_map_from_int r i) = Some e /\ 0 <= e <= 1 /\
              fr_from_nd eps r e = Some y /\ val_eqb (fr_map_from_int r i) y = true.
Proof.
  intros He Hci Hst Hi.
  destruct (fr_from_castint_VI r i Hci) as [z Ez].
  pose proof (fd_values_nth r i Hi) as Hn. rewrite Ez in Hn.
  destruct (index_num_exists (inject_Z z) (fd_values r) _ _ Hn) as [j Hj]; [simpl; reflexivity|].
  destruct (index_num_spec _ _ _ Hj) as (Hjl & v & Hv & Ev). rewrite fd_values_length in Hjl.
  assert (0 <= Z.of_nat j < f_size r)%Z as Hjr by lia.
  pose proof (fd_values_nth r (Z.of_nat j) Hjr) as Hn2. rewrite Nat2Z.id, Hv in Hn2. injection Hn2 as Hv2.
  destruct (fr_from_castint_VI r (Z.of_nat j) Hci) as [z' Ez'].
  assert (z' = z) as ->.
  { rewrite Hv2, Ez' in Ev. simpl in Ev. unfold Qeq in Ev. simpl in Ev. lia. }
  assert (sc_good (i_sc (f_rint r)) (c_lo (i_cont eps (f_rint r))) (c_hi (i_cont eps (f_rint r)))) as Hg
    by (apply linear_good).
  destruct (int_roundtrip eps (f_rint r) (Z.of_nat j) He Hg) as (e & E1 & E2 & E3); [simpl; lia|].
  exists e, (VI z). unfold fr_to_nd, fr_from_nd. rewrite Ez. cbn [val_num].
  unfold fr_map_to_int, castint_lookup. rewrite Hst, Hci, Hj, E1, E3. cbn [option_map]. rewrite Ez'.
  repeat split; try apply E2. simpl. apply Z.eqb_refl.
Qed.

Lemma fr_roundtrip_castint eps r i :
  0 < eps < 1#2 -> f_cast_int r = true ->
  (f_sc r = Domain.linear /\ f_lo r <= f_hi r) \/ Qeqb (f_step r) 0 = false ->
  (0 <= i < f_size r)%Z ->
  exists e y, fr_to_nd eps r (fr_map_from_int r i) = Some e /\ 0 <= e <= 1 /\
              fr_from_nd eps r e = Some y /\ val_eqb (fr_map_from_int r i) y = true.
Proof.
  intros He Hci Hor Hi.
  destruct (Qeqb (f_step r) 0) eqn:E0; [|apply fr_roundtrip_castint_lookup; assumption].
  destruct Hor as [[Hsc Hlh]|Hd]; [|discriminate]. apply Qeqb_eq in E0.
  assert (Hfrom : forall k, (0 <= k < f_size r)%Z ->
                  fr_map_from_int r k = VI (round_he (inject_Z k * f_step r + f_lo r))).
  { intros k Hk. unfold fr_map_from_int, fr_map_from_int_pre, f_lo_i. rewrite Hsc, Hci.
    cbn [from_int to_int Domain.linear].
    rewrite (Qclip_id _ _ _ (f_step_in r k Hsc Hlh Hk)). reflexivity. }
  assert (sc_good (i_sc (f_rint r)) (c_lo (i_cont eps (f_rint r))) (c_hi (i_cont eps (f_rint r)))) as Hg
    by (apply linear_good).
  destruct (int_roundtrip eps (f_rint r) 0%Z He Hg) as (e & E1 & E2 & E3); [simpl; lia|].
  exists e. unfold fr_to_nd, fr_from_nd, fr_map_to_int.
  assert (Qeqb (f_step r) 0 = true) as -> by (apply Qeqb_eq; exact E0).
  rewrite E1, E3. cbn [option_map]. rewrite (Hfrom 0%Z ltac:(lia)), (Hfrom i Hi).
  eexists. split; [reflexivity|]. split; [exact E2|]. split; [reflexivity|].
  cbn [val_eqb]. apply Z.eqb_eq. apply round_he_comp. rewrite E0. ring.
Qed.

(* FiniteRange.cast of a listed value returns that value (cast_int, any scaling) *)
Lemma fd_cast_castint_exact r i :
  f_cast_int r = true -> Qeqb (f_step r) 0 = false -> (0 <= i < f_size r)%Z ->
  exists y, fd_cast r (val_num (fr_map_from_int r i)) = Some y /\ val_eqb (fr_map_from_int r i) y = true.
Proof.
  intros Hci Hst Hi.
  destruct (fr_from_castint_VI r i Hci) as [z Ez].
  pose proof (fd_values_nth r i Hi) as Hn. rewrite Ez in Hn.
  destruct (index_num_exists (inject_Z z) (fd_values r) _ _ Hn) as [j Hj]; [simpl; reflexivity|].
  destruct (index_num_spec _ _ _ Hj) as (Hjl & v & Hv & Ev).
  exists v. unfold fd_cast, fd_map_to_int, castint_lookup. rewrite Ez. cbn [val_num].
  rewrite Hst, Hci, Hj, Nat2Z.id. split; [exact Hv|].
  rewrite fd_values_length in Hjl.
  pose proof (fd_values_nth r (Z.of_nat j) ltac:(lia)) as Hn2. rewrite Nat2Z.id, Hv in Hn2. injection Hn2 as Hv2.
  destruct (fr_from_castint_VI r (Z.of_nat j) Hci) as [z' Ez']. rewrite Hv2, Ez' in *. simpl in Ev.
  unfold Qeq in Ev. simpl in Ev. simpl. lia.
Qed.

(* ================= one range, one space ================= *)
Definition hp_wf (h : hprange) : Prop :=
  match h with
  | HCont r => c_lo r <= c_hi r
  | HInt r => (i_lo r <= i_hi r)%Z
  | HFin r => (1 <= f_size r)%Z
  | HOneHot c _ => c <> []
  | HBin c r | HOrdEq c r => c <> [] /\ i_lo r = 0%Z /\ i_hi r = (Z.of_nat (length c) - 1)%Z
  | HOrdNN _ c _ => c <> []
  end.
(* right type, inside the bounds / among the listed values *)
Definition hp_member (h : hprange) (x : val) : Prop :=
  match h with
  | HCont r => exists q, x = VF q /\ c_lo r <= q <= c_hi r
  | HInt r => exists z, x = VI z /\ (i_lo r <= z <= i_hi r)%Z
  | HFin r => mem_val x (fd_values r) = true
  | HOneHot c _ | HBin c _ | HOrdEq c _ | HOrdNN _ c _ => mem_val x c = true
  end.

Lemma hp_decode_member eps h v x : hp_wf h -> hp_from_nd eps h v = Some x -> hp_member h x.
Proof.
  intros Hwf H. destruct h as [r|r|r|c a|c r|c r|sc c r]; simpl in *.
  - destruct v as [|t [|]]; try discriminate. destruct (cont_from_nd eps r t) as [q|] eqn:E; [|discriminate].
    injection H as <-. exists q. split; [reflexivity|]. eapply cont_decode_member; eauto.
  - destruct v as [|t [|]]; try discriminate. destruct (int_from_nd eps r t) as [z|] eqn:E; [|discriminate].
    injection H as <-. exists z. split; [reflexivity|]. eapply int_decode_member; eauto.
  - destruct v as [|t [|]]; try discriminate. eapply fr_decode_member; eauto.
  - eapply onehot_from_nd_mem; eauto.
  - destruct v as [|t [|]]; try discriminate. unfold idx_from_nd in H.
    destruct (int_from_nd eps r t); [|discriminate]. eapply nth_error_mem_val; eauto.
  - destruct v as [|t [|]]; try discriminate. unfold idx_from_nd in H.
    destruct (int_from_nd eps r t); [|discriminate]. eapply nth_error_mem_val; eauto.
  - destruct v as [|t [|]]; try discriminate. unfold nn_from_nd in H.
    destruct (cont_from_nd eps r t); [|discriminate]. eapply nn_cast_int_mem; [|exact H].
    unfold nn_cats_int. apply map_length.
Qed.

Lemma hp_decode_total eps h v : 0 <= eps -> hp_wf h -> length v = hp_size h -> Forall unit_itv v ->
  exists x, hp_from_nd eps h v = Some x.
Proof.
  intros He Hwf Hlen Hu.
  destruct h as [r|r|r|c a|c r|c r|sc c r]; simpl in *;
    [ | | |destruct (onehot_decode c a v Hwf Hlen) as (y & Hy & _); exists y; exact Hy| | | ];
    (destruct v as [|t [|]]; simpl in Hlen; try lia; inversion Hu as [|? ? Ht _]; subst).
  - destruct (cont_decode_total eps r t He Ht) as [x ->]. eexists; reflexivity.
  - destruct (int_decode_total eps r t He Ht) as [x ->]. eexists; reflexivity.
  - apply fr_decode_total; assumption.
  - destruct Hwf as (Hne & Hlo & Hhi). destruct (idx_decode eps c r t He Ht Hne Hlo Hhi) as (y & Hy & _). eauto.
  - destruct Hwf as (Hne & Hlo & Hhi). destruct (idx_decode eps c r t He Ht Hne Hlo Hhi) as (y & Hy & _). eauto.
  - unfold nn_from_nd. destruct (cont_decode_total eps r t He Ht) as [x ->].
    destruct (nn_cast_int_total c (nn_cats_int sc c) x Hwf) as (y & Hy & _); [unfold nn_cats_int; apply map_length|]. eauto.
Qed.

Lemma Forall_firstn {A} (P : A -> Prop) n l : Forall P l -> Forall P (firstn n l).
Proof. revert l. induction n; intros l H; simpl; [constructor|]. destruct H; constructor; auto. Qed.
Lemma Forall_skipn {A} (P : A -> Prop) n l : Forall P l -> Forall P (skipn n l).
Proof. revert l. induction n; intros l H; simpl; [assumption|]. destruct H; [constructor | auto]. Qed.

Lemma space_decode_member_go eps hs : Forall hp_wf hs -> forall v xs,
  space_from_nd_go eps hs v = Some xs -> Forall2 hp_member hs xs.
Proof.
  induction 1 as [|h hs Hh Hhs IH]; intros v xs H; simpl in H.
  - injection H as <-. constructor.
  - destruct (hp_from_nd eps h (firstn (hp_size h) v)) as [a|] eqn:Ea; [|discriminate].
    destruct (space_from_nd_go eps hs (skipn (hp_size h) v)) as [b|] eqn:Eb; [|discriminate].
    injection H as <-. constructor; [eapply hp_decode_member; eauto | eapply IH; eauto].
Qed.
Lemma space_decode_member eps hs v xs : Forall hp_wf hs ->
  space_from_nd eps hs v = Some xs -> Forall2 hp_member hs xs.
Proof.
  intros Hwf H. unfold space_from_nd in H. destruct (Nat.eqb (length v) (space_size hs)); [|discriminate].
  eapply space_decode_member_go; eauto.
Qed.
Lemma space_decode_total eps hs : 0 <= eps -> Forall hp_wf hs -> forall v,
  length v = space_size hs -> Forall unit_itv v -> exists xs, space_from_nd eps hs v = Some xs.
Proof.
  intros He Hwf v Hlen Hu. unfold space_from_nd. rewrite Hlen, Nat.eqb_refl.
  revert v Hlen Hu. induction Hwf as [|h hs Hh Hhs IH]; intros v Hlen Hu; simpl in *.
  - eexists; reflexivity.
  - destruct (hp_decode_total eps h (firstn (hp_size h) v) He Hh) as [a ->].
    { rewrite firstn_length. lia. }
    { apply Forall_firstn. exact Hu. }
    destruct (IH (skipn (hp_size h) v)) as [b ->].
    { rewrite skipn_length. lia. }
    { apply Forall_skipn. exact Hu. }
    eexists; reflexivity.
Qed.

(* ================= round trip of one range and of a space ================= *)
Definition val_equiv (x y : val) : Prop := val_eqb x y = true.

(* side conditions of the exact round trip: continuous / integer ranges under [sc_good]; finite
   ranges with LINEAR scaling (float values or cast_int); nearest-neighbour ordinals with strictly
   increasing internal values (what OrdinalNearestNeighbor asserts) and the range
   HyperparameterRangeOrdinalNearestNeighbor builds *)
Definition hp_rt_ok (eps : Q) (h : hprange) : Prop :=
  match h with
  | HCont r => sc_good (c_sc r) (c_lo r) (c_hi r)
  | HInt r => sc_good (i_sc r) (c_lo (i_cont eps r)) (c_hi (i_cont eps r))
  | HFin r => (f_sc r = Domain.linear /\ f_lo r <= f_hi r) \/
              (f_cast_int r = true /\ Qeqb (f_step r) 0 = false)
  | HOneHot c _ => True
  | HBin c r | HOrdEq c r => i_sc r = Domain.linear /\ i_lo r = 0%Z /\ i_hi r = (Z.of_nat (length c) - 1)%Z
  | HOrdNN sc cats r =>
      increasing (nn_cats_int sc cats) /\ c_sc r = Domain.linear /\
      c_lo r = nn_lower_int (nn_cats_int sc cats) /\ c_hi r = nn_upper_int (nn_cats_int sc cats)
  end.
Definition hp_rt_member (h : hprange) (x : val) : Prop :=
  match h with
  | HFin r => exists i, (0 <= i < f_size r)%Z /\ x = fr_map_from_int r i
  | HOrdNN _ cats _ => exists i, nth_error cats i = Some x
  | _ => hp_member h x
  end.

Lemma hp_roundtrip eps h x : 0 < eps < 1#2 -> hp_rt_ok eps h -> hp_rt_member h x ->
  exists e y, hp_to_nd eps h x = Some e /\ length e = hp_size h /\ Forall unit_itv e /\
              hp_from_nd eps h e = Some y /\ val_equiv x y.
Proof.
  intros He Hok Hm. unfold val_equiv.
  destruct h as [r|r|r|c a|c r|c r|sc c r]; simpl in *.
  - destruct Hm as (q & -> & Hq).
    destruct (cont_roundtrip eps r q) as (e & y & E1 & E2 & E3 & E4); auto; try lra.
    exists [e], (VF y). simpl. rewrite E1, E3. simpl. repeat split; auto.
    apply Qeqb_eq. symmetry. exact E4.
  - destruct Hm as (z & -> & Hz).
    destruct (int_roundtrip eps r z He Hok Hz) as (e & E1 & E2 & E3).
    exists [e], (VI z). rewrite E1, E3. simpl. repeat split; auto. apply Z.eqb_refl.
  - destruct Hm as (i & Hi & ->).
    assert (exists e y, fr_to_nd eps r (fr_map_from_int r i) = Some e /\ 0 <= e <= 1 /\
              fr_from_nd eps r e = Some y /\ val_eqb (fr_map_from_int r i) y = true) as (e & y & E1 & E2 & E3 & E4).
    { destruct (f_cast_int r) eqn:Hci.
      - apply fr_roundtrip_castint; auto. destruct Hok as [H|[_ H]]; [left; exact H | right; exact H].
      - destruct Hok as [[Hsc Hlh]|[H _]]; [|discriminate]. apply fr_roundtrip_linear; auto. }
    exists [e], y. rewrite E1, E3. simpl. repeat split; auto.
  - destruct (onehot_roundtrip c a x Hm) as (e & y & E1 & E2 & E3 & E4 & E5).
    exists e, y. repeat split; auto.
  - destruct Hok as (Hsc & Hlo & Hhi).
    destruct (idx_roundtrip eps c r x He Hsc Hlo Hhi Hm) as (e & y & E1 & E2 & E3 & E4).
    exists [e], y. rewrite E1, E3. simpl. repeat split; auto.
  - destruct Hok as (Hsc & Hlo & Hhi).
    destruct (idx_roundtrip eps c r x He Hsc Hlo Hhi Hm) as (e & y & E1 & E2 & E3 & E4).
    exists [e], y. rewrite E1, E3. simpl. repeat split; auto.
  - destruct Hok as (Hinc & Hsc & Hlo & Hhi). destruct Hm as (i & Hi).
    destruct (nn_roundtrip eps sc c r i x ltac:(lra) Hinc Hsc Hlo Hhi Hi) as (e & E1 & E2 & E3).
    exists [e], x. rewrite E1, E3. simpl. repeat split; auto. apply val_eqb_refl.
Qed.

Lemma firstn_app_len {A} (a b : list A) : firstn (length a) (a ++ b) = a.
Proof. rewrite firstn_app, firstn_all, Nat.sub_diag. simpl. apply app_nil_r. Qed.
Lemma skipn_app_len {A} (a b : list A) : skipn (length a) (a ++ b) = b.
Proof. rewrite skipn_app, skipn_all, Nat.sub_diag. reflexivity. Qed.

Lemma space_roundtrip eps hs xs : 0 < eps < 1#2 ->
  Forall2 (fun h x => hp_rt_ok eps h /\ hp_rt_member h x) hs xs ->
  exists e ys, space_to_nd eps hs xs = Some e /\ length e = space_size hs /\ Forall unit_itv e /\
               space_from_nd eps hs e = Some ys /\ Forall2 val_equiv xs ys.
Proof.
  intros He H.
  assert (exists e ys, space_to_nd eps hs xs = Some e /\ length e = space_size hs /\ Forall unit_itv e /\
               space_from_nd_go eps hs e = Some ys /\ Forall2 val_equiv xs ys) as (e & ys & E1 & E2 & E3 & E4 & E5).
  { induction H as [|h x hs xs [Hok Hm] _ IH].
    - exists [], []. simpl. repeat split; constructor.
    - destruct IH as (b & ys & B1 & B2 & B3 & B4 & B5).
      destruct (hp_roundtrip eps h x He Hok Hm) as (a & y & A1 & A2 & A3 & A4 & A5).
      exists (a ++ b), (y :: ys). simpl. rewrite A1, B1.
      split; [reflexivity|]. split; [rewrite app_length; lia|].
      split; [apply Forall_app; split; assumption|].
      rewrite <- A2, firstn_app_len, skipn_app_len, A4, B4. split; [reflexivity|]. constructor; assumption. }
  exists e, ys. unfold space_from_nd. rewrite E2, Nat.eqb_refl. auto.
Qed.

(* ================= statements that were refuted before the fixes in /repo ================= *)
(* ordinal nearest-neighbour with ONE category: sample returns it, the encoder is the
   equal-distance ordinal range  [before F-C07-6: nn_sample = None and no range] *)
Lemma nn_one_category (eps : Q) (sl sr : scaling) (c : val) (ls : bool) (u : Q) :
  nn_sample (if ls then sl else Domain.linear) [c] u = Some c /\
  range_of_domain eps sl sr (DOrdinalNN [c] ls) None =
    Some (HOrdEq [c] {| i_lo := 0; i_hi := 0; i_sc := Domain.linear; i_alo := 0; i_ahi := 0 |}).
Proof. split; reflexivity. Qed.
(* finite range: the assert of to_internal cannot fail when the bounds are in the domain of the
   scaling, whatever value is encoded  [before F-C07-8: it failed for a listed value 0 of a
   logfinrange with cast_int] *)
Lemma fr_map_to_int_total r x :
  f_lo r <= f_hi r -> (forall y, f_lo r <= y <= f_hi r -> sc_dom (f_sc r) y = true) ->
  exists i, fr_map_to_int r x = Some i.
Proof.
  intros Hl Hd. unfold fr_map_to_int. destruct (Qeqb (f_step r) 0); [eauto|].
  destruct (castint_lookup r x); [eauto|]. rewrite (Hd _ (Qclip_bounds x _ _ Hl)). eauto.
Qed.

(* ================= from domain constructors to ranges (make_hyperparameter_ranges) ================= *)
Lemma crange_ok_le r : crange_ok r = true -> c_lo r <= c_hi r.
Proof.
  unfold crange_ok. intro H. repeat (apply andb_true_iff in H; destruct H as [H ?]).
  apply Qleb_true. assumption.
Qed.
Lemma ordeq_range_shape cats act r : ordeq_range cats act = Some r ->
  i_lo r = 0%Z /\ i_hi r = (Z.of_nat (length cats) - 1)%Z.
Proof.
  unfold ordeq_range. destruct act as [a|].
  - destruct (first_pos cats a); [|discriminate]. intro H. injection H as <-. simpl. auto.
  - intro H. injection H as <-. simpl. auto.
Qed.
Lemma bin_range_shape cats act r : bin_range cats act = Some r ->
  i_lo r = 0%Z /\ i_hi r = 1%Z /\ length cats = 2%nat.
Proof.
  unfold bin_range. destruct (Nat.eqb (length cats) 2) eqn:E; [|discriminate]. apply Nat.eqb_eq in E.
  destruct act as [a|].
  - destruct (Nat.eqb (count_in a cats) (nodup_count a)); [|discriminate].
    destruct (if Nat.eqb (count_in a cats) 2 then None else last_active_pos a cats 0 None);
      intro H; injection H as <-; simpl; auto.
  - intro H. injection H as <-. simpl. auto.
Qed.

(* the range built for a legal domain is well-formed, and its members are members of the domain
   in the sense of is_valid (type included) / of `in values` for finite ranges *)
Lemma range_of_domain_wf eps sl sr d a h :
  dom_wf d -> range_of_domain eps sl sr d a = Some h ->
  hp_wf h /\ (forall x, hp_member h x -> dom_member sl d x = true).
Proof.
  intros Hwf H.
  destruct d as [lo hi s|lo hi s|c s|c s|c ls|lo hi size ls ci]; simpl in Hwf; unfold range_of_domain in H.
  - destruct (match a with Some (DFloat a0 b _) => (a0, b) | _ => (lo, hi) end) as [alo ahi].
    match type of H with (if crange_ok ?r then _ else _) = _ => destruct (crange_ok r) eqn:Ok; [|discriminate] end.
    injection H as <-. apply crange_ok_le in Ok. simpl in Ok. split; [exact Ok|].
    intros x (q & -> & Hq). simpl in *. apply andb_leb_Q. exact Hq.
  - destruct (match a with Some (DInteger a0 b _) => (a0, b) | _ => (lo, hi) end) as [alo ahi].
    match type of H with (if irange_ok _ ?r then _ else _) = _ => destruct (irange_ok eps r) eqn:Ok; [|discriminate] end.
    injection H as <-. unfold irange_ok in Ok. apply andb_true_iff in Ok. destruct Ok as [Ok _]. simpl in Ok.
    split; [simpl; lia|]. intros x (z & -> & Hz). simpl in *. lia.
  - destruct (Nat.eqb (length c) 2) eqn:E2.
    + destruct (bin_range c _) as [r|] eqn:Er; [|discriminate]. injection H as <-.
      destruct (bin_range_shape _ _ _ Er) as (H1 & H2 & H3).
      split; [simpl; repeat split; auto; rewrite H3; simpl; lia|]. intros x Hx. simpl in *. destruct x; exact Hx.
    + destruct (onehot_bounds c _); [|discriminate]. injection H as <-.
      split; [exact Hwf|]. intros x Hx. simpl in *. destruct x; exact Hx.
  - destruct (ordeq_range c _) as [r|] eqn:Er; [|discriminate]. injection H as <-.
    destruct (ordeq_range_shape _ _ _ Er) as (H1 & H2).
    split; [simpl; auto|]. intros x Hx. simpl in *. destruct x; exact Hx.
  - destruct (Nat.ltb 1 (length c)).
    + destruct (nn_range _ c _) as [r|]; [|discriminate]. injection H as <-.
      split; [exact Hwf|]. intros x Hx. simpl in *. destruct x; exact Hx.
    + destruct (ordeq_range c _) as [r|] eqn:Er; [|discriminate]. injection H as <-.
      destruct (ordeq_range_shape _ _ _ Er) as (H1 & H2).
      split; [simpl; auto|]. intros x Hx. simpl in *. destruct x; exact Hx.
  - destruct a; [discriminate|].
    destruct (frange_ok (fd_frange sl lo hi size ls ci)) eqn:Ok; [|discriminate]. injection H as <-.
    split; [simpl; tauto|]. intros x Hx. simpl in *. destruct x; exact Hx.
Qed.

Lemma space_ranges_wf eps sl sr : forall ds hs,
  Forall (fun p => dom_wf (fst p)) ds -> space_ranges eps sl sr ds = Some hs ->
  Forall hp_wf hs /\
  Forall2 (fun (p : domain * option domain) h => forall x, hp_member h x -> dom_member sl (fst p) x = true) ds hs.
Proof.
  induction ds as [|[d a] ds IH]; intros hs Hwf H; simpl in H.
  - injection H as <-. split; constructor.
  - destruct (range_of_domain eps sl sr d a) as [h|] eqn:Eh; [|discriminate].
    destruct (space_ranges eps sl sr ds) as [hs'|] eqn:Es; [|discriminate]. injection H as <-.
    inversion Hwf as [|? ? Hd Hds]; subst. simpl in Hd.
    destruct (range_of_domain_wf eps sl sr d a h Hd Eh) as [W M].
    destruct (IH hs' Hds eq_refl) as [W' M']. split; constructor; auto.
Qed.

Lemma Forall2_compose {A B C} (P : A -> B -> Prop) (Q : B -> C -> Prop) (R : A -> C -> Prop) :
  (forall a b c, P a b -> Q b c -> R a c) ->
  forall la lb lc, Forall2 P la lb -> Forall2 Q lb lc -> Forall2 R la lc.
Proof.
  intros H la lb lc H1. revert lc. induction H1; intros lc H2; inversion H2; subst; constructor; eauto.
Qed.

(* END TO END: for every configuration space of legal domains (any constructor, any active
   sub-space the constructor of the ranges accepts), every vector of the unit cube of the advertised
   size decodes, and every decoded value is a member of ITS DOMAIN *)
Lemma decode_member_domains eps sl sr ds hs v :
  0 <= eps -> Forall (fun p => dom_wf (fst p)) ds -> space_ranges eps sl sr ds = Some hs ->
  length v = space_size hs -> Forall unit_itv v ->
  exists xs, space_from_nd eps hs v = Some xs /\
             Forall2 (fun (p : domain * option domain) x => dom_member sl (fst p) x = true) ds xs.
Proof.
  intros He Hwf Hs Hlen Hu. destruct (space_ranges_wf eps sl sr ds hs Hwf Hs) as [W M].
  destruct (space_decode_total eps hs He W v Hlen Hu) as [xs E].
  exists xs. split; [exact E|].
  pose proof (space_decode_member eps hs v xs W E) as Hm.
  eapply Forall2_compose; [|exact M|exact Hm]. intros p h x HP HQ. apply HP. exact HQ.
Qed.

(* ================= JSON form of a whole configuration space ================= *)
Definition cs_json_ok (cs : config_space) : Prop :=
  Forall (fun p => match snd p with EDom d => json_ok d | EConst _ => True end) cs.
Lemma cs_json_roundtrip_ok base cs : 0 < base -> cs_json_ok cs -> cs_json_roundtrip base cs = Some cs.
Proof.
  intros Hb H. induction H as [|[k e] cs He _ IH]; simpl; [reflexivity|].
  destruct e as [d|c]; simpl in He.
  - rewrite (json_roundtrip_ok base d Hb He), IH. reflexivity.
  - rewrite IH. reflexivity.
Qed.

(* ================= get_ndarray_bounds of a whole space: the active sub-ranges ================= *)
(* "inside the active sub-range" (= the whole range when no active range is set) *)
Definition hp_act (h : hprange) (x : val) : Prop :=
  match h with
  | HCont r => exists q, x = VF q /\ c_alo r <= q <= c_ahi r
  | HInt r => exists z, x = VI z /\ (i_alo r <= z <= i_ahi r)%Z
  | HFin r => mem_val x (fd_values r) = true              (* a finite range cannot be active *)
  | HOneHot c (Some act) => mem_val x act = true
  | HOneHot c None => mem_val x c = true
  | HBin c r | HOrdEq c r => exists z, (i_alo r <= z <= i_ahi r)%Z /\ nth_error c (Z.to_nat z) = Some x
  | HOrdNN _ c _ => mem_val x c = true     (* active choices of a nearest-neighbour ordinal: NOT covered *)
  end.
(* linear scaling for the scalar ranges (log / reverse-log: props over R) and the asserts of __init__ *)
Definition hp_act_ok (eps : Q) (h : hprange) : Prop :=
  match h with
  | HCont r => c_sc r = Domain.linear /\ crange_ok r = true
  | HInt r | HBin _ r | HOrdEq _ r => i_sc r = Domain.linear /\ irange_ok eps r = true
  | _ => True
  end.

Lemma in_bounds_single a b v : in_bounds [(a, b)] v = true -> exists t, v = [t] /\ a <= t <= b.
Proof.
  unfold in_bounds. intro H. apply andb_true_iff in H. destruct H as [Hl Hf]. apply Nat.eqb_eq in Hl.
  destruct v as [|t [|]]; simpl in Hl; try lia. exists t. split; [reflexivity|].
  simpl in Hf. rewrite andb_true_r in Hf. apply andb_leb_Q. exact Hf.
Qed.
Lemma in_bounds_app : forall b1 b2 v, in_bounds (b1 ++ b2) v = true ->
  in_bounds b1 (firstn (length b1) v) = true /\ in_bounds b2 (skipn (length b1) v) = true.
Proof.
  unfold in_bounds. induction b1 as [|p b1 IH]; intros b2 v H.
  - simpl. split; [reflexivity | exact H].
  - apply andb_true_iff in H. destruct H as [Hl Hf]. apply Nat.eqb_eq in Hl.
    destruct v as [|x v]; [simpl in Hl; lia|]. simpl in Hl, Hf.
    apply andb_true_iff in Hf. destruct Hf as [Hp Hf].
    destruct (IH b2 v) as [H1 H2].
    { apply andb_true_iff. split; [apply Nat.eqb_eq; lia | exact Hf]. }
    apply andb_true_iff in H1. destruct H1 as [H1l H1f]. apply Nat.eqb_eq in H1l.
    split; [|exact H2]. simpl. apply andb_true_iff. split; [apply Nat.eqb_eq; simpl; lia|].
    rewrite Hp. exact H1f.
Qed.
Lemma hp_bounds_length eps h b : hp_wf h -> hp_bounds eps h = Some b -> length b = hp_size h.
Proof.
  intros Hwf H. destruct h as [r|r|r|c a|c r|c r|sc c r]; simpl in *;
    try (match type of H with pair1 ?o = _ => destruct o; [|discriminate] end; injection H as <-; reflexivity).
  unfold onehot_bounds in H. destruct a as [act|].
  - destruct (Nat.ltb 0 (length act) && Nat.eqb (count_in act c) (length act)); [|discriminate].
    injection H as <-. apply map_length.
  - injection H as <-. destruct (Nat.ltb 1 (length c)) eqn:E; [apply repeat_length|].
    apply Nat.ltb_ge in E. destruct c; [congruence|]. simpl in *. lia.
Qed.

(* one range: every vector inside its bounds decodes into the active sub-range *)
Lemma hp_active eps h b v x :
  0 < eps < 1#2 -> hp_wf h -> hp_act_ok eps h -> hp_bounds eps h = Some b -> in_bounds b v = true ->
  hp_from_nd eps h v = Some x -> hp_act h x.
Proof.
  intros He Hwf Hok Hb Hin Hx.
  destruct h as [r|r|r|c a|c r|c r|sc c r]; simpl in Hb, Hok |- *.
  - destruct (cont_bounds eps r) as [[lo hi]|] eqn:Eb; [|discriminate]. injection Hb as <-.
    destruct (in_bounds_single _ _ _ Hin) as (t & -> & Ht). simpl in Hx.
    destruct (cont_from_nd eps r t) as [q|] eqn:Eq; [|discriminate]. injection Hx as <-.
    exists q. split; [reflexivity|]. destruct Hok as [Hsc Hcr].
    eapply (cont_active eps r lo hi t q); eauto. lra.
  - destruct (int_bounds eps r) as [[lo hi]|] eqn:Eb; [|discriminate]. injection Hb as <-.
    destruct (in_bounds_single _ _ _ Hin) as (t & -> & Ht). simpl in Hx.
    destruct (int_from_nd eps r t) as [z|] eqn:Ez; [|discriminate]. injection Hx as <-.
    exists z. split; [reflexivity|]. destruct Hok as [Hsc Hir].
    eapply (int_active eps r lo hi t z); eauto.
  - exact (hp_decode_member eps (HFin r) v x Hwf Hx).
  - destruct a as [act|].
    + eapply onehot_active; eauto.
    + eapply onehot_from_nd_mem; eauto.
  - destruct (int_bounds eps r) as [[lo hi]|] eqn:Eb; [|discriminate]. injection Hb as <-.
    destruct (in_bounds_single _ _ _ Hin) as (t & -> & Ht). simpl in Hx. destruct Hok as [Hsc Hir].
    eapply (idx_active eps c r lo hi t x); eauto.
  - destruct (int_bounds eps r) as [[lo hi]|] eqn:Eb; [|discriminate]. injection Hb as <-.
    destruct (in_bounds_single _ _ _ Hin) as (t & -> & Ht). simpl in Hx. destruct Hok as [Hsc Hir].
    eapply (idx_active eps c r lo hi t x); eauto.
  - exact (hp_decode_member eps (HOrdNN sc c r) v x Hwf Hx).
Qed.

(* a whole space: every vector inside get_ndarray_bounds() decodes, attribute by attribute, into the
   active sub-ranges *)
Lemma space_active_go eps : 0 < eps < 1#2 -> forall hs,
  Forall (fun h => hp_wf h /\ hp_act_ok eps h) hs ->
  forall b v ys, space_bounds_all eps hs = Some b -> in_bounds b v = true ->
  space_from_nd_go eps hs v = Some ys -> Forall2 hp_act hs ys.
Proof.
  intros He hs H. induction H as [|h hs [Hwf Hok] _ IH]; intros b v ys Hb Hin Hy; simpl in Hb, Hy.
  - injection Hy as <-. constructor.
  - destruct (hp_bounds eps h) as [bh|] eqn:Ebh; [|discriminate].
    destruct (space_bounds_all eps hs) as [br|] eqn:Ebr; [|discriminate]. injection Hb as <-.
    destruct (hp_from_nd eps h (firstn (hp_size h) v)) as [x|] eqn:Ex; [|discriminate].
    destruct (space_from_nd_go eps hs (skipn (hp_size h) v)) as [xs|] eqn:Exs; [|discriminate].
    injection Hy as <-.
    destruct (in_bounds_app _ _ _ Hin) as [H1 H2]. rewrite (hp_bounds_length eps h bh Hwf Ebh) in H1, H2.
    constructor; [eapply hp_active; eauto | eapply IH; eauto].
Qed.
Lemma space_active eps hs b v ys :
  0 < eps < 1#2 -> Forall (fun h => hp_wf h /\ hp_act_ok eps h) hs ->
  space_bounds eps hs None = Some b -> in_bounds b v = true ->
  space_from_nd eps hs v = Some ys -> Forall2 hp_act hs ys.
Proof.
  intros He H Hb Hin Hy. unfold space_bounds in Hb.
  destruct (space_bounds_all eps hs) as [b'|] eqn:E; [|discriminate]. injection Hb as <-.
  unfold space_from_nd in Hy. destruct (Nat.eqb (length v) (space_size hs)); [|discriminate].
  eapply space_active_go; eauto.
Qed.

(* ================= fixed last position: the pinned block decodes to value_for_last_pos ================= *)
Lemma val_eqb_trans a b c : val_eqb a b = true -> val_eqb b c = true -> val_eqb a c = true.
Proof.
  destruct a, b, c; simpl; try discriminate; intros H1 H2.
  - apply Z.eqb_eq in H1, H2. apply Z.eqb_eq. lia.
  - apply Qeqb_eq in H1, H2. apply Qeqb_eq. lra.
  - apply Z.eqb_eq in H1, H2. apply Z.eqb_eq. lia.
Qed.
Lemma Qclip_comp x y lo hi : lo <= hi -> x == y -> Qclip x lo hi == Qclip y lo hi.
Proof.
  intros Hl E.
  destruct (Qclip_cases x lo hi Hl) as [[? ->]|[[? ->]|[? ->]]];
  destruct (Qclip_cases y lo hi Hl) as [[? ->]|[[? ->]|[? ->]]]; lra.
Qed.
Lemma Qleb_comp a b c d : a == c -> b == d -> Qleb a b = Qleb c d.
Proof.
  intros E1 E2. destruct (Qleb a b) eqn:H1; destruct (Qleb c d) eqn:H2; try reflexivity.
  - apply Qleb_true in H1. assert (c <= d) as H by lra. apply Qleb_true in H. congruence.
  - apply Qleb_true in H2. assert (a <= b) as H by lra. apply Qleb_true in H. congruence.
Qed.
Lemma Qltb_comp a b c d : a == c -> b == d -> Qltb a b = Qltb c d.
Proof. intros E1 E2. unfold Qltb. f_equal. apply (Qleb_comp b a d c); assumption. Qed.

(* bounds (t, t): the vector equals the pinned encoding coordinate by coordinate *)
Lemma in_bounds_pinned : forall e w, in_bounds (map (fun t => (t, t)) e) w = true -> Forall2 Qeq w e.
Proof.
  unfold in_bounds. induction e as [|t e IH]; intros w H; apply andb_true_iff in H; destruct H as [Hl Hf];
    apply Nat.eqb_eq in Hl; destruct w as [|x w]; simpl in Hl; try lia; [constructor|].
  simpl in Hf. apply andb_true_iff in Hf. destruct Hf as [Hp Hf]. apply andb_leb_Q in Hp. simpl in Hp.
  constructor; [lra|]. apply IH. apply andb_true_iff. split; [apply Nat.eqb_eq; lia | exact Hf].
Qed.

Lemma cont_from_nd_comp eps r t t' q :
  c_sc r = Domain.linear -> c_lo r <= c_hi r -> t' == t -> cont_from_nd eps r t = Some q ->
  exists q', cont_from_nd eps r t' = Some q' /\ q' == q.
Proof.
  intros Hsc Hl E H. unfold cont_from_nd, scale_from_zero_one, c_lo_i, c_hi_i in *. rewrite Hsc in *.
  cbn [to_int from_int Domain.linear] in *.
  rewrite (Qleb_comp (- eps) t' (- eps) t) by (lra || reflexivity).
  rewrite (Qleb_comp t' (1 + eps) t (1 + eps)) by (lra || reflexivity).
  destruct (Qleb (- eps) t && Qleb t (1 + eps)); [|discriminate]. injection H as <-.
  eexists. split; [reflexivity|].
  destruct (Qltb 0 (c_hi r - c_lo r)); [|reflexivity].
  apply Qclip_comp; [exact Hl|]. rewrite E. reflexivity.
Qed.
Lemma int_from_nd_comp eps r t t' z :
  0 < eps < 1#2 -> i_sc r = Domain.linear -> (i_lo r <= i_hi r)%Z -> t' == t ->
  int_from_nd eps r t = Some z -> int_from_nd eps r t' = Some z.
Proof.
  intros He Hsc Hl E H. unfold int_from_nd, int_from_nd_pre in *.
  destruct (cont_from_nd eps (i_cont eps r) t) as [q|] eqn:Eq; [|discriminate]. injection H as <-.
  destruct (cont_from_nd_comp eps (i_cont eps r) t t' q) as (q' & -> & E'); auto.
  { simpl. apply inject_Z_le in Hl. lra. }
  simpl. unfold round_to_int. rewrite (round_he_comp _ _ E'). reflexivity.
Qed.

Lemma Forall2_length {A B} (P : A -> B -> Prop) l1 l2 : Forall2 P l1 l2 -> length l1 = length l2.
Proof. induction 1; simpl; congruence. Qed.
(* np.argmax on a vector that is coordinate-wise == a one-hot vector *)
Lemma nth_Forall2_Qeq : forall (w e : list Q), Forall2 Qeq w e -> forall k, nth k w 0 == nth k e 0.
Proof. induction 1; intros [|k]; simpl; try reflexivity; auto. Qed.
Lemma nth_onehot_other : forall n i k, (k <> i)%nat -> nth k (onehot i n) 0 == 0.
Proof.
  induction n as [|n IH]; intros i k Hk; [destruct k; reflexivity|].
  destruct i; destruct k; simpl; try reflexivity; try lia.
  - clear. revert k. induction n; intros [|k]; simpl; try reflexivity. apply IHn.
  - apply IH. lia.
Qed.
Lemma argmax_pinned_onehot n i w : (i < n)%nat -> Forall2 Qeq w (onehot i n) -> argmax w = i.
Proof.
  intros Hi H. pose proof (Forall2_length _ _ _ H) as Hlen. rewrite onehot_length in Hlen.
  pose proof (nth_Forall2_Qeq _ _ H) as Hn.
  assert (w <> []) as Hne by (destruct w; [simpl in Hlen; lia | congruence]).
  pose proof (argmax_lt w Hne) as Hlt. pose proof (argmax_max w i ltac:(lia)) as Hmax.
  destruct (Nat.eq_dec (argmax w) i) as [E|E]; [exact E|]. exfalso.
  rewrite (Hn i), (Hn (argmax w)), nth_onehot, (nth_onehot_other n i (argmax w) E) in Hmax by exact Hi. lra.
Qed.
Lemma first_tie_pos act best : forall choices v c, first_tie act best choices v = Some c ->
  exists p, nth_error choices p = Some c /\ mem_val c act = true /\ (p < length v)%nat /\ nth p v 0 == best.
Proof.
  induction choices as [|c0 cs IH]; intros [|x xs] c H; simpl in H; try discriminate.
  destruct (mem_val c0 act && Qeqb x best) eqn:E.
  - injection H as <-. apply andb_true_iff in E. destruct E as [E1 E2]. apply Qeqb_eq in E2.
    exists 0%nat. simpl. repeat split; auto. lia.
  - destruct (IH xs c H) as (p & H1 & H2 & H3 & H4). exists (S p). simpl. repeat split; auto. lia.
Qed.

Lemma onehot_pinned choices active x e w y :
  onehot_to_nd choices x = Some e -> Forall2 Qeq w e -> onehot_from_nd choices active w = Some y ->
  val_eqb x y = true.
Proof.
  unfold onehot_to_nd. intros He Hw Hy.
  destruct (index_of x choices) as [i|] eqn:Hi; [|discriminate]. injection He as <-.
  destruct (index_of_spec _ _ _ Hi) as (Hlt & c & Hc & Exc).
  pose proof (argmax_pinned_onehot _ _ _ Hlt Hw) as Ea.
  pose proof (Forall2_length _ _ _ Hw) as Hlen. rewrite onehot_length in Hlen.
  unfold onehot_from_nd in Hy. rewrite Hlen, Nat.eqb_refl, Ea, Hc in Hy.
  destruct active as [act|]; [|injection Hy as <-; exact Exc].
  destruct (mem_val c act) eqn:Em; [injection Hy as <-; exact Exc|].
  destruct (first_tie act (nth i w 0) choices w) as [c'|] eqn:T; [|injection Hy as <-; exact Exc].
  exfalso. destruct (first_tie_pos _ _ _ _ _ T) as (p & Hp & Hpa & Hpl & Hpv).
  pose proof (nth_Forall2_Qeq _ _ Hw) as Hn.
  destruct (Nat.eq_dec p i) as [->|Hne]; [congruence|].
  rewrite (Hn p), (Hn i), nth_onehot, (nth_onehot_other _ i p Hne) in Hpv by exact Hlt. lra.
Qed.

(* what the pinned-block theorem needs beyond the round-trip conditions: linear scaling for the
   scalar ranges (compatibility of the decoder with == is proved for the linear scaling) *)
Definition hp_fix_ok (eps : Q) (h : hprange) : Prop :=
  match h with
  | HCont r => c_sc r = Domain.linear /\ c_lo r <= c_hi r
  | HInt r => i_sc r = Domain.linear /\ (i_lo r <= i_hi r)%Z
  | HFin r => (1 <= f_size r)%Z
  | HOneHot _ _ => True
  | HBin c r | HOrdEq c r => (i_lo r <= i_hi r)%Z
  | HOrdNN _ _ _ => False          (* nearest-neighbour ordinals: not covered *)
  end.

(* get_ndarray_bounds with value_for_last_pos pins EVERY coordinate of the last block to the
   encoding of the value; every vector inside these pinned bounds decodes to that value *)
Lemma fixed_block_decodes eps h x e w y :
  0 < eps < 1#2 -> hp_rt_ok eps h -> hp_fix_ok eps h -> hp_rt_member h x ->
  hp_to_nd eps h x = Some e -> in_bounds (map (fun t => (t, t)) e) w = true ->
  hp_from_nd eps h w = Some y -> val_equiv x y.
Proof.
  intros He Hrt Hfix Hm Hto Hin Hy. unfold val_equiv.
  pose proof (in_bounds_pinned _ _ Hin) as Hw.
  destruct (hp_roundtrip eps h x He Hrt Hm) as (e0 & y0 & E1 & E2 & E3 & E4 & E5).
  rewrite Hto in E1. injection E1 as <-. unfold val_equiv in E5.
  destruct h as [r|r|r|c a|c r|c r|sc c r]; simpl in Hfix, Hto, E4, Hy; try contradiction.
  - (* continuous *)
    destruct (cont_to_nd eps r (val_num x)) as [t|]; [|discriminate]. injection Hto as <-.
    inversion Hw as [|t' ? w' ? Et Hw']; subst. inversion Hw'; subst.
    destruct (cont_from_nd eps r t) as [q|] eqn:Eq; [|discriminate]. injection E4 as <-.
    destruct Hfix as [Hsc Hl]. destruct (cont_from_nd_comp eps r t t' q Hsc Hl Et Eq) as (q' & Eq' & Eqq).
    rewrite Eq' in Hy. injection Hy as <-. eapply val_eqb_trans; [exact E5|]. simpl. apply Qeqb_eq. lra.
  - (* integer *)
    assert (exists t, e = [t]) as [t ->].
    { destruct x; simpl in Hto; match type of Hto with one ?o = _ => destruct o; [|discriminate] end;
        injection Hto as <-; eauto. }
    inversion Hw as [|t' ? w' ? Et Hw']; subst. inversion Hw'; subst.
    destruct (int_from_nd eps r t) as [z|] eqn:Ez; [|discriminate]. injection E4 as <-.
    destruct Hfix as [Hsc Hl]. rewrite (int_from_nd_comp eps r t t' z He Hsc Hl Et Ez) in Hy.
    injection Hy as <-. exact E5.
  - (* finite range *)
    destruct (fr_to_nd eps r x) as [t|]; [|discriminate]. injection Hto as <-.
    inversion Hw as [|t' ? w' ? Et Hw']; subst. inversion Hw'; subst.
    unfold fr_from_nd in *. destruct (int_from_nd eps (f_rint r) t) as [z|] eqn:Ez; [|discriminate].
    rewrite (int_from_nd_comp eps (f_rint r) t t' z He eq_refl ltac:(simpl; lia) Et Ez) in Hy.
    simpl in E4, Hy. rewrite E4 in Hy. injection Hy as <-. exact E5.
  - (* one-hot *)
    eapply onehot_pinned; eauto.
  - destruct (idx_to_nd eps c r x) as [t|]; [|discriminate]. injection Hto as <-.
    inversion Hw as [|t' ? w' ? Et Hw']; subst. inversion Hw'; subst.
    unfold idx_from_nd in *. destruct (int_from_nd eps r t) as [z|] eqn:Ez; [|discriminate].
    destruct Hrt as (Hsc & _). rewrite (int_from_nd_comp eps r t t' z He Hsc Hfix Et Ez) in Hy.
    rewrite E4 in Hy. injection Hy as <-. exact E5.
  - destruct (idx_to_nd eps c r x) as [t|]; [|discriminate]. injection Hto as <-.
    inversion Hw as [|t' ? w' ? Et Hw']; subst. inversion Hw'; subst.
    unfold idx_from_nd in *. destruct (int_from_nd eps r t) as [z|] eqn:Ez; [|discriminate].
    destruct Hrt as (Hsc & _). rewrite (int_from_nd_comp eps r t t' z He Hsc Hfix Et Ez) in Hy.
    rewrite E4 in Hy. injection Hy as <-. exact E5.
Qed.

(* the shape of get_ndarray_bounds with value_for_last_pos (read off the model's definition): the
   bounds of the whole space with EVERY coordinate of the last block replaced by (t, t), t ranging
   over the encoding of the fixed value *)
Lemma space_bounds_fixed_shape eps hs h rest x e b' :
  rev hs = h :: rest -> hp_to_nd eps h x = Some e -> space_bounds_all eps hs = Some b' ->
  space_bounds eps hs (Some x) = Some (firstn (length b' - length e) b' ++ map (fun t => (t, t)) e).
Proof. intros Hr He Hb. unfold space_bounds. rewrite Hb, Hr, He. reflexivity. Qed.

(* ================= sample(size), random_config, random_configs ================= *)
Lemma sample_all_member sl sr d : dom_wf d -> samp_hyp sl sr d -> forall rs l,
  Forall (fun r => raw_ok d r = true) rs -> sample_all sl sr d rs = Some l ->
  length l = length rs /\ Forall (fun v => dom_member sl d v = true) l.
Proof.
  intros Hwf Hh. induction rs as [|r rs IH]; intros l Hr H; simpl in H.
  - injection H as <-. split; [reflexivity | constructor].
  - destruct (dom_sample sl sr d r) as [v|] eqn:Ev; [|discriminate].
    destruct (sample_all sl sr d rs) as [l'|] eqn:El; [|discriminate]. injection H as <-.
    inversion Hr as [|? ? Hr1 Hr2]; subst. destruct (IH l' Hr2 eq_refl) as [H1 H2].
    split; [simpl; congruence|]. constructor; [|exact H2]. eapply sample_member; eauto.
Qed.
(* sample(size = k), k = number of draws: the bare value exactly when k = 1, else a list of k
   values; every value a member *)
Lemma sample_size_member sl sr d rs res :
  dom_wf d -> samp_hyp sl sr d -> Forall (fun r => raw_ok d r = true) rs ->
  dom_sample_size sl sr d rs = Some res ->
  match res with
  | SOne v => length rs = 1%nat /\ dom_member sl d v = true
  | SMany l => length rs <> 1%nat /\ length l = length rs /\ Forall (fun v => dom_member sl d v = true) l
  end.
Proof.
  intros Hwf Hh Hr H. unfold dom_sample_size in H.
  destruct (sample_all sl sr d rs) as [l|] eqn:El; [|discriminate].
  destruct (sample_all_member sl sr d Hwf Hh rs l Hr El) as [H1 H2].
  destruct l as [|v [|w l']]; injection H as <-.
  - split; [simpl in H1; lia|]. split; [exact H1 | exact H2].
  - split; [simpl in H1; lia|]. inversion H2; assumption.
  - split; [simpl in H1; lia|]. split; [exact H1 | exact H2].
Qed.

Lemma Forall2_nth_error {A B} (P : A -> B -> Prop) : forall l1 l2, Forall2 P l1 l2 ->
  forall k a b, nth_error l1 k = Some a -> nth_error l2 k = Some b -> P a b.
Proof.
  induction 1; intros [|k] a b Ha Hb; simpl in *; try discriminate.
  - injection Ha as <-. injection Hb as <-. assumption.
  - eauto.
Qed.
Lemma set_nth_length : forall xs i x, length (set_nth xs i x) = length xs.
Proof. induction xs; intros [|i] x; simpl; auto. Qed.
Lemma set_nth_same : forall xs i x, (i < length xs)%nat -> nth_error (set_nth xs i x) i = Some x.
Proof. induction xs; intros [|i] x H; simpl in *; try lia; [reflexivity | apply IHxs; lia]. Qed.
Lemma set_nth_other : forall xs i x k, k <> i -> nth_error (set_nth xs i x) k = nth_error xs k.
Proof. induction xs; intros [|i] x [|k] H; simpl; try reflexivity; try lia. apply IHxs. lia. Qed.

Definition sampling_ok (sl sr : scaling) (ds : list (domain * option domain)) : Prop :=
  Forall (fun p => dom_wf (sampling_domain p) /\ samp_hyp sl sr (sampling_domain p)) ds.
Lemma random_config_go_member sl sr : forall ds rs xs, sampling_ok sl sr ds ->
  Forall2 (fun p r => raw_ok (sampling_domain p) r = true) ds rs ->
  random_config_go sl sr ds rs = Some xs ->
  Forall2 (fun p x => dom_member sl (sampling_domain p) x = true) ds xs.
Proof.
  induction ds as [|p ds IH]; intros rs xs Hok Hr H; destruct rs as [|r rs]; simpl in H; try discriminate.
  - injection H as <-. constructor.
  - destruct (dom_sample sl sr (sampling_domain p) r) as [v|] eqn:Ev; [|discriminate].
    destruct (random_config_go sl sr ds rs) as [l|] eqn:El; [|discriminate]. injection H as <-.
    inversion Hok as [|? ? [Hw Hh] Hok']; subst. inversion Hr as [|? ? ? ? Hr1 Hr2]; subst.
    constructor; [eapply sample_member; eauto | eapply IH; eauto].
Qed.

(* a configuration of the right length whose values are members of the (active) domains, except
   the fixed position, which holds value_for_last_pos *)
Definition cfg_ok (sl : scaling) (ds : list (domain * option domain)) (fixed : option (nat * val))
           (c : list val) : Prop :=
  length c = length ds /\
  forall k p x, nth_error ds k = Some p -> nth_error c k = Some x ->
    match fixed with
    | Some (i, fx) => if Nat.eqb k i then x = fx else dom_member sl (sampling_domain p) x = true
    | None => dom_member sl (sampling_domain p) x = true
    end.
Lemma random_config_member sl sr ds fixed rs c :
  sampling_ok sl sr ds -> Forall2 (fun p r => raw_ok (sampling_domain p) r = true) ds rs ->
  random_config sl sr ds fixed rs = Some c -> cfg_ok sl ds fixed c.
Proof.
  intros Hok Hr H. unfold random_config in H.
  destruct (random_config_go sl sr ds rs) as [xs|] eqn:E; [|discriminate]. injection H as <-.
  pose proof (random_config_go_member sl sr ds rs xs Hok Hr E) as Hm.
  pose proof (Forall2_length _ _ _ Hm) as Hlen.
  unfold cfg_ok, transform_config. destruct fixed as [[i fx]|].
  - split; [rewrite set_nth_length; congruence|]. intros k p x Hp Hx.
    destruct (Nat.eqb k i) eqn:Ek.
    + apply Nat.eqb_eq in Ek. subst k.
      assert (i < length xs)%nat as Hi by (rewrite <- Hlen; apply nth_error_Some; congruence).
      rewrite (set_nth_same xs i fx Hi) in Hx. congruence.
    + apply Nat.eqb_neq in Ek. rewrite (set_nth_other xs i fx k Ek) in Hx.
      exact (Forall2_nth_error _ _ _ Hm k p x Hp Hx).
  - split; [congruence|]. intros k p x Hp Hx. exact (Forall2_nth_error _ _ _ Hm k p x Hp Hx).
Qed.
(* random_configs(rs, k): exactly k configurations, each as above *)
Lemma random_configs_member sl sr ds fixed : sampling_ok sl sr ds -> forall rss cs,
  Forall (fun rs => Forall2 (fun p r => raw_ok (sampling_domain p) r = true) ds rs) rss ->
  random_configs sl sr ds fixed rss = Some cs ->
  length cs = length rss /\ Forall (cfg_ok sl ds fixed) cs.
Proof.
  intros Hok. induction rss as [|rs rss IH]; intros cs Hr H; simpl in H.
  - injection H as <-. split; [reflexivity | constructor].
  - destruct (random_config sl sr ds fixed rs) as [c|] eqn:Ec; [|discriminate].
    destruct (random_configs sl sr ds fixed rss) as [l|] eqn:El; [|discriminate]. injection H as <-.
    inversion Hr as [|? ? Hr1 Hr2]; subst. destruct (IH l Hr2 eq_refl) as [H1 H2].
    split; [simpl; congruence|]. constructor; [eapply random_config_member; eauto | exact H2].
Qed.
