(* SearcherDataProofs.v — lemmas about model/SearcherData.v (C14, reused by C13). *)
From Coq Require Import ZArith List Bool Lia ZifyBool QArith.
From Verif Require Import model.Base model.SearcherData.
Import ListNotations.
Open Scope Z_scope.

(* ------------------------------------------------------------------ *)
(* basic list facts                                                    *)
(* ------------------------------------------------------------------ *)
Lemma key_eqb_eq a b : key_eqb a b = true <-> a = b.
Proof.
  destruct a as [a1 a2], b as [b1 b2]. unfold key_eqb. cbn [fst snd].
  rewrite andb_true_iff, !Z.eqb_eq. split; [intros [-> ->]; reflexivity | intro H; inversion H; auto].
Qed.
Lemma key_eqb_neq a b : key_eqb a b = false <-> a <> b.
Proof. rewrite <- key_eqb_eq. destruct (key_eqb a b); split; congruence. Qed.
Lemma key_eqb_refl a : key_eqb a a = true.
Proof. apply key_eqb_eq. reflexivity. Qed.

Lemma is_pending_In s t r : is_pending s t r = true <-> In (t, r) (pend s).
Proof.
  unfold is_pending. rewrite existsb_exists. split.
  - intros [x [Hin Hk]]. apply key_eqb_eq in Hk. subst. exact Hin.
  - intro H. exists (t, r). split; [exact H | apply key_eqb_refl].
Qed.
Lemma is_labeled_In s t r : is_labeled s t r = true <-> exists c, In ((t, r), c) (obs s).
Proof.
  unfold is_labeled. rewrite existsb_exists. split.
  - intros [[k c] [Hin Hk]]. cbn in Hk. apply key_eqb_eq in Hk. subst. exists c. exact Hin.
  - intros [c H]. exists ((t, r), c). split; [exact H | apply key_eqb_refl].
Qed.

Lemma In_remove_first k p l : In p (remove_first k l) -> In p l.
Proof.
  induction l as [|x l IH]; cbn; [tauto|]. destruct (key_eqb k x); cbn; intuition.
Qed.
Lemma In_remove_first_other k p l : p <> k -> In p l -> In p (remove_first k l).
Proof.
  intros Hne. induction l as [|x l IH]; cbn; [tauto|]. intros [->|H].
  - destruct (key_eqb k p) eqn:E; [apply key_eqb_eq in E; congruence | left; reflexivity].
  - destruct (key_eqb k x); [exact H | right; auto].
Qed.
Lemma NoDup_remove_first k l : NoDup l -> NoDup (remove_first k l) /\ ~ In k (remove_first k l).
Proof.
  induction l as [|x l IH]; cbn; intro H; [split; [constructor | tauto]|].
  inversion H as [|? ? Hx Hl]; subst. destruct (key_eqb k x) eqn:E.
  - apply key_eqb_eq in E. subst. split; assumption.
  - apply key_eqb_neq in E. destruct (IH Hl) as [H1 H2]. split.
    + constructor; [intro Hin; apply Hx; eapply In_remove_first; eauto | exact H1].
    + intros [->|Hin]; [congruence | tauto].
Qed.

Lemma In_set_obs k c k' c' l :
  In (k', c') (set_obs k c l) -> (k' = k /\ c' = c) \/ (k' <> k /\ In (k', c') l) \/ (k' = k /\ In (k', c') l).
Proof.
  induction l as [|x l IH]; cbn.
  - intros [H|[]]. inversion H. auto.
  - destruct (key_eqb k (fst x)) eqn:E; cbn.
    + intros [H|H]; [inversion H; auto|]. destruct (key_eqb k' k) eqn:E2.
      * apply key_eqb_eq in E2. auto.
      * apply key_eqb_neq in E2. auto.
    + intros [->|H].
      * apply key_eqb_neq in E. cbn in E. right. left. split; [congruence | left; reflexivity].
      * destruct (IH H) as [?|[[? ?]|[? ?]]]; auto.
Qed.
Lemma set_obs_keys k c l : NoDup (map fst l) -> NoDup (map fst (set_obs k c l)) /\
  forall k', In k' (map fst (set_obs k c l)) <-> k' = k \/ In k' (map fst l).
Proof.
  induction l as [|x l IH]; cbn; intro H.
  - split; [constructor; [tauto | constructor] | intro k'; intuition].
  - inversion H as [|? ? Hx Hl]; subst. destruct (key_eqb k (fst x)) eqn:E; cbn.
    + apply key_eqb_eq in E. subst. split; [constructor; assumption | intro k'; intuition].
    + apply key_eqb_neq in E. destruct (IH Hl) as [H1 H2]. split.
      * constructor; [rewrite H2; intros [?|?]; [congruence | tauto] | exact H1].
      * intro k'. rewrite H2. intuition.
Qed.
Lemma set_obs_has k c l : In (k, c) (set_obs k c l).
Proof.
  induction l as [|x l IH]; cbn; [auto|]. destruct (key_eqb k (fst x)); cbn; auto.
Qed.
Lemma set_obs_keeps k c k' c' l : k' <> k -> In (k', c') l -> In (k', c') (set_obs k c l).
Proof.
  intro Hne. induction l as [|x l IH]; cbn; [tauto|]. intros [->|H].
  - destruct (key_eqb k (fst (k', c'))) eqn:E; [apply key_eqb_eq in E; cbn in E; congruence | left; reflexivity].
  - destruct (key_eqb k (fst x)); right; auto.
Qed.
(* with duplicate-free keys an overwritten key has exactly the new value *)
Lemma set_obs_value k c c' l : NoDup (map fst l) -> In (k, c') (set_obs k c l) -> c' = c.
Proof.
  induction l as [|x l IH]; cbn; intro H.
  - intros [E|[]]. inversion E. reflexivity.
  - inversion H as [|? ? Hx Hl]; subst. destruct (key_eqb k (fst x)) eqn:E; cbn.
    + apply key_eqb_eq in E. intros [E2|Hin]; [inversion E2; reflexivity|].
      exfalso. apply Hx. rewrite <- E. apply (in_map fst _ _ Hin).
    + apply key_eqb_neq in E. intros [->|Hin]; [cbn in E; congruence | auto].
Qed.

Lemma In_zrange_n x n : forall lo, In x (zrange_n lo n) <-> lo <= x < lo + Z.of_nat n.
Proof.
  induction n as [|n IH]; intro lo; cbn [zrange_n In].
  - lia.
  - rewrite IH. lia.
Qed.
Lemma In_zrange x lo hi : In x (zrange lo hi) <-> lo <= x <= hi.
Proof. unfold zrange. rewrite In_zrange_n. lia. Qed.

Lemma mem_Z_In x l : mem_Z x l = true <-> In x l.
Proof.
  induction l as [|y l IH]; cbn; [split; [discriminate | tauto]|].
  rewrite orb_true_iff, IH, Z.eqb_eq. intuition.
Qed.

(* find / upd *)
Lemma find_upd_same t v l : find t (upd t v l) = Some v.
Proof.
  induction l as [|[k w] l IH]; cbn; [rewrite Z.eqb_refl; reflexivity|].
  destruct (k =? t) eqn:E; cbn; rewrite E; [reflexivity | exact IH].
Qed.
Lemma find_upd_other t t' v l : t' <> t -> find t' (upd t v l) = find t' l.
Proof.
  intro Hne. induction l as [|[k w] l IH]; cbn.
  - destruct (t =? t') eqn:E; [lia | reflexivity].
  - destruct (k =? t) eqn:E; cbn; destruct (k =? t') eqn:E2; try reflexivity; try lia. exact IH.
Qed.
Lemma find_app_new t t' v l : find t' (l ++ [(t, v)]) = match find t' l with Some x => Some x | None => if t =? t' then Some v else None end.
Proof.
  induction l as [|[k w] l IH]; cbn; [reflexivity|]. destruct (k =? t'); [reflexivity | exact IH].
Qed.

(* ------------------------------------------------------------------ *)
(* searcher operations                                                 *)
(* ------------------------------------------------------------------ *)
Lemma register_pending_spec s t r :
  is_labeled s t r = false ->
  exists s', register_pending s t r = Ok s' /\ obs s' = obs s /\ failed s' = failed s /\
             (forall p, In p (pend s') <-> p = (t, r) \/ In p (pend s)) /\
             (NoDup (pend s) -> NoDup (pend s')).
Proof.
  intro Hl. unfold register_pending, append_pending. destruct (is_pending s t r) eqn:E.
  - exists s. apply is_pending_In in E. repeat split; auto. intros [->|?]; auto.
  - rewrite Hl. eexists. split; [reflexivity|]. cbn. repeat split; auto.
    + intro H. apply in_app_or in H. cbn in H. intuition.
    + intros [->|H]; apply in_or_app; cbn; auto.
    + intro Hnd. assert (~ In (t, r) (pend s)) by (rewrite <- is_pending_In; congruence).
      clear E Hl. induction (pend s) as [|x l IH]; cbn.
      * constructor; [tauto | constructor].
      * inversion Hnd; subst. constructor.
        -- intro Hin. apply in_app_or in Hin. cbn in Hin. cbn in H. intuition congruence.
        -- apply IH; [assumption | cbn in H; tauto].
Qed.

Lemma register_all_spec t rs : forall s,
  (forall r, In r rs -> is_labeled s t r = false) ->
  exists s', register_all s t rs = Ok s' /\ obs s' = obs s /\ failed s' = failed s /\
             (forall p, In p (pend s') <-> (fst p = t /\ In (snd p) rs) \/ In p (pend s)) /\
             (NoDup (pend s) -> NoDup (pend s')).
Proof.
  induction rs as [|r rs IH]; intros s Hl; cbn [register_all].
  - exists s. repeat split; auto. intros [[_ []]|?]; assumption.
  - destruct (register_pending_spec s t r) as [s1 [E [Ho [Hf [Hp Hn]]]]]; [apply Hl; left; reflexivity|].
    rewrite E. cbn [bind].
    destruct (IH s1) as [s2 [E2 [Ho2 [Hf2 [Hp2 Hn2]]]]].
    { intros r' Hr'. unfold is_labeled. rewrite Ho. apply Hl. right. exact Hr'. }
    exists s2. split; [exact E2|]. split; [congruence|]. split; [congruence|]. split; [|auto].
    intro p. rewrite Hp2, Hp. destruct p as [pt pr]. cbn [fst snd In]. split.
    + intros [[? ?]|[H|?]]; [left; auto | inversion H; subst; left; auto | right; assumption].
    + intros [[-> [->|?]]|?]; [right; left; reflexivity | left; auto | right; right; assumption].
Qed.

(* no path of the model reaches TuningJobState.append_pending's assertion *)
Lemma register_pending_no_append s t r : register_pending s t r <> Error EAppendPending.
Proof.
  unfold register_pending, append_pending. destruct (is_pending s t r) eqn:E; [discriminate|].
  destruct (is_labeled s t r); discriminate.
Qed.
Lemma register_all_no_append t rs : forall s, register_all s t rs <> Error EAppendPending.
Proof.
  induction rs as [|r rs IH]; intro s; cbn; [discriminate|].
  destruct (register_pending s t r) eqn:E; cbn; [apply IH|].
  intro H. inversion H; subst. eapply register_pending_no_append; eauto.
Qed.

(* ------------------------------------------------------------------ *)
(* at most one observation per (trial, level): for ANY event sequence   *)
(* ------------------------------------------------------------------ *)
Definition obs_nodup (s : sstate) : Prop := NoDup (map fst (obs s)).

Lemma label_nodup s t r c : obs_nodup s -> obs_nodup (label s t r c).
Proof. unfold obs_nodup, label. cbn. intro H. apply set_obs_keys. exact H. Qed.
Lemma NoDup_map_filter {A B} (f : A -> B) (p : A -> bool) l : NoDup (map f l) -> NoDup (map f (filter p l)).
Proof.
  induction l as [|x l IH]; cbn; [auto|]. intro H. inversion H as [|? ? Hx Hl]; subst.
  destruct (p x); cbn; [constructor|]; auto.
  intro Hin. apply Hx. apply in_map_iff in Hin as [y [Hy Hin]]. apply filter_In in Hin as [Hin _].
  rewrite <- Hy. apply in_map. exact Hin.
Qed.
Lemma remove_case_nodup s t r s' : remove_case s t r = Ok s' -> obs_nodup s -> obs_nodup s'.
Proof.
  unfold remove_case. destruct (is_labeled s t r); [|discriminate]. intro H. inversion H; subst.
  unfold obs_nodup. cbn. apply NoDup_map_filter.
Qed.
Lemma register_pending_obs s t r s' : register_pending s t r = Ok s' -> obs s' = obs s.
Proof.
  unfold register_pending, append_pending. destruct (is_pending s t r) eqn:E; [intro H; inversion H; reflexivity|].
  destruct (is_labeled s t r); [discriminate|]. intro H. inversion H. reflexivity.
Qed.
Lemma register_all_obs t rs : forall s s', register_all s t rs = Ok s' -> obs s' = obs s.
Proof.
  induction rs as [|r rs IH]; intros s s'; cbn; [intro H; inversion H; reflexivity|].
  destruct (register_pending s t r) eqn:E; cbn; [|discriminate].
  intro H. rewrite (IH _ _ H). eapply register_pending_obs; eauto.
Qed.

Lemma us_internal_nodup cfg s rec t s' : us_internal cfg s rec t = Ok s' -> obs_nodup s -> obs_nodup s'.
Proof.
  unfold us_internal. destruct (pol cfg); try (intro H; inversion H; subst; auto; fail).
  destruct (reported rec) as [[r' v']|]; [|intro H; inversion H; subst; auto].
  destruct (negb (keep_case rec)); [apply remove_case_nodup | intro H; inversion H; subst; auto].
Qed.

Lemma update_searcher_nodup cfg s rec t r ti b s' :
  update_searcher cfg s rec t r ti = Ok (b, s') -> obs_nodup s -> obs_nodup s'.
Proof.
  unfold update_searcher.
  destruct (if fst (us_plan cfg r ti) then us_internal cfg s rec t else Ok s) as [s1|e] eqn:EX; cbn [bind]; [|discriminate].
  destruct (register_all s1 t _) as [s2|e] eqn:ER; cbn [bind]; [|discriminate].
  intro H. inversion H; subst. intro Hn. unfold obs_nodup. rewrite (register_all_obs _ _ _ _ ER).
  destruct (fst (us_plan cfg r ti)); [eapply us_internal_nodup; eauto | inversion EX; subst; exact Hn].
Qed.

Lemma on_trial_result_nodup cfg st t r v cont st' d :
  on_trial_result cfg st t r v cont = Ok (st', d) -> obs_nodup (srch st) -> obs_nodup (srch st').
Proof.
  unfold on_trial_result. destruct (find t (trials st)) as [rec|]; [|discriminate].
  destruct (dec rec); try (intro H; inversion H; subst; auto; fail).
  destruct (on_task_report cfg rec r cont) as [[rec1 ti]|e]; cbn [bind]; [|discriminate].
  destruct (ignore_data ti); [intro H; inversion H; subst; auto|].
  destruct (update_searcher cfg (srch st) rec1 t r ti) as [[du s1]|e] eqn:EU; cbn [bind]; [|discriminate].
  destruct (lur_step _ r du) as [[du2 rec3]|e]; cbn [bind]; [|discriminate].
  intro H. inversion H; subst. cbn. intro Hn. pose proof (update_searcher_nodup _ _ _ _ _ _ _ _ EU Hn).
  destruct du2; [apply label_nodup|]; assumption.
Qed.

Lemma report_core_nodup cfg st t r v cont st' d :
  report_core cfg st t r v cont = Ok (st', d) -> obs_nodup (srch st) -> obs_nodup (srch st').
Proof.
  unfold report_core. destruct (on_trial_result cfg st t r v cont) as [[st1 d1]|] eqn:E; cbn [bind]; [|discriminate].
  intro H. inversion H; subst. intro Hn. pose proof (on_trial_result_nodup _ _ _ _ _ _ _ _ E Hn) as H1.
  destruct d1; auto; unfold on_trial_remove; destruct (find t (trials st1)); auto.
Qed.

Lemma step_nodup cfg st e st' d : step cfg st e = Ok (st', d) -> obs_nodup (srch st) -> obs_nodup (srch st').
Proof.
  destruct e as [t b|t r v cont|t b|t r v|t|t r v]; cbn [step]; try (intros H Hn; exact (report_core_nodup _ _ _ _ _ _ _ _ H Hn)).
  - unfold on_start. destruct (find t (trials st)); [discriminate|].
    destruct (register_all _ _ _) as [s1|] eqn:ER; cbn [bind]; [|discriminate].
    intro H. inversion H; subst. cbn. unfold obs_nodup. rewrite (register_all_obs _ _ _ _ ER). auto.
  - unfold on_resume. destruct (sty cfg); [discriminate|]. destruct (find t (trials st)) as [rec|]; [|discriminate].
    destruct (paused_at _ _) as [L|]; [|discriminate]. destruct (negb _); [discriminate|].
    destruct (decision_eqb _ _); [discriminate|].
    destruct (register_all _ _ _) as [s1|] eqn:ER; cbn [bind]; [|discriminate].
    intro H. inversion H; subst. cbn. unfold obs_nodup. rewrite (register_all_obs _ _ _ _ ER). auto.
  - unfold on_trial_complete. destruct (find t (trials st)) as [rec|]; cbn [bind]; [|discriminate].
    intro H. inversion H; subst. cbn. intro Hn. destruct (lur rec) as [l|]; [|exact Hn].
    destruct (l <? r); [apply label_nodup|]; exact Hn.
  - intro H. inversion H; subst. unfold on_trial_error. destruct (find t (trials st)); cbn; auto.
Qed.

Lemma run_nodup cfg h : forall st st', run cfg st h = Ok st' -> obs_nodup (srch st) -> obs_nodup (srch st').
Proof.
  induction h as [|e h IH]; intros st st'; cbn [run]; [intro H; inversion H; subst; auto|].
  destruct (step cfg st e) as [[st1 d]|] eqn:E; cbn [bind]; [|discriminate].
  intros H Hn. eapply IH; eauto. eapply step_nodup; eauto.
Qed.

(* ------------------------------------------------------------------ *)
(* append_pending's assertion is unreachable: for ANY event sequence    *)
(* ------------------------------------------------------------------ *)
Lemma bind_no_append {A B} (x : res A) (f : A -> res B) :
  x <> Error EAppendPending -> (forall a, f a <> Error EAppendPending) -> bind x f <> Error EAppendPending.
Proof. destruct x; cbn; [intros _ H; apply H | intros H _ E; apply H; inversion E; reflexivity]. Qed.

Lemma report_core_no_append cfg st t r v cont : report_core cfg st t r v cont <> Error EAppendPending.
Proof.
  unfold report_core. apply bind_no_append; [|intros [? ?]; discriminate].
  unfold on_trial_result. destruct (find t (trials st)) as [rec|]; [|discriminate].
  destruct (dec rec); try discriminate.
  apply bind_no_append.
  - unfold on_task_report. destruct (task_bracket rec); [|discriminate]. destruct (r <? max_t cfg); [|discriminate].
    destruct (sty cfg).
    + destruct (r =? max_t cfg); [discriminate|]. destruct (stop_loop _ _ _ _ _) as [[[? ?] ?] ?]. discriminate.
    + destruct (running rec) as [[ms rf]|]; [|discriminate]. destruct (ms <=? r); [|discriminate].
      destruct (negb _); [discriminate|]. destruct (mem_Z _ _); [|discriminate]. destruct (in_rung _ _); discriminate.
  - intros [rec1 ti]. destruct (ignore_data ti); [discriminate|]. apply bind_no_append.
    + unfold update_searcher. apply bind_no_append.
      * destruct (fst (us_plan cfg r ti)); [|discriminate]. unfold us_internal. destruct (pol cfg); try discriminate.
        destruct (reported rec1) as [[? ?]|]; [|discriminate]. destruct (negb _); [|discriminate].
        unfold remove_case. destruct (is_labeled _ _ _); discriminate.
      * intro s1. apply bind_no_append; [apply register_all_no_append | discriminate].
    + intros [du s1]. apply bind_no_append; [|intros [? ?]; discriminate].
      unfold lur_step. destruct du; [|discriminate].
      match goal with |- context [if ?c then Error _ else _] => destruct c end; [discriminate|].
      match goal with |- context [if ?c then _ else _] => destruct c end; discriminate.
Qed.

Lemma step_no_append cfg st e : step cfg st e <> Error EAppendPending.
Proof.
  destruct e as [t b|t r v cont|t b|t r v|t|t r v]; cbn [step]; try apply report_core_no_append.
  - apply bind_no_append; [|discriminate]. unfold on_start. destruct (find t (trials st)); [discriminate|].
    apply bind_no_append; [apply register_all_no_append | discriminate].
  - apply bind_no_append; [|discriminate]. unfold on_resume. destruct (sty cfg); [discriminate|].
    destruct (find t (trials st)) as [rec|]; [|discriminate]. destruct (paused_at _ _); [|discriminate].
    destruct (negb _); [discriminate|]. destruct (decision_eqb _ _); [discriminate|].
    apply bind_no_append; [apply register_all_no_append | discriminate].
  - apply bind_no_append; [|discriminate]. unfold on_trial_complete. destruct (find t (trials st)); discriminate.
  - discriminate.
Qed.

Lemma run_no_append cfg h : forall st, run cfg st h <> Error EAppendPending.
Proof.
  induction h as [|e h IH]; intro st; cbn [run]; [discriminate|].
  apply bind_no_append; [apply step_no_append | intros [st' d]; apply IH].
Qed.

(* ------------------------------------------------------------------ *)
(* completion and failure clear the trial's pending entries, whatever   *)
(* the state, and leave every other trial's entries alone               *)
(* ------------------------------------------------------------------ *)
Lemma cleanup_pending_spec s t p : In p (pend (cleanup_pending s t)) <-> In p (pend s) /\ fst p <> t.
Proof. unfold cleanup_pending. cbn. rewrite filter_In, negb_true_iff, Z.eqb_neq. tauto. Qed.

Lemma complete_clears cfg st t r v st' :
  on_trial_complete cfg st t r v = Ok st' -> forall r', ~ In (t, r') (pend (srch st')).
Proof.
  unfold on_trial_complete. destruct (find t (trials st)); [|discriminate]. intro H. inversion H; subst. cbn [srch].
  intros r' Hin. apply cleanup_pending_spec in Hin. cbn in Hin. tauto.
Qed.
Lemma error_clears st t : forall r', ~ In (t, r') (pend (srch (on_trial_error st t))).
Proof.
  intros r' Hin. unfold on_trial_error in Hin.
  assert (H : In (t, r') (pend (evaluation_failed (srch st) t))) by (destruct (find t (trials st)); exact Hin).
  unfold evaluation_failed, mark_failed in H. cbn [pend] in H. apply cleanup_pending_spec in H. cbn in H. tauto.
Qed.

(* ------------------------------------------------------------------ *)
(* rung level arithmetic                                               *)
(* ------------------------------------------------------------------ *)
Lemma incr_from_lt lo l : incr_from lo l = true -> forall x, In x l -> lo < x.
Proof.
  revert lo. induction l as [|y l IH]; intros lo H x; cbn in *; [tauto|].
  apply andb_true_iff in H as [H1 H2]. intros [->|Hin]; [lia|]. specialize (IH _ H2 _ Hin). lia.
Qed.
Lemma incr_from_weaken lo lo' l : lo' <= lo -> incr_from lo l = true -> incr_from lo' l = true.
Proof. destruct l; cbn; [auto|]. intros ? H. apply andb_true_iff in H as [H1 H2]. apply andb_true_iff. split; [lia | exact H2]. Qed.
Lemma incr_from_skipn lo l : forall b, incr_from lo l = true -> incr_from lo (skipn b l) = true.
Proof.
  revert lo. induction l as [|y l IH]; intros lo [|b] H; cbn in *; auto.
  apply andb_true_iff in H as [H1 H2]. apply IH. eapply incr_from_weaken; [|exact H2]. lia.
Qed.
Lemma In_skipn {A} (x : A) l : forall b, In x (skipn b l) -> In x l.
Proof. induction l as [|y l IH]; intros [|b]; cbn; auto. intro H. right. eapply IH. exact H. Qed.

(* first element of an increasing list is the least; [nth b l mt] is the least of skipn b l ++ [mt] *)
Lemma nth_skipn_least mt l : forall lo b, incr_from lo l = true -> (forall x, In x l -> x < mt) ->
  (In (nth b l mt) (skipn b l) \/ nth b l mt = mt) /\ forall m, In m (skipn b l) \/ m = mt -> nth b l mt <= m.
Proof.
  induction l as [|y l IH]; intros lo b H Hmt.
  - destruct b; cbn; (split; [right; reflexivity | intros m [Hf| ->]; [destruct Hf | lia]]).
  - cbn in H. apply andb_true_iff in H as [H1 H2]. destruct b as [|b]; cbn [nth skipn].
    + split; [left; left; reflexivity|]. intros m [[->|Hin]| ->]; [lia | | ].
      * pose proof (incr_from_lt _ _ H2 _ Hin). lia.
      * specialize (Hmt y (or_introl eq_refl)). lia.
    + apply (IH y b H2). intros x Hx. apply Hmt. right. exact Hx.
Qed.

Lemma succ_level_spec mt l : forall lo m, incr_from lo l = true -> (forall x, In x l -> x < mt) -> In m l ->
  m < succ_level mt l m /\ (In (succ_level mt l m) l \/ succ_level mt l m = mt).
Proof.
  induction l as [|y l IH]; intros lo m H Hmt Hin; [destruct Hin|].
  cbn in H. apply andb_true_iff in H as [H1 H2]. cbn [succ_level]. destruct (y =? m) eqn:E.
  - assert (y = m) by lia. subst y. destruct l as [|z l'].
    + split; [apply Hmt; left; reflexivity | right; reflexivity].
    + cbn in H2. apply andb_true_iff in H2 as [H3 _]. split; [lia | left; right; left; reflexivity].
  - destruct Hin as [->|Hin]; [lia|]. destruct (IH y m H2) as [A B]; [intros x Hx; apply Hmt; right; exact Hx | exact Hin |].
    split; [exact A | destruct B; [left; right; assumption | right; assumption]].
Qed.

Fixpoint desc_from (hi : Z) (l : list Z) : Prop :=
  match l with [] => True | x :: r => x < hi /\ desc_from x r end.
Lemma desc_from_lt h l : desc_from h l -> forall x, In x l -> x < h.
Proof.
  revert h. induction l as [|y l IH]; intros h H x; cbn in *; [tauto|]. destruct H as [H1 H2].
  intros [->|Hin]; [exact H1|]. specialize (IH _ H2 _ Hin). lia.
Qed.
Lemma desc_from_snoc l : forall h x, desc_from h l -> x < h -> (forall y, In y l -> x < y) -> desc_from h (l ++ [x]).
Proof.
  induction l as [|y l IH]; intros h x H Hx Hall; cbn in *; [auto|]. destruct H as [H1 H2].
  split; [exact H1|]. apply IH; [exact H2 | apply Hall; left; reflexivity | intros z Hz; apply Hall; right; exact Hz].
Qed.
Lemma desc_from_rev mt l : forall lo, incr_from lo l = true -> (forall x, In x l -> x < mt) -> desc_from mt (rev l).
Proof.
  induction l as [|y l IH]; intros lo H Hmt; cbn; [exact I|].
  cbn in H. apply andb_true_iff in H as [H1 H2]. apply desc_from_snoc.
  - apply (IH y H2). intros x Hx. apply Hmt. right. exact Hx.
  - apply Hmt. left. reflexivity.
  - intros z Hz. apply in_rev in Hz. apply (incr_from_lt _ _ H2 _ Hz).
Qed.

Lemma in_rung_In rec m : in_rung rec m = true <-> exists p, In (m, p) (in_rungs rec).
Proof.
  unfold in_rung. rewrite existsb_exists. split.
  - intros [[L p] [Hin HE]]. cbn in HE. assert (L = m) by lia. subst. eauto.
  - intros [p Hin]. exists (m, p). split; [exact Hin | cbn; lia].
Qed.

(* below the reported level nothing is a milestone any more *)
Lemma stop_loop_below rec r cont : forall ms next, (forall m, In m ms -> m < r) ->
  exists nx, stop_loop rec r cont ms next = (true, false, nx, None).
Proof.
  induction ms as [|m ms IH]; intros next H; cbn [stop_loop]; [eauto|].
  assert (m < r) by (apply H; left; reflexivity).
  destruct ((r <? m) || in_rung rec m) eqn:E.
  - apply IH. intros m' Hm'. apply H. right. exact Hm'.
  - destruct (m <? r) eqn:E2; [eauto | lia].
Qed.

Lemma stop_loop_spec rec r cont : forall ms next c mr nx add,
  desc_from next ms -> r < next -> stop_loop rec r cont ms next = (c, mr, nx, add) ->
  (mr = true -> add = Some r /\ In r ms /\ in_rung rec r = false /\ c = cont /\ r < nx /\ (nx = next \/ In nx ms) /\ nx <= next /\
                forall m, In m ms -> r < m -> nx <= m) /\
  (mr = false -> add = None /\ c = true).
Proof.
  induction ms as [|m ms IH]; intros next c mr nx add Hd Hr; cbn [stop_loop].
  - intro H. inversion H; subst. split; [discriminate | auto].
  - cbn in Hd. destruct Hd as [Hm Hd]. destruct (r <? m) eqn:E1; cbn [orb].
    + intro H. destruct (IH m c mr nx add Hd ltac:(lia) H) as [A B]. split; [|exact B].
      intro Hmr. destruct (A Hmr) as [A1 [A2 [A3 [A4 [A5 [A6 [A7 A8]]]]]]].
      repeat split; auto; [right; exact A2 | destruct A6; [right; left; auto | right; right; auto] | lia |].
      intros m' [->|Hin] Hlt; [lia | auto].
    + destruct (in_rung rec m) eqn:E2.
      * intro H. destruct (stop_loop_below rec r cont ms m) as [nx' E].
        { intros m' Hm'. pose proof (desc_from_lt _ _ Hd _ Hm'). lia. }
        rewrite E in H. inversion H; subst. split; [discriminate | auto].
      * destruct (m <? r) eqn:E3.
        -- intro H. inversion H; subst. split; [discriminate | auto].
        -- intro H. inversion H; subst. assert (m = r) by lia. subst m. split; [|discriminate].
           intros _. repeat split; auto; [left; reflexivity | lia |].
           intros m' [->|Hin] Hlt; [lia|]. pose proof (desc_from_lt _ _ Hd _ Hin). lia.
Qed.

Lemma paused_at_spec rec : forall levels,
  (exists L0, In L0 levels /\ In (L0, false) (in_rungs rec)) ->
  exists L, paused_at rec levels = Some L /\ In L levels /\ In (L, false) (in_rungs rec).
Proof.
  induction levels as [|m levels IH]; intros [L0 [Hin Hr]]; [destruct Hin|]. cbn [paused_at].
  destruct (existsb _ (in_rungs rec)) eqn:E.
  - exists m. split; [reflexivity|]. split; [left; reflexivity|]. apply existsb_exists in E as [[L p] [H1 H2]].
    cbn in H2. assert (L = m) by lia. assert (p = false) by (destruct p; [discriminate H2 || lia | reflexivity]). subst. exact H1.
  - destruct Hin as [->|Hin].
    + exfalso. assert (existsb (fun e : Z * bool => (fst e =? L0) && negb (snd e)) (in_rungs rec) = true); [|congruence].
      apply existsb_exists. exists (L0, false). split; [exact Hr | cbn; lia].
    + destruct (IH (ex_intro _ L0 (conj Hin Hr))) as [L [A [B C]]]. exists L. split; [exact A|]. split; [right; exact B | exact C].
Qed.

Lemma In_mark_promoted L L' p' l : In (L', p') (mark_promoted L l) ->
  exists p0, In (L', p0) l /\ (L' = L -> p' = true) /\ (L' <> L -> p' = p0).
Proof.
  unfold mark_promoted. rewrite in_map_iff. intros [[L1 p1] [HE Hin]]. cbn in HE.
  destruct (L1 =? L) eqn:E; inversion HE; subst.
  - exists p1. split; [exact Hin|]. split; [auto | lia].
  - exists p'. split; [exact Hin|]. split; [lia | auto].
Qed.

Lemma in_rung_mark_promoted L m l :
  existsb (fun e : Z * bool => fst e =? m) (mark_promoted L l) = existsb (fun e : Z * bool => fst e =? m) l.
Proof.
  unfold mark_promoted. induction l as [|[a b] l IH]; cbn; [reflexivity|]. rewrite IH.
  destruct (a =? L); reflexivity.
Qed.

Lemma lookup_note k k' v rp :
  lookup_rep k (note_rep k' v rp) =
  match lookup_rep k rp with Some x => Some x | None => if key_eqb k k' then Some v else None end.
Proof.
  unfold note_rep. destruct (lookup_rep k' rp) eqn:E.
  - destruct (lookup_rep k rp) eqn:E2; [reflexivity|]. destruct (key_eqb k k') eqn:E3; [|reflexivity].
    apply key_eqb_eq in E3. congruence.
  - induction rp as [|x rp IH]; cbn.
    + rewrite key_eqb_refl || idtac. destruct (key_eqb k k'); reflexivity.
    + cbn in E. destruct (key_eqb k' (fst x)) eqn:E1; [discriminate|]. destruct (key_eqb k (fst x)); [reflexivity | apply IH; exact E].
Qed.

(* ------------------------------------------------------------------ *)
(* the invariant of legal histories                                     *)
(* ------------------------------------------------------------------ *)
(* a report of a trial that is not running (late report after STOP / PAUSE / failure / completion) is ignored:
   nothing is stored, no pending evaluation is registered, the earlier decision is repeated; and the
   on_trial_remove the tuner issues for that decision leaves the searcher state alone *)
Lemma late_report_ignored cfg st t r v cont rec : find t (trials st) = Some rec -> dec rec <> CONTINUE ->
  on_trial_result cfg st t r v cont = Ok (st, dec rec) /\ srch (on_trial_remove st t) = srch st.
Proof.
  intros Hf Hd. unfold on_trial_result, on_trial_remove. rewrite Hf. split; [|reflexivity].
  destruct (dec rec); [congruence | reflexivity | reflexivity].
Qed.

Lemma crit_compat cfg v v' : (v == v')%Q -> (crit cfg v == crit cfg v')%Q.
Proof. unfold crit. intro H. destruct (maximize cfg); [rewrite H; reflexivity | exact H]. Qed.

Section Invariant.
Variable cfg : config.
Hypothesis WF : wf_config cfg = true.

Definition rungs_or_max (m : Z) : Prop := In m (rung_levels cfg) \/ m = max_t cfg.

Lemma wf_incr : incr_from 0 (rung_levels cfg) = true.
Proof. unfold wf_config in WF. apply andb_true_iff in WF as [W _]. apply andb_true_iff in W as [W _]. exact W. Qed.
Lemma wf_lt_max : forall x, In x (rung_levels cfg) -> x < max_t cfg.
Proof.
  unfold wf_config in WF. apply andb_true_iff in WF as [W _]. apply andb_true_iff in W as [_ W].
  rewrite forallb_forall in W. intros x Hx. specialize (W x Hx). lia.
Qed.
Lemma wf_max_pos : 1 <= max_t cfg.
Proof. unfold wf_config in WF. apply andb_true_iff in WF as [_ W]. lia. Qed.
Lemma wf_pos : forall x, In x (rung_levels cfg) -> 0 < x.
Proof. apply incr_from_lt. exact wf_incr. Qed.
Lemma rungs_or_max_pos m : rungs_or_max m -> 0 < m.
Proof. intros [H| ->]; [apply wf_pos; exact H | pose proof wf_max_pos; lia]. Qed.

(* milestone levels a running trial can still hit *)
Definition MS (rec : tr) (m : Z) : Prop :=
  match sty cfg with
  | Promotion => exists rf, running rec = Some (m, rf)
  | Stopping => exists b, task_bracket rec = Some b /\ (In m (skipn b (rung_levels cfg)) \/ m = max_t cfg)
  end.

Record Good (s : sstate) (rp : list ((Z * Z) * Q)) (t : Z) (rec : tr) : Prop := {
  g_val : forall r c, In ((t, r), c) (obs s) -> exists v, lookup_rep (t, r) rp = Some v /\ (c == crit cfg v)%Q;
  g_obs_hi : forall r c, In ((t, r), c) (obs s) -> r <= hi rec;
  g_pend : forall p, In (t, p) (pend s) -> dec rec = CONTINUE /\ hi rec < p;
  g_pend_ub : forall p m, In (t, p) (pend s) -> MS rec m -> hi rec < m -> p <= m;
  g_pend_rungs : pol cfg = Rungs -> forall p, In (t, p) (pend s) -> rungs_or_max p;
  g_lur : forall l, lur rec = Some l -> l <= hi rec;
  g_rep : forall r v, reported rec = Some (r, v) ->
          lookup_rep (t, r) rp = Some v /\ (pol cfg <> Rungs -> is_labeled s t r = true);
  g_reps : forall r, lookup_rep (t, r) rp <> None -> r <= hi rec;
  g_hi0 : 0 <= hi rec;
  g_run : dec rec = CONTINUE -> task_bracket rec <> None /\
          (sty cfg = Promotion -> exists ms rf, running rec = Some (ms, rf) /\ hi rec < ms /\ rungs_or_max ms /\
             (forall f, rf = Some f -> f < ms /\ exists l, lur rec = Some l /\ f <= l));
  g_stop : sty cfg = Stopping -> running rec = None;
  g_rungs : sty cfg = Promotion -> forall L p, In (L, p) (in_rungs rec) ->
            In L (rung_levels cfg) /\ L <= hi rec /\
            (p = false -> dec rec <> CONTINUE /\ hi rec = L /\ exists l, lur rec = Some l /\ L <= l);
  (* --- which levels are in the data (searcher_data policy) --- *)
  g_in_le : forall L p, In (L, p) (in_rungs rec) -> In L (rung_levels cfg) /\ L <= hi rec;
  g_in_lab : forall L p, In (L, p) (in_rungs rec) -> is_labeled s t L = true;
  g_keep : forall r v, reported rec = Some (r, v) ->
           (keep_case rec = true -> in_rung rec r = true \/ max_t cfg <= r) /\ (keep_case rec = false -> in_rung rec r = false);
  g_pol : forall r c, In ((t, r), c) (obs s) ->
          match pol cfg with
          | AllData => True
          | Rungs => rungs_or_max r \/ (dec rec <> CONTINUE /\ exists v, reported rec = Some (r, v))
          | RungsAndLast => in_rung rec r = true \/ exists v, reported rec = Some (r, v)
          end;
  g_present : forall r, lookup_rep (t, r) rp <> None ->
              pol cfg = AllData \/ (pol cfg = Rungs /\ rungs_or_max r) -> is_labeled s t r = true;
  g_dense : forall x, 1 <= x <= hi rec -> lookup_rep (t, x) rp <> None
}.

Definition Absent (s : sstate) (rp : list ((Z * Z) * Q)) (t : Z) : Prop :=
  (forall r c, ~ In ((t, r), c) (obs s)) /\ (forall p, ~ In (t, p) (pend s)) /\ (forall r, lookup_rep (t, r) rp = None).

Definition Inv (st : state) : Prop :=
  NoDup (pend (srch st)) /\ obs_nodup (srch st) /\
  forall t, match find t (trials st) with
            | Some rec => Good (srch st) (reps st) t rec
            | None => Absent (srch st) (reps st) t
            end.

(* entries of trial t are the same in (s, rp) and (s', rp') *)
Definition same_for (t : Z) (s s' : sstate) (rp rp' : list ((Z * Z) * Q)) : Prop :=
  (forall r c, In ((t, r), c) (obs s') <-> In ((t, r), c) (obs s)) /\
  (forall p, In (t, p) (pend s') <-> In (t, p) (pend s)) /\
  (forall r, lookup_rep (t, r) rp' = lookup_rep (t, r) rp).

Lemma same_for_labeled t s s' rp rp' r : same_for t s s' rp rp' -> is_labeled s' t r = is_labeled s t r.
Proof.
  intros [H _]. destruct (is_labeled s t r) eqn:E.
  - apply is_labeled_In in E as [c Hc]. apply is_labeled_In. exists c. apply H. exact Hc.
  - destruct (is_labeled s' t r) eqn:E2; [|reflexivity]. apply is_labeled_In in E2 as [c Hc]. apply H in Hc.
    assert (is_labeled s t r = true) by (apply is_labeled_In; eauto). congruence.
Qed.

Lemma Good_ext t rec s s' rp rp' : same_for t s s' rp rp' -> Good s rp t rec -> Good s' rp' t rec.
Proof.
  intros HS G. pose proof (fun r => same_for_labeled t s s' rp rp' r HS) as HL.
  destruct HS as [Ho [Hp Hr]]. destruct G. constructor; auto.
  - intros r c H. rewrite Hr. apply g_val0. apply Ho. exact H.
  - intros r c H. eapply g_obs_hi0. apply Ho. exact H.
  - intros p H. apply g_pend0. apply Hp. exact H.
  - intros p m H. apply g_pend_ub0. apply Hp. exact H.
  - intros HP p H. apply g_pend_rungs0; [exact HP | apply Hp; exact H].
  - intros r v H. rewrite Hr, HL. apply g_rep0. exact H.
  - intros r H. apply g_reps0. rewrite <- Hr. exact H.
  - intros L p H. rewrite HL. eauto.
  - intros r c H. apply (g_pol0 r c). apply Ho. exact H.
  - intros r H H2. rewrite HL. apply g_present0; [rewrite <- Hr; exact H | exact H2].
  - intros x H. rewrite Hr. auto.
Qed.

Lemma Absent_ext t s s' rp rp' : same_for t s s' rp rp' -> Absent s rp t -> Absent s' rp' t.
Proof.
  intros [Ho [Hp Hr]] [A [B C]]. repeat split.
  - intros r c H. apply (A r c). apply Ho. exact H.
  - intros p H. apply (B p). apply Hp. exact H.
  - intro r. rewrite Hr. apply C.
Qed.

Lemma same_for_refl t s rp : same_for t s s rp rp.
Proof. repeat split; auto. Qed.
Lemma same_for_trans t s1 s2 s3 r1 r2 r3 : same_for t s1 s2 r1 r2 -> same_for t s2 s3 r2 r3 -> same_for t s1 s3 r1 r3.
Proof.
  intros [A [B C]] [A' [B' C']]. repeat split; intros.
  - apply A. apply A'. assumption.
  - apply A'. apply A. assumption.
  - apply B. apply B'. assumption.
  - apply B'. apply B. assumption.
  - rewrite C'. apply C.
Qed.

Lemma same_for_label t t' s r c rp : t' <> t -> same_for t' s (label s t r c) rp rp.
Proof.
  intro Hne. unfold label. repeat split; cbn [obs pend]; intros.
  - apply In_set_obs in H as [[E _]|[[_ H]|[E _]]]; [inversion E; congruence | exact H | inversion E; congruence].
  - apply set_obs_keeps; [intro E; inversion E; congruence | exact H].
  - eapply In_remove_first; eauto.
  - apply In_remove_first_other; [intro E; inversion E; congruence | exact H].
Qed.

Lemma same_for_register_all t t' s rs s' rp : t' <> t -> register_all s t rs = Ok s' -> same_for t' s s' rp rp.
Proof.
  intros Hne E. revert s s' E. induction rs as [|r rs IH]; intros s s' E; cbn in E.
  - inversion E; subst. apply same_for_refl.
  - destruct (register_pending s t r) as [s1|] eqn:E1; cbn in E; [|discriminate].
    eapply same_for_trans; [|eapply IH; eauto].
    unfold register_pending, append_pending in E1. destruct (is_pending s t r); [inversion E1; subst; apply same_for_refl|].
    destruct (is_labeled s t r); [discriminate|]. inversion E1; subst. repeat split; cbn [obs pend]; auto.
    + intro H. apply in_app_or in H as [H|[H|[]]]; [exact H | inversion H; congruence].
    + intro H. apply in_or_app. left. exact H.
Qed.

Lemma same_for_remove_case t t' s r s' rp : t' <> t -> remove_case s t r = Ok s' -> same_for t' s s' rp rp.
Proof.
  intros Hne E. unfold remove_case in E. destruct (is_labeled s t r); [|discriminate]. inversion E; subst.
  repeat split; cbn [obs pend]; auto; intros.
  - apply filter_In in H. tauto.
  - apply filter_In. split; [exact H|]. cbn. apply negb_true_iff. apply key_eqb_neq. intro E2. inversion E2; congruence.
Qed.

Lemma same_for_cleanup t t' s rp : t' <> t -> same_for t' s (cleanup_pending s t) rp rp.
Proof.
  intro Hne. repeat split; cbn [obs]; auto; intros.
  - apply cleanup_pending_spec in H. tauto.
  - apply cleanup_pending_spec. split; [exact H | cbn; exact Hne].
Qed.

Lemma same_for_failed t t' s rp : t' <> t -> same_for t' s (evaluation_failed s t) rp rp.
Proof.
  intro Hne. unfold evaluation_failed, mark_failed. destruct (same_for_cleanup t t' s rp Hne) as [A [B C]].
  repeat split; cbn [obs pend]; auto; intros; apply B; assumption.
Qed.

Lemma same_for_note t t' s r v rp : t' <> t -> same_for t' s s rp (note_rep (t, r) v rp).
Proof.
  intro Hne. repeat split; auto. intro r'. rewrite lookup_note. destruct (lookup_rep (t', r') rp); [reflexivity|].
  destruct (key_eqb (t', r') (t, r)) eqn:E; [apply key_eqb_eq in E; inversion E; congruence | reflexivity].
Qed.

Lemma same_for_us_internal t t' s rec s' rp : t' <> t -> us_internal cfg s rec t = Ok s' -> same_for t' s s' rp rp.
Proof.
  intros Hne. unfold us_internal. destruct (pol cfg); try (intro E; inversion E; subst; apply same_for_refl).
  destruct (reported rec) as [[r' v']|]; [|intro E; inversion E; subst; apply same_for_refl].
  destruct (negb (keep_case rec)); [apply same_for_remove_case; exact Hne | intro E; inversion E; subst; apply same_for_refl].
Qed.

Lemma report_core_same_for st t r v cont st' d t' : report_core cfg st t r v cont = Ok (st', d) -> t' <> t ->
  same_for t' (srch st) (srch st') (reps st) (reps st') /\ find t' (trials st') = find t' (trials st).
Proof.
  unfold report_core. intros E Hne.
  destruct (on_trial_result cfg st t r v cont) as [[st1 d1]|] eqn:E1; cbn in E; [|discriminate].
  assert (H1 : same_for t' (srch st) (srch st1) (reps st) (reps st1) /\ find t' (trials st1) = find t' (trials st)).
  { unfold on_trial_result in E1. destruct (find t (trials st)) as [rec|]; [|discriminate].
    destruct (dec rec); try (inversion E1; subst; cbn; split; [apply same_for_refl | reflexivity]).
    destruct (on_task_report cfg rec r cont) as [[rec1 ti]|]; cbn in E1; [|discriminate].
    destruct (ignore_data ti).
    { inversion E1; subst. cbn. split; [apply same_for_refl | apply find_upd_other; exact Hne]. }
    destruct (update_searcher cfg (srch st) rec1 t r ti) as [[du s1]|] eqn:EU; cbn in E1; [|discriminate].
    destruct (lur_step _ r du) as [[du2 rec3]|]; cbn in E1; [|discriminate].
    inversion E1; subst. cbn [srch trials reps]. split; [|apply find_upd_other; exact Hne].
    unfold update_searcher in EU.
    destruct (if fst (us_plan cfg r ti) then us_internal cfg (srch st) rec1 t else Ok (srch st)) as [sa|] eqn:EA; cbn in EU; [|discriminate].
    destruct (register_all sa t _) as [sb|] eqn:EB; cbn in EU; [|discriminate]. inversion EU; subst.
    assert (same_for t' (srch st) sa (reps st) (reps st)).
    { destruct (fst (us_plan cfg r ti)); [eapply same_for_us_internal; eauto | inversion EA; subst; apply same_for_refl]. }
    eapply same_for_trans; [exact H|]. eapply same_for_trans; [eapply same_for_register_all; eauto|].
    destruct du2; [apply same_for_label; exact Hne | apply same_for_refl]. }
  inversion E; subst. destruct d1; auto; unfold on_trial_remove; destruct (find t (trials st1)); cbn; auto;
    destruct H1 as [A B]; (split; [exact A | rewrite find_upd_other; auto]).
Qed.

(* frame of the whole step: entries of every other trial are untouched *)
Lemma step_same_for st e st' d t' :
  step cfg st e = Ok (st', d) ->
  t' <> match e with Start t _ | Report t _ _ _ | Resume t _ | Complete t _ _ | Fail t | Late t _ _ => t end ->
  same_for t' (srch st) (srch st') (reps st) (reps st') /\ find t' (trials st') = find t' (trials st).
Proof.
  destruct e as [t b|t r v cont|t b|t r v|t|t r v]; cbn [step]; intros E Hne; try (exact (report_core_same_for _ _ _ _ _ _ _ _ E Hne)).
  - unfold on_start in E. destruct (find t (trials st)) eqn:EF; [discriminate|].
    destruct (register_all _ _ _) as [s1|] eqn:ER; cbn in E; [|discriminate]. inversion E; subst. cbn [srch trials reps].
    split; [eapply same_for_register_all; eauto|]. rewrite find_app_new. destruct (find t' (trials st)); [reflexivity|].
    destruct (t =? t') eqn:E2; [lia | reflexivity].
  - destruct (report_core_same_for _ _ _ _ _ _ _ _ E Hne) as [A B]. cbn [srch trials reps] in A, B. split; [|exact B].
    eapply same_for_trans; [apply (same_for_note t t' (srch st) r v (reps st) Hne) | exact A].
  - unfold on_resume in E. destruct (sty cfg); [discriminate|]. destruct (find t (trials st)) as [rec|]; [|discriminate].
    destruct (paused_at _ _) as [L|]; [|discriminate]. destruct (negb _); [discriminate|].
    destruct (decision_eqb _ _); [discriminate|].
    destruct (register_all _ _ _) as [s1|] eqn:ER; cbn in E; [|discriminate]. inversion E; subst. cbn [srch trials reps].
    split; [eapply same_for_register_all; eauto | apply find_upd_other; exact Hne].
  - unfold on_trial_complete in E. destruct (find t (trials st)) as [rec|]; cbn in E; [|discriminate].
    inversion E; subst. cbn [srch trials reps]. split; [|apply find_upd_other; exact Hne].
    eapply same_for_trans; [|apply same_for_cleanup; exact Hne].
    destruct (lur rec) as [l|]; [|apply same_for_refl]. destruct (l <? r); [apply same_for_label; exact Hne | apply same_for_refl].
  - inversion E; subst. unfold on_trial_error. destruct (find t (trials st)); cbn [srch trials reps];
      (split; [apply same_for_failed; exact Hne | try reflexivity; try (apply find_upd_other; exact Hne)]).
Qed.

Lemma hi_cleanup rec d : hi (cleanup_rec rec d) = hi rec.
Proof. reflexivity. Qed.

(* --- on_trial_error ------------------------------------------------- *)
Lemma own_fail st t rec : Inv st -> find t (trials st) = Some rec ->
  let st' := on_trial_error st t in
  NoDup (pend (srch st')) /\ exists rec', find t (trials st') = Some rec' /\ Good (srch st') (reps st') t rec'.
Proof.
  intros [Hnd [Hno Hall]] Hf. pose proof (Hall t) as G. rewrite Hf in G. cbn zeta.
  unfold on_trial_error. rewrite Hf. cbn [srch trials reps]. split.
  - unfold evaluation_failed, mark_failed, cleanup_pending. cbn [pend]. apply NoDup_filter. exact Hnd.
  - exists (cleanup_rec rec STOP). split; [apply find_upd_same|].
    assert (HP : forall p, ~ In (t, p) (pend (evaluation_failed (srch st) t))).
    { intros p Hin. unfold evaluation_failed, mark_failed in Hin. cbn [pend] in Hin. apply cleanup_pending_spec in Hin. cbn in Hin. tauto. }
    destruct G. constructor; try rewrite hi_cleanup; auto.
    + intros p Hin. destruct (HP p Hin).
    + intros p m Hin. destruct (HP p Hin).
    + intros _ p Hin. destruct (HP p Hin).
    + cbn. discriminate.
    + intros HS L p Hin. destruct (g_rungs0 HS L p Hin) as [A [B C]]. split; [exact A|]. split; [exact B|].
      intro Hp. destruct (C Hp) as [_ [C2 C3]]. split; [cbn; discriminate | auto].
    + intros r c Hin. specialize (g_pol0 r c Hin). cbn [cleanup_rec dec reported in_rungs]. unfold in_rung in *. cbn [cleanup_rec in_rungs].
      destruct (pol cfg); auto. destruct g_pol0 as [H|[_ H]]; [left; exact H | right; split; [discriminate | exact H]].
Qed.

(* --- on_trial_complete ---------------------------------------------- *)
Lemma own_complete st t r v rec : Inv st -> find t (trials st) = Some rec -> legal_b cfg st (Complete t r v) = true ->
  exists st', on_trial_complete cfg st t r v = Ok st' /\
  NoDup (pend (srch st')) /\ exists rec', find t (trials st') = Some rec' /\ Good (srch st') (reps st') t rec'.
Proof.
  intros [Hnd [Hno Hall]] Hf Hl. pose proof (Hall t) as G. rewrite Hf in G.
  cbn [legal_b] in Hl. rewrite Hf in Hl. apply andb_true_iff in Hl as [Hd Hl].
  assert (Hdec : dec rec = CONTINUE) by (destruct (dec rec); cbn in Hd; congruence).
  unfold on_trial_complete. rewrite Hf. eexists. split; [reflexivity|]. cbn [srch trials reps].
  set (s1 := match lur rec with Some l => if l <? r then label (srch st) t r (crit cfg v) else srch st | None => srch st end).
  split.
  - unfold cleanup_pending. cbn [pend]. apply NoDup_filter. subst s1. destruct (lur rec) as [l|]; [|exact Hnd].
    destruct (l <? r); [|exact Hnd]. cbn [label pend]. apply NoDup_remove_first. exact Hnd.
  - exists (cleanup_rec rec STOP). split; [apply find_upd_same|].
    assert (HP : forall p, ~ In (t, p) (pend (cleanup_pending s1 t))).
    { intros p Hin. apply cleanup_pending_spec in Hin. cbn in Hin. tauto. }
    (* facts about s1 *)
    assert (Hs1 : (forall r' c, In ((t, r'), c) (obs s1) -> In ((t, r'), c) (obs (srch st)) \/
                     (r' = r /\ (c == crit cfg v)%Q /\ exists v', reported rec = Some (r, v') /\ (v == v')%Q)) /\
                  (forall r', is_labeled (srch st) t r' = true -> is_labeled s1 t r' = true)).
    { subst s1. destruct (lur rec) as [l|] eqn:EL; [|split; auto]. destruct (l <? r) eqn:ELR; [|split; auto].
      destruct (reported rec) as [[r0 v0]|] eqn:ER.
      - apply andb_true_iff in Hl as [H1 H2]. assert (r = r0) by lia. subst r0. apply Qeq_bool_iff in H2. split.
        + intros r' c Hin. cbn [label obs] in Hin. apply In_set_obs in Hin as [[E1 E2]|[[_ H]|[_ H]]]; auto.
          inversion E1; subst. right. split; [reflexivity|]. split; [reflexivity|]. eauto.
        + intros r' H. apply is_labeled_In in H as [c Hc]. apply is_labeled_In. cbn [label obs].
          destruct (key_eqb (t, r') (t, r)) eqn:EK.
          * apply key_eqb_eq in EK. inversion EK; subst. exists (crit cfg v). apply set_obs_has.
          * apply key_eqb_neq in EK. exists c. apply set_obs_keeps; assumption.
      - exfalso. pose proof (g_lur _ _ _ _ G l EL) as H. unfold hi in H, Hl. rewrite ER, EL in *. lia. }
    destruct Hs1 as [Hs1 Hs2].
    destruct G. constructor; try rewrite hi_cleanup; auto.
    + intros r' c Hin. cbn [cleanup_pending obs] in Hin. destruct (Hs1 r' c Hin) as [H|[-> [Hc [v' [Hr Hv]]]]]; [eauto|].
      exists v'. split; [apply (g_rep0 _ _ Hr)|]. rewrite Hc. apply crit_compat. exact Hv.
    + intros r' c Hin. cbn [cleanup_pending obs] in Hin. destruct (Hs1 r' c Hin) as [H|[-> [Hc [v' [Hr Hv]]]]]; [eauto|].
      unfold hi. rewrite Hr. lia.
    + intros p Hin. destruct (HP p Hin).
    + intros p m Hin. destruct (HP p Hin).
    + intros _ p Hin. destruct (HP p Hin).
    + intros r' v' Hr. destruct (g_rep0 r' v' Hr) as [A B]. split; [exact A|]. intro HP'. apply Hs2. exact (B HP').
    + cbn. discriminate.
    + intros HS L p Hin. destruct (g_rungs0 HS L p Hin) as [A [B C]]. split; [exact A|]. split; [exact B|].
      intro Hp. destruct (C Hp) as [C1 _]. congruence.
    + intros L p Hin. apply (Hs2 L). eauto.
    + intros r' c Hin. cbn [cleanup_pending obs] in Hin. cbn [cleanup_rec dec reported]. unfold in_rung. cbn [cleanup_rec in_rungs].
      destruct (Hs1 r' c Hin) as [H|[-> [Hc [v' [Hr Hv]]]]].
      * specialize (g_pol0 r' c H). unfold in_rung in g_pol0. destruct (pol cfg); auto.
        destruct g_pol0 as [H0|[_ H0]]; [left; exact H0 | right; split; [discriminate | exact H0]].
      * destruct (pol cfg); auto; right; [split; [discriminate|]|]; eauto.
    + intros r' H H2. apply (Hs2 r'). auto.
Qed.
Lemma first_milestone_spec b :
  rungs_or_max (first_milestone cfg b) /\
  forall m, In m (skipn b (rung_levels cfg)) \/ m = max_t cfg -> first_milestone cfg b <= m.
Proof.
  unfold first_milestone. destruct (nth_skipn_least (max_t cfg) (rung_levels cfg) 0 b wf_incr wf_lt_max) as [A B].
  split; [|exact B]. destruct A as [A|A]; [left; eapply In_skipn; eauto | right; exact A].
Qed.

(* --- suggest -> new trial -------------------------------------------- *)
Lemma own_start st t b : Inv st -> legal_b cfg st (Start t b) = true ->
  exists st', on_start cfg st t b = Ok st' /\
  NoDup (pend (srch st')) /\ exists rec', find t (trials st') = Some rec' /\ Good (srch st') (reps st') t rec'.
Proof.
  intros [Hnd [Hno Hall]] Hl. pose proof (Hall t) as A. cbn [legal_b] in Hl.
  destruct (find t (trials st)) eqn:Hf; [discriminate|]. destruct A as [A1 [A2 A3]].
  unfold on_start. rewrite Hf.
  set (fm := first_milestone cfg b).
  set (P := match pol cfg with Rungs => [fm] | _ => if myopic cfg then [1] else zrange 1 fm end).
  destruct (first_milestone_spec b) as [Hfm Hleast]. fold fm in Hfm, Hleast. pose proof (rungs_or_max_pos _ Hfm) as Hfmpos.
  destruct (register_all_spec t P (srch st)) as [s1 [E [Ho [Hfl [Hp Hn]]]]].
  { intros r _. destruct (is_labeled (srch st) t r) eqn:E; [|reflexivity]. apply is_labeled_In in E as [c Hc]. destruct (A1 r c Hc). }
  rewrite E. cbn [bind]. eexists. split; [reflexivity|]. cbn [srch trials reps]. split; [auto|].
  eexists. split; [rewrite find_app_new, Hf, Z.eqb_refl; reflexivity|].
  assert (HP : forall p, In (t, p) (pend s1) -> In p P).
  { intros p Hin. apply Hp in Hin as [[_ H]|H]; [exact H | destruct (A2 p H)]. }
  assert (HPpos : forall p, In p P -> 0 < p /\ p <= fm /\ (pol cfg = Rungs -> p = fm)).
  { intros p Hin. subst P. destruct (pol cfg); [destruct Hin as [<-|[]]; lia | |];
      (split; [|split; [|discriminate]]); destruct (myopic cfg);
      try (destruct Hin as [<-|[]]; lia); apply In_zrange in Hin; lia. }
  constructor; unfold hi; cbn [reported lur dec task_bracket running in_rungs].
  - intros r c Hin. rewrite Ho in Hin. destruct (A1 r c Hin).
  - intros r c Hin. rewrite Ho in Hin. destruct (A1 r c Hin).
  - intros p Hin. split; [reflexivity|]. apply HPpos. apply HP. exact Hin.
  - intros p m Hin HM _. destruct (HPpos p (HP p Hin)) as [_ [Hle _]]. unfold MS in HM. destruct (sty cfg).
    + destruct HM as [b' [Hb HM]]. cbn in Hb. inversion Hb; subst b'. specialize (Hleast m HM). lia.
    + destruct HM as [rf HM]. cbn in HM. inversion HM; subst. lia.
  - intros HR p Hin. destruct (HPpos p (HP p Hin)) as [_ [_ H]]. rewrite (H HR). exact Hfm.
  - discriminate.
  - discriminate.
  - intros r H. rewrite A3 in H. congruence.
  - lia.
  - intros _. split; [discriminate|]. intro HS. rewrite HS. exists fm, None. split; [reflexivity|]. split; [lia|]. split; [exact Hfm|]. discriminate.
  - intro HS. rewrite HS. reflexivity.
  - intros _ L p [].
  - intros L p [].
  - intros L p [].
  - discriminate.
  - intros r c Hin. rewrite Ho in Hin. destruct (A1 r c Hin).
  - intros r H. rewrite A3 in H. congruence.
  - intros x H. lia.
Qed.
(* --- suggest -> resume (promotion) ----------------------------------- *)
Lemma own_resume st t b : Inv st -> legal_b cfg st (Resume t b) = true ->
  exists st', on_resume cfg st t b = Ok st' /\
  NoDup (pend (srch st')) /\ exists rec', find t (trials st') = Some rec' /\ Good (srch st') (reps st') t rec'.
Proof.
  intros [Hnd [Hno Hall]] Hl. pose proof (Hall t) as G. cbn [legal_b] in Hl. unfold on_resume.
  destruct (sty cfg) eqn:HS; [discriminate|]. destruct (find t (trials st)) as [rec|] eqn:Hf; [|discriminate].
  apply andb_true_iff in Hl as [Hd Hex]. apply negb_true_iff in Hd.
  assert (Hdec : dec rec <> CONTINUE) by (intro E; rewrite E in Hd; discriminate).
  apply existsb_exists in Hex as [[L0 p0] [Hin0 Hp0]]. cbn in Hp0. destruct p0; [discriminate|].
  pose proof (g_rungs _ _ _ _ G HS) as GR.
  destruct (paused_at_spec rec (rev (rung_levels cfg))) as [L [EP [_ HinL]]].
  { exists L0. split; [apply -> in_rev; apply (GR _ _ Hin0) | exact Hin0]. }
  rewrite EP. destruct (GR _ _ HinL) as [HLr [HLhi HLf]]. destruct (HLf eq_refl) as [_ [HhiL [l [Hlur HLl]]]].
  destruct (succ_level_spec (max_t cfg) (rung_levels cfg) 0 L wf_incr wf_lt_max HLr) as [Hms1 Hms2].
  set (ms := succ_level (max_t cfg) (rung_levels cfg) L) in *.
  assert (E1 : negb (L <? ms) = false) by lia. rewrite E1, Hd.
  assert (Hl_eq : l = L). { pose proof (g_lur _ _ _ _ G l Hlur). lia. } subst l.
  set (P := match pol cfg with Rungs => [ms] | _ => if myopic cfg then [L + 1] else zrange (L + 1) ms end).
  assert (HPb : forall p, In p P -> L < p /\ p <= ms /\ (pol cfg = Rungs -> p = ms)).
  { intros p Hin. subst P. destruct (pol cfg); [destruct Hin as [<-|[]]; lia | |];
      (split; [|split; [|discriminate]]); destruct (myopic cfg);
      try (destruct Hin as [<-|[]]; lia); apply In_zrange in Hin; lia. }
  destruct (register_all_spec t P (srch st)) as [s1 [E [Ho [Hfl [Hp Hn]]]]].
  { intros r Hr. destruct (is_labeled (srch st) t r) eqn:EL; [|reflexivity]. apply is_labeled_In in EL as [c Hc].
    pose proof (g_obs_hi _ _ _ _ G r c Hc). pose proof (HPb r Hr). lia. }
  rewrite E. cbn [bind]. eexists. split; [reflexivity|]. cbn [srch trials reps]. split; [auto|].
  eexists. split; [apply find_upd_same|].
  assert (HP : forall p, In (t, p) (pend s1) -> In p P).
  { intros p Hin. apply Hp in Hin as [[_ H]|H]; [exact H | destruct (g_pend _ _ _ _ G p H); congruence]. }
  assert (Hhi' : forall k d tb rn ir, hi {| keep_case := k; dec := d; reported := None; lur := Some L;
                 task_bracket := tb; running := rn; in_rungs := ir |} = L) by reflexivity.
  rewrite Hlur. destruct G. constructor; rewrite ?Hhi'; cbn [reported lur dec task_bracket running in_rungs].
  - intros r c Hin. rewrite Ho in Hin. eauto.
  - intros r c Hin. rewrite Ho in Hin. rewrite <- HhiL. eauto.
  - intros p Hin. split; [reflexivity|]. apply HPb. apply HP. exact Hin.
  - intros p m Hin HM _. unfold MS in HM. rewrite HS in HM. destruct HM as [rf HM]. cbn in HM. inversion HM; subst.
    apply HPb. apply HP. exact Hin.
  - intros HR p Hin. destruct (HPb p (HP p Hin)) as [_ [_ H]]. rewrite (H HR).
    destruct Hms2; [left; assumption | right; assumption].
  - intros l' Hl'. inversion Hl'. lia.
  - discriminate.
  - intros r H. rewrite <- HhiL. auto.
  - lia.
  - intros _. split; [discriminate|]. intros _. exists ms, (Some L). split; [reflexivity|]. split; [lia|].
    split; [destruct Hms2; [left; assumption | right; assumption]|].
    intros f Hf'. inversion Hf'; subst f. split; [lia|]. exists L. split; [reflexivity | lia].
  - rewrite HS. discriminate.
  - intros _ L' p' Hin. apply In_mark_promoted in Hin as [q [Hq [Hq1 Hq2]]]. destruct (g_rungs0 HS _ _ Hq) as [A [B C]].
    split; [exact A|]. split; [lia|]. intro Hp'. subst p'. exfalso.
    destruct (Z.eq_dec L' L) as [->|Hne]; [specialize (Hq1 eq_refl); discriminate|].
    specialize (Hq2 Hne). subst q. destruct (C eq_refl) as [_ [C2 _]]. lia.
  - intros L' p' Hin. apply In_mark_promoted in Hin as [q [Hq _]]. destruct (g_in_le0 _ _ Hq). split; [assumption | lia].
  - intros L' p' Hin. apply In_mark_promoted in Hin as [q [Hq _]]. unfold is_labeled. rewrite Ho. apply (g_in_lab0 _ _ Hq).
  - discriminate.
  - intros r c Hin. rewrite Ho in Hin. specialize (g_pol0 r c Hin). unfold in_rung in *. cbn [in_rungs].
    rewrite in_rung_mark_promoted.
    assert (HLin : existsb (fun e : Z * bool => fst e =? L) (in_rungs rec) = true).
    { apply existsb_exists. exists (L, false). split; [exact HinL | cbn; lia]. }
    destruct (pol cfg); auto.
    + destruct g_pol0 as [H|[_ [v H]]]; [left; exact H|]. left. left. unfold hi in HhiL. rewrite H in HhiL. subst r. exact HLr.
    + destruct g_pol0 as [H|[v H]]; [left; exact H|]. left. unfold hi in HhiL. rewrite H in HhiL. subst r. exact HLin.
  - intros r H H2. unfold is_labeled. rewrite Ho. apply g_present0; assumption.
  - intros x H. apply g_dense0. lia.
Qed.
(* --- on_trial_result -------------------------------------------------- *)
Lemma rungs_or_max_le m : rungs_or_max m -> m <= max_t cfg.
Proof. intros [H| ->]; [pose proof (wf_lt_max _ H); lia | lia]. Qed.

(* HyperbandBracketManager.on_task_report for the next level of a running trial *)
Lemma otr_real s rp t rec r cont :
  Good s rp t rec -> dec rec = CONTINUE -> r = hi rec + 1 -> r <= max_t cfg ->
  exists rec1 ti, on_task_report cfg rec r cont = Ok (rec1, ti) /\ ignore_data ti = false /\
    (rec1 = rec \/ (rec1 = add_rung rec r /\ In r (rung_levels cfg) /\ reached ti = true)) /\
    (continues ti = false -> reached ti = true) /\
    (reached ti = true -> MS rec r /\ rungs_or_max r) /\
    (forall n, continues ti = true -> reached ti = true -> next_ms ti = Some n ->
               r < n /\ rungs_or_max n /\ forall m, MS rec m -> r < m -> n <= m) /\
    (sty cfg = Promotion -> rec1 = add_rung rec r -> continues ti = false) /\
    (sty cfg = Promotion -> continues ti = true -> next_ms ti = None /\ exists ms rf, running rec = Some (ms, rf) /\ r < ms) /\
    (reached ti = true -> rec1 = add_rung rec r \/ max_t cfg <= r) /\ (reached ti = false -> rec1 = rec).
Proof.
  intros G Hd Hr Hmax. destruct (g_run _ _ _ _ G Hd) as [Htb Hrun]. unfold on_task_report.
  destruct (task_bracket rec) as [b|] eqn:ETB; [|congruence]. destruct (r <? max_t cfg) eqn:ELT.
  2:{ assert (r = max_t cfg) by lia. do 2 eexists. split; [reflexivity|]. cbn. repeat split; auto; try discriminate.
      - unfold MS. destruct (sty cfg) eqn:HS.
        + exists b. split; [exact ETB | right; assumption].
        + destruct (Hrun eq_refl) as [ms [rf [E1 [E2 [E3 _]]]]]. pose proof (rungs_or_max_le _ E3). exists rf. rewrite E1. f_equal. f_equal. lia.
      - right. assumption.
      - right. lia. }
  destruct (sty cfg) eqn:HS.
  - (* stopping *)
    assert (E0 : (r =? max_t cfg) = false) by lia. rewrite E0.
    destruct (stop_loop rec r cont (rev (skipn b (rung_levels cfg))) (max_t cfg)) as [[[c mr] nx] add] eqn:ESL.
    assert (Hdesc : desc_from (max_t cfg) (rev (skipn b (rung_levels cfg)))).
    { apply (desc_from_rev _ _ 0); [apply incr_from_skipn; exact wf_incr | intros x Hx; apply wf_lt_max; eapply In_skipn; eauto]. }
    assert (Hrm : r < max_t cfg) by lia.
    destruct (stop_loop_spec _ _ _ _ _ _ _ _ _ Hdesc Hrm ESL) as [SA SB].
    do 2 eexists. split; [reflexivity|]. cbn [ignore_data continues reached next_ms]. split; [reflexivity|].
    destruct mr.
    + destruct (SA eq_refl) as [-> [Hin [Hnr [-> [Hlt [Hnx [Hle Hleast]]]]]]]. apply in_rev in Hin.
      split; [right; split; [reflexivity|]; split; [eapply In_skipn; eauto | reflexivity]|].
      split; [auto|]. split.
      { intros _. split; [unfold MS; rewrite HS; exists b; split; [exact ETB | left; exact Hin] | left; eapply In_skipn; eauto]. }
      split.
      { intros n _ _ En. inversion En; subst n. split; [exact Hlt|]. split.
        - destruct Hnx as [->|H]; [right; reflexivity | left; apply in_rev in H; eapply In_skipn; eauto].
        - intros m HM Hm. unfold MS in HM. rewrite HS in HM. destruct HM as [b' [Eb HM]]. rewrite ETB in Eb. inversion Eb; subst b'. destruct HM as [HM| ->]; [apply Hleast; [apply -> in_rev; exact HM | exact Hm] | exact Hle]. }
      split; [discriminate|]. split; [discriminate|]. split; [intros _; left; reflexivity | discriminate].
    + destruct (SB eq_refl) as [-> ->]. split; [left; reflexivity|]. repeat split; try discriminate; auto.
  - (* promotion *)
    destruct (Hrun eq_refl) as [ms [rf [E1 [E2 [E3 E4]]]]]. rewrite E1.
    assert (Hign : match rf with Some f => r <=? f | None => false end = false).
    { destruct rf as [f|]; [|reflexivity]. destruct (E4 f eq_refl) as [_ [l [El Hfl]]]. pose proof (g_lur _ _ _ _ G l El). lia. }
    rewrite Hign. destruct (ms <=? r) eqn:EMS.
    + assert (r = ms) by lia. subst ms. assert (EN : negb (r =? r) = false) by (rewrite Z.eqb_refl; reflexivity). rewrite EN.
      assert (HMS : MS rec r) by (unfold MS; rewrite HS; eauto).
      destruct (mem_Z r (rung_levels cfg)) eqn:EM.
      * apply mem_Z_In in EM. assert (ENR : in_rung rec r = false).
        { destruct (in_rung rec r) eqn:EIR; [|reflexivity]. apply in_rung_In in EIR as [p Hp].
          destruct (g_rungs _ _ _ _ G HS _ _ Hp) as [_ [H _]]. lia. }
        rewrite ENR. do 2 eexists. split; [reflexivity|]. cbn. repeat split; auto; try discriminate.
      * do 2 eexists. split; [reflexivity|]. cbn. repeat split; auto; try discriminate.
        intros _. right. destruct E3 as [H|H]; [apply mem_Z_In in H; congruence | lia].
    + do 2 eexists. split; [reflexivity|]. cbn. repeat split; auto; try discriminate.
      * intros _ Habs. exfalso. assert (in_rungs (add_rung rec r) = in_rungs rec) by (rewrite <- Habs; reflexivity).
        cbn in H. apply (f_equal (@length _)) in H. rewrite app_length in H. cbn in H. lia.
      * exists ms, rf. split; [reflexivity | lia].
Qed.
Lemma us_plan_spec rec r ti :
  (forall n, continues ti = true -> reached ti = true -> next_ms ti = Some n ->
             r < n /\ rungs_or_max n /\ forall m, MS rec m -> r < m -> n <= m) ->
  (forall p, In p (snd (us_plan cfg r ti)) ->
             r < p /\ (forall m, MS rec m -> r < m -> p <= m) /\ (pol cfg = Rungs -> rungs_or_max p)) /\
  (continues ti = false -> snd (us_plan cfg r ti) = []) /\
  (pol cfg <> Rungs -> fst (us_plan cfg r ti) = true) /\
  (rungs_or_max r -> fst (us_plan cfg r ti) = true) /\
  (pol cfg = Rungs -> fst (us_plan cfg r ti) = true -> rungs_or_max r).
Proof.
  intro Hv. unfold us_plan.
  assert (Hr1 : r < r + 1 /\ (forall m, MS rec m -> r < m -> r + 1 <= m)) by (split; [lia | intros; lia]).
  destruct (pol cfg) eqn:EP.
  - (* Rungs *)
    destruct (mem_Z r (rung_levels cfg) || (r =? max_t cfg)) eqn:EM; cbn [fst snd].
    + split.
      { intros p Hin. destruct (continues ti) eqn:EC; cbn in Hin; [|destruct Hin].
        destruct (reached ti) eqn:ER; cbn in Hin; [|destruct Hin]. destruct (next_ms ti) as [n|] eqn:EN; [|destruct Hin].
        destruct Hin as [<-|[]]. destruct (Hv n eq_refl eq_refl eq_refl) as [A [B C]]. auto. }
      split; [intros ->; reflexivity|]. split; [congruence|]. split; [auto|]. intros _ _.
      apply orb_true_iff in EM as [EM|EM]; [left; apply mem_Z_In; exact EM | right; lia].
    + split; [intros p []|]. split; [auto|]. split; [congruence|]. split; [|discriminate].
      intros [H| ->]; [apply mem_Z_In in H; rewrite H in EM; discriminate | rewrite Z.eqb_refl, orb_true_r in EM; discriminate].
  - cbn [fst snd]. split.
    { intros p Hin. destruct (continues ti) eqn:EC; [|destruct Hin]. destruct (next_ms ti) as [n|] eqn:EN.
      - destruct (myopic cfg); [destruct Hin as [<-|[]]; split; [lia|]; split; [apply Hr1 | discriminate]|].
        destruct (reached ti) eqn:ER; [|destruct Hin]. apply In_zrange in Hin.
        destruct (Hv n eq_refl eq_refl eq_refl) as [A [B C]]. split; [lia|]. split; [|discriminate].
        intros m HM Hm. specialize (C m HM Hm). lia.
      - destruct Hin as [<-|[]]. split; [lia|]. split; [apply Hr1 | discriminate]. }
    split; [intros ->; reflexivity|]. split; [auto|]. split; [auto | discriminate].
  - cbn [fst snd]. split.
    { intros p Hin. destruct (continues ti) eqn:EC; [|destruct Hin]. destruct (next_ms ti) as [n|] eqn:EN.
      - destruct (myopic cfg); [destruct Hin as [<-|[]]; split; [lia|]; split; [apply Hr1 | discriminate]|].
        destruct (reached ti) eqn:ER; [|destruct Hin]. apply In_zrange in Hin.
        destruct (Hv n eq_refl eq_refl eq_refl) as [A [B C]]. split; [lia|]. split; [|discriminate].
        intros m HM Hm. specialize (C m HM Hm). lia.
      - destruct Hin as [<-|[]]. split; [lia|]. split; [apply Hr1 | discriminate]. }
    split; [intros ->; reflexivity|]. split; [auto|]. split; [auto | discriminate].
Qed.

Lemma us_internal_spec s rp t rec :
  Good s rp t rec -> exists sa, us_internal cfg s rec t = Ok sa /\ pend sa = pend s /\ failed sa = failed s /\
    (forall e, In e (obs sa) -> In e (obs s)) /\ (obs_nodup s -> obs_nodup sa) /\
    (* what is removed: only the superseded latest level under rungs_and_last *)
    (forall e, In e (obs s) -> In e (obs sa) \/
       (pol cfg = RungsAndLast /\ exists r' v', reported rec = Some (r', v') /\ keep_case rec = false /\ fst e = (t, r'))) /\
    (pol cfg = RungsAndLast -> forall r' v', reported rec = Some (r', v') -> keep_case rec = false ->
       forall c, ~ In ((t, r'), c) (obs sa)).
Proof.
  intro G. unfold us_internal. destruct (pol cfg) eqn:EP; try (exists s; repeat split; auto; discriminate).
  destruct (reported rec) as [[r' v']|] eqn:ER; [|exists s; repeat split; auto; discriminate].
  destruct (negb (keep_case rec)) eqn:EK.
  2:{ exists s. repeat split; auto. intros _ r0 v0 E0 Hk. apply negb_false_iff in EK. congruence. }
  destruct (g_rep _ _ _ _ G r' v' ER) as [_ HL]. unfold remove_case. rewrite HL; [|congruence].
  eexists. split; [reflexivity|]. cbn. repeat split; auto.
  - intros e He. apply filter_In in He. tauto.
  - unfold obs_nodup. cbn. apply NoDup_map_filter.
  - intros e He. destruct (key_eqb (t, r') (fst e)) eqn:EKey.
    + right. split; [reflexivity|]. exists r', v'. apply key_eqb_eq in EKey. apply negb_true_iff in EK. auto.
    + left. apply filter_In. split; [exact He | rewrite EKey; reflexivity].
  - intros _ r0 v0 E0 _ c Hc. inversion E0; subst. apply filter_In in Hc as [_ Hc]. cbn in Hc. rewrite key_eqb_refl in Hc. discriminate.
Qed.

Lemma lur_step_spec rc r du : (forall l, lur rc = Some l -> l < r) ->
  lur_step rc r du = Ok (du, if du then set_lur rc (Some r) else rc).
Proof.
  intro H. unfold lur_step. destruct du; [|reflexivity]. destruct (lur rc) as [l|] eqn:E.
  - specialize (H l eq_refl). assert (E1 : (r <? l) = false) by lia. assert (E2 : (r =? l) = false) by lia. rewrite E1, E2. reflexivity.
  - assert (E1 : (r <? r - 1) = false) by lia. assert (E2 : (r =? r - 1) = false) by lia. rewrite E1, E2. reflexivity.
Qed.

Lemma MS_same rc rec m : running rc = running rec -> task_bracket rc = task_bracket rec -> MS rc m -> MS rec m.
Proof. unfold MS. intros -> ->. auto. Qed.

Lemma own_report st t r v cont : Inv st -> legal_b cfg st (Report t r v cont) = true ->
  exists st' d, step cfg st (Report t r v cont) = Ok (st', d) /\
  NoDup (pend (srch st')) /\ exists rec', find t (trials st') = Some rec' /\ Good (srch st') (reps st') t rec'.
Proof.
  intros [Hnd [Hno Hall]] Hl. pose proof (Hall t) as G. cbn [legal_b] in Hl.
  destruct (find t (trials st)) as [rec|] eqn:Hf; [|discriminate].
  apply andb_true_iff in Hl as [Hd Hl].
  assert (Hdec : dec rec = CONTINUE) by (destruct (dec rec); cbn in Hd; congruence).
  cbn [step]. unfold report_core. set (rp' := note_rep (t, r) v (reps st)).
  unfold on_trial_result. cbn [trials srch reps]. rewrite Hf, Hdec.
  assert (Hmono : forall x v0, lookup_rep (t, x) (reps st) = Some v0 -> lookup_rep (t, x) rp' = Some v0).
  { intros x v0 E. subst rp'. rewrite lookup_note, E. reflexivity. }
  apply orb_true_iff in Hl as [HA|HB].
  - (* a level delivered for the first time *)
    apply andb_true_iff in HA as [HA1 HA2]. assert (Hr : r = hi rec + 1) by lia. assert (Hmax : r <= max_t cfg) by lia.
    destruct (otr_real _ _ _ _ r cont G Hdec Hr Hmax) as [rec1 [ti [E [Hig [Hrec1 [H3 [H4 [H5 [H6 [H7 [H8 H9]]]]]]]]]]].
    rewrite E. cbn [bind]. rewrite Hig.
    destruct (us_plan_spec rec r ti H5) as [HP1 [HP2 [HP3 [HP4 HP5]]]].
    unfold update_searcher. set (du := fst (us_plan cfg r ti)) in *. set (P := snd (us_plan cfg r ti)) in *.
    assert (Hui : us_internal cfg (srch st) rec1 t = us_internal cfg (srch st) rec t)
      by (destruct Hrec1 as [->|[-> _]]; reflexivity).
    assert (HSA : exists sa, (if du then us_internal cfg (srch st) rec1 t else Ok (srch st)) = Ok sa /\
              pend sa = pend (srch st) /\ (forall e, In e (obs sa) -> In e (obs (srch st))) /\ obs_nodup sa /\
              (forall e, In e (obs (srch st)) -> In e (obs sa) \/
                 (pol cfg = RungsAndLast /\ exists r' v', reported rec = Some (r', v') /\ keep_case rec = false /\ fst e = (t, r'))) /\
              (du = true -> pol cfg = RungsAndLast -> forall r' v', reported rec = Some (r', v') -> keep_case rec = false ->
                 forall c, ~ In ((t, r'), c) (obs sa))).
    { destruct du; [|exists (srch st); repeat split; auto; discriminate]. rewrite Hui.
      destruct (us_internal_spec _ _ _ _ G) as [sa [A [B [_ [C [D [E0 F0]]]]]]].
      exists sa. repeat split; auto. }
    destruct HSA as [sa [EA [Hpa [Hoa [Hna [Hremoved Hgone]]]]]]. rewrite EA. cbn [bind].
    assert (Hnew : lookup_rep (t, r) (reps st) = None).
    { destruct (lookup_rep (t, r) (reps st)) eqn:EN; [|reflexivity].
      assert (r <= hi rec) by (apply (g_reps _ _ _ _ G); congruence). lia. }
    assert (Hnew' : lookup_rep (t, r) rp' = Some v) by (subst rp'; rewrite lookup_note, Hnew, key_eqb_refl; reflexivity).
    assert (Hobs_lt : forall x c, In ((t, x), c) (obs sa) -> x < r).
    { intros x c Hin. apply Hoa in Hin. pose proof (g_obs_hi _ _ _ _ G x c Hin). lia. }
    destruct (register_all_spec t P sa) as [sb [EB [Hob [_ [Hpb Hnb]]]]].
    { intros p Hp. destruct (is_labeled sa t p) eqn:EL; [|reflexivity]. apply is_labeled_In in EL as [c Hc].
      pose proof (Hobs_lt _ _ Hc). destruct (HP1 p Hp). lia. }
    rewrite EB. cbn [bind].
    rewrite lur_step_spec.
    2:{ intros l El. assert (lur rec = Some l) by (destruct Hrec1 as [->|[-> _]]; exact El).
        pose proof (g_lur _ _ _ _ G l H). lia. }
    cbn [bind].
    set (rc3 := if du then set_lur (set_report rec1 (reached ti) r v) (Some r) else set_report rec1 (reached ti) r v).
    set (s2 := if du then label sb t r (crit cfg v) else sb).
    set (d := if continues ti then CONTINUE else match sty cfg with Stopping => STOP | Promotion => if max_t cfg <=? r then STOP else PAUSE end).
    set (rec4 := if continues ti then rc3 else cleanup_rec rc3 d).
    set (fin := if continues ti then rc3 else cleanup_rec rec4 PAUSE).
    assert (Hpb_nd : NoDup (pend sb)) by (apply Hnb; rewrite Hpa; exact Hnd).
    (* the searcher state after the event, as far as trial t is concerned *)
    assert (HO : forall x c, In ((t, x), c) (obs s2) -> (x = r /\ c = crit cfg v /\ du = true) \/
                  (x < r /\ In ((t, x), c) (obs (srch st)) /\ In ((t, x), c) (obs sa))).
    { intros x c Hin. subst s2. destruct du.
      - cbn [label obs] in Hin. rewrite Hob in Hin. apply In_set_obs in Hin as [[E1 E2]|[[_ H]|[_ H]]].
        + inversion E1; subst. auto.
        + right. split; [eapply Hobs_lt; eauto | auto].
        + right. split; [eapply Hobs_lt; eauto | auto].
      - rewrite Hob in Hin. right. split; [eapply Hobs_lt; eauto | auto]. }
    assert (HLpres : forall x, is_labeled (srch st) t x = true ->
              (pol cfg = RungsAndLast -> forall r' v', reported rec = Some (r', v') -> keep_case rec = false -> x <> r') ->
              is_labeled s2 t x = true).
    { intros x Hx Hne. apply is_labeled_In in Hx as [c Hc]. apply is_labeled_In.
      destruct (Hremoved _ Hc) as [Hsa|[EP [r' [v' [A [B C]]]]]].
      - subst s2. destruct du.
        + cbn [label obs]. rewrite Hob. destruct (Z.eq_dec x r) as [->|Hxr];
            [exists (crit cfg v); apply set_obs_has | exists c; apply set_obs_keeps; [intro E0; inversion E0; congruence | exact Hsa]].
        + exists c. rewrite Hob. exact Hsa.
      - exfalso. cbn in C. inversion C; subst. eapply Hne; eauto. }
    assert (HPd : forall p, In (t, p) (pend s2) -> (In p P \/ In (t, p) (pend (srch st))) /\ (du = true -> p <> r)).
    { intros p Hin. subst s2. destruct du.
      - cbn [label pend] in Hin. split.
        + apply In_remove_first in Hin. apply Hpb in Hin as [[_ H]|H]; [left; exact H | right; rewrite <- Hpa; exact H].
        + intros _ ->. destruct (NoDup_remove_first (t, r) (pend sb) Hpb_nd) as [_ H]. exact (H Hin).
      - split; [|discriminate]. apply Hpb in Hin as [[_ H]|H]; [left; exact H | right; rewrite <- Hpa; exact H]. }
    assert (HLd : du = true -> is_labeled s2 t r = true).
    { intros Edu. subst s2. rewrite Edu. apply is_labeled_In. exists (crit cfg v). cbn [label obs]. apply set_obs_has. }
    assert (Hnd2 : NoDup (pend s2)).
    { subst s2. destruct du; [cbn [label pend]; apply NoDup_remove_first; exact Hpb_nd | exact Hpb_nd]. }
    (* pending entries of t that survive are above r; none survive a STOP/PAUSE decision *)
    assert (HPlive : forall p, In (t, p) (pend s2) -> continues ti = true /\ r < p /\
                     (forall m, MS rec m -> r < m -> p <= m) /\ (pol cfg = Rungs -> rungs_or_max p)).
    { intros p Hin. destruct (HPd p Hin) as [[HinP|Hold] Hne].
      - destruct (continues ti) eqn:EC; [|rewrite (HP2 eq_refl) in HinP; destruct HinP].
        destruct (HP1 p HinP) as [A [B C]]. auto.
      - destruct (g_pend _ _ _ _ G p Hold) as [_ Hlo].
        assert (Hpr : p <> r).
        { destruct (Bool.bool_dec du true) as [Edu|Edu]; [apply Hne; exact Edu|]. intros ->.
          assert (EPol : pol cfg = Rungs).
          { destruct (pol cfg) eqn:EPol; [reflexivity | |]; exfalso; apply Edu; apply HP3; congruence. }
          pose proof (g_pend_rungs _ _ _ _ G EPol _ Hold) as Hrm. apply Edu. apply HP4. exact Hrm. }
        destruct (continues ti) eqn:EC.
        + split; [reflexivity|]. split; [lia|]. split.
          * intros m HM Hm. apply (g_pend_ub _ _ _ _ G p m Hold HM). lia.
          * intro EPol. apply (g_pend_rungs _ _ _ _ G EPol _ Hold).
        + exfalso. destruct (H4 (H3 eq_refl)) as [HMSr _]. pose proof (g_pend_ub _ _ _ _ G p r Hold HMSr ltac:(lia)). lia. }
    (* fields of the final record *)
    assert (Hfin : reported fin = Some (r, v) /\ lur fin = (if du then Some r else lur rec) /\ in_rungs fin = in_rungs rec1 /\
                   dec fin = (if continues ti then CONTINUE else PAUSE) /\
                   (continues ti = true -> running fin = running rec /\ task_bracket fin = task_bracket rec) /\
                   (continues ti = false -> running fin = None) /\ keep_case fin = reached ti).
    { subst fin rec4 rc3. destruct (continues ti), du; destruct Hrec1 as [->|[-> _]]; cbn; repeat split; auto; discriminate. }
    destruct Hfin as [F1 [F2 [F3 [F4 [F5 [F6 F7]]]]]].
    assert (Hhi : hi fin = r) by (unfold hi; rewrite F1; reflexivity).
    assert (Hres : exists st', (match d with CONTINUE => {| srch := s2; trials := upd t rec4 (trials st); reps := rp' |}
                                | _ => on_trial_remove {| srch := s2; trials := upd t rec4 (trials st); reps := rp' |} t end) = st' /\
                   srch st' = s2 /\ reps st' = rp' /\ find t (trials st') = Some fin).
    { eexists. split; [reflexivity|]. subst fin d. destruct (continues ti).
      - cbn. repeat split; auto. apply find_upd_same.
      - unfold on_trial_remove. cbn [trials srch reps]. rewrite find_upd_same.
        destruct (sty cfg); [|destruct (max_t cfg <=? r)]; cbn; repeat split; auto; apply find_upd_same. }
    destruct Hres as [st' [Est [Es [Er Efind]]]].
    exists st', (Some d). split; [rewrite <- Est; reflexivity|]. rewrite Es, Er. split; [exact Hnd2|].
    exists fin. split; [exact Efind|].
    constructor; rewrite ?Hhi.
    + intros x c Hin. destruct (HO x c Hin) as [[-> [-> _]]|[_ [Hold _]]].
      * exists v. split; [exact Hnew' | reflexivity].
      * destruct (g_val _ _ _ _ G x c Hold) as [v0 [A B]]. exists v0. split; [apply Hmono; exact A | exact B].
    + intros x c Hin. destruct (HO x c Hin) as [[-> _]|[Hlt _]]; lia.
    + intros p Hin. destruct (HPlive p Hin) as [A [B _]]. rewrite F4, A. auto.
    + intros p m Hin HM Hm. destruct (HPlive p Hin) as [A [_ [C _]]]. destruct (F5 A) as [R1 R2]. apply C; [|exact Hm].
      eapply MS_same; eauto.
    + intros EPol p Hin. destruct (HPlive p Hin) as [_ [_ [_ C]]]. auto.
    + intros l El. rewrite F2 in El. destruct du; [inversion El; lia | pose proof (g_lur _ _ _ _ G l El); lia].
    + intros x v0 Ex. rewrite F1 in Ex. inversion Ex; subst. split; [exact Hnew'|]. intro HPol. apply HLd. apply HP3. exact HPol.
    + intros x Hx. subst rp'. rewrite lookup_note in Hx. destruct (lookup_rep (t, x) (reps st)) eqn:EL.
      * assert (x <= hi rec) by (apply (g_reps _ _ _ _ G); congruence). lia.
      * destruct (key_eqb (t, x) (t, r)) eqn:EK; [apply key_eqb_eq in EK; inversion EK; lia | congruence].
    + pose proof (g_hi0 _ _ _ _ G). lia.
    + rewrite F4. intro EC. destruct (continues ti) eqn:ECt; [|discriminate]. destruct (F5 eq_refl) as [R1 R2].
      destruct (g_run _ _ _ _ G Hdec) as [Htb Hrun]. rewrite R1, R2. split; [exact Htb|]. intro HS.
      destruct (Hrun HS) as [ms [rf [E1 [E2 [E3 E4]]]]]. destruct (H7 HS eq_refl) as [_ [ms' [rf' [E1' Hlt]]]].
      rewrite E1 in E1'. inversion E1'; subst ms' rf'. exists ms, rf. split; [exact E1|]. split; [exact Hlt|]. split; [exact E3|].
      intros f Ef. destruct (E4 f Ef) as [A [l [B C]]]. split; [exact A|]. rewrite F2. destruct du; [|eauto].
      exists r. split; [reflexivity|]. pose proof (g_lur _ _ _ _ G l B). lia.
    + intro HS. destruct (continues ti) eqn:ECt; [destruct (F5 eq_refl) as [R1 _]; rewrite R1; apply (g_stop _ _ _ _ G HS) | apply F6; reflexivity].
    + intros HS L p Hin. rewrite F3 in Hin.
      assert (Hold : In (L, p) (in_rungs rec) -> In L (rung_levels cfg) /\ L <= r /\
                (p = false -> dec fin <> CONTINUE /\ r = L /\ exists l, lur fin = Some l /\ L <= l)).
      { intro Ho. destruct (g_rungs _ _ _ _ G HS L p Ho) as [A [B C]]. split; [exact A|]. split; [lia|].
        intro Ep. destruct (C Ep) as [C1 _]. congruence. }
      destruct Hrec1 as [->|[-> [Hrr Hre]]]; [apply Hold; exact Hin|].
      cbn [add_rung in_rungs] in Hin. apply in_app_or in Hin as [Hin|[Hin|[]]]; [apply Hold; exact Hin|].
      inversion Hin; subst L p. split; [exact Hrr|]. split; [lia|]. intros _.
      rewrite F4, (H6 HS eq_refl). split; [discriminate|]. split; [reflexivity|]. rewrite F2.
      assert (Edu : du = true) by (apply HP4; left; exact Hrr). rewrite Edu. exists r. split; [reflexivity | lia].
    + (* g_in_le *)
      intros L p Hin. rewrite F3 in Hin.
      assert (Hold : In (L, p) (in_rungs rec) -> In L (rung_levels cfg) /\ L <= r).
      { intro Ho. destruct (g_in_le _ _ _ _ G L p Ho). split; [assumption | lia]. }
      destruct Hrec1 as [->|[-> [Hrr Hre]]]; [apply Hold; exact Hin|].
      cbn [add_rung in_rungs] in Hin. apply in_app_or in Hin as [Hin|[Hin|[]]]; [apply Hold; exact Hin|].
      inversion Hin; subst L p. split; [exact Hrr | lia].
    + (* g_in_lab *)
      intros L p Hin. rewrite F3 in Hin.
      assert (Hold : In (L, p) (in_rungs rec) -> is_labeled s2 t L = true).
      { intro Ho. apply HLpres; [apply (g_in_lab _ _ _ _ G L p Ho)|]. intros _ r' v' Hr' Hk ->.
        destruct (g_keep _ _ _ _ G r' v' Hr') as [_ Hk2]. specialize (Hk2 Hk).
        assert (in_rung rec r' = true) by (apply in_rung_In; eauto). congruence. }
      destruct Hrec1 as [->|[-> [Hrr Hre]]]; [apply Hold; exact Hin|].
      cbn [add_rung in_rungs] in Hin. apply in_app_or in Hin as [Hin|[Hin|[]]]; [apply Hold; exact Hin|].
      inversion Hin; subst L p. apply HLd. apply HP4. left. exact Hrr.
    + (* g_keep *)
      intros x v0 Ex. rewrite F1 in Ex. inversion Ex; subst x v0. rewrite F7. unfold in_rung. rewrite F3. split.
      * intro Hre. destruct (H8 Hre) as [->|Hmx]; [left | right; exact Hmx].
        cbn [add_rung in_rungs]. rewrite existsb_app. cbn. rewrite Z.eqb_refl. apply orb_true_r.
      * intro Hre. rewrite (H9 Hre). destruct (existsb (fun e : Z * bool => fst e =? r) (in_rungs rec)) eqn:EX; [|reflexivity].
        apply existsb_exists in EX as [[L p] [Hi HE]]. cbn in HE. destruct (g_in_le _ _ _ _ G L p Hi). lia.
    + (* g_pol *)
      intros x c Hin. destruct (HO x c Hin) as [[-> [-> Edu]]|[Hlt [Hold Hsa]]].
      * destruct (pol cfg) eqn:EPol; [left; apply HP5; auto | exact I | right; exists v; exact F1].
      * pose proof (g_pol _ _ _ _ G x c Hold) as GP. destruct (pol cfg) eqn:EPol; [|exact I|].
        -- destruct GP as [H|[H _]]; [left; exact H | congruence].
        -- assert (Hmono_in : in_rung rec x = true -> in_rung fin x = true).
           { unfold in_rung. rewrite F3. destruct Hrec1 as [->|[-> _]]; [auto|]. cbn [add_rung in_rungs]. rewrite existsb_app.
             intros ->. reflexivity. }
           destruct GP as [H|[v0 H]]; [left; auto|].
           destruct (Bool.bool_dec (keep_case rec) true) as [EK|EK]; [|apply Bool.not_true_is_false in EK].
           ++ destruct (g_keep _ _ _ _ G x v0 H) as [Hk _]. destruct (Hk EK) as [Hi|Hmx]; [left; auto|].
              exfalso. unfold hi in Hr. rewrite H in Hr. lia.
           ++ exfalso. assert (Edu : du = true) by (apply HP3; congruence). exact (Hgone Edu eq_refl x v0 H EK c Hsa).
    + (* g_present *)
      intros x Hx Hsel. subst rp'. rewrite lookup_note in Hx. destruct (lookup_rep (t, x) (reps st)) eqn:EL.
      * apply HLpres; [apply (g_present _ _ _ _ G x); [congruence | exact Hsel]|].
        intros EP. destruct Hsel as [H|[H _]]; congruence.
      * destruct (key_eqb (t, x) (t, r)) eqn:EK; [|congruence]. apply key_eqb_eq in EK. inversion EK; subst x.
        apply HLd. destruct Hsel as [H|[_ H]]; [apply HP3; congruence | apply HP4; exact H].
    + (* g_dense *)
      intros x Hx. destruct (Z.eq_dec x r) as [->|Hxr]; [congruence|].
      assert (HD : lookup_rep (t, x) (reps st) <> None) by (apply (g_dense _ _ _ _ G); lia).
      destruct (lookup_rep (t, x) (reps st)) eqn:EL; [|congruence]. rewrite (Hmono _ _ EL). discriminate.
  - (* a run restarted from scratch re-reports a level up to resume_from: ignored *)
    destruct (reported rec) as [[r0 v0]|] eqn:ERp; [discriminate|]. destruct (running rec) as [[ms [f|]]|] eqn:ERn; try discriminate.
    apply andb_true_iff in HB as [HB1 HB2].
    assert (HS : sty cfg = Promotion).
    { destruct (sty cfg) eqn:HS; [|reflexivity]. rewrite (g_stop _ _ _ _ G HS) in ERn. discriminate. }
    destruct (g_run _ _ _ _ G Hdec) as [Htb Hrun]. destruct (Hrun HS) as [ms' [rf' [E1 [E2 [E3 E4]]]]].
    rewrite ERn in E1. inversion E1; subst ms' rf'. destruct (E4 f eq_refl) as [Hfm [l [El Hfl]]].
    assert (Hhi : hi rec = l) by (unfold hi; rewrite ERp, El; reflexivity).
    pose proof (rungs_or_max_le _ E3) as Hmsmax.
    unfold on_task_report. destruct (task_bracket rec) as [b|] eqn:ETB; [|congruence].
    assert (ELT : (r <? max_t cfg) = true) by lia. rewrite ELT, HS, ERn.
    assert (EI : (r <=? f) = true) by lia. rewrite EI. assert (EM : (ms <=? r) = false) by lia. rewrite EM.
    cbn [bind ignore_data]. do 2 eexists. split; [reflexivity|]. cbn [srch trials reps]. split; [exact Hnd|].
    exists rec. split; [apply find_upd_same|]. destruct G. constructor; auto.
    + intros x c Hin. destruct (g_val0 x c Hin) as [v1 [A B]]. exists v1. split; [apply Hmono; exact A | exact B].
    + intros x v1 Ex. destruct (g_rep0 x v1 Ex) as [A B]. split; [apply Hmono; exact A | exact B].
    + intros x Hx. subst rp'. rewrite lookup_note in Hx. destruct (lookup_rep (t, x) (reps st)) eqn:EL.
      * apply g_reps0. congruence.
      * destruct (key_eqb (t, x) (t, r)) eqn:EK; [apply key_eqb_eq in EK; inversion EK; lia | congruence].
    + intros x Hx Hsel. apply g_present0; [|exact Hsel]. subst rp'. rewrite lookup_note in Hx.
      destruct (lookup_rep (t, x) (reps st)) eqn:EL; [congruence|].
      destruct (key_eqb (t, x) (t, r)) eqn:EK; [|congruence]. apply key_eqb_eq in EK. inversion EK; subst x.
      exfalso. apply (g_dense0 r); [lia | exact EL].
    + intros x Hx. specialize (g_dense0 x Hx). destruct (lookup_rep (t, x) (reps st)) eqn:EL; [|congruence].
      rewrite (Hmono _ _ EL). discriminate.
Qed.
(* --- late report of a trial that is not running ------------------------ *)
Lemma own_late st t r v rec : Inv st -> find t (trials st) = Some rec -> dec rec <> CONTINUE ->
  step cfg st (Late t r v) = Ok (on_trial_remove st t, Some (dec rec)) /\
  NoDup (pend (srch (on_trial_remove st t))) /\
  exists rec', find t (trials (on_trial_remove st t)) = Some rec' /\
               Good (srch (on_trial_remove st t)) (reps (on_trial_remove st t)) t rec'.
Proof.
  intros [Hnd [Hno Hall]] Hf Hd. pose proof (Hall t) as G. rewrite Hf in G.
  destruct (late_report_ignored cfg st t r v true rec Hf Hd) as [E _].
  split.
  { cbn [step]. unfold report_core. rewrite E. cbn [bind]. destruct (dec rec); [congruence | reflexivity | reflexivity]. }
  unfold on_trial_remove. rewrite Hf. cbn [srch trials reps]. split; [exact Hnd|].
  exists (cleanup_rec rec PAUSE). split; [apply find_upd_same|].
  assert (HP : forall p, ~ In (t, p) (pend (srch st))).
  { intros p Hin. destruct (g_pend _ _ _ _ G p Hin). congruence. }
  destruct G. constructor; try rewrite hi_cleanup; auto.
  - intros p Hin. destruct (HP p Hin).
  - intros p m Hin. destruct (HP p Hin).
  - cbn. discriminate.
  - intros HS L p Hin. destruct (g_rungs0 HS L p Hin) as [A [B C]]. split; [exact A|]. split; [exact B|].
    intro Hp. destruct (C Hp) as [_ [C2 C3]]. split; [cbn; discriminate | auto].
  - intros x c Hin. specialize (g_pol0 x c Hin). cbn [cleanup_rec dec reported in_rungs]. unfold in_rung in *. cbn [cleanup_rec in_rungs].
    destruct (pol cfg); auto. destruct g_pol0 as [H|[_ H]]; [left; exact H | right; split; [discriminate | exact H]].
Qed.

Definition trial_of (e : event) : Z :=
  match e with Start t _ | Report t _ _ _ | Resume t _ | Complete t _ _ | Fail t | Late t _ _ => t end.

Lemma assemble st e st' d :
  Inv st -> step cfg st e = Ok (st', d) -> NoDup (pend (srch st')) ->
  (exists rec', find (trial_of e) (trials st') = Some rec' /\ Good (srch st') (reps st') (trial_of e) rec') -> Inv st'.
Proof.
  intros HI E Hnd [rec' [Hf G]]. pose proof HI as [_ [Hno Hall]].
  split; [exact Hnd|]. split; [eapply step_nodup; eauto|].
  intro t'. destruct (Z.eq_dec t' (trial_of e)) as [->|Hne]; [rewrite Hf; exact G|].
  destruct (step_same_for st e st' d t' E) as [HS HF]; [destruct e; exact Hne|].
  rewrite HF. specialize (Hall t'). destruct (find t' (trials st)); [eapply Good_ext; eauto | eapply Absent_ext; eauto].
Qed.

Lemma Inv_init : Inv init.
Proof.
  split; [constructor|]. split; [constructor|]. intro t. cbn. repeat split; intros; auto.
Qed.

Theorem step_inv st e : Inv st -> legal_b cfg st e = true -> exists st' d, step cfg st e = Ok (st', d) /\ Inv st'.
Proof.
  intros HI Hl. destruct e as [t b|t r v cont|t b|t r v|t|t r v].
  6:{ cbn [legal_b] in Hl. destruct (find t (trials st)) as [rec|] eqn:Hf; [|discriminate].
      assert (Hd : dec rec <> CONTINUE) by (intro E; rewrite E in Hl; discriminate).
      destruct (own_late st t r v rec HI Hf Hd) as [ES [Hnd HG]].
      exists (on_trial_remove st t), (Some (dec rec)). split; [exact ES | eapply assemble; eauto]. }
  - destruct (own_start st t b HI Hl) as [st' [E [Hnd HG]]]. exists st', None.
    assert (ES : step cfg st (Start t b) = Ok (st', None)) by (cbn [step]; rewrite E; reflexivity).
    split; [exact ES | eapply assemble; eauto].
  - destruct (own_report st t r v cont HI Hl) as [st' [d [E [Hnd HG]]]]. exists st', d. split; [exact E | eapply assemble; eauto].
  - destruct (own_resume st t b HI Hl) as [st' [E [Hnd HG]]]. exists st', None.
    assert (ES : step cfg st (Resume t b) = Ok (st', None)) by (cbn [step]; rewrite E; reflexivity).
    split; [exact ES | eapply assemble; eauto].
  - cbn [legal_b] in Hl. destruct (find t (trials st)) as [rec|] eqn:Hf; [|discriminate].
    assert (Hl' : legal_b cfg st (Complete t r v) = true) by (cbn [legal_b]; rewrite Hf; exact Hl).
    destruct (own_complete st t r v rec HI Hf Hl') as [st' [E [Hnd HG]]]. exists st', None.
    assert (ES : step cfg st (Complete t r v) = Ok (st', None)) by (cbn [step]; rewrite E; reflexivity).
    split; [exact ES | eapply assemble; eauto].
  - cbn [legal_b] in Hl. destruct (find t (trials st)) as [rec|] eqn:Hf; [|discriminate].
    destruct (own_fail st t rec HI Hf) as [Hnd HG]. exists (on_trial_error st t), None.
    split; [reflexivity | apply (assemble st (Fail t) _ None HI eq_refl Hnd HG)].
Qed.

Theorem run_inv h : forall st, Inv st -> legal_hist cfg st h -> exists st', run cfg st h = Ok st' /\ Inv st'.
Proof.
  induction h as [|e h IH]; intros st HI HL; cbn [run]; [eauto|].
  cbn [legal_hist] in HL. destruct HL as [Hl HL]. destruct (step_inv st e HI Hl) as [st1 [d [E HI1]]].
  rewrite E in *. cbn [bind]. apply IH; assumption.
Qed.
End Invariant.

(* ------------------------------------------------------------------ *)
(* statements used by props/C14.v                                       *)
(* ------------------------------------------------------------------ *)
(* the monitor [reps] holds, for every (trial, level), the metric of the FIRST report of that level *)
Fixpoint first_reports (h : list event) (acc : list ((Z * Z) * Q)) : list ((Z * Z) * Q) :=
  match h with
  | [] => acc
  | Report t r v _ :: h' => first_reports h' (note_rep (t, r) v acc)
  | _ :: h' => first_reports h' acc
  end.

Lemma on_trial_result_reps cfg st t r v cont st' d : on_trial_result cfg st t r v cont = Ok (st', d) -> reps st' = reps st.
Proof.
  unfold on_trial_result. destruct (find t (trials st)) as [rec|]; [|discriminate].
  destruct (dec rec); try (intro H; inversion H; reflexivity).
  destruct (on_task_report cfg rec r cont) as [[rec1 ti]|]; cbn [bind]; [|discriminate].
  destruct (ignore_data ti); [intro H; inversion H; reflexivity|].
  destruct (update_searcher _ _ _ _ _ _) as [[du s1]|]; cbn [bind]; [|discriminate].
  destruct (lur_step _ _ _) as [[du2 rec3]|]; cbn [bind]; [|discriminate]. intro H; inversion H; reflexivity.
Qed.

Lemma report_core_reps cfg st t r v cont st' d : report_core cfg st t r v cont = Ok (st', d) -> reps st' = reps st.
Proof.
  unfold report_core. destruct (on_trial_result _ _ _ _ _ _) as [[st1 d1]|] eqn:E; cbn [bind]; [|discriminate].
  apply on_trial_result_reps in E. intro H. inversion H; subst. rewrite <- E.
  destruct d1; try reflexivity; unfold on_trial_remove; destruct (find t (trials st1)); reflexivity.
Qed.

Lemma step_reps cfg st e st' d : step cfg st e = Ok (st', d) ->
  reps st' = match e with Report t r v _ => note_rep (t, r) v (reps st) | _ => reps st end.
Proof.
  destruct e as [t b|t r v cont|t b|t r v|t|t r v]; cbn [step]; try (intro H; exact (report_core_reps _ _ _ _ _ _ _ _ H)).
  - unfold on_start. destruct (find t (trials st)); [discriminate|]. destruct (register_all _ _ _); cbn [bind]; [|discriminate].
    intro H; inversion H; reflexivity.
  - unfold on_resume. destruct (sty cfg); [discriminate|]. destruct (find t (trials st)); [|discriminate].
    destruct (paused_at _ _); [|discriminate]. destruct (negb _); [discriminate|]. destruct (decision_eqb _ _); [discriminate|].
    destruct (register_all _ _ _); cbn [bind]; [|discriminate]. intro H; inversion H; reflexivity.
  - unfold on_trial_complete. destruct (find t (trials st)); cbn [bind]; [|discriminate]. intro H; inversion H; reflexivity.
  - intro H. inversion H. unfold on_trial_error. destruct (find t (trials st)); reflexivity.
Qed.

Lemma run_reps cfg h : forall st st', run cfg st h = Ok st' -> reps st' = first_reports h (reps st).
Proof.
  induction h as [|e h IH]; intros st st'; cbn [run first_reports]; [intro H; inversion H; reflexivity|].
  destruct (step cfg st e) as [[st1 d]|] eqn:E; cbn [bind]; [|discriminate]. intro H. rewrite (IH _ _ H).
  rewrite (step_reps _ _ _ _ _ E). destruct e; reflexivity.
Qed.

(* a STOP/PAUSE decision leaves the trial marked as not running *)
Lemma report_idle cfg st t r v cont st' d :
  step cfg st (Report t r v cont) = Ok (st', Some d) -> d <> CONTINUE ->
  exists rec', find t (trials st') = Some rec' /\ dec rec' = PAUSE.
Proof.
  cbn [step]. unfold report_core. set (st0 := {| srch := srch st; trials := trials st; reps := _ |}).
  destruct (on_trial_result cfg st0 t r v cont) as [[st1 d1]|] eqn:E; cbn [bind]; [|discriminate].
  intros H Hd. inversion H; subst.
  assert (Hf : find t (trials st1) <> None).
  { unfold on_trial_result in E. destruct (find t (trials st0)) as [rec|] eqn:EF; [|discriminate].
    destruct (dec rec); try (inversion E; subst; congruence).
    destruct (on_task_report cfg rec r cont) as [[rec1 ti]|]; cbn [bind] in E; [|discriminate].
    destruct (ignore_data ti); [inversion E; subst; cbn; rewrite find_upd_same; discriminate|].
    destruct (update_searcher _ _ _ _ _ _) as [[du s1]|]; cbn [bind] in E; [|discriminate].
    destruct (lur_step _ _ _) as [[du2 rec3]|]; cbn [bind] in E; [|discriminate].
    inversion E; subst; cbn; rewrite find_upd_same; discriminate. }
  destruct d; [congruence | |]; unfold on_trial_remove; destruct (find t (trials st1)) as [rc|]; try congruence;
    cbn; rewrite find_upd_same; eexists; split; reflexivity.
Qed.

Lemma legal_run_inv cfg h st : wf_config cfg = true -> legal_hist cfg init h -> run cfg init h = Ok st -> Inv cfg st.
Proof.
  intros WF HL HR. destruct (run_inv cfg WF h init (Inv_init cfg) HL) as [st' [E HI]]. rewrite E in HR. inversion HR; subst. exact HI.
Qed.

Lemma legal_no_error cfg h : wf_config cfg = true -> legal_hist cfg init h -> exists st, run cfg init h = Ok st.
Proof. intros WF HL. destruct (run_inv cfg WF h init (Inv_init cfg) HL) as [st' [E _]]. eauto. Qed.

Lemma obs_equal_first_report cfg h st : wf_config cfg = true -> legal_hist cfg init h -> run cfg init h = Ok st ->
  NoDup (map fst (obs (srch st))) /\
  forall t r c, In ((t, r), c) (obs (srch st)) ->
    exists v, lookup_rep (t, r) (first_reports h []) = Some v /\ (c == crit cfg v)%Q.
Proof.
  intros WF HL HR. pose proof (legal_run_inv _ _ _ WF HL HR) as [_ [Hno Hall]]. split; [exact Hno|].
  intros t r c Hin. pose proof (run_reps _ _ _ _ HR) as ER. cbn [init reps] in ER. rewrite <- ER. specialize (Hall t). destruct (find t (trials st)) as [rec|].
  - apply (g_val _ _ _ _ _ Hall r c Hin).
  - destruct Hall as [A _]. destruct (A r c Hin).
Qed.

Lemma pending_live cfg h st : wf_config cfg = true -> legal_hist cfg init h -> run cfg init h = Ok st ->
  NoDup (pend (srch st)) /\
  forall t p, In (t, p) (pend (srch st)) ->
    exists rec, find t (trials st) = Some rec /\ dec rec = CONTINUE /\
                (forall c, ~ In ((t, p), c) (obs (srch st))) /\
                (forall r c, In ((t, r), c) (obs (srch st)) -> r < p).
Proof.
  intros WF HL HR. pose proof (legal_run_inv _ _ _ WF HL HR) as [Hnd [_ Hall]]. split; [exact Hnd|].
  intros t p Hin. specialize (Hall t). destruct (find t (trials st)) as [rec|].
  - exists rec. split; [reflexivity|]. destruct (g_pend _ _ _ _ _ Hall p Hin) as [A B]. split; [exact A|]. split.
    + intros c Hc. pose proof (g_obs_hi _ _ _ _ _ Hall p c Hc). lia.
    + intros r c Hc. pose proof (g_obs_hi _ _ _ _ _ Hall r c Hc). lia.
  - destruct Hall as [_ [B _]]. destruct (B p Hin).
Qed.

Lemma pending_only_running cfg h st : wf_config cfg = true -> legal_hist cfg init h -> run cfg init h = Ok st ->
  forall t rec, find t (trials st) = Some rec -> dec rec <> CONTINUE -> forall p, ~ In (t, p) (pend (srch st)).
Proof.
  intros WF HL HR t rec Hf Hd p Hin. pose proof (legal_run_inv _ _ _ WF HL HR) as [_ [_ Hall]].
  specialize (Hall t). rewrite Hf in Hall. destruct (g_pend _ _ _ _ _ Hall p Hin). congruence.
Qed.

(* events that end a run of the trial: completion, failure, a report answered with STOP or PAUSE *)
Definition ends_run (e : event) (d : option decision) : bool :=
  match e, d with
  | Complete _ _ _, _ => true
  | Fail _, _ => true
  | Report _ _ _ _, Some d => negb (decision_eqb d CONTINUE)
  | _, _ => false
  end.

Lemma pending_cleared cfg h st0 e st d : wf_config cfg = true -> legal_hist cfg init h -> run cfg init h = Ok st0 ->
  legal_b cfg st0 e = true -> step cfg st0 e = Ok (st, d) -> ends_run e d = true ->
  forall p, ~ In (trial_of e, p) (pend (srch st)).
Proof.
  intros WF HL HR Hl HS He p Hin. pose proof (legal_run_inv _ _ _ WF HL HR) as HI.
  destruct (step_inv cfg WF st0 e HI Hl) as [st' [d' [E HI']]]. rewrite E in HS. inversion HS; subst st' d'. clear HS.
  destruct e as [t b|t r v cont|t b|t r v|t|t r v]; cbn in He; try discriminate.
  - destruct d as [d|]; [|discriminate]. destruct (report_idle _ _ _ _ _ _ _ _ E) as [rec' [Hf Hd]].
    { intro Hd. rewrite Hd in He. discriminate. }
    destruct HI' as [_ [_ Hall]]. specialize (Hall t). rewrite Hf in Hall. cbn [trial_of] in Hin.
    destruct (g_pend _ _ _ _ _ Hall p Hin). congruence.
  - cbn [step] in E. destruct (on_trial_complete cfg st0 t r v) as [s'|] eqn:EC; cbn [bind] in E; [|discriminate].
    inversion E; subst. exact (complete_clears _ _ _ _ _ _ EC p Hin).
  - cbn [step] in E. inversion E; subst. exact (error_clears _ _ p Hin).
Qed.

(* rungs_and_last / all: the latest delivered level of a trial is in the data;
   every observed level was delivered *)
Lemma latest_present cfg h st : wf_config cfg = true -> legal_hist cfg init h -> run cfg init h = Ok st ->
  forall t rec r v, find t (trials st) = Some rec -> reported rec = Some (r, v) ->
    lookup_rep (t, r) (first_reports h []) = Some v /\ (pol cfg <> Rungs -> is_labeled (srch st) t r = true).
Proof.
  intros WF HL HR t rec r v Hf Hr. pose proof (legal_run_inv _ _ _ WF HL HR) as [_ [_ Hall]].
  specialize (Hall t). rewrite Hf in Hall. pose proof (run_reps _ _ _ _ HR) as ER. cbn [init reps] in ER. rewrite <- ER. apply (g_rep _ _ _ _ _ Hall r v Hr).
Qed.

(* ------------------------------------------------------------------ *)
(* which levels are in the data: exactly those the policy selects        *)
(* ------------------------------------------------------------------ *)
Definition delivered (h : list event) (t r : Z) : Prop := lookup_rep (t, r) (first_reports h []) <> None.

Lemma levels_by_policy cfg h st : wf_config cfg = true -> legal_hist cfg init h -> run cfg init h = Ok st ->
  (forall t, find t (trials st) = None -> forall r, is_labeled (srch st) t r = false) /\
  forall t rec, find t (trials st) = Some rec ->
    (forall r, is_labeled (srch st) t r = true -> delivered h t r) /\
    (forall L p, In (L, p) (in_rungs rec) -> In L (rung_levels cfg) /\ delivered h t L /\ is_labeled (srch st) t L = true) /\
    match pol cfg with
    | AllData => forall r, is_labeled (srch st) t r = true <-> delivered h t r
    | Rungs => forall r,
        (delivered h t r -> rungs_or_max cfg r -> is_labeled (srch st) t r = true) /\
        (is_labeled (srch st) t r = true ->
           rungs_or_max cfg r \/ (dec rec <> CONTINUE /\ exists v, reported rec = Some (r, v)))
    | RungsAndLast => forall r,
        is_labeled (srch st) t r = true <-> (in_rung rec r = true \/ exists v, reported rec = Some (r, v))
    end.
Proof.
  intros WF HL HR. pose proof (legal_run_inv _ _ _ WF HL HR) as [_ [_ Hall]].
  pose proof (run_reps _ _ _ _ HR) as ER. cbn [init reps] in ER. unfold delivered. rewrite <- ER. split.
  - intros t Hf r. specialize (Hall t). rewrite Hf in Hall. destruct Hall as [A _].
    destruct (is_labeled (srch st) t r) eqn:E; [|reflexivity]. apply is_labeled_In in E as [c Hc]. destruct (A r c Hc).
  - intros t rec Hf. specialize (Hall t). rewrite Hf in Hall.
    assert (Hdel : forall r, is_labeled (srch st) t r = true -> lookup_rep (t, r) (reps st) <> None).
    { intros r E. apply is_labeled_In in E as [c Hc]. destruct (g_val _ _ _ _ _ Hall r c Hc) as [v [A _]]. congruence. }
    split; [exact Hdel|]. split.
    + intros L p Hin. destruct (g_in_le _ _ _ _ _ Hall L p Hin) as [A _]. pose proof (g_in_lab _ _ _ _ _ Hall L p Hin) as B. auto.
    + pose proof (g_pol _ _ _ _ _ Hall) as GP. pose proof (g_present _ _ _ _ _ Hall) as GPr. destruct (pol cfg) eqn:EP.
      * intro r. split.
        -- intros Hd Hrm. apply GPr; auto.
        -- intro E. apply is_labeled_In in E as [c Hc]. exact (GP r c Hc).
      * intro r. split; [apply Hdel | intro Hd; apply GPr; auto].
      * intro r. split.
        -- intro E. apply is_labeled_In in E as [c Hc]. exact (GP r c Hc).
        -- intros [Hi|[v Hv]].
           ++ apply in_rung_In in Hi as [p Hp]. exact (g_in_lab _ _ _ _ _ Hall r p Hp).
           ++ destruct (g_rep _ _ _ _ _ Hall r v Hv) as [_ B]. apply B. congruence.
Qed.

(* ------------------------------------------------------------------ *)
(* synchronous Hyperband: the resource > prev_level guard               *)
(* ------------------------------------------------------------------ *)
Lemma sync_step_nodup all mx s e s' : sync_step all mx s e = Ok s' -> obs_nodup s -> obs_nodup s'.
Proof.
  destruct e as [t ms|t r v ms prev|t]; cbn [sync_step].
  - unfold sync_on_suggest. intros H Hn. unfold obs_nodup. rewrite (register_pending_obs _ _ _ _ H). exact Hn.
  - intro H. inversion H; subst. unfold sync_on_result. destruct (prev <? r); [|auto]. destruct (all || (r =? ms)); [apply label_nodup | auto].
  - intro H. inversion H; subst. auto.
Qed.
(* a report at a level the trial had already reached before the current job (run restarted from
   scratch) changes nothing; a report is stored exactly when it lies above the previous rung level and
   the policy selects it, and then only the entry (t, r) changes *)
Lemma sync_guard all mx s t r v ms prev :
  (r <= prev -> sync_on_result all mx s t r v ms prev = s) /\
  (prev < r -> (all = true \/ r = ms) ->
     sync_on_result all mx s t r v ms prev = label s t r (if mx then (1 - v)%Q else v)) /\
  (prev < r -> all = false -> r <> ms -> sync_on_result all mx s t r v ms prev = s) /\
  (forall k c, fst k <> t \/ snd k <> r -> In (k, c) (obs (sync_on_result all mx s t r v ms prev)) <-> In (k, c) (obs s)).
Proof.
  unfold sync_on_result. repeat split.
  - intro H. assert (E : (prev <? r) = false) by lia. rewrite E. reflexivity.
  - intros H [Ha|Hm]; assert (E : (prev <? r) = true) by lia; rewrite E; [rewrite Ha; reflexivity | rewrite Hm, Z.eqb_refl, orb_true_r; reflexivity].
  - intros H -> Hne. assert (E : (prev <? r) = true) by lia. assert (E2 : (r =? ms) = false) by lia. rewrite E, E2. reflexivity.
  - destruct (prev <? r); [|auto]. destruct (all || (r =? ms)); [|auto]. cbn [label obs]. intro Hin.
    apply In_set_obs in Hin as [[E _]|[[_ Hin]|[E _]]]; [subst k; cbn in H; lia | exact Hin | subst k; cbn in H; lia].
  - destruct (prev <? r); [|auto]. destruct (all || (r =? ms)); [|auto]. cbn [label obs]. intro Hin.
    apply set_obs_keeps; [intro E; subst k; cbn in H; lia | exact Hin].
Qed.

(* ------------------------------------------------------------------ *)
(* pending levels never reach beyond the level where the job pauses/stops next *)
(* ------------------------------------------------------------------ *)
Lemma pending_bounded cfg h st : wf_config cfg = true -> legal_hist cfg init h -> run cfg init h = Ok st ->
  forall t p, In (t, p) (pend (srch st)) ->
    exists rec, find t (trials st) = Some rec /\ hi rec < p /\
      match sty cfg with
      | Promotion => exists ms rf, running rec = Some (ms, rf) /\ p <= ms
      | Stopping => forall b m, task_bracket rec = Some b -> In m (skipn b (rung_levels cfg)) \/ m = max_t cfg ->
                                hi rec < m -> p <= m
      end.
Proof.
  intros WF HL HR t p Hin. pose proof (legal_run_inv _ _ _ WF HL HR) as [_ [_ Hall]]. specialize (Hall t).
  destruct (find t (trials st)) as [rec|]; [|destruct Hall as [_ [B _]]; destruct (B p Hin)].
  exists rec. split; [reflexivity|]. destruct (g_pend _ _ _ _ _ Hall p Hin) as [Hd Hlo]. split; [exact Hlo|].
  pose proof (g_pend_ub _ _ _ _ _ Hall p) as UB. unfold MS in UB. destruct (sty cfg) eqn:HS.
  - intros b m Hb Hm Hlt. apply (UB m Hin); [exists b; auto | exact Hlt].
  - destruct (g_run _ _ _ _ _ Hall Hd) as [_ Hrun]. destruct (Hrun HS) as [ms [rf [E1 [E2 _]]]].
    exists ms, rf. split; [exact E1|]. apply (UB ms Hin); [exists rf; exact E1 | exact E2].
Qed.

(* ------------------------------------------------------------------ *)
(* the data the surrogate is fitted to                                  *)
(* ------------------------------------------------------------------ *)
Definition choose_ok (choose : list ((Z * Z) * Q) -> nat -> list ((Z * Z) * Q)) : Prop :=
  forall l n, (n < length l)%nat -> incl (choose l n) l /\ length (choose l n) = n /\
                                     (NoDup (map fst l) -> NoDup (map fst (choose l n))).

Lemma check_trial_ids_spec cfg s : check_trial_ids cfg s = true <-> forall t, In t (state_trials s) -> In t cfg.
Proof. unfold check_trial_ids. rewrite forallb_forall. split; intros H t Ht; [apply mem_Z_In | apply mem_Z_In]; auto. Qed.

Lemma cap_state_spec choose cap cfg s : choose_ok choose -> check_trial_ids cfg s = true ->
  exists s', cap_state choose cap cfg s = Some (cfg, s') /\
    incl (obs s') (obs s) /\ length (obs s') = Nat.min (length (obs s)) cap /\
    pend s' = pend s /\ failed s' = failed s /\
    ((length (obs s) <= cap)%nat -> obs s' = obs s) /\ (obs_nodup s -> obs_nodup s').
Proof.
  intros Hch Hck. unfold cap_state.
  set (o' := if Nat.leb (length (obs s)) cap then obs s else choose (obs s) cap).
  assert (Ho : incl o' (obs s) /\ length o' = Nat.min (length (obs s)) cap /\
               ((length (obs s) <= cap)%nat -> o' = obs s) /\ (obs_nodup s -> NoDup (map fst o'))).
  { subst o'. destruct (Nat.leb (length (obs s)) cap) eqn:E.
    - apply Nat.leb_le in E. split; [apply incl_refl|]. split; [lia|]. split; auto.
    - apply Nat.leb_gt in E. destruct (Hch (obs s) cap E) as [A [B C]]. split; [exact A|]. split; [lia|]. split; [lia | exact C]. }
  destruct Ho as [A [B [C D]]].
  assert (Hck' : check_trial_ids cfg {| obs := o'; pend := pend s; failed := failed s |} = true).
  { apply check_trial_ids_spec. intros t Ht. apply (proj1 (check_trial_ids_spec cfg s) Hck). unfold state_trials in *. cbn [obs pend failed] in Ht.
    apply in_app_or in Ht as [Ht|Ht]; apply in_or_app; [left | right; exact Ht].
    apply in_map_iff in Ht as [e [E1 E2]]. apply in_map_iff. exists e. split; [exact E1 | apply A; exact E2]. }
  rewrite Hck'. eexists. split; [reflexivity|]. cbn [obs pend failed]. repeat split; auto.
Qed.

Lemma fitted_rows_spec {C : Type} (config_of : Z -> C) s :
  length (fitted_rows config_of s) = length (obs s) /\
  (forall t r c, In ((t, r), c) (obs s) -> In (config_of t, r, c) (fitted_rows config_of s)) /\
  (forall x, In x (fitted_rows config_of s) -> exists t r c, In ((t, r), c) (obs s) /\ x = (config_of t, r, c)).
Proof.
  unfold fitted_rows. split; [apply map_length|]. split.
  - intros t r c H. apply in_map_iff. exists ((t, r), c). split; [reflexivity | exact H].
  - intros x H. apply in_map_iff in H as [[[t r] c] [E H]]. exists t, r, c. split; [exact H | symmetry; exact E].
Qed.

Lemma find_Some_keys t l rec : find t l = Some rec -> In t (map fst l).
Proof.
  induction l as [|[k v] l IH]; cbn; [discriminate|]. destruct (k =? t) eqn:E; [intros _; left; lia | intro H; right; auto].
Qed.

(* ------------------------------------------------------------------ *)
(* exclusion of failed / pending configurations                          *)
(* ------------------------------------------------------------------ *)
Lemma failed_excluded b s t : In t (failed s) -> In t (exclusion_trials b s).
Proof. intro H. unfold exclusion_trials. apply in_or_app. right. apply in_or_app. left. exact H. Qed.
Lemma pending_excluded b s t r : In (t, r) (pend s) -> In t (exclusion_trials b s).
Proof. intro H. unfold exclusion_trials. apply in_or_app. left. apply (in_map fst _ _ H). Qed.
Lemma observed_excluded s t r c : In ((t, r), c) (obs s) -> In t (exclusion_trials false s).
Proof.
  intro H. unfold exclusion_trials, observed_trials. apply in_or_app. right. apply in_or_app. right.
  apply in_map_iff. exists ((t, r), c). auto.
Qed.
Lemma draw_restricted_spec {C : Type} (eqb : C -> C -> bool) rc excl : forall draws c,
  draw_restricted eqb rc excl draws = Some c -> In c rc /\ existsb (eqb c) excl = false.
Proof.
  induction draws as [|pos rest IH]; intros c H; cbn in H; [discriminate|].
  destruct (nth_error rc pos) as [c0|] eqn:E; [|auto]. destruct (existsb (eqb c0) excl) eqn:EX; [auto|].
  inversion H; subst. split; [eapply nth_error_In; eauto | exact EX].
Qed.
(* the configuration drawn from restrict_configurations is not the configuration of a failed or pending
   trial, whatever allow_duplicates is *)
Lemma restricted_draw_avoids_failed {C : Type} (eqb : C -> C -> bool) (config_of : Z -> C) rc b s draws c t :
  (forall x, eqb x x = true) ->
  draw_restricted eqb rc (map config_of (exclusion_trials b s)) draws = Some c ->
  In t (failed s) \/ (exists r, In (t, r) (pend s)) -> c <> config_of t.
Proof.
  intros Hrefl Hd Ht Heq. destruct (draw_restricted_spec eqb rc _ draws c Hd) as [_ HX].
  assert (Hin : In t (exclusion_trials b s)) by (destruct Ht as [H|[r H]]; [apply failed_excluded; exact H | eapply pending_excluded; exact H]).
  assert (existsb (eqb c) (map config_of (exclusion_trials b s)) = true); [|congruence].
  apply existsb_exists. exists (config_of t). split; [apply in_map; exact Hin | rewrite Heq; apply Hrefl].
Qed.

(* a concrete down-sampling choice satisfying [choose_ok]: keep the first n observations *)
Lemma In_firstn {A} (x : A) l : forall n, In x (firstn n l) -> In x l.
Proof.
  induction l as [|a l IH]; intros [|n]; cbn; try tauto.
  intros [E|H]; [left; exact E | right; eapply IH; eauto].
Qed.
Lemma firstn_choose_ok : choose_ok (fun l n => firstn n l).
Proof.
  intros l n Hn. split; [intros x Hx; eapply In_firstn; eauto|]. split; [rewrite firstn_length; lia|].
  intro Hnd. rewrite <- firstn_map. clear Hn. revert n. induction (map fst l) as [|a m IH]; intros [|n]; cbn; try constructor.
  - inversion Hnd; subst. intro Hin. apply In_firstn in Hin. tauto.
  - inversion Hnd; subst. apply IH. assumption.
Qed.


(* ------------------------------------------------------------------ *)
(* snapshots: what is restored is what was saved                         *)
(* ------------------------------------------------------------------ *)
Lemma sop_step_saved st o st' : sop_step st o = Ok st' -> exists ext, fst st' = fst st ++ ext.
Proof.
  destruct st as [saved s]. destruct o; cbn [sop_step]; try (intro H; inversion H; subst; exists []; cbn; rewrite app_nil_r; reflexivity).
  - destruct (register_pending s t r); cbn; [|discriminate]. intro H. inversion H. exists []. cbn. rewrite app_nil_r. reflexivity.
  - destruct (remove_case s t r); cbn; [|discriminate]. intro H. inversion H. exists []. cbn. rewrite app_nil_r. reflexivity.
  - intro H. inversion H; subst. exists [s]. reflexivity.
Qed.
Lemma sop_run_saved ops : forall st st', sop_run st ops = Ok st' -> exists ext, fst st' = fst st ++ ext.
Proof.
  induction ops as [|o ops IH]; intros st st'; cbn [sop_run]; [intro H; inversion H; exists []; rewrite app_nil_r; reflexivity|].
  destruct (sop_step st o) as [st1|] eqn:E; cbn [bind]; [|discriminate]. intro H.
  destruct (sop_step_saved _ _ _ E) as [e1 H1]. destruct (IH _ _ H) as [e2 H2]. exists (e1 ++ e2). rewrite H2, H1, app_assoc. reflexivity.
Qed.
(* whatever happens to the live searcher (and to clones restored earlier) after a snapshot was taken, a later restore
   of that snapshot yields exactly the state at the time of the snapshot; it can be restored any number of times *)
Lemma restore_is_snapshot saved s ops saved' s' :
  sop_run (saved ++ [s], s) ops = Ok (saved', s') ->
  sop_step (saved', s') (ORestore (length saved)) = Ok (saved', s).
Proof.
  intro H. destruct (sop_run_saved _ _ _ H) as [ext E]. cbn [fst] in E. cbn [sop_step]. rewrite E.
  rewrite <- app_assoc. rewrite app_nth2 by lia. rewrite Nat.sub_diag. reflexivity.
Qed.
