(* ParetoRankProofs.v — NonDominatedPriority (post-fix) gives each point its position in the
   non-dominated sort; MOASHA's rank rule therefore compares that position with n/rf; the
   position of a point lies inside the index range of its Pareto layer. (C19, second wave) *)
From Verif Require Import model.Base model.Pareto proofs.ParetoProofs.
From Coq Require Import Permutation.

Definition injn (k : nat) : Q := inject_Z (Z.of_nat k).

Lemma injn_lt a b : Qltb (injn a) (injn b) = true <-> (a < b)%nat.
Proof.
  rewrite Qltb_lt. unfold injn, Qlt, inject_Z. simpl. rewrite !Z.mul_1_r. lia.
Qed.

(* --- index_of ------------------------------------------------------------- *)

Lemma index_of_notin j : forall l i, ~ In j l -> index_of j l i = None.
Proof.
  induction l as [|x l IH]; intros i H; simpl; [reflexivity|].
  destruct (Nat.eqb x j) eqn:E.
  - apply Nat.eqb_eq in E. exfalso. apply H. left. exact E.
  - apply IH. intro Hin. apply H. right. exact Hin.
Qed.

Lemma index_of_nodup j : forall l i k, NoDup l -> nth_error l k = Some j -> index_of j l i = Some (i + k)%nat.
Proof.
  induction l as [|x l IH]; intros i k Hnd Hk; [destruct k; discriminate|].
  inversion Hnd as [|? ? Hx Hnd']; subst. destruct k as [|k]; simpl in *.
  - injection Hk as ->. rewrite Nat.eqb_refl. f_equal. lia.
  - destruct (Nat.eqb x j) eqn:E.
    + apply Nat.eqb_eq in E. subst x. exfalso. apply Hx. eapply nth_error_In. exact Hk.
    + rewrite (IH (S i) k Hnd' Hk). f_equal. lia.
Qed.

(* --- priorities ----------------------------------------------------------- *)

Definition prio_fun (sorted : list nat) (j : nat) : Q :=
  match index_of j sorted 0 with Some p => injn p | None => injn (length sorted) end.

Lemma priority_of_sorted_map sorted n : priority_of_sorted sorted n = map (prio_fun sorted) (seq 0 n).
Proof. reflexivity. Qed.

Lemma priority_length sorted n : length (priority_of_sorted sorted n) = n.
Proof. rewrite priority_of_sorted_map, map_length, seq_length. reflexivity. Qed.

(* the priority of a listed point is its position in the sort; unlisted points (max_items) share
   the lowest priority len(sorted) *)
Lemma priority_is_position sorted n j p : NoDup sorted -> (j < n)%nat -> nth_error sorted p = Some j ->
  nth j (priority_of_sorted sorted n) 0 = injn p.
Proof.
  intros Hnd Hj Hp. rewrite priority_of_sorted_map.
  rewrite (nth_indep _ 0 (prio_fun sorted 0%nat)) by (rewrite map_length, seq_length; exact Hj).
  rewrite map_nth, seq_nth by exact Hj. simpl. unfold prio_fun.
  rewrite (index_of_nodup j sorted 0 p Hnd Hp). reflexivity.
Qed.

Lemma priority_unlisted sorted n j : (j < n)%nat -> ~ In j sorted ->
  nth j (priority_of_sorted sorted n) 0 = injn (length sorted).
Proof.
  intros Hj Hn. rewrite priority_of_sorted_map.
  rewrite (nth_indep _ 0 (prio_fun sorted 0%nat)) by (rewrite map_length, seq_length; exact Hj).
  rewrite map_nth, seq_nth by exact Hj. simpl. unfold prio_fun. rewrite index_of_notin by exact Hn. reflexivity.
Qed.

(* --- counting ------------------------------------------------------------- *)

Lemma count_lt_app x a b : count_lt x (a ++ b) = (count_lt x a + count_lt x b)%nat.
Proof. unfold count_lt. rewrite filter_app, app_length. reflexivity. Qed.

Lemma count_lt_perm x l l' : Permutation l l' -> count_lt x l = count_lt x l'.
Proof.
  unfold count_lt. induction 1 as [|y l l' H IH|y z l|l l' l'' H1 IH1 H2 IH2]; simpl.
  - reflexivity.
  - destruct (Qltb y x); simpl; rewrite IH; reflexivity.
  - destruct (Qltb y x), (Qltb z x); reflexivity.
  - rewrite IH1. exact IH2.
Qed.

Lemma count_lt_one x y : count_lt x [y] = if Qltb y x then 1%nat else 0%nat.
Proof. unfold count_lt. simpl. destruct (Qltb y x); reflexivity. Qed.

Lemma count_lt_seq p m : count_lt (injn p) (map injn (seq 0 m)) = Nat.min p m.
Proof.
  induction m as [|m IH].
  - rewrite Nat.min_0_r. reflexivity.
  - rewrite seq_S, map_app, count_lt_app, IH. cbn [map Nat.add]. rewrite count_lt_one.
    destruct (Nat.min_spec p m) as [[H1 H2]|[H1 H2]]; destruct (Nat.min_spec p (S m)) as [[H3 H4]|[H3 H4]];
      rewrite H2, H4; destruct (Qltb (injn m) (injn p)) eqn:E;
      try (apply injn_lt in E); try (assert (~ (m < p)%nat) by (intro Hc; apply injn_lt in Hc; congruence)); lia.
Qed.

Lemma map_prio_sorted sorted : NoDup sorted ->
  map (prio_fun sorted) sorted = map injn (seq 0 (length sorted)).
Proof.
  intro Hnd. apply (nth_ext _ _ 0 0).
  - rewrite !map_length, seq_length. reflexivity.
  - intros k Hk. rewrite map_length in Hk.
    rewrite (nth_indep _ 0 (prio_fun sorted 0%nat)) by (rewrite map_length; exact Hk).
    rewrite map_nth.
    rewrite (nth_indep (map injn _) 0 (injn 0)) by (rewrite map_length, seq_length; exact Hk).
    rewrite map_nth, seq_nth by exact Hk. simpl.
    unfold prio_fun. erewrite index_of_nodup; [reflexivity|exact Hnd|].
    apply nth_error_nth'. exact Hk.
Qed.

(* the priorities of a full sort are a permutation of 0 .. n-1 *)
Lemma priorities_perm sorted n : Permutation sorted (seq 0 n) ->
  Permutation (priority_of_sorted sorted n) (map injn (seq 0 n)).
Proof.
  intro HP. rewrite priority_of_sorted_map.
  assert (Hnd : NoDup sorted) by (eapply Permutation_NoDup; [apply Permutation_sym; exact HP|apply seq_NoDup]).
  eapply Permutation_trans; [apply Permutation_map; apply Permutation_sym; exact HP|].
  rewrite (map_prio_sorted sorted Hnd).
  apply Permutation_length in HP. rewrite seq_length in HP. rewrite HP. apply Permutation_refl.
Qed.

(* number of priorities strictly smaller than the priority of the point at sort position p = p *)
Lemma count_lt_position sorted n j p : Permutation sorted (seq 0 n) -> (j < n)%nat ->
  nth_error sorted p = Some j ->
  count_lt (nth j (priority_of_sorted sorted n) 0) (priority_of_sorted sorted n) = p.
Proof.
  intros HP Hj Hp.
  assert (Hnd : NoDup sorted) by (eapply Permutation_NoDup; [apply Permutation_sym; exact HP|apply seq_NoDup]).
  rewrite (priority_is_position sorted n j p Hnd Hj Hp).
  rewrite (count_lt_perm _ _ _ (priorities_perm sorted n HP)), count_lt_seq.
  assert (p < length sorted)%nat by (apply nth_error_Some; congruence).
  apply Permutation_length in HP. rewrite seq_length in HP. lia.
Qed.

Lemma last_priority sorted m :
  last (priority_of_sorted sorted (S m)) 0 = nth m (priority_of_sorted sorted (S m)) 0.
Proof.
  rewrite priority_of_sorted_map, seq_S, map_app. simpl. rewrite last_last.
  rewrite app_nth2 by (rewrite map_length, seq_length; lia).
  rewrite map_length, seq_length, Nat.sub_diag. reflexivity.
Qed.

(* MOASHA with NonDominatedPriority: the reporting trial is the last row (index m of m+1 rows);
   STOP iff its position p in the non-dominated sort satisfies p/(m+1) > 1/rf *)
Lemma moasha_stop_nd rf sorted m p : Permutation sorted (seq 0 (S m)) -> nth_error sorted p = Some m ->
  let ps := priority_of_sorted sorted (S m) in
  (moasha_stop rf ps (last ps 0) = true <-> 1 / rf < injn p / injn (S m)).
Proof.
  intros HP Hp ps. unfold ps. rewrite moasha_stop_spec, last_priority.
  rewrite (count_lt_position sorted (S m) m p HP (Nat.lt_succ_diag_r m) Hp), priority_length.
  unfold injn. tauto.
Qed.

(* --- position of a point lies inside the index range of its layer -------- *)

Lemma concat_position {A} (x : A) : forall (Ls : list (list A)) k, In x (nth k Ls []) ->
  exists p, nth_error (concat Ls) p = Some x /\
            (length (concat (firstn k Ls)) <= p < length (concat (firstn (S k) Ls)))%nat.
Proof.
  induction Ls as [|L Ls IH]; intros k Hin.
  - destruct k; contradiction.
  - destruct k as [|k]; simpl in Hin.
    + destruct (In_nth_error _ _ Hin) as [p Hp]. exists p. simpl. rewrite app_nil_r. split.
      * rewrite nth_error_app1; [exact Hp|]. apply nth_error_Some. congruence.
      * split; [lia|]. apply nth_error_Some. congruence.
    + destruct (IH k Hin) as [p [Hp [H1 H2]]]. exists (length L + p)%nat. split.
      * simpl. rewrite nth_error_app2 by lia. replace (length L + p - length L)%nat with p by lia. exact Hp.
      * change (firstn (S k) (L :: Ls)) with (L :: firstn k Ls).
        change (firstn (S (S k)) (L :: Ls)) with (L :: firstn (S k) Ls).
        cbn [concat]. rewrite !app_length. lia.
Qed.

(* for every within-layer order eps: the sort position of a point of Pareto layer k lies in
   [ #points of layers < k ,  #points of layers <= k ) *)
Lemma nd_sort_position_in_layer eps (Hlen : forall l, length (eps l) = length l)
      (Heps : forall l, Permutation (eps l) l) X j k :
  let layers := nd_layers X (seq 0 (length X)) (length X) in
  In j (nth k layers []) ->
  exists p, nth_error (nondominated_sort_flat eps X) p = Some j /\
            (length (concat (firstn k layers)) <= p < length (concat (firstn (S k) layers)))%nat.
Proof.
  intros layers Hin. unfold nondominated_sort_flat. fold layers.
  assert (Hin' : In j (nth k (map eps layers) [])).
  { destruct (Nat.lt_ge_cases k (length layers)) as [Hk|Hk].
    - rewrite (nth_indep _ [] (eps [])) by (rewrite map_length; exact Hk).
      rewrite map_nth. eapply Permutation_in; [apply Permutation_sym; apply Heps|exact Hin].
    - rewrite nth_overflow in Hin by exact Hk. contradiction. }
  destruct (concat_position j (map eps layers) k Hin') as [p [Hp Hb]]. exists p. split; [exact Hp|].
  assert (Hl : forall n, length (concat (firstn n (map eps layers))) = length (concat (firstn n layers))).
  { intro n. rewrite firstn_map. generalize (firstn n layers). intro l.
    induction l as [|a l IHl]; simpl; [reflexivity|]. rewrite !app_length, Hlen, IHl. reflexivity. }
  rewrite <- !Hl. exact Hb.
Qed.
