(* SimDeliveryProofs.v — second part of the lemmas about model/Sim.v (C10): what
   fetch_status_results delivers end to end (latest run, once, in order, in time). *)
From Verif Require Import model.Base model.Sim proofs.SimProofs.
From Coq Require Import Lqa Qminmax Sorted Permutation.
Open Scope Q_scope.

(* ---- list helpers ---------------------------------------------------------- *)
Lemma set_nth_length {A} (l : list A) : forall i x, length (set_nth i x l) = length l.
Proof. induction l as [|y l IH]; intros [|i] x; simpl; auto. Qed.

Lemma nth_error_set_nth {A} (l : list A) : forall i x j,
  nth_error (set_nth i x l) j =
  if Nat.eqb j i then (match nth_error l j with Some _ => Some x | None => None end) else nth_error l j.
Proof.
  induction l as [|y l IH]; intros i x j; simpl.
  - destruct (Nat.eqb j i); destruct j; destruct i; reflexivity.
  - destruct i as [|i]; destruct j as [|j]; simpl; try reflexivity. apply IH.
Qed.

Lemma SS_app {A} (R : A -> A -> Prop) (a b : list A) :
  StronglySorted R (a ++ b) <->
  StronglySorted R a /\ StronglySorted R b /\ (forall x y, In x a -> In y b -> R x y).
Proof.
  induction a as [|x a IH]; simpl.
  - split; [intro H; repeat split; [constructor|exact H|intros x y []] | intros (_ & H & _); exact H].
  - split.
    + intro H. inversion H as [|x' l' Hs Hall]; subst. apply IH in Hs as (H1 & H2 & H3).
      rewrite Forall_forall in Hall. repeat split.
      * constructor; [exact H1|]. apply Forall_forall. intros y Hy. apply Hall. apply in_or_app. left. exact Hy.
      * exact H2.
      * intros u v [<-|Hu] Hv; [apply Hall; apply in_or_app; right; exact Hv | apply H3; assumption].
    + intros (H1 & H2 & H3). inversion H1 as [|x' l' Hs Hall]; subst. rewrite Forall_forall in Hall.
      constructor.
      * apply IH. repeat split; [exact Hs|exact H2|]. intros u v Hu Hv. apply H3; [right; exact Hu|exact Hv].
      * apply Forall_forall. intros y Hy. apply in_app_or in Hy as [Hy|Hy]; [apply Hall; exact Hy|].
        apply H3; [left; reflexivity|exact Hy].
Qed.

Lemma SS_In_nodup {A} (R : A -> A -> Prop) (x : A) l :
  (forall y, ~ R y y) -> StronglySorted R (x :: l) -> ~ In x l.
Proof.
  intros Hirr H Hin. inversion H as [|x' l' Hs Hall]; subst. rewrite Forall_forall in Hall.
  apply (Hirr x). apply Hall. exact Hin.
Qed.

Lemma In_remove_key_neq {A} k (l : list (nat * A)) k' v : In (k', v) (remove_key k l) -> k' <> k.
Proof.
  induction l as [|[k0 v0] l IH]; simpl; [contradiction|]. destruct (Nat.eqb k k0) eqn:E.
  - exact IH.
  - intros [H|H]; [|exact (IH H)]. injection H as -> _. apply Nat.eqb_neq in E. congruence.
Qed.
Lemma In_remove_key_rev {A} k (l : list (nat * A)) k' v : In (k', v) l -> k' <> k -> In (k', v) (remove_key k l).
Proof.
  induction l as [|[k0 v0] l IH]; simpl; [auto|]. intros [H|H] Hne.
  - injection H as -> ->. destruct (Nat.eqb k k') eqn:E; [apply Nat.eqb_eq in E; congruence|left; reflexivity].
  - destruct (Nat.eqb k k0); [apply IH; assumption | right; apply IH; assumption].
Qed.

Section Delivery.
Variable S_ : settings.
Variable tbl : table.
Variable draw : nat -> nat.

Notation step := (step S_ tbl draw).
Notation run_ops := (run_ops S_ tbl draw).
Notation process := (process S_ tbl draw).
Notation process_now := (process_now S_ tbl draw).
Notation proc_event := (proc_event S_ tbl draw).
Notation proc_start := (proc_start S_ tbl draw).
Notation reach := (reach S_ tbl draw).

(* ======================================================================== *)
(*  A. one iteration of the event loop, completely                           *)
(* ======================================================================== *)
Lemma process_ind (I : state -> Prop) :
  (forall st h rest st1, I st -> heap st = h :: rest -> Qleb (h_time h) (clock st) = true ->
     proc_event (set_heap st rest) h = Ok st1 -> I st1) ->
  forall fuel st st', I st -> process fuel st = Ok st' -> I st'.
Proof.
  intro Hstep. induction fuel as [|f IH]; intros st st' HI H; simpl in H; [discriminate|].
  destruct (heap st) as [|h rest] eqn:Hh.
  - injection H as <-. exact HI.
  - destruct (Qleb (h_time h) (clock st)) eqn:Hq.
    + destruct (proc_event (set_heap st rest) h) as [st1|e] eqn:E; [|discriminate].
      eapply IH; [|exact H]. eapply Hstep; eauto.
    + injection H as <-. exact HI.
Qed.

Lemma push_results_iff rs : forall st t run idx te tf x,
  In x (heap (fst (push_results S_ st t run idx te tf rs))) <->
  In x (heap st) \/
  exists j r, nth_error rs j = Some r /\
              x = mkH (qadd (qadd te (res_elapsed r)) (d_result S_)) (added st + j) t (EvResult run (idx + j) r).
Proof.
  induction rs as [|r rs IH]; intros st t run idx te tf x; simpl.
  - split; [auto|]. intros [H|(j & r & Hj & _)]; [exact H|destruct j; discriminate].
  - rewrite IH. simpl. rewrite In_insert. split.
    + intros [[->|H]|(j & r' & Hj & ->)].
      * right. exists 0%nat, r. rewrite !Nat.add_0_r. split; reflexivity.
      * left. exact H.
      * right. exists (S j), r'. split; [exact Hj|]. f_equal; [lia|]. f_equal. lia.
    + intros [H|(j & r' & Hj & ->)]; [left; right; exact H|].
      destruct j as [|j]; simpl in Hj.
      * injection Hj as <-. left. left. rewrite !Nat.add_0_r. reflexivity.
      * right. exists j, r'. split; [exact Hj|]. f_equal; [lia|]. f_equal. lia.
Qed.

Lemma push_results_added rs : forall st t run idx te tf,
  added (fst (push_results S_ st t run idx te tf rs)) = (added st + length rs)%nat.
Proof. induction rs as [|r rs IH]; intros; simpl; [lia|]. rewrite IH. simpl. lia. Qed.

(* a start event: one new run, its reports and its completion are queued, nothing else changes *)
Lemma iter_start st rest h st1 : h_ev h = EvStart -> proc_event (set_heap st rest) h = Ok st1 ->
  exists tr seed rs tc,
    nth_error (trials st) (h_trial h) = Some tr /\
    job_results S_ tbl (t_cfg tr) seed (lookup (h_trial h) (paused_at st)) = Ok rs /\
    runs st1 = runs st ++ [mkRun (h_trial h) (h_time h) (t_cfg tr) seed (lookup (h_trial h) (paused_at st)) rs] /\
    trials st1 = trials st /\ nextres st1 = nextres st /\ clock st1 = clock st /\ paused_at st1 = paused_at st /\
    forall x, In x (heap st1) <->
      In x rest \/
      (exists j r, nth_error rs j = Some r /\
                   x = mkH (qadd (qadd (h_time h) (res_elapsed r)) (d_result S_)) (added st + j) (h_trial h)
                           (EvResult (length (runs st)) j r)) \/
      x = mkH tc (added st + length rs) (h_trial h) (EvComplete Completed).
Proof.
  intros Hev. unfold Sim.proc_event. rewrite Hev. unfold Sim.proc_start. simpl trials.
  destruct (nth_error (trials st) (h_trial h)) as [tr|]; [|discriminate].
  set (p := match fixed_seed S_ with
            | Some s => (s, set_heap st rest)
            | None => match lookup (h_trial h) (seeds (set_heap st rest)) with
                      | Some s => (s, set_heap st rest)
                      | None => (draw (length (runs (set_heap st rest))),
                                 set_seeds (set_heap st rest) (seeds (set_heap st rest) ++ [(h_trial h, draw (length (runs (set_heap st rest))))]))
                      end
            end).
  assert (Hp : heap (snd p) = rest /\ runs (snd p) = runs st /\ paused_at (snd p) = paused_at st /\
               trials (snd p) = trials st /\ nextres (snd p) = nextres st /\ clock (snd p) = clock st /\
               added (snd p) = added st).
  { unfold p. destruct (fixed_seed S_); [repeat split|]. destruct (lookup _ _); repeat split. }
  destruct p as [seed st0]. simpl in Hp. destruct Hp as (Ph & Pr & Pp & Pt & Pn & Pc & Pa).
  destruct (job_results S_ tbl (t_cfg tr) seed (lookup (h_trial h) (paused_at st0))) as [rs|e] eqn:Ej; [|discriminate].
  pose proof (push_results_fields S_ rs st0 (h_trial h) (length (runs st0)) 0%nat (h_time h) (h_time h)) as Hf.
  pose proof (push_results_iff rs st0 (h_trial h) (length (runs st0)) 0%nat (h_time h) (h_time h)) as Hh.
  pose proof (push_results_added rs st0 (h_trial h) (length (runs st0)) 0%nat (h_time h) (h_time h)) as Ha.
  pose proof (push_results_clock S_ rs st0 (h_trial h) (length (runs st0)) 0%nat (h_time h) (h_time h)) as Hc.
  destruct (push_results S_ st0 (h_trial h) (length (runs st0)) 0 (h_time h) (h_time h) rs) as [st2 tf].
  simpl in Hf, Hh, Ha, Hc. destruct Hf as (Ft & Fn & _ & _ & Fp & Fr).
  intro H. injection H as <-. exists tr, seed, rs, (qadd tf (d_complete S_)).
  rewrite Pp in Ej. split; [reflexivity|]. split; [exact Ej|]. simpl.
  rewrite Fr, Pr, Ft, Pt, Fn, Pn, Hc, Pc, Fp, Pp. repeat split; try reflexivity.
  - rewrite In_insert, Hh, Ph, Ha, Pa, Pr. simpl. intros [->|[H|H]]; auto.
  - rewrite In_insert, Hh, Ph, Ha, Pa, Pr. simpl. intros [H|[H|H]]; auto.
Qed.

Lemma iter_complete st rest h st1 s : h_ev h = EvComplete s -> proc_event (set_heap st rest) h = Ok st1 ->
  exists tr, nth_error (trials st) (h_trial h) = Some tr /\
    heap st1 = rest /\ runs st1 = runs st /\ nextres st1 = nextres st /\ clock st1 = clock st /\
    trials st1 = set_nth (h_trial h) (mkTrial (t_cfg tr) true (Some s)) (trials st).
Proof.
  intros Hev. unfold Sim.proc_event. rewrite Hev. unfold proc_complete. simpl.
  destruct (nth_error (trials st) (h_trial h)) as [tr|]; [|discriminate].
  intro H. injection H as <-. exists tr. repeat split.
Qed.

Lemma iter_stop st rest h st1 : h_ev h = EvStop -> proc_event (set_heap st rest) h = Ok st1 ->
  heap st1 = remove_events (h_trial h) rest /\ runs st1 = runs st /\ nextres st1 = nextres st /\
  clock st1 = clock st /\ trials st1 = trials st.
Proof.
  intros Hev. unfold Sim.proc_event. rewrite Hev. intro H. injection H as <-. repeat split.
Qed.

Lemma iter_result st rest h st1 k i r : h_ev h = EvResult k i r -> proc_event (set_heap st rest) h = Ok st1 ->
  exists tr, nth_error (trials st) (h_trial h) = Some tr /\
    heap st1 = rest /\ runs st1 = runs st /\ clock st1 = clock st /\
    nextres st1 = set_key (h_trial h)
                    (match lookup (h_trial h) (nextres st) with Some l => l | None => [] end ++ [(k, i, r, h_time h)])
                    (nextres st) /\
    (trials st1 = trials st \/
     trials st1 = set_nth (h_trial h) (mkTrial (t_cfg tr) true (Some InProgress)) (trials st)).
Proof.
  intros Hev. unfold Sim.proc_event. rewrite Hev. unfold proc_result. simpl.
  destruct (nth_error (trials st) (h_trial h)) as [tr|]; [|discriminate].
  destruct (t_isres tr); intro H; injection H as <-; exists tr; repeat split; auto.
Qed.

(* ======================================================================== *)
(*  B. loop invariant: a delivered result belongs to the trial's latest run  *)
(* ======================================================================== *)
Definition stopish (e : event) : Prop := e = EvStop \/ exists s, e = EvComplete s /\ s <> Completed.
Definition is_result (e : event) : Prop := exists k i r, e = EvResult k i r.

(* run k is the most recent job run of trial t *)
Definition latest (rs : list run_rec) (t k : nat) : Prop :=
  (exists run, nth_error rs k = Some run /\ run_trial run = t) /\
  forall k' run', (k < k')%nat -> nth_error rs k' = Some run' -> run_trial run' <> t.

Lemma latest_app_other rs run t k : latest rs t k -> run_trial run <> t -> latest (rs ++ [run]) t k.
Proof.
  intros [(r0 & H1 & H2) H3] Hne. split.
  - exists r0. split; [|exact H2]. rewrite nth_error_app1; [exact H1|]. apply nth_error_Some. congruence.
  - intros k' run' Hlt Hk'. destruct (Nat.lt_ge_cases k' (length rs)) as [Hl|Hl].
    + rewrite nth_error_app1 in Hk' by exact Hl. eapply H3; eauto.
    + rewrite nth_error_app2 in Hk' by exact Hl. destruct (k' - length rs)%nat as [|n]; simpl in Hk'.
      * injection Hk' as <-. exact Hne.
      * destruct n; discriminate.
Qed.
Lemma latest_new rs run : latest (rs ++ [run]) (run_trial run) (length rs).
Proof.
  split.
  - exists run. split; [|reflexivity]. rewrite nth_error_app2 by lia. rewrite Nat.sub_diag. reflexivity.
  - intros k' run' Hlt Hk'. assert (Hn : nth_error (rs ++ [run]) k' = None).
    { apply nth_error_None. rewrite app_length. simpl. lia. }
    congruence.
Qed.

(* a queued start event of a trial is alone: the only other queued events of the trial are the
   stop / stop-completion of a blocking call in progress, and nothing of the trial is pending *)
Definition Cinv (st : state) : Prop :=
  forall hs, In hs (heap st) -> h_ev hs = EvStart ->
    (forall x, In x (heap st) -> h_trial x = h_trial hs -> x = hs \/ stopish (h_ev x)) /\
    (forall l, ~ In (h_trial hs, l) (nextres st)).

Definition Linv (st : state) : Prop :=
  (forall x k i r, In x (heap st) -> h_ev x = EvResult k i r -> latest (runs st) (h_trial x) k) /\
  (forall t l k i r ts, In (t, l) (nextres st) -> In (k, i, r, ts) l -> latest (runs st) t k).

Definition W (st : state) : Prop := HInv st /\ Cinv st /\ Linv st.

Lemma head_not_in_rest st h rest : HInv st -> heap st = h :: rest -> ~ In h rest.
Proof.
  intros [Hs _] Hh. rewrite Hh in Hs. apply (SS_In_nodup key_lt h rest key_lt_irrefl Hs).
Qed.

Lemma not_stopish_start : ~ stopish EvStart.
Proof. intros [H|(s & H & _)]; discriminate. Qed.
Lemma not_stopish_result k i r : ~ stopish (EvResult k i r).
Proof. intros [H|(s & H & _)]; discriminate. Qed.
Lemma not_stopish_completed : ~ stopish (EvComplete Completed).
Proof. intros [H|(s & H & Hs)]; [discriminate|]. injection H as <-. apply Hs. reflexivity. Qed.

Lemma iter_W st h rest st1 :
  W st -> heap st = h :: rest -> proc_event (set_heap st rest) h = Ok st1 -> W st1.
Proof.
  intros (HH & HC & HL) Hh Hp.
  assert (Hnin : ~ In h rest) by (eapply head_not_in_rest; eauto).
  assert (Hsub : forall x, In x rest -> In x (heap st)) by (intros x Hx; rewrite Hh; right; exact Hx).
  assert (Hhin : In h (heap st)) by (rewrite Hh; left; reflexivity).
  split; [eapply proc_event_hinv; eauto|].
  destruct (h_ev h) as [|s| |k i r] eqn:Hev.
  - (* start *)
    destruct (iter_start st rest h st1 Hev Hp) as (tr & seed & rs & tc & Htr & Hj & Hr & Ht & Hn & Hc & Hpa & Hheap).
    destruct (HC h Hhin Hev) as [HCh HCp].
    split.
    + intros hs Hhs Hes. apply Hheap in Hhs as [Hhs|[(j & r & _ & ->) | -> ]]; [|simpl in Hes; discriminate|simpl in Hes; discriminate].
      destruct (HC hs (Hsub _ Hhs) Hes) as [HC1 HC2].
      assert (Hne : h_trial hs <> h_trial h).
      { intro E. destruct (HCh hs (Hsub _ Hhs) E) as [->|Hs]; [contradiction|].
        rewrite Hes in Hs. exact (not_stopish_start Hs). }
      split.
      * intros x Hx Etr. apply Hheap in Hx as [Hx|[(j & r & _ & ->) | -> ]]; [|simpl in Etr; congruence|simpl in Etr; congruence].
        apply HC1; [apply Hsub; exact Hx|exact Etr].
      * intros l Hl. rewrite Hn in Hl. eapply HC2; eauto.
    + destruct HL as [HL1 HL2]. unfold Linv. rewrite Hr. split.
      * intros x k i r Hx Hex. apply Hheap in Hx as [Hx|[(j & r' & _ & ->) | -> ]].
        -- apply latest_app_other; [eapply HL1; eauto|]. simpl. intro E.
           destruct (HCh x (Hsub _ Hx) (eq_sym E)) as [->|Hs]; [contradiction|].
           rewrite Hex in Hs. exact (not_stopish_result _ _ _ Hs).
        -- simpl in Hex. injection Hex as <- _ _. simpl.
           apply (latest_new (runs st) (mkRun (h_trial h) (h_time h) (t_cfg tr) seed (lookup (h_trial h) (paused_at st)) rs)).
        -- simpl in Hex. discriminate.
      * intros t l k i r ts Hl Hp'. rewrite Hn in Hl. apply latest_app_other; [eapply HL2; eauto|].
        simpl. intro E. subst t. eapply HCp; eauto.
  - (* complete *)
    destruct (iter_complete st rest h st1 s Hev Hp) as (tr & _ & Hheap & Hr & Hn & _ & _).
    split.
    + intros hs Hhs Hes. rewrite Hheap in Hhs. destruct (HC hs (Hsub _ Hhs) Hes) as [HC1 HC2]. split.
      * intros x Hx. rewrite Hheap in Hx. apply HC1. apply Hsub. exact Hx.
      * rewrite Hn. exact HC2.
    + destruct HL as [HL1 HL2]. unfold Linv. rewrite Hr, Hn, Hheap. split; [|exact HL2].
      intros x k i r Hx. apply HL1. apply Hsub. exact Hx.
  - (* stop *)
    destruct (iter_stop st rest h st1 Hev Hp) as (Hheap & Hr & Hn & _ & _).
    assert (Hsub' : forall x, In x (heap st1) -> In x (heap st)).
    { intros x Hx. rewrite Hheap in Hx. apply filter_In in Hx as [Hx _]. apply Hsub. exact Hx. }
    split.
    + intros hs Hhs Hes. destruct (HC hs (Hsub' _ Hhs) Hes) as [HC1 HC2]. split.
      * intros x Hx. apply HC1. apply Hsub'. exact Hx.
      * rewrite Hn. exact HC2.
    + destruct HL as [HL1 HL2]. unfold Linv. rewrite Hr, Hn. split; [|exact HL2].
      intros x k i r Hx. apply HL1. apply Hsub'. exact Hx.
  - (* result *)
    destruct (iter_result st rest h st1 k i r Hev Hp) as (tr & _ & Hheap & Hr & _ & Hn & _).
    split.
    + intros hs Hhs Hes. rewrite Hheap in Hhs. destruct (HC hs (Hsub _ Hhs) Hes) as [HC1 HC2].
      assert (Hne : h_trial h <> h_trial hs).
      { intro E. destruct (HC1 h Hhin E) as [->|Hs]; [congruence|]. rewrite Hev in Hs. exact (not_stopish_result _ _ _ Hs). }
      split.
      * intros x Hx. rewrite Hheap in Hx. apply HC1. apply Hsub. exact Hx.
      * intros l Hl. rewrite Hn in Hl. apply In_set_key in Hl as [[E _]|Hl]; [congruence|]. eapply HC2; eauto.
    + destruct HL as [HL1 HL2]. unfold Linv. rewrite Hr, Hheap. split.
      * intros x k' i' r' Hx. apply HL1. apply Hsub. exact Hx.
      * intros t l k' i' r' ts Hl Hp'. rewrite Hn in Hl. apply In_set_key in Hl as [[-> ->]|Hl]; [|eapply HL2; eauto].
        apply in_app_or in Hp' as [Hp'|[Hp'|[]]].
        -- destruct (lookup (h_trial h) (nextres st)) as [l0|] eqn:El; [|contradiction].
           apply lookup_in in El. eapply HL2; eauto.
        -- injection Hp' as <- <- <- <-. eapply HL1; eauto.
Qed.

Lemma process_W fuel st st' : W st -> process fuel st = Ok st' -> W st'.
Proof. apply (process_ind W). intros s h rest s1 HW Hh _ Hp. eapply iter_W; eauto. Qed.

(* ======================================================================== *)
(*  C. invariants between calls: nothing of a paused trial is queued          *)
(* ======================================================================== *)
Definition clean (t : nat) (st : state) : Prop :=
  (forall x, In x (heap st) -> h_trial x <> t) /\ (forall l, ~ In (t, l) (nextres st)).
Definition status_of (st : state) (t : nat) : option status :=
  match nth_error (trials st) t with Some tr => t_status tr | None => None end.

(* T = the trial of the blocking stop / pause in progress (nothing between calls) *)
Definition LP (T : nat -> Prop) (st : state) : Prop :=
  (forall x, In x (heap st) -> stopish (h_ev x) -> T (h_trial x)) /\
  (forall t, ~ T t -> status_of st t = Some Paused -> clean t st) /\
  (forall x, In x (heap st) -> (h_trial x < length (trials st))%nat \/ T (h_trial x)) /\
  (forall t l, In (t, l) (nextres st) -> (t < length (trials st))%nat \/ T t).

Lemma iter_heap st rest h st1 : proc_event (set_heap st rest) h = Ok st1 ->
  forall x, In x (heap st1) ->
    In x rest \/ (h_ev h = EvStart /\ h_trial x = h_trial h /\ ~ stopish (h_ev x) /\ h_ev x <> EvStart).
Proof.
  intros Hp x Hx. destruct (h_ev h) as [|s| |k i r] eqn:Hev.
  - destruct (iter_start st rest h st1 Hev Hp) as (tr & seed & rs & tc & _ & _ & _ & _ & _ & _ & _ & Hheap).
    apply Hheap in Hx as [Hx|[(j & r & _ & ->)| ->]]; [left; exact Hx| |]; right; simpl;
      repeat split; try discriminate; [apply not_stopish_result|apply not_stopish_completed].
  - destruct (iter_complete st rest h st1 s Hev Hp) as (tr & _ & Hheap & _). rewrite Hheap in Hx. left. exact Hx.
  - destruct (iter_stop st rest h st1 Hev Hp) as (Hheap & _). rewrite Hheap in Hx.
    apply filter_In in Hx as [Hx _]. left. exact Hx.
  - destruct (iter_result st rest h st1 k i r Hev Hp) as (tr & _ & Hheap & _). rewrite Hheap in Hx. left. exact Hx.
Qed.

Lemma iter_length st rest h st1 : proc_event (set_heap st rest) h = Ok st1 ->
  length (trials st1) = length (trials st).
Proof.
  intros Hp. destruct (h_ev h) as [|s| |k i r] eqn:Hev.
  - destruct (iter_start st rest h st1 Hev Hp) as (tr & seed & rs & tc & _ & _ & _ & -> & _). reflexivity.
  - destruct (iter_complete st rest h st1 s Hev Hp) as (tr & _ & _ & _ & _ & _ & ->). apply set_nth_length.
  - destruct (iter_stop st rest h st1 Hev Hp) as (_ & _ & _ & _ & ->). reflexivity.
  - destruct (iter_result st rest h st1 k i r Hev Hp) as (tr & _ & _ & _ & _ & _ & [-> | ->]);
      [reflexivity|apply set_nth_length].
Qed.

Lemma iter_nextres st rest h st1 : proc_event (set_heap st rest) h = Ok st1 ->
  forall t l, In (t, l) (nextres st1) -> In (t, l) (nextres st) \/ (is_result (h_ev h) /\ t = h_trial h).
Proof.
  intros Hp t l Hl. destruct (h_ev h) as [|s| |k i r] eqn:Hev.
  - destruct (iter_start st rest h st1 Hev Hp) as (tr & seed & rs & tc & _ & _ & _ & _ & Hn & _). rewrite Hn in Hl. auto.
  - destruct (iter_complete st rest h st1 s Hev Hp) as (tr & _ & _ & _ & Hn & _). rewrite Hn in Hl. auto.
  - destruct (iter_stop st rest h st1 Hev Hp) as (_ & _ & Hn & _). rewrite Hn in Hl. auto.
  - destruct (iter_result st rest h st1 k i r Hev Hp) as (tr & _ & _ & _ & _ & Hn & _). rewrite Hn in Hl.
    apply In_set_key in Hl as [[-> _]|Hl]; [right; split; [exists k, i, r; reflexivity|reflexivity]|left; exact Hl].
Qed.

(* how the status of a trial can change in one iteration *)
Lemma iter_status st rest h st1 t : proc_event (set_heap st rest) h = Ok st1 ->
  status_of st1 t = status_of st t \/
  (t = h_trial h /\ ((exists s, h_ev h = EvComplete s /\ status_of st1 t = Some s) \/
                     (is_result (h_ev h) /\ status_of st1 t = Some InProgress))).
Proof.
  intros Hp. unfold status_of. destruct (h_ev h) as [|s| |k i r] eqn:Hev.
  - destruct (iter_start st rest h st1 Hev Hp) as (tr & seed & rs & tc & _ & _ & _ & -> & _). left. reflexivity.
  - destruct (iter_complete st rest h st1 s Hev Hp) as (tr & Htr & _ & _ & _ & _ & ->).
    rewrite nth_error_set_nth. destruct (Nat.eqb t (h_trial h)) eqn:E; [|left; reflexivity].
    apply Nat.eqb_eq in E. subst t. rewrite Htr. right. split; [reflexivity|]. left. exists s. split; reflexivity.
  - destruct (iter_stop st rest h st1 Hev Hp) as (_ & _ & _ & _ & ->). left. reflexivity.
  - destruct (iter_result st rest h st1 k i r Hev Hp) as (tr & Htr & _ & _ & _ & _ & [-> | ->]); [left; reflexivity|].
    rewrite nth_error_set_nth. destruct (Nat.eqb t (h_trial h)) eqn:E; [|left; reflexivity].
    apply Nat.eqb_eq in E. subst t. rewrite Htr. right. split; [reflexivity|]. right.
    split; [exists k, i, r; reflexivity|reflexivity].
Qed.

Lemma iter_LP T st h rest st1 :
  LP T st -> heap st = h :: rest -> proc_event (set_heap st rest) h = Ok st1 -> LP T st1.
Proof.
  intros (HS & HP & HF1 & HF2) Hh Hp.
  assert (Hsub : forall x, In x rest -> In x (heap st)) by (intros x Hx; rewrite Hh; right; exact Hx).
  assert (Hhin : In h (heap st)) by (rewrite Hh; left; reflexivity).
  pose proof (iter_heap st rest h st1 Hp) as Hheap.
  pose proof (iter_length st rest h st1 Hp) as Hlen.
  pose proof (iter_nextres st rest h st1 Hp) as Hnext.
  split; [|split; [|split]].
  - intros x Hx Hst. apply Hheap in Hx as [Hx|(_ & _ & Hns & _)]; [apply HS; auto|contradiction].
  - intros t HnT Hstat.
    assert (Hold : status_of st t = Some Paused /\ h_trial h <> t).
    { destruct (iter_status st rest h st1 t Hp) as [E|(-> & [(s & Hev & E)|(Hres & E)])].
      - rewrite E in Hstat. split; [exact Hstat|]. intro E'. destruct (HP t HnT Hstat) as [Hc _]. exact (Hc h Hhin E').
      - exfalso. rewrite E in Hstat. injection Hstat as ->. apply HnT. apply HS; [exact Hhin|].
        right. exists Paused. split; [exact Hev|discriminate].
      - rewrite E in Hstat. discriminate. }
    destruct Hold as [Hst0 Hne]. destruct (HP t HnT Hst0) as [Hc1 Hc2]. split.
    + intros x Hx. apply Hheap in Hx as [Hx|(_ & E & _)]; [apply Hc1; auto|congruence].
    + intros l Hl. apply Hnext in Hl as [Hl|(_ & E)]; [eapply Hc2; eauto|congruence].
  - intros x Hx. rewrite Hlen. apply Hheap in Hx as [Hx|(_ & E & _)]; [apply HF1; auto|]. rewrite E. apply HF1. exact Hhin.
  - intros t l Hl. rewrite Hlen. apply Hnext in Hl as [Hl|(_ & ->)]; [eapply HF2; eauto|]. apply HF1. exact Hhin.
Qed.

Lemma process_LP T fuel st st' : LP T st -> process fuel st = Ok st' -> LP T st'.
Proof. apply (process_ind (LP T)). intros s h rest s1 HI Hh _ Hp. eapply iter_LP; eauto. Qed.

(* the loop ends when no queued event is due *)
Lemma process_exit fuel : forall st st', HInv st -> process fuel st = Ok st' ->
  forall x, In x (heap st') -> clock st' < h_time x.
Proof.
  induction fuel as [|f IH]; intros st st' HI H; simpl in H; [discriminate|].
  destruct (heap st) as [|h rest] eqn:Hh.
  - injection H as <-. rewrite Hh. intros x [].
  - destruct (Qleb (h_time h) (clock st)) eqn:Hq.
    + destruct (proc_event (set_heap st rest) h) as [st1|e] eqn:E; [|discriminate].
      eapply IH; [|exact H]. eapply proc_event_hinv; eauto.
    + injection H as <-. rewrite Hh. intros x Hx.
      assert (Hlt : clock st < h_time h).
      { apply Qnot_le_lt. intro Hle. apply Qleb_le in Hle. congruence. }
      destruct Hx as [<-|Hx]; [exact Hlt|].
      destruct HI as [Hs _]. rewrite Hh in Hs. pose proof (sorted_head_min h rest Hs x Hx) as [Hk|[Hk _]]; lra.
Qed.

Lemma process_clock' fuel st st' : process fuel st = Ok st' -> clock st' = clock st.
Proof. apply process_clock. Qed.

(* trials without queued events stay without *)
Lemma process_noev t fuel st st' :
  (forall x, In x (heap st) -> h_trial x <> t) -> process fuel st = Ok st' ->
  forall x, In x (heap st') -> h_trial x <> t.
Proof.
  apply (process_ind (fun s => forall x, In x (heap s) -> h_trial x <> t)).
  intros s h rest s1 HI Hh _ Hp x Hx. apply (iter_heap s rest h s1 Hp) in Hx as [Hx|(_ & E & _)].
  - apply HI. rewrite Hh. right. exact Hx.
  - rewrite E. apply HI. rewrite Hh. left. reflexivity.
Qed.

(* a due stop event of trial t empties the queue of everything of t *)
Lemma stop_clears t fuel : forall st st', HInv st -> process fuel st = Ok st' ->
  (exists hs, In hs (heap st) /\ h_ev hs = EvStop /\ h_trial hs = t /\ h_time hs <= clock st) ->
  forall x, In x (heap st') -> h_trial x <> t.
Proof.
  induction fuel as [|f IH]; intros st st' HI H (hs & Hin & Hev & Htr & Htime); simpl in H; [discriminate|].
  destruct (heap st) as [|h rest] eqn:Hh; [contradiction|].
  assert (Hdue : Qleb (h_time h) (clock st) = true).
  { apply Qleb_le. destruct Hin as [->|Hin]; [exact Htime|].
    destruct HI as [Hs _]. rewrite Hh in Hs. pose proof (sorted_head_min h rest Hs hs Hin) as [Hk|[Hk _]]; lra. }
  rewrite Hdue in H. destruct (proc_event (set_heap st rest) h) as [st1|e] eqn:E; [|discriminate].
  assert (HI1 : HInv st1) by (eapply proc_event_hinv; eauto).
  destruct (h_ev h) as [|s| |k i r] eqn:Hevh.
  - destruct (iter_start st rest h st1 Hevh E) as (tr & seed & rs & tc & _ & _ & _ & _ & _ & Hc & _ & Hheap).
    eapply IH; [exact HI1|exact H|]. exists hs. destruct Hin as [->|Hin]; [congruence|].
    rewrite Hc. repeat split; auto. apply Hheap. left. exact Hin.
  - destruct (iter_complete st rest h st1 s Hevh E) as (tr & _ & Hheap & _ & _ & Hc & _).
    eapply IH; [exact HI1|exact H|]. exists hs. destruct Hin as [->|Hin]; [congruence|].
    rewrite Hc, Hheap. repeat split; auto.
  - destruct (iter_stop st rest h st1 Hevh E) as (Hheap & _ & _ & Hc & _).
    destruct (Nat.eq_dec (h_trial h) t) as [Et|Et].
    + eapply process_noev; [|exact H]. intros x Hx. rewrite Hheap in Hx. apply filter_In in Hx as [_ Hx].
      apply negb_true_iff, Nat.eqb_neq in Hx. congruence.
    + eapply IH; [exact HI1|exact H|]. exists hs. destruct Hin as [->|Hin]; [congruence|].
      rewrite Hc, Hheap. repeat split; auto. apply filter_In. split; [exact Hin|].
      apply negb_true_iff, Nat.eqb_neq. congruence.
  - destruct (iter_result st rest h st1 k i r Hevh E) as (tr & _ & Hheap & _ & Hc & _).
    eapply IH; [exact HI1|exact H|]. exists hs. destruct Hin as [->|Hin]; [congruence|].
    rewrite Hc, Hheap. repeat split; auto.
Qed.

(* if the only queued event of trial t is c (not a start event), nothing else of t appears *)
Lemma process_only t c fuel st st' : h_ev c <> EvStart ->
  (forall x, In x (heap st) -> h_trial x = t -> x = c) -> process fuel st = Ok st' ->
  forall x, In x (heap st') -> h_trial x = t -> x = c.
Proof.
  intro Hc. apply (process_ind (fun s => forall x, In x (heap s) -> h_trial x = t -> x = c)).
  intros s h rest s1 HI Hh _ Hp x Hx Et. apply (iter_heap s rest h s1 Hp) in Hx as [Hx|(Hs & E & _)].
  - apply HI; [rewrite Hh; right; exact Hx|exact Et].
  - exfalso. apply Hc. rewrite <- (HI h); [exact Hs|rewrite Hh; left; reflexivity|congruence].
Qed.

(* ======================================================================== *)
(*  D. every call keeps the invariants                                        *)
(* ======================================================================== *)
Section Calls.
Hypothesis nudge_nonneg : 0 <= nudge S_.

Definition NoT : nat -> Prop := fun _ => False.
Definition B (st : state) : Prop := W st /\ LP NoT st.

Lemma W_fields st st' :
  heap st' = heap st -> runs st' = runs st -> added st' = added st ->
  (forall t l, In (t, l) (nextres st') -> In (t, l) (nextres st)) -> W st -> W st'.
Proof.
  intros Eh Er Ea Hn ((Hs & Hc) & HC & HL1 & HL2). unfold W, HInv, Cinv, Linv. rewrite Eh, Er, Ea.
  split; [split; assumption|]. split.
  - intros hs Hhs Hes. destruct (HC hs Hhs Hes) as [C1 C2]. split; [exact C1|].
    intros l Hl. apply Hn in Hl. eapply C2; eauto.
  - split; [exact HL1|]. intros t l k i r ts Hl. apply Hn in Hl. eapply HL2; eauto.
Qed.

Lemma LP_fields T st st' :
  heap st' = heap st -> (forall t, status_of st' t = status_of st t) ->
  length (trials st') = length (trials st) ->
  (forall t l, In (t, l) (nextres st') -> In (t, l) (nextres st)) -> LP T st -> LP T st'.
Proof.
  intros Eh Es El Hn (HS & HP & HF1 & HF2). unfold LP, clean. rewrite Eh, El.
  split; [exact HS|]. split; [|split; [exact HF1|]].
  - intros t HnT Hst. rewrite Es in Hst. destruct (HP t HnT Hst) as [C1 C2]. split; [exact C1|].
    intros l Hl. apply Hn in Hl. eapply C2; eauto.
  - intros t l Hl. apply Hn in Hl. eapply HF2; eauto.
Qed.

Lemma LP_weaken T st : LP NoT st -> LP T st.
Proof.
  intros (HS & HP & HF1 & HF2). split; [|split; [|split]].
  - intros x Hx Hst. destruct (HS x Hx Hst).
  - intros t _ Hst. apply HP; [intros []|exact Hst].
  - intros x Hx. destruct (HF1 x Hx) as [H|[]]. left. exact H.
  - intros t l Hl. destruct (HF2 t l Hl) as [H|[]]. left. exact H.
Qed.

Lemma W_push_stopish st t ev time : W st -> stopish ev -> W (push st t ev time).
Proof.
  intros (HH & HC & HL1 & HL2) Hst. split; [apply HInv_push; exact HH|]. split.
  - intros hs Hhs Hes. simpl in Hhs. apply In_insert in Hhs as [->|Hhs].
    + simpl in Hes. subst ev. exfalso. exact (not_stopish_start Hst).
    + destruct (HC hs Hhs Hes) as [C1 C2]. split; [|exact C2].
      intros x Hx Etr. simpl in Hx. apply In_insert in Hx as [->|Hx]; [right; exact Hst|apply C1; assumption].
  - split; [|exact HL2]. intros x k i r Hx Hex. simpl in Hx. apply In_insert in Hx as [->|Hx]; [|eapply HL1; eauto].
    simpl in Hex. subst ev. exfalso. exact (not_stopish_result _ _ _ Hst).
Qed.

Lemma W_push_start st t time : W st -> clean t st -> W (push st t EvStart time).
Proof.
  intros (HH & HC & HL1 & HL2) [Hc1 Hc2]. split; [apply HInv_push; exact HH|]. split.
  - intros hs Hhs Hes. simpl in Hhs. apply In_insert in Hhs as [->|Hhs].
    + simpl. split; [|exact Hc2]. intros x Hx Etr. simpl in Hx. apply In_insert in Hx as [->|Hx]; [left; reflexivity|].
      exfalso. exact (Hc1 x Hx Etr).
    + destruct (HC hs Hhs Hes) as [C1 C2]. split; [|exact C2].
      intros x Hx Etr. simpl in Hx. apply In_insert in Hx as [->|Hx]; [|apply C1; assumption].
      simpl in Etr. exfalso. exact (Hc1 hs Hhs (eq_sym Etr)).
  - split; [|exact HL2]. intros x k i r Hx Hex. simpl in Hx. apply In_insert in Hx as [->|Hx]; [|eapply HL1; eauto].
    simpl in Hex. discriminate.
Qed.

Lemma LP_push_T (T : nat -> Prop) st t ev time : LP T st -> T t -> LP T (push st t ev time).
Proof.
  intros (HS & HP & HF1 & HF2) HT. split; [|split; [|split]]; simpl.
  - intros x Hx Hst. apply In_insert in Hx as [->|Hx]; [exact HT|apply HS; assumption].
  - intros t' HnT Hst. destruct (HP t' HnT Hst) as [C1 C2]. split; [|exact C2].
    intros x Hx. simpl in Hx. apply In_insert in Hx as [->|Hx]; [simpl; intro E; subst; contradiction|apply C1; exact Hx].
  - intros x Hx. apply In_insert in Hx as [->|Hx]; [right; exact HT|apply HF1; exact Hx].
  - exact HF2.
Qed.

Lemma process_clean t fuel st st' : clean t st -> process fuel st = Ok st' -> clean t st'.
Proof.
  apply (process_ind (clean t)). intros s h rest s1 [C1 C2] Hh _ Hp.
  assert (Hne : h_trial h <> t) by (apply C1; rewrite Hh; left; reflexivity). split.
  - intros x Hx. apply (iter_heap s rest h s1 Hp) in Hx as [Hx|(_ & E & _)]; [|congruence].
    apply C1. rewrite Hh. right. exact Hx.
  - intros l Hl. apply (iter_nextres s rest h s1 Hp) in Hl as [Hl|(_ & E)]; [eapply C2; eauto|congruence].
Qed.

Lemma process_length fuel st st' : process fuel st = Ok st' -> length (trials st') = length (trials st).
Proof.
  intro H. apply (process_ind (fun s => length (trials s) = length (trials st)) ) with (fuel := fuel) (st := st) (st' := st');
    [|reflexivity|exact H].
  intros s h rest s1 HI Hh _ Hp. rewrite (iter_length s rest h s1 Hp). exact HI.
Qed.

Lemma process_B T fuel st st' : W st -> LP T st -> process fuel st = Ok st' -> W st' /\ LP T st'.
Proof. intros HW HL H. split; [eapply process_W; eauto | eapply process_LP; eauto]. Qed.

Lemma status_of_set_status st t s t' : status_of (set_status st t s) t' =
  if Nat.eqb t' t then (match nth_error (trials st) t' with Some _ => Some s | None => None end) else status_of st t'.
Proof.
  unfold set_status, status_of. destruct (nth_error (trials st) t) as [tr|] eqn:E; simpl.
  - rewrite nth_error_set_nth. destruct (Nat.eqb t' t) eqn:E'; [|reflexivity].
    destruct (nth_error (trials st) t'); reflexivity.
  - destruct (Nat.eqb t' t) eqn:E'; [|reflexivity]. apply Nat.eqb_eq in E'. subst. rewrite E. reflexivity.
Qed.
Lemma status_of_set_config st t c t' : status_of (set_config st t c) t' = status_of st t'.
Proof.
  unfold set_config, status_of. destruct (nth_error (trials st) t) as [tr|] eqn:E; simpl; [|reflexivity].
  rewrite nth_error_set_nth. destruct (Nat.eqb t' t) eqn:E'; [|reflexivity].
  apply Nat.eqb_eq in E'. subst. rewrite E. reflexivity.
Qed.
Lemma length_set_status st t s : length (trials (set_status st t s)) = length (trials st).
Proof. unfold set_status. destruct (nth_error (trials st) t); simpl; [apply set_nth_length|reflexivity]. Qed.
Lemma length_set_config st t c : length (trials (set_config st t c)) = length (trials st).
Proof. unfold set_config. destruct (nth_error (trials st) t); simpl; [apply set_nth_length|reflexivity]. Qed.
Lemma fields_set_status st t s : heap (set_status st t s) = heap st /\ runs (set_status st t s) = runs st /\
  added (set_status st t s) = added st /\ nextres (set_status st t s) = nextres st /\ clock (set_status st t s) = clock st.
Proof. unfold set_status. destruct (nth_error (trials st) t); repeat split. Qed.
Lemma fields_set_config st t c : heap (set_config st t c) = heap st /\ runs (set_config st t c) = runs st /\
  added (set_config st t c) = added st /\ nextres (set_config st t c) = nextres st /\ clock (set_config st t c) = clock st.
Proof. unfold set_config. destruct (nth_error (trials st) t); repeat split. Qed.

(* the blocking stop / pause of trial t: afterwards nothing of t is queued or pending *)
Lemma stop_or_pause_B st t s dt st' : s <> Completed ->
  W st -> LP (eq t) st -> (forall x, In x (heap st) -> ~ stopish (h_ev x)) ->
  stop_or_pause S_ tbl draw st t s dt = Ok st' ->
  W st' /\ LP NoT st' /\ clean t st'.
Proof.
  intros Hs HW HL HQ. unfold Sim.stop_or_pause, bind.
  destruct (advance st dt) as [st1|] eqn:E1; [|discriminate].
  apply advance_ok in E1 as (_ & _ & ->).
  set (st1 := set_clock st (qadd (clock st) dt)).
  set (ts := qadd (clock st1) (d_stop S_)).
  match goal with |- match Sim.process_now _ _ _ ?x with _ => _ end = _ -> _ => set (st2 := x) end.
  assert (Hc2 : ts <= clock st2).
  { unfold st2, advance_to. cbn [clock set_clock]. eapply Qle_trans; [|apply qmax_ge_l]. rewrite qadd_eq. lra. }
  assert (HW2 : W st2).
  { apply (W_fields (push st1 t EvStop ts)); try reflexivity; [auto|].
    apply W_push_stopish; [|left; reflexivity]. apply (W_fields st); try reflexivity; auto. }
  assert (HL2 : LP (eq t) st2).
  { apply (LP_fields _ (push st1 t EvStop ts)); try reflexivity; [auto|].
    apply LP_push_T; [|reflexivity]. apply (LP_fields _ st); try reflexivity; auto. }
  destruct (Sim.process_now S_ tbl draw st2) as [st3|] eqn:E3; [|discriminate].
  destruct (process_B _ _ _ _ HW2 HL2 E3) as [HW3 HL3].
  assert (Hno3 : forall x, In x (heap st3) -> h_trial x <> t).
  { eapply (stop_clears t); [exact (proj1 HW2)|exact E3|].
    exists (mkH ts (added st1) t EvStop). split; [|repeat split; exact Hc2].
    unfold st2, advance_to. cbn [heap set_clock push]. apply In_insert. left. reflexivity. }
  set (tc := qadd (clock st3) (d_stopc S_)).
  match goal with |- match Sim.process_now _ _ _ ?x with _ => _ end = _ -> _ => set (st4 := x) end.
  assert (Hc4 : tc <= clock st4).
  { unfold st4, advance_to. cbn [clock set_clock]. eapply Qle_trans; [|apply qmax_ge_l]. rewrite qadd_eq. lra. }
  assert (HW4 : W st4).
  { apply (W_fields (push st3 t (EvComplete s) tc)); try reflexivity; [auto|].
    apply W_push_stopish; [exact HW3|]. right. exists s. split; [reflexivity|exact Hs]. }
  assert (HL4 : LP (eq t) st4).
  { apply (LP_fields _ (push st3 t (EvComplete s) tc)); try reflexivity; [auto|].
    apply LP_push_T; [exact HL3|reflexivity]. }
  destruct (Sim.process_now S_ tbl draw st4) as [st5|] eqn:E5; [|discriminate].
  destruct (process_B _ _ _ _ HW4 HL4 E5) as [HW5 HL5].
  assert (Hno5 : forall x, In x (heap st5) -> h_trial x <> t).
  { intros x Hx Et.
    assert (Hxc : x = mkH tc (added st3) t (EvComplete s)).
    { eapply (process_only t); [|intros y Hy Ey|exact E5|exact Hx|exact Et]; [simpl; discriminate|].
      unfold st4, advance_to in Hy. cbn [heap set_clock push] in Hy. apply In_insert in Hy as [->|Hy]; [reflexivity|].
      exfalso. exact (Hno3 y Hy Ey). }
    pose proof (process_exit _ _ _ (proj1 HW4) E5 x Hx) as Hlt.
    rewrite (process_clock _ _ _ _ _ _ E5) in Hlt. subst x. cbn [h_time] in Hlt. lra. }
  intro H. injection H as <-.
  assert (Hsubn : forall t' l, In (t', l) (remove_key t (nextres st5)) -> In (t', l) (nextres st5)).
  { intros t' l. apply In_remove_key. }
  split; [apply (W_fields st5); try reflexivity; [exact Hsubn|exact HW5]|].
  destruct HL5 as (HS & HP & HF1 & HF2).
  assert (Hclean : clean t (set_nextres st5 (remove_key t (nextres st5)))).
  { split; [exact Hno5|]. intros l Hl. simpl in Hl. apply In_remove_key_neq in Hl. congruence. }
  split; [|exact Hclean]. split; [|split; [|split]]; simpl.
  - intros x Hx Hst. exfalso. exact (Hno5 x Hx (eq_sym (HS x Hx Hst))).
  - intros t' _ Hst. destruct (Nat.eq_dec t t') as [<-|Hne]; [exact Hclean|].
    destruct (HP t' Hne Hst) as [C1 C2]. split; [exact C1|]. intros l Hl. simpl in Hl. apply Hsubn in Hl. eapply C2; eauto.
  - intros x Hx. destruct (HF1 x Hx) as [H|H]; [left; exact H|]. exfalso. exact (Hno5 x Hx (eq_sym H)).
  - intros t' l Hl. pose proof (In_remove_key_neq _ _ _ _ Hl) as Hne. apply Hsubn in Hl.
    destruct (HF2 t' l Hl) as [H|H]; [left; exact H|congruence].
Qed.

Lemma B_Q st : B st -> forall x, In x (heap st) -> ~ stopish (h_ev x).
Proof. intros [_ (HS & _)] x Hx Hst. exact (HS x Hx Hst). Qed.

Lemma step_B st o st' out : B st -> step st o = Ok (st', out) ->
  B st' /\
  match out with
  | OutFetch rs _ => forall t k i r ts, In (t, (k, i, r, ts)) rs -> latest (runs st') t k
  | _ => True
  end.
Proof.
  intros [HW HL]. destruct o as [c dt|t newc dt|t lvl dt|t dt|ids dt| | |to]; cbn [Sim.step]; unfold bind.
  - (* start *)
    unfold Sim.schedule, bind. destruct (advance st dt) as [st1|] eqn:E1; [|discriminate].
    apply advance_ok in E1 as (_ & _ & ->).
    destruct (Sim.process_now S_ tbl draw (set_clock st (qadd (clock st) dt))) as [st2|] eqn:E2; [|discriminate].
    assert (HW1 : W (set_clock st (qadd (clock st) dt))) by (apply (W_fields st); try reflexivity; auto).
    assert (HL1 : LP NoT (set_clock st (qadd (clock st) dt))) by (apply (LP_fields _ st); try reflexivity; auto).
    destruct (process_B _ _ _ _ HW1 HL1 E2) as [HW2 HL2].
    pose proof (process_length _ _ _ E2) as Hlen. simpl in Hlen.
    intro H. injection H as <- <-. split; [|exact I].
    destruct HL2 as (HS & HP & HF1 & HF2).
    assert (Hcl : clean (length (trials st)) st2).
    { split.
      - intros x Hx E. destruct (HF1 x Hx) as [H|[]]. lia.
      - intros l Hl. destruct (HF2 _ l Hl) as [H|[]]. lia. }
    split.
    + apply (W_fields (push st2 (length (trials st)) EvStart (qadd (clock st2) (d_start S_)))); try reflexivity; [auto|].
      apply W_push_start; assumption.
    + split; [|split; [|split]]; simpl.
      * intros x Hx Hst. apply In_insert in Hx as [->|Hx]; [exact (not_stopish_start Hst)|exact (HS x Hx Hst)].
      * intros t' _ Hst. unfold status_of in Hst. simpl in Hst.
        assert (Hlt : (t' < length (trials st2))%nat).
        { destruct (Nat.lt_ge_cases t' (length (trials st2))) as [H|H]; [exact H|].
          rewrite nth_error_app2 in Hst by exact H. destruct (t' - length (trials st2))%nat as [|n]; simpl in Hst; [discriminate|].
          destruct n; discriminate. }
        rewrite nth_error_app1 in Hst by exact Hlt.
        destruct (HP t' (fun f => f) Hst) as [C1 C2]. split; [|exact C2].
        intros x Hx. simpl in Hx. apply In_insert in Hx as [->|Hx]; [simpl; lia|apply C1; exact Hx].
      * intros x Hx. left. rewrite app_length. simpl. apply In_insert in Hx as [->|Hx]; [simpl; lia|].
        destruct (HF1 x Hx) as [H|[]]. lia.
      * intros t' l Hl. left. rewrite app_length. simpl. destruct (HF2 t' l Hl) as [H|[]]. lia.
  - (* resume *)
    destruct (nth_error (trials st) t) as [tr|] eqn:Etr; [|discriminate].
    destruct (t_status tr) as [[]|] eqn:Est; try discriminate.
    assert (Hpaused : status_of st t = Some Paused) by (unfold status_of; rewrite Etr; exact Est).
    set (st0 := match newc with Some c => set_config st t c | None => st end).
    assert (H0 : W st0 /\ LP NoT st0 /\ status_of st0 t = Some Paused /\ length (trials st0) = length (trials st)).
    { unfold st0. destruct newc as [c|]; [|auto].
      destruct (fields_set_config st t c) as (F1 & F2 & F3 & F4 & _). split; [|split; [|split]].
      - apply (W_fields st); auto. rewrite F4. auto.
      - apply (LP_fields _ st); auto; [apply status_of_set_config|apply length_set_config|rewrite F4; auto].
      - rewrite status_of_set_config. exact Hpaused.
      - apply length_set_config. }
    destruct H0 as (HW0 & HL0 & Hp0 & Hlen0).
    unfold Sim.schedule, bind. destruct (advance st0 dt) as [st1|] eqn:E1; [|discriminate].
    apply advance_ok in E1 as (_ & _ & ->).
    destruct (Sim.process_now S_ tbl draw (set_clock st0 (qadd (clock st0) dt))) as [st2|] eqn:E2; [|discriminate].
    assert (HW1 : W (set_clock st0 (qadd (clock st0) dt))) by (apply (W_fields st0); try reflexivity; auto).
    assert (HL1 : LP NoT (set_clock st0 (qadd (clock st0) dt))) by (apply (LP_fields _ st0); try reflexivity; auto).
    assert (Hcl1 : clean t (set_clock st0 (qadd (clock st0) dt))).
    { destruct HL0 as (_ & HP & _). exact (HP t (fun f => f) Hp0). }
    destruct (process_B _ _ _ _ HW1 HL1 E2) as [HW2 HL2].
    pose proof (process_clean _ _ _ _ Hcl1 E2) as Hcl2.
    pose proof (process_length _ _ _ E2) as Hlen. simpl in Hlen.
    intro H. injection H as <- <-. split; [|exact I].
    set (st3 := push st2 t EvStart (qadd (clock st2) (d_start S_))).
    destruct (fields_set_status st3 t InProgress) as (F1 & F2 & F3 & F4 & _).
    split.
    + apply (W_fields st3); auto; [rewrite F4; auto|]. apply W_push_start; assumption.
    + destruct HL2 as (HS & HP & HF1 & HF2).
      assert (Htlt : (t < length (trials st2))%nat).
      { rewrite Hlen, Hlen0. apply nth_error_Some. congruence. }
      unfold LP, clean. rewrite F1, F4, length_set_status. simpl.
      split; [|split; [|split]].
      * intros x Hx Hst. apply In_insert in Hx as [->|Hx]; [exact (not_stopish_start Hst)|exact (HS x Hx Hst)].
      * intros t' _ Hst. rewrite status_of_set_status in Hst. destruct (Nat.eqb t' t) eqn:E.
        -- simpl in Hst. destruct (nth_error (trials st2) t'); discriminate.
        -- apply Nat.eqb_neq in E. destruct (HP t' (fun f => f) Hst) as [C1 C2]. split; [|exact C2].
           intros x Hx. apply In_insert in Hx as [->|Hx]; [simpl; congruence|apply C1; exact Hx].
      * intros x Hx. left. apply In_insert in Hx as [->|Hx]; [exact Htlt|]. destruct (HF1 x Hx) as [H|[]]. exact H.
      * intros t' l Hl. left. destruct (HF2 t' l Hl) as [H|[]]. exact H.
  - (* pause *)
    destruct (negb (Nat.ltb t (length (trials st)))) eqn:Elt; [discriminate|].
    destruct (fields_set_status st t Paused) as (F1 & F2 & F3 & F4 & _).
    assert (HWa : W (set_status st t Paused)) by (apply (W_fields st); auto; rewrite F4; auto).
    assert (HLa : LP (eq t) (set_status st t Paused)).
    { destruct HL as (HS & HP & HF1 & HF2). unfold LP, clean. rewrite F1, F4, length_set_status.
      split; [|split; [|split]].
      - intros x Hx Hst. destruct (HS x Hx Hst).
      - intros t' Hne Hst. rewrite status_of_set_status in Hst. destruct (Nat.eqb t' t) eqn:E.
        + apply Nat.eqb_eq in E. congruence.
        + exact (HP t' (fun f => f) Hst).
      - intros x Hx. destruct (HF1 x Hx) as [H|[]]. left. exact H.
      - intros t' l Hl. destruct (HF2 t' l Hl) as [H|[]]. left. exact H. }
    destruct (Sim.stop_or_pause S_ tbl draw (set_status st t Paused) t Paused dt) as [st1|] eqn:E; [|discriminate].
    apply stop_or_pause_B in E; [|discriminate|exact HWa|exact HLa|rewrite F1; exact (B_Q st (conj HW HL))].
    destruct E as (HW1 & HL1 & _). intro H. injection H as <- <-. split; [|exact I].
    destruct lvl as [l|]; [|split; assumption]. split.
    + apply (W_fields st1); try reflexivity; auto.
    + apply (LP_fields _ st1); try reflexivity; auto.
  - (* stop *)
    destruct (Sim.stop_or_pause S_ tbl draw st t Stopped dt) as [st1|] eqn:E; [|discriminate].
    apply stop_or_pause_B in E; [|discriminate|exact HW|apply LP_weaken; exact HL|exact (B_Q st (conj HW HL))].
    destruct E as (HW1 & HL1 & _). intro H. injection H as <- <-. split; [split; assumption|exact I].
  - (* fetch *)
    destruct (advance st dt) as [st1|] eqn:E1; [|discriminate].
    apply advance_ok in E1 as (_ & _ & ->).
    destruct (Sim.process_now S_ tbl draw (set_clock st (qadd (clock st) dt))) as [st2|] eqn:E2; [|discriminate].
    assert (HW1 : W (set_clock st (qadd (clock st) dt))) by (apply (W_fields st); try reflexivity; auto).
    assert (HL1 : LP NoT (set_clock st (qadd (clock st) dt))) by (apply (LP_fields _ st); try reflexivity; auto).
    destruct (process_B _ _ _ _ HW1 HL1 E2) as [HW2 HL2].
    pose proof (collect_in ids (nextres st2) []) as Hc.
    destruct (collect ids (nextres st2) []) as [rs nr]. simpl in Hc.
    destruct (statuses (trials (set_nextres st2 [])) ids); [|discriminate].
    intro H. injection H as <- <-. split.
    + split; [apply (W_fields st2); try reflexivity; [intros t l []|exact HW2]|].
      apply (LP_fields _ st2); try reflexivity; [intros t l []|exact HL2].
    + intros t k i r ts Hin. apply Hc in Hin as [[]|(l & Hl & Hp)]. simpl.
      destruct HW2 as (_ & _ & _ & HLp). eapply HLp; eauto.
  - (* busy *)
    destruct (Sim.process_now S_ tbl draw st) as [st1|] eqn:E; [|discriminate].
    intro H. injection H as <- <-. split; [|exact I]. destruct (process_B _ _ _ _ HW HL E). split; assumption.
  - (* sleep *)
    destruct (advance st (sleep_time S_)) as [st1|] eqn:E; [|discriminate].
    apply advance_ok in E as (_ & _ & ->). intro H. injection H as <- <-. split; [|exact I].
    split; [apply (W_fields st); try reflexivity; auto | apply (LP_fields _ st); try reflexivity; auto].  - intro H. injection H as <- <-. split; [|exact I].
    split; [apply (W_fields st); try reflexivity; auto | apply (LP_fields _ st); try reflexivity; auto].
Qed.

Lemma B_init : B init_state.
Proof.
  split.
  - split; [exact HInv_init|]. split; [intros hs []|]. split; [intros x k i r []|intros t l k i r ts []].
  - split; [intros x []|]. split; [|split; [intros x []|intros t l []]].
    intros t _ Hst. unfold status_of in Hst. simpl in Hst. destruct t; discriminate.
Qed.

Lemma reach_B st : reach init_state st -> B st.
Proof. intro Hr. induction Hr; [exact B_init|]. eapply step_B in IHHr; eauto. destruct IHHr; assumption. Qed.

Lemma fetch_latest ops pre st' rs sts post :
  run_ops init_state ops = pre ++ Ok (st', OutFetch rs sts) :: post ->
  forall t k i r ts, In (t, (k, i, r, ts)) rs -> latest (runs st') t k.
Proof.
  intros H. apply run_ops_reach in H as (st0 & o & Hr & Hs).
  destruct (step_B _ _ _ _ (reach_B _ Hr) Hs) as [_ Hd]. exact Hd.
Qed.

End Calls.

(* ======================================================================== *)
(*  E. every report is delivered at most once, in index (= level) order      *)
(* ======================================================================== *)
Section Order.
Hypothesis eps_nonneg : 0 <= eps S_.

Definition ptag (p : pend) : nat := let '(k, _, _, _) := p in k.
Definition pidx (p : pend) : nat := let '(_, i, _, _) := p in i.
(* reports of the same run: the earlier one has the smaller index *)
Definition Rp (p q : pend) : Prop := ptag p = ptag q -> (pidx p < pidx q)%nat.
Definition Rd (a b : delivered) : Prop := Rp (snd a) (snd b).

Definition O2 (st : state) : Prop := forall t l, In (t, l) (nextres st) -> StronglySorted Rp l.
Definition O3 (st : state) : Prop :=
  forall t l p x i', In (t, l) (nextres st) -> In p l -> In x (heap st) -> is_res x (ptag p) i' -> (pidx p < i')%nat.
Definition V (st : state) : Prop := IO S_ tbl st /\ HInv st /\ O2 st /\ O3 st.

Lemma Inv_ptag_lt st t l p : Inv S_ tbl st -> In (t, l) (nextres st) -> In p l ->
  (ptag p < length (runs st))%nat /\ exists run, nth_error (runs st) (ptag p) = Some run /\ run_trial run = t.
Proof.
  intros (_ & H2 & _) Hl Hp. destruct p as [[[k i] r] ts]. destruct (H2 t l k i r ts Hl Hp) as (run & Hk & Ht & _).
  simpl. split; [apply nth_error_Some; congruence|]. exists run. auto.
Qed.

Lemma iter_V st h rest st1 : V st -> heap st = h :: rest -> proc_event (set_heap st rest) h = Ok st1 -> V st1.
Proof.
  intros ([HI HO] & HH & H2 & H3) Hh Hp.
  assert (Hsub : forall x, In x rest -> In x (heap st)) by (intros x Hx; rewrite Hh; right; exact Hx).
  assert (Hhin : In h (heap st)) by (rewrite Hh; left; reflexivity).
  split; [split; [eapply proc_event_inv; eauto | eapply proc_event_ord; eauto]|].
  split; [eapply proc_event_hinv; eauto|].
  destruct (h_ev h) as [|s| |k i r] eqn:Hev.
  - destruct (iter_start st rest h st1 Hev Hp) as (tr & seed & rs & tc & _ & _ & _ & _ & Hn & _ & _ & Hheap).
    unfold O2, O3. rewrite Hn. split; [exact H2|].
    intros t l p x i' Hl Hpl Hx Hres. apply Hheap in Hx as [Hx|[(j & r & _ & ->)| ->]].
    + exact (H3 t l p x i' Hl Hpl (Hsub _ Hx) Hres).
    + exfalso. destruct Hres as [r' Hr']. simpl in Hr'. injection Hr' as E _ _.
      destruct (Inv_ptag_lt st t l p HI Hl Hpl) as [Hlt _]. lia.
    + destruct Hres as [r' Hr']. simpl in Hr'. discriminate.
  - destruct (iter_complete st rest h st1 s Hev Hp) as (tr & _ & Hheap & _ & Hn & _).
    unfold O2, O3. rewrite Hn, Hheap. split; [exact H2|].
    intros t l p x i' Hl Hpl Hx. apply (H3 t l p x i' Hl Hpl (Hsub _ Hx)).
  - destruct (iter_stop st rest h st1 Hev Hp) as (Hheap & _ & Hn & _).
    unfold O2, O3. rewrite Hn, Hheap. split; [exact H2|].
    intros t l p x i' Hl Hpl Hx. apply filter_In in Hx as [Hx _]. apply (H3 t l p x i' Hl Hpl (Hsub _ Hx)).
  - destruct (iter_result st rest h st1 k i r Hev Hp) as (tr & _ & Hheap & _ & _ & Hn & _).
    set (old := match lookup (h_trial h) (nextres st) with Some l => l | None => [] end) in Hn.
    assert (Hold : forall p, In p old -> In (h_trial h, old) (nextres st)).
    { intros p Hp'. unfold old in *. destruct (lookup (h_trial h) (nextres st)) as [l0|] eqn:El; [|contradiction].
      apply lookup_in. exact El. }
    unfold O2, O3. rewrite Hn, Hheap. split.
    + intros t l Hl. apply In_set_key in Hl as [[-> ->]|Hl]; [|eapply H2; eauto].
      apply SS_app. split; [|split].
      * destruct old as [|p0 old'] eqn:Eo; [constructor|]. rewrite <- Eo in *. apply (H2 (h_trial h)). apply (Hold p0).
        rewrite Eo. left. reflexivity.
      * constructor; constructor.
      * intros p q Hp' [<-|[]]. intro Etag. simpl in Etag. simpl.
        apply (H3 (h_trial h) old p h i (Hold p Hp') Hp' Hhin). rewrite Etag. exists r. exact Hev.
    + intros t l p x i' Hl Hpl Hx Hres. apply In_set_key in Hl as [[-> ->]|Hl]; [|exact (H3 t l p x i' Hl Hpl (Hsub _ Hx) Hres)].
      apply in_app_or in Hpl as [Hpl|[<-|[]]].
      * exact (H3 (h_trial h) old p x i' (Hold p Hpl) Hpl (Hsub _ Hx) Hres).
      * simpl in Hres |- *. eapply (pop_in_order S_ tbl st h rest (conj HI HO) HH Hh k i); eauto. exists r. exact Hev.
Qed.

Lemma process_V fuel st st' : V st -> process fuel st = Ok st' -> V st'.
Proof. apply (process_ind V). intros s h rest s1 HV Hh _ Hp. eapply iter_V; eauto. Qed.

(* everything of run k still queued or pending has an index above i *)
Definition Above (st : state) (k i : nat) : Prop :=
  (k < length (runs st))%nat /\
  (forall x i', In x (heap st) -> is_res x k i' -> (i < i')%nat) /\
  (forall t l p, In (t, l) (nextres st) -> In p l -> ptag p = k -> (i < pidx p)%nat).

Lemma iter_Above k i st h rest st1 :
  Above st k i -> heap st = h :: rest -> proc_event (set_heap st rest) h = Ok st1 -> Above st1 k i.
Proof.
  intros (Hk & A1 & A2) Hh Hp.
  assert (Hsub : forall x, In x rest -> In x (heap st)) by (intros x Hx; rewrite Hh; right; exact Hx).
  assert (Hhin : In h (heap st)) by (rewrite Hh; left; reflexivity).
  destruct (h_ev h) as [|s| |k0 i0 r0] eqn:Hev.
  - destruct (iter_start st rest h st1 Hev Hp) as (tr & seed & rs & tc & _ & _ & Hr & _ & Hn & _ & _ & Hheap).
    unfold Above. rewrite Hr, Hn, app_length. simpl. split; [lia|]. split; [|exact A2].
    intros x i' Hx Hres. apply Hheap in Hx as [Hx|[(j & r & _ & ->)| ->]].
    + exact (A1 x i' (Hsub _ Hx) Hres).
    + destruct Hres as [r' Hr']. simpl in Hr'. injection Hr' as E _ _. lia.
    + destruct Hres as [r' Hr']. simpl in Hr'. discriminate.
  - destruct (iter_complete st rest h st1 s Hev Hp) as (tr & _ & Hheap & Hr & Hn & _).
    unfold Above. rewrite Hr, Hn, Hheap. split; [exact Hk|]. split; [|exact A2]. intros x i' Hx. apply A1. auto.
  - destruct (iter_stop st rest h st1 Hev Hp) as (Hheap & Hr & Hn & _).
    unfold Above. rewrite Hr, Hn, Hheap. split; [exact Hk|]. split; [|exact A2].
    intros x i' Hx. apply filter_In in Hx as [Hx _]. apply A1. auto.
  - destruct (iter_result st rest h st1 k0 i0 r0 Hev Hp) as (tr & _ & Hheap & Hr & _ & Hn & _).
    unfold Above. rewrite Hr, Hn, Hheap. split; [exact Hk|]. split; [intros x i' Hx; apply A1; auto|].
    intros t l p Hl Hpl Etag. apply In_set_key in Hl as [[-> ->]|Hl]; [|eapply A2; eauto].
    apply in_app_or in Hpl as [Hpl|[<-|[]]].
    + destruct (lookup (h_trial h) (nextres st)) as [l0|] eqn:El; [|contradiction].
      apply lookup_in in El. eapply A2; eauto.
    + simpl in Etag |- *. subst k0. apply (A1 h i0 Hhin). exists r0. exact Hev.
Qed.

Lemma process_Above k i fuel st st' : Above st k i -> process fuel st = Ok st' -> Above st' k i.
Proof. apply (process_ind (fun s => Above s k i)). intros s h rest s1 HA Hh _ Hp. eapply iter_Above; eauto. Qed.

(* every call is a composition of: field updates that leave heap / runs / seeds alone and can
   only shrink the pending table; the event loop; pushing a non-report event *)
Definition fields_ok (st st' : state) : Prop :=
  heap st' = heap st /\ runs st' = runs st /\ added st' = added st /\ seeds st' = seeds st /\
  (forall t l, In (t, l) (nextres st') -> In (t, l) (nextres st)).
Inductive prim : state -> state -> Prop :=
| prim_fields st st' : fields_ok st st' -> prim st st'
| prim_process st st' : process_now st = Ok st' -> prim st st'
| prim_push st t ev time : (forall k i r, ev <> EvResult k i r) -> prim st (push st t ev time).
Inductive prims : state -> state -> Prop :=
| prims_refl st : prims st st
| prims_step st st' st'' : prim st st' -> prims st' st'' -> prims st st''.

Lemma prims_trans a b c : prims a b -> prims b c -> prims a c.
Proof. induction 1; [auto|]. intro. econstructor; eauto. Qed.
Lemma prims_one a b : prim a b -> prims a b.
Proof. intro. econstructor; [eassumption|constructor]. Qed.

Lemma fields_ok_refl_nextres st n : (forall t l, In (t, l) n -> In (t, l) (nextres st)) -> fields_ok st (set_nextres st n).
Proof. intro H. repeat split. exact H. Qed.

Lemma prim_V st st' : V st -> prim st st' -> V st'.
Proof.
  intros HV Hp. destruct Hp as [st st' (Eh & Er & Ea & Es & Hn)|st st' Hp|st t ev time Hev].
  - destruct HV as ([(I1 & I2 & I3) HO] & [Hs Hc] & H2 & H3).
    unfold V, IO, Inv, Inv', HInv, O2, O3. rewrite Eh, Er, Ea, Es.
    split; [split; [|exact HO]|].
    + split; [exact I1|]. split; [|exact I3]. intros t l k i r ts Hl. apply Hn in Hl. eapply I2; eauto.
    + split; [split; assumption|]. split.
      * intros t l Hl. apply Hn in Hl. eapply H2; eauto.
      * intros t l p x i' Hl. apply Hn in Hl. eapply H3; eauto.
  - eapply process_V; eauto.
  - destruct HV as (HIO & HH & H2 & H3). split; [apply IO_push; assumption|]. split; [apply HInv_push; exact HH|].
    split; [exact H2|]. intros t' l p x i' Hl Hpl Hx Hres. simpl in Hx. apply In_insert in Hx as [->|Hx]; [|eapply H3; eauto].
    destruct Hres as [r Hr]. simpl in Hr. exfalso. eapply Hev; eauto.
Qed.

Lemma prim_Above k i st st' : Above st k i -> prim st st' -> Above st' k i.
Proof.
  intros HA Hp. destruct Hp as [st st' (Eh & Er & Ea & Es & Hn)|st st' Hp|st t ev time Hev].
  - destruct HA as (Hk & A1 & A2). unfold Above. rewrite Eh, Er. split; [exact Hk|]. split; [exact A1|].
    intros t l p Hl. apply Hn in Hl. eapply A2; eauto.
  - eapply process_Above; eauto.
  - destruct HA as (Hk & A1 & A2). split; [exact Hk|]. split; [|exact A2].
    intros x i' Hx Hres. simpl in Hx. apply In_insert in Hx as [->|Hx]; [|eapply A1; eauto].
    destruct Hres as [r Hr]. simpl in Hr. exfalso. eapply Hev; eauto.
Qed.

Lemma prims_V st st' : V st -> prims st st' -> V st'.
Proof. intros HV Hp. induction Hp; [exact HV|]. apply IHHp. eapply prim_V; eauto. Qed.
Lemma prims_Above k i st st' : Above st k i -> prims st st' -> Above st' k i.
Proof. intros HA Hp. induction Hp; [exact HA|]. apply IHHp. eapply prim_Above; eauto. Qed.

Lemma fields_ok_set_status st t s : fields_ok st (set_status st t s).
Proof. unfold set_status. destruct (nth_error (trials st) t); repeat split; auto. Qed.
Lemma fields_ok_set_config st t c : fields_ok st (set_config st t c).
Proof. unfold set_config. destruct (nth_error (trials st) t); repeat split; auto. Qed.

Lemma advance_prims st dt st1 : advance st dt = Ok st1 -> prims st st1.
Proof. intro H. apply advance_ok in H as (_ & _ & ->). apply prims_one. apply prim_fields. repeat split; auto. Qed.

Lemma schedule_prims st t dt st' : Sim.schedule S_ tbl draw st t dt = Ok st' -> prims st st'.
Proof.
  unfold Sim.schedule, bind. destruct (advance st dt) as [st1|] eqn:E1; [|discriminate].
  destruct (Sim.process_now S_ tbl draw st1) as [st2|] eqn:E2; [|discriminate].
  intro H. injection H as <-. eapply prims_trans; [eapply advance_prims; eauto|].
  econstructor; [apply prim_process; exact E2|]. apply prims_one. apply prim_push. discriminate.
Qed.

Lemma stop_or_pause_prims st t s dt st' : Sim.stop_or_pause S_ tbl draw st t s dt = Ok st' -> prims st st'.
Proof.
  unfold Sim.stop_or_pause, bind. destruct (advance st dt) as [st1|] eqn:E1; [|discriminate].
  match goal with |- match Sim.process_now _ _ _ ?x with _ => _ end = _ -> _ => set (st2 := x) end.
  destruct (Sim.process_now S_ tbl draw st2) as [st3|] eqn:E3; [|discriminate].
  match goal with |- match Sim.process_now _ _ _ ?x with _ => _ end = _ -> _ => set (st4 := x) end.
  destruct (Sim.process_now S_ tbl draw st4) as [st5|] eqn:E5; [|discriminate].
  intro H. injection H as <-.
  eapply prims_trans; [eapply advance_prims; eauto|].
  apply (prims_step _ (push st1 t EvStop (qadd (clock st1) (d_stop S_)))); [apply prim_push; discriminate|].
  apply (prims_step _ st2); [apply prim_fields; unfold st2, advance_to; repeat split; auto|].
  apply (prims_step _ st3); [apply prim_process; exact E3|].
  apply (prims_step _ (push st3 t (EvComplete s) (qadd (clock st3) (d_stopc S_)))); [apply prim_push; discriminate|].
  apply (prims_step _ st4); [apply prim_fields; unfold st4, advance_to; repeat split; auto|].
  apply (prims_step _ st5); [apply prim_process; exact E5|].
  apply prims_one. apply prim_fields. apply fields_ok_refl_nextres. intros t' l. apply In_remove_key.
Qed.

(* a call seen as primitive moves; a fetch collects from the state reached by the event loop *)
Lemma step_prims st o st' out : step st o = Ok (st', out) ->
  prims st st' /\
  match o, out with
  | OpFetch ids _, OutFetch rs _ =>
      exists st2, prims st st2 /\ rs = fst (collect ids (nextres st2) []) /\ st' = set_nextres st2 []
  | _, OutFetch _ _ => False
  | _, _ => True
  end.
Proof.
  destruct o as [c dt|t newc dt|t lvl dt|t dt|ids dt| | |to]; cbn [Sim.step]; unfold bind.
  - destruct (Sim.schedule S_ tbl draw st (length (trials st)) dt) as [st1|] eqn:E; [|discriminate].
    intro H. injection H as <- <-. split; [|exact I]. eapply prims_trans; [eapply schedule_prims; eauto|].
    apply prims_one. apply prim_fields. repeat split; auto.
  - destruct (nth_error (trials st) t) as [tr|]; [|discriminate].
    destruct (t_status tr) as [[]|]; try discriminate.
    destruct (Sim.schedule S_ tbl draw _ t dt) as [st1|] eqn:E; [|discriminate].
    intro H. injection H as <- <-. split; [|exact I].
    eapply prims_trans; [|apply prims_one; apply prim_fields; apply fields_ok_set_status].
    eapply prims_trans; [|eapply schedule_prims; eauto].
    destruct newc; [apply prims_one; apply prim_fields; apply fields_ok_set_config|constructor].
  - destruct (negb (Nat.ltb t (length (trials st)))); [discriminate|].
    destruct (Sim.stop_or_pause S_ tbl draw _ t Paused dt) as [st1|] eqn:E; [|discriminate].
    intro H. injection H as <- <-. split; [|exact I].
    eapply prims_trans; [apply prims_one; apply prim_fields; apply (fields_ok_set_status st t Paused)|].
    eapply prims_trans; [eapply stop_or_pause_prims; eauto|].
    destruct lvl; [apply prims_one; apply prim_fields; repeat split; auto|constructor].
  - destruct (Sim.stop_or_pause S_ tbl draw st t Stopped dt) as [st1|] eqn:E; [|discriminate].
    intro H. injection H as <- <-. split; [|exact I]. eapply stop_or_pause_prims; eauto.
  - destruct (advance st dt) as [st1|] eqn:E1; [|discriminate].
    destruct (Sim.process_now S_ tbl draw st1) as [st2|] eqn:E2; [|discriminate].
    destruct (collect ids (nextres st2) []) as [rs nr] eqn:Ec.
    destruct (statuses (trials (set_nextres st2 [])) ids); [|discriminate].
    intro H. injection H as <- <-.
    assert (Hp2 : prims st st2).
    { eapply prims_trans; [eapply advance_prims; eauto|]. apply prims_one. apply prim_process. exact E2. }
    split.
    + eapply prims_trans; [exact Hp2|]. apply prims_one. apply prim_fields. apply fields_ok_refl_nextres. intros t l [].
    + exists st2. split; [exact Hp2|]. rewrite Ec. split; reflexivity.
  - destruct (Sim.process_now S_ tbl draw st) as [st1|] eqn:E; [|discriminate].
    intro H. injection H as <- <-. split; [|exact I]. apply prims_one. apply prim_process. exact E.
  - destruct (advance st (sleep_time S_)) as [st1|] eqn:E; [|discriminate].
    intro H. injection H as <- <-. split; [|exact I]. eapply advance_prims; eauto.  - intro H. injection H as <- <-. split; [|exact I]. apply prims_one. apply prim_fields. repeat split; auto.
Qed.

Lemma SS_map_pair t l : StronglySorted Rp l -> StronglySorted Rd (map (fun p => (t, p)) l).
Proof.
  induction 1 as [|p l Hs IH Hall]; simpl; constructor; [exact IH|].
  rewrite Forall_forall in *. intros d Hd. apply in_map_iff in Hd as (q & <- & Hq). exact (Hall q Hq).
Qed.

(* the concatenation in fetch_status_results keeps the order *)
Lemma collect_sorted ids : forall nr acc,
  (forall t l, In (t, l) nr -> StronglySorted Rp l) ->
  (forall t l p t' l' p', In (t, l) nr -> In p l -> In (t', l') nr -> In p' l' -> ptag p = ptag p' -> t = t') ->
  (forall d t' l' p', In d acc -> In (t', l') nr -> In p' l' -> ptag (snd d) <> ptag p') ->
  StronglySorted Rd acc -> StronglySorted Rd (fst (collect ids nr acc)).
Proof.
  induction ids as [|x ids IH]; intros nr acc H2 HT HX HS; simpl; [exact HS|].
  destruct (lookup x nr) as [l|] eqn:El; [|apply IH; assumption].
  pose proof (lookup_in _ _ _ El) as Hin.
  apply IH.
  - intros t l' Hl. apply In_remove_key in Hl. eapply H2; eauto.
  - intros t l1 p t' l2 p' A1 A2 A3 A4. apply In_remove_key in A1. apply In_remove_key in A3. eapply HT; eauto.
  - intros d t' l' p' Hd Hl Hp'. pose proof (In_remove_key_neq _ _ _ _ Hl) as Hne. apply In_remove_key in Hl.
    apply in_app_or in Hd as [Hd|Hd]; [eapply HX; eauto|].
    apply in_map_iff in Hd as (q & <- & Hq). simpl. intro E. apply Hne. symmetry. eapply (HT x l q t' l' p'); eauto.
  - apply SS_app. split; [exact HS|]. split; [apply SS_map_pair; eapply H2; eauto|].
    intros a b Ha Hb. apply in_map_iff in Hb as (q & <- & Hq). intro E. exfalso. eapply (HX a x l q); eauto.
Qed.

Definition deliveries (outs : list (res (state * output))) : list delivered :=
  flat_map (fun x => match x with Ok (_, OutFetch rs _) => rs | _ => [] end) outs.

Lemma deliveries_sorted : forall ops st, V st ->
  StronglySorted Rd (deliveries (run_ops st ops)) /\
  (forall k i, Above st k i -> forall d, In d (deliveries (run_ops st ops)) -> ptag (snd d) = k -> (i < pidx (snd d))%nat).
Proof.
  induction ops as [|o ops IH]; intros st HV; simpl.
  - split; [constructor|intros k i _ d []].
  - destruct (step st o) as [[st' out]|e] eqn:Es; [|simpl; split; [constructor|intros k i _ d []]].
    destruct (step_prims _ _ _ _ Es) as [Hp Hout].
    pose proof (prims_V _ _ HV Hp) as HV'.
    destruct (IH st' HV') as [IH1 IH2]. simpl.
    destruct out as [t'| |rs sts|b]; simpl;
      try (split; [exact IH1|]; intros k i HA d Hd; eapply IH2; [eapply prims_Above; eauto|exact Hd]).
    destruct o as [c dt|t newc dt|t lvl dt|t dt|ids dt| | |to]; try contradiction.
    destruct Hout as (st2 & Hp2 & -> & ->).
    pose proof (prims_V _ _ HV Hp2) as ([HI2 HO2] & HH2 & H22 & H32).
    pose proof (collect_in ids (nextres st2) []) as Hc.
    assert (Hrs : forall d, In d (fst (collect ids (nextres st2) [])) ->
                  exists l, In (fst d, l) (nextres st2) /\ In (snd d) l).
    { intros [t p] Hd. apply Hc in Hd as [[]|H]. exact H. }
    split.
    + apply SS_app. split; [|split; [exact IH1|]].
      * apply collect_sorted; [exact H22| |intros d t' l' p' []|constructor].
        intros t l p t' l' p' A1 A2 A3 A4 E.
        destruct (Inv_ptag_lt st2 t l p HI2 A1 A2) as (_ & run & Hr & <-).
        destruct (Inv_ptag_lt st2 t' l' p' HI2 A3 A4) as (_ & run' & Hr' & <-). congruence.
      * intros a b Ha Hb E. destruct (Hrs a Ha) as (l & Hl & Hpl).
        apply (IH2 (ptag (snd a)) (pidx (snd a))); [|exact Hb|symmetry; exact E].
        split; [simpl; exact (proj1 (Inv_ptag_lt st2 _ l _ HI2 Hl Hpl))|]. split.
        -- simpl. intros x i' Hx Hres. eapply H32; eauto.
        -- simpl. intros t l' p [].
    + intros k i HA d Hd Ek. apply in_app_or in Hd as [Hd|Hd].
      * destruct (Hrs d Hd) as (l & Hl & Hpl). destruct (prims_Above _ _ _ _ HA Hp2) as (_ & _ & A2). eapply A2; eauto.
      * eapply IH2; [eapply prims_Above; eauto|exact Hd|exact Ek].
Qed.

Lemma V_init : V init_state.
Proof.
  split; [exact (IO_init S_ tbl)|]. split; [exact HInv_init|]. split; [intros t l []|intros t l p x i' []].
Qed.

Lemma deliveries_once_in_order ops : StronglySorted Rd (deliveries (run_ops init_state ops)).
Proof. exact (proj1 (deliveries_sorted ops init_state V_init)). Qed.

End Order.

(* ======================================================================== *)
(*  F. a due report is delivered by the first fetch that polls the trial     *)
(* ======================================================================== *)
Lemma lookup_set_key {A} k (v : A) l t : lookup t (set_key k v l) = if Nat.eqb t k then Some v else lookup t l.
Proof.
  induction l as [|[k0 v0] l IH]; simpl.
  - destruct (Nat.eqb t k); reflexivity.
  - destruct (Nat.eqb k k0) eqn:E; simpl.
    + apply Nat.eqb_eq in E. subst k0. destruct (Nat.eqb t k); reflexivity.
    + rewrite IH. destruct (Nat.eqb t k0) eqn:E0; [|reflexivity].
      apply Nat.eqb_eq in E0. subst k0. apply Nat.eqb_neq in E.
      destruct (Nat.eqb t k) eqn:E1; [apply Nat.eqb_eq in E1; congruence|reflexivity].
Qed.
Lemma lookup_remove_key_neq {A} k (l : list (nat * A)) t : t <> k -> lookup t (remove_key k l) = lookup t l.
Proof.
  intro Hne. induction l as [|[k0 v0] l IH]; simpl; [reflexivity|].
  destruct (Nat.eqb k k0) eqn:E; simpl.
  - apply Nat.eqb_eq in E. subst k0. rewrite IH. destruct (Nat.eqb t k) eqn:E1; [apply Nat.eqb_eq in E1; congruence|reflexivity].
  - rewrite IH. reflexivity.
Qed.

Definition pending_in (st : state) (t : nat) (p : pend) : Prop :=
  exists l, lookup t (nextres st) = Some l /\ In p l.

Lemma iter_pending_mono st h rest st1 t p :
  pending_in st t p -> proc_event (set_heap st rest) h = Ok st1 -> pending_in st1 t p.
Proof.
  intros (l & Hl & Hp) He. destruct (h_ev h) as [|s| |k i r] eqn:Hev.
  - destruct (iter_start st rest h st1 Hev He) as (tr & seed & rs & tc & _ & _ & _ & _ & Hn & _). exists l. rewrite Hn. auto.
  - destruct (iter_complete st rest h st1 s Hev He) as (tr & _ & _ & _ & Hn & _). exists l. rewrite Hn. auto.
  - destruct (iter_stop st rest h st1 Hev He) as (_ & _ & Hn & _). exists l. rewrite Hn. auto.
  - destruct (iter_result st rest h st1 k i r Hev He) as (tr & _ & _ & _ & _ & Hn & _).
    unfold pending_in. rewrite Hn, lookup_set_key. destruct (Nat.eqb t (h_trial h)) eqn:E; [|exists l; auto].
    apply Nat.eqb_eq in E. subst t. rewrite Hl. eexists. split; [reflexivity|]. apply in_or_app. left. exact Hp.
Qed.

Lemma process_pending_mono t p fuel st st' : pending_in st t p -> process fuel st = Ok st' -> pending_in st' t p.
Proof. apply (process_ind (fun s => pending_in s t p)). intros s h rest s1 HI _ _ Hp. eapply iter_pending_mono; eauto. Qed.

Definition noStop (st : state) : Prop := forall x, In x (heap st) -> h_ev x <> EvStop.

(* the time at which report r of a run started at te is due *)
Definition due_time (te : Q) (r : result) : Q := qadd (qadd te (res_elapsed r)) (d_result S_).

Lemma process_due fuel : forall st st', HInv st -> noStop st -> process fuel st = Ok st' ->
  (forall x k i r, In x (heap st) -> h_ev x = EvResult k i r -> h_time x <= clock st ->
     pending_in st' (h_trial x) (k, i, r, h_time x)) /\
  (forall k run i r, (length (runs st) <= k)%nat -> nth_error (runs st') k = Some run ->
     nth_error (run_results run) i = Some r -> due_time (run_te run) r <= clock st ->
     pending_in st' (run_trial run) (k, i, r, due_time (run_te run) r)).
Proof.
  induction fuel as [|f IH]; intros st st' HI HN H; simpl in H; [discriminate|].
  destruct (heap st) as [|h rest] eqn:Hh.
  - injection H as <-. split; [intros x k i r []|].
    intros k run i r Hk Hr. assert (nth_error (runs st) k = None) by (apply nth_error_None; exact Hk). congruence.
  - destruct (Qleb (h_time h) (clock st)) eqn:Hq.
    + destruct (proc_event (set_heap st rest) h) as [st1|e] eqn:E; [|discriminate].
      assert (HI1 : HInv st1) by (eapply proc_event_hinv; eauto).
      assert (Hc1 : clock st1 = clock st) by (apply (proc_event_clock S_ tbl draw _ _ _ E)).
      assert (HN1 : noStop st1).
      { intros x Hx. apply (iter_heap st rest h st1 E) in Hx as [Hx|(_ & _ & Hns & _)].
        - apply HN. rewrite Hh. right. exact Hx.
        - intro Ev. apply Hns. left. exact Ev. }
      destruct (IH st1 st' HI1 HN1 H) as [IH1 IH2]. rewrite Hc1 in IH1, IH2.
      assert (Hrest : forall x, In x rest -> In x (heap st1)).
      { intros x Hx. destruct (h_ev h) as [|s| |k0 i0 r0] eqn:Hev.
        - destruct (iter_start st rest h st1 Hev E) as (tr & seed & rs & tc & _ & _ & _ & _ & _ & _ & _ & Hheap). apply Hheap. left. exact Hx.
        - destruct (iter_complete st rest h st1 s Hev E) as (tr & _ & -> & _). exact Hx.
        - exfalso. apply (HN h); [rewrite Hh; left; reflexivity|exact Hev].
        - destruct (iter_result st rest h st1 k0 i0 r0 Hev E) as (tr & _ & -> & _). exact Hx. }
      split.
      * intros x k i r [<-|Hx] Hev Hdue; [|apply IH1; auto].
        destruct (iter_result st rest h st1 k i r Hev E) as (tr & _ & _ & _ & _ & Hn & _).
        eapply process_pending_mono; [|exact H]. unfold pending_in. rewrite Hn, lookup_set_key, Nat.eqb_refl.
        eexists. split; [reflexivity|]. apply in_or_app. right. left. reflexivity.
      * intros k run i r Hk Hr Hi Hdue. destruct (h_ev h) as [|s| |k0 i0 r0] eqn:Hev.
        -- destruct (iter_start st rest h st1 Hev E) as (tr & seed & rs & tc & _ & _ & Hruns & _ & _ & _ & _ & Hheap).
           destruct (Nat.eq_dec k (length (runs st))) as [->|Hne].
           ++ (* the run created by this very start event *)
              assert (Hrun1 : nth_error (runs st1) (length (runs st)) =
                              Some (mkRun (h_trial h) (h_time h) (t_cfg tr) seed (lookup (h_trial h) (paused_at st)) rs)).
              { rewrite Hruns, nth_error_app2 by lia. rewrite Nat.sub_diag. reflexivity. }
              assert (Hsame : run = mkRun (h_trial h) (h_time h) (t_cfg tr) seed (lookup (h_trial h) (paused_at st)) rs).
              { (* runs only grow in the loop *)
                assert (Hpre : forall fuel' s s', process fuel' s = Ok s' -> forall j x, nth_error (runs s) j = Some x -> nth_error (runs s') j = Some x).
                { intros fuel' s s' Hps j x Hj.
                  apply (process_ind (fun s0 => nth_error (runs s0) j = Some x)) with (fuel := fuel') (st := s) (st' := s'); [|exact Hj|exact Hps].
                  intros s0 h0 rest0 s1 HI0 _ _ Hp0. destruct (h_ev h0) as [|s2| |k2 i2 r2] eqn:Hev0.
                  - destruct (iter_start s0 rest0 h0 s1 Hev0 Hp0) as (? & ? & ? & ? & _ & _ & -> & _).
                    rewrite nth_error_app1; [exact HI0|]. apply nth_error_Some. congruence.
                  - destruct (iter_complete s0 rest0 h0 s1 s2 Hev0 Hp0) as (? & _ & _ & -> & _). exact HI0.
                  - destruct (iter_stop s0 rest0 h0 s1 Hev0 Hp0) as (_ & -> & _). exact HI0.
                  - destruct (iter_result s0 rest0 h0 s1 k2 i2 r2 Hev0 Hp0) as (? & _ & _ & -> & _). exact HI0. }
                pose proof (Hpre _ _ _ H _ _ Hrun1) as Hr'. congruence. }
              subst run. simpl in Hi, Hdue |- *.
              apply (IH1 (mkH (due_time (h_time h) r) (added st + i) (h_trial h) (EvResult (length (runs st)) i r))
                         (length (runs st)) i r); [|reflexivity|exact Hdue].
              apply Hheap. right. left. exists i, r. split; [exact Hi|reflexivity].
           ++ apply IH2; auto. rewrite Hruns, app_length. simpl. lia.
        -- destruct (iter_complete st rest h st1 s Hev E) as (tr & _ & _ & Hruns & _). apply IH2; auto. rewrite Hruns. exact Hk.
        -- exfalso. apply (HN h); [rewrite Hh; left; reflexivity|exact Hev].
        -- destruct (iter_result st rest h st1 k0 i0 r0 Hev E) as (tr & _ & _ & Hruns & _). apply IH2; auto. rewrite Hruns. exact Hk.
    + injection H as <-.
      assert (Hlt : clock st < h_time h).
      { apply Qnot_le_lt. intro Hle. apply Qleb_le in Hle. congruence. }
      split.
      * intros x k i r Hx Hev Hdue. exfalso. destruct Hx as [<-|Hx]; [lra|].
        destruct HI as [Hs _]. rewrite Hh in Hs. pose proof (sorted_head_min h rest Hs x Hx) as [Hk|[Hk _]]; lra.
      * intros k run i r Hk Hr. assert (nth_error (runs st) k = None) by (apply nth_error_None; exact Hk). congruence.
Qed.

(* the loop "for trial_id in trial_ids": everything pending for a polled trial is handed out *)
Lemma collect_acc ids : forall nr acc d, In d acc -> In d (fst (collect ids nr acc)).
Proof.
  induction ids as [|x ids IH]; intros nr acc d Hd; simpl; [exact Hd|].
  destruct (lookup x nr); apply IH; [apply in_or_app; left|]; exact Hd.
Qed.
Lemma collect_complete ids : forall nr acc t l p,
  In t ids -> lookup t nr = Some l -> In p l -> In (t, p) (fst (collect ids nr acc)).
Proof.
  induction ids as [|x ids IH]; intros nr acc t l p Hin Hl Hp; [contradiction|]. simpl.
  destruct (Nat.eq_dec x t) as [->|Hne].
  - rewrite Hl. apply collect_acc. apply in_or_app. right. apply in_map. exact Hp.
  - destruct Hin as [E|Hin]; [congruence|].
    destruct (lookup x nr) as [lx|]; [|eapply IH; eauto].
    eapply IH; eauto. rewrite lookup_remove_key_neq; [exact Hl|congruence].
Qed.

Section Timely.
Hypothesis nudge_nonneg : 0 <= nudge S_.

Lemma fetch_timely st ids dt st' rs sts :
  reach init_state st -> step st (OpFetch ids dt) = Ok (st', OutFetch rs sts) ->
  (forall x, In x (heap st') -> clock st' < h_time x) /\ nextres st' = [] /\
  (forall x k i r, In x (heap st) -> h_ev x = EvResult k i r -> h_time x <= clock st' -> In (h_trial x) ids ->
     In (h_trial x, (k, i, r, h_time x)) rs) /\
  (forall k run i r, (length (runs st) <= k)%nat -> nth_error (runs st') k = Some run ->
     nth_error (run_results run) i = Some r -> due_time (run_te run) r <= clock st' -> In (run_trial run) ids ->
     In (run_trial run, (k, i, r, due_time (run_te run) r)) rs).
Proof.
  intros Hr. pose proof (reach_B nudge_nonneg st Hr) as HB.
  assert (HH : HInv st) by (exact (proj1 (proj1 HB))).
  assert (HN : noStop st).
  { intros x Hx Ev. apply (B_Q st HB x Hx). left. exact Ev. }
  cbn [Sim.step]. unfold bind. destruct (advance st dt) as [st1|] eqn:E1; [|discriminate].
  apply advance_ok in E1 as (_ & _ & ->).
  destruct (Sim.process_now S_ tbl draw (set_clock st (qadd (clock st) dt))) as [st2|] eqn:E2; [|discriminate].
  destruct (collect ids (nextres st2) []) as [rs0 nr] eqn:Ec.
  destruct (statuses (trials (set_nextres st2 [])) ids); [|discriminate].
  intro H. injection H as <- <- _.
  pose proof (process_exit _ _ _ (HH : HInv (set_clock st _)) E2) as Hex.
  destruct (process_due _ _ _ (HH : HInv (set_clock st _)) (HN : noStop (set_clock st _)) E2) as [D1 D2].
  pose proof (process_clock _ _ _ _ _ _ E2) as Hc. simpl in Hc.
  assert (Hrs : rs0 = fst (collect ids (nextres st2) [])) by (rewrite Ec; reflexivity).
  split; [exact Hex|]. split; [reflexivity|]. simpl. rewrite Hc. split.
  - intros x k i r Hx Hev Hdue Hin. destruct (D1 x k i r Hx Hev Hdue) as (l & Hl & Hp).
    rewrite Hrs. eapply collect_complete; eauto.
  - intros k run i r Hk Hrun Hi Hdue Hin. destruct (D2 k run i r Hk Hrun Hi Hdue) as (l & Hl & Hp).
    rewrite Hrs. eapply collect_complete; eauto.
Qed.
End Timely.

(* ======================================================================== *)
(*  G. the level a resumed trial continues from = level of the LATEST pause   *)
(* ======================================================================== *)
Lemma iter_paused st rest h st1 : proc_event (set_heap st rest) h = Ok st1 -> paused_at st1 = paused_at st.
Proof.
  intro Hp. destruct (h_ev h) as [|s| |k i r] eqn:Hev.
  - destruct (iter_start st rest h st1 Hev Hp) as (tr & seed & rs & tc & _ & _ & _ & _ & _ & _ & Hpa & _). exact Hpa.
  - revert Hp. unfold Sim.proc_event. rewrite Hev. unfold proc_complete. simpl.
    destruct (nth_error (trials st) (h_trial h)); [|discriminate]. intro H. injection H as <-. reflexivity.
  - revert Hp. unfold Sim.proc_event. rewrite Hev. intro H. injection H as <-. reflexivity.
  - revert Hp. unfold Sim.proc_event. rewrite Hev. unfold proc_result. simpl.
    destruct (nth_error (trials st) (h_trial h)) as [tr|]; [|discriminate].
    destruct (t_isres tr); intro H; injection H as <-; reflexivity.
Qed.

Lemma process_paused fuel st st' : process fuel st = Ok st' -> paused_at st' = paused_at st.
Proof.
  intro H. apply (process_ind (fun s => paused_at s = paused_at st)) with (fuel := fuel) (st := st) (st' := st');
    [|reflexivity|exact H].
  intros s h rest s1 HI _ _ Hp. rewrite (iter_paused s rest h s1 Hp). exact HI.
Qed.

Lemma schedule_paused st t dt st' : Sim.schedule S_ tbl draw st t dt = Ok st' -> paused_at st' = paused_at st.
Proof.
  unfold Sim.schedule, bind. destruct (advance st dt) as [st1|] eqn:E1; [|discriminate].
  apply advance_ok in E1 as (_ & _ & ->).
  destruct (Sim.process_now S_ tbl draw _) as [st2|] eqn:E2; [|discriminate].
  intro H. injection H as <-. simpl. exact (process_paused _ _ _ E2).
Qed.

Lemma stop_or_pause_paused st t s dt st' : Sim.stop_or_pause S_ tbl draw st t s dt = Ok st' -> paused_at st' = paused_at st.
Proof.
  unfold Sim.stop_or_pause, bind. destruct (advance st dt) as [st1|] eqn:E1; [|discriminate].
  apply advance_ok in E1 as (_ & _ & ->).
  destruct (Sim.process_now S_ tbl draw _) as [st3|] eqn:E3; [|discriminate].
  destruct (Sim.process_now S_ tbl draw _) as [st5|] eqn:E5 in |- *; [|discriminate].
  intro H. injection H as <-. simpl.
  rewrite (process_paused _ _ _ E5). simpl. rewrite (process_paused _ _ _ E3). reflexivity.
Qed.

Lemma paused_set_status st t s : paused_at (set_status st t s) = paused_at st.
Proof. unfold set_status. destruct (nth_error (trials st) t); reflexivity. Qed.
Lemma paused_set_config st t c : paused_at (set_config st t c) = paused_at st.
Proof. unfold set_config. destruct (nth_error (trials st) t); reflexivity. Qed.

(* only pause_trial(trial, result) with a result writes _resource_paused_for_trial *)
Lemma step_paused st o st' out : step st o = Ok (st', out) ->
  paused_at st' = match o with
                  | OpPause t (Some l) _ => set_key t l (paused_at st)
                  | _ => paused_at st
                  end.
Proof.
  destruct o as [c dt|t newc dt|t lvl dt|t dt|ids dt| | |to]; cbn [Sim.step]; unfold bind.
  - destruct (Sim.schedule S_ tbl draw st (length (trials st)) dt) as [st1|] eqn:E; [|discriminate].
    intro H. injection H as <- _. simpl. exact (schedule_paused _ _ _ _ E).
  - destruct (nth_error (trials st) t) as [tr|]; [|discriminate].
    destruct (t_status tr) as [[]|]; try discriminate.
    destruct (Sim.schedule S_ tbl draw _ t dt) as [st1|] eqn:E; [|discriminate].
    intro H. injection H as <- _. rewrite paused_set_status, (schedule_paused _ _ _ _ E).
    destruct newc; [apply paused_set_config|reflexivity].
  - destruct (negb (Nat.ltb t (length (trials st)))); [discriminate|].
    destruct (Sim.stop_or_pause S_ tbl draw _ t Paused dt) as [st1|] eqn:E; [|discriminate].
    intro H. injection H as <- _. apply stop_or_pause_paused in E. rewrite paused_set_status in E.
    destruct lvl; simpl; rewrite E; reflexivity.
  - destruct (Sim.stop_or_pause S_ tbl draw st t Stopped dt) as [st1|] eqn:E; [|discriminate].
    intro H. injection H as <- _. exact (stop_or_pause_paused _ _ _ _ _ E).
  - destruct (advance st dt) as [st1|] eqn:E1; [|discriminate].
    apply advance_ok in E1 as (_ & _ & ->).
    destruct (Sim.process_now S_ tbl draw _) as [st2|] eqn:E2; [|discriminate].
    destruct (collect ids (nextres st2) []) as [rs nr].
    destruct (statuses (trials (set_nextres st2 [])) ids); [|discriminate].
    intro H. injection H as <- _. simpl. exact (process_paused _ _ _ E2).
  - destruct (Sim.process_now S_ tbl draw st) as [st1|] eqn:E; [|discriminate].
    intro H. injection H as <- _. exact (process_paused _ _ _ E).
  - destruct (advance st (sleep_time S_)) as [st1|] eqn:E; [|discriminate].
    apply advance_ok in E as (_ & _ & ->). intro H. injection H as <- _. reflexivity.  - intro H. injection H as <- _. reflexivity.
Qed.

(* successful execution of a call sequence *)
Fixpoint exec (st : state) (ops : list op) : option state :=
  match ops with
  | [] => Some st
  | o :: r => match step st o with Ok (st', _) => exec st' r | Err _ => None end
  end.

(* the level passed by the latest pause_trial(t, result) of a history ([init] before it) *)
Fixpoint last_pause (t : nat) (ops : list op) (init : option nat) : option nat :=
  match ops with
  | [] => init
  | OpPause t' (Some l) _ :: r => last_pause t r (if Nat.eqb t t' then Some l else init)
  | _ :: r => last_pause t r init
  end.

Lemma paused_is_last_pause t : forall ops st st',
  exec st ops = Some st' -> lookup t (paused_at st') = last_pause t ops (lookup t (paused_at st)).
Proof.
  induction ops as [|o ops IH]; intros st st' H; simpl in H.
  - injection H as <-. reflexivity.
  - destruct (step st o) as [[s1 out]|e] eqn:Es; [|discriminate].
    rewrite (IH s1 st' H), (step_paused _ _ _ _ Es).
    destruct o as [c dt|t0 newc dt|t0 [l|] dt|t0 dt|ids dt| | |to]; simpl; try reflexivity.
    rewrite lookup_set_key. reflexivity.
Qed.

End Delivery.
