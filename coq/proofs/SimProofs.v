(* SimProofs.v — lemmas about model/Sim.v (C10). *)
From Verif Require Import model.Base model.Sim.
From Coq Require Import Lqa Qminmax Sorted Permutation.
Open Scope Q_scope.

(* ---- arithmetic helpers --------------------------------------------------- *)
Lemma qadd_eq a b : qadd a b == a + b.
Proof. unfold qadd. apply Qred_correct. Qed.
Lemma qsub_eq a b : qsub a b == a - b.
Proof. unfold qsub. apply Qred_correct. Qed.

Lemma Qltb_false a b : Qltb a b = false -> b <= a.
Proof.
  unfold Qltb. intro H. apply negb_false_iff in H. apply Qle_bool_iff in H. exact H.
Qed.

Lemma qmax_ge_l a b : a <= qmax a b.
Proof.
  unfold qmax. destruct (Qltb a b) eqn:E.
  - apply Qltb_lt in E. lra.
  - lra.
Qed.
Lemma qmax_ge_r a b : b <= qmax a b.
Proof.
  unfold qmax. destruct (Qltb a b) eqn:E.
  - lra.
  - apply Qltb_false in E. exact E.
Qed.
Lemma qmax_eq_l a b : b <= a -> qmax a b = a.
Proof.
  intro H. unfold qmax. destruct (Qltb a b) eqn:E; [|reflexivity].
  apply Qltb_lt in E. lra.
Qed.
Lemma qmax_eq_r a b : a <= b -> qmax a b == b.
Proof.
  intro H. unfold qmax. destruct (Qltb a b) eqn:E; [reflexivity|].
  apply Qltb_false in E. lra.
Qed.
Lemma qmax_cases a b : qmax a b = a \/ qmax a b = b.
Proof. unfold qmax. destruct (Qltb a b); auto. Qed.

Section Proofs.
Variable S_ : settings.
Variable tbl : table.
Variable draw : nat -> nat.

Notation step := (step S_ tbl draw).
Notation run_ops := (run_ops S_ tbl draw).
Notation process := (process S_ tbl draw).
Notation process_now := (process_now S_ tbl draw).
Notation proc_event := (proc_event S_ tbl draw).
Notation proc_start := (proc_start S_ tbl draw).
Notation schedule := (schedule S_ tbl draw).
Notation stop_or_pause := (stop_or_pause S_ tbl draw).

(* ======================================================================== *)
(*  1. the simulated clock                                                   *)
(* ======================================================================== *)
Lemma push_results_clock rs : forall st t run idx te tf,
  clock (fst (push_results S_ st t run idx te tf rs)) = clock st.
Proof.
  induction rs as [|r rs IH]; intros; simpl; [reflexivity|].
  rewrite IH. reflexivity.
Qed.

Lemma proc_start_clock st t te st' : proc_start st t te = Ok st' -> clock st' = clock st.
Proof.
  unfold Sim.proc_start. destruct (nth_error (trials st) t) as [tr|]; [|discriminate].
  set (p := match fixed_seed S_ with
            | Some s => (s, st)
            | None => match lookup t (seeds st) with
                      | Some s => (s, st)
                      | None => (draw (length (runs st)), set_seeds st (seeds st ++ [(t, draw (length (runs st)))]))
                      end
            end).
  assert (Hp : clock (snd p) = clock st).
  { unfold p. destruct (fixed_seed S_); [reflexivity|]. destruct (lookup t (seeds st)); reflexivity. }
  destruct p as [seed st1]. simpl in Hp.
  destruct (job_results S_ tbl (t_cfg tr) seed (lookup t (paused_at st1))) as [rs|e]; [|discriminate].
  pose proof (push_results_clock rs st1 t (length (runs st1)) 0%nat te te) as Hc.
  destruct (push_results S_ st1 t (length (runs st1)) 0 te te rs) as [st2 tf]. simpl in Hc.
  intro H. injection H as <-. simpl. congruence.
Qed.

Lemma proc_event_clock st h st' : proc_event st h = Ok st' -> clock st' = clock st.
Proof.
  unfold Sim.proc_event. destruct (h_ev h) as [|s| |run idx r].
  - apply proc_start_clock.
  - unfold proc_complete. destruct (nth_error (trials st) (h_trial h)); [|discriminate].
    intro H. injection H as <-. reflexivity.
  - intro H. injection H as <-. reflexivity.
  - unfold proc_result. simpl.
    destruct (nth_error (trials st) (h_trial h)) as [tr|]; [|discriminate].
    destruct (t_isres tr); intro H; injection H as <-; reflexivity.
Qed.

Lemma process_clock fuel : forall st st', process fuel st = Ok st' -> clock st' = clock st.
Proof.
  induction fuel as [|f IH]; intros st st' H; simpl in H; [discriminate|].
  destruct (heap st) as [|h rest] eqn:Hh.
  - injection H as <-. reflexivity.
  - destruct (Qleb (h_time h) (clock st)).
    + destruct (proc_event (set_heap st rest) h) as [st1|e] eqn:E; [|discriminate].
      apply IH in H. apply proc_event_clock in E. simpl in E. congruence.
    + injection H as <-. reflexivity.
Qed.

Lemma process_now_clock st st' : process_now st = Ok st' -> clock st' = clock st.
Proof. apply process_clock. Qed.

Lemma advance_ok st d st' : advance st d = Ok st' ->
  0 <= d /\ clock st' == clock st + d /\ st' = set_clock st (qadd (clock st) d).
Proof.
  unfold advance. destruct (Qltb d 0) eqn:E; [discriminate|].
  intro H. injection H as <-. apply Qltb_false in E. repeat split; [exact E|]. cbn [clock set_clock]. apply qadd_eq.
Qed.

Lemma schedule_clock st t dt st' : schedule st t dt = Ok st' -> 0 <= dt /\ clock st' == clock st + dt.
Proof.
  unfold Sim.schedule, bind. destruct (advance st dt) as [st1|] eqn:E1; [|discriminate].
  destruct (process_now st1) as [st2|] eqn:E2; [|discriminate].
  intro H. injection H as <-. simpl. apply advance_ok in E1 as (H0 & Hc & _).
  apply process_now_clock in E2. rewrite E2. split; assumption.
Qed.

(* the clock after a blocking stop / pause, as the code computes it *)
Definition clock_after_stop (c dt : Q) : Q :=
  let c1 := c + dt in
  let c2 := qmax (c1 + d_stop S_ + nudge S_) c1 in
  qmax (c2 + d_stopc S_ + nudge S_) c2.

Lemma qmax_morph a a' b b' : a == a' -> b == b' -> qmax a b == qmax a' b'.
Proof.
  intros Ha Hb. unfold qmax.
  destruct (Qltb a b) eqn:E; destruct (Qltb a' b') eqn:E'; try assumption.
  - apply Qltb_lt in E. apply Qltb_false in E'. lra.
  - apply Qltb_false in E. apply Qltb_lt in E'. lra.
Qed.

Lemma stop_or_pause_clock st t s dt st' : stop_or_pause st t s dt = Ok st' ->
  0 <= dt /\ clock st' == clock_after_stop (clock st) dt.
Proof.
  unfold Sim.stop_or_pause, bind. destruct (advance st dt) as [st1|] eqn:E1; [|discriminate].
  apply advance_ok in E1 as (H0 & Hc & _).
  match goal with |- match process_now ?x with _ => _ end = _ -> _ => set (st2 := x) end.
  destruct (process_now st2) as [st3|] eqn:E3; [|discriminate].
  apply process_now_clock in E3.
  match goal with |- match process_now ?x with _ => _ end = _ -> _ => set (st4 := x) end.
  destruct (process_now st4) as [st5|] eqn:E5; [|discriminate].
  intro H. injection H as <-. cbn [clock set_nextres].
  apply process_now_clock in E5. split; [exact H0|].
  rewrite E5. unfold st4, advance_to. simpl. rewrite E3. unfold st2, advance_to. simpl.
  unfold clock_after_stop.
  apply qmax_morph.
  - rewrite !qadd_eq. apply Qplus_comp; [|reflexivity]. apply Qplus_comp; [|reflexivity].
    apply qmax_morph; [rewrite !qadd_eq, Hc; reflexivity | exact Hc].
  - apply qmax_morph; [rewrite !qadd_eq, Hc; reflexivity | exact Hc].
Qed.

Lemma clock_after_stop_ge c dt : c + dt <= clock_after_stop c dt.
Proof.
  unfold clock_after_stop.
  pose proof (qmax_ge_r (c + dt + d_stop S_ + nudge S_) (c + dt)).
  pose proof (qmax_ge_r (qmax (c + dt + d_stop S_ + nudge S_) (c + dt) + d_stopc S_ + nudge S_)
                        (qmax (c + dt + d_stop S_ + nudge S_) (c + dt))).
  lra.
Qed.

Lemma clock_after_stop_exact c dt :
  0 <= d_stop S_ + nudge S_ -> 0 <= d_stopc S_ + nudge S_ ->
  clock_after_stop c dt == c + dt + d_stop S_ + nudge S_ + d_stopc S_ + nudge S_.
Proof.
  intros H1 H2. unfold clock_after_stop.
  rewrite (qmax_eq_l (c + dt + d_stop S_ + nudge S_) (c + dt)) by lra.
  rewrite qmax_eq_l by lra. lra.
Qed.

(* what one call charges to the simulated clock *)
Definition charge (o : op) (c : Q) : Q :=
  match o with
  | OpStart _ dt | OpResume _ _ dt | OpFetch _ dt => c + dt
  | OpPause _ _ dt | OpStop _ dt => clock_after_stop c dt
  | OpBusy => c
  | OpSleep => c + sleep_time S_
  | OpAdvanceTo to => qmax to c
  end.
Definition outside (o : op) : Q :=
  match o with
  | OpStart _ dt | OpResume _ _ dt | OpFetch _ dt | OpPause _ _ dt | OpStop _ dt => dt
  | OpBusy => 0
  | OpSleep => sleep_time S_
  | OpAdvanceTo _ => 0
  end.

Lemma set_status_clock st t s : clock (set_status st t s) = clock st.
Proof. unfold set_status. destruct (nth_error (trials st) t); reflexivity. Qed.
Lemma set_config_clock st t c : clock (set_config st t c) = clock st.
Proof. unfold set_config. destruct (nth_error (trials st) t); reflexivity. Qed.

Lemma step_clock st o st' out : step st o = Ok (st', out) ->
  0 <= outside o /\ clock st' == charge o (clock st).
Proof.
  destruct o as [c dt|t newc dt|t lvl dt|t dt|ids dt| | |to]; cbn [Sim.step outside charge]; unfold bind.
  - destruct (Sim.schedule S_ tbl draw st (length (trials st)) dt) as [st1|] eqn:E; [|discriminate].
    intro H. injection H as <- _. simpl. eapply schedule_clock; eauto.
  - destruct (nth_error (trials st) t) as [tr|]; [|discriminate].
    destruct (t_status tr) as [[]|]; try discriminate.
    destruct (Sim.schedule S_ tbl draw _ t dt) as [st1|] eqn:E; [|discriminate].
    intro H. injection H as <- _. rewrite set_status_clock. apply schedule_clock in E.
    destruct newc; [rewrite set_config_clock in E|]; exact E.
  - destruct (negb (Nat.ltb t (length (trials st)))); [discriminate|].
    destruct (Sim.stop_or_pause S_ tbl draw _ t Paused dt) as [st1|] eqn:E; [|discriminate].
    intro H. injection H as <- _. apply stop_or_pause_clock in E. rewrite set_status_clock in E.
    destruct lvl; exact E.
  - destruct (Sim.stop_or_pause S_ tbl draw st t Stopped dt) as [st1|] eqn:E; [|discriminate].
    intro H. injection H as <- _. eapply stop_or_pause_clock; eauto.
  - destruct (advance st dt) as [st1|] eqn:E1; [|discriminate].
    destruct (Sim.process_now S_ tbl draw st1) as [st2|] eqn:E2; [|discriminate].
    destruct (collect ids (nextres st2) []) as [rs nr].
    destruct (statuses (trials (set_nextres st2 [])) ids); [|discriminate].
    intro H. injection H as <- _. simpl.
    apply advance_ok in E1 as (H0 & Hc & _). apply process_now_clock in E2. rewrite E2. split; assumption.
  - destruct (Sim.process_now S_ tbl draw st) as [st1|] eqn:E; [|discriminate].
    intro H. injection H as <- _. apply process_now_clock in E. rewrite E. split; [lra|reflexivity].
  - destruct (advance st (sleep_time S_)) as [st1|] eqn:E; [|discriminate].
    intro H. injection H as <- _. apply advance_ok in E as (H0 & Hc & _). split; assumption.
  - intro H. injection H as <- _. split; [lra|reflexivity].
Qed.

Lemma step_clock_monotone st o st' out : step st o = Ok (st', out) -> clock st <= clock st'.
Proof.
  intro H. apply step_clock in H as [H0 Hc]. rewrite Hc.
  destruct o; simpl in *; try lra.
  - pose proof (clock_after_stop_ge (clock st) dt). lra.
  - pose proof (clock_after_stop_ge (clock st) dt). lra.
  - apply qmax_ge_r.
Qed.

(* operation sequences *)
Lemma run_ops_split : forall ops st pre st1 o1 rest,
  run_ops st ops = pre ++ Ok (st1, o1) :: rest ->
  exists ops1 ops2, ops = ops1 ++ ops2 /\ rest = run_ops st1 ops2 /\
                    (pre = [] -> exists o, ops1 = [o] /\ step st o = Ok (st1, o1)).
Proof.
  induction ops as [|o ops IH]; intros st pre st1 o1 rest H; simpl in H.
  - destruct pre; discriminate.
  - destruct (step st o) as [[s out]|e] eqn:E.
    + destruct pre as [|x pre].
      * simpl in H. injection H as H1 H2 H3. subst. exists [o], ops. split; [reflexivity|]. split; [reflexivity|].
        intros _. exists o. split; [reflexivity|exact E].
      * simpl in H. injection H as H1 H2. apply IH in H2 as (ops1 & ops2 & -> & -> & _).
        exists (o :: ops1), ops2. split; [reflexivity|]. split; [reflexivity|]. intro; discriminate.
    + destruct pre as [|x pre]; simpl in H; [discriminate|].
      injection H as _ H. destruct pre; discriminate.
Qed.

Lemma run_ops_clock : forall ops st st1 o1,
  In (Ok (st1, o1)) (run_ops st ops) -> clock st <= clock st1.
Proof.
  induction ops as [|o ops IH]; intros st st1 o1 H; simpl in H; [contradiction|].
  destruct (step st o) as [[s out]|e] eqn:E.
  - apply step_clock_monotone in E. destruct H as [H|H].
    + injection H as -> _. exact E.
    + apply IH in H. lra.
  - destruct H as [H|[]]. discriminate.
Qed.

Lemma run_ops_clock_between ops st pre st1 o1 mid st2 o2 post :
  run_ops st ops = pre ++ Ok (st1, o1) :: mid ++ Ok (st2, o2) :: post ->
  clock st1 <= clock st2.
Proof.
  intro H. apply run_ops_split in H as (ops1 & ops2 & _ & H & _).
  apply (run_ops_clock ops2 st1 st2 o2). rewrite <- H. apply in_or_app. right. left. reflexivity.
Qed.

(* ======================================================================== *)
(*  2. what a job run reports (pure): _run_job_and_collect_results           *)
(* ======================================================================== *)
(* the rows of the table of configuration c and seed s, limited to max_resource *)
Definition curve_of (c : config) (seed : nat) : curve := nth seed (nth (c_idx c) tbl []) [].

(* the rows of the table with their levels (VALUES of fidelity_values), limited to max_resource *)
Definition table_results (c : config) (seed : nat) : list result :=
  filter (in_range c) (with_levels (fidelities S_) (curve_of c seed)).
(* the level a run resumes after: the paused level with checkpointing, else none (from scratch) *)
Definition resume_level (rp : option nat) : option nat :=
  match rp with Some p => if checkpointing S_ then Some p else None | None => None end.
Definition above (rl : option nat) (r : result) : bool :=
  match rl with Some p => Nat.ltb p (res_level r) | None => true end.

Lemma with_levels_length cv : forall fs, (length (with_levels fs cv) <= length cv)%nat.
Proof. induction cv as [|r cv IH]; intros [|f fs]; simpl; try lia. specialize (IH fs). lia. Qed.

Lemma with_levels_nth cv : forall fs i r, nth_error (with_levels fs cv) i = Some r ->
  exists f rw, nth_error fs i = Some f /\ nth_error cv i = Some rw /\ r = mkRes f (r_elapsed rw) (r_metrics rw).
Proof.
  induction cv as [|rw cv IH]; intros [|f fs] i r H; simpl in H; try (destruct i; discriminate).
  destruct i as [|i]; simpl in H.
  - injection H as <-. exists f, rw. repeat split.
  - apply IH in H. exact H.
Qed.

Lemma with_levels_levels cv : forall fs, map res_level (with_levels fs cv) = firstn (length cv) fs.
Proof.
  induction cv as [|r cv IH]; intros [|f fs]; simpl; try reflexivity. rewrite IH. reflexivity.
Qed.

Lemma filter_true {A} (f : A -> bool) l : (forall x, In x l -> f x = true) -> filter f l = l.
Proof.
  induction l as [|x l IH]; intro H; simpl; [reflexivity|].
  rewrite (H x (or_introl eq_refl)). f_equal. apply IH. intros y Hy. apply H. right. exact Hy.
Qed.

(* all_results = the table rows by level value, up to max_resource *)
Lemma all_results_spec c seed all : all_results S_ tbl c seed = Ok all -> all = table_results c seed.
Proof.
  unfold all_results, table_results, curve_of.
  destruct (match c_maxres c with Some m => Nat.ltb m (fid_min S_) | None => false end); [discriminate|].
  destruct (negb (Nat.ltb seed (num_seeds tbl))); [discriminate|].
  destruct (nth_error tbl (c_idx c)) as [per_seed|] eqn:E1; [|discriminate].
  destruct (nth_error per_seed seed) as [cv|] eqn:E2; [|discriminate].
  intro H. injection H as <-.
  rewrite (nth_error_nth _ _ [] E1). rewrite (nth_error_nth per_seed seed (@nil row) E2). reflexivity.
Qed.

(* the repair: e_0 = max(x_0, eps), e_{i+1} = max(x_{i+1}, e_i + eps); levels and metrics untouched *)
Definition bound (prev : option Q) : Q := match prev with None => eps S_ | Some p => p + eps S_ end.

Inductive repaired : option Q -> list result -> list result -> Prop :=
| rep_nil prev : repaired prev [] []
| rep_cons prev r l r' l' :
    res_level r' = res_level r -> res_metrics r' = res_metrics r ->
    res_elapsed r' == Qmax (res_elapsed r) (bound prev) ->
    repaired (Some (res_elapsed r')) l l' ->
    repaired prev (r :: l) (r' :: l').

Lemma qmax_Qmax a b : qmax a b == Qmax a b.
Proof.
  unfold qmax. destruct (Qltb a b) eqn:E.
  - apply Qltb_lt in E. symmetry. apply Q.max_r. lra.
  - apply Qltb_false in E. symmetry. apply Q.max_l. exact E.
Qed.

Lemma repair_from_spec l : forall prev, repaired (Some prev) l (repair_from S_ prev l).
Proof.
  induction l as [|r l IH]; intro prev; simpl; constructor; try reflexivity.
  - simpl. rewrite qmax_Qmax. apply Q.max_compat; [reflexivity|apply qadd_eq].
  - apply IH.
Qed.

Lemma repair_spec l l' : repair S_ l = Ok l' -> l <> [] /\ repaired None l l'.
Proof.
  destruct l as [|r l]; simpl; [discriminate|]. intro H. injection H as <-.
  split; [discriminate|]. constructor; try reflexivity; [apply qmax_Qmax | apply repair_from_spec].
Qed.

(* same level, same metrics, equal elapsed time *)
Definition req (a b : result) : Prop :=
  res_level a = res_level b /\ res_metrics a = res_metrics b /\ res_elapsed a == res_elapsed b.

Lemma repaired_req prev l0 l l' : Forall2 req l0 l -> repaired prev l l' -> repaired prev l0 l'.
Proof.
  intros HF HR. revert l0 HF. induction HR as [|prev r l r' l' H1 H2 H3 HR IH]; intros l0 HF.
  - inversion HF. constructor.
  - inversion HF as [|a b l0' lb (Ha1 & Ha2 & Ha3) HF']; subst. constructor; try congruence.
    + rewrite H3. apply Q.max_compat; [symmetry; exact Ha3|reflexivity].
    + apply IH. exact HF'.
Qed.

Lemma repaired_fields prev l l' : repaired prev l l' ->
  map res_level l' = map res_level l /\ map res_metrics l' = map res_metrics l /\ length l' = length l.
Proof.
  induction 1 as [|prev r l r' l' H1 H2 H3 HR (IH1 & IH2 & IH3)]; simpl; [auto|].
  rewrite IH1, IH2, IH3, H1, H2. auto.
Qed.

Lemma repaired_nth prev l l' : repaired prev l l' -> forall i r', nth_error l' i = Some r' ->
  exists r, nth_error l i = Some r /\ res_level r' = res_level r /\ res_metrics r' = res_metrics r /\
            res_elapsed r <= res_elapsed r'.
Proof.
  induction 1 as [|prev r l r' l' H1 H2 H3 HR IH]; intros i x Hi; [destruct i; discriminate|].
  destruct i as [|i]; simpl in Hi.
  - injection Hi as <-. exists r. repeat split; auto. rewrite H3. apply Q.le_max_l.
  - apply IH in Hi. exact Hi.
Qed.

(* after the repair: first >= eps, every step >= eps *)
Lemma repaired_head prev l l' : repaired prev l l' ->
  forall a, nth_error l' 0 = Some a -> bound prev <= res_elapsed a.
Proof.
  intros H a Ha. destruct H as [|prev r l r' l' H1 H2 H3 HR]; [discriminate|].
  simpl in Ha. injection Ha as <-. rewrite H3. apply Q.le_max_r.
Qed.

Lemma repaired_step prev l l' : repaired prev l l' ->
  forall i a b, nth_error l' i = Some a -> nth_error l' (S i) = Some b ->
    res_elapsed a + eps S_ <= res_elapsed b.
Proof.
  induction 1 as [|prev r l r' l' H1 H2 H3 HR IH]; intros i a b Ha Hb; [destruct i; discriminate|].
  destruct i as [|i]; simpl in Ha, Hb.
  - injection Ha as <-. apply (repaired_head _ _ _ HR b Hb).
  - eapply IH; eauto.
Qed.

(* a column is "spaced" when the first value is >= b and every step is >= eps *)
Inductive spaced : Q -> list result -> Prop :=
| sp_nil b : spaced b []
| sp_cons b r l : b <= res_elapsed r -> spaced (res_elapsed r + eps S_) l -> spaced b (r :: l).

Lemma spaced_compat b b' l : b == b' -> spaced b l -> spaced b' l.
Proof. intros Hb H. destruct H; constructor; [rewrite <- Hb; assumption | assumption]. Qed.

(* ... and on a spaced column the repair changes nothing *)
Lemma repaired_faithful prev l l' : repaired prev l l' -> spaced (bound prev) l -> Forall2 req l' l.
Proof.
  induction 1 as [|prev r l r' l' H1 H2 H3 HR IH]; intro Hs; [constructor|].
  inversion Hs as [|b0 r0 l0 Hb Hs']; subst.
  assert (He : res_elapsed r' == res_elapsed r). { rewrite H3. apply Q.max_l. exact Hb. }
  constructor; [repeat split; assumption|].
  apply IH. eapply spaced_compat; [|exact Hs']. simpl. rewrite He. reflexivity.
Qed.

(* the job before the repair: the table rows above the resume level (by level VALUE), elapsed time =
   table value minus the table value at the resume level (0 if the trial starts from scratch or no
   row has that level) *)
Definition offset (c : config) (seed : nat) (rl : option nat) : Q :=
  match rl with Some p => offset_of p (table_results c seed) | None => 0 end.
Definition raw_job (c : config) (seed : nat) (rp : option nat) : list result :=
  let rl := resume_level rp in
  map (fun r => set_elapsed r (res_elapsed r - offset c seed rl)) (filter (above rl) (table_results c seed)).

Lemma Forall2_map_req (f g : result -> result) l :
  (forall r, req (f r) (g r)) -> Forall2 req (map f l) (map g l).
Proof. intro H. induction l; simpl; constructor; auto. Qed.

Lemma job_results_spec c seed rp rs : job_results S_ tbl c seed rp = Ok rs ->
  raw_job c seed rp <> [] /\ repaired None (raw_job c seed rp) rs.
Proof.
  unfold job_results. destruct (all_results S_ tbl c seed) as [all|] eqn:Ha; [|discriminate].
  apply all_results_spec in Ha. intro Hr.
  apply repair_spec in Hr as [Hne Hr].
  assert (HF : Forall2 req (raw_job c seed rp) (resume_filter S_ rp all)).
  { unfold raw_job, resume_filter, resume_level, offset. subst all.
    destruct rp as [p|]; [destruct (checkpointing S_)|].
    - simpl. apply Forall2_map_req. intro r. repeat split; simpl. symmetry. apply qsub_eq.
    - simpl. rewrite filter_true by reflexivity. rewrite <- (map_id (table_results c seed)) at 2.
      apply Forall2_map_req. intro r. repeat split; simpl. lra.
    - simpl. rewrite filter_true by reflexivity. rewrite <- (map_id (table_results c seed)) at 2.
      apply Forall2_map_req. intro r. repeat split; simpl. lra. }
  split.
  - intro E. rewrite E in HF. inversion HF as [HH|]. apply Hne. symmetry. exact H.
  - eapply repaired_req; eauto.
Qed.

(* consequences, in table terms: a report of the job is row j of the table curve, j the position of
   its level in fidelity_values; it is within max_resource and above the resume level *)
Lemma raw_job_nth c seed rp i r : nth_error (raw_job c seed rp) i = Some r ->
  exists j rw, nth_error (fidelities S_) j = Some (res_level r) /\
               nth_error (curve_of c seed) j = Some rw /\
               res_metrics r = r_metrics rw /\
               res_elapsed r = r_elapsed rw - offset c seed (resume_level rp) /\
               in_range c r = true /\ above (resume_level rp) r = true.
Proof.
  unfold raw_job. intro H. apply nth_error_In in H. apply in_map_iff in H as (r0 & <- & Hin).
  apply filter_In in Hin as [Hin Hab]. unfold table_results in Hin. apply filter_In in Hin as [Hin Hir].
  apply In_nth_error in Hin as [j Hj]. apply with_levels_nth in Hj as (f & rw & Hf & Hrw & ->).
  exists j, rw. simpl in *. repeat split; assumption.
Qed.

Lemma map_level_filter (P : nat -> bool) (l : list result) :
  map res_level (filter (fun r => P (res_level r)) l) = filter P (map res_level l).
Proof. induction l as [|r l IH]; simpl; [reflexivity|]. destruct (P (res_level r)); simpl; rewrite IH; reflexivity. Qed.

Definition lvl_in_range (c : config) (f : nat) : bool :=
  match c_maxres c with None => true | Some m => Nat.leb f m end.
Definition lvl_above (rl : option nat) (f : nat) : bool :=
  match rl with Some p => Nat.ltb p f | None => true end.

(* the levels a job reports: exactly the fidelity values within max_resource and above the resume
   level, in table order, none skipped *)
Lemma raw_job_levels c seed rp :
  map res_level (raw_job c seed rp) =
  filter (lvl_above (resume_level rp))
         (filter (lvl_in_range c) (firstn (length (curve_of c seed)) (fidelities S_))).
Proof.
  unfold raw_job, table_results. rewrite map_map. simpl.
  change (fun x : result => res_level x) with res_level.
  change (above (resume_level rp)) with (fun r => lvl_above (resume_level rp) (res_level r)).
  rewrite map_level_filter.
  change (in_range c) with (fun r => lvl_in_range c (res_level r)).
  rewrite map_level_filter, with_levels_levels. reflexivity.
Qed.

(* with distinct fidelity values the offset is the elapsed time of THE row of the paused level *)
Lemma offset_of_unique p : forall l r, NoDup (map res_level l) -> In r l -> res_level r = p ->
  forall o, fold_left (fun o r => if Nat.eqb (res_level r) p then res_elapsed r else o) l o = res_elapsed r.
Proof.
  induction l as [|x l IH]; intros r Hnd Hin Hp o; [contradiction|]. simpl.
  inversion Hnd as [|a b Hnot Hnd']; subst. destruct Hin as [->|Hin].
  - rewrite Nat.eqb_refl.
    assert (Hrest : forall l' o', (forall y, In y l' -> res_level y <> res_level r) ->
              fold_left (fun o r0 => if Nat.eqb (res_level r0) (res_level r) then res_elapsed r0 else o) l' o' = o').
    { induction l' as [|y l' IH']; intros o' Hy; [reflexivity|]. simpl.
      destruct (Nat.eqb (res_level y) (res_level r)) eqn:E; [apply Nat.eqb_eq in E; exfalso; eapply Hy; [left; reflexivity|exact E]|].
      apply IH'. intros z Hz. apply Hy. right. exact Hz. }
    apply Hrest. intros y Hy E. apply Hnot. rewrite <- E. apply in_map. exact Hy.
  - apply IH; auto.
Qed.

(* ======================================================================== *)
(*  3. every result in flight names the job run it came from                 *)
(* ======================================================================== *)
Definition tagged' (rs : list run_rec) (t k i : nat) (r : result) (ts : Q) : Prop :=
  exists run, nth_error rs k = Some run /\ run_trial run = t /\
              nth_error (run_results run) i = Some r /\
              ts == run_te run + res_elapsed r + d_result S_.
Definition tagged (st : state) := tagged' (runs st).

Definition seed_ok (sd : list (nat * nat)) (run : run_rec) : Prop :=
  match fixed_seed S_ with
  | Some s => run_seed run = s
  | None => lookup (run_trial run) sd = Some (run_seed run)
  end.
Definition run_ok (sd : list (nat * nat)) (run : run_rec) : Prop :=
  job_results S_ tbl (run_cfg run) (run_seed run) (run_rp run) = Ok (run_results run) /\ seed_ok sd run.

Definition Inv' (hp : list hentry) (nr : list (nat * list pend)) (rs : list run_rec) (sd : list (nat * nat)) : Prop :=
  (forall h k i r, In h hp -> h_ev h = EvResult k i r -> tagged' rs (h_trial h) k i r (h_time h)) /\
  (forall t l k i r ts, In (t, l) nr -> In (k, i, r, ts) l -> tagged' rs t k i r ts) /\
  (forall k run, nth_error rs k = Some run -> run_ok sd run).
Definition Inv (st : state) : Prop := Inv' (heap st) (nextres st) (runs st) (seeds st).

Lemma tagged_app rs extra t k i r ts : tagged' rs t k i r ts -> tagged' (rs ++ extra) t k i r ts.
Proof.
  intros (run & H1 & H2). exists run. split; [|exact H2].
  rewrite nth_error_app1; [exact H1|]. apply nth_error_Some. congruence.
Qed.

Lemma In_insert x h l : In x (insert h l) <-> x = h \/ In x l.
Proof.
  induction l as [|y l IH]; simpl.
  - intuition congruence.
  - destruct (key_ltb h y); simpl.
    + intuition congruence.
    + rewrite IH. intuition congruence.
Qed.

Lemma lookup_in {A} k (l : list (nat * A)) v : lookup k l = Some v -> In (k, v) l.
Proof.
  induction l as [|[k' v'] l IH]; simpl; [discriminate|].
  destruct (Nat.eqb k k') eqn:E.
  - apply Nat.eqb_eq in E. subst. intro H. injection H as ->. left. reflexivity.
  - intro H. right. apply IH. exact H.
Qed.
Lemma lookup_app {A} k (l l' : list (nat * A)) :
  lookup k (l ++ l') = match lookup k l with Some v => Some v | None => lookup k l' end.
Proof.
  induction l as [|[k' v'] l IH]; simpl; [reflexivity|]. destruct (Nat.eqb k k'); [reflexivity|exact IH].
Qed.
Lemma In_remove_key {A} k (l : list (nat * A)) x : In x (remove_key k l) -> In x l.
Proof.
  induction l as [|[k' v'] l IH]; simpl; [auto|]. destruct (Nat.eqb k k'); simpl.
  - intro H. right. apply IH. exact H.
  - intros [H|H]; [left; exact H | right; apply IH; exact H].
Qed.
Lemma In_set_key {A} k v (l : list (nat * A)) k' v' :
  In (k', v') (set_key k v l) -> (k' = k /\ v' = v) \/ In (k', v') l.
Proof.
  induction l as [|[k0 v0] l IH]; simpl.
  - intros [H|[]]. injection H as <- <-. left. auto.
  - destruct (Nat.eqb k k0); simpl.
    + intros [H|H]; [injection H as <- <-; left; auto | right; right; exact H].
    + intros [H|H]; [right; left; exact H|]. apply IH in H as [H|H]; [left; exact H | right; right; exact H].
Qed.

(* transformers that do not touch heap / nextres / runs / seeds keep the invariant *)
Lemma Inv_heap_sub st hp : Inv st -> (forall h, In h hp -> In h (heap st)) -> Inv (set_heap st hp).
Proof.
  intros (H1 & H2 & H3) Hs. split; [|split]; simpl; [|exact H2|exact H3].
  intros h k i r Hh. apply H1. apply Hs. exact Hh.
Qed.

Lemma Inv_push st t ev time : Inv st -> (forall k i r, ev <> EvResult k i r) -> Inv (push st t ev time).
Proof.
  intros (H1 & H2 & H3) Hev. split; [|split]; simpl; [|exact H2|exact H3].
  intros h k i r Hh He. apply In_insert in Hh as [->|Hh]; [|eapply H1; eauto].
  simpl in He. exfalso. eapply Hev; eauto.
Qed.

(* the loop of _process_start_event *)
Lemma push_results_fields rs : forall st t run idx te tf,
  let st' := fst (push_results S_ st t run idx te tf rs) in
  trials st' = trials st /\ nextres st' = nextres st /\ busy st' = busy st /\ seeds st' = seeds st /\
  paused_at st' = paused_at st /\ runs st' = runs st.
Proof.
  induction rs as [|r rs IH]; intros; simpl; [repeat split|].
  subst st'. simpl. destruct (IH (push st t (EvResult run idx r) (qadd (qadd te (res_elapsed r)) (d_result S_))) t run (S idx) te (qmax tf (qadd te (res_elapsed r))))
    as (A & B & C & D & E & F). simpl in *. repeat split; assumption.
Qed.

Lemma push_results_heap rs : forall st t run idx te tf h,
  In h (heap (fst (push_results S_ st t run idx te tf rs))) ->
  In h (heap st) \/
  exists j r, nth_error rs j = Some r /\ h_ev h = EvResult run (idx + j) r /\ h_trial h = t /\
              h_time h == te + res_elapsed r + d_result S_.
Proof.
  induction rs as [|r rs IH]; intros st t run idx te tf h H; simpl in H; [left; exact H|].
  apply IH in H as [H|(j & r' & Hj & He & Ht & Htime)].
  - simpl in H. apply In_insert in H as [->|H]; [|left; exact H].
    right. exists 0%nat, r. simpl. rewrite Nat.add_0_r. repeat split. rewrite !qadd_eq. reflexivity.
  - right. exists (S j), r'. simpl. replace (idx + S j)%nat with (S idx + j)%nat by lia. repeat split; assumption.
Qed.

Lemma proc_start_inv st t te st' : Inv st -> proc_start st t te = Ok st' -> Inv st'.
Proof.
  intros (H1 & H2 & H3). unfold Sim.proc_start.
  destruct (nth_error (trials st) t) as [tr|]; [|discriminate].
  set (p := match fixed_seed S_ with
            | Some s => (s, st)
            | None => match lookup t (seeds st) with
                      | Some s => (s, st)
                      | None => (draw (length (runs st)), set_seeds st (seeds st ++ [(t, draw (length (runs st)))]))
                      end
            end).
  assert (Hp : heap (snd p) = heap st /\ nextres (snd p) = nextres st /\ runs (snd p) = runs st /\
               paused_at (snd p) = paused_at st /\
               (exists extra, seeds (snd p) = seeds st ++ extra /\
                              forall k, lookup k (seeds st) <> None -> lookup k (seeds st ++ extra) = lookup k (seeds st)) /\
               match fixed_seed S_ with Some s => fst p = s | None => lookup t (seeds (snd p)) = Some (fst p) end).
  { unfold p. destruct (fixed_seed S_) as [s|].
    - simpl. repeat split. exists []. rewrite app_nil_r. auto.
    - destruct (lookup t (seeds st)) as [s|] eqn:El; simpl.
      + repeat split; auto. exists []. rewrite app_nil_r. auto.
      + repeat split.
        * eexists. split; [reflexivity|]. intros k Hk. rewrite lookup_app. destruct (lookup k (seeds st)); congruence.
        * rewrite lookup_app, El. simpl. rewrite Nat.eqb_refl. reflexivity. }
  destruct p as [seed st1]. simpl in Hp. destruct Hp as (Ph & Pn & Pr & Pp & (extra & Ps & Pl) & Pseed).
  destruct (job_results S_ tbl (t_cfg tr) seed (lookup t (paused_at st1))) as [rs|e] eqn:Ej; [|discriminate].
  pose proof (push_results_fields rs st1 t (length (runs st1)) 0%nat te te) as Hf.
  pose proof (push_results_heap rs st1 t (length (runs st1)) 0%nat te te) as Hh.
  destruct (push_results S_ st1 t (length (runs st1)) 0 te te rs) as [st2 tf]. simpl in Hf, Hh.
  destruct Hf as (_ & Fn & _ & Fs & _ & Fr).
  intro H. injection H as <-. unfold Inv, Inv'. simpl.
  rewrite Fn, Fs, Fr, Pn, Pr, Ps.
  set (newrun := mkRun t te (t_cfg tr) seed (lookup t (paused_at st1)) rs).
  split; [|split].
  - intros h k i r Hin He. apply In_insert in Hin as [->|Hin]; [simpl in He; discriminate|].
    apply Hh in Hin as [Hin|(j & r' & Hj & He' & Ht & Htime)].
    + rewrite Ph in Hin. apply tagged_app. eapply H1; eauto.
    + rewrite He' in He. injection He as <- <- <-. simpl in Hj.
      exists newrun. rewrite Pr. repeat split.
      * rewrite nth_error_app2 by lia. rewrite Nat.sub_diag. reflexivity.
      * simpl. symmetry. exact Ht.
      * exact Hj.
      * exact Htime.
  - intros t' l k i r ts Hin Hl. apply tagged_app. eapply H2; eauto.
  - intros k run Hk.
    destruct (Nat.lt_ge_cases k (length (runs st))) as [Hlt|Hge].
    + rewrite nth_error_app1 in Hk by exact Hlt. destruct (H3 k run Hk) as [Hj Hs]. split; [exact Hj|].
      unfold seed_ok in *. destruct (fixed_seed S_); [exact Hs|]. rewrite Pl; [exact Hs|congruence].
    + rewrite nth_error_app2 in Hk by exact Hge. destruct (k - length (runs st))%nat as [|n] eqn:En; simpl in Hk.
      * injection Hk as <-. split; [exact Ej|]. unfold seed_ok. simpl.
        destruct (fixed_seed S_); [exact Pseed|]. rewrite <- Ps. exact Pseed.
      * destruct n; discriminate.
Qed.

Lemma proc_event_inv st rest h st' :
  Inv st -> heap st = h :: rest -> proc_event (set_heap st rest) h = Ok st' -> Inv st'.
Proof.
  intros HI Hh. assert (HI' : Inv (set_heap st rest)).
  { apply Inv_heap_sub; [exact HI|]. intros x Hx. rewrite Hh. right. exact Hx. }
  unfold Sim.proc_event. destruct (h_ev h) as [|s| |run idx r] eqn:Ev.
  - apply proc_start_inv. exact HI'.
  - unfold proc_complete. simpl. destruct (nth_error (trials st) (h_trial h)); [|discriminate].
    intro H. injection H as <-. exact HI'.
  - intro H. injection H as <-. unfold proc_stop.
    destruct HI' as (H1 & H2 & H3). split; [|split]; simpl; auto.
    intros x k i r Hx. apply filter_In in Hx as [Hx _]. apply H1. exact Hx.
  - unfold proc_result. simpl.
    assert (HI2 : Inv' rest (set_key (h_trial h) (match lookup (h_trial h) (nextres st) with Some l => l | None => [] end
                                                    ++ [(run, idx, r, h_time h)]) (nextres st)) (runs st) (seeds st)).
    { destruct HI' as (H1 & H2 & H3). simpl in *. split; [|split]; auto.
      intros t l k i r' ts Hin Hl. apply In_set_key in Hin as [[-> ->]|Hin]; [|eapply H2; eauto].
      apply in_app_or in Hl as [Hl|[Hl|[]]].
      - destruct (lookup (h_trial h) (nextres st)) as [l0|] eqn:El; [|contradiction].
        apply lookup_in in El. eapply H2; eauto.
      - injection Hl as <- <- <- <-. destruct HI as (G1 & _). apply (G1 h run idx r); [rewrite Hh; left; reflexivity|exact Ev]. }
    destruct (nth_error (trials st) (h_trial h)) as [tr|]; [|discriminate].
    destruct (t_isres tr); intro H; injection H as <-; exact HI2.
Qed.

Lemma process_inv fuel : forall st st', Inv st -> process fuel st = Ok st' -> Inv st'.
Proof.
  induction fuel as [|f IH]; intros st st' HI H; simpl in H; [discriminate|].
  destruct (heap st) as [|h rest] eqn:Hh.
  - injection H as <-. exact HI.
  - destruct (Qleb (h_time h) (clock st)).
    + destruct (proc_event (set_heap st rest) h) as [st1|e] eqn:E; [|discriminate].
      eapply IH; [|exact H]. eapply proc_event_inv; eauto.
    + injection H as <-. exact HI.
Qed.

Lemma advance_inv st d st' : Inv st -> advance st d = Ok st' -> Inv st'.
Proof. intros HI H. apply advance_ok in H as (_ & _ & ->). exact HI. Qed.

Lemma schedule_inv st t dt st' : Inv st -> schedule st t dt = Ok st' -> Inv st'.
Proof.
  unfold Sim.schedule, bind. intro HI. destruct (advance st dt) as [st1|] eqn:E1; [|discriminate].
  destruct (process_now st1) as [st2|] eqn:E2; [|discriminate].
  intro H. injection H as <-. apply Inv_push; [|discriminate].
  eapply process_inv; [|exact E2]. eapply advance_inv; eauto.
Qed.

Lemma stop_or_pause_inv st t s dt st' : Inv st -> stop_or_pause st t s dt = Ok st' -> Inv st'.
Proof.
  unfold Sim.stop_or_pause, bind. intro HI. destruct (advance st dt) as [st1|] eqn:E1; [|discriminate].
  match goal with |- match process_now ?x with _ => _ end = _ -> _ => set (st2 := x) end.
  assert (H2 : Inv st2).
  { unfold st2, advance_to. apply (Inv_push st1 t EvStop); [eapply advance_inv; eauto|discriminate]. }
  destruct (process_now st2) as [st3|] eqn:E3; [|discriminate].
  match goal with |- match process_now ?x with _ => _ end = _ -> _ => set (st4 := x) end.
  assert (H4 : Inv st4).
  { unfold st4, advance_to. apply (Inv_push st3 t (EvComplete s)); [eapply process_inv; eauto|discriminate]. }
  destruct (process_now st4) as [st5|] eqn:E5; [|discriminate].
  intro H. injection H as <-. apply (process_inv _ _ _ H4) in E5. destruct E5 as (G1 & G2 & G3).
  split; [|split]; simpl; auto. intros t' l k i r ts Hin. apply In_remove_key in Hin. eapply G2; eauto.
Qed.

Lemma Inv_set_status st t s : Inv st -> Inv (set_status st t s).
Proof. unfold set_status. destruct (nth_error (trials st) t); auto. Qed.
Lemma Inv_set_config st t c : Inv st -> Inv (set_config st t c).
Proof. unfold set_config. destruct (nth_error (trials st) t); auto. Qed.

Lemma collect_in ids : forall nr acc t p,
  In (t, p) (fst (collect ids nr acc)) -> In (t, p) acc \/ exists l, In (t, l) nr /\ In p l.
Proof.
  induction ids as [|x ids IH]; intros nr acc t p H; simpl in H; [left; exact H|].
  destruct (lookup x nr) as [l|] eqn:El.
  - apply IH in H as [H|(l' & H1 & H2)].
    + apply in_app_or in H as [H|H]; [left; exact H|]. apply in_map_iff in H as (p' & Hp & Hin).
      injection Hp as <- <-. right. exists l. split; [apply lookup_in; exact El|exact Hin].
    + right. exists l'. split; [eapply In_remove_key; eauto|exact H2].
  - apply IH in H. exact H.
Qed.

(* a fetch hands out only results that name their run *)
Lemma step_inv st o st' out : Inv st -> step st o = Ok (st', out) ->
  Inv st' /\
  match out with
  | OutFetch rs _ => forall t k i r ts, In (t, (k, i, r, ts)) rs -> tagged st' t k i r ts
  | _ => True
  end.
Proof.
  intro HI. destruct o as [c dt|t newc dt|t lvl dt|t dt|ids dt| | |to]; cbn [Sim.step]; unfold bind.
  - destruct (Sim.schedule S_ tbl draw st (length (trials st)) dt) as [st1|] eqn:E; [|discriminate].
    intro H. injection H as <- <-. split; [|exact I]. eapply schedule_inv in E; eauto.
  - destruct (nth_error (trials st) t) as [tr|]; [|discriminate].
    destruct (t_status tr) as [[]|]; try discriminate.
    destruct (Sim.schedule S_ tbl draw _ t dt) as [st1|] eqn:E; [|discriminate].
    intro H. injection H as <- <-. split; [|exact I]. apply Inv_set_status.
    eapply schedule_inv; [|exact E]. destruct newc; [apply Inv_set_config|]; exact HI.
  - destruct (negb (Nat.ltb t (length (trials st)))); [discriminate|].
    destruct (Sim.stop_or_pause S_ tbl draw _ t Paused dt) as [st1|] eqn:E; [|discriminate].
    intro H. injection H as <- <-. split; [|exact I].
    apply stop_or_pause_inv in E; [|apply Inv_set_status; exact HI]. destruct lvl; exact E.
  - destruct (Sim.stop_or_pause S_ tbl draw st t Stopped dt) as [st1|] eqn:E; [|discriminate].
    intro H. injection H as <- <-. split; [|exact I]. eapply stop_or_pause_inv; eauto.
  - destruct (advance st dt) as [st1|] eqn:E1; [|discriminate].
    destruct (Sim.process_now S_ tbl draw st1) as [st2|] eqn:E2; [|discriminate].
    pose proof (collect_in ids (nextres st2) []) as Hc.
    destruct (collect ids (nextres st2) []) as [rs nr]. simpl in Hc.
    destruct (statuses (trials (set_nextres st2 [])) ids); [|discriminate].
    intro H. injection H as <- <-.
    assert (H2 : Inv st2). { eapply process_inv; [|exact E2]. eapply advance_inv; eauto. }
    destruct H2 as (G1 & G2 & G3). split.
    + split; [|split]; simpl; auto. intros t l k i r ts [].
    + intros t k i r ts Hin. apply Hc in Hin as [[]|(l & Hl & Hp)]. unfold tagged. simpl. eapply G2; eauto.
  - destruct (Sim.process_now S_ tbl draw st) as [st1|] eqn:E; [|discriminate].
    intro H. injection H as <- <-. split; [|exact I]. eapply process_inv; eauto.
  - destruct (advance st (sleep_time S_)) as [st1|] eqn:E; [|discriminate].
    intro H. injection H as <- <-. split; [|exact I]. eapply advance_inv; eauto.
  - intro H. injection H as <- <-. split; [exact HI|exact I].
Qed.

Lemma Inv_init : Inv init_state.
Proof.
  split; [|split]; simpl.
  - intros h k i r [].
  - intros t l k i r ts [].
  - intros k run H. destruct k; discriminate.
Qed.

(* states reachable by successful calls *)
Inductive reach (st0 : state) : state -> Prop :=
| reach_refl : reach st0 st0
| reach_step st o st' out : reach st0 st -> step st o = Ok (st', out) -> reach st0 st'.

Lemma reach_trans a b c : reach a b -> reach b c -> reach a c.
Proof. intros Hab Hbc. induction Hbc; [exact Hab|]. econstructor; eauto. Qed.

Lemma run_ops_reach : forall ops st pre st1 o1 rest,
  run_ops st ops = pre ++ Ok (st1, o1) :: rest ->
  exists st0 o, reach st st0 /\ step st0 o = Ok (st1, o1).
Proof.
  induction ops as [|o ops IH]; intros st pre st1 o1 rest H; simpl in H.
  - destruct pre; discriminate.
  - destruct (step st o) as [[s out]|e] eqn:E.
    + destruct pre as [|x pre]; simpl in H.
      * injection H as -> -> _. exists st, o. split; [constructor|exact E].
      * injection H as _ H. apply IH in H as (st0 & o' & Hr & Hs). exists st0, o'. split; [|exact Hs].
        eapply reach_trans; [|exact Hr]. econstructor; [constructor|exact E].
    + destruct pre as [|x pre]; simpl in H; [discriminate|]. injection H as _ H. destruct pre; discriminate.
Qed.

Lemma reach_inv st0 st : Inv st0 -> reach st0 st -> Inv st.
Proof. intros H0 Hr. induction Hr; [exact H0|]. eapply step_inv in IHHr; eauto. destruct IHHr; assumption. Qed.

(* ======================================================================== *)
(*  4. delivered results: values, levels, seed, time stamp                   *)
(* ======================================================================== *)
Lemma Forall2_nth {A B} (P : A -> B -> Prop) l l' : Forall2 P l l' ->
  forall i a, nth_error l i = Some a -> exists b, nth_error l' i = Some b /\ P a b.
Proof.
  induction 1 as [|x y l l' Hxy HF IH]; intros i a Hi; [destruct i; discriminate|].
  destruct i as [|i]; simpl in Hi.
  - injection Hi as <-. exists y. split; [reflexivity|exact Hxy].
  - apply IH in Hi. exact Hi.
Qed.

(* the facts a delivered result (t, run tag k, index i, result r, time stamp ts) satisfies *)
Definition delivered_ok (st : state) (t k i : nat) (r : result) (ts : Q) : Prop :=
  exists run,
    nth_error (runs st) k = Some run /\ run_trial run = t /\ nth_error (run_results run) i = Some r /\
    let c := run_cfg run in let s := run_seed run in let rl := resume_level (run_rp run) in
    (* values: the table row of that configuration and seed at the position of the level in fidelity_values *)
    (exists j rw, nth_error (fidelities S_) j = Some (res_level r) /\
                  nth_error (curve_of c s) j = Some rw /\ res_metrics r = r_metrics rw /\
                  lvl_in_range c (res_level r) = true /\ lvl_above rl (res_level r) = true) /\
    (* levels of the run: the fidelity values within max_resource above the resume level, none skipped *)
    map res_level (run_results run) =
      filter (lvl_above rl) (filter (lvl_in_range c) (firstn (length (curve_of c s)) (fidelities S_))) /\
    (* one seed per trial *)
    match fixed_seed S_ with Some s0 => s = s0 | None => lookup t (seeds st) = Some s end /\
    (* time stamp: start of that run + elapsed since the resume level (repaired) + delay *)
    ts == run_te run + res_elapsed r + d_result S_ /\
    repaired None (raw_job c s (run_rp run)) (run_results run) /\
    (spaced (eps S_) (raw_job c s (run_rp run)) ->
     exists j rw, nth_error (fidelities S_) j = Some (res_level r) /\ nth_error (curve_of c s) j = Some rw /\
                  res_elapsed r == r_elapsed rw - offset c s rl).

Lemma tagged_delivered st t k i r ts : Inv st -> tagged st t k i r ts -> delivered_ok st t k i r ts.
Proof.
  intros (_ & _ & H3) (run & Hk & Ht & Hi & Hts).
  destruct (H3 k run Hk) as [Hj Hs]. apply job_results_spec in Hj as [Hne Hrep].
  exists run. split; [exact Hk|]. split; [exact Ht|]. split; [exact Hi|]. cbv zeta.
  destruct (repaired_nth _ _ _ Hrep i r Hi) as (raw & Hraw & Hl & Hm & _).
  pose proof (raw_job_nth _ _ _ _ _ Hraw) as (j & rw & Hf & Hrw & Hmet & Hel & Hir & Hab).
  destruct (repaired_fields _ _ _ Hrep) as (Hlv & _ & Hlen).
  split; [|split; [|split; [|split; [|split]]]].
  - exists j, rw. rewrite Hl. split; [exact Hf|]. split; [exact Hrw|]. split; [congruence|]. split; [exact Hir|exact Hab].
  - rewrite Hlv. apply raw_job_levels.
  - unfold seed_ok in Hs. rewrite Ht in Hs. exact Hs.
  - exact Hts.
  - exact Hrep.
  - intro Hsp. exists j, rw. rewrite Hl. split; [exact Hf|]. split; [exact Hrw|].
    pose proof (repaired_faithful _ _ _ Hrep Hsp) as HF.
    destruct (Forall2_nth _ _ _ HF i r Hi) as (raw' & Hraw' & (_ & _ & He)).
    rewrite Hraw in Hraw'. injection Hraw' as <-. rewrite He, Hel. reflexivity.
Qed.

Lemma fetch_delivered ops pre st' rs sts post :
  run_ops init_state ops = pre ++ Ok (st', OutFetch rs sts) :: post ->
  forall t k i r ts, In (t, (k, i, r, ts)) rs -> delivered_ok st' t k i r ts.
Proof.
  intros H t k i r ts Hin. apply run_ops_reach in H as (st0 & o & Hr & Hs).
  pose proof (reach_inv _ _ Inv_init Hr) as HI.
  destruct (step_inv _ _ _ _ HI Hs) as [HI' Hd]. apply tagged_delivered; [exact HI'|]. apply Hd. exact Hin.
Qed.

(* the start time of a run: a start / resume call at simulated time c puts a start event at
   c + delay_start, and the run created when that event is processed starts at the event's time *)
Lemma schedule_start_event st t dt st' : schedule st t dt = Ok st' ->
  exists h, In h (heap st') /\ h_ev h = EvStart /\ h_trial h = t /\ h_time h == clock st' + d_start S_.
Proof.
  unfold Sim.schedule, bind. destruct (advance st dt) as [st1|]; [|discriminate].
  destruct (process_now st1) as [st2|]; [|discriminate].
  intro H. injection H as <-. eexists. split; [apply In_insert; left; reflexivity|].
  simpl. repeat split. apply qadd_eq.
Qed.

Lemma proc_start_run st t te st' : proc_start st t te = Ok st' ->
  exists run tr, runs st' = runs st ++ [run] /\ nth_error (trials st) t = Some tr /\
                 run_trial run = t /\ run_te run = te /\ run_cfg run = t_cfg tr /\
                 run_rp run = lookup t (paused_at st).
Proof.
  unfold Sim.proc_start. destruct (nth_error (trials st) t) as [tr|]; [|discriminate].
  set (p := match fixed_seed S_ with
            | Some s => (s, st)
            | None => match lookup t (seeds st) with
                      | Some s => (s, st)
                      | None => (draw (length (runs st)), set_seeds st (seeds st ++ [(t, draw (length (runs st)))]))
                      end
            end).
  assert (Hp : runs (snd p) = runs st /\ paused_at (snd p) = paused_at st).
  { unfold p. destruct (fixed_seed S_); [auto|]. destruct (lookup t (seeds st)); auto. }
  destruct p as [seed st1]. simpl in Hp. destruct Hp as [Pr Pp].
  destruct (job_results S_ tbl (t_cfg tr) seed (lookup t (paused_at st1))) as [rs|e]; [|discriminate].
  pose proof (push_results_fields rs st1 t (length (runs st1)) 0%nat te te) as Hf.
  destruct (push_results S_ st1 t (length (runs st1)) 0 te te rs) as [st2 tf]. simpl in Hf.
  destruct Hf as (_ & _ & _ & _ & _ & Fr).
  intro H. injection H as <-. simpl. rewrite Fr, Pr, Pp.
  eexists. exists tr. split; [reflexivity|]. repeat split.
Qed.

(* ======================================================================== *)
(*  5. the event heap as a sorted list                                       *)
(* ======================================================================== *)
(* Python tuple order on the keys (time, insertion counter) *)
Definition key_lt (a b : hentry) : Prop :=
  h_time a < h_time b \/ (h_time a == h_time b /\ (h_cnt a < h_cnt b)%nat).

Lemma key_ltb_lt a b : key_ltb a b = true <-> key_lt a b.
Proof.
  unfold key_ltb, key_lt. rewrite orb_true_iff, andb_true_iff, Qltb_lt, Nat.ltb_lt.
  unfold Qeqb. rewrite Qeq_bool_iff. reflexivity.
Qed.

Lemma key_lt_trans a b c : key_lt a b -> key_lt b c -> key_lt a c.
Proof.
  unfold key_lt. intros [H1|[H1 H1']] [H2|[H2 H2']].
  - left. lra.
  - left. lra.
  - left. lra.
  - right. split; [lra|lia].
Qed.
Lemma key_lt_irrefl a : ~ key_lt a a.
Proof. unfold key_lt. intros [H|[_ H]]; [lra|lia]. Qed.
Lemma key_lt_total a b : h_cnt a <> h_cnt b -> key_lt a b \/ key_lt b a.
Proof.
  intro Hc. unfold key_lt. destruct (Q_dec (h_time a) (h_time b)) as [[H|H]|H].
  - left. left. exact H.
  - right. left. exact H.
  - destruct (Nat.lt_ge_cases (h_cnt a) (h_cnt b)) as [Hl|Hl].
    + left. right. split; [exact H|exact Hl].
    + right. right. split; [symmetry; exact H|lia].
Qed.

Definition hsorted (l : list hentry) : Prop := StronglySorted key_lt l.

Lemma insert_perm x l : Permutation (insert x l) (x :: l).
Proof.
  induction l as [|y l IH]; simpl; [reflexivity|]. destruct (key_ltb x y); [reflexivity|].
  rewrite IH. apply perm_swap.
Qed.

Lemma insert_sorted x l : hsorted l -> (forall y, In y l -> h_cnt y <> h_cnt x) -> hsorted (insert x l).
Proof.
  unfold hsorted. induction l as [|y l IH]; intros Hs Hc; simpl.
  - constructor; constructor.
  - inversion Hs as [|y' l' Hs' Hall]; subst. destruct (key_ltb x y) eqn:E.
    + apply key_ltb_lt in E. constructor; [exact Hs|]. constructor; [exact E|].
      eapply Forall_impl; [|exact Hall]. intros z Hz. eapply key_lt_trans; eauto.
    + assert (Hyx : key_lt y x).
      { destruct (key_lt_total y x) as [H|H]; [apply Hc; left; reflexivity|exact H|].
        apply key_ltb_lt in H. congruence. }
      constructor.
      * apply IH; [exact Hs'|]. intros z Hz. apply Hc. right. exact Hz.
      * apply Forall_forall. intros z Hz. apply In_insert in Hz as [->|Hz]; [exact Hyx|].
        rewrite Forall_forall in Hall. apply Hall. exact Hz.
Qed.

Lemma filter_sorted f l : hsorted l -> hsorted (filter f l).
Proof.
  unfold hsorted. induction 1 as [|y l Hs IH Hall]; simpl; [constructor|].
  destruct (f y); [|exact IH]. constructor; [exact IH|].
  apply Forall_forall. intros z Hz. apply filter_In in Hz as [Hz _].
  rewrite Forall_forall in Hall. apply Hall. exact Hz.
Qed.

(* the head of the list is the event every priority queue must pop next *)
Lemma sorted_head_min h rest : hsorted (h :: rest) -> forall y, In y rest -> key_lt h y.
Proof. intros Hs y Hy. inversion Hs as [|a b Hs' Hall]; subst. rewrite Forall_forall in Hall. apply Hall. exact Hy. Qed.

(* the key order is strict and total on distinct counters, so a set of events has exactly one
   sorted arrangement: whatever order heapq pops them in, it is the order of this list *)
Lemma sorted_unique l1 : forall l2, hsorted l1 -> hsorted l2 -> Permutation l1 l2 -> l1 = l2.
Proof.
  unfold hsorted. induction l1 as [|a l1 IH]; intros l2 H1 H2 HP.
  - apply Permutation_nil in HP. subst. reflexivity.
  - destruct l2 as [|b l2]; [apply Permutation_sym, Permutation_nil in HP; discriminate|].
    inversion H1 as [|a' l1' H1' Hall1]; subst. inversion H2 as [|b' l2' H2' Hall2]; subst.
    rewrite Forall_forall in Hall1, Hall2.
    assert (Hab : a = b).
    { assert (Ha : In a (b :: l2)) by (eapply Permutation_in; [exact HP|left; reflexivity]).
      assert (Hb : In b (a :: l1)) by (eapply Permutation_in; [apply Permutation_sym; exact HP|left; reflexivity]).
      destruct Ha as [Ha|Ha]; [congruence|]. destruct Hb as [Hb|Hb]; [exact Hb|].
      exfalso. apply (key_lt_irrefl a). eapply key_lt_trans; [apply Hall1; exact Hb | apply Hall2; exact Ha]. }
    subst b. f_equal. apply IH; [exact H1'|exact H2'|]. eapply Permutation_cons_inv. exact HP.
Qed.

(* invariant of every reachable state: the heap is sorted by (time, insertion counter) and all
   counters in it are below events_added *)
Definition HInv (st : state) : Prop :=
  hsorted (heap st) /\ forall h, In h (heap st) -> (h_cnt h < added st)%nat.

Lemma HInv_push st t ev time : HInv st -> HInv (push st t ev time).
Proof.
  intros [Hs Hc]. split; simpl.
  - apply insert_sorted; [exact Hs|]. intros y Hy. apply Hc in Hy. simpl. lia.
  - intros h Hh. apply In_insert in Hh as [->|Hh]; [simpl; lia|]. apply Hc in Hh. lia.
Qed.

Lemma HInv_push_results rs : forall st t run idx te tf,
  HInv st -> HInv (fst (push_results S_ st t run idx te tf rs)).
Proof.
  induction rs as [|r rs IH]; intros; simpl; [assumption|]. apply IH. apply HInv_push. assumption.
Qed.

Lemma HInv_same st st' : heap st' = heap st -> added st' = added st -> HInv st -> HInv st'.
Proof. unfold HInv. intros -> ->. auto. Qed.

Lemma proc_start_hinv st t te st' : HInv st -> proc_start st t te = Ok st' -> HInv st'.
Proof.
  intro HI. unfold Sim.proc_start. destruct (nth_error (trials st) t) as [tr|]; [|discriminate].
  set (p := match fixed_seed S_ with
            | Some s => (s, st)
            | None => match lookup t (seeds st) with
                      | Some s => (s, st)
                      | None => (draw (length (runs st)), set_seeds st (seeds st ++ [(t, draw (length (runs st)))]))
                      end
            end).
  assert (Hp : HInv (snd p)).
  { unfold p. destruct (fixed_seed S_); [exact HI|]. destruct (lookup t (seeds st)); exact HI. }
  destruct p as [seed st1]. simpl in Hp.
  destruct (job_results S_ tbl (t_cfg tr) seed (lookup t (paused_at st1))) as [rs|e]; [|discriminate].
  pose proof (HInv_push_results rs st1 t (length (runs st1)) 0%nat te te Hp) as H2.
  destruct (push_results S_ st1 t (length (runs st1)) 0 te te rs) as [st2 tf]. simpl in H2.
  intro H. injection H as <-.
  apply (HInv_push st2 t (EvComplete Completed) (qadd tf (d_complete S_))) in H2. exact H2.
Qed.

Lemma proc_event_hinv st rest h st' :
  HInv st -> heap st = h :: rest -> proc_event (set_heap st rest) h = Ok st' -> HInv st'.
Proof.
  intros [Hs Hc] Hh. assert (HI' : HInv (set_heap st rest)).
  { rewrite Hh in Hs, Hc. split; simpl.
    - inversion Hs; assumption.
    - intros x Hx. apply Hc. right. exact Hx. }
  unfold Sim.proc_event. destruct (h_ev h) as [|s| |run idx r].
  - apply proc_start_hinv. exact HI'.
  - unfold proc_complete. simpl. destruct (nth_error (trials st) (h_trial h)); [|discriminate].
    intro H. injection H as <-. exact HI'.
  - intro H. injection H as <-. destruct HI' as [Hs' Hc']. split; simpl.
    + apply filter_sorted. exact Hs'.
    + intros x Hx. apply filter_In in Hx as [Hx _]. apply Hc'. exact Hx.
  - unfold proc_result. simpl. destruct (nth_error (trials st) (h_trial h)) as [tr|]; [|discriminate].
    destruct (t_isres tr); intro H; injection H as <-; exact HI'.
Qed.

Lemma process_hinv fuel : forall st st', HInv st -> process fuel st = Ok st' -> HInv st'.
Proof.
  induction fuel as [|f IH]; intros st st' HI H; simpl in H; [discriminate|].
  destruct (heap st) as [|h rest] eqn:Hh.
  - injection H as <-. exact HI.
  - destruct (Qleb (h_time h) (clock st)).
    + destruct (proc_event (set_heap st rest) h) as [st1|e] eqn:E; [|discriminate].
      eapply IH; [|exact H]. eapply proc_event_hinv; eauto.
    + injection H as <-. exact HI.
Qed.

Lemma advance_hinv st d st' : HInv st -> advance st d = Ok st' -> HInv st'.
Proof. intros HI H. apply advance_ok in H as (_ & _ & ->). exact HI. Qed.

Lemma schedule_hinv st t dt st' : HInv st -> schedule st t dt = Ok st' -> HInv st'.
Proof.
  unfold Sim.schedule, bind. intro HI. destruct (advance st dt) as [st1|] eqn:E1; [|discriminate].
  destruct (process_now st1) as [st2|] eqn:E2; [|discriminate].
  intro H. injection H as <-. apply HInv_push. eapply process_hinv; [|exact E2]. eapply advance_hinv; eauto.
Qed.

Lemma stop_or_pause_hinv st t s dt st' : HInv st -> stop_or_pause st t s dt = Ok st' -> HInv st'.
Proof.
  unfold Sim.stop_or_pause, bind. intro HI. destruct (advance st dt) as [st1|] eqn:E1; [|discriminate].
  match goal with |- match process_now ?x with _ => _ end = _ -> _ => set (st2 := x) end.
  assert (H2 : HInv st2).
  { unfold st2, advance_to. apply (HInv_push st1 t EvStop). eapply advance_hinv; eauto. }
  destruct (process_now st2) as [st3|] eqn:E3; [|discriminate].
  match goal with |- match process_now ?x with _ => _ end = _ -> _ => set (st4 := x) end.
  assert (H4 : HInv st4).
  { unfold st4, advance_to. apply (HInv_push st3 t (EvComplete s)). eapply process_hinv; eauto. }
  destruct (process_now st4) as [st5|] eqn:E5; [|discriminate].
  intro H. injection H as <-. apply (process_hinv _ _ _ H4) in E5. exact E5.
Qed.

Lemma HInv_set_status st t s : HInv st -> HInv (set_status st t s).
Proof. unfold set_status. destruct (nth_error (trials st) t); auto. Qed.
Lemma HInv_set_config st t c : HInv st -> HInv (set_config st t c).
Proof. unfold set_config. destruct (nth_error (trials st) t); auto. Qed.

Lemma step_hinv st o st' out : HInv st -> step st o = Ok (st', out) -> HInv st'.
Proof.
  intro HI. destruct o as [c dt|t newc dt|t lvl dt|t dt|ids dt| | |to]; cbn [Sim.step]; unfold bind.
  - destruct (Sim.schedule S_ tbl draw st (length (trials st)) dt) as [st1|] eqn:E; [|discriminate].
    intro H. injection H as <- _. eapply schedule_hinv in E; eauto.
  - destruct (nth_error (trials st) t) as [tr|]; [|discriminate].
    destruct (t_status tr) as [[]|]; try discriminate.
    destruct (Sim.schedule S_ tbl draw _ t dt) as [st1|] eqn:E; [|discriminate].
    intro H. injection H as <- _. apply HInv_set_status.
    eapply schedule_hinv; [|exact E]. destruct newc; [apply HInv_set_config|]; exact HI.
  - destruct (negb (Nat.ltb t (length (trials st)))); [discriminate|].
    destruct (Sim.stop_or_pause S_ tbl draw _ t Paused dt) as [st1|] eqn:E; [|discriminate].
    intro H. injection H as <- _.
    apply stop_or_pause_hinv in E; [|apply HInv_set_status; exact HI]. destruct lvl; exact E.
  - destruct (Sim.stop_or_pause S_ tbl draw st t Stopped dt) as [st1|] eqn:E; [|discriminate].
    intro H. injection H as <- _. eapply stop_or_pause_hinv; eauto.
  - destruct (advance st dt) as [st1|] eqn:E1; [|discriminate].
    destruct (Sim.process_now S_ tbl draw st1) as [st2|] eqn:E2; [|discriminate].
    destruct (collect ids (nextres st2) []) as [rs nr].
    destruct (statuses (trials (set_nextres st2 [])) ids); [|discriminate].
    intro H. injection H as <- _.
    assert (H2 : HInv st2). { eapply process_hinv; [|exact E2]. eapply advance_hinv; eauto. }
    exact H2.
  - destruct (Sim.process_now S_ tbl draw st) as [st1|] eqn:E; [|discriminate].
    intro H. injection H as <- _. eapply process_hinv; eauto.
  - destruct (advance st (sleep_time S_)) as [st1|] eqn:E; [|discriminate].
    intro H. injection H as <- _. eapply advance_hinv; eauto.
  - intro H. injection H as <- _. exact HI.
Qed.

Lemma HInv_init : HInv init_state.
Proof. split; simpl; [constructor|intros h []]. Qed.

Lemma reach_hinv st0 st : HInv st0 -> reach st0 st -> HInv st.
Proof. intros H0 Hr. induction Hr; [exact H0|]. eapply step_hinv; eauto. Qed.

(* every state a call sequence passes through (after each successful call) *)
Lemma run_ops_state_reach ops st pre st1 o1 rest :
  run_ops st ops = pre ++ Ok (st1, o1) :: rest -> reach st st1.
Proof.
  intro H. apply run_ops_reach in H as (st0 & o & Hr & Hs). econstructor; eauto.
Qed.

(* ======================================================================== *)
(*  6. the fuel of the event loop always suffices                            *)
(* ======================================================================== *)
Notation mu := (mu tbl).
Notation weight := (weight tbl).
Notation max_curve := (max_curve tbl).

Lemma mu_insert x l : mu (insert x l) = (weight x + mu l)%nat.
Proof.
  induction l as [|y l IH]; simpl; [reflexivity|]. destruct (key_ltb x y); simpl; [reflexivity|].
  rewrite IH. lia.
Qed.
Lemma mu_filter f l : (mu (filter f l) <= mu l)%nat.
Proof. induction l as [|y l IH]; simpl; [lia|]. destruct (f y); simpl; lia. Qed.

Lemma mu_push_results rs : forall st t run idx te tf,
  mu (heap (fst (push_results S_ st t run idx te tf rs))) = (mu (heap st) + length rs)%nat.
Proof.
  induction rs as [|r rs IH]; intros; simpl; [lia|]. rewrite IH. simpl. rewrite mu_insert. simpl. lia.
Qed.

Lemma inner_fold_ge per_seed : forall m,
  (m <= fold_right (fun (cv : curve) m' => Nat.max (length cv) m') m per_seed)%nat /\
  forall cv, In cv per_seed -> (length cv <= fold_right (fun (cv : curve) m' => Nat.max (length cv) m') m per_seed)%nat.
Proof.
  induction per_seed as [|x l IH]; intro m; simpl; [split; [lia|intros cv []]|].
  destruct (IH m) as [H1 H2]. split; [lia|]. intros cv [<-|Hin]; [lia|]. apply H2 in Hin. lia.
Qed.

Lemma max_curve_ge_gen (tb : table) per_seed cv :
  In per_seed tb -> In cv per_seed -> (length cv <= Sim.max_curve tb)%nat.
Proof.
  unfold Sim.max_curve. induction tb as [|x l IH]; intros H1 H2; [contradiction|]. simpl.
  destruct H1 as [->|H1].
  - apply (proj2 (inner_fold_ge per_seed _)). exact H2.
  - eapply Nat.le_trans; [apply IH; assumption|]. apply (proj1 (inner_fold_ge x _)).
Qed.
Lemma max_curve_ge per_seed cv : In per_seed tbl -> In cv per_seed -> (length cv <= max_curve)%nat.
Proof. apply max_curve_ge_gen. Qed.

Lemma curve_of_le c seed : (length (curve_of c seed) <= max_curve)%nat.
Proof.
  unfold curve_of. destruct (nth_in_or_default (c_idx c) tbl []) as [H1|H1].
  - destruct (nth_in_or_default seed (nth (c_idx c) tbl []) []) as [H2|H2].
    + eapply max_curve_ge; eauto.
    + rewrite H2. simpl. lia.
  - rewrite H1. destruct seed; simpl; lia.
Qed.

Lemma filter_length_le' {A} (f : A -> bool) l : (length (filter f l) <= length l)%nat.
Proof. induction l as [|x l IH]; simpl; [lia|]. destruct (f x); simpl; lia. Qed.

Lemma job_results_length c seed rp rs : job_results S_ tbl c seed rp = Ok rs -> (length rs <= max_curve)%nat.
Proof.
  intro H. apply job_results_spec in H as [_ H]. apply repaired_fields in H as (_ & _ & ->).
  unfold raw_job, table_results. rewrite map_length.
  pose proof (filter_length_le' (above (resume_level rp)) (filter (in_range c) (with_levels (fidelities S_) (curve_of c seed)))).
  pose proof (filter_length_le' (in_range c) (with_levels (fidelities S_) (curve_of c seed))).
  pose proof (with_levels_length (curve_of c seed) (fidelities S_)).
  pose proof (curve_of_le c seed). lia.
Qed.

Lemma job_results_no_fuel c seed rp : job_results S_ tbl c seed rp <> Err EFuel.
Proof.
  unfold job_results, all_results.
  destruct (match c_maxres c with Some m => Nat.ltb m (fid_min S_) | None => false end); [discriminate|].
  destruct (negb (Nat.ltb seed (num_seeds tbl))); [discriminate|].
  destruct (nth_error tbl (c_idx c)); [|discriminate].
  destruct (nth_error l seed); [|discriminate].
  unfold repair. destruct (resume_filter S_ rp _); discriminate.
Qed.

Lemma proc_event_mu st rest h :
  match proc_event (set_heap st rest) h with
  | Ok st' => (mu (heap st') < weight h + mu rest)%nat
  | Err e => e <> EFuel
  end.
Proof.
  unfold Sim.proc_event, Sim.weight. destruct (h_ev h) as [|s| |run idx r].
  - unfold Sim.proc_start. simpl trials. destruct (nth_error (trials st) (h_trial h)) as [tr|]; [|discriminate].
    set (p := match fixed_seed S_ with
              | Some s => (s, set_heap st rest)
              | None => match lookup (h_trial h) (seeds (set_heap st rest)) with
                        | Some s => (s, set_heap st rest)
                        | None => (draw (length (runs (set_heap st rest))),
                                   set_seeds (set_heap st rest) (seeds (set_heap st rest) ++ [(h_trial h, draw (length (runs (set_heap st rest))))]))
                        end
              end).
    assert (Hp : heap (snd p) = rest).
    { unfold p. destruct (fixed_seed S_); [reflexivity|]. destruct (lookup _ _); reflexivity. }
    destruct p as [seed st1]. simpl in Hp.
    destruct (job_results S_ tbl (t_cfg tr) seed (lookup (h_trial h) (paused_at st1))) as [rs|e] eqn:Ej.
    + pose proof (mu_push_results rs st1 (h_trial h) (length (runs st1)) 0%nat (h_time h) (h_time h)) as Hm.
      destruct (push_results S_ st1 (h_trial h) (length (runs st1)) 0 (h_time h) (h_time h) rs) as [st2 tf].
      simpl in Hm. simpl. rewrite mu_insert, Hm, Hp. simpl. apply job_results_length in Ej. lia.
    + intro E. subst e. eapply job_results_no_fuel; eauto.
  - unfold proc_complete. simpl. destruct (nth_error (trials st) (h_trial h)); [simpl; lia|discriminate].
  - simpl. pose proof (mu_filter (fun e => negb (Nat.eqb (h_trial e) (h_trial h))) rest).
    unfold remove_events. lia.
  - unfold proc_result. simpl. destruct (nth_error (trials st) (h_trial h)) as [tr|]; [|discriminate].
    destruct (t_isres tr); simpl; lia.
Qed.

Lemma process_enough fuel : forall st, (mu (heap st) < fuel)%nat -> process fuel st <> Err EFuel.
Proof.
  induction fuel as [|f IH]; intros st Hlt; [lia|]. simpl.
  destruct (heap st) as [|h rest] eqn:Hh; [discriminate|].
  destruct (Qleb (h_time h) (clock st)); [|discriminate].
  pose proof (proc_event_mu st rest h) as Hm.
  destruct (proc_event (set_heap st rest) h) as [st1|e].
  - apply IH. simpl in Hlt. lia.
  - intro E. injection E as ->. apply Hm. reflexivity.
Qed.

Lemma process_now_enough st : process_now st <> Err EFuel.
Proof. apply process_enough. lia. Qed.

(* ======================================================================== *)
(*  7. the event loop pops the reports of a job run in order                 *)
(* ======================================================================== *)
Section InOrder.
Hypothesis eps_nonneg : 0 <= eps S_.

Definition is_res (h : hentry) (k i : nat) : Prop := exists r, h_ev h = EvResult k i r.

(* queued reports of one run: a smaller index has a smaller key; an index occurs once *)
Definition Ord (hp : list hentry) : Prop :=
  forall h1 h2 k i1 i2, In h1 hp -> In h2 hp -> is_res h1 k i1 -> is_res h2 k i2 ->
    ((i1 < i2)%nat -> key_lt h1 h2) /\ (i1 = i2 -> h1 = h2).

Lemma Ord_sub hp hp' : Ord hp -> (forall h, In h hp' -> In h hp) -> Ord hp'.
Proof. intros H Hs h1 h2 k i1 i2 A B. apply H; apply Hs; assumption. Qed.

Lemma Ord_insert_other x hp : Ord hp -> (forall k i, ~ is_res x k i) -> Ord (insert x hp).
Proof.
  intros H Hx h1 h2 k i1 i2 A B C D.
  apply In_insert in A as [->|A]; [exfalso; eapply Hx; eauto|].
  apply In_insert in B as [->|B]; [exfalso; eapply Hx; eauto|].
  eapply H; eauto.
Qed.

Lemma repaired_le prev l l' : repaired prev l l' ->
  forall j1 j2 a b, (j1 <= j2)%nat -> nth_error l' j1 = Some a -> nth_error l' j2 = Some b ->
    res_elapsed a <= res_elapsed b.
Proof.
  intros HR j1 j2. revert j1. induction j2 as [|j2 IH]; intros j1 a b Hle Ha Hb.
  - assert (j1 = 0%nat) by lia. subst. rewrite Ha in Hb. injection Hb as <-. lra.
  - destruct (Nat.eq_dec j1 (S j2)) as [->|Hne].
    + rewrite Ha in Hb. injection Hb as <-. lra.
    + assert (Hc : exists c, nth_error l' j2 = Some c).
      { destruct (nth_error l' j2) as [c|] eqn:E; [eauto|].
        apply nth_error_None in E. assert (nth_error l' (S j2) = None) by (apply nth_error_None; lia). congruence. }
      destruct Hc as [c Hc]. pose proof (IH j1 a c ltac:(lia) Ha Hc).
      pose proof (repaired_step _ _ _ HR j2 c b Hc Hb). lra.
Qed.

(* exact shape of the entries pushed by the loop of _process_start_event *)
Lemma push_results_entries rs : forall st t run idx te tf h,
  In h (heap (fst (push_results S_ st t run idx te tf rs))) ->
  In h (heap st) \/
  exists j r, nth_error rs j = Some r /\
              h = mkH (qadd (qadd te (res_elapsed r)) (d_result S_)) (added st + j) t (EvResult run (idx + j) r).
Proof.
  induction rs as [|r rs IH]; intros st t run idx te tf h H; simpl in H; [left; exact H|].
  apply IH in H as [H|(j & r' & Hj & ->)].
  - simpl in H. apply In_insert in H as [->|H]; [|left; exact H].
    right. exists 0%nat, r. simpl. rewrite !Nat.add_0_r. split; reflexivity.
  - right. exists (S j), r'. simpl. split; [exact Hj|]. f_equal; [lia|]. f_equal. lia.
Qed.

Lemma proc_start_ord st t te st' :
  Inv st -> Ord (heap st) -> proc_start st t te = Ok st' -> Ord (heap st').
Proof.
  intros (H1 & _ & _) HO. unfold Sim.proc_start.
  destruct (nth_error (trials st) t) as [tr|]; [|discriminate].
  set (p := match fixed_seed S_ with
            | Some s => (s, st)
            | None => match lookup t (seeds st) with
                      | Some s => (s, st)
                      | None => (draw (length (runs st)), set_seeds st (seeds st ++ [(t, draw (length (runs st)))]))
                      end
            end).
  assert (Hp : heap (snd p) = heap st /\ runs (snd p) = runs st).
  { unfold p. destruct (fixed_seed S_); [auto|]. destruct (lookup t (seeds st)); auto. }
  destruct p as [seed st1]. simpl in Hp. destruct Hp as [Ph Pr].
  destruct (job_results S_ tbl (t_cfg tr) seed (lookup t (paused_at st1))) as [rs|e] eqn:Ej; [|discriminate].
  apply job_results_spec in Ej as [_ Hrep].
  pose proof (push_results_entries rs st1 t (length (runs st1)) 0%nat te te) as Hh.
  destruct (push_results S_ st1 t (length (runs st1)) 0 te te rs) as [st2 tf]. simpl in Hh.
  intro H. injection H as <-. simpl.
  apply Ord_insert_other; [|intros k i [r Hr]; simpl in Hr; discriminate].
  (* tags of old entries are below the new run tag *)
  assert (Hold : forall h k i, In h (heap st) -> is_res h k i -> (k < length (runs st))%nat).
  { intros h k i Hin [r Hr]. destruct (H1 h k i r Hin Hr) as (run & Hk & _). apply nth_error_Some. congruence. }
  intros h1 h2 k i1 i2 A B C D.
  apply Hh in A. apply Hh in B. rewrite Ph in A, B. rewrite Pr in A, B.
  destruct A as [A|(j1 & r1 & Hj1 & ->)]; destruct B as [B|(j2 & r2 & Hj2 & ->)].
  - eapply HO; eauto.
  - exfalso. destruct D as [r D]. simpl in D. injection D as <- _ _. pose proof (Hold _ _ _ A C). lia.
  - exfalso. destruct C as [r C]. simpl in C. injection C as <- _ _. pose proof (Hold _ _ _ B D). lia.
  - destruct C as [r C]. destruct D as [r' D]. simpl in C, D. injection C as _ <- _. injection D as _ <- _.
    simpl. split.
    + intro Hlt. assert (Hjj : (j1 < j2)%nat) by lia.
      pose proof (repaired_le _ _ _ Hrep j1 j2 r1 r2 ltac:(lia) Hj1 Hj2) as Hle.
      unfold key_lt. simpl. rewrite !qadd_eq.
      destruct (Qlt_le_dec (res_elapsed r1) (res_elapsed r2)) as [Hl|Hg].
      * left. lra.
      * right. split; [|lia]. assert (res_elapsed r1 == res_elapsed r2) by lra. lra.
    + intro Heq. assert (j1 = j2) by lia. subst j2. rewrite Hj1 in Hj2. injection Hj2 as <-. reflexivity.
Qed.

Lemma proc_event_ord st rest h st' :
  Inv st -> Ord (heap st) -> heap st = h :: rest -> proc_event (set_heap st rest) h = Ok st' -> Ord (heap st').
Proof.
  intros HI HO Hh.
  assert (HO' : Ord rest). { eapply Ord_sub; [exact HO|]. intros x Hx. rewrite Hh. right. exact Hx. }
  assert (HI' : Inv (set_heap st rest)).
  { apply Inv_heap_sub; [exact HI|]. intros x Hx. rewrite Hh. right. exact Hx. }
  unfold Sim.proc_event. destruct (h_ev h) as [|s| |run idx r].
  - apply proc_start_ord; [exact HI'|exact HO'].
  - unfold proc_complete. simpl. destruct (nth_error (trials st) (h_trial h)); [|discriminate].
    intro H. injection H as <-. exact HO'.
  - intro H. injection H as <-. simpl. eapply Ord_sub; [exact HO'|].
    intros x Hx. apply filter_In in Hx as [Hx _]. exact Hx.
  - unfold proc_result. simpl. destruct (nth_error (trials st) (h_trial h)) as [tr|]; [|discriminate].
    destruct (t_isres tr); intro H; injection H as <-; exact HO'.
Qed.

Definition IO (st : state) : Prop := Inv st /\ Ord (heap st).

Lemma process_io fuel : forall st st', IO st -> process fuel st = Ok st' -> IO st'.
Proof.
  induction fuel as [|f IH]; intros st st' HIO H; simpl in H; [discriminate|].
  destruct (heap st) as [|h rest] eqn:Hh.
  - injection H as <-. exact HIO.
  - destruct (Qleb (h_time h) (clock st)).
    + destruct (proc_event (set_heap st rest) h) as [st1|e] eqn:E; [|discriminate].
      destruct HIO as [HI HO].
      eapply IH; [|exact H]. split; [eapply proc_event_inv; eauto | eapply proc_event_ord; eauto].
    + injection H as <-. exact HIO.
Qed.

Lemma IO_push st t ev time : IO st -> (forall k i r, ev <> EvResult k i r) -> IO (push st t ev time).
Proof.
  intros [HI HO] Hev. split; [apply Inv_push; assumption|]. simpl.
  apply Ord_insert_other; [exact HO|]. intros k i [r Hr]. simpl in Hr. eapply Hev; eauto.
Qed.

Lemma IO_fields st st' : IO st -> heap st' = heap st -> nextres st' = nextres st ->
  runs st' = runs st -> seeds st' = seeds st -> IO st'.
Proof. unfold IO, Inv. intros [HI HO] -> -> -> ->. split; assumption. Qed.

Lemma step_io st o st' out : IO st -> step st o = Ok (st', out) -> IO st'.
Proof.
  intros HIO Hs. destruct HIO as [HI HO].
  pose proof (step_inv _ _ _ _ HI Hs) as [HI' _]. split; [exact HI'|].
  revert Hs. destruct o as [c dt|t newc dt|t lvl dt|t dt|ids dt| | |to]; cbn [Sim.step]; unfold bind.
  - unfold Sim.schedule, bind. destruct (advance st dt) as [st1|] eqn:E1; [|discriminate].
    destruct (Sim.process_now S_ tbl draw st1) as [st2|] eqn:E2; [|discriminate].
    intro H. injection H as <- _. simpl.
    apply advance_ok in E1 as (_ & _ & ->).
    apply (process_io _ _ _ (conj HI HO : IO (set_clock st _))) in E2 as [_ HO2].
    apply Ord_insert_other; [exact HO2|]. intros k i [r Hr]. discriminate.
  - destruct (nth_error (trials st) t) as [tr|]; [|discriminate].
    destruct (t_status tr) as [[]|]; try discriminate.
    unfold Sim.schedule, bind.
    match goal with |- match match advance ?s0 dt with _ => _ end with _ => _ end = _ -> _ => set (st0 := s0) end.
    assert (H0 : IO st0).
    { unfold st0. destruct newc as [c|]; [|split; assumption].
      unfold set_config. destruct (nth_error (trials st) t); split; assumption. }
    destruct (advance st0 dt) as [st1|] eqn:E1; [|discriminate].
    destruct (Sim.process_now S_ tbl draw st1) as [st2|] eqn:E2; [|discriminate].
    intro H. injection H as <- _.
    apply advance_ok in E1 as (_ & _ & ->).
    apply (process_io _ _ _ (H0 : IO (set_clock st0 _))) in E2 as [_ HO2].
    unfold set_status. simpl.
    match goal with |- Ord (heap (match ?x with _ => _ end)) => destruct x end; simpl;
      (apply Ord_insert_other; [exact HO2|]; intros k i [r Hr]; discriminate).
  - destruct (negb (Nat.ltb t (length (trials st)))); [discriminate|].
    unfold Sim.stop_or_pause, bind.
    match goal with |- match match advance ?s0 dt with _ => _ end with _ => _ end = _ -> _ => set (st0 := s0) end.
    assert (H0 : IO st0).
    { unfold st0, set_status. destruct (nth_error (trials st) t); split; assumption. }
    destruct (advance st0 dt) as [st1|] eqn:E1; [|discriminate].
    apply advance_ok in E1 as (_ & _ & ->).
    match goal with |- match match Sim.process_now _ _ _ ?x with _ => _ end with _ => _ end = _ -> _ => set (st2 := x) end.
    assert (H2 : IO st2).
    { unfold st2, advance_to.
      match goal with |- IO (set_clock ?x _) => apply (IO_fields x); [|reflexivity..] end.
      apply IO_push; [exact H0|discriminate]. }
    destruct (Sim.process_now S_ tbl draw st2) as [st3|] eqn:E3; [|discriminate].
    apply (process_io _ _ _ H2) in E3.
    match goal with |- match match Sim.process_now _ _ _ ?x with _ => _ end with _ => _ end = _ -> _ => set (st4 := x) end.
    assert (H4 : IO st4).
    { unfold st4, advance_to.
      match goal with |- IO (set_clock ?x _) => apply (IO_fields x); [|reflexivity..] end.
      apply IO_push; [exact E3|discriminate]. }
    destruct (Sim.process_now S_ tbl draw st4) as [st5|] eqn:E5; [|discriminate].
    apply (process_io _ _ _ H4) in E5 as [_ HO5].
    intro H. injection H as <- _. destruct lvl; simpl; exact HO5.
  - unfold Sim.stop_or_pause, bind.
    destruct (advance st dt) as [st1|] eqn:E1; [|discriminate].
    apply advance_ok in E1 as (_ & _ & ->).
    match goal with |- match match Sim.process_now _ _ _ ?x with _ => _ end with _ => _ end = _ -> _ => set (st2 := x) end.
    assert (H2 : IO st2).
    { unfold st2, advance_to.
      match goal with |- IO (set_clock ?x _) => apply (IO_fields x); [|reflexivity..] end.
      apply IO_push; [split; assumption|discriminate]. }
    destruct (Sim.process_now S_ tbl draw st2) as [st3|] eqn:E3; [|discriminate].
    apply (process_io _ _ _ H2) in E3.
    match goal with |- match match Sim.process_now _ _ _ ?x with _ => _ end with _ => _ end = _ -> _ => set (st4 := x) end.
    assert (H4 : IO st4).
    { unfold st4, advance_to.
      match goal with |- IO (set_clock ?x _) => apply (IO_fields x); [|reflexivity..] end.
      apply IO_push; [exact E3|discriminate]. }
    destruct (Sim.process_now S_ tbl draw st4) as [st5|] eqn:E5; [|discriminate].
    apply (process_io _ _ _ H4) in E5 as [_ HO5].
    intro H. injection H as <- _. simpl. exact HO5.
  - destruct (advance st dt) as [st1|] eqn:E1; [|discriminate].
    apply advance_ok in E1 as (_ & _ & ->).
    destruct (Sim.process_now S_ tbl draw (set_clock st _)) as [st2|] eqn:E2; [|discriminate].
    apply (process_io _ _ _ (conj HI HO : IO (set_clock st _))) in E2 as [_ HO2].
    destruct (collect ids (nextres st2) []) as [rs nr].
    destruct (statuses (trials (set_nextres st2 [])) ids); [|discriminate].
    intro H. injection H as <- _. simpl. exact HO2.
  - destruct (Sim.process_now S_ tbl draw st) as [st1|] eqn:E; [|discriminate].
    apply (process_io _ _ _ (conj HI HO)) in E as [_ HO1].
    intro H. injection H as <- _. exact HO1.
  - destruct (advance st (sleep_time S_)) as [st1|] eqn:E; [|discriminate].
    apply advance_ok in E as (_ & _ & ->). intro H. injection H as <- _. exact HO.
  - intro H. injection H as <- _. exact HO.
Qed.

Lemma IO_init : IO init_state.
Proof. split; [exact Inv_init|]. intros h1 h2 k i1 i2 []. Qed.

Lemma reach_io st0 st : IO st0 -> reach st0 st -> IO st.
Proof. intros H0 Hr. induction Hr; [exact H0|]. eapply step_io; eauto. Qed.

(* the next event popped, if it is a report of run k with index i, is the report of run k with
   the smallest index still queued *)
Lemma pop_in_order st h rest : IO st -> HInv st -> heap st = h :: rest ->
  forall k i, is_res h k i -> forall h' i', In h' rest -> is_res h' k i' -> (i < i')%nat.
Proof.
  intros [_ HO] [Hs _] Hh k i Hr h' i' Hin Hr'.
  rewrite Hh in HO, Hs. pose proof (sorted_head_min h rest Hs h' Hin) as Hlt.
  destruct (Nat.lt_trichotomy i i') as [H|[H|H]]; [exact H| |].
  - exfalso. destruct (HO h h' k i i' (or_introl eq_refl) (or_intror Hin) Hr Hr') as [_ He].
    specialize (He H). subst h'. eapply key_lt_irrefl; eauto.
  - exfalso. destruct (HO h' h k i' i (or_intror Hin) (or_introl eq_refl) Hr' Hr) as [Hk _].
    specialize (Hk H). eapply key_lt_irrefl. eapply key_lt_trans; eauto.
Qed.
End InOrder.

End Proofs.
