(* SimProofs.v — lemmas about model/Sim.v (C10). *)
From Verif Require Import model.Base model.Sim.
From Coq Require Import Lqa Sorted Permutation.
Open Scope Q_scope.

(* ---- arithmetic helpers --------------------------------------------------- *)
Lemma qadd_eq a b : qadd a b == a + b.
Proof. unfold qadd. apply Qred_correct. Qed.
Lemma qsub_eq a b : qsub a b == a - b.
Proof. unfold qsub. apply Qred_correct. Qed.

Lemma Qltb_false a b : Qltb a b = false -> b <= a.
Proof.
  unfold Qltb. intro H. apply negb_false_iff in H. apply Qle_bool_iff in H. exact H.
Qed.

Lemma qmax_ge_l a b : a <= qmax a b.
Proof.
  unfold qmax. destruct (Qltb a b) eqn:E.
  - apply Qltb_lt in E. lra.
  - lra.
Qed.
Lemma qmax_ge_r a b : b <= qmax a b.
Proof.
  unfold qmax. destruct (Qltb a b) eqn:E.
  - lra.
  - apply Qltb_false in E. exact E.
Qed.
Lemma qmax_eq_l a b : b <= a -> qmax a b = a.
Proof.
  intro H. unfold qmax. destruct (Qltb a b) eqn:E; [|reflexivity].
  apply Qltb_lt in E. lra.
Qed.
Lemma qmax_eq_r a b : a <= b -> qmax a b == b.
Proof.
  intro H. unfold qmax. destruct (Qltb a b) eqn:E; [reflexivity|].
  apply Qltb_false in E. lra.
Qed.
Lemma qmax_cases a b : qmax a b = a \/ qmax a b = b.
Proof. unfold qmax. destruct (Qltb a b); auto. Qed.

Section Proofs.
Variable S_ : settings.
Variable tbl : table.
Variable draw : nat -> nat.

Notation step := (step S_ tbl draw).
Notation run_ops := (run_ops S_ tbl draw).
Notation process := (process S_ tbl draw).
Notation process_now := (process_now S_ tbl draw).
Notation proc_event := (proc_event S_ tbl draw).
Notation proc_start := (proc_start S_ tbl draw).
Notation schedule := (schedule S_ tbl draw).
Notation stop_or_pause := (stop_or_pause S_ tbl draw).

(* ======================================================================== *)
(*  1. the simulated clock                                                   *)
(* ======================================================================== *)
Lemma push_results_clock rs : forall st t run idx te tf,
  clock (fst (push_results S_ st t run idx te tf rs)) = clock st.
Proof.
  induction rs as [|r rs IH]; intros; simpl; [reflexivity|].
  rewrite IH. reflexivity.
Qed.

Lemma proc_start_clock st t te st' : proc_start st t te = Ok st' -> clock st' = clock st.
Proof.
  unfold Sim.proc_start. destruct (nth_error (trials st) t) as [tr|]; [|discriminate].
  set (p := match fixed_seed S_ with
            | Some s => (s, st)
            | None => match lookup t (seeds st) with
                      | Some s => (s, st)
                      | None => (draw (length (runs st)), set_seeds st (seeds st ++ [(t, draw (length (runs st)))]))
                      end
            end).
  assert (Hp : clock (snd p) = clock st).
  { unfold p. destruct (fixed_seed S_); [reflexivity|]. destruct (lookup t (seeds st)); reflexivity. }
  destruct p as [seed st1]. simpl in Hp.
  destruct (job_results S_ tbl (t_cfg tr) seed (lookup t (paused_at st1))) as [rs|e]; [|discriminate].
  pose proof (push_results_clock rs st1 t (length (runs st1)) 0%nat te te) as Hc.
  destruct (push_results S_ st1 t (length (runs st1)) 0 te te rs) as [st2 tf]. simpl in Hc.
  intro H. injection H as <-. simpl. congruence.
Qed.

Lemma proc_event_clock st h st' : proc_event st h = Ok st' -> clock st' = clock st.
Proof.
  unfold Sim.proc_event. destruct (h_ev h) as [|s| |run idx r].
  - apply proc_start_clock.
  - unfold proc_complete. destruct (nth_error (trials st) (h_trial h)); [|discriminate].
    intro H. injection H as <-. reflexivity.
  - intro H. injection H as <-. reflexivity.
  - unfold proc_result. simpl.
    destruct (nth_error (trials st) (h_trial h)) as [tr|]; [|discriminate].
    destruct (t_isres tr); intro H; injection H as <-; reflexivity.
Qed.

Lemma process_clock fuel : forall st st', process fuel st = Ok st' -> clock st' = clock st.
Proof.
  induction fuel as [|f IH]; intros st st' H; simpl in H; [discriminate|].
  destruct (heap st) as [|h rest] eqn:Hh.
  - injection H as <-. reflexivity.
  - destruct (Qleb (h_time h) (clock st)).
    + destruct (proc_event (set_heap st rest) h) as [st1|e] eqn:E; [|discriminate].
      apply IH in H. apply proc_event_clock in E. simpl in E. congruence.
    + injection H as <-. reflexivity.
Qed.

Lemma process_now_clock st st' : process_now st = Ok st' -> clock st' = clock st.
Proof. apply process_clock. Qed.

Lemma advance_ok st d st' : advance st d = Ok st' ->
  0 <= d /\ clock st' == clock st + d /\ st' = set_clock st (qadd (clock st) d).
Proof.
  unfold advance. destruct (Qltb d 0) eqn:E; [discriminate|].
  intro H. injection H as <-. apply Qltb_false in E. repeat split; [exact E|]. cbn [clock set_clock]. apply qadd_eq.
Qed.

Lemma schedule_clock st t dt st' : schedule st t dt = Ok st' -> 0 <= dt /\ clock st' == clock st + dt.
Proof.
  unfold Sim.schedule, bind. destruct (advance st dt) as [st1|] eqn:E1; [|discriminate].
  destruct (process_now st1) as [st2|] eqn:E2; [|discriminate].
  intro H. injection H as <-. simpl. apply advance_ok in E1 as (H0 & Hc & _).
  apply process_now_clock in E2. rewrite E2. split; assumption.
Qed.

(* the clock after a blocking stop / pause, as the code computes it *)
Definition clock_after_stop (c dt : Q) : Q :=
  let c1 := c + dt in
  let c2 := qmax (c1 + d_stop S_ + nudge S_) c1 in
  qmax (c2 + d_stopc S_ + nudge S_) c2.

Lemma qmax_morph a a' b b' : a == a' -> b == b' -> qmax a b == qmax a' b'.
Proof.
  intros Ha Hb. unfold qmax.
  destruct (Qltb a b) eqn:E; destruct (Qltb a' b') eqn:E'; try assumption.
  - apply Qltb_lt in E. apply Qltb_false in E'. lra.
  - apply Qltb_false in E. apply Qltb_lt in E'. lra.
Qed.

Lemma stop_or_pause_clock st t s dt st' : stop_or_pause st t s dt = Ok st' ->
  0 <= dt /\ clock st' == clock_after_stop (clock st) dt.
Proof.
  unfold Sim.stop_or_pause, bind. destruct (advance st dt) as [st1|] eqn:E1; [|discriminate].
  apply advance_ok in E1 as (H0 & Hc & _).
  match goal with |- match process_now ?x with _ => _ end = _ -> _ => set (st2 := x) end.
  destruct (process_now st2) as [st3|] eqn:E3; [|discriminate].
  apply process_now_clock in E3.
  match goal with |- match process_now ?x with _ => _ end = _ -> _ => set (st4 := x) end.
  destruct (process_now st4) as [st5|] eqn:E5; [|discriminate].
  intro H. injection H as <-. cbn [clock set_nextres].
  apply process_now_clock in E5. split; [exact H0|].
  rewrite E5. unfold st4, advance_to. simpl. rewrite E3. unfold st2, advance_to. simpl.
  unfold clock_after_stop.
  apply qmax_morph.
  - rewrite !qadd_eq. apply Qplus_comp; [|reflexivity]. apply Qplus_comp; [|reflexivity].
    apply qmax_morph; [rewrite !qadd_eq, Hc; reflexivity | exact Hc].
  - apply qmax_morph; [rewrite !qadd_eq, Hc; reflexivity | exact Hc].
Qed.

Lemma clock_after_stop_ge c dt : c + dt <= clock_after_stop c dt.
Proof.
  unfold clock_after_stop.
  pose proof (qmax_ge_r (c + dt + d_stop S_ + nudge S_) (c + dt)).
  pose proof (qmax_ge_r (qmax (c + dt + d_stop S_ + nudge S_) (c + dt) + d_stopc S_ + nudge S_)
                        (qmax (c + dt + d_stop S_ + nudge S_) (c + dt))).
  lra.
Qed.

Lemma clock_after_stop_exact c dt :
  0 <= d_stop S_ + nudge S_ -> 0 <= d_stopc S_ + nudge S_ ->
  clock_after_stop c dt == c + dt + d_stop S_ + nudge S_ + d_stopc S_ + nudge S_.
Proof.
  intros H1 H2. unfold clock_after_stop.
  rewrite (qmax_eq_l (c + dt + d_stop S_ + nudge S_) (c + dt)) by lra.
  rewrite qmax_eq_l by lra. lra.
Qed.

(* what one call charges to the simulated clock *)
Definition charge (o : op) (c : Q) : Q :=
  match o with
  | OpStart _ dt | OpResume _ _ dt | OpFetch _ dt => c + dt
  | OpPause _ _ dt | OpStop _ dt => clock_after_stop c dt
  | OpBusy => c
  | OpSleep => c + sleep_time S_
  end.
Definition outside (o : op) : Q :=
  match o with
  | OpStart _ dt | OpResume _ _ dt | OpFetch _ dt | OpPause _ _ dt | OpStop _ dt => dt
  | OpBusy => 0
  | OpSleep => sleep_time S_
  end.

Lemma set_status_clock st t s : clock (set_status st t s) = clock st.
Proof. unfold set_status. destruct (nth_error (trials st) t); reflexivity. Qed.
Lemma set_config_clock st t c : clock (set_config st t c) = clock st.
Proof. unfold set_config. destruct (nth_error (trials st) t); reflexivity. Qed.

Lemma step_clock st o st' out : step st o = Ok (st', out) ->
  0 <= outside o /\ clock st' == charge o (clock st).
Proof.
  destruct o as [c dt|t newc dt|t lvl dt|t dt|ids dt| |]; cbn [Sim.step outside charge]; unfold bind.
  - destruct (Sim.schedule S_ tbl draw st (length (trials st)) dt) as [st1|] eqn:E; [|discriminate].
    intro H. injection H as <- _. simpl. eapply schedule_clock; eauto.
  - destruct (nth_error (trials st) t) as [tr|]; [|discriminate].
    destruct (t_status tr) as [[]|]; try discriminate.
    destruct (Sim.schedule S_ tbl draw _ t dt) as [st1|] eqn:E; [|discriminate].
    intro H. injection H as <- _. rewrite set_status_clock. apply schedule_clock in E.
    destruct newc; [rewrite set_config_clock in E|]; exact E.
  - destruct (negb (Nat.ltb t (length (trials st)))); [discriminate|].
    destruct (Sim.stop_or_pause S_ tbl draw _ t Paused dt) as [st1|] eqn:E; [|discriminate].
    intro H. injection H as <- _. apply stop_or_pause_clock in E. rewrite set_status_clock in E.
    destruct lvl; exact E.
  - destruct (Sim.stop_or_pause S_ tbl draw st t Stopped dt) as [st1|] eqn:E; [|discriminate].
    intro H. injection H as <- _. eapply stop_or_pause_clock; eauto.
  - destruct (advance st dt) as [st1|] eqn:E1; [|discriminate].
    destruct (Sim.process_now S_ tbl draw st1) as [st2|] eqn:E2; [|discriminate].
    destruct (collect ids (nextres st2) []) as [rs nr].
    destruct (statuses (trials (set_nextres st2 [])) ids); [|discriminate].
    intro H. injection H as <- _. simpl.
    apply advance_ok in E1 as (H0 & Hc & _). apply process_now_clock in E2. rewrite E2. split; assumption.
  - destruct (Sim.process_now S_ tbl draw st) as [st1|] eqn:E; [|discriminate].
    intro H. injection H as <- _. apply process_now_clock in E. rewrite E. split; [lra|reflexivity].
  - destruct (advance st (sleep_time S_)) as [st1|] eqn:E; [|discriminate].
    intro H. injection H as <- _. apply advance_ok in E as (H0 & Hc & _). split; assumption.
Qed.

Lemma step_clock_monotone st o st' out : step st o = Ok (st', out) -> clock st <= clock st'.
Proof.
  intro H. apply step_clock in H as [H0 Hc]. rewrite Hc.
  destruct o; simpl in *; try lra.
  - pose proof (clock_after_stop_ge (clock st) dt). lra.
  - pose proof (clock_after_stop_ge (clock st) dt). lra.
Qed.

(* operation sequences *)
Lemma run_ops_split : forall ops st pre st1 o1 rest,
  run_ops st ops = pre ++ Ok (st1, o1) :: rest ->
  exists ops1 ops2, ops = ops1 ++ ops2 /\ rest = run_ops st1 ops2 /\
                    (pre = [] -> exists o, ops1 = [o] /\ step st o = Ok (st1, o1)).
Proof.
  induction ops as [|o ops IH]; intros st pre st1 o1 rest H; simpl in H.
  - destruct pre; discriminate.
  - destruct (step st o) as [[s out]|e] eqn:E.
    + destruct pre as [|x pre].
      * simpl in H. injection H as H1 H2 H3. subst. exists [o], ops. split; [reflexivity|]. split; [reflexivity|].
        intros _. exists o. split; [reflexivity|exact E].
      * simpl in H. injection H as H1 H2. apply IH in H2 as (ops1 & ops2 & -> & -> & _).
        exists (o :: ops1), ops2. split; [reflexivity|]. split; [reflexivity|]. intro; discriminate.
    + destruct pre as [|x pre]; simpl in H; [discriminate|].
      injection H as _ H. destruct pre; discriminate.
Qed.

Lemma run_ops_clock : forall ops st st1 o1,
  In (Ok (st1, o1)) (run_ops st ops) -> clock st <= clock st1.
Proof.
  induction ops as [|o ops IH]; intros st st1 o1 H; simpl in H; [contradiction|].
  destruct (step st o) as [[s out]|e] eqn:E.
  - apply step_clock_monotone in E. destruct H as [H|H].
    + injection H as -> _. exact E.
    + apply IH in H. lra.
  - destruct H as [H|[]]. discriminate.
Qed.

Lemma run_ops_clock_between ops st pre st1 o1 mid st2 o2 post :
  run_ops st ops = pre ++ Ok (st1, o1) :: mid ++ Ok (st2, o2) :: post ->
  clock st1 <= clock st2.
Proof.
  intro H. apply run_ops_split in H as (ops1 & ops2 & _ & H & _).
  apply (run_ops_clock ops2 st1 st2 o2). rewrite <- H. apply in_or_app. right. left. reflexivity.
Qed.

(* ======================================================================== *)
(*  2. what a job run reports (pure): _run_job_and_collect_results           *)
(* ======================================================================== *)
(* the rows of the table of configuration c and seed s, limited to max_resource *)
Definition curve_of (c : config) (seed : nat) : curve := nth seed (nth (c_idx c) tbl []) [].
Definition limit (c : config) (n : nat) : nat :=
  match c_maxres c with Some m => Nat.min m n | None => n end.
(* resume point actually used: the paused level with checkpointing, else 0 (from scratch) *)
Definition resume_point (rp : option nat) : nat :=
  match rp with Some p => if checkpointing S_ then p else O | None => O end.

Lemma with_levels_length cv : forall l, length (with_levels l cv) = length cv.
Proof. induction cv as [|r cv IH]; intro l; simpl; [reflexivity|]. rewrite IH. reflexivity. Qed.

Lemma with_levels_nth cv : forall l i r, nth_error (with_levels l cv) i = Some r ->
  exists rw, nth_error cv i = Some rw /\ r = mkRes (l + i) (r_elapsed rw) (r_metrics rw).
Proof.
  induction cv as [|rw cv IH]; intros l i r H; simpl in H.
  - destruct i; discriminate.
  - destruct i as [|i]; simpl in H.
    + injection H as <-. exists rw. split; [reflexivity|]. rewrite Nat.add_0_r. reflexivity.
    + apply IH in H as (rw' & H1 & ->). exists rw'. split; [exact H1|]. f_equal. lia.
Qed.

Lemma filter_in_range c cv : forall l m, c_maxres c = Some m ->
  filter (in_range c) (with_levels l cv) = with_levels l (firstn (S m - l) cv).
Proof.
  induction cv as [|rw cv IH]; intros l m Hm.
  - simpl. rewrite firstn_nil. reflexivity.
  - cbn [with_levels filter]. unfold in_range at 1. rewrite Hm. cbn [res_level].
    destruct (Nat.leb l m) eqn:E.
    + apply Nat.leb_le in E. replace (S m - l)%nat with (S (m - l)) by lia. cbn [firstn with_levels].
      f_equal. rewrite (IH (S l) m Hm). replace (S m - S l)%nat with (m - l)%nat by lia. reflexivity.
    + apply Nat.leb_gt in E. replace (S m - l)%nat with O by lia. cbn [firstn with_levels].
      rewrite (IH (S l) m Hm). replace (S m - S l)%nat with O by lia. reflexivity.
Qed.

Lemma filter_true {A} (f : A -> bool) l : (forall x, In x l -> f x = true) -> filter f l = l.
Proof.
  induction l as [|x l IH]; intro H; simpl; [reflexivity|].
  rewrite (H x (or_introl eq_refl)). f_equal. apply IH. intros y Hy. apply H. right. exact Hy.
Qed.

(* all_results = levels 1..limit of the table curve *)
Lemma all_results_spec c seed all : all_results tbl c seed = Ok all ->
  all = with_levels 1 (firstn (limit c (length (curve_of c seed))) (curve_of c seed)).
Proof.
  unfold all_results, curve_of, limit.
  destruct (match c_maxres c with Some m => Nat.ltb m 1 | None => false end); [discriminate|].
  destruct (negb (Nat.ltb seed (num_seeds tbl))); [discriminate|].
  destruct (nth_error tbl (c_idx c)) as [per_seed|] eqn:E1; [|discriminate].
  destruct (nth_error per_seed seed) as [cv|] eqn:E2; [|discriminate].
  intro H. injection H as <-.
  rewrite (nth_error_nth _ _ [] E1), (nth_error_nth _ _ [] E2).
  destruct (c_maxres c) as [m|] eqn:Hm.
  - rewrite (filter_in_range c cv 1 m Hm). replace (S m - 1)%nat with m by lia.
    f_equal. rewrite <- (firstn_firstn cv m (length cv)) at 1. rewrite firstn_all. reflexivity.
  - rewrite firstn_all. apply filter_true. intros x _. unfold in_range. rewrite Hm. reflexivity.
Qed.

(* filtering the levels above the paused level = dropping the first p rows *)
Lemma filter_above cv : forall l p,
  filter (fun r => Nat.ltb p (res_level r)) (with_levels l cv) = with_levels (Nat.max l (S p)) (skipn (S p - l) cv).
Proof.
  induction cv as [|rw cv IH]; intros l p; simpl.
  - rewrite skipn_nil. reflexivity.
  - destruct (Nat.ltb p l) eqn:E.
    + apply Nat.ltb_lt in E. replace (S p - l)%nat with O by lia. simpl.
      replace (Nat.max l (S p)) with l by lia. f_equal.
      rewrite IH. replace (S p - S l)%nat with O by lia. simpl. f_equal. lia.
    + apply Nat.ltb_ge in E. replace (S p - l)%nat with (S (p - l)) by lia. simpl.
      rewrite IH. replace (S p - S l)%nat with (p - l)%nat by lia. f_equal. lia.
Qed.

(* the repair: e_0 = max(x_0, eps), e_{i+1} = max(x_{i+1}, e_i + eps); levels and metrics untouched *)
Definition bound (prev : option Q) : Q := match prev with None => eps S_ | Some p => p + eps S_ end.

Inductive repaired : option Q -> list result -> list result -> Prop :=
| rep_nil prev : repaired prev [] []
| rep_cons prev r l r' l' :
    res_level r' = res_level r -> res_metrics r' = res_metrics r ->
    res_elapsed r' == Qmax (res_elapsed r) (bound prev) ->
    repaired (Some (res_elapsed r')) l l' ->
    repaired prev (r :: l) (r' :: l').

Lemma qmax_Qmax a b : qmax a b == Qmax a b.
Proof.
  unfold qmax. destruct (Qltb a b) eqn:E.
  - apply Qltb_lt in E. symmetry. apply Q.max_r. lra.
  - apply Qltb_false in E. symmetry. apply Q.max_l. exact E.
Qed.

Lemma repair_from_spec l : forall prev, repaired (Some prev) l (repair_from S_ prev l).
Proof.
  induction l as [|r l IH]; intro prev; simpl; constructor; try reflexivity.
  - simpl. rewrite qmax_Qmax. apply Q.max_compat; [reflexivity|apply qadd_eq].
  - apply IH.
Qed.

Lemma repair_spec l l' : repair S_ l = Ok l' -> l <> [] /\ repaired None l l'.
Proof.
  destruct l as [|r l]; simpl; [discriminate|]. intro H. injection H as <-.
  split; [discriminate|]. constructor; try reflexivity; [apply qmax_Qmax | apply repair_from_spec].
Qed.

(* same level, same metrics, equal elapsed time *)
Definition req (a b : result) : Prop :=
  res_level a = res_level b /\ res_metrics a = res_metrics b /\ res_elapsed a == res_elapsed b.

Lemma repaired_req prev l0 l l' : Forall2 req l0 l -> repaired prev l l' -> repaired prev l0 l'.
Proof.
  intros HF HR. revert l0 HF. induction HR as [|prev r l r' l' H1 H2 H3 HR IH]; intros l0 HF.
  - inversion HF. constructor.
  - inversion HF as [|a b l0' lb (Ha1 & Ha2 & Ha3) HF']; subst. constructor; try congruence.
    + rewrite H3. apply Q.max_compat; [symmetry; exact Ha3|reflexivity].
    + apply IH. exact HF'.
Qed.

Lemma repaired_fields prev l l' : repaired prev l l' ->
  map res_level l' = map res_level l /\ map res_metrics l' = map res_metrics l /\ length l' = length l.
Proof.
  induction 1 as [|prev r l r' l' H1 H2 H3 HR (IH1 & IH2 & IH3)]; simpl; [auto|].
  rewrite IH1, IH2, IH3, H1, H2. auto.
Qed.

Lemma repaired_nth prev l l' : repaired prev l l' -> forall i r', nth_error l' i = Some r' ->
  exists r, nth_error l i = Some r /\ res_level r' = res_level r /\ res_metrics r' = res_metrics r /\
            res_elapsed r <= res_elapsed r'.
Proof.
  induction 1 as [|prev r l r' l' H1 H2 H3 HR IH]; intros i x Hi; [destruct i; discriminate|].
  destruct i as [|i]; simpl in Hi.
  - injection Hi as <-. exists r. repeat split; auto. rewrite H3. apply Q.le_max_l.
  - apply IH in Hi. exact Hi.
Qed.

(* after the repair: first >= eps, every step >= eps *)
Lemma repaired_head prev l l' : repaired prev l l' ->
  forall a, nth_error l' 0 = Some a -> bound prev <= res_elapsed a.
Proof.
  intros H a Ha. destruct H as [|prev r l r' l' H1 H2 H3 HR]; [discriminate|].
  simpl in Ha. injection Ha as <-. rewrite H3. apply Q.le_max_r.
Qed.

Lemma repaired_step prev l l' : repaired prev l l' ->
  forall i a b, nth_error l' i = Some a -> nth_error l' (S i) = Some b ->
    res_elapsed a + eps S_ <= res_elapsed b.
Proof.
  induction 1 as [|prev r l r' l' H1 H2 H3 HR IH]; intros i a b Ha Hb; [destruct i; discriminate|].
  destruct i as [|i]; simpl in Ha, Hb.
  - injection Ha as <-. apply (repaired_head _ _ _ HR b Hb).
  - eapply IH; eauto.
Qed.

(* a column is "spaced" when the first value is >= b and every step is >= eps *)
Inductive spaced : Q -> list result -> Prop :=
| sp_nil b : spaced b []
| sp_cons b r l : b <= res_elapsed r -> spaced (res_elapsed r + eps S_) l -> spaced b (r :: l).

Lemma spaced_compat b b' l : b == b' -> spaced b l -> spaced b' l.
Proof. intros Hb H. destruct H; constructor; [rewrite <- Hb; assumption | assumption]. Qed.

(* ... and on a spaced column the repair changes nothing *)
Lemma repaired_faithful prev l l' : repaired prev l l' -> spaced (bound prev) l -> Forall2 req l' l.
Proof.
  induction 1 as [|prev r l r' l' H1 H2 H3 HR IH]; intro Hs; [constructor|].
  inversion Hs as [|b0 r0 l0 Hb Hs']; subst.
  assert (He : res_elapsed r' == res_elapsed r). { rewrite H3. apply Q.max_l. exact Hb. }
  constructor; [repeat split; assumption|].
  apply IH. eapply spaced_compat; [|exact Hs']. simpl. rewrite He. reflexivity.
Qed.

Lemma with_levels_levels cv : forall l, map res_level (with_levels l cv) = seq l (length cv).
Proof. induction cv as [|r cv IH]; intro l; simpl; [reflexivity|]. rewrite IH. reflexivity. Qed.

(* the job before the repair: levels k+1, k+2, ... of the table curve (k = resume point),
   elapsed time = table value minus the table value at level k (0 if k = 0) *)
Definition limited (c : config) (seed : nat) : curve :=
  firstn (limit c (length (curve_of c seed))) (curve_of c seed).
Definition offset (c : config) (seed : nat) (k : nat) : Q :=
  match k with
  | O => 0
  | S k' => match nth_error (limited c seed) k' with Some rw => r_elapsed rw | None => 0 end
  end.
Definition raw_job (c : config) (seed : nat) (rp : option nat) : list result :=
  let k := resume_point rp in
  map (fun r => set_elapsed r (res_elapsed r - offset c seed k)) (with_levels (S k) (skipn k (limited c seed))).

Lemma offset_of_spec cv : forall l p o,
  offset_of p (with_levels l cv) = o \/ True ->
  fold_left (fun o r => if Nat.eqb (res_level r) p then res_elapsed r else o) (with_levels l cv) o =
  if Nat.leb l p then match nth_error cv (p - l) with Some rw => r_elapsed rw | None => o end else o.
Proof.
  induction cv as [|rw cv IH]; intros l p o _; simpl.
  - destruct (Nat.leb l p); [|reflexivity]. destruct (p - l)%nat; reflexivity.
  - rewrite IH by (right; exact I). destruct (Nat.eqb l p) eqn:E.
    + apply Nat.eqb_eq in E. subst. rewrite Nat.leb_refl, Nat.sub_diag. simpl.
      replace (Nat.leb (S p) p) with false by (symmetry; apply Nat.leb_gt; lia). reflexivity.
    + apply Nat.eqb_neq in E. destruct (Nat.leb l p) eqn:E1.
      * apply Nat.leb_le in E1. replace (Nat.leb (S l) p) with true by (symmetry; apply Nat.leb_le; lia).
        replace (p - l)%nat with (S (p - S l)) by lia. reflexivity.
      * apply Nat.leb_gt in E1. replace (Nat.leb (S l) p) with false by (symmetry; apply Nat.leb_gt; lia).
        reflexivity.
Qed.

Lemma Forall2_map_req (f g : result -> result) l :
  (forall r, req (f r) (g r)) -> Forall2 req (map f l) (map g l).
Proof. intro H. induction l; simpl; constructor; auto. Qed.

Lemma job_results_spec c seed rp rs : job_results S_ tbl c seed rp = Ok rs ->
  raw_job c seed rp <> [] /\ repaired None (raw_job c seed rp) rs.
Proof.
  unfold job_results. destruct (all_results tbl c seed) as [all|] eqn:Ha; [|discriminate].
  apply all_results_spec in Ha. fold (limited c seed) in Ha. intro Hr.
  apply repair_spec in Hr as [Hne Hr].
  assert (HF : Forall2 req (raw_job c seed rp) (resume_filter S_ rp all)).
  { unfold raw_job, resume_filter, resume_point. subst all.
    destruct rp as [p|]; [destruct (checkpointing S_)|].
    - rewrite filter_above. replace (Nat.max 1 (S p)) with (S p) by lia.
      replace (S p - 1)%nat with p by lia.
      unfold offset_of. rewrite offset_of_spec by (right; exact I).
      assert (Ho : (if Nat.leb 1 p then match nth_error (limited c seed) (p - 1) with
                                         | Some rw => r_elapsed rw | None => 0 end else 0)
                   = offset c seed p).
      { unfold offset. destruct p as [|p']; simpl; [reflexivity|]. rewrite Nat.sub_0_r. reflexivity. }
      rewrite Ho. apply Forall2_map_req. intro r. repeat split; simpl. symmetry. apply qsub_eq.
    - simpl. rewrite <- (map_id (with_levels 1 (limited c seed))) at 2.
      apply Forall2_map_req. intro r. repeat split; simpl. lra.
    - simpl. rewrite <- (map_id (with_levels 1 (limited c seed))) at 2.
      apply Forall2_map_req. intro r. repeat split; simpl. lra. }
  split.
  - intro E. rewrite E in HF. inversion HF as [HH|]. apply Hne. symmetry. exact H.
  - eapply repaired_req; eauto.
Qed.

(* consequences, in table terms *)
Lemma raw_job_nth c seed rp i r : nth_error (raw_job c seed rp) i = Some r ->
  exists rw, nth_error (curve_of c seed) (resume_point rp + i) = Some rw /\
             res_level r = S (resume_point rp + i) /\
             (match c_maxres c with Some m => (res_level r <= m)%nat | None => True end) /\
             res_metrics r = r_metrics rw /\
             res_elapsed r = r_elapsed rw - offset c seed (resume_point rp).
Proof.
  unfold raw_job. intro H. rewrite nth_error_map in H.
  destruct (nth_error (with_levels (S (resume_point rp)) (skipn (resume_point rp) (limited c seed))) i) as [x|] eqn:E;
    [|discriminate].
  simpl in H. injection H as <-. apply with_levels_nth in E as (rw & E & ->).
  rewrite nth_error_skipn in E. unfold limited in E.
  exists rw. simpl.
  assert (Hlt : (resume_point rp + i < limit c (length (curve_of c seed)))%nat).
  { destruct (Nat.lt_ge_cases (resume_point rp + i) (limit c (length (curve_of c seed)))) as [Hl|Hl]; [exact Hl|].
    exfalso. assert (Hn : nth_error (firstn (limit c (length (curve_of c seed))) (curve_of c seed)) (resume_point rp + i) = None).
    { apply nth_error_None. rewrite firstn_length. lia. }
    congruence. }
  rewrite nth_error_firstn in E.
  destruct (Nat.ltb (resume_point rp + i) (limit c (length (curve_of c seed)))) eqn:E2;
    [|apply Nat.ltb_ge in E2; lia].
  repeat split; auto.
  unfold limit in Hlt. destruct (c_maxres c); [lia|exact I].
Qed.

Lemma raw_job_levels c seed rp :
  map res_level (raw_job c seed rp) = seq (S (resume_point rp)) (length (raw_job c seed rp)).
Proof.
  unfold raw_job. rewrite map_map. simpl. rewrite map_length, with_levels_length.
  rewrite <- with_levels_levels. reflexivity.
Qed.

End Proofs.
