(* ModeCoresProofs.v — mode symmetry of the cores of model/ModeCores.v (C15). *)
From Verif Require Import model.Base model.Rung model.ModeCores proofs.RungProofs.
From Coq Require Import Lqa Lia ZifyBool.
Open Scope Q_scope.

(* ---- stable sort commutes with a key-order-preserving relabelling ------------------------- *)
Lemma insert_by_map {A B} (f : A -> B) (bA : A -> A -> bool) (bB : B -> B -> bool) x l :
  (forall y x, bB (f y) (f x) = bA y x) ->
  insert_by bB (f x) (map f l) = map f (insert_by bA x l).
Proof.
  intro H. induction l as [|y l IH]; simpl; [reflexivity|].
  rewrite H. destruct (bA y x); simpl; [rewrite IH|]; reflexivity.
Qed.

Lemma stable_sort_map {A B} (f : A -> B) (bA : A -> A -> bool) (bB : B -> B -> bool) l :
  (forall y x, bB (f y) (f x) = bA y x) ->
  stable_sort bB (map f l) = map f (stable_sort bA l).
Proof.
  intro H. unfold stable_sort. induction l as [|x l IH]; simpl; [reflexivity|].
  rewrite IH. apply insert_by_map. exact H.
Qed.

(* ---- get_top_list ------------------------------------------------------------------------- *)
Definition neg_sentry (e : sentry) : sentry := (fst e, option_map Qopp (snd e)).
Definition neg_pair (e : Z * Q) : Z * Q := (fst e, - snd e).

Lemma valid_entries_neg rung : valid_entries (map neg_sentry rung) = map neg_pair (valid_entries rung).
Proof. induction rung as [|[t [v|]] r IH]; simpl; [reflexivity|rewrite IH; reflexivity|exact IH]. Qed.

Lemma invalid_ids_neg rung : invalid_ids (map neg_sentry rung) = invalid_ids rung.
Proof. induction rung as [|[t [v|]] r IH]; simpl; [reflexivity|exact IH|rewrite IH; reflexivity]. Qed.

Lemma map_fst_neg_pair l : map fst (map neg_pair l) = map fst l.
Proof. rewrite map_map. reflexivity. Qed.

Lemma map_fst_neg_sentry l : map fst (map neg_sentry l) = map fst l.
Proof. rewrite map_map. reflexivity. Qed.

Theorem get_top_list_mode_symmetry rung new_len :
  get_top_list (map neg_sentry rung) new_len Max = get_top_list rung new_len Min.
Proof.
  unfold get_top_list. rewrite valid_entries_neg, invalid_ids_neg, map_length, map_fst_neg_sentry.
  rewrite (stable_sort_map neg_pair (fun y x => strictly_before Min (snd y) (snd x))).
  - rewrite firstn_map, !map_fst_neg_pair. reflexivity.
  - intros y x. simpl. apply Qltb_neg.
Qed.

(* ---- median stopping rule ------------------------------------------------------------------ *)
Lemma neg_times_minus_one (m : Q) : (- m) * (-1 # 1) = m.
Proof.
  destruct m as [a b]. unfold Qmult, Qopp. simpl. f_equal; [lia|apply Pos.mul_1_r].
Qed.

Theorem msr_mode_symmetry ra gt ms rc st trial ts tq metric :
  msr_on_result Max ra gt ms rc st trial ts tq (- metric) = msr_on_result Min ra gt ms rc st trial ts tq metric.
Proof. unfold msr_on_result. rewrite neg_times_minus_one. reflexivity. Qed.

(* ---- PBT ------------------------------------------------------------------------------------ *)
Theorem pbt_score_mode_symmetry m : pbt_score Max (- m) = pbt_score Min m.
Proof. destruct m as [[|p|p] b]; reflexivity. Qed.

Theorem pbt_quantiles_mode_symmetry frac (trials : list (Z * Q)) :
  pbt_quantiles frac (map (fun tm => (fst tm, pbt_score Max (- snd tm))) trials) =
  pbt_quantiles frac (map (fun tm => (fst tm, pbt_score Min (snd tm))) trials).
Proof.
  f_equal. apply map_ext. intro tm. rewrite pbt_score_mode_symmetry. reflexivity.
Qed.

(* ---- print_best_metric_found --------------------------------------------------------------- *)
Lemma agg_neg l : agg Max (map Qopp l) = option_map Qopp (agg Min l).
Proof.
  induction l as [|x l IH]; simpl; [reflexivity|]. rewrite IH.
  destruct (agg Min l) as [y|]; simpl; [|reflexivity].
  rewrite Qltb_neg. destruct (Qltb y x); reflexivity.
Qed.

Definition neg_table (table : list (Z * list Q)) : list (Z * list Q) :=
  map (fun tl => (fst tl, map Qopp (snd tl))) table.
Definition neg_best (b : Z * option Q) : Z * option Q := (fst b, option_map Qopp (snd b)).

Theorem best_metric_mode_symmetry table :
  best_metric_found Max (neg_table table) = option_map neg_best (best_metric_found Min table).
Proof.
  unfold best_metric_found, neg_table. rewrite map_map. simpl.
  replace (forallb (fun tl : Z * list Q => match snd tl with [] => true | _ :: _ => false end)
             (map (fun tl : Z * list Q => (fst tl, map Qopp (snd tl))) table))
    with (forallb (fun tl : Z * list Q => match snd tl with [] => true | _ :: _ => false end) table)
    by (induction table as [|[t [|x l]] r IH]; simpl; auto).
  destruct (forallb _ table); [reflexivity|].
  replace (map (fun x : Z * list Q => (fst x, agg Max (map Qopp (snd x)))) table)
    with (map neg_best (map (fun tl => (fst tl, agg Min (snd tl))) table)).
  - rewrite (stable_sort_map neg_best (fun y x => key_lt (best_key Min (snd y)) (best_key Min (snd x)))).
    + destruct (stable_sort _ _); reflexivity.
    + intros [t1 [v1|]] [t2 [v2|]]; simpl; try reflexivity. rewrite !Qopp_opp_eq. reflexivity.
  - rewrite map_map. apply map_ext. intros [t l]. unfold neg_best. simpl. rewrite agg_neg. reflexivity.
Qed.

(* ---- promotion eligibility ------------------------------------------------------------------ *)
Theorem promotable_is_no_worse md m c : promotable md m c = no_worse md m c.
Proof.
  unfold promotable, Qltb. rewrite negb_involutive. destruct md; simpl; apply Qleb_iff_eq; split; intro; lra.
Qed.

Theorem promotable_mode_symmetry m c : promotable Max (- m) (- c) = promotable Min m c.
Proof. rewrite !promotable_is_no_worse. simpl. apply Qleb_iff_eq. split; intro; lra. Qed.

(* ---- DEHB selection --------------------------------------------------------------------------- *)
Theorem dehb_selection_mode_symmetry ds trial target m tm :
  dehb_selection Max ds trial target (- m) (option_map Qopp tm) = dehb_selection Min ds trial target m tm.
Proof.
  unfold dehb_selection. destruct ds; [|reflexivity]. destruct tm as [tm|]; simpl; [|reflexivity].
  rewrite (Qleb_iff_eq 0 ((-1 # 1) * (- m - - tm)) 0 (1 * (m - tm))); [reflexivity|]. split; intro; lra.
Qed.

(* the selection itself: the target wins iff it is no worse (ties go to the target in both modes) *)
Theorem dehb_selection_rule md trial target m tm :
  dehb_selection md true trial target m (Some tm) = if no_worse md tm m then target else trial.
Proof.
  unfold dehb_selection. destruct md; simpl.
  - rewrite (Qleb_iff_eq 0 (1 * (m - tm)) tm m); [reflexivity|]. split; intro; lra.
  - rewrite (Qleb_iff_eq 0 ((-1 # 1) * (m - tm)) m tm); [reflexivity|]. split; intro; lra.
Qed.

(* ---- regularized evolution -------------------------------------------------------------------- *)
Theorem rea_score_mode_symmetry m : rea_score Max (- m) = rea_score Min m.
Proof. apply neg_times_minus_one. Qed.

Theorem rea_update_mode_symmetry n pop trial m :
  rea_update Max n pop trial (- m) = rea_update Min n pop trial m.
Proof. unfold rea_update. rewrite rea_score_mode_symmetry. reflexivity. Qed.

(* ---- MOASHA per-metric modes -------------------------------------------------------------------- *)
Definition flip_mode (md : mode) : mode := match md with Min => Max | Max => Min end.
(* flip the mode and negate the value of the metrics selected by [mask] *)
Fixpoint flip_modes (mask : list bool) (modes : list mode) : list mode :=
  match mask, modes with
  | b :: bs, md :: ms => (if b then flip_mode md else md) :: flip_modes bs ms
  | _, _ => modes
  end.
Fixpoint negate_vals (mask : list bool) (vals : list Q) : list Q :=
  match mask, vals with
  | b :: bs, v :: vs => (if b then - v else v) :: negate_vals bs vs
  | _, _ => vals
  end.

Lemma signed_flip md (v : Q) : (- v) * metric_op (flip_mode md) = v * metric_op md.
Proof.
  destruct v as [a b]. destruct md; unfold Qmult, Qopp, metric_op; simpl; f_equal; lia.
Qed.

Theorem moasha_metric_dict_mode_symmetry mask : forall modes vals,
  moasha_metric_dict (flip_modes mask modes) (negate_vals mask vals) = moasha_metric_dict modes vals.
Proof.
  induction mask as [|b bs IH]; intros [|md ms] [|v vs]; simpl; try reflexivity;
    destruct b; simpl; rewrite ?IH, ?signed_flip; reflexivity.
Qed.

(* ---- ExperimentResult.best_config ---------------------------------------------------------------- *)
Lemma argbest_from_neg l : forall i j x,
  argbest_from Max (map Qopp l) i (j, - x) = argbest_from Min l i (j, x).
Proof.
  induction l as [|y l IH]; intros i j x; simpl; [reflexivity|].
  rewrite Qltb_neg. destruct (Qltb y x); apply IH.
Qed.

Theorem best_index_mode_symmetry l : best_index Max (map Qopp l) = best_index Min l.
Proof. destruct l as [|x l]; simpl; [reflexivity|]. f_equal. apply argbest_from_neg. Qed.
