(* ModeCoresProofs.v — mode symmetry of the cores of model/ModeCores.v (C15). *)
From Verif Require Import model.Base model.Rung model.ModeCores proofs.RungProofs.
From Coq Require Import Lqa Lia ZifyBool.
Open Scope Q_scope.

(* ---- stable sort commutes with a key-order-preserving relabelling ------------------------- *)
Lemma insert_by_map {A B} (f : A -> B) (bA : A -> A -> bool) (bB : B -> B -> bool) x l :
  (forall y x, bB (f y) (f x) = bA y x) ->
  insert_by bB (f x) (map f l) = map f (insert_by bA x l).
Proof.
  intro H. induction l as [|y l IH]; simpl; [reflexivity|].
  rewrite H. destruct (bA y x); simpl; [rewrite IH|]; reflexivity.
Qed.

Lemma stable_sort_map {A B} (f : A -> B) (bA : A -> A -> bool) (bB : B -> B -> bool) l :
  (forall y x, bB (f y) (f x) = bA y x) ->
  stable_sort bB (map f l) = map f (stable_sort bA l).
Proof.
  intro H. unfold stable_sort. induction l as [|x l IH]; simpl; [reflexivity|].
  rewrite IH. apply insert_by_map. exact H.
Qed.

(* ---- get_top_list ------------------------------------------------------------------------- *)
Definition neg_sentry (e : sentry) : sentry := (fst e, option_map Qopp (snd e)).
Definition neg_pair (e : Z * Q) : Z * Q := (fst e, - snd e).

Lemma valid_entries_neg rung : valid_entries (map neg_sentry rung) = map neg_pair (valid_entries rung).
Proof. induction rung as [|[t [v|]] r IH]; simpl; [reflexivity|rewrite IH; reflexivity|exact IH]. Qed.

Lemma invalid_ids_neg rung : invalid_ids (map neg_sentry rung) = invalid_ids rung.
Proof. induction rung as [|[t [v|]] r IH]; simpl; [reflexivity|exact IH|rewrite IH; reflexivity]. Qed.

Lemma map_fst_neg_pair l : map fst (map neg_pair l) = map fst l.
Proof. rewrite map_map. reflexivity. Qed.

Lemma map_fst_neg_sentry l : map fst (map neg_sentry l) = map fst l.
Proof. rewrite map_map. reflexivity. Qed.

Theorem get_top_list_mode_symmetry rung new_len :
  get_top_list (map neg_sentry rung) new_len Max = get_top_list rung new_len Min.
Proof.
  unfold get_top_list. rewrite valid_entries_neg, invalid_ids_neg, map_length, map_fst_neg_sentry.
  rewrite (stable_sort_map neg_pair (fun y x => strictly_before Min (snd y) (snd x))).
  - rewrite firstn_map, !map_fst_neg_pair. reflexivity.
  - intros y x. simpl. apply Qltb_neg.
Qed.

(* ---- median stopping rule ------------------------------------------------------------------ *)
Lemma neg_times_minus_one (m : Q) : (- m) * (-1 # 1) = m.
Proof.
  destruct m as [a b]. unfold Qmult, Qopp. simpl. f_equal; [lia|apply Pos.mul_1_r].
Qed.

Theorem msr_mode_symmetry ra gt ms rc st trial ts tq metric :
  msr_on_result Max ra gt ms rc st trial ts tq (- metric) = msr_on_result Min ra gt ms rc st trial ts tq metric.
Proof. unfold msr_on_result. rewrite neg_times_minus_one. reflexivity. Qed.

(* ---- PBT ------------------------------------------------------------------------------------ *)
Theorem pbt_score_mode_symmetry m : pbt_score Max (- m) = pbt_score Min m.
Proof. destruct m as [[|p|p] b]; reflexivity. Qed.

Theorem pbt_quantiles_mode_symmetry frac (trials : list (Z * Q)) :
  pbt_quantiles frac (map (fun tm => (fst tm, pbt_score Max (- snd tm))) trials) =
  pbt_quantiles frac (map (fun tm => (fst tm, pbt_score Min (snd tm))) trials).
Proof.
  f_equal. apply map_ext. intro tm. rewrite pbt_score_mode_symmetry. reflexivity.
Qed.

(* ---- print_best_metric_found --------------------------------------------------------------- *)
Lemma agg_neg l : agg Max (map Qopp l) = option_map Qopp (agg Min l).
Proof.
  induction l as [|x l IH]; simpl; [reflexivity|]. rewrite IH.
  destruct (agg Min l) as [y|]; simpl; [|reflexivity].
  rewrite Qltb_neg. destruct (Qltb y x); reflexivity.
Qed.

Definition neg_table (table : list (Z * list Q)) : list (Z * list Q) :=
  map (fun tl => (fst tl, map Qopp (snd tl))) table.
Definition neg_best (b : Z * option Q) : Z * option Q := (fst b, option_map Qopp (snd b)).

Theorem best_metric_mode_symmetry table :
  best_metric_found Max (neg_table table) = option_map neg_best (best_metric_found Min table).
Proof.
  unfold best_metric_found, neg_table. rewrite map_map. simpl.
  replace (forallb (fun tl : Z * list Q => match snd tl with [] => true | _ :: _ => false end)
             (map (fun tl : Z * list Q => (fst tl, map Qopp (snd tl))) table))
    with (forallb (fun tl : Z * list Q => match snd tl with [] => true | _ :: _ => false end) table)
    by (induction table as [|[t [|x l]] r IH]; simpl; auto).
  destruct (forallb _ table); [reflexivity|].
  replace (map (fun x : Z * list Q => (fst x, agg Max (map Qopp (snd x)))) table)
    with (map neg_best (map (fun tl => (fst tl, agg Min (snd tl))) table)).
  - rewrite (stable_sort_map neg_best (fun y x => key_lt (best_key Min (snd y)) (best_key Min (snd x)))).
    + destruct (stable_sort _ _); reflexivity.
    + intros [t1 [v1|]] [t2 [v2|]]; simpl; try reflexivity. rewrite !Qopp_opp_eq. reflexivity.
  - rewrite map_map. apply map_ext. intros [t l]. unfold neg_best. simpl. rewrite agg_neg. reflexivity.
Qed.

(* ---- promotion eligibility ------------------------------------------------------------------ *)
Theorem promotable_is_no_worse md m c : promotable md m c = no_worse md m c.
Proof.
  unfold promotable, Qltb. rewrite negb_involutive. destruct md; simpl; apply Qleb_iff_eq; split; intro; lra.
Qed.

Theorem promotable_mode_symmetry m c : promotable Max (- m) (- c) = promotable Min m c.
Proof. rewrite !promotable_is_no_worse. simpl. apply Qleb_iff_eq. split; intro; lra. Qed.

(* ---- DEHB selection --------------------------------------------------------------------------- *)
Theorem dehb_selection_mode_symmetry ds trial target m tm :
  dehb_selection Max ds trial target (- m) (option_map Qopp tm) = dehb_selection Min ds trial target m tm.
Proof.
  unfold dehb_selection. destruct ds; [|reflexivity]. destruct tm as [tm|]; simpl; [|reflexivity].
  rewrite (Qleb_iff_eq 0 ((-1 # 1) * (- m - - tm)) 0 (1 * (m - tm))); [reflexivity|]. split; intro; lra.
Qed.

(* the selection itself: the target wins iff it is no worse (ties go to the target in both modes) *)
Theorem dehb_selection_rule md trial target m tm :
  dehb_selection md true trial target m (Some tm) = if no_worse md tm m then target else trial.
Proof.
  unfold dehb_selection. destruct md; simpl.
  - rewrite (Qleb_iff_eq 0 (1 * (m - tm)) tm m); [reflexivity|]. split; intro; lra.
  - rewrite (Qleb_iff_eq 0 ((-1 # 1) * (m - tm)) m tm); [reflexivity|]. split; intro; lra.
Qed.

(* ---- regularized evolution -------------------------------------------------------------------- *)
Theorem rea_score_mode_symmetry m : rea_score Max (- m) = rea_score Min m.
Proof. apply neg_times_minus_one. Qed.

Theorem rea_update_mode_symmetry n pop trial m :
  rea_update Max n pop trial (- m) = rea_update Min n pop trial m.
Proof. unfold rea_update. rewrite rea_score_mode_symmetry. reflexivity. Qed.

(* ---- MOASHA per-metric modes -------------------------------------------------------------------- *)
Definition flip_mode (md : mode) : mode := match md with Min => Max | Max => Min end.
(* flip the mode and negate the value of the metrics selected by [mask] *)
Fixpoint flip_modes (mask : list bool) (modes : list mode) : list mode :=
  match mask, modes with
  | b :: bs, md :: ms => (if b then flip_mode md else md) :: flip_modes bs ms
  | _, _ => modes
  end.
Fixpoint negate_vals (mask : list bool) (vals : list Q) : list Q :=
  match mask, vals with
  | b :: bs, v :: vs => (if b then - v else v) :: negate_vals bs vs
  | _, _ => vals
  end.

Lemma signed_flip md (v : Q) : (- v) * metric_op (flip_mode md) = v * metric_op md.
Proof.
  destruct v as [a b]. destruct md; unfold Qmult, Qopp, metric_op; simpl; f_equal; lia.
Qed.

Theorem moasha_metric_dict_mode_symmetry mask : forall modes vals,
  moasha_metric_dict (flip_modes mask modes) (negate_vals mask vals) = moasha_metric_dict modes vals.
Proof.
  induction mask as [|b bs IH]; intros [|md ms] [|v vs]; simpl; try reflexivity;
    destruct b; simpl; rewrite ?IH, ?signed_flip; reflexivity.
Qed.

(* ---- ExperimentResult.best_config ---------------------------------------------------------------- *)
Lemma argbest_from_neg l : forall i j x,
  argbest_from Max (map Qopp l) i (j, - x) = argbest_from Min l i (j, x).
Proof.
  induction l as [|y l IH]; intros i j x; simpl; [reflexivity|].
  rewrite Qltb_neg. destruct (Qltb y x); apply IH.
Qed.

Theorem best_index_mode_symmetry l : best_index Max (map Qopp l) = best_index Min l.
Proof. destruct l as [|x l]; simpl; [reflexivity|]. f_equal. apply argbest_from_neg. Qed.

(* ---- promotion-type rung system: whole-system mode symmetry ------------------------------------ *)
Definition pneg_entry (e : pentry) : pentry :=
  {| pe_trial := pe_trial e; pe_metric := - pe_metric e; pe_promoted := pe_promoted e |}.
Definition pneg_rung (rg : prung) : prung :=
  {| pr_level := pr_level rg; pr_quant := pr_quant rg; pr_data := map pneg_entry (pr_data rg) |}.
Definition pneg_sys (sys : psys) : psys :=
  {| ps_rungs := map pneg_rung (ps_rungs sys); ps_running := ps_running sys |}.
Definition pneg_event (ev : pevent) : pevent :=
  match ev with PReport t r m => PReport t r (- m) | e => e end.
Definition pq_ok (rs : list prung) : Prop := Forall (fun rg => 0 < pr_quant rg < 1) rs.

Lemma psl_add_neg e l : psl_add Max (pneg_entry e) (map pneg_entry l) = map pneg_entry (psl_add Min e l).
Proof.
  induction l as [|x l IH]; simpl; [reflexivity|].
  rewrite !Qopp_opp_eq. destruct (Qleb (pe_metric x) (pe_metric e)); simpl; [rewrite IH|]; reflexivity.
Qed.

Lemma prung_contains_neg t rg : prung_contains t (pneg_rung rg) = prung_contains t rg.
Proof.
  unfold prung_contains, pneg_rung. simpl. induction (pr_data rg) as [|e l IH]; simpl; [reflexivity|].
  rewrite IH. reflexivity.
Qed.

Lemma first_unpromoted_neg l : forall pos,
  first_unpromoted (map pneg_entry l) pos =
  match first_unpromoted l pos with Some (e, p) => Some (pneg_entry e, p) | None => None end.
Proof.
  induction l as [|e l IH]; intro pos; simpl; [reflexivity|].
  destruct (pe_promoted e); [apply IH|reflexivity].
Qed.

Lemma pe_entry_neg l : map pe_entry (map pneg_entry l) = neg_data (map pe_entry l).
Proof. unfold neg_data. rewrite !map_map. reflexivity. Qed.

Lemma find_promotable_neg rg : 0 < pr_quant rg < 1 ->
  find_promotable Max (pneg_rung rg) = find_promotable Min rg.
Proof.
  intro Hq. unfold find_promotable. simpl pr_quant. simpl pr_data. rewrite pe_entry_neg.
  pose proof (quantile_mode_symmetry (pr_quant rg) (map pe_entry (pr_data rg)) Hq) as H.
  destruct (rung_quantile Min (pr_quant rg) (map pe_entry (pr_data rg))) as [|v|],
           (rung_quantile Max (pr_quant rg) (neg_data (map pe_entry (pr_data rg)))) as [|w|];
    try contradiction; try reflexivity.
  rewrite first_unpromoted_neg. destruct (first_unpromoted (pr_data rg) 0) as [[e p]|]; [|reflexivity].
  simpl pe_metric. simpl pe_trial.
  replace (promotable Max (- pe_metric e) w) with (promotable Min (pe_metric e) v); [reflexivity|].
  rewrite !promotable_is_no_worse. simpl. apply Qleb_iff_eq. rewrite H. split; intro; lra.
Qed.

Lemma remove_nth_map {A B} (f : A -> B) l : forall i, remove_nth (map f l) i = map f (remove_nth l i).
Proof. induction l as [|x l IH]; intros [|i]; simpl; try reflexivity. rewrite IH. reflexivity. Qed.

Lemma mark_as_promoted_neg rg pos : mark_as_promoted Max (pneg_rung rg) pos = pneg_rung (mark_as_promoted Min rg pos).
Proof.
  unfold mark_as_promoted. simpl pr_data. rewrite nth_error_map.
  destruct (nth_error (pr_data rg) pos) as [e|]; simpl; [|reflexivity].
  unfold pneg_rung. simpl. f_equal. rewrite remove_nth_map.
  apply (psl_add_neg {| pe_trial := pe_trial e; pe_metric := pe_metric e; pe_promoted := true |}).
Qed.

Lemma sched_scan_neg e rs : pq_ok rs -> forall nm,
  sched_scan Max e (map pneg_rung rs) nm =
    (map pneg_rung (fst (sched_scan Min e rs nm)), snd (sched_scan Min e rs nm)).
Proof.
  induction 1 as [|rg rest Hq Hf IH]; intro nm; simpl; [reflexivity|].
  rewrite (find_promotable_neg rg Hq). rewrite (IH (pr_level rg)).
  destruct (sched_scan Min e rest (pr_level rg)) as [rest' res] eqn:Er. simpl.
  destruct (pr_level rg <? e)%Z; [|reflexivity].
  destruct (find_promotable Min rg); simpl; try reflexivity.
  rewrite mark_as_promoted_neg. reflexivity.
Qed.

Lemma sched_scan_pq md e rs : pq_ok rs -> forall nm, pq_ok (fst (sched_scan md e rs nm)).
Proof.
  induction 1 as [|rg rest Hq Hf IH]; intro nm; simpl; [constructor|].
  specialize (IH (pr_level rg)). destruct (sched_scan md e rest (pr_level rg)) as [rest' res]. simpl in IH.
  assert (Hc : pq_ok (rg :: rest')) by (constructor; assumption).
  destruct (pr_level rg <? e)%Z; [|exact Hc].
  destruct (find_promotable md rg); simpl; try exact Hc; [|constructor; assumption].
  constructor; [|exact Hf]. unfold mark_as_promoted. destruct (nth_error (pr_data rg) pos); exact Hq.
Qed.

Lemma register_at_neg rs : forall level above t m,
  register_at Max (map pneg_rung rs) level above t (- m) =
  match register_at Min rs level above t m with
  | None => None
  | Some None => Some None
  | Some (Some (rs', nm)) => Some (Some (map pneg_rung rs', nm))
  end.
Proof.
  induction rs as [|rg rest IH]; intros level above t m; simpl; [reflexivity|].
  rewrite prung_contains_neg. destruct (pr_level rg =? level)%Z.
  - destruct (prung_contains t rg); [reflexivity|]. simpl. unfold pneg_rung at 2. simpl.
    rewrite <- (psl_add_neg {| pe_trial := t; pe_metric := m; pe_promoted := false |}). reflexivity.
  - rewrite IH. destruct (register_at Min rest level (pr_level rg) t m) as [[[rs' nm]|]|]; reflexivity.
Qed.

Lemma register_at_pq md rs : pq_ok rs -> forall level above t m rs' nm,
  register_at md rs level above t m = Some (Some (rs', nm)) -> pq_ok rs'.
Proof.
  induction 1 as [|rg rest Hq Hf IH]; intros level above t m rs' nm H; simpl in H; [discriminate|].
  destruct (pr_level rg =? level)%Z.
  - destruct (prung_contains t rg); [discriminate|]. injection H as <- _. constructor; assumption.
  - destruct (register_at md rest level (pr_level rg) t m) as [[[r1 n1]|]|] eqn:E; try discriminate.
    injection H as <- _. constructor; [exact Hq|]. eapply IH. exact E.
Qed.

Lemma first_milestone_neg max_t rs skip : first_milestone max_t (map pneg_rung rs) skip = first_milestone max_t rs skip.
Proof.
  unfold first_milestone. rewrite map_length. destruct (skip <? length rs)%nat; [|reflexivity].
  rewrite nth_error_map. destruct (nth_error rs (length rs - (skip + 1))); reflexivity.
Qed.

Lemma pstep_neg max_t sys ev : pq_ok (ps_rungs sys) ->
  pstep Max max_t (pneg_sys sys) (pneg_event ev) =
    (pneg_sys (fst (pstep Min max_t sys ev)), snd (pstep Min max_t sys ev)) /\
  pq_ok (ps_rungs (fst (pstep Min max_t sys ev))).
Proof.
  intro Hq. destruct ev as [|t skip resume|t r m|t]; simpl.
  - unfold p_on_task_schedule. simpl ps_rungs. rewrite (sched_scan_neg max_t _ Hq).
    pose proof (sched_scan_pq Min max_t _ Hq max_t) as Hp.
    destruct (sched_scan Min max_t (ps_rungs sys) max_t) as [rs res]. simpl. split; [reflexivity|exact Hp].
  - unfold p_on_task_add. simpl ps_rungs. rewrite first_milestone_neg.
    destruct resume as [[ms rf]|]; simpl; [destruct (rf <? ms)%Z; simpl|]; split; try reflexivity; exact Hq.
  - unfold p_on_task_report. simpl ps_running. simpl ps_rungs.
    destruct (assoc_get (ps_running sys) t) as [[ms rf]|]; simpl; [|split; [reflexivity|exact Hq]].
    destruct (ms <=? r)%Z; simpl; [|split; [reflexivity|exact Hq]].
    destruct (negb (r =? ms)%Z); simpl; [split; [reflexivity|exact Hq]|].
    rewrite register_at_neg.
    destruct (register_at Min (ps_rungs sys) ms max_t t m) as [[[rs nm]|]|] eqn:E; simpl;
      (split; [reflexivity|]); try exact Hq.
    eapply register_at_pq; [exact Hq|exact E].
  - split; [reflexivity|exact Hq].
Qed.

(* for EVERY sequence of calls: same answers (promoted trial, resume level, next milestone, pause /
   continue, errors), same state with negated metrics (same order, same promoted flags) *)
Theorem promotion_mode_symmetry max_t evs : forall sys, pq_ok (ps_rungs sys) ->
  prun Max max_t (pneg_sys sys) (map pneg_event evs) =
    (pneg_sys (fst (prun Min max_t sys evs)), snd (prun Min max_t sys evs)).
Proof.
  induction evs as [|ev evs IH]; intros sys Hq; simpl; [reflexivity|].
  destruct (pstep_neg max_t sys ev Hq) as [H1 H2]. rewrite H1.
  destruct (pstep Min max_t sys ev) as [s o]. simpl in *. rewrite (IH s H2).
  destruct (prun Min max_t s evs) as [s' os]. reflexivity.
Qed.

(* ---- failed trials (NaN) rank last in BOTH modes ------------------------------------------------ *)
From Coq Require Import Permutation.

Lemma insert_by_perm {A} (before : A -> A -> bool) x l : Permutation (insert_by before x l) (x :: l).
Proof.
  induction l as [|y l IH]; simpl; [apply Permutation_refl|].
  destruct (before y x); [|apply Permutation_refl].
  eapply Permutation_trans; [apply perm_skip; exact IH|apply perm_swap].
Qed.

Lemma stable_sort_perm {A} (before : A -> A -> bool) l : Permutation (stable_sort before l) l.
Proof.
  unfold stable_sort. induction l as [|x l IH]; simpl; [constructor|].
  eapply Permutation_trans; [apply insert_by_perm|apply perm_skip; exact IH].
Qed.

(* as long as there are enough valid entries, no failed trial is promoted - whatever the mode *)
Theorem get_top_list_failed_last rung new_len md :
  (new_len <= length (valid_entries rung))%nat ->
  forall t, In t (fst (get_top_list rung new_len md)) -> In t (map fst (valid_entries rung)).
Proof.
  intros Hlen t Hin. unfold get_top_list in Hin. simpl in Hin.
  destruct (new_len <=? length (valid_entries rung))%nat eqn:E; [|lia].
  apply in_map_iff in Hin as [e [He Hin]]. apply firstn_incl in Hin.
  apply (Permutation_in _ (stable_sort_perm _ _)) in Hin. apply in_map_iff. exists e. split; assumption.
Qed.

(* ... and the promoted list has exactly the requested length *)
Theorem get_top_list_length rung new_len md :
  (new_len <= length (valid_entries rung))%nat -> length (fst (get_top_list rung new_len md)) = new_len.
Proof.
  intro Hlen. unfold get_top_list. simpl. destruct (new_len <=? length (valid_entries rung))%nat eqn:E; [|lia].
  rewrite map_length, firstn_length, (Permutation_length (stable_sort_perm _ _)). lia.
Qed.

(* ---- MOASHA shell: whole-sequence mirror incl. on_trial_complete entries ------------------------ *)
Definition mo_mirror (mask : list bool) (ev : mo_event) : mo_event :=
  match ev with
  | MoResult t it vals => MoResult t it (negate_vals mask vals)
  | MoComplete t it vals => MoComplete t it (negate_vals mask vals)
  end.

Theorem moasha_mode_symmetry prio rf max_t mask modes evs : forall b,
  mo_run prio rf max_t (flip_modes mask modes) b (map (mo_mirror mask) evs) = mo_run prio rf max_t modes b evs.
Proof.
  induction evs as [|ev evs IH]; intro b; simpl; [reflexivity|].
  assert (Hs : mo_step prio rf max_t (flip_modes mask modes) b (mo_mirror mask ev) = mo_step prio rf max_t modes b ev).
  { destruct ev; simpl; rewrite moasha_metric_dict_mode_symmetry; reflexivity. }
  rewrite Hs, IH. reflexivity.
Qed.

(* ---- reporting layer: best trial per metric under per-metric mode lists ------------------------------------- *)
Lemma nth_negate_vals mask : forall row i,
  nth i (negate_vals mask row) 0 = if nth i mask false then - nth i row 0 else nth i row 0.
Proof.
  induction mask as [|b bs IH]; intros row i; simpl.
  - destruct i; reflexivity.
  - destruct row as [|v vs]; simpl.
    + destruct i; simpl; [destruct b; reflexivity|]. destruct (nth i bs false); reflexivity.
    + destruct i; simpl; [destruct b; reflexivity|apply IH].
Qed.

Lemma nth_error_flip_modes mask : forall modes i,
  nth_error (flip_modes mask modes) i =
  option_map (fun md => if nth i mask false then flip_mode md else md) (nth_error modes i).
Proof.
  induction mask as [|b bs IH]; intros modes i; simpl.
  - destruct (nth_error modes i); destruct i; reflexivity.
  - destruct modes as [|md ms]; simpl; [destruct i; reflexivity|].
    destruct i; simpl; [destruct b; reflexivity|apply IH].
Qed.

Definition mirror_table (mask : list bool) (table : list (Z * list (list Q))) : list (Z * list (list Q)) :=
  map (fun tl => (fst tl, map (negate_vals mask) (snd tl))) table.

Lemma metric_column_mirror mask i table :
  metric_column i (mirror_table mask table) =
  if nth i mask false then neg_table (metric_column i table) else metric_column i table.
Proof.
  unfold metric_column, mirror_table, neg_table. rewrite !map_map. simpl.
  destruct (nth i mask false) eqn:E.
  - rewrite ?map_map. apply map_ext. intros [t rows]. simpl. f_equal. rewrite ?map_map.
    apply map_ext. intro row. rewrite nth_negate_vals, E. reflexivity.
  - apply map_ext. intros [t rows]. simpl. f_equal. rewrite ?map_map.
    apply map_ext. intro row. rewrite nth_negate_vals, E. reflexivity.
Qed.

Lemma neg_table_involutive t : neg_table (neg_table t) = t.
Proof.
  unfold neg_table. rewrite map_map. simpl. rewrite <- (map_id t) at 2. apply map_ext. intros [k l]. simpl. f_equal.
  rewrite map_map. rewrite <- (map_id l) at 2. apply map_ext. intro x. apply Qopp_opp_eq.
Qed.

Lemma neg_best_involutive b : neg_best (neg_best b) = b.
Proof. destruct b as [t [v|]]; unfold neg_best; simpl; [rewrite Qopp_opp_eq|]; reflexivity. Qed.

(* both directions of the single-metric mirror *)
Lemma best_metric_flip md t :
  best_metric_found (flip_mode md) (neg_table t) = option_map neg_best (best_metric_found md t).
Proof.
  destruct md; simpl.
  - apply best_metric_mode_symmetry.
  - pose proof (best_metric_mode_symmetry (neg_table t)) as H. rewrite neg_table_involutive in H. rewrite H.
    destruct (best_metric_found Min (neg_table t)) as [b|]; simpl; [rewrite neg_best_involutive|]; reflexivity.
Qed.

(* best trial of the mirrored experiment = best trial of the original, for every metric index, every subset of flipped
   metrics and every table of results; the reported best value is negated exactly when that metric was flipped *)
Theorem tuner_best_config_mirror mask modes i table :
  tuner_best_config (MList (flip_modes mask modes)) i (mirror_table mask table) =
  option_map (fun b => if nth i mask false then neg_best b else b) (tuner_best_config (MList modes) i table).
Proof.
  unfold tuner_best_config. simpl. rewrite nth_error_flip_modes, metric_column_mirror.
  destruct (nth_error modes i) as [md|]; simpl; [|reflexivity].
  destruct (nth i mask false).
  - apply best_metric_flip.
  - destruct (best_metric_found md (metric_column i table)); reflexivity.
Qed.

Theorem tuner_best_config_mirror_str md i table :
  tuner_best_config (MStr (flip_mode md)) i (mirror_table (repeat true (S i)) table) =
  option_map neg_best (tuner_best_config (MStr md) i table).
Proof.
  unfold tuner_best_config. simpl resolve_mode. cbv iota. rewrite metric_column_mirror.
  replace (nth i (repeat true (S i)) false) with true.
  - apply best_metric_flip.
  - symmetry. clear. induction i as [|i IH]; simpl; [reflexivity|exact IH].
Qed.

(* ---- RUSH candidate selection: ranking by the best fidelity value under the sign ------------------------------ *)
From Coq Require Import Sorting.Sorted.

Lemma Qplus_opp_leib (x y : Q) : - x + - y = - (x + y).
Proof. destruct x as [a b], y as [c d]. unfold Qplus, Qopp. simpl. f_equal. ring. Qed.

Lemma Qmult_opp_leib (x y : Q) : (- x) * y = - (x * y).
Proof. destruct x as [a b], y as [c d]. unfold Qmult, Qopp. simpl. f_equal. ring. Qed.

Lemma qsum_neg l : qsum (map Qopp l) = - qsum l.
Proof.
  unfold qsum. change 0 with (- 0) at 1. generalize 0 as acc.
  induction l as [|x l IH]; intro acc; simpl; [reflexivity|]. rewrite Qplus_opp_leib. apply IH.
Qed.

Lemma qmean_neg l : qmean (map Qopp l) = - qmean l.
Proof. unfold qmean, Qdiv. rewrite qsum_neg, map_length. apply Qmult_opp_leib. Qed.

Definition neg_evals (ev : list (list Q)) : list (list Q) := map (map Qopp) ev.

Lemma tl_reduced_neg ev : tl_reduced Max (neg_evals ev) = - tl_reduced Min ev.
Proof.
  unfold tl_reduced, neg_evals. rewrite map_map.
  replace (map (fun x => qmean (map Qopp x)) ev) with (map Qopp (map qmean ev))
    by (rewrite map_map; apply map_ext; intro; symmetry; apply qmean_neg).
  rewrite agg_neg. destruct (agg Min (map qmean ev)); reflexivity.
Qed.

Section KeySort.
  Definition kasc (y x : Z * Q) : bool := Qltb (snd y) (snd x).
  Definition kdesc (y x : Z * Q) : bool := Qltb (snd x) (snd y).

  Lemma insert_asc_keys_sorted x l :
    StronglySorted (fun a b => snd a <= snd b) l -> StronglySorted (fun a b => snd a <= snd b) (insert_by kasc x l).
  Proof.
    induction 1 as [|y l Hs IH Hf]; simpl; [constructor; constructor|].
    unfold kasc at 1. destruct (Qltb (snd y) (snd x)) eqn:E.
    - apply Qltb_lt in E. constructor; [exact IH|]. rewrite Forall_forall in *. intros z Hz.
      apply (Permutation_in _ (insert_by_perm kasc x l)) in Hz. destruct Hz as [<-|Hz]; [lra|apply Hf; exact Hz].
    - assert (E' : snd x <= snd y). { apply Qnot_lt_le. intro H. apply Qltb_lt in H. congruence. }
      constructor; [constructor; assumption|]. constructor; [exact E'|].
      rewrite Forall_forall in *. intros z Hz. specialize (Hf z Hz). lra.
  Qed.

  Lemma sort_asc_keys_sorted l : StronglySorted (fun a b => snd a <= snd b) (stable_sort kasc l).
  Proof. unfold stable_sort. induction l as [|x l IH]; simpl; [constructor|apply insert_asc_keys_sorted; exact IH]. Qed.

  Lemma insert_desc_keys_sorted x l :
    StronglySorted (fun a b => snd b <= snd a) l -> StronglySorted (fun a b => snd b <= snd a) (insert_by kdesc x l).
  Proof.
    induction 1 as [|y l Hs IH Hf]; simpl; [constructor; constructor|].
    unfold kdesc at 1. destruct (Qltb (snd x) (snd y)) eqn:E.
    - apply Qltb_lt in E. constructor; [exact IH|]. rewrite Forall_forall in *. intros z Hz.
      apply (Permutation_in _ (insert_by_perm kdesc x l)) in Hz. destruct Hz as [<-|Hz]; [lra|apply Hf; exact Hz].
    - assert (E' : snd y <= snd x). { apply Qnot_lt_le. intro H. apply Qltb_lt in H. congruence. }
      constructor; [constructor; assumption|]. constructor; [exact E'|].
      rewrite Forall_forall in *. intros z Hz. specialize (Hf z Hz). lra.
  Qed.

  Lemma sort_desc_keys_sorted l : StronglySorted (fun a b => snd b <= snd a) (stable_sort kdesc l).
  Proof. unfold stable_sort. induction l as [|x l IH]; simpl; [constructor|apply insert_desc_keys_sorted; exact IH]. Qed.

  (* pairwise different keys: an ascending arrangement is unique *)
  Definition distinct_keys (l : list (Z * Q)) : Prop := forall a b, In a l -> In b l -> snd a == snd b -> a = b.

  Lemma sorted_perm_unique l1 : forall l2, distinct_keys l1 ->
    StronglySorted (fun a b => snd a <= snd b) l1 -> StronglySorted (fun a b => snd a <= snd b) l2 ->
    Permutation l1 l2 -> l1 = l2.
  Proof.
    induction l1 as [|x l1 IH]; intros l2 Hd S1 S2 P.
    - apply Permutation_nil in P. subst. reflexivity.
    - destruct l2 as [|y l2]; [apply Permutation_sym, Permutation_nil in P; discriminate|].
      inversion S1 as [|? ? S1' F1]; subst. inversion S2 as [|? ? S2' F2]; subst. rewrite Forall_forall in F1, F2.
      assert (Hin1 : In y (x :: l1)) by (eapply Permutation_in; [apply Permutation_sym; exact P|left; reflexivity]).
      assert (Hin2 : In x (y :: l2)) by (eapply Permutation_in; [exact P|left; reflexivity]).
      assert (E : x = y).
      { destruct Hin1 as [->|Hy]; [reflexivity|]. destruct Hin2 as [->|Hx]; [reflexivity|].
        apply Hd; [left; reflexivity|right; exact Hy|]. specialize (F1 y Hy). specialize (F2 x Hx). lra. }
      subst y. f_equal. apply IH; try assumption.
      + intros a b Ha Hb. apply Hd; right; assumption.
      + eapply Permutation_cons_inv. exact P.
  Qed.

  Lemma rev_desc_is_asc l : distinct_keys l -> rev (stable_sort kdesc l) = stable_sort kasc l.
  Proof.
    intro Hd. apply sorted_perm_unique.
    - intros a b Ha Hb. apply Hd.
      + apply (Permutation_in _ (stable_sort_perm kdesc l)). apply in_rev. exact Ha.
      + apply (Permutation_in _ (stable_sort_perm kdesc l)). apply in_rev. exact Hb.
    - apply (ssorted_rev_gen (fun a b => snd b <= snd a)). apply sort_desc_keys_sorted.
    - apply sort_asc_keys_sorted.
    - eapply Permutation_trans; [apply Permutation_sym, Permutation_rev|].
      eapply Permutation_trans; [apply stable_sort_perm|apply Permutation_sym, stable_sort_perm].
  Qed.
End KeySort.

(* RUSH candidates of the mirrored experiment (mode max on the negated offline evaluations) = candidates of the
   original, whenever the seed-averaged best-fidelity values of the configurations are pairwise different *)
Theorem tl_topk_mode_symmetry k evs :
  distinct_keys (map (fun e => (fst e, tl_reduced Min (snd e))) evs) ->
  tl_topk Max k (map (fun e => (fst e, neg_evals (snd e))) evs) = tl_topk Min k evs.
Proof.
  intro Hd. unfold tl_topk. f_equal. rewrite map_map. simpl.
  set (keyed := map (fun e => (fst e, tl_reduced Min (snd e))) evs) in *.
  replace (map (fun x : Z * list (list Q) => (fst x, tl_reduced Max (neg_evals (snd x)))) evs) with (map neg_pair keyed).
  - fold kasc. rewrite (stable_sort_map neg_pair kdesc kasc keyed).
    + rewrite <- map_rev, map_fst_neg_pair. rewrite (rev_desc_is_asc keyed Hd). reflexivity.
    + intros y x. unfold kasc, kdesc. simpl. apply Qltb_neg.
  - unfold keyed. rewrite map_map. apply map_ext. intro e. unfold neg_pair. simpl. rewrite tl_reduced_neg. reflexivity.
Qed.

(* what the selection is: the k configurations with the smallest (min) best-fidelity value, in ascending order *)
Theorem tl_topk_min_sorted k evs :
  tl_topk Min k evs = firstn k (map fst (stable_sort kasc (map (fun e => (fst e, tl_reduced Min (snd e))) evs))) /\
  StronglySorted (fun a b => snd a <= snd b) (stable_sort kasc (map (fun e => (fst e, tl_reduced Min (snd e))) evs)).
Proof. split; [reflexivity|apply sort_asc_keys_sorted]. Qed.
