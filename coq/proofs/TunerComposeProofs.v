(* TunerComposeProofs.v — composition of the tuning loop (model/Tuner.v) with a scheduler that follows a
   stated DISCIPLINE about which trials it asks to resume (C01: "only a paused trial is ever resumed"
   without the disjunct "or the run ends with the backend's assertion error"). *)
From Verif Require Import model.Base model.Tuner proofs.TunerProofs.
From Coq Require Import Lia.
Local Open Scope nat_scope.

(* ---- the scheduler's own view of a trial, computed from ITS side of the trace -------------------
   (calls it received and answers it gave; newest event first):
     SVRunning  after on_trial_add, after a CONTINUE answer, after it suggested to resume the trial
     SVPaused   its answer to the last delivered result of the trial was PAUSE (and no resume suggested since)
     SVStopped  its answer to the last delivered result was STOP
     SVEnded    it was told on_trial_complete / on_trial_error                                        *)
Inductive sv := SVUnknown | SVRunning | SVPaused | SVStopped | SVEnded.
Definition sv_eqb (a b : sv) : bool :=
  match a, b with
  | SVUnknown, SVUnknown | SVRunning, SVRunning | SVPaused, SVPaused | SVStopped, SVStopped | SVEnded, SVEnded => true
  | _, _ => false
  end.
Lemma sv_eqb_eq a b : sv_eqb a b = true <-> a = b.
Proof. destruct a, b; simpl; split; intro H; try reflexivity; discriminate. Qed.

Fixpoint sview (t : nat) (tr : list event) : sv :=
  match tr with
  | [] => SVUnknown
  | e :: tr' =>
      match e with
      | ESAdd t' => if Nat.eqb t' t then SVRunning else sview t tr'
      | ESResult t' _ d =>
          if Nat.eqb t' t then match d with CONTINUE => SVRunning | PAUSE => SVPaused | STOP => SVStopped end
          else sview t tr'
      | ESComplete t' _ => if Nat.eqb t' t then SVEnded else sview t tr'
      | ESError t' => if Nat.eqb t' t then SVEnded else sview t tr'
      | ESSuggest _ (SResume t' _) => if Nat.eqb t' t then SVRunning else sview t tr'
      | _ => sview t tr'
      end
  end.

(* DISCIPLINE D: the scheduler suggests Resume t only for a trial it paused itself (its answer to the
   trial's last delivered result was PAUSE) and has not asked to resume since; in particular never for a
   trial it answered STOP for, or that it was told completed / failed, or that it does not know. *)
Fixpoint Dok (tr : list event) : Prop :=
  match tr with
  | [] => True
  | e :: tr' => Dok tr' /\ match e with ESSuggest _ (SResume t _) => sview t tr' = SVPaused | _ => True end
  end.
Fixpoint dok_b (tr : list event) : bool :=
  match tr with
  | [] => true
  | e :: tr' => dok_b tr' && match e with ESSuggest _ (SResume t _) => sv_eqb (sview t tr') SVPaused | _ => true end
  end.
Lemma dok_b_sound tr : dok_b tr = true <-> Dok tr.
Proof.
  induction tr as [|e tr IH]; simpl; [tauto|]. rewrite andb_true_iff, IH.
  destruct e; try tauto. destruct sg; try tauto. rewrite sv_eqb_eq. tauto.
Qed.

Lemma Dok_app new tr : Dok (new ++ tr) -> Dok tr.
Proof. induction new as [|e new IH]; simpl; [auto|]. intros [H _]. auto. Qed.

(* events that change the scheduler's view of trial x *)
Definition saffects (x : nat) (e : event) : bool :=
  match e with
  | ESAdd t' | ESResult t' _ _ | ESComplete t' _ | ESError t' | ESSuggest _ (SResume t' _) => Nat.eqb t' x
  | _ => false
  end.
Lemma sview_app_other x new tr : (forall e, In e new -> saffects x e = false) -> sview x (new ++ tr) = sview x tr.
Proof.
  induction new as [|e new IH]; simpl; [reflexivity|]. intro H.
  assert (He := H e (or_introl eq_refl)). rewrite IH by (intros e' He'; apply H; right; exact He').
  destruct e; simpl in He; try reflexivity; try (rewrite He; reflexivity).
  destruct sg; try reflexivity. rewrite He. reflexivity.
Qed.

Section Compose.
Variable prm : params.
Variable o : oracles.
Notation w_of st t := (b_w (s_bt st t)).
Notation td_of st t := (b_td (s_bt st t)).

(* what the scheduler believes to be paused IS paused in the backend's records *)
Definition Q (st : state) : Prop :=
  forall t, sview t (s_trace st) = SVPaused -> td_of st t = Paused /\ t < s_ntrials st.

Lemma Q_step st st' t0 new :
  s_trace st' = new ++ s_trace st ->
  (forall x, x <> t0 -> forall e, In e new -> saffects x e = false) ->
  (forall x, x <> t0 -> td_of st' x = td_of st x) ->
  s_ntrials st <= s_ntrials st' ->
  (sview t0 (s_trace st') = SVPaused -> td_of st' t0 = Paused /\ t0 < s_ntrials st') ->
  Q st -> Q st'.
Proof.
  intros Htr Hoth Htd Hn Ht0 HQ t Ht. destruct (Nat.eq_dec t t0) as [->|Hne]; [auto|].
  rewrite Htr, sview_app_other in Ht by (apply Hoth; exact Hne).
  destruct (HQ t Ht) as [A B]. rewrite Htd by exact Hne. split; [exact A|lia].
Qed.

Lemma Q_quiet st st' new :
  s_trace st' = new ++ s_trace st -> (forall x e, In e new -> saffects x e = false) ->
  (forall x, sview x (s_trace st) = SVPaused -> td_of st' x = td_of st x) ->
  s_ntrials st <= s_ntrials st' -> Q st -> Q st'.
Proof.
  intros Htr Hq Htd Hn HQ t Ht. rewrite Htr, sview_app_other in Ht by (intros e He; eapply Hq; eauto).
  destruct (HQ t Ht) as [A B]. rewrite Htd by exact Ht. split; [exact A|lia].
Qed.

Lemma neq_eqb (a b : nat) : a <> b -> Nat.eqb b a = false.
Proof. intro H. apply Nat.eqb_neq. congruence. Qed.

(* one result: needs to know that the trial is running/reporting (so it is a known trial) *)
Lemma result_step_Q sd ks st done r st' done' :
  result_step o sd (st, done) r = (st', done') -> In (fst (fst r)) ks ->
  LI st -> PRok st ks done -> Q st -> Q st'.
Proof.
  unfold result_step. destruct r as [[t idx] rep]. cbn [fst]. destruct (amem t done) eqn:Em.
  { intro H; injection H as <- <-. auto. }
  destruct (notify_result o sd t idx st) as [[st1 s] d] eqn:En. intros Ha Ht HLI HPR HQ.
  apply notify_result_spec in En. destruct En as (_ & _ & Hc1 & Hbt1 & Htr1 & _).
  apply apply_decision_spec in Ha. destruct Ha as (Hc2 & _ & Ha).
  assert (Hpt : phase_of t (s_trace st) = PR) by (apply HPR; auto).
  assert (Hlt : t < s_ntrials st).
  { destruct HLI as (_ & L3 & _). destruct (Nat.lt_ge_cases t (s_ntrials st)) as [H|H]; [exact H|].
    apply L3 in H. congruence. }
  assert (Hn1 : s_ntrials st1 = s_ntrials st) by apply Hc1.
  assert (Hn2 : s_ntrials st' = s_ntrials st1) by apply Hc2.
  destruct d.
  - destruct Ha as [-> _].
    apply (Q_step st st1 t [ECbResult t s idx CONTINUE; ESResult t idx CONTINUE]); auto; try lia.
    + intros x Hx e [<-|[<-|[]]]; simpl; auto using neq_eqb.
    + intros x _. rewrite Hbt1. reflexivity.
    + rewrite Htr1. simpl. rewrite Nat.eqb_refl. discriminate.
  - destruct Ha as (_ & _ & Htr2 & _ & Htd2).
    apply (Q_step st st' t [ESRemove t; EBPause t; ECbResult t s idx PAUSE; ESResult t idx PAUSE]); auto; try lia.
    + rewrite Htr2, Htr1. reflexivity.
    + intros x Hx e [<-|[<-|[<-|[<-|[]]]]]; simpl; auto using neq_eqb.
    + intros x Hx. rewrite Htd2, Hbt1. apply Nat.eqb_neq in Hx. rewrite Hx. reflexivity.
    + intros _. rewrite Htd2, Nat.eqb_refl. split; [reflexivity|lia].
  - destruct Ha as (_ & Htd2 & Ha).
    assert (Hcase : exists new, s_trace st' = new ++ s_trace st /\ sview t (new ++ s_trace st) = SVStopped /\
              (forall x, x <> t -> forall e, In e new -> saffects x e = false)).
    { destruct s;
        try (destruct Ha as (_ & Htr2 & _);
             eexists [ESRemove t; EBStop t; ECbResult t _ idx STOP; ESResult t idx STOP];
             split; [rewrite Htr2, Htr1; reflexivity|]; split; [simpl; rewrite Nat.eqb_refl; reflexivity|];
             intros x Hx e [<-|[<-|[<-|[<-|[]]]]]; simpl; auto using neq_eqb).
      destruct Ha as (_ & Htr2 & _).
      exists [ESRemove t; ECbResult t Completed idx STOP; ESResult t idx STOP].
      split; [rewrite Htr2, Htr1; reflexivity|]. split; [simpl; rewrite Nat.eqb_refl; reflexivity|].
      intros x Hx e [<-|[<-|[<-|[]]]]; simpl; auto using neq_eqb. }
    destruct Hcase as (new & Htr' & Hsv & Hoth).
    apply (Q_step st st' t new); auto; try lia.
    + intros x _. rewrite Htd2, Hbt1. reflexivity.
    + rewrite Htr', Hsv. discriminate.
Qed.

Lemma status_step_Q st done err e st' done' err' :
  status_step (st, done, err) e = (st', done', err') -> Q st -> Q st'.
Proof.
  unfold status_step. destruct err as [e0|]; [intro H; injection H as <- <- <-; auto|].
  destruct e as [t s]. intros H HQ.
  assert (Hend : forall ev extra stx, (ev = ESComplete t 0 \/ ev = ESError t \/ exists i, ev = ESComplete t i) ->
            (forall x e, In e extra -> saffects x e = false) ->
            s_trace stx = extra ++ ev :: s_trace st -> s_bt stx = s_bt st -> s_ntrials stx = s_ntrials st -> Q stx).
  { intros ev extra stx Hev Hex Htr Hbt Hn.
    apply (Q_step st stx t (extra ++ [ev])); auto; try lia.
    - rewrite Htr, <- app_assoc. reflexivity.
    - intros x Hx e He. apply in_app_or in He. destruct He as [He|[<-|[]]]; [eapply Hex; eauto|].
      destruct Hev as [->|[->|[i ->]]]; simpl; auto using neq_eqb.
    - intros x _. rewrite Hbt. reflexivity.
    - rewrite Htr. rewrite sview_app_other by (intros e He; eapply Hex; eauto).
      destruct Hev as [->|[->|[i ->]]]; simpl; rewrite Nat.eqb_refl; discriminate. }
  assert (Hquiet : forall extra stx, (forall x e, In e extra -> saffects x e = false) ->
            s_trace stx = extra ++ s_trace st -> s_bt stx = s_bt st -> s_ntrials stx = s_ntrials st -> Q stx).
  { intros extra stx Hex Htr Hbt Hn. apply (Q_quiet st stx extra); auto; try lia. intros x _. rewrite Hbt. reflexivity. }
  destruct s; try solve [injection H as <- <- <-; auto].
  - destruct (s_last st t) as [idx|]; [|injection H as <- <- <-; auto].
    destruct (amem t done); destruct (match aget t done with Some Paused => Paused | _ => Completed end);
      injection H as <- <- <-;
      first [ apply (Hquiet []); [intros x e []|reflexivity|reflexivity|reflexivity]
            | apply (Hquiet [ECbComplete t idx]); [intros x e [<-|[]]; reflexivity|reflexivity|reflexivity|reflexivity]
            | apply (Hend (ESComplete t idx) []); [right; right; eexists; reflexivity|intros x e []|reflexivity|reflexivity|reflexivity]
            | apply (Hend (ESComplete t idx) [ECbComplete t idx]); [right; right; eexists; reflexivity|intros x e [<-|[]]; reflexivity|reflexivity|reflexivity|reflexivity] ].
  - destruct (amem t done); injection H as <- <- <-.
    + apply (Hquiet []); [intros x e []|reflexivity|reflexivity|reflexivity].
    + apply (Hend (ESError t) []); [auto|intros x e []|reflexivity|reflexivity|reflexivity].
  - destruct (mem_nat t (s_sstopped st)); injection H as <- <- <-; [auto|].
    apply (Hend (ESError t) []); [auto|intros x e []|reflexivity|reflexivity|reflexivity].
Qed.

Lemma loop1_Q sd ks rs : forall st done st' done',
  loop1 o sd rs st done = (st', done') ->
  (forall r, In r rs -> In (fst (fst r)) ks /\ hidden (sd_status (fst (fst r)) sd) = false) ->
  LI st -> PRok st ks done -> Q st -> Q st'.
Proof.
  unfold loop1. induction rs as [|r rs IH]; intros st done st' done' H Hrs HLI HPR HQ; cbn [fold_left] in H.
  - injection H as <- <-. exact HQ.
  - destruct (result_step o sd (st, done) r) as [st1 done1] eqn:E1.
    destruct (Hrs r (or_introl eq_refl)) as [Hr1 _].
    pose proof (result_step_life _ _ _ _ _ _ _ _ E1 Hr1 HLI HPR) as [HLI1 HPR1].
    pose proof (result_step_Q _ _ _ _ _ _ _ E1 Hr1 HLI HPR HQ) as HQ1.
    eapply IH; [exact H| | | |]; auto. intros r' Hr'. apply Hrs. right. exact Hr'.
Qed.

Lemma loop2_Q sd : forall st done err st' done' err',
  fold_left status_step sd (st, done, err) = (st', done', err') -> Q st -> Q st'.
Proof.
  induction sd as [|e sd IH]; intros st done err st' done' err' H HQ; cbn [fold_left] in H.
  - injection H as <- <- <-. exact HQ.
  - destruct (status_step (st, done, err) e) as [[st1 done1] err1] eqn:E1.
    apply status_step_Q in E1; [|exact HQ]. eapply IH; eauto.
Qed.

(* errors raised inside _process_new_results are never resume errors *)
Definition poll_error (e : error) : Prop := e = EAssertBudget \/ exists t, e = ENoMetrics t.

Lemma pnr_Q st st' done err :
  process_new_results prm o st = (st', done, err) -> NoDup (s_running st) ->
  LI st -> (forall t, In t (s_running st) -> phase_of t (s_trace st) = PR) -> Q st ->
  Q st' /\ (forall e, err = Some e -> poll_error e).
Proof.
  unfold process_new_results.
  set (order := poll_order (s_running st) (o_ord o (s_np st))).
  set (st0 := emit (EBFetch order) (set_np st (S (s_np st)))).
  destruct (fetch o order st0) as [[st1 sd] rs] eqn:Ef.
  intros H Hnd HLI HR HQ.
  assert (HLI0 : LI st0 /\ forall x, phase_of x (s_trace st0) = phase_of x (s_trace st)).
  { apply (LI_quiet st st0 [EBFetch order]); auto. intros x e [<-|[]]. reflexivity. }
  destruct HLI0 as [HLI0 Hph0].
  assert (HQ0 : Q st0).
  { apply (Q_quiet st st0 [EBFetch order]); auto. intros x e [<-|[]]. reflexivity. }
  pose proof (fetch_LI _ _ _ _ _ _ Ef HLI0) as [HLI1 Hph1].
  apply fetch_spec in Ef. destruct Ef as (A & _ & _ & _ & Htd' & _ & Hsdk & Hsd & Hrs).
  assert (HQ1 : Q st1).
  { apply (Q_quiet st0 st1 []); auto.
    - destruct A as (_ & _ & -> & _). reflexivity.
    - intros x e [].
    - intros x Hx. apply Htd'. intro Hin. apply poll_order_incl in Hin.
      destruct (HQ0 x Hx) as [Htdp _]. destruct HLI0 as (_ & _ & L4).
      assert (Hz : phase_of x (s_trace st0) = PZ) by (apply L4; left; exact Htdp).
      rewrite Hph0, (HR x Hin) in Hz. discriminate.
    - destruct A as (_ & -> & _). lia. }
  set (st1' := emit (ECbFetch sd (map (fun r => (fst (fst r), snd (fst r))) rs)) st1) in *.
  assert (HLI1' : LI st1' /\ forall x, phase_of x (s_trace st1') = phase_of x (s_trace st1)).
  { apply (LI_quiet st1 st1' [ECbFetch sd (map (fun r => (fst (fst r), snd (fst r))) rs)]); auto.
    intros x e [<-|[]]. reflexivity. }
  destruct HLI1' as [HLI1' Hph1'].
  assert (HQ1' : Q st1').
  { apply (Q_quiet st1 st1' [ECbFetch sd (map (fun r => (fst (fst r), snd (fst r))) rs)]); auto.
    intros x e [<-|[]]. reflexivity. }
  assert (HPR1 : PRok st1' order []).
  { intros t Ht _. rewrite Hph1', Hph1, Hph0. apply HR. eapply poll_order_incl; eauto. }
  destruct (Nat.ltb (n_workers prm) (length (s_running st1'))).
  { injection H as <- <- <-. split; [exact HQ1'|]. intros e He. injection He as <-. left. reflexivity. }
  destruct (loop1 o sd rs st1' []) as [st2 done2] eqn:E1.
  assert (Hrs' : forall r, In r rs -> In (fst (fst r)) order /\ hidden (sd_status (fst (fst r)) sd) = false).
  { intros r Hr. destruct (Hrs r Hr) as [Hr1 Hr2]. split; [exact Hr1|].
    rewrite (sd_status_w st1 sd); [exact Hr2|exact Hsd|rewrite Hsdk; exact Hr1]. }
  pose proof (loop1_Q _ _ _ _ _ _ _ E1 Hrs' HLI1' HPR1 HQ1') as HQ2.
  destruct (loop2 sd st2 done2) as [[st3 done3] err3] eqn:E2. unfold loop2 in E2.
  pose proof (loop2_Q _ _ _ _ _ _ _ E2 HQ2) as HQ3.
  pose proof (loop2_err _ _ _ _ _ _ _ E2) as Herr.
  destruct err3; injection H as <- <- <-.
  - split; [exact HQ3|]. intros e0 He. injection He as <-.
    destruct Herr as [H|[t H]]; [discriminate|]. injection H as ->. right. eauto.
  - split; [|discriminate].
    destruct (status_update_frame (aupdate sd done3) rs st3) as (_ & F2 & F3 & F4 & _).
    intros t Ht. rewrite F4 in Ht. destruct (HQ3 t Ht) as [B C]. rewrite F3, F2. auto.
Qed.

Lemma poll_Q st st' err :
  poll prm o st = (st', err) -> binv prm st -> LInv st -> Q st ->
  Q st' /\ (forall e, err = Some e -> poll_error e).
Proof.
  unfold poll. destruct (process_new_results prm o (emit ECbLoopStart st)) as [[st1 done] err1] eqn:E.
  intros H Hb [HLI HR] HQ.
  assert (HLI0 : LI (emit ECbLoopStart st) /\ forall x, phase_of x (s_trace (emit ECbLoopStart st)) = phase_of x (s_trace st)).
  { apply (LI_quiet st (emit ECbLoopStart st) [ECbLoopStart]); auto; try (intros x e [<-|[]]; reflexivity). }
  destruct HLI0 as [HLI0 Hph0].
  assert (HQ0 : Q (emit ECbLoopStart st)).
  { apply (Q_quiet st (emit ECbLoopStart st) [ECbLoopStart]); auto. intros x e [<-|[]]. reflexivity. }
  apply pnr_Q in E; [|apply Hb|exact HLI0|intros t Ht; rewrite Hph0; apply HR; exact Ht|exact HQ0].
  destruct E as [HQ1 Herr]. destruct err1; injection H as <- <-; [auto|].
  split; [|discriminate]. intros t Ht. apply (HQ1 t Ht).
Qed.

Lemma schedule_new_task_Q st st' r : schedule_new_task o st = (st', r) -> Q st -> Q st'.
Proof.
  unfold schedule_new_task. intros H HQ. set (n := s_ntrials st) in *.
  destruct (o_sug o (s_ns st)) as [|cfg ck|id cfg].
  - injection H as <- <-. apply (Q_quiet st _ [ESSuggest n SNothing]); auto. intros x e [<-|[]]. reflexivity.
  - injection H as <- <-.
    apply (Q_step st _ n [ECbStart n; ESAdd n; EBStart n cfg ck; ESSuggest n (SStart cfg ck)]); auto.
    + intros x Hx e [<-|[<-|[<-|[<-|[]]]]]; simpl; auto using neq_eqb.
    + intros x Hx. simpl. rewrite upd_other by exact Hx. reflexivity.
    + simpl. lia.
    + simpl. rewrite Nat.eqb_refl. discriminate.
  - destruct (Nat.ltb id n) eqn:Eid.
    2:{ injection H as <- <-. apply (Q_step st _ id [ESSuggest n (SResume id cfg)]); auto.
        - intros x Hx e [<-|[]]. simpl. auto using neq_eqb.
        - simpl. rewrite Nat.eqb_refl. discriminate. }
    destruct (b_td (s_bt (emit (ESSuggest n (SResume id cfg)) (set_ns st (S (s_ns st)))) id)) eqn:Etd;
      try (injection H as <- <-; apply (Q_step st _ id [ESSuggest n (SResume id cfg)]); auto;
           [intros x Hx e [<-|[]]; simpl; auto using neq_eqb | simpl; rewrite Nat.eqb_refl; discriminate]).
    injection H as <- <-.
    apply (Q_step st _ id [ECbResume id; EBResume id cfg; ESSuggest n (SResume id cfg)]); auto.
    + intros x Hx e [<-|[<-|[<-|[]]]]; simpl; auto using neq_eqb.
    + intros x Hx. simpl. rewrite upd_other by exact Hx. reflexivity.
    + simpl. rewrite Nat.eqb_refl. discriminate.
Qed.

(* under the discipline, a suggestion to resume never hits the backend's assertions *)
Lemma schedule_new_task_D st st' e :
  schedule_new_task o st = (st', SErr e) -> Q st -> Dok (s_trace st') -> False.
Proof.
  unfold schedule_new_task. intros H HQ HD. set (n := s_ntrials st) in *.
  destruct (o_sug o (s_ns st)) as [|cfg ck|id cfg]; try discriminate.
  assert (Hsv : sview id (s_trace st) = SVPaused).
  { destruct (Nat.ltb id n); [destruct (b_td _); try discriminate|]; injection H as <- _; simpl in HD; apply HD. }
  destruct (HQ id Hsv) as [Htd Hlt].
  apply Nat.ltb_lt in Hlt. fold n in Hlt. rewrite Hlt in H. simpl in H. rewrite Htd in H. discriminate.
Qed.

Lemma schedule_k_Q k : forall st st' r, schedule_k o k st = (st', r) -> Q st ->
  Q st' /\ (forall e, r = SErr e -> Dok (s_trace st') -> exists j, e = ECkptMissing j).
Proof.
  induction k as [|k IH]; intros st st' r H HQ; simpl in H.
  - injection H as <- <-. split; [exact HQ|discriminate].
  - destruct (ckpt_missing o st) as [j|] eqn:Ec.
    { injection H as <- <-. split.
      - apply (Q_quiet st _ [ESSuggest (s_ntrials st) (o_sug o (s_ns st))]); auto. intros x e [<-|[]].
        unfold ckpt_missing in Ec. destruct (o_sug o (s_ns st)) as [|cfg [kk|]|id cfg]; try discriminate. reflexivity.
      - intros e He _. injection He as <-. exists j. reflexivity. }
    destruct (schedule_new_task o st) as [st1 r1] eqn:E1.
    pose proof (schedule_new_task_Q _ _ _ E1 HQ) as HQ1.
    destruct r1.
    + exact (IH _ _ _ H HQ1).
    + injection H as <- <-. split; [exact HQ1|discriminate].
    + injection H as <- <-. split; [exact HQ1|]. intros e0 He HD. injection He as <-.
      exfalso. eapply schedule_new_task_D; eauto.
Qed.

Lemma schedule_new_tasks_Q st st' r : schedule_new_tasks prm o st = (st', r) -> Q st ->
  Q st' /\ (forall e, r = SErr e -> Dok (s_trace st') -> exists j, e = ECkptMissing j).
Proof.
  intros H HQ. apply schedule_new_tasks_cases in H. destruct H as (st1 & Hbl & Hc).
  assert (HQ1 : Q st1).
  { destruct Hbl as [->|[busy Hb]]; [exact HQ|]. apply busy_look_spec in Hb.
    destruct Hb as (_ & R2 & Ht & _ & _ & _ & _ & _ & Htd & _).
    apply (Q_quiet st st1 [EBBusy busy]); auto; try lia. intros x e [<-|[]]. reflexivity. }
  destruct Hc as [[-> ->]|(k & _ & Hk)].
  - split; [|discriminate]. apply (Q_quiet st1 _ [ECbSleep]); auto. intros x e [<-|[]]. reflexivity.
  - eapply schedule_k_Q; eauto.
Qed.

Lemma iteration_end_Q st st' c : iteration_end prm o st = (st', c) -> Q st -> Q st'.
Proof.
  unfold iteration_end, stop_condition. intros H HQ. injection H as <- _.
  eapply (Q_quiet st _ [_; _]); auto; [reflexivity|].
  intros x e [<-|[<-|[]]]; reflexivity.
Qed.

Definition resume_err (x : loop_exit) : Prop :=
  exists t, x = LExit (Some (EResumeNotPaused t)) \/ x = LExit (Some (EResumeUnknown t)).

(* INTERFACE THEOREM: for every scheduler oracle whose answers satisfy the discipline on the trace of the
   run, the try block never ends with the backend's resume assertions. *)
Theorem run_loop_discipline fuel st x :
  run_loop prm o fuel = (st, x) -> Dok (s_trace st) -> ~ resume_err x.
Proof.
  unfold run_loop. destruct (stop_condition prm o (emit ECbTuningStart init_state)) as [st0 c0] eqn:E0. intro H.
  eapply (loop_rule2 prm o
    (fun s _ _ => binv prm s /\ LInv s /\ Q s) (fun s _ _ => binv prm s /\ LInv s /\ Q s)
    (fun s x => Dok (s_trace s) -> ~ resume_err x)); [| | | | | |exact H|].
  - intros s c ex _ _ [t [Hx|Hx]]; discriminate.
  - intros s c ex _ _ _ [t [Hx|Hx]]; discriminate.
  - intros s c ex s' err (A & B & C) _ Ep.
    pose proof (poll_Q _ _ _ Ep A B C) as [HQ' Herr].
    pose proof (poll_life _ _ _ _ _ Ep A B) as [_ HI].
    apply poll_budget in Ep; [|exact A]. destruct Ep as (Hb1 & _).
    destruct err as [e|]; [|auto].
    intros _ [t [Hx|Hx]]; injection Hx as ->; destruct (Herr _ eq_refl) as [He|[t' He]]; discriminate.
  - intros s c ex _ _ _ _ [t [Hx|Hx]]; discriminate.
  - intros s c ex s' c' (A & B & C) _ _ Ei. split; [|split].
    + eapply iteration_end_budget; [exact Ei|apply binv_emit; exact A].
    + eapply iteration_end_life; [exact Ei|]. apply LInv_emit_quiet; [reflexivity|exact B].
    + eapply iteration_end_Q; [exact Ei|]. apply (Q_quiet s _ [ECbSleep]); auto. intros y e [<-|[]]. reflexivity.
  - intros s c ex s2 r (A & B & C) _ Es.
    pose proof (schedule_new_tasks_Q _ _ _ Es C) as [HQ2 Herr].
    pose proof (schedule_new_tasks_life _ _ _ _ _ Es B) as HL2.
    pose proof (schedule_new_tasks_budget _ _ _ _ _ Es A) as (Hb2 & _).
    destruct r.
    + intros s3 c' Ei. split; [eapply iteration_end_budget; eauto|split; [eapply iteration_end_life; eauto|eapply iteration_end_Q; eauto]].
    + intros s3 c' Ei. split; [eapply iteration_end_budget; eauto|split; [eapply iteration_end_life; eauto|eapply iteration_end_Q; eauto]].
    + intros HD [t [Hx|Hx]]; injection Hx as ->; destruct (Herr _ eq_refl HD) as [j Hj]; discriminate.
  - unfold stop_condition in E0. injection E0 as <- _. split; [|split].
    + unfold binv. simpl. repeat split; [constructor|lia|intros t Ht; lia].
    + unfold LInv, LI. simpl. repeat split; auto; try discriminate.
      * intros t [Hx|Hx]; discriminate.
      * intros t [].
    + intros t Ht. simpl in Ht. discriminate.
Qed.

(* every exception that can leave the try block: the assertion / missing-metric errors of a poll, a resume the
   backend refuses, or a start that failed half-way (copy_checkpoint raised) - and then nothing was registered *)
Definition exit_error_kind (st : state) (e : error) : Prop :=
  poll_error e \/ resume_error e \/ failed_start_shape st e.
Theorem run_loop_error_kinds fuel st e :
  run_loop prm o fuel = (st, LExit (Some e)) -> exit_error_kind st e.
Proof.
  unfold run_loop. destruct (stop_condition prm o (emit ECbTuningStart init_state)) as [st0 c0] eqn:E0. intro H.
  revert e H. 
  assert (G : forall x, loop prm o fuel st0 c0 false = (st, x) -> forall e, x = LExit (Some e) -> exit_error_kind st e);
    [|intros e H; exact (G _ H e eq_refl)].
  intros x H.
  eapply (loop_rule2 prm o
    (fun s _ _ => binv prm s /\ LInv s /\ Q s) (fun s _ _ => binv prm s /\ LInv s /\ Q s)
    (fun s x => forall e, x = LExit (Some e) -> exit_error_kind s e)); [| | | | | |exact H|].
  - intros s c ex _ e Hx; discriminate.
  - intros s c ex _ _ e Hx; discriminate.
  - intros s c ex s' err (A & B & C) _ Ep.
    pose proof (poll_Q _ _ _ Ep A B C) as [HQ' Herr].
    pose proof (poll_life _ _ _ _ _ Ep A B) as [_ HI].
    apply poll_budget in Ep; [|exact A]. destruct Ep as (Hb1 & _).
    destruct err as [e|]; [|auto].
    intros e0 Hx. injection Hx as <-. left. apply Herr. reflexivity.
  - intros s c ex _ _ _ e Hx; discriminate.
  - intros s c ex s' c' (A & B & C) _ _ Ei. split; [|split].
    + eapply iteration_end_budget; [exact Ei|apply binv_emit; exact A].
    + eapply iteration_end_life; [exact Ei|]. apply LInv_emit_quiet; [reflexivity|exact B].
    + eapply iteration_end_Q; [exact Ei|]. apply (Q_quiet s _ [ECbSleep]); auto. intros y e [<-|[]]. reflexivity.
  - intros s c ex s2 r (A & B & C) _ Es.
    pose proof (schedule_new_tasks_Q _ _ _ Es C) as [HQ2 _].
    pose proof (schedule_new_tasks_life _ _ _ _ _ Es B) as HL2.
    pose proof (schedule_new_tasks_budget _ _ _ _ _ Es A) as (Hb2 & _).
    destruct r.
    + intros s3 c' Ei. split; [eapply iteration_end_budget; eauto|split; [eapply iteration_end_life; eauto|eapply iteration_end_Q; eauto]].
    + intros s3 c' Ei. split; [eapply iteration_end_budget; eauto|split; [eapply iteration_end_life; eauto|eapply iteration_end_Q; eauto]].
    + intros e0 Hx. injection Hx as <-. right. eapply schedule_new_tasks_fault; eauto.
  - unfold stop_condition in E0. injection E0 as <- _. split; [|split].
    + unfold binv. simpl. repeat split; [constructor|lia|intros t Ht; lia].
    + unfold LInv, LI. simpl. repeat split; auto; try discriminate.
      * intros t [Hx|Hx]; discriminate.
      * intros t [].
    + intros t Ht. simpl in Ht. discriminate.
Qed.

(* the finally block after ANY exit of the try block: whatever was raised (a start that failed half-way included),
   stop_all leaves no trial InProgress, and the exception that escapes run() is the one that left the try block,
   or the failure-limit error raised after stop_all *)
Theorem run_finally_any_exit fuel st out :
  run prm o fuel = (st, out) -> out <> OutOfFuel ->
  exists st0 err, run_loop prm o fuel = (st0, LExit err) /\
    (forall t, t < s_ntrials st -> b_w (s_bt st t) <> InProgress) /\
    s_ntrials st = s_ntrials st0 /\
    (match err with Some e => exit_error_kind st0 e | None => True end) /\
    (out = match err with Some e => Raised e | None => Normal end \/
     exists t, out = Raised (EFailureLimit t) /\ too_many_failures prm st = true /\ In (t, Failed) (s_doneall st)).
Proof.
  intros H Hne. destruct (run_spec _ _ _ _ _ H Hne) as (st0 & err & Hl & Hf).
  exists st0, err. pose proof (finalize_spec _ _ _ _ _ _ Hf) as (A & B & _ & _ & _ & _ & _ & D1 & D2).
  split; [exact Hl|]. split; [intros t Ht; apply A; lia|]. split; [exact B|]. split.
  - destruct err as [e|]; [|exact I]. eapply run_loop_error_kinds; eauto.
  - destruct (too_many_failures prm st) eqn:Et; [|left; auto].
    destruct (run_failure_limit _ _ _ _ _ H Hne Et) as (t & Ht1 & Ht2). right. exists t. auto.
Qed.

(* the same for run() as a whole *)
Theorem run_discipline fuel st out :
  run prm o fuel = (st, out) -> Dok (s_trace st) ->
  forall t, out <> Raised (EResumeNotPaused t) /\ out <> Raised (EResumeUnknown t).
Proof.
  intros H HD t.
  destruct out as [|e|]; try (split; discriminate).
  assert (Hne : Raised e <> OutOfFuel) by discriminate.
  destruct (run_finally_once _ _ _ _ _ H Hne) as (_ & _ & stops & st0 & err & Hl & Htr & _).
  rewrite Htr in HD. apply Dok_app in HD. simpl in HD. destruct HD as [[HD _] _].
  pose proof (run_loop_discipline _ _ _ Hl HD) as Hno.
  destruct (run_spec _ _ _ _ _ H Hne) as (st0' & err' & Hl' & Hf). rewrite Hl in Hl'. injection Hl' as <- <-.
  apply finalize_spec in Hf. destruct Hf as (_ & _ & _ & _ & _ & _ & _ & H1 & H2).
  assert (Hout : Raised e = match err with Some e0 => Raised e0 | None => Normal end \/ exists t', e = EFailureLimit t').
  { destruct (too_many_failures prm st); [|left; apply H1; reflexivity].
    specialize (H2 eq_refl). destruct (first_failed (s_doneall st0)); [right; injection H2 as ->; eauto|left; exact H2]. }
  destruct Hout as [Ho|[t' ->]]; [|split; discriminate].
  destruct err as [e0|]; [injection Ho as ->|discriminate].
  split; intro Hc; injection Hc as ->; apply Hno; exists t; auto.
Qed.

End Compose.
