(* RungProofs.v — lemmas about model/Rung.v (C03, C15). *)
From Verif Require Import model.Base model.Rung.
From Coq Require Import Permutation Sorting.Sorted Lqa Lia ZifyBool Qround.
Open Scope Q_scope.

(* ======================================================================== *)
(* 1. Ascending sorted permutations of the same list agree point-wise        *)
(* ======================================================================== *)

Lemma Qred_idem x : Qred (Qred x) = Qred x.
Proof. apply Qred_complete. apply Qred_correct. Qed.

Lemma ssorted_map_Qred l : StronglySorted Qle l -> StronglySorted Qle (map Qred l).
Proof.
  induction 1 as [|x l Hs IH Hf]; simpl; constructor; [exact IH|].
  rewrite Forall_forall in *. intros y Hy. apply in_map_iff in Hy as [z [Hz Hin]]. subst y.
  rewrite !Qred_correct. apply Hf. exact Hin.
Qed.

Lemma canon_sorted_perm_eq l1 : forall l2,
  Forall (fun x => Qred x = x) l1 -> Forall (fun x => Qred x = x) l2 ->
  StronglySorted Qle l1 -> StronglySorted Qle l2 -> Permutation l1 l2 -> l1 = l2.
Proof.
  induction l1 as [|x l1 IH]; intros l2 C1 C2 S1 S2 P.
  - apply Permutation_nil in P. subst. reflexivity.
  - destruct l2 as [|y l2]; [apply Permutation_sym, Permutation_nil in P; discriminate|].
    inversion S1 as [|? ? S1' F1]; subst. inversion S2 as [|? ? S2' F2]; subst.
    inversion C1 as [|? ? Cx C1']; subst. inversion C2 as [|? ? Cy C2']; subst.
    rewrite Forall_forall in F1, F2.
    assert (Hyx : y <= x).
    { assert (Hin : In x (y :: l2)) by (eapply Permutation_in; [exact P|left; reflexivity]).
      destruct Hin as [->|Hin]; [apply Qle_refl|apply F2; exact Hin]. }
    assert (Hxy : x <= y).
    { assert (Hin : In y (x :: l1)) by (eapply Permutation_in; [apply Permutation_sym; exact P|left; reflexivity]).
      destruct Hin as [->|Hin]; [apply Qle_refl|apply F1; exact Hin]. }
    assert (E : x = y).
    { rewrite <- Cx, <- Cy. apply Qred_complete. apply Qle_antisym; assumption. }
    subst y. f_equal. apply IH; try assumption. eapply Permutation_cons_inv. exact P.
Qed.

Lemma map_Qred_eq_pointwise l1 : forall l2, map Qred l1 = map Qred l2 -> Forall2 Qeq l1 l2.
Proof.
  induction l1 as [|x l1 IH]; intros [|y l2] H; simpl in H; try discriminate; constructor.
  - injection H as H _. rewrite <- (Qred_correct x), <- (Qred_correct y), H. reflexivity.
  - apply IH. injection H as _ H. exact H.
Qed.

Lemma sorted_perm_pointwise l1 l2 :
  StronglySorted Qle l1 -> StronglySorted Qle l2 -> Permutation l1 l2 -> Forall2 Qeq l1 l2.
Proof.
  intros S1 S2 P. apply map_Qred_eq_pointwise. apply canon_sorted_perm_eq.
  - rewrite Forall_forall. intros y Hy. apply in_map_iff in Hy as [z [<- _]]. apply Qred_idem.
  - rewrite Forall_forall. intros y Hy. apply in_map_iff in Hy as [z [<- _]]. apply Qred_idem.
  - apply ssorted_map_Qred; exact S1.
  - apply ssorted_map_Qred; exact S2.
  - apply Permutation_map. exact P.
Qed.

Lemma pointwise_nth l1 l2 : Forall2 Qeq l1 l2 -> forall k, nth k l1 0 == nth k l2 0.
Proof.
  induction 1 as [|x y l1 l2 Hxy _ IH]; intros [|k]; simpl; try reflexivity; [exact Hxy|apply IH].
Qed.

Lemma pointwise_length l1 l2 : Forall2 Qeq l1 l2 -> length l1 = length l2.
Proof. induction 1; simpl; congruence. Qed.

Lemma ssorted_snoc (R : Q -> Q -> Prop) l x :
  StronglySorted R l -> Forall (fun y => R y x) l -> StronglySorted R (l ++ [x]).
Proof.
  induction 1 as [|a l Hs IH Hf]; intro F; simpl.
  - constructor; constructor.
  - inversion F as [|? ? Fa F']; subst. constructor; [apply IH; exact F'|].
    apply Forall_app. split; [exact Hf|constructor; [exact Fa|constructor]].
Qed.

Lemma desc_rev_asc l : StronglySorted (fun a b => b <= a) l -> StronglySorted Qle (rev l).
Proof.
  induction 1 as [|a l Hs IH Hf]; simpl; [constructor|].
  apply ssorted_snoc; [exact IH|]. rewrite Forall_forall in *. intros y Hy. apply Hf. apply in_rev. exact Hy.
Qed.

(* ======================================================================== *)
(* 2. Rung.quantile = numpy linear-interpolation quantile                    *)
(* ======================================================================== *)

(* "data is kept sorted w.r.t. metric_val, so that best values come first" *)
Definition best_first (md : mode) (data : list entry) : Prop :=
  StronglySorted (fun a b => sort_key md (e_metric a) <= sort_key md (e_metric b)) data.

Definition metrics (data : list entry) : list Q := map e_metric data.

Lemma floor_unique x z : inject_Z z <= x -> x < inject_Z (z + 1) -> Qfloor x = z.
Proof.
  intros H1 H2. pose proof (Qfloor_le x) as F1. pose proof (Qlt_floor x) as F2.
  assert (A : (z < Qfloor x + 1)%Z) by (rewrite Zlt_Qlt; lra).
  assert (B : (Qfloor x < z + 1)%Z) by (rewrite Zlt_Qlt; lra).
  lia.
Qed.

Lemma best_first_min_asc data : best_first Min data -> StronglySorted Qle (metrics data).
Proof.
  unfold best_first, metrics. induction 1 as [|a l Hs IH Hf]; simpl; constructor; [exact IH|].
  rewrite Forall_forall in *. intros y Hy. apply in_map_iff in Hy as [e [<- He]]. apply (Hf e He).
Qed.

Lemma best_first_max_desc data : best_first Max data -> StronglySorted (fun a b => b <= a) (metrics data).
Proof.
  unfold best_first, metrics. induction 1 as [|a l Hs IH Hf]; simpl; constructor; [exact IH|].
  rewrite Forall_forall in *. intros y Hy. apply in_map_iff in Hy as [e [<- He]].
  specialize (Hf e He). simpl in Hf. lra.
Qed.

Lemma metric_at_nth data i : metric_at data i = nth (Z.to_nat i) (metrics data) 0.
Proof.
  unfold metric_at, metrics.
  change 0 with (e_metric {| e_trial := 0%Z; e_metric := 0 |}) at 2. rewrite map_nth. reflexivity.
Qed.

Lemma quantile_level_range md pq : 0 < pq < 1 -> 0 < quantile_level md pq < 1.
Proof. destruct md; simpl; lra. Qed.

Theorem rung_quantile_is_numpy_linear md pq data a :
  best_first md data -> (2 <= length data)%nat -> 0 < pq < 1 ->
  Sorted Qle a -> Permutation a (metrics data) ->
  exists v, rung_quantile md pq data = QVal v /\ v == np_quantile a (quantile_level md pq).
Proof.
  intros Hbf Hlen Hpq Hsa Hperm.
  assert (Hssa : StronglySorted Qle a).
  { apply Sorted_StronglySorted; [|exact Hsa]. intros x y z. apply Qle_trans. }
  assert (Hla : length a = length data).
  { rewrite (Permutation_length Hperm). unfold metrics. apply map_length. }
  pose proof (quantile_level_range md pq Hpq) as Hq.
  unfold rung_quantile, np_quantile. rewrite Hla.
  fold (quantile_level md pq). set (q := quantile_level md pq) in *.
  set (n := Z.of_nat (length data)).
  assert (Hn : (2 <= n)%Z) by (unfold n; lia).
  destruct (n <? 2)%Z eqn:En; [lia|]. clear En.
  set (N1 := inject_Z (n - 1)).
  assert (HN1 : 1 <= N1).
  { unfold N1. change 1 with (inject_Z 1). rewrite <- Zle_Qle. lia. }
  set (h := N1 * q).
  assert (Hh : 0 < h < N1) by (unfold h; nra).
  set (i := Qfloor h).
  pose proof (Qfloor_le h) as Fi1. pose proof (Qlt_floor h) as Fi2. fold i in Fi1, Fi2.
  assert (Hi0 : (0 <= i)%Z).
  { assert (A : (0 < i + 1)%Z) by (rewrite Zlt_Qlt; change (inject_Z 0) with 0; lra). lia. }
  assert (Hi1 : (i < n - 1)%Z) by (rewrite Zlt_Qlt; fold N1; lra).
  assert (Hinj1 : inject_Z (i + 1) == inject_Z i + 1) by (rewrite inject_Z_plus; reflexivity).
  assert (Hinj2 : inject_Z (i + 1 + 1) == inject_Z i + 2).
  { rewrite !inject_Z_plus. change (inject_Z 1) with 1. ring. }
  assert (Htr : Qtrunc (h + 1) = (i + 1)%Z).
  { unfold Qtrunc. destruct (Qle_bool 0 (h + 1)) eqn:E0.
    - apply floor_unique; lra.
    - exfalso. assert (0 <= h + 1) by lra. apply Qle_bool_iff in H. congruence. }
  rewrite Htr.
  destruct (negb ((1 <=? i + 1)%Z && (i + 1 <? n)%Z)) eqn:Ea; [lia|]. clear Ea.
  eexists. split; [reflexivity|].
  rewrite !metric_at_nth.
  destruct md; rewrite Hinj1.
  - (* Min: data ascending *)
    assert (Hpw : Forall2 Qeq a (metrics data)).
    { apply sorted_perm_pointwise; [exact Hssa|apply best_first_min_asc; exact Hbf|exact Hperm]. }
    rewrite (pointwise_nth _ _ Hpw (Z.to_nat i)), (pointwise_nth _ _ Hpw (Z.to_nat (i + 1))).
    replace (Z.to_nat (i + 1 - 1 + 1)) with (Z.to_nat (i + 1)) by lia.
    replace (Z.to_nat (i + 1 - 1)) with (Z.to_nat i) by lia.
    ring.
  - (* Max: data descending *)
    assert (Hpw : Forall2 Qeq a (rev (metrics data))).
    { apply sorted_perm_pointwise; [exact Hssa|apply desc_rev_asc, best_first_max_desc; exact Hbf|].
      eapply Permutation_trans; [exact Hperm|apply Permutation_rev]. }
    assert (Hlm : length (metrics data) = length data) by (unfold metrics; apply map_length).
    rewrite (pointwise_nth _ _ Hpw (Z.to_nat i)), (pointwise_nth _ _ Hpw (Z.to_nat (i + 1))).
    rewrite !rev_nth by (rewrite Hlm; lia). rewrite Hlm.
    replace (Z.to_nat (n - (i + 1) - 1 + 1)) with (length data - S (Z.to_nat i))%nat by lia.
    replace (Z.to_nat (n - (i + 1) - 1)) with (length data - S (Z.to_nat (i + 1)))%nat by lia.
    ring.
Qed.
