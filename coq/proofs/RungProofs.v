(* RungProofs.v — lemmas about model/Rung.v (C03, C15). *)
From Verif Require Import model.Base model.Rung.
From Coq Require Import Permutation Sorting.Sorted Lqa Lia ZifyBool Qround.
Open Scope Q_scope.

(* ======================================================================== *)
(* 1. Ascending sorted permutations of the same list agree point-wise        *)
(* ======================================================================== *)

Lemma Qred_idem x : Qred (Qred x) = Qred x.
Proof. apply Qred_complete. apply Qred_correct. Qed.

Lemma ssorted_map_Qred l : StronglySorted Qle l -> StronglySorted Qle (map Qred l).
Proof.
  induction 1 as [|x l Hs IH Hf]; simpl; constructor; [exact IH|].
  rewrite Forall_forall in *. intros y Hy. apply in_map_iff in Hy as [z [Hz Hin]]. subst y.
  rewrite !Qred_correct. apply Hf. exact Hin.
Qed.

Lemma canon_sorted_perm_eq l1 : forall l2,
  Forall (fun x => Qred x = x) l1 -> Forall (fun x => Qred x = x) l2 ->
  StronglySorted Qle l1 -> StronglySorted Qle l2 -> Permutation l1 l2 -> l1 = l2.
Proof.
  induction l1 as [|x l1 IH]; intros l2 C1 C2 S1 S2 P.
  - apply Permutation_nil in P. subst. reflexivity.
  - destruct l2 as [|y l2]; [apply Permutation_sym, Permutation_nil in P; discriminate|].
    inversion S1 as [|? ? S1' F1]; subst. inversion S2 as [|? ? S2' F2]; subst.
    inversion C1 as [|? ? Cx C1']; subst. inversion C2 as [|? ? Cy C2']; subst.
    rewrite Forall_forall in F1, F2.
    assert (Hyx : y <= x).
    { assert (Hin : In x (y :: l2)) by (eapply Permutation_in; [exact P|left; reflexivity]).
      destruct Hin as [->|Hin]; [apply Qle_refl|apply F2; exact Hin]. }
    assert (Hxy : x <= y).
    { assert (Hin : In y (x :: l1)) by (eapply Permutation_in; [apply Permutation_sym; exact P|left; reflexivity]).
      destruct Hin as [->|Hin]; [apply Qle_refl|apply F1; exact Hin]. }
    assert (E : x = y).
    { rewrite <- Cx, <- Cy. apply Qred_complete. apply Qle_antisym; assumption. }
    subst y. f_equal. apply IH; try assumption. eapply Permutation_cons_inv. exact P.
Qed.

Lemma map_Qred_eq_pointwise l1 : forall l2, map Qred l1 = map Qred l2 -> Forall2 Qeq l1 l2.
Proof.
  induction l1 as [|x l1 IH]; intros [|y l2] H; simpl in H; try discriminate; constructor.
  - injection H as H _. rewrite <- (Qred_correct x), <- (Qred_correct y), H. reflexivity.
  - apply IH. injection H as _ H. exact H.
Qed.

Lemma sorted_perm_pointwise l1 l2 :
  StronglySorted Qle l1 -> StronglySorted Qle l2 -> Permutation l1 l2 -> Forall2 Qeq l1 l2.
Proof.
  intros S1 S2 P. apply map_Qred_eq_pointwise. apply canon_sorted_perm_eq.
  - rewrite Forall_forall. intros y Hy. apply in_map_iff in Hy as [z [<- _]]. apply Qred_idem.
  - rewrite Forall_forall. intros y Hy. apply in_map_iff in Hy as [z [<- _]]. apply Qred_idem.
  - apply ssorted_map_Qred; exact S1.
  - apply ssorted_map_Qred; exact S2.
  - apply Permutation_map. exact P.
Qed.

Lemma pointwise_nth l1 l2 : Forall2 Qeq l1 l2 -> forall k, nth k l1 0 == nth k l2 0.
Proof.
  induction 1 as [|x y l1 l2 Hxy _ IH]; intros [|k]; simpl; try reflexivity; [exact Hxy|apply IH].
Qed.

Lemma pointwise_length l1 l2 : Forall2 Qeq l1 l2 -> length l1 = length l2.
Proof. induction 1; simpl; congruence. Qed.

Lemma ssorted_snoc (R : Q -> Q -> Prop) l x :
  StronglySorted R l -> Forall (fun y => R y x) l -> StronglySorted R (l ++ [x]).
Proof.
  induction 1 as [|a l Hs IH Hf]; intro F; simpl.
  - constructor; constructor.
  - inversion F as [|? ? Fa F']; subst. constructor; [apply IH; exact F'|].
    apply Forall_app. split; [exact Hf|constructor; [exact Fa|constructor]].
Qed.

Lemma desc_rev_asc l : StronglySorted (fun a b => b <= a) l -> StronglySorted Qle (rev l).
Proof.
  induction 1 as [|a l Hs IH Hf]; simpl; [constructor|].
  apply ssorted_snoc; [exact IH|]. rewrite Forall_forall in *. intros y Hy. apply Hf. apply in_rev. exact Hy.
Qed.

(* ======================================================================== *)
(* 2. Rung.quantile = numpy linear-interpolation quantile                    *)
(* ======================================================================== *)

(* "data is kept sorted w.r.t. metric_val, so that best values come first" *)
Definition best_first (md : mode) (data : list entry) : Prop :=
  StronglySorted (fun a b => sort_key md (e_metric a) <= sort_key md (e_metric b)) data.

Definition metrics (data : list entry) : list Q := map e_metric data.

Lemma floor_unique x z : inject_Z z <= x -> x < inject_Z (z + 1) -> Qfloor x = z.
Proof.
  intros H1 H2. pose proof (Qfloor_le x) as F1. pose proof (Qlt_floor x) as F2.
  assert (A : (z < Qfloor x + 1)%Z) by (rewrite Zlt_Qlt; lra).
  assert (B : (Qfloor x < z + 1)%Z) by (rewrite Zlt_Qlt; lra).
  lia.
Qed.

Lemma best_first_min_asc data : best_first Min data -> StronglySorted Qle (metrics data).
Proof.
  unfold best_first, metrics. induction 1 as [|a l Hs IH Hf]; simpl; constructor; [exact IH|].
  rewrite Forall_forall in *. intros y Hy. apply in_map_iff in Hy as [e [<- He]]. apply (Hf e He).
Qed.

Lemma best_first_max_desc data : best_first Max data -> StronglySorted (fun a b => b <= a) (metrics data).
Proof.
  unfold best_first, metrics. induction 1 as [|a l Hs IH Hf]; simpl; constructor; [exact IH|].
  rewrite Forall_forall in *. intros y Hy. apply in_map_iff in Hy as [e [<- He]].
  specialize (Hf e He). simpl in Hf. lra.
Qed.

Lemma metric_at_nth data i : metric_at data i = nth (Z.to_nat i) (metrics data) 0.
Proof.
  unfold metric_at, metrics.
  change 0 with (e_metric {| e_trial := 0%Z; e_metric := 0 |}) at 2. rewrite map_nth. reflexivity.
Qed.

Lemma quantile_level_range md pq : 0 < pq < 1 -> 0 < quantile_level md pq < 1.
Proof. destruct md; simpl; lra. Qed.

Theorem rung_quantile_is_numpy_linear md pq data a :
  best_first md data -> (2 <= length data)%nat -> 0 < pq < 1 ->
  Sorted Qle a -> Permutation a (metrics data) ->
  exists v, rung_quantile md pq data = QVal v /\ v == np_quantile a (quantile_level md pq).
Proof.
  intros Hbf Hlen Hpq Hsa Hperm.
  assert (Hssa : StronglySorted Qle a).
  { apply Sorted_StronglySorted; [|exact Hsa]. intros x y z. apply Qle_trans. }
  assert (Hla : length a = length data).
  { rewrite (Permutation_length Hperm). unfold metrics. apply map_length. }
  pose proof (quantile_level_range md pq Hpq) as Hq.
  unfold rung_quantile, np_quantile. rewrite Hla.
  fold (quantile_level md pq). set (q := quantile_level md pq) in *.
  set (n := Z.of_nat (length data)).
  assert (Hn : (2 <= n)%Z) by (unfold n; lia).
  destruct (n <? 2)%Z eqn:En; [lia|]. clear En.
  set (N1 := inject_Z (n - 1)).
  assert (HN1 : 1 <= N1).
  { unfold N1. change 1 with (inject_Z 1). rewrite <- Zle_Qle. lia. }
  set (h := N1 * q).
  assert (Hh : 0 < h < N1) by (unfold h; nra).
  set (i := Qfloor h).
  pose proof (Qfloor_le h) as Fi1. pose proof (Qlt_floor h) as Fi2. fold i in Fi1, Fi2.
  assert (Hi0 : (0 <= i)%Z).
  { assert (A : (0 < i + 1)%Z) by (rewrite Zlt_Qlt; change (inject_Z 0) with 0; lra). lia. }
  assert (Hi1 : (i < n - 1)%Z) by (rewrite Zlt_Qlt; fold N1; lra).
  assert (Hinj1 : inject_Z (i + 1) == inject_Z i + 1) by (rewrite inject_Z_plus; reflexivity).
  assert (Hinj2 : inject_Z (i + 1 + 1) == inject_Z i + 2).
  { rewrite !inject_Z_plus. change (inject_Z 1) with 1. ring. }
  assert (Htr : Qtrunc (h + 1) = (i + 1)%Z).
  { unfold Qtrunc. destruct (Qle_bool 0 (h + 1)) eqn:E0.
    - apply floor_unique; lra.
    - exfalso. assert (0 <= h + 1) by lra. apply Qle_bool_iff in H. congruence. }
  rewrite Htr.
  destruct (negb ((1 <=? i + 1)%Z && (i + 1 <? n)%Z)) eqn:Ea; [lia|]. clear Ea.
  eexists. split; [reflexivity|].
  rewrite !metric_at_nth.
  destruct md; rewrite Hinj1.
  - (* Min: data ascending *)
    assert (Hpw : Forall2 Qeq a (metrics data)).
    { apply sorted_perm_pointwise; [exact Hssa|apply best_first_min_asc; exact Hbf|exact Hperm]. }
    rewrite (pointwise_nth _ _ Hpw (Z.to_nat i)), (pointwise_nth _ _ Hpw (Z.to_nat (i + 1))).
    replace (Z.to_nat (i + 1 - 1 + 1)) with (Z.to_nat (i + 1)) by lia.
    replace (Z.to_nat (i + 1 - 1)) with (Z.to_nat i) by lia.
    ring.
  - (* Max: data descending *)
    assert (Hpw : Forall2 Qeq a (rev (metrics data))).
    { apply sorted_perm_pointwise; [exact Hssa|apply desc_rev_asc, best_first_max_desc; exact Hbf|].
      eapply Permutation_trans; [exact Hperm|apply Permutation_rev]. }
    assert (Hlm : length (metrics data) = length data) by (unfold metrics; apply map_length).
    rewrite (pointwise_nth _ _ Hpw (Z.to_nat i)), (pointwise_nth _ _ Hpw (Z.to_nat (i + 1))).
    rewrite !rev_nth by (rewrite Hlm; lia). rewrite Hlm.
    replace (Z.to_nat (n - (i + 1) - 1 + 1)) with (length data - S (Z.to_nat i))%nat by lia.
    replace (Z.to_nat (n - (i + 1) - 1)) with (length data - S (Z.to_nat (i + 1)))%nat by lia.
    ring.
Qed.

(* ======================================================================== *)
(* 3. SortedList.add and the reference sort                                  *)
(* ======================================================================== *)

Lemma sl_add_perm md e l : Permutation (sl_add md e l) (e :: l).
Proof.
  induction l as [|x l IH]; simpl; [apply Permutation_refl|].
  destruct (Qleb _ _); [|apply Permutation_refl].
  eapply Permutation_trans; [apply perm_skip; exact IH|apply perm_swap].
Qed.

Lemma sl_add_length md e l : length (sl_add md e l) = S (length l).
Proof. apply (Permutation_length (sl_add_perm md e l)). Qed.

Lemma sl_add_best_first md e l : best_first md l -> best_first md (sl_add md e l).
Proof.
  unfold best_first. induction 1 as [|x l Hs IH Hf]; simpl.
  - constructor; constructor.
  - destruct (Qleb (sort_key md (e_metric x)) (sort_key md (e_metric e))) eqn:E.
    + apply Qleb_le in E. constructor; [exact IH|].
      rewrite Forall_forall in *. intros y Hy.
      apply (Permutation_in _ (sl_add_perm md e l)) in Hy. destruct Hy as [<-|Hy]; [exact E|apply Hf; exact Hy].
    + assert (E' : sort_key md (e_metric e) < sort_key md (e_metric x)).
      { apply Qnot_le_lt. intro H. apply Qleb_le in H. congruence. }
      constructor; [constructor; assumption|].
      constructor; [apply Qlt_le_weak; exact E'|].
      rewrite Forall_forall in *. intros y Hy. specialize (Hf y Hy). lra.
Qed.

Lemma insert_asc_perm x l : Permutation (insert_asc x l) (x :: l).
Proof.
  induction l as [|y l IH]; simpl; [apply Permutation_refl|].
  destruct (Qleb x y); [apply Permutation_refl|].
  eapply Permutation_trans; [apply perm_skip; exact IH|apply perm_swap].
Qed.

Lemma sort_asc_perm l : Permutation (sort_asc l) l.
Proof.
  induction l as [|x l IH]; simpl; [constructor|].
  eapply Permutation_trans; [apply insert_asc_perm|apply perm_skip; exact IH].
Qed.

Lemma insert_asc_sorted x l : StronglySorted Qle l -> StronglySorted Qle (insert_asc x l).
Proof.
  induction 1 as [|y l Hs IH Hf]; simpl.
  - constructor; constructor.
  - destruct (Qleb x y) eqn:E.
    + apply Qleb_le in E. constructor; [constructor; assumption|].
      constructor; [exact E|]. rewrite Forall_forall in *. intros z Hz. specialize (Hf z Hz). lra.
    + assert (E' : y < x) by (apply Qnot_le_lt; intro H; apply Qleb_le in H; congruence).
      constructor; [exact IH|]. rewrite Forall_forall in *. intros z Hz.
      apply (Permutation_in _ (insert_asc_perm x l)) in Hz. destruct Hz as [<-|Hz]; [lra|apply Hf; exact Hz].
Qed.

Lemma sort_asc_sorted l : StronglySorted Qle (sort_asc l).
Proof. induction l as [|x l IH]; simpl; [constructor|apply insert_asc_sorted; exact IH]. Qed.

Lemma metrics_sl_add_perm md t m data :
  Permutation (metrics (sl_add md {| e_trial := t; e_metric := m |} data)) (m :: metrics data).
Proof.
  unfold metrics. change (m :: map e_metric data) with (map e_metric ({| e_trial := t; e_metric := m |} :: data)).
  apply Permutation_map. apply sl_add_perm.
Qed.

Lemma no_worse_compat md m c c' : c == c' -> no_worse md m c = no_worse md m c'.
Proof.
  intro H. destruct md; simpl; unfold Qleb.
  - destruct (Qle_bool m c) eqn:E1, (Qle_bool m c') eqn:E2; try reflexivity.
    + apply Qle_bool_iff in E1. rewrite H in E1. apply Qle_bool_iff in E1. congruence.
    + apply Qle_bool_iff in E2. rewrite <- H in E2. apply Qle_bool_iff in E2. congruence.
  - destruct (Qle_bool c m) eqn:E1, (Qle_bool c' m) eqn:E2; try reflexivity.
    + apply Qle_bool_iff in E1. rewrite H in E1. apply Qle_bool_iff in E1. congruence.
    + apply Qle_bool_iff in E2. rewrite <- H in E2. apply Qle_bool_iff in E2. congruence.
Qed.

(* ======================================================================== *)
(* 4. _task_continues = the documented rule                                  *)
(* ======================================================================== *)

Definition trial_ids (rg : rung) : list Z := map e_trial (r_data rg).

Definition rung_ok (md : mode) (rg : rung) : Prop :=
  0 < r_quant rg < 1 /\ best_first md (r_data rg) /\ NoDup (trial_ids rg).

(* the decision for a report depends only on the MULTISET of metrics at the rung:
   [ms] is any arrangement of the metrics incl. own *)
Lemma base_continues_rule md rg m ms :
  0 < r_quant rg < 1 -> best_first md (r_data rg) -> Permutation ms (metrics (r_data rg)) ->
  base_continues md rg m = Some (rule_b md (r_quant rg) ms m).
Proof.
  intros Hq Hbf Hp. unfold base_continues, rule_b.
  assert (Hl : length ms = length (r_data rg)).
  { rewrite (Permutation_length Hp). unfold metrics. apply map_length. }
  destruct (le_lt_dec 2 (length (r_data rg))) as [H2|H2].
  - destruct (rung_quantile_is_numpy_linear md (r_quant rg) (r_data rg) (sort_asc ms) Hbf H2 Hq) as [v [Hv Hveq]].
    + apply StronglySorted_Sorted. apply sort_asc_sorted.
    + eapply Permutation_trans; [apply sort_asc_perm|exact Hp].
    + rewrite Hv. rewrite Hl. destruct (length (r_data rg) <? 2)%nat eqn:E; [lia|]. simpl.
      f_equal. apply no_worse_compat. exact Hveq.
  - unfold rung_quantile. destruct (Z.of_nat (length (r_data rg)) <? 2)%Z eqn:E; [|lia].
    rewrite Hl. destruct (length (r_data rg) <? 2)%nat eqn:E'; [reflexivity|lia].
Qed.

Lemma rung_add_ok md rg t m : rung_ok md rg -> rung_contains t rg = false -> rung_ok md (rung_add md rg t m).
Proof.
  intros [Hq [Hbf Hnd]] Hc. unfold rung_ok, rung_add, trial_ids in *. simpl. split; [exact Hq|]. split.
  - apply sl_add_best_first. exact Hbf.
  - eapply Permutation_NoDup.
    + apply Permutation_sym. apply (Permutation_map e_trial (sl_add_perm md _ (r_data rg))).
    + simpl. constructor; [|exact Hnd]. intro Hin. apply in_map_iff in Hin as [e [He Hin]].
      unfold rung_contains in Hc. rewrite <- not_true_iff_false in Hc. apply Hc.
      apply existsb_exists. exists e. split; [exact Hin|]. apply Z.eqb_eq. exact He.
Qed.

Lemma rung_contains_In t rg : rung_contains t rg = true <-> In t (trial_ids rg).
Proof.
  unfold rung_contains, trial_ids. rewrite existsb_exists, in_map_iff. split.
  - intros [e [Hin He]]. exists e. split; [apply Z.eqb_eq; exact He|exact Hin].
  - intros [e [He Hin]]. exists e. split; [exact Hin|apply Z.eqb_eq; exact He].
Qed.

(* the report entering rung [rg]: StoppingRungSystem._task_continues after Rung.add *)
Lemma stopping_rule md rg t m ths :
  rung_ok md rg ->
  tc_stopping md (rung_add md rg t m) t m ths =
    (ths, Some (rule_b md (r_quant rg) (m :: metrics (r_data rg)) m)).
Proof.
  intros [Hq [Hbf _]]. unfold tc_stopping. f_equal.
  apply (base_continues_rule md (rung_add md rg t m) m (m :: metrics (r_data rg))).
  - exact Hq.
  - simpl. apply sl_add_best_first. exact Hbf.
  - simpl. apply Permutation_sym. apply metrics_sl_add_perm.
Qed.

(* RUSH: threshold test *)
Definition meets_threshold (md : mode) (th : option Q) (m : Q) : bool :=
  match th with None => true | Some a => no_worse md m a end.

Lemma rush_meets md th m : Qeqb (return_better md th m) m = meets_threshold md th m.
Proof.
  destruct th as [a|]; simpl.
  - destruct md; simpl; unfold Qeqb, Qleb.
    + destruct (Qltb m a) eqn:E.
      * apply Qltb_lt in E. assert (H1 : Qeq_bool m m = true) by (apply Qeq_bool_iff; reflexivity).
        assert (H2 : Qle_bool m a = true) by (apply Qle_bool_iff; lra). congruence.
      * assert (E' : a <= m). { apply Qnot_lt_le. intro H. apply Qltb_lt in H. congruence. }
        destruct (Qeq_bool a m) eqn:E1, (Qle_bool m a) eqn:E2; try reflexivity.
        -- apply Qeq_bool_iff in E1. assert (H : m <= a) by lra. apply Qle_bool_iff in H. congruence.
        -- apply Qle_bool_iff in E2. assert (H : a == m) by lra. apply Qeq_bool_iff in H. congruence.
    + destruct (Qltb a m) eqn:E.
      * apply Qltb_lt in E. assert (H1 : Qeq_bool m m = true) by (apply Qeq_bool_iff; reflexivity).
        assert (H2 : Qle_bool a m = true) by (apply Qle_bool_iff; lra). congruence.
      * assert (E' : m <= a). { apply Qnot_lt_le. intro H. apply Qltb_lt in H. congruence. }
        destruct (Qeq_bool a m) eqn:E1, (Qle_bool a m) eqn:E2; try reflexivity.
        -- apply Qeq_bool_iff in E1. assert (H : a <= m) by lra. apply Qle_bool_iff in H. congruence.
        -- apply Qle_bool_iff in E2. assert (H : a == m) by lra. apply Qeq_bool_iff in H. congruence.
  - unfold Qeqb. apply Qeq_bool_iff. reflexivity.
Qed.

Lemma rush_rule md n rg t m ths :
  rung_ok md rg ->
  let base := rule_b md (r_quant rg) (m :: metrics (r_data rg)) m in
  let th := th_get ths (r_level rg) in
  tc_rush md n (rung_add md rg t m) t m ths =
    (if base && (t <? n)%Z then th_set ths (r_level rg) (return_better md th m) else ths,
     Some (base && ((t <? n)%Z || meets_threshold md th m))).
Proof.
  intros Hok base th. unfold tc_rush.
  pose proof (stopping_rule md rg t m ths Hok) as H. unfold tc_stopping in H. injection H as H.
  rewrite H. fold base. unfold rush_decide. simpl r_level. fold th.
  destruct base; simpl; [|reflexivity].
  destruct (t <? n)%Z; simpl; [reflexivity|]. rewrite rush_meets. reflexivity.
Qed.

(* ======================================================================== *)
(* 5. The scan of StoppingRungSystem.on_task_report                          *)
(* ======================================================================== *)

(* rungs of a system are kept highest level first, levels pairwise distinct *)
Definition levels_desc (rs : list rung) : Prop :=
  StronglySorted (fun a b => (r_level b < r_level a)%Z) rs.

(* the rung a report (t, r) enters: level r and the trial not yet recorded there *)
Definition target (t r : Z) (rg : rung) : bool := (r_level rg =? r)%Z && negb (rung_contains t rg).

Definition scan_unchanged (ths : thresholds) (rs : list rung) : report :=
  {| rp_rungs := rs; rp_thr := ths; rp_continues := Some true; rp_milestone := false |}.

Lemma scan_no_target md tcf ths t r m rs :
  (forall rg, In rg rs -> target t r rg = false) ->
  scan md tcf ths t r m rs = scan_unchanged ths rs.
Proof.
  unfold scan_unchanged. induction rs as [|rg rest IH]; intro H; simpl; [reflexivity|].
  destruct ((r <? r_level rg)%Z || rung_contains t rg) eqn:E1.
  - rewrite IH; [reflexivity|]. intros rg' Hin. apply H. right. exact Hin.
  - destruct (r_level rg <? r)%Z eqn:E2; [reflexivity|].
    exfalso. specialize (H rg (or_introl eq_refl)). unfold target in H.
    apply orb_false_iff in E1 as [E1a E1b]. rewrite E1b in H. simpl in H. lia.
Qed.

Lemma scan_target md tcf ths t r m pre rg post :
  levels_desc (pre ++ rg :: post) -> target t r rg = true ->
  scan md tcf ths t r m (pre ++ rg :: post) =
    {| rp_rungs := pre ++ rung_add md rg t m :: post;
       rp_thr := fst (tcf (rung_add md rg t m) t m ths);
       rp_continues := snd (tcf (rung_add md rg t m) t m ths);
       rp_milestone := true |}.
Proof.
  unfold target. intros Hd Ht. apply andb_true_iff in Ht as [Hl Hc]. apply negb_true_iff in Hc.
  induction pre as [|a pre IH]; simpl.
  - rewrite Hc. destruct (r <? r_level rg)%Z eqn:E1; [lia|]. simpl.
    destruct (r_level rg <? r)%Z eqn:E2; [lia|].
    destruct (tcf (rung_add md rg t m) t m ths); reflexivity.
  - simpl in Hd. inversion Hd as [|? ? Hd' Hf]; subst.
    rewrite Forall_forall in Hf. specialize (Hf rg (in_elt rg pre post)).
    destruct (r <? r_level a)%Z eqn:E1; [|lia]. simpl. rewrite (IH Hd'). reflexivity.
Qed.

Lemma firstn_incl {A} k (l : list A) x : In x (firstn k l) -> In x l.
Proof.
  revert k. induction l as [|y l IH]; intros [|k] H; simpl in *; try contradiction.
  destruct H as [->|H]; [left; reflexivity|right; eapply IH; exact H].
Qed.

Lemma levels_desc_firstn k rs : levels_desc rs -> levels_desc (firstn k rs).
Proof.
  unfold levels_desc. intro H. revert k. induction H as [|a l Hs IH Hf]; intros [|k]; simpl; try constructor.
  - apply IH.
  - rewrite Forall_forall in *. intros x Hx. apply Hf. eapply firstn_incl; exact Hx.
Qed.

(* ======================================================================== *)
(* 6. Invariant of the scheduler state                                       *)
(* ======================================================================== *)

Definition sys_ok (md : mode) (sys : rsys) : Prop :=
  levels_desc (rs_rungs sys) /\ Forall (rung_ok md) (rs_rungs sys).

Definition Inv (cfg : config) (st : state) : Prop :=
  Forall (sys_ok (c_mode cfg)) (s_sys st) /\
  (forall t, assoc_get (s_active st) t = Some CONTINUE ->
     exists b, assoc_get (s_task st) t = Some b /\ (sys_id cfg b < length (s_sys st))%nat).

Lemma assoc_get_set_same {A} (l : list (Z * A)) t v : assoc_get (assoc_set l t v) t = Some v.
Proof.
  induction l as [|[k w] l IH]; simpl.
  - rewrite Z.eqb_refl. reflexivity.
  - destruct (Z.eqb k t) eqn:E; simpl; rewrite E; [reflexivity|exact IH].
Qed.

Lemma assoc_get_set_other {A} (l : list (Z * A)) t t' v : t' <> t -> assoc_get (assoc_set l t v) t' = assoc_get l t'.
Proof.
  intro Hne. induction l as [|[k w] l IH]; simpl.
  - destruct (Z.eqb t t') eqn:E; [apply Z.eqb_eq in E; congruence|reflexivity].
  - destruct (Z.eqb k t) eqn:E; simpl.
    + apply Z.eqb_eq in E. subst k. destruct (Z.eqb t t') eqn:E2; [apply Z.eqb_eq in E2; congruence|reflexivity].
    + destruct (Z.eqb k t'); [reflexivity|exact IH].
Qed.

Lemma assoc_get_del_other {A} (l : list (Z * A)) t t' : t' <> t -> assoc_get (assoc_del l t) t' = assoc_get l t'.
Proof.
  intro Hne. induction l as [|[k w] l IH]; simpl; [reflexivity|].
  destruct (Z.eqb k t) eqn:E; simpl.
  - apply Z.eqb_eq in E. subst k. destruct (Z.eqb t t') eqn:E2; [apply Z.eqb_eq in E2; congruence|reflexivity].
  - destruct (Z.eqb k t'); [reflexivity|exact IH].
Qed.

Lemma list_set_length {A} (l : list A) i x : length (list_set l i x) = length l.
Proof. revert i. induction l as [|y l IH]; intros [|i]; simpl; auto. Qed.

Lemma list_set_Forall {A} (P : A -> Prop) (l : list A) i x : Forall P l -> P x -> Forall P (list_set l i x).
Proof.
  intros Hl Hx. revert i. induction Hl as [|y l Hy Hl IH]; intros [|i]; simpl; constructor; auto.
Qed.

Lemma list_set_same {A} (l : list A) i x : nth_error l i = Some x -> list_set l i x = l.
Proof.
  revert i. induction l as [|y l IH]; intros [|i] H; simpl in *; try discriminate; try reflexivity.
  - injection H as ->. reflexivity.
  - f_equal. apply IH. exact H.
Qed.

Lemma list_set_nth_same {A} (l : list A) i x : (i < length l)%nat -> nth_error (list_set l i x) i = Some x.
Proof. revert i. induction l as [|y l IH]; intros [|i] H; simpl in *; try lia; [reflexivity|apply IH; lia]. Qed.

Lemma list_set_nth_other {A} (l : list A) i j x : i <> j -> nth_error (list_set l i x) j = nth_error l j.
Proof.
  revert i j. induction l as [|y l IH]; intros [|i] [|j] H; simpl; try reflexivity; try congruence.
  apply IH. congruence.
Qed.

Lemma cleanup_inv cfg st t d : d <> CONTINUE -> Inv cfg st -> Inv cfg (cleanup st t d).
Proof.
  intros Hd [H1 H2]. split; [exact H1|]. unfold cleanup. simpl. intros t' Ht'.
  assert (Hne : t' <> t /\ assoc_get (s_active st) t' = Some CONTINUE).
  { destruct (Z.eq_dec t' t) as [->|Hne].
    - exfalso. destruct (assoc_get (s_active st) t) eqn:E.
      + rewrite assoc_get_set_same in Ht'. congruence.
      + congruence.
    - split; [exact Hne|]. destruct (assoc_get (s_active st) t); [rewrite assoc_get_set_other in Ht' by exact Hne|]; exact Ht'. }
  destruct Hne as [Hne Hact]. destruct (H2 t' Hact) as [b [Hb Hlt]].
  exists b. split; [rewrite assoc_get_del_other by exact Hne; exact Hb|exact Hlt].
Qed.

Lemma milestone_split skip rs : milestone_rungs skip rs ++ skipped_rungs skip rs = rs.
Proof. apply firstn_skipn. Qed.

Lemma scan_preserves md tcf ths t r m rs :
  levels_desc rs -> Forall (rung_ok md) rs ->
  let res := scan md tcf ths t r m rs in
  map r_level (rp_rungs res) = map r_level rs /\ map r_quant (rp_rungs res) = map r_quant rs /\
  Forall (rung_ok md) (rp_rungs res).
Proof.
  intros Hd Hok.
  destruct (existsb (target t r) rs) eqn:E.
  - apply existsb_exists in E as [rg [Hin Ht]]. apply in_split in Hin as [pre [post ->]].
    rewrite (scan_target md tcf ths t r m pre rg post Hd Ht). simpl.
    rewrite !map_app. simpl. repeat split; try reflexivity.
    apply Forall_app in Hok as [Hpre Hpost]. inversion Hpost as [|? ? Hrg Hpost']; subst.
    apply Forall_app. split; [exact Hpre|]. constructor; [|exact Hpost'].
    apply rung_add_ok; [exact Hrg|]. unfold target in Ht. apply andb_true_iff in Ht as [_ Ht].
    apply negb_true_iff in Ht. exact Ht.
  - rewrite scan_no_target.
    + simpl. repeat split; auto.
    + intros rg Hin. destruct (target t r rg) eqn:Et; [|reflexivity].
      assert (existsb (target t r) rs = true) by (apply existsb_exists; exists rg; split; assumption). congruence.
Qed.

Lemma levels_desc_map rs rs' : map r_level rs' = map r_level rs -> levels_desc rs -> levels_desc rs'.
Proof.
  unfold levels_desc. intros Hm Hd. revert rs' Hm.
  induction Hd as [|a l Hs IH Hf]; intros [|a' l'] Hm; simpl in Hm; try discriminate; constructor.
  - apply IH. injection Hm as _ Hm. exact Hm.
  - injection Hm as Ha Hm. rewrite Forall_forall in *. intros x Hx.
    apply (in_map r_level) in Hx. rewrite Hm in Hx. apply in_map_iff in Hx as [y [Hy Hin]].
    specialize (Hf y Hin). lia.
Qed.

Lemma rs_report_ok md tcf max_t sys skip t r m :
  sys_ok md sys -> sys_ok md (fst (fst (rs_on_task_report md tcf max_t sys skip t r m))).
Proof.
  intros [Hd Hok]. unfold rs_on_task_report. destruct (r =? max_t)%Z; simpl; [split; assumption|].
  assert (Hd1 : levels_desc (milestone_rungs skip (rs_rungs sys))) by (apply levels_desc_firstn; exact Hd).
  assert (Hok1 : Forall (rung_ok md) (milestone_rungs skip (rs_rungs sys))).
  { rewrite <- (milestone_split skip (rs_rungs sys)) in Hok. apply Forall_app in Hok. tauto. }
  assert (Hok2 : Forall (rung_ok md) (skipped_rungs skip (rs_rungs sys))).
  { rewrite <- (milestone_split skip (rs_rungs sys)) in Hok. apply Forall_app in Hok. tauto. }
  destruct (scan_preserves md tcf (rs_thr sys) t r m _ Hd1 Hok1) as [Hl [_ Hf]].
  split.
  - simpl. apply (levels_desc_map (rs_rungs sys)); [|exact Hd]. simpl in Hl.
    rewrite map_app, Hl, <- map_app, milestone_split. reflexivity.
  - simpl. apply Forall_app. split; assumption.
Qed.

Lemma on_trial_result_inv tcf cfg st t r m : Inv cfg st -> Inv cfg (fst (on_trial_result_gen tcf cfg st t r m)).
Proof.
  intro HI. unfold on_trial_result_gen.
  destruct (r <? 1)%Z; [exact HI|].
  destruct (assoc_get (s_active st) t) as [d|] eqn:Ea; [|exact HI].
  destruct d; try exact HI.
  destruct (assoc_get (s_task st) t) as [b|] eqn:Eb; [|exact HI].
  destruct (nth_error (s_sys st) (sys_id cfg b)) as [sys|] eqn:Es; [|exact HI].
  destruct (r <? c_max_t cfg)%Z.
  - set (res := rs_on_task_report _ _ _ _ _ _ _ _).
    assert (HI1 : Inv cfg {| s_sys := list_set (s_sys st) (sys_id cfg b) (fst (fst res)); s_task := s_task st; s_active := s_active st |}).
    { destruct HI as [H1 H2]. split; simpl.
      - apply list_set_Forall; [exact H1|]. apply rs_report_ok.
        rewrite Forall_forall in H1. apply H1. eapply nth_error_In. exact Es.
      - rewrite list_set_length. exact H2. }
    destruct (snd (fst res)) as [[|]|]; simpl; try exact HI1.
    apply cleanup_inv; [discriminate|exact HI1].
  - simpl. apply cleanup_inv; [discriminate|exact HI].
Qed.

Lemma step_inv tcf cfg st ev : Inv cfg st -> Inv cfg (fst (step_gen tcf cfg st ev)).
Proof.
  intro HI. destruct ev as [t b|t r m|t|t|t]; simpl.
  - destruct (nth_error (s_sys st) (sys_id cfg b)) eqn:Es; [|exact HI].
    destruct (assoc_get (s_active st) t) eqn:Ea; [exact HI|]. simpl.
    destruct HI as [H1 H2]. split; simpl; [exact H1|]. intros t' Ht'.
    destruct (Z.eq_dec t' t) as [->|Hne].
    + exists b. split; [apply assoc_get_set_same|]. apply nth_error_Some. congruence.
    + rewrite assoc_get_set_other in Ht' by exact Hne. rewrite assoc_get_set_other by exact Hne. apply H2. exact Ht'.
  - apply on_trial_result_inv. exact HI.
  - apply cleanup_inv; [discriminate|exact HI].
  - destruct (assoc_get (s_active st) t); simpl; [apply cleanup_inv; [discriminate|exact HI]|exact HI].
  - apply cleanup_inv; [discriminate|exact HI].
Qed.

Lemma run_inv cfg evs : forall st, Inv cfg st -> Inv cfg (run cfg st evs).
Proof.
  unfold run. induction evs as [|ev evs IH]; intros st HI; simpl; [exact HI|].
  apply IH. apply (step_inv (cfg_tcf cfg)). exact HI.
Qed.

(* ======================================================================== *)
(* 7. Decisions of on_trial_result                                           *)
(* ======================================================================== *)

Definition running (st : state) (t : Z) : Prop := assoc_get (s_active st) t = Some CONTINUE.

(* the rungs at which trial in bracket b takes decisions (bracket offset respected) *)
Definition own_rungs (cfg : config) (st : state) (b : nat) : list rung :=
  match nth_error (s_sys st) (sys_id cfg b) with
  | Some sys => milestone_rungs (skip_of cfg b) (rs_rungs sys)
  | None => []
  end.

Lemma inv_running cfg st t : Inv cfg st -> running st t ->
  exists b sys, assoc_get (s_task st) t = Some b /\ nth_error (s_sys st) (sys_id cfg b) = Some sys /\
                sys_ok (c_mode cfg) sys.
Proof.
  intros [H1 H2] Hr. destruct (H2 t Hr) as [b [Hb Hlt]].
  destruct (nth_error (s_sys st) (sys_id cfg b)) as [sys|] eqn:Es.
  - exists b, sys. repeat split; try assumption; rewrite Forall_forall in H1; apply H1; eapply nth_error_In; exact Es.
  - apply nth_error_None in Es. lia.
Qed.

Lemma decision_at_max tcf cfg st t r m :
  Inv cfg st -> running st t -> (1 <= r)%Z -> (c_max_t cfg <= r)%Z ->
  on_trial_result_gen tcf cfg st t r m = (cleanup st t STOP, Dec STOP).
Proof.
  intros HI Hr H1 Hm. destruct (inv_running cfg st t HI Hr) as [b [sys [Hb [Hs _]]]].
  unfold on_trial_result_gen. destruct (r <? 1)%Z eqn:E1; [lia|].
  unfold running in Hr. rewrite Hr, Hb, Hs. destruct (r <? c_max_t cfg)%Z eqn:E2; [lia|]. reflexivity.
Qed.

Lemma decision_off_rung tcf cfg st t r m b :
  Inv cfg st -> running st t -> (1 <= r < c_max_t cfg)%Z -> assoc_get (s_task st) t = Some b ->
  (forall rg, In rg (own_rungs cfg st b) -> target t r rg = false) ->
  on_trial_result_gen tcf cfg st t r m = (st, Dec CONTINUE).
Proof.
  intros HI Hr Hrange Hb Hno. destruct (inv_running cfg st t HI Hr) as [b' [sys [Hb' [Hs _]]]].
  assert (b' = b) by congruence. subst b'.
  unfold on_trial_result_gen. destruct (r <? 1)%Z eqn:E1; [lia|].
  unfold running in Hr. rewrite Hr, Hb, Hs. destruct (r <? c_max_t cfg)%Z eqn:E2; [|lia].
  unfold rs_on_task_report. destruct (r =? c_max_t cfg)%Z eqn:E3; [lia|].
  unfold own_rungs in Hno. rewrite Hs in Hno. rewrite (scan_no_target _ _ _ _ _ _ _ Hno). simpl.
  rewrite milestone_split.
  replace {| rs_rungs := rs_rungs sys; rs_thr := rs_thr sys |} with sys by (destruct sys; reflexivity).
  rewrite (list_set_same _ _ _ Hs). destruct st; reflexivity.
Qed.

Lemma decision_at_rung tcf cfg st t r m b sys pre rg post :
  Inv cfg st -> running st t -> (1 <= r < c_max_t cfg)%Z -> assoc_get (s_task st) t = Some b ->
  nth_error (s_sys st) (sys_id cfg b) = Some sys ->
  milestone_rungs (skip_of cfg b) (rs_rungs sys) = pre ++ rg :: post -> target t r rg = true ->
  let rg' := rung_add (c_mode cfg) rg t m in
  let res := tcf rg' t m (rs_thr sys) in
  let st1 := {| s_sys := list_set (s_sys st) (sys_id cfg b)
                           {| rs_rungs := (pre ++ rg' :: post) ++ skipped_rungs (skip_of cfg b) (rs_rungs sys);
                              rs_thr := fst res |};
                s_task := s_task st; s_active := s_active st |} in
  on_trial_result_gen tcf cfg st t r m =
    match snd res with
    | None => (st1, Err EAssertQuantile)
    | Some true => (st1, Dec CONTINUE)
    | Some false => (cleanup st1 t STOP, Dec STOP)
    end.
Proof.
  intros HI Hr Hrange Hb Hs Hms Ht. simpl.
  destruct (inv_running cfg st t HI Hr) as [b' [sys' [Hb' [Hs' [Hd _]]]]].
  assert (b' = b) by congruence. subst b'. assert (sys' = sys) by congruence. subst sys'.
  unfold on_trial_result_gen. destruct (r <? 1)%Z eqn:E1; [lia|].
  unfold running in Hr. rewrite Hr, Hb, Hs. destruct (r <? c_max_t cfg)%Z eqn:E2; [|lia].
  unfold rs_on_task_report. destruct (r =? c_max_t cfg)%Z eqn:E3; [lia|].
  rewrite Hms. rewrite scan_target; [|rewrite <- Hms; apply levels_desc_firstn; exact Hd|exact Ht].
  simpl. reflexivity.
Qed.

(* --- the initial state ---------------------------------------------------- *)

Definition wf_levels (levels : list Z) (max_t : Z) : Prop :=
  StronglySorted Z.lt levels /\ Forall (fun l => (0 < l < max_t)%Z) levels.

Lemma quant_range x y : (0 < x < y)%Z -> 0 < inject_Z x / inject_Z y < 1.
Proof.
  intro H.
  assert (H0 : 0 < inject_Z x) by (change 0 with (inject_Z 0); rewrite <- Zlt_Qlt; lia).
  assert (H1 : inject_Z x < inject_Z y) by (rewrite <- Zlt_Qlt; lia).
  split; [apply Qlt_shift_div_l; lra|apply Qlt_shift_div_r; lra].
Qed.

Lemma ssorted_snoc_gen {A} (R : A -> A -> Prop) l x :
  StronglySorted R l -> Forall (fun y => R y x) l -> StronglySorted R (l ++ [x]).
Proof.
  induction 1 as [|a l Hs IH Hf]; intro F; simpl.
  - constructor; constructor.
  - inversion F as [|? ? Fa F']; subst. constructor; [apply IH; exact F'|].
    apply Forall_app. split; [exact Hf|constructor; [exact Fa|constructor]].
Qed.

Lemma ssorted_rev_gen {A} (R : A -> A -> Prop) l :
  StronglySorted R l -> StronglySorted (fun a b => R b a) (rev l).
Proof.
  induction 1 as [|a l Hs IH Hf]; simpl; [constructor|].
  apply ssorted_snoc_gen; [exact IH|]. rewrite Forall_forall in *. intros y Hy. apply Hf. apply in_rev. exact Hy.
Qed.

Definition mk_rung (lq : Z * Q) : rung := {| r_level := fst lq; r_quant := snd lq; r_data := [] |}.

Lemma rungs_asc_ok md max_t levels : wf_levels levels max_t ->
  let rs := map mk_rung (combine levels (mk_quantiles levels max_t)) in
  map r_level rs = levels /\
  StronglySorted (fun a b => (r_level a < r_level b)%Z) rs /\ Forall (rung_ok md) rs.
Proof.
  intros [Hs Hf]. induction Hs as [|x rest Hs IH Hlt]; simpl.
  - repeat split; constructor.
  - inversion Hf as [|? ? Hx Hf']; subst. destruct (IH Hf') as [IH1 [IH2 IH3]]. repeat split.
    + simpl. f_equal. exact IH1.
    + constructor; [exact IH2|]. rewrite Forall_forall in *. intros rg Hrg.
      apply (in_map r_level) in Hrg. rewrite IH1 in Hrg. simpl. apply Hlt. exact Hrg.
    + constructor; [|exact IH3]. unfold rung_ok, mk_rung. simpl. split; [|split; constructor].
      apply quant_range. destruct rest as [|y rest']; [exact Hx|].
      rewrite Forall_forall in Hlt. specialize (Hlt y (or_introl eq_refl)). lia.
Qed.

Lemma wf_levels_tl levels max_t : wf_levels levels max_t -> wf_levels (tl levels) max_t.
Proof.
  intros [Hs Hf]. destruct levels as [|x rest]; simpl; [split; assumption|].
  inversion Hs; subst. inversion Hf; subst. split; assumption.
Qed.

Lemma mk_quantiles_tl levels max_t : mk_quantiles (tl levels) max_t = tl (mk_quantiles levels max_t).
Proof. destruct levels; reflexivity. Qed.

Lemma mk_systems_ok md max_t num : forall levels, wf_levels levels max_t ->
  Forall (sys_ok md) (mk_systems levels (mk_quantiles levels max_t) num).
Proof.
  induction num as [|num IH]; intros levels Hwf; simpl; constructor.
  - destruct (rungs_asc_ok md max_t levels Hwf) as [H1 [H2 H3]]. unfold sys_ok, mk_rungs. simpl.
    fold mk_rung. change (fun lq : Z * Q => {| r_level := fst lq; r_quant := snd lq; r_data := [] |}) with mk_rung.
    split.
    + apply (ssorted_rev_gen (fun a b => (r_level a < r_level b)%Z)). exact H2.
    + rewrite Forall_forall in *. intros rg Hrg. apply H3. apply in_rev. exact Hrg.
  - rewrite <- mk_quantiles_tl. apply IH. apply wf_levels_tl. exact Hwf.
Qed.

Lemma init_inv cfg levels brackets : wf_levels levels (c_max_t cfg) -> Inv cfg (init_state cfg levels brackets).
Proof.
  intro Hwf. split; simpl.
  - apply mk_systems_ok. exact Hwf.
  - intros t Ht. discriminate.
Qed.

(* every state reached from the initial one by any event sequence *)
Definition reached (cfg : config) (levels : list Z) (brackets : nat) (evs : list event) : state :=
  run cfg (init_state cfg levels brackets) evs.

Lemma reached_inv cfg levels brackets evs :
  wf_levels levels (c_max_t cfg) -> Inv cfg (reached cfg levels brackets evs).
Proof. intro H. apply run_inv. apply init_inv. exact H. Qed.

(* --- the theorems of C03 on reachable states ------------------------------- *)

Theorem c03_stop_at_max cfg levels brackets evs t r m :
  wf_levels levels (c_max_t cfg) ->
  let st := reached cfg levels brackets evs in
  running st t -> (1 <= r)%Z -> (c_max_t cfg <= r)%Z ->
  on_trial_result cfg st t r m = (cleanup st t STOP, Dec STOP).
Proof. intros Hwf st. apply decision_at_max. apply reached_inv. exact Hwf. Qed.

Theorem c03_continue_off_rung cfg levels brackets evs t r m b :
  wf_levels levels (c_max_t cfg) ->
  let st := reached cfg levels brackets evs in
  running st t -> (1 <= r < c_max_t cfg)%Z -> assoc_get (s_task st) t = Some b ->
  (forall rg, In rg (own_rungs cfg st b) -> r_level rg = r -> In t (trial_ids rg)) ->
  on_trial_result cfg st t r m = (st, Dec CONTINUE).
Proof.
  intros Hwf st Hr Hrange Hb Hno. apply (decision_off_rung _ cfg st t r m b); try assumption.
  - apply reached_inv. exact Hwf.
  - intros rg Hin. unfold target. destruct (r_level rg =? r)%Z eqn:E; [|reflexivity]. simpl.
    apply negb_false_iff. apply rung_contains_In. apply Hno; [exact Hin|lia].
Qed.

Lemma own_rung_ok cfg st b sys pre rg post :
  Inv cfg st -> nth_error (s_sys st) (sys_id cfg b) = Some sys ->
  milestone_rungs (skip_of cfg b) (rs_rungs sys) = pre ++ rg :: post -> rung_ok (c_mode cfg) rg.
Proof.
  intros [H1 _] Hs Hms. rewrite Forall_forall in H1. destruct (H1 sys (nth_error_In _ _ Hs)) as [_ Hok].
  rewrite Forall_forall in Hok. apply Hok. eapply firstn_incl. unfold milestone_rungs in Hms. rewrite Hms.
  apply in_elt.
Qed.

Theorem c03_rule_at_rung cfg levels brackets evs t r m b sys pre rg post :
  wf_levels levels (c_max_t cfg) -> c_rush cfg = None ->
  let st := reached cfg levels brackets evs in
  running st t -> (1 <= r < c_max_t cfg)%Z -> assoc_get (s_task st) t = Some b ->
  nth_error (s_sys st) (sys_id cfg b) = Some sys ->
  milestone_rungs (skip_of cfg b) (rs_rungs sys) = pre ++ rg :: post ->
  r_level rg = r -> ~ In t (trial_ids rg) ->
  let continues := rule_b (c_mode cfg) (r_quant rg) (m :: metrics (r_data rg)) m in
  let st1 := {| s_sys := list_set (s_sys st) (sys_id cfg b)
                  {| rs_rungs := (pre ++ rung_add (c_mode cfg) rg t m :: post)
                                   ++ skipped_rungs (skip_of cfg b) (rs_rungs sys);
                     rs_thr := rs_thr sys |};
                s_task := s_task st; s_active := s_active st |} in
  on_trial_result cfg st t r m =
    if continues then (st1, Dec CONTINUE) else (cleanup st1 t STOP, Dec STOP).
Proof.
  intros Hwf Hrush st Hr Hrange Hb Hs Hms Hl Hnin continues st1.
  assert (HI : Inv cfg st) by (apply reached_inv; exact Hwf).
  assert (Ht : target t r rg = true).
  { unfold target. apply andb_true_iff. split; [lia|]. apply negb_true_iff.
    destruct (rung_contains t rg) eqn:E; [|reflexivity]. apply rung_contains_In in E. contradiction. }
  unfold on_trial_result.
  rewrite (decision_at_rung _ cfg st t r m b sys pre rg post HI Hr Hrange Hb Hs Hms Ht).
  unfold cfg_tcf. rewrite Hrush.
  rewrite (stopping_rule (c_mode cfg) rg t m (rs_thr sys) (own_rung_ok cfg st b sys pre rg post HI Hs Hms)).
  simpl. fold continues. fold st1. destruct continues; reflexivity.
Qed.

Theorem c03_rush_rule_at_rung cfg levels brackets evs t r m b sys pre rg post n :
  wf_levels levels (c_max_t cfg) -> c_rush cfg = Some n ->
  let st := reached cfg levels brackets evs in
  running st t -> (1 <= r < c_max_t cfg)%Z -> assoc_get (s_task st) t = Some b ->
  nth_error (s_sys st) (sys_id cfg b) = Some sys ->
  milestone_rungs (skip_of cfg b) (rs_rungs sys) = pre ++ rg :: post ->
  r_level rg = r -> ~ In t (trial_ids rg) ->
  let base := rule_b (c_mode cfg) (r_quant rg) (m :: metrics (r_data rg)) m in
  let th := th_get (rs_thr sys) r in
  let continues := base && ((t <? n)%Z || meets_threshold (c_mode cfg) th m) in
  snd (on_trial_result cfg st t r m) = Dec (if continues then CONTINUE else STOP) /\
  exists sys', nth_error (s_sys (fst (on_trial_result cfg st t r m))) (sys_id cfg b) = Some sys' /\
    rs_thr sys' = (if base && (t <? n)%Z then th_set (rs_thr sys) r (return_better (c_mode cfg) th m)
                   else rs_thr sys).
Proof.
  intros Hwf Hrush st Hr Hrange Hb Hs Hms Hl Hnin base th continues.
  assert (HI : Inv cfg st) by (apply reached_inv; exact Hwf).
  assert (Ht : target t r rg = true).
  { unfold target. apply andb_true_iff. split; [lia|]. apply negb_true_iff.
    destruct (rung_contains t rg) eqn:E; [|reflexivity]. apply rung_contains_In in E. contradiction. }
  unfold on_trial_result.
  rewrite (decision_at_rung _ cfg st t r m b sys pre rg post HI Hr Hrange Hb Hs Hms Ht).
  unfold cfg_tcf. rewrite Hrush.
  rewrite (rush_rule (c_mode cfg) n rg t m (rs_thr sys) (own_rung_ok cfg st b sys pre rg post HI Hs Hms)).
  rewrite Hl. fold base. fold th. simpl snd. simpl fst. fold continues.
  assert (Hlen : (sys_id cfg b < length (s_sys st))%nat) by (apply nth_error_Some; congruence).
  destruct continues; simpl; (split; [reflexivity|]); eexists; (split; [apply list_set_nth_same; exact Hlen|reflexivity]).
Qed.

Theorem c03_enters_once cfg levels brackets evs :
  wf_levels levels (c_max_t cfg) ->
  forall sys rg, In sys (s_sys (reached cfg levels brackets evs)) -> In rg (rs_rungs sys) ->
    NoDup (trial_ids rg) /\ best_first (c_mode cfg) (r_data rg).
Proof.
  intros Hwf sys rg Hsys Hrg. destruct (reached_inv cfg levels brackets evs Hwf) as [H1 _].
  rewrite Forall_forall in H1. destruct (H1 sys Hsys) as [_ Hok]. rewrite Forall_forall in Hok.
  destruct (Hok rg Hrg) as [_ [Hbf Hnd]]. split; assumption.
Qed.

(* --- order independence ---------------------------------------------------- *)

Lemma np_quantile_pointwise a a' q : Forall2 Qeq a a' -> np_quantile a q == np_quantile a' q.
Proof.
  intro H. unfold np_quantile. rewrite (pointwise_length _ _ H).
  set (i := Qfloor _). rewrite (pointwise_nth _ _ H (Z.to_nat i)), (pointwise_nth _ _ H (Z.to_nat (i + 1))).
  reflexivity.
Qed.

Lemma rule_b_perm md pq ms ms' own : Permutation ms ms' -> rule_b md pq ms own = rule_b md pq ms' own.
Proof.
  intro Hp. unfold rule_b. rewrite (Permutation_length Hp). f_equal. apply no_worse_compat.
  apply np_quantile_pointwise. apply sorted_perm_pointwise; try apply sort_asc_sorted.
  eapply Permutation_trans; [apply sort_asc_perm|].
  eapply Permutation_trans; [exact Hp|apply Permutation_sym, sort_asc_perm].
Qed.

Theorem c03_order_independence cfg levels brackets evs1 evs2 t r m b1 b2 sys1 sys2 pre1 rg1 post1 pre2 rg2 post2 :
  wf_levels levels (c_max_t cfg) -> c_rush cfg = None ->
  let st1 := reached cfg levels brackets evs1 in
  let st2 := reached cfg levels brackets evs2 in
  running st1 t -> running st2 t -> (1 <= r < c_max_t cfg)%Z ->
  assoc_get (s_task st1) t = Some b1 -> assoc_get (s_task st2) t = Some b2 ->
  nth_error (s_sys st1) (sys_id cfg b1) = Some sys1 -> nth_error (s_sys st2) (sys_id cfg b2) = Some sys2 ->
  milestone_rungs (skip_of cfg b1) (rs_rungs sys1) = pre1 ++ rg1 :: post1 ->
  milestone_rungs (skip_of cfg b2) (rs_rungs sys2) = pre2 ++ rg2 :: post2 ->
  r_level rg1 = r -> r_level rg2 = r -> ~ In t (trial_ids rg1) -> ~ In t (trial_ids rg2) ->
  r_quant rg1 = r_quant rg2 ->
  Permutation (metrics (r_data rg1)) (metrics (r_data rg2)) ->
  snd (on_trial_result cfg st1 t r m) = snd (on_trial_result cfg st2 t r m).
Proof.
  intros Hwf Hrush st1 st2 Hr1 Hr2 Hrange Hb1 Hb2 Hs1 Hs2 Hm1 Hm2 Hl1 Hl2 Hn1 Hn2 Hq Hp.
  unfold st1, st2.
  rewrite (c03_rule_at_rung cfg levels brackets evs1 t r m b1 sys1 pre1 rg1 post1 Hwf Hrush Hr1 Hrange Hb1 Hs1 Hm1 Hl1 Hn1).
  rewrite (c03_rule_at_rung cfg levels brackets evs2 t r m b2 sys2 pre2 rg2 post2 Hwf Hrush Hr2 Hrange Hb2 Hs2 Hm2 Hl2 Hn2).
  rewrite Hq. rewrite (rule_b_perm (c_mode cfg) (r_quant rg2) _ (m :: metrics (r_data rg2)) m (perm_skip m Hp)).
  destruct (rule_b _ _ _ _); reflexivity.
Qed.

Lemma rule_b_spec md pq ms own :
  rule_b md pq ms own = true <->
  (length ms < 2)%nat \/
  let c := np_quantile (sort_asc ms) (quantile_level md pq) in
  match md with Min => own <= c | Max => c <= own end.
Proof.
  unfold rule_b. rewrite orb_true_iff. simpl. split.
  - intros [H|H]; [left; lia|right]. destruct md; simpl in H; apply Qleb_le in H; exact H.
  - intros [H|H]; [left; lia|right]. destruct md; simpl; apply Qleb_le; exact H.
Qed.

Lemma sort_asc_is_sort l : Sorted Qle (sort_asc l) /\ Permutation (sort_asc l) l.
Proof. split; [apply StronglySorted_Sorted, sort_asc_sorted|apply sort_asc_perm]. Qed.

(* ======================================================================== *)
(* 8. C15: mode symmetry of the stopping rung system                         *)
(*    (mode max on negated metrics = mode min on the originals)              *)
(* ======================================================================== *)

Definition neg_entry (e : entry) : entry := {| e_trial := e_trial e; e_metric := - e_metric e |}.
Definition neg_data (l : list entry) : list entry := map neg_entry l.
Definition neg_rung (rg : rung) : rung :=
  {| r_level := r_level rg; r_quant := r_quant rg; r_data := neg_data (r_data rg) |}.
Definition neg_thr (ths : thresholds) : thresholds := map (fun kv => (fst kv, - snd kv)) ths.
Definition neg_sys (sys : rsys) : rsys :=
  {| rs_rungs := map neg_rung (rs_rungs sys); rs_thr := neg_thr (rs_thr sys) |}.
Definition neg_state (st : state) : state :=
  {| s_sys := map neg_sys (s_sys st); s_task := s_task st; s_active := s_active st |}.
Definition neg_event (ev : event) : event :=
  match ev with EvReport t r m => EvReport t r (- m) | e => e end.
Definition with_mode (md : mode) (cfg : config) : config :=
  {| c_mode := md; c_max_t := c_max_t cfg; c_per_bracket := c_per_bracket cfg; c_rush := c_rush cfg |}.

Lemma Qopp_opp_eq (x : Q) : - - x = x.
Proof. destruct x as [a b]. unfold Qopp. simpl. rewrite Z.opp_involutive. reflexivity. Qed.

Lemma Qleb_iff_eq a b c d : (a <= b <-> c <= d) -> Qleb a b = Qleb c d.
Proof.
  intro H. destruct (Qleb a b) eqn:E1, (Qleb c d) eqn:E2; try reflexivity.
  - apply Qleb_le in E1. apply H in E1. apply Qleb_le in E1. congruence.
  - apply Qleb_le in E2. apply H in E2. apply Qleb_le in E2. congruence.
Qed.

Lemma sl_add_neg e l : sl_add Max (neg_entry e) (neg_data l) = neg_data (sl_add Min e l).
Proof.
  induction l as [|x l IH]; simpl; [reflexivity|].
  rewrite !Qopp_opp_eq. destruct (Qleb (e_metric x) (e_metric e)); simpl; [rewrite IH|]; reflexivity.
Qed.

Lemma rung_add_neg rg t m : rung_add Max (neg_rung rg) t (- m) = neg_rung (rung_add Min rg t m).
Proof.
  unfold rung_add, neg_rung. simpl. f_equal.
  apply (sl_add_neg {| e_trial := t; e_metric := m |} (r_data rg)).
Qed.

Lemma rung_contains_neg t rg : rung_contains t (neg_rung rg) = rung_contains t rg.
Proof.
  unfold rung_contains, neg_rung, neg_data. simpl. induction (r_data rg) as [|e l IH]; simpl; [reflexivity|].
  rewrite IH. reflexivity.
Qed.

Lemma metric_at_neg data k : metric_at (neg_data data) k = - metric_at data k.
Proof.
  unfold metric_at, neg_data.
  change {| e_trial := 0%Z; e_metric := 0 |} with (neg_entry {| e_trial := 0%Z; e_metric := 0 |}) at 1.
  rewrite map_nth. reflexivity.
Qed.

(* the non-trivial heart: q vs 1-q, reversed order, g vs 1-g *)
Lemma quantile_mode_symmetry pq data : 0 < pq < 1 ->
  match rung_quantile Min pq data, rung_quantile Max pq (neg_data data) with
  | QNone, QNone => True
  | QVal v, QVal w => w == - v
  | _, _ => False
  end.
Proof.
  intro Hpq. unfold rung_quantile. cbv zeta.
  replace (length (neg_data data)) with (length data) by (unfold neg_data; rewrite map_length; reflexivity).
  set (n := Z.of_nat (length data)).
  destruct (n <? 2)%Z eqn:En; [exact I|].
  assert (Hn : (2 <= n)%Z) by lia. clear En.
  set (N1 := inject_Z (n - 1)).
  assert (HN1 : 1 <= N1).
  { unfold N1. change 1 with (inject_Z 1). rewrite <- Zle_Qle. lia. }
  set (h := N1 * pq).
  assert (Hh : 0 < h < N1) by (unfold h; nra).
  set (i := Qfloor h).
  pose proof (Qfloor_le h) as Fi1. pose proof (Qlt_floor h) as Fi2. fold i in Fi1, Fi2.
  assert (Hi0 : (0 <= i)%Z).
  { assert (A : (0 < i + 1)%Z) by (rewrite Zlt_Qlt; change (inject_Z 0) with 0; lra). lia. }
  assert (Hi1 : (i < n - 1)%Z) by (rewrite Zlt_Qlt; fold N1; lra).
  assert (Hinj1 : inject_Z (i + 1) == inject_Z i + 1) by (rewrite inject_Z_plus; reflexivity).
  assert (Hinj2 : inject_Z (i + 1 + 1) == inject_Z i + 2).
  { rewrite !inject_Z_plus. change (inject_Z 1) with 1. ring. }
  assert (HinjN : N1 == inject_Z n - 1).
  { unfold N1. unfold Z.sub. rewrite inject_Z_plus. reflexivity. }
  assert (Htr : Qtrunc (h + 1) = (i + 1)%Z).
  { unfold Qtrunc. destruct (Qle_bool 0 (h + 1)) eqn:E0.
    - apply floor_unique; lra.
    - exfalso. assert (0 <= h + 1) by lra. apply Qle_bool_iff in H. congruence. }
  rewrite Htr.
  destruct (negb ((1 <=? i + 1)%Z && (i + 1 <? n)%Z)) eqn:Ea; [lia|]. clear Ea.
  assert (Hv' : N1 * (1 - pq) + 1 == N1 - h + 1) by (unfold h; ring).
  destruct (Qlt_le_dec (inject_Z i) h) as [Hlt|Hge].
  - (* h is not an integer *)
    assert (Htr' : Qtrunc (N1 * (1 - pq) + 1) = (n - i - 1)%Z).
    { unfold Qtrunc. destruct (Qle_bool 0 (N1 * (1 - pq) + 1)) eqn:E0.
      - apply floor_unique.
        + rewrite Hv'. unfold Z.sub. rewrite !inject_Z_plus, !inject_Z_opp. change (inject_Z 1) with 1. lra.
        + rewrite Hv'. unfold Z.sub. rewrite !inject_Z_plus, !inject_Z_opp. change (inject_Z 1) with 1. lra.
      - exfalso. assert (0 <= N1 * (1 - pq) + 1) by (rewrite Hv'; lra). apply Qle_bool_iff in H. congruence. }
    rewrite Htr'.
    destruct (negb ((1 <=? n - i - 1)%Z && (n - i - 1 <? n)%Z)) eqn:Ea; [lia|]. clear Ea.
    rewrite !metric_at_neg.
    replace (n - (n - i - 1) - 1 + 1)%Z with (i + 1 - 1 + 1)%Z by lia.
    replace (n - (n - i - 1) - 1)%Z with (i + 1 - 1)%Z by lia.
    assert (Hinj3 : inject_Z (n - i - 1) == inject_Z n - inject_Z i - 1).
    { unfold Z.sub. rewrite !inject_Z_plus, !inject_Z_opp. reflexivity. }
    rewrite Hinj3, Hinj1, Hv', HinjN. ring.
  - (* h is an integer: h == i, i >= 1 *)
    assert (Hhi : h == inject_Z i) by lra.
    assert (Hi1' : (1 <= i)%Z).
    { assert (A : (0 < i)%Z) by (rewrite Zlt_Qlt; change (inject_Z 0) with 0; lra). lia. }
    assert (Hinj4 : inject_Z (n - i) == inject_Z n - inject_Z i).
    { unfold Z.sub. rewrite !inject_Z_plus, !inject_Z_opp. reflexivity. }
    assert (Htr' : Qtrunc (N1 * (1 - pq) + 1) = (n - i)%Z).
    { unfold Qtrunc. destruct (Qle_bool 0 (N1 * (1 - pq) + 1)) eqn:E0.
      - apply floor_unique.
        + rewrite Hv', Hinj4. lra.
        + rewrite Hv'. unfold Z.sub. rewrite !inject_Z_plus, !inject_Z_opp. change (inject_Z 1) with 1. lra.
      - exfalso. assert (0 <= N1 * (1 - pq) + 1) by (rewrite Hv'; lra). apply Qle_bool_iff in H. congruence. }
    rewrite Htr'.
    destruct (negb ((1 <=? n - i)%Z && (n - i <? n)%Z)) eqn:Ea; [lia|]. clear Ea.
    rewrite !metric_at_neg.
    replace (n - (n - i) - 1 + 1)%Z with (i + 1 - 1)%Z by lia.
    rewrite Hinj4, Hinj1, Hv', HinjN, Hhi. ring.
Qed.

Lemma base_continues_neg rg m : 0 < r_quant rg < 1 ->
  base_continues Max (neg_rung rg) (- m) = base_continues Min rg m.
Proof.
  intro Hq. unfold base_continues. simpl r_quant. simpl r_data.
  pose proof (quantile_mode_symmetry (r_quant rg) (r_data rg) Hq) as H.
  destruct (rung_quantile Min (r_quant rg) (r_data rg)) as [|v|],
           (rung_quantile Max (r_quant rg) (neg_data (r_data rg))) as [|w|]; try contradiction; try reflexivity.
  f_equal. simpl. apply Qleb_iff_eq. rewrite H. split; intro; lra.
Qed.

Lemma th_get_neg ths r : th_get (neg_thr ths) r = option_map Qopp (th_get ths r).
Proof.
  induction ths as [|[k v] ths IH]; simpl; [reflexivity|]. destruct (Z.eqb k r); [reflexivity|exact IH].
Qed.

Lemma th_set_neg ths r v : th_set (neg_thr ths) r (- v) = neg_thr (th_set ths r v).
Proof.
  induction ths as [|[k w] ths IH]; simpl; [reflexivity|].
  destruct (Z.eqb k r); simpl; [reflexivity|rewrite IH; reflexivity].
Qed.

Lemma Qltb_neg a b : Qltb (- a) (- b) = Qltb b a.
Proof. unfold Qltb. f_equal. apply (Qleb_iff_eq (- b) (- a) a b). split; intro; lra. Qed.

Lemma return_better_neg th m : return_better Max (option_map Qopp th) (- m) = - return_better Min th m.
Proof.
  destruct th as [a|]; simpl; [|reflexivity]. rewrite Qltb_neg. destruct (Qltb m a); reflexivity.
Qed.

Lemma Qeqb_neg a b : Qeqb (- a) (- b) = Qeqb a b.
Proof.
  unfold Qeqb. destruct (Qeq_bool a b) eqn:E1, (Qeq_bool (- a) (- b)) eqn:E2; try reflexivity.
  - apply Qeq_bool_iff in E1. assert (H : - a == - b) by lra. apply Qeq_bool_iff in H. congruence.
  - apply Qeq_bool_iff in E2. assert (H : a == b) by lra. apply Qeq_bool_iff in H. congruence.
Qed.

Lemma cfg_tcf_neg cfg rg t m ths : c_mode cfg = Min -> 0 < r_quant rg < 1 ->
  cfg_tcf (with_mode Max cfg) (neg_rung rg) t (- m) (neg_thr ths) =
    (neg_thr (fst (cfg_tcf cfg rg t m ths)), snd (cfg_tcf cfg rg t m ths)).
Proof.
  intros Hmd Hq. unfold cfg_tcf, with_mode. simpl. rewrite Hmd.
  destruct (c_rush cfg) as [n|]; simpl.
  - unfold tc_rush. rewrite (base_continues_neg rg m Hq).
    destruct (base_continues Min rg m) as [tc|]; [|reflexivity].
    unfold rush_decide. simpl r_level. destruct (negb tc); [reflexivity|].
    rewrite th_get_neg, return_better_neg. destruct (t <? n)%Z; simpl.
    + rewrite th_set_neg. reflexivity.
    + rewrite Qeqb_neg. reflexivity.
  - unfold tc_stopping. simpl. rewrite (base_continues_neg rg m Hq). reflexivity.
Qed.

Definition neg_report (res : report) : report :=
  {| rp_rungs := map neg_rung (rp_rungs res); rp_thr := neg_thr (rp_thr res);
     rp_continues := rp_continues res; rp_milestone := rp_milestone res |}.

Lemma scan_neg cfg ths t r m rs : c_mode cfg = Min -> Forall (fun rg => 0 < r_quant rg < 1) rs ->
  scan Max (cfg_tcf (with_mode Max cfg)) (neg_thr ths) t r (- m) (map neg_rung rs) =
    neg_report (scan Min (cfg_tcf cfg) ths t r m rs).
Proof.
  intros Hmd Hf. induction Hf as [|rg rest Hq Hf IH]; simpl; [reflexivity|].
  rewrite rung_contains_neg.
  destruct ((r <? r_level rg)%Z || rung_contains t rg).
  - rewrite IH. reflexivity.
  - destruct (r_level rg <? r)%Z; [reflexivity|].
    rewrite rung_add_neg.
    rewrite (cfg_tcf_neg cfg (rung_add Min rg t m) t m ths Hmd Hq).
    destruct (cfg_tcf cfg (rung_add Min rg t m) t m ths). reflexivity.
Qed.

Lemma milestone_rungs_neg skip rs : milestone_rungs skip (map neg_rung rs) = map neg_rung (milestone_rungs skip rs).
Proof. unfold milestone_rungs. rewrite map_length. apply firstn_map. Qed.

Lemma skipped_rungs_neg skip rs : skipped_rungs skip (map neg_rung rs) = map neg_rung (skipped_rungs skip rs).
Proof. unfold skipped_rungs. rewrite map_length. apply skipn_map. Qed.

Definition quants_ok (sys : rsys) : Prop := Forall (fun rg => 0 < r_quant rg < 1) (rs_rungs sys).

Lemma rs_report_neg cfg sys skip t r m : c_mode cfg = Min -> quants_ok sys ->
  rs_on_task_report Max (cfg_tcf (with_mode Max cfg)) (c_max_t cfg) (neg_sys sys) skip t r (- m) =
    let res := rs_on_task_report Min (cfg_tcf cfg) (c_max_t cfg) sys skip t r m in
    (neg_sys (fst (fst res)), snd (fst res), snd res).
Proof.
  intros Hmd Hq. unfold rs_on_task_report. destruct (r =? c_max_t cfg)%Z; [reflexivity|].
  simpl rs_rungs. simpl rs_thr. rewrite milestone_rungs_neg, skipped_rungs_neg.
  rewrite scan_neg; [|exact Hmd|].
  - simpl. unfold neg_sys. simpl. rewrite map_app. reflexivity.
  - unfold quants_ok in Hq. rewrite Forall_forall in *. intros rg Hin. apply Hq. eapply firstn_incl. exact Hin.
Qed.

Lemma list_set_map {A B} (f : A -> B) l i x : list_set (map f l) i (f x) = map f (list_set l i x).
Proof. revert i. induction l as [|y l IH]; intros [|i]; simpl; try reflexivity. rewrite IH. reflexivity. Qed.

Lemma cleanup_neg st t d : cleanup (neg_state st) t d = neg_state (cleanup st t d).
Proof. reflexivity. Qed.

Lemma sys_ok_quants md sys : sys_ok md sys -> quants_ok sys.
Proof.
  intros [_ H]. unfold quants_ok. rewrite Forall_forall in *. intros rg Hin. destruct (H rg Hin) as [Hq _]. exact Hq.
Qed.

Lemma on_trial_result_neg cfg st t r m : c_mode cfg = Min -> Inv cfg st ->
  on_trial_result (with_mode Max cfg) (neg_state st) t r (- m) =
    (neg_state (fst (on_trial_result cfg st t r m)), snd (on_trial_result cfg st t r m)).
Proof.
  intros Hmd [HI _]. unfold on_trial_result, on_trial_result_gen. simpl s_active. simpl s_task. simpl s_sys.
  destruct (r <? 1)%Z; [reflexivity|].
  destruct (assoc_get (s_active st) t) as [[| |]|]; try reflexivity.
  destruct (assoc_get (s_task st) t) as [b|]; [|reflexivity].
  change (sys_id (with_mode Max cfg) b) with (sys_id cfg b).
  change (skip_of (with_mode Max cfg) b) with (skip_of cfg b).
  change (c_max_t (with_mode Max cfg)) with (c_max_t cfg).
  change (c_mode (with_mode Max cfg)) with Max. rewrite Hmd.
  rewrite nth_error_map.
  destruct (nth_error (s_sys st) (sys_id cfg b)) as [sys|] eqn:Es; simpl option_map; cbv iota; [|reflexivity].
  destruct (r <? c_max_t cfg)%Z; [|reflexivity].
  assert (Hq : quants_ok sys).
  { rewrite Forall_forall in HI. rewrite Hmd in HI. eapply sys_ok_quants. apply HI. eapply nth_error_In. exact Es. }
  rewrite (rs_report_neg cfg sys (skip_of cfg b) t r m Hmd Hq). cbv zeta.
  set (res := rs_on_task_report Min (cfg_tcf cfg) (c_max_t cfg) sys (skip_of cfg b) t r m).
  simpl fst. simpl snd. rewrite list_set_map.
  destruct (snd (fst res)) as [[|]|]; reflexivity.
Qed.

Lemma step_neg cfg st ev : c_mode cfg = Min -> Inv cfg st ->
  step (with_mode Max cfg) (neg_state st) (neg_event ev) =
    (neg_state (fst (step cfg st ev)), snd (step cfg st ev)).
Proof.
  intros Hmd HI. destruct ev as [t b|t r m|t|t|t]; simpl.
  - unfold step, step_gen. simpl s_sys. simpl s_active. change (sys_id (with_mode Max cfg) b) with (sys_id cfg b).
    rewrite nth_error_map. destruct (nth_error (s_sys st) (sys_id cfg b)); simpl; [|reflexivity].
    destruct (assoc_get (s_active st) t); reflexivity.
  - apply on_trial_result_neg; assumption.
  - reflexivity.
  - unfold step, step_gen. simpl s_active. destruct (assoc_get (s_active st) t); reflexivity.
  - reflexivity.
Qed.

(* whole runs: same decisions / errors for every event, same rung contents (negated) *)
Fixpoint outcomes (cfg : config) (st : state) (evs : list event) : list outcome :=
  match evs with
  | [] => []
  | ev :: rest => snd (step cfg st ev) :: outcomes cfg (fst (step cfg st ev)) rest
  end.

Theorem stopping_mode_symmetry cfg evs : forall st, c_mode cfg = Min -> Inv cfg st ->
  run (with_mode Max cfg) (neg_state st) (map neg_event evs) = neg_state (run cfg st evs) /\
  outcomes (with_mode Max cfg) (neg_state st) (map neg_event evs) = outcomes cfg st evs.
Proof.
  unfold run. induction evs as [|ev evs IH]; intros st Hmd HI; simpl; [split; reflexivity|].
  rewrite (step_neg cfg st ev Hmd HI). simpl fst. simpl snd.
  destruct (IH (fst (step cfg st ev)) Hmd (step_inv _ cfg st ev HI)) as [H1 H2].
  split; [exact H1|]. f_equal. exact H2.
Qed.

Lemma init_state_neg cfg levels brackets :
  neg_state (init_state cfg levels brackets) = init_state (with_mode Max cfg) levels brackets.
Proof.
  unfold init_state, neg_state. simpl. f_equal.
  generalize (mk_quantiles levels (c_max_t cfg)) as quants.
  generalize (if c_per_bracket cfg then Nat.min brackets (length levels + 1) else 1%nat) as num.
  intro num. revert levels. induction num as [|num IH]; intros levels quants; simpl; [reflexivity|].
  rewrite IH. f_equal. unfold neg_sys, mk_rungs. simpl. f_equal.
  rewrite map_rev. rewrite map_map. reflexivity.
Qed.

Theorem stopping_mode_symmetry_from_init cfg levels brackets evs :
  c_mode cfg = Min -> wf_levels levels (c_max_t cfg) ->
  reached (with_mode Max cfg) levels brackets (map neg_event evs) = neg_state (reached cfg levels brackets evs) /\
  outcomes (with_mode Max cfg) (init_state (with_mode Max cfg) levels brackets) (map neg_event evs) =
    outcomes cfg (init_state cfg levels brackets) evs.
Proof.
  intros Hmd Hwf. unfold reached. rewrite <- init_state_neg.
  apply stopping_mode_symmetry; [exact Hmd|apply init_inv; exact Hwf].
Qed.

(* ======================================================================== *)
(* 9. Rung level construction and the rung structure of reachable states     *)
(* ======================================================================== *)

Lemma round_he_bounds x : x - (1 # 2) <= inject_Z (round_half_even x) <= x + (1 # 2).
Proof.
  unfold round_half_even. pose proof (Qfloor_le x) as F1. pose proof (Qlt_floor x) as F2.
  set (f := Qfloor x) in *.
  assert (Hf1 : inject_Z (f + 1) == inject_Z f + 1) by (rewrite inject_Z_plus; reflexivity).
  destruct (Qcompare (x - inject_Z f) (1 # 2)) eqn:E.
  - apply Qeq_alt in E. destruct (Z.even f); [|rewrite Hf1]; lra.
  - apply Qlt_alt in E. lra.
  - apply Qgt_alt in E. rewrite Hf1. lra.
Qed.

Lemma round_he_Z z : round_half_even (inject_Z z) = z.
Proof.
  unfold round_half_even. rewrite Qfloor_Z.
  replace (Qcompare (inject_Z z - inject_Z z) (1 # 2)) with Lt; [reflexivity|].
  symmetry. apply (proj1 (Qlt_alt _ _)). assert (H : inject_Z z - inject_Z z == 0) by ring. rewrite H. reflexivity.
Qed.

(* geometric levels for a RATIONAL reduction factor >= 2 (round half even of min_t * rf^k) *)
Lemma geo_levels_ok max_t rf fuel : forall cur, 1 <= cur -> 2 <= rf ->
  Forall (fun x => cur - (1 # 2) <= inject_Z x /\ (0 < x <= max_t)%Z) (geo_levels fuel cur rf max_t) /\
  StronglySorted Z.lt (geo_levels fuel cur rf max_t).
Proof.
  induction fuel as [|fuel IH]; intros cur Hc Hrf; simpl; [split; constructor|].
  destruct (Qltb cur (inject_Z max_t)) eqn:E; [|split; constructor]. apply Qltb_lt in E.
  assert (Hc' : 1 <= cur * rf) by nra.
  destruct (IH (cur * rf) Hc' Hrf) as [H1 H2].
  pose proof (round_he_bounds cur) as [B1 B2]. set (h := round_half_even cur) in *.
  assert (Hh : (0 < h <= max_t)%Z).
  { split.
    - rewrite Zlt_Qlt. change (inject_Z 0) with 0. lra.
    - assert (A : (h < max_t + 1)%Z) by (rewrite Zlt_Qlt, inject_Z_plus; change (inject_Z 1) with 1; lra). lia. }
  split.
  - constructor; [split; [exact B1|exact Hh]|].
    rewrite Forall_forall in *. intros x Hx. destruct (H1 x Hx) as [Hlo Hr]. split; [nra|exact Hr].
  - constructor; [exact H2|]. rewrite Forall_forall in *. intros y Hy. destruct (H1 y Hy) as [Hlo _].
    destruct (Z_lt_le_dec h y) as [Hlt|Hle]; [exact Hlt|exfalso].
    rewrite Zle_Qle in Hle.
    assert (Hc1 : cur == 1) by nra.
    assert (A1 : (h < 2)%Z) by (rewrite Zlt_Qlt; change (inject_Z 2) with 2; lra).
    assert (A2 : (1 < y)%Z) by (rewrite Zlt_Qlt; change (inject_Z 1) with 1; nra).
    rewrite <- Zle_Qle in Hle. lia.
Qed.

Lemma arith_levels_ok max_t incr fuel : forall cur, (1 <= incr)%Z ->
  Forall (fun x => (cur <= x < max_t)%Z) (arith_levels fuel cur incr max_t) /\
  StronglySorted Z.lt (arith_levels fuel cur incr max_t).
Proof.
  induction fuel as [|fuel IH]; intros cur Hi; simpl; [split; constructor|].
  destruct (cur <? max_t)%Z eqn:E; [|split; constructor].
  destruct (IH (cur + incr)%Z Hi) as [H1 H2]. split.
  - constructor; [lia|]. rewrite Forall_forall in *. intros x Hx. specialize (H1 x Hx). lia.
  - constructor; [exact H2|]. rewrite Forall_forall in *. intros x Hx. specialize (H1 x Hx). lia.
Qed.

Lemma strictly_increasing_sorted l : strictly_increasing l = true -> StronglySorted Z.lt l.
Proof.
  induction l as [|x l IH]; intro H; [constructor|].
  destruct l as [|y r]; [constructor; constructor|].
  change (strictly_increasing (x :: y :: r)) with ((x <? y)%Z && strictly_increasing (y :: r)) in H.
  apply andb_true_iff in H as [Hxy Hr]. specialize (IH Hr).
  constructor; [exact IH|]. inversion IH as [|? ? _ Hf]; subst.
  constructor; [lia|]. rewrite Forall_forall in *. intros z Hz. specialize (Hf z Hz). lia.
Qed.

Lemma last_In (l : list Z) : l <> [] -> In (last l 0%Z) l.
Proof.
  induction l as [|x l IH]; intro H; [congruence|].
  destruct l as [|y r]; [left; reflexivity|]. right. apply IH. discriminate.
Qed.

Lemma ssorted_snoc_inv {A} (R : A -> A -> Prop) l z :
  StronglySorted R (l ++ [z]) -> StronglySorted R l /\ Forall (fun y => R y z) l.
Proof.
  induction l as [|a l IH]; simpl; intro H; [split; constructor|].
  inversion H as [|? ? Hs Hf]; subst. destruct (IH Hs) as [H1 H2]. split.
  - constructor; [exact H1|]. apply Forall_app in Hf. tauto.
  - constructor; [|exact H2]. rewrite Forall_forall in Hf. apply Hf. apply in_or_app. right. left. reflexivity.
Qed.

Theorem sh_rung_levels_wf rl grace rf incr max_t l :
  sh_rung_levels rl grace rf incr max_t = Some l -> wf_levels l max_t /\ l <> [].
Proof.
  unfold sh_rung_levels. intro H.
  (* the list before stripping a final max_t: sorted, positive, <= max_t, non-empty, and if its last
     element is max_t it has at least two elements *)
  assert (Hpre : exists l0, l = (if (last l0 0 =? max_t)%Z then removelast l0 else l0) /\
                            StronglySorted Z.lt l0 /\ Forall (fun x => (0 < x <= max_t)%Z) l0 /\
                            l0 <> [] /\ ((last l0 0 = max_t)%Z -> removelast l0 <> [])).
  { destruct rl as [l0|].
    - destruct ((2 <=? length l0)%nat && forallb (fun x => (1 <=? x)%Z) l0 && strictly_increasing l0
                && (last l0 0 <=? max_t)%Z) eqn:E; [|discriminate].
      simpl in H. injection H as <-. exists l0.
      apply andb_true_iff in E as [E E4]. apply andb_true_iff in E as [E E3]. apply andb_true_iff in E as [E1 E2].
      pose proof (strictly_increasing_sorted l0 E3) as Hs.
      assert (Hne : l0 <> []) by (destruct l0; [simpl in E1; lia|discriminate]).
      split; [reflexivity|]. split; [exact Hs|]. split; [|split; [exact Hne|]].
      + rewrite forallb_forall in E2. rewrite Forall_forall. intros x Hx. specialize (E2 x Hx).
        rewrite (app_removelast_last 0%Z Hne) in Hs, Hx. apply ssorted_snoc_inv in Hs as [_ Hlt].
        rewrite Forall_forall in Hlt. apply in_app_or in Hx as [Hx|[<-|[]]]; [specialize (Hlt x Hx)|]; lia.
      + intros _. destruct l0 as [|a [|b r]]; simpl in E1; try lia. discriminate.
    - destruct ((1 <=? grace)%Z && (1 <=? max_t)%Z && (grace <? max_t)%Z) eqn:E; [|discriminate].
      apply andb_true_iff in E as [E E3]. apply andb_true_iff in E as [E1 E2].
      assert (Hfuel : exists f, Z.to_nat max_t = S f) by (exists (Z.to_nat max_t - 1)%nat; lia).
      destruct Hfuel as [f Hf].
      destruct rf as [rf|].
      + destruct (Qleb 2 rf) eqn:Erf; [|discriminate]. simpl in H. injection H as <-. apply Qleb_le in Erf.
        assert (Hg1 : 1 <= inject_Z grace) by (change 1 with (inject_Z 1); rewrite <- Zle_Qle; lia).
        destruct (geo_levels_ok max_t rf (Z.to_nat max_t) (inject_Z grace) Hg1 Erf) as [H1 H2].
        exists (geo_levels (Z.to_nat max_t) (inject_Z grace) rf max_t). split; [reflexivity|]. split; [exact H2|].
        assert (Hlt : Qltb (inject_Z grace) (inject_Z max_t) = true) by (apply Qltb_lt; rewrite <- Zlt_Qlt; lia).
        assert (Hshape : exists rest, geo_levels (Z.to_nat max_t) (inject_Z grace) rf max_t = grace :: rest).
        { rewrite Hf. simpl. rewrite Hlt, round_he_Z. eexists. reflexivity. }
        destruct Hshape as [rest Hshape]. rewrite Hshape in *.
        split; [|split; [discriminate|]].
        * rewrite Forall_forall in *. intros x Hx. destruct (H1 x Hx) as [_ Hr]. exact Hr.
        * intro Hl. destruct rest as [|y r]; [simpl in Hl; lia|discriminate].
      + destruct incr as [incr|]; [|discriminate].
        destruct (1 <=? incr)%Z eqn:Ei; [|discriminate]. simpl in H. injection H as <-.
        destruct (arith_levels_ok max_t incr (Z.to_nat max_t) grace ltac:(lia)) as [H1 H2].
        exists (arith_levels (Z.to_nat max_t) grace incr max_t). split; [reflexivity|]. split; [exact H2|].
        assert (Hne : arith_levels (Z.to_nat max_t) grace incr max_t <> []).
        { rewrite Hf. simpl. destruct (grace <? max_t)%Z; [discriminate|lia]. }
        split; [|split; [exact Hne|]].
        * rewrite Forall_forall in *. intros x Hx. specialize (H1 x Hx). lia.
        * intro Hl. exfalso. rewrite Forall_forall in H1.
          specialize (H1 _ (last_In _ Hne)). lia. }
  destruct Hpre as [l0 [-> [Hs [Hf [Hne Hrl]]]]].
  pose proof (app_removelast_last 0%Z Hne) as Hsplit.
  destruct (last l0 0 =? max_t)%Z eqn:El.
  - apply Z.eqb_eq in El. split; [|apply Hrl; exact El].
    rewrite Hsplit in Hs, Hf. apply ssorted_snoc_inv in Hs as [Hs1 Hlt]. apply Forall_app in Hf as [Hf1 _].
    split; [exact Hs1|]. rewrite Forall_forall in *. intros x Hx. specialize (Hlt x Hx). specialize (Hf1 x Hx). lia.
  - split; [|exact Hne]. split; [exact Hs|].
    rewrite Hsplit in Hs. apply ssorted_snoc_inv in Hs as [_ Hlt].
    rewrite Forall_forall in *. intros x Hx. pose proof (Hf _ (last_In _ Hne)) as Hlast. specialize (Hf x Hx).
    rewrite Hsplit in Hx. apply in_app_or in Hx as [Hx|[<-|[]]]; [specialize (Hlt x Hx)|]; lia.
Qed.

(* --- (level, quantile) signatures never change; structure of the initial systems ------------ *)

Definition sys_sigs (st : state) : list (list (Z * Q)) :=
  map (fun sys => map rsig (rs_rungs sys)) (s_sys st).

Lemma scan_sigs md tcf ths t r m rs : map rsig (rp_rungs (scan md tcf ths t r m rs)) = map rsig rs.
Proof.
  induction rs as [|rg rest IH]; simpl; [reflexivity|].
  destruct ((r <? r_level rg)%Z || rung_contains t rg); simpl; [rewrite IH; reflexivity|].
  destruct (r_level rg <? r)%Z; simpl; [reflexivity|].
  destruct (tcf (rung_add md rg t m) t m ths). reflexivity.
Qed.

Lemma rs_report_sigs md tcf max_t sys skip t r m :
  map rsig (rs_rungs (fst (fst (rs_on_task_report md tcf max_t sys skip t r m)))) = map rsig (rs_rungs sys).
Proof.
  unfold rs_on_task_report. destruct (r =? max_t)%Z; simpl; [reflexivity|].
  rewrite map_app, scan_sigs, <- map_app, milestone_split. reflexivity.
Qed.

Lemma list_set_map_same {A B} (f : A -> B) l i x y :
  nth_error l i = Some y -> f x = f y -> map f (list_set l i x) = map f l.
Proof.
  revert i. induction l as [|z l IH]; intros [|i] H E; simpl in *; try discriminate; try reflexivity.
  - injection H as ->. rewrite E. reflexivity.
  - f_equal. apply IH; assumption.
Qed.

Lemma step_sigs tcf cfg st ev : sys_sigs (fst (step_gen tcf cfg st ev)) = sys_sigs st.
Proof.
  destruct ev as [t b|t r m|t|t|t]; simpl; try reflexivity.
  - destruct (nth_error (s_sys st) (sys_id cfg b)); [|reflexivity].
    destruct (assoc_get (s_active st) t); reflexivity.
  - unfold on_trial_result_gen. destruct (r <? 1)%Z; [reflexivity|].
    destruct (assoc_get (s_active st) t) as [[| |]|]; try reflexivity.
    destruct (assoc_get (s_task st) t) as [b|]; [|reflexivity].
    destruct (nth_error (s_sys st) (sys_id cfg b)) as [sys|] eqn:Es; [|reflexivity].
    destruct (r <? c_max_t cfg)%Z; [|reflexivity].
    set (res := rs_on_task_report _ _ _ _ _ _ _ _).
    assert (H : sys_sigs {| s_sys := list_set (s_sys st) (sys_id cfg b) (fst (fst res));
                            s_task := s_task st; s_active := s_active st |} = sys_sigs st).
    { unfold sys_sigs. simpl. eapply list_set_map_same; [exact Es|]. apply rs_report_sigs. }
    destruct (snd (fst res)) as [[|]|]; exact H.
  - destruct (assoc_get (s_active st) t); reflexivity.
Qed.

Lemma run_sigs cfg evs : forall st, sys_sigs (run cfg st evs) = sys_sigs st.
Proof.
  unfold run. induction evs as [|ev evs IH]; intro st; simpl; [reflexivity|].
  rewrite IH. apply (step_sigs (cfg_tcf cfg)).
Qed.

Lemma combine_skipn {A B} s : forall (l : list A) (q : list B),
  combine (skipn s l) (skipn s q) = skipn s (combine l q).
Proof.
  induction s as [|s IH]; intros l q; [reflexivity|].
  destruct l as [|x l]; [reflexivity|]. destruct q as [|y q]; simpl.
  - destruct (skipn s l); reflexivity.
  - apply IH.
Qed.

Lemma skipn_tl {A} s (l : list A) : skipn s (tl l) = skipn (S s) l.
Proof. destruct l; simpl; [destruct s; reflexivity|reflexivity]. Qed.

Lemma mk_rungs_sigs levels quants : map rsig (mk_rungs levels quants) = rev (combine levels quants).
Proof.
  unfold mk_rungs. rewrite map_rev, map_map. f_equal.
  rewrite <- (map_id (combine levels quants)) at 2. apply map_ext. intros [l q]. reflexivity.
Qed.

Lemma mk_systems_sigs num : forall levels quants,
  map (fun sys => map rsig (rs_rungs sys)) (mk_systems levels quants num) =
  map (fun s => rev (skipn s (combine levels quants))) (seq 0 num).
Proof.
  induction num as [|num IH]; intros levels quants; simpl; [reflexivity|].
  rewrite mk_rungs_sigs. f_equal. rewrite IH. rewrite <- seq_shift, map_map.
  apply map_ext. intro s. rewrite <- combine_skipn, !skipn_tl, combine_skipn. reflexivity.
Qed.

Lemma firstn_rev_skipn {A} k (l : list A) : firstn (length (rev l) - k) (rev l) = rev (skipn k l).
Proof.
  rewrite rev_length, firstn_rev. f_equal.
  destruct (le_lt_dec k (length l)) as [H|H].
  - f_equal. lia.
  - replace (length l - (length l - k))%nat with (length l) by lia.
    rewrite !skipn_all2 by lia. reflexivity.
Qed.

(* the rungs at which a trial of bracket b decides, top down: the configured (level, level/next level)
   pairs with the b lowest removed *)
Theorem own_rungs_structure cfg levels brackets evs b sys :
  let st := reached cfg levels brackets evs in
  nth_error (s_sys st) (sys_id cfg b) = Some sys ->
  map rsig (own_rungs cfg st b) = rev (skipn b (combine levels (mk_quantiles levels (c_max_t cfg)))).
Proof.
  intros st Hs. unfold own_rungs. rewrite Hs.
  assert (Hsig : nth_error (sys_sigs st) (sys_id cfg b) = Some (map rsig (rs_rungs sys))).
  { unfold sys_sigs. apply (map_nth_error (fun sys => map rsig (rs_rungs sys))). exact Hs. }
  unfold st, reached in Hsig. rewrite run_sigs in Hsig. unfold sys_sigs, init_state in Hsig. simpl in Hsig.
  rewrite mk_systems_sigs in Hsig.
  set (X := combine levels (mk_quantiles levels (c_max_t cfg))) in *.
  set (num := if c_per_bracket cfg then Nat.min brackets (length levels + 1) else 1%nat) in *.
  assert (Hlt : (sys_id cfg b < num)%nat).
  { assert (Hn : nth_error (map (fun s : nat => rev (skipn s X)) (seq 0 num)) (sys_id cfg b) <> None) by congruence.
    apply nth_error_Some in Hn. rewrite map_length, seq_length in Hn. exact Hn. }
  rewrite (map_nth_error (fun s : nat => rev (skipn s X)) (sys_id cfg b) (seq 0 num) (d := sys_id cfg b)) in Hsig.
  2:{ rewrite (nth_error_nth' _ 0%nat) by (rewrite seq_length; exact Hlt). rewrite seq_nth by exact Hlt. reflexivity. }
  injection Hsig as Hsig.
  unfold milestone_rungs. rewrite <- firstn_map. rewrite <- (map_length rsig (rs_rungs sys)). rewrite <- Hsig.
  rewrite firstn_rev_skipn. f_equal. unfold sys_id, skip_of. destruct (c_per_bracket cfg).
  - simpl. apply skipn_O.
  - simpl. reflexivity.
Qed.

Lemma mk_quantiles_length levels max_t : length (mk_quantiles levels max_t) = length levels.
Proof. induction levels as [|x l IH]; simpl; [reflexivity|rewrite IH; reflexivity]. Qed.

Lemma map_fst_combine {A B} (l : list A) : forall (q : list B), length q = length l -> map fst (combine l q) = l.
Proof.
  induction l as [|x l IH]; intros [|y q] H; simpl in *; try discriminate; [reflexivity|].
  f_equal. apply IH. lia.
Qed.

Corollary own_rung_levels cfg levels brackets evs b sys :
  let st := reached cfg levels brackets evs in
  nth_error (s_sys st) (sys_id cfg b) = Some sys ->
  map r_level (own_rungs cfg st b) = rev (skipn b levels).
Proof.
  intros st Hs. pose proof (own_rungs_structure cfg levels brackets evs b sys Hs) as H.
  apply (f_equal (map fst)) in H. rewrite map_map in H. simpl in H. fold st in H.
  rewrite map_rev, <- skipn_map, map_fst_combine in H by apply mk_quantiles_length. exact H.
Qed.

(* promote_quantiles = [x / y for x, y in zip(rung_levels, rung_levels[1:] + [max_t])] *)
Lemma mk_quantiles_nth max_t levels : forall j, (j < length levels)%nat ->
  nth j (mk_quantiles levels max_t) 0 =
  inject_Z (nth j levels 0%Z) / inject_Z (nth (S j) (levels ++ [max_t]) 0%Z).
Proof.
  induction levels as [|x rest IH]; intros j Hj; simpl in Hj; [lia|].
  destruct j as [|j].
  - simpl. destruct rest; reflexivity.
  - simpl mk_quantiles. change (nth (S j) (?a :: ?l) 0) with (nth j l 0).
    rewrite IH by lia. reflexivity.
Qed.

(* ======================================================================== *)
(* 10. Serialise / restore is transparent; max_t inference; round-off class  *)
(* ======================================================================== *)

Lemma sl_add_snoc md e acc :
  Forall (fun x => sort_key md (e_metric x) <= sort_key md (e_metric e)) acc -> sl_add md e acc = acc ++ [e].
Proof.
  induction 1 as [|x l Hx Hl IH]; simpl; [reflexivity|].
  apply Qleb_le in Hx. rewrite Hx, IH. reflexivity.
Qed.

Lemma ssorted_app_mid {A} (R : A -> A -> Prop) l1 x l2 :
  StronglySorted R (l1 ++ x :: l2) -> Forall (fun y => R y x) l1.
Proof.
  induction l1 as [|a l1 IH]; simpl; intro H; [constructor|].
  inversion H as [|? ? Hs Hf]; subst. constructor; [|apply IH; exact Hs].
  rewrite Forall_forall in Hf. apply Hf. apply in_or_app. right. left. reflexivity.
Qed.

Lemma sl_rebuild_from md data : forall acc, best_first md (acc ++ data) ->
  fold_left (fun a e => sl_add md e a) data acc = acc ++ data.
Proof.
  induction data as [|e rest IH]; intros acc H; simpl; [rewrite app_nil_r; reflexivity|].
  rewrite sl_add_snoc by (apply (ssorted_app_mid (fun a b => sort_key md (e_metric a) <= sort_key md (e_metric b)) acc e rest); exact H).
  rewrite IH; rewrite <- app_assoc; [reflexivity|exact H].
Qed.

(* rebuilding a best-first list with the same key gives the same list (ties keep their order) *)
Lemma sl_rebuild_id md data : best_first md data -> sl_rebuild md data = data.
Proof. intro H. unfold sl_rebuild. apply (sl_rebuild_from md data []). exact H. Qed.

Lemma restore_state_id cfg st : Inv cfg st -> restore_state cfg st = st.
Proof.
  intros [H _]. unfold restore_state. destruct st as [sys task act]. simpl in *. f_equal.
  rewrite <- (map_id sys) at 2. apply map_ext_in. intros s Hs.
  rewrite Forall_forall in H. destruct (H s Hs) as [_ Hok]. unfold restore_sys. destruct s as [rs thr]. simpl in *. f_equal.
  rewrite <- (map_id rs) at 2. apply map_ext_in. intros rg Hrg.
  rewrite Forall_forall in Hok. destruct (Hok rg Hrg) as [_ [Hbf _]].
  unfold restore_rung. destruct rg as [lv pq data]. simpl in *. f_equal. apply sl_rebuild_id. exact Hbf.
Qed.

(* a save / load of the scheduler at ANY point of ANY event sequence changes nothing: every later
   decision is the one of the uninterrupted run *)
Theorem restore_transparent cfg levels brackets evs1 evs2 :
  wf_levels levels (c_max_t cfg) ->
  run cfg (restore_state cfg (reached cfg levels brackets evs1)) evs2 = reached cfg levels brackets (evs1 ++ evs2) /\
  outcomes cfg (restore_state cfg (reached cfg levels brackets evs1)) evs2 =
    outcomes cfg (reached cfg levels brackets evs1) evs2.
Proof.
  intro Hwf. rewrite restore_state_id by (apply reached_inv; exact Hwf).
  split; [|reflexivity]. unfold reached, run. rewrite fold_left_app. reflexivity.
Qed.

(* restore commutes with the mode mirror (no sortedness needed) *)
Lemma sl_rebuild_neg data : sl_rebuild Max (neg_data data) = neg_data (sl_rebuild Min data).
Proof.
  unfold sl_rebuild. change (@nil entry) with (neg_data []) at 1. generalize (@nil entry) as acc.
  induction data as [|e rest IH]; intro acc; simpl; [reflexivity|].
  rewrite (sl_add_neg e acc). apply IH.
Qed.

Lemma restore_state_neg cfg st : c_mode cfg = Min ->
  restore_state (with_mode Max cfg) (neg_state st) = neg_state (restore_state cfg st).
Proof.
  intro Hmd. unfold restore_state, neg_state. simpl. rewrite Hmd. f_equal. rewrite !map_map.
  apply map_ext. intro sys. unfold restore_sys, neg_sys. simpl. f_equal. rewrite !map_map.
  apply map_ext. intro rg. unfold restore_rung, neg_rung. simpl. f_equal. apply sl_rebuild_neg.
Qed.

(* --- maximum resource ------------------------------------------------------------------------ *)
Lemma infer_max_arg v a cs : infer_max_resource_level (Some v) a cs = Some v.
Proof. reflexivity. Qed.

Lemma infer_max_attr a cs v : cs_getval cs a = Some v -> infer_max_resource_level None (Some a) cs = Some v.
Proof. intro H. unfold infer_max_resource_level. simpl. rewrite H. reflexivity. Qed.

Lemma infer_max_default a cs :
  (match a with Some n => cs_getval cs n = None | None => True end) ->
  infer_max_resource_level None a cs = first_some cs default_max_t_names.
Proof. intro H. unfold infer_max_resource_level. destruct a as [n|]; [simpl; rewrite H|]; reflexivity. Qed.

(* --- the round-off class ---------------------------------------------------------------------- *)
(* any evaluation c' of the cutoff that is within d of the exact cutoff c decides exactly like the
   exact rule whenever the metric is further than d from c *)
Lemma no_worse_approx md m c c' d :
  - d <= c' - c <= d -> (m - c < - d \/ d < m - c) -> no_worse md m c' = no_worse md m c.
Proof.
  intros H1 H2. destruct md; simpl; apply Qleb_iff_eq; split; intro; destruct H2; lra.
Qed.

Theorem approx_cutoff_decides_by_rule md pq ms own c' d :
  (2 <= length ms)%nat ->
  let c := np_quantile (sort_asc ms) (quantile_level md pq) in
  - d <= c' - c <= d -> (own - c < - d \/ d < own - c) ->
  no_worse md own c' = rule_b md pq ms own.
Proof.
  intros Hl c H1 H2. unfold rule_b. destruct (length ms <? 2)%nat eqn:E; [lia|]. simpl.
  apply no_worse_approx with (d := d); assumption.
Qed.

(* --- top bracket, first level ------------------------------------------------------------------ *)
Theorem top_bracket_no_rung cfg levels brackets evs b sys :
  let st := reached cfg levels brackets evs in
  nth_error (s_sys st) (sys_id cfg b) = Some sys -> (length levels <= b)%nat -> own_rungs cfg st b = [].
Proof.
  intros st Hs Hb. pose proof (own_rung_levels cfg levels brackets evs b sys Hs) as H. fold st in H.
  rewrite skipn_all2 in H by exact Hb. simpl in H. apply map_eq_nil in H. exact H.
Qed.

Theorem top_bracket_never_decides cfg levels brackets evs b sys t r m :
  wf_levels levels (c_max_t cfg) ->
  let st := reached cfg levels brackets evs in
  nth_error (s_sys st) (sys_id cfg b) = Some sys -> (length levels <= b)%nat ->
  running st t -> (1 <= r < c_max_t cfg)%Z -> assoc_get (s_task st) t = Some b ->
  on_trial_result cfg st t r m = (st, Dec CONTINUE).
Proof.
  intros Hwf st Hs Hb Hr Hrange Ht.
  apply (c03_continue_off_rung cfg levels brackets evs t r m b Hwf Hr Hrange Ht).
  assert (Hn : own_rungs cfg st b = []) by (apply (top_bracket_no_rung cfg levels brackets evs b sys Hs Hb)).
  intros rg Hin. change (own_rungs cfg (reached cfg levels brackets evs) b) with (own_rungs cfg st b) in Hin.
  rewrite Hn in Hin. contradiction.
Qed.

Lemma removelast_hd (x : Z) rest : rest <> [] -> removelast (x :: rest) = x :: removelast rest.
Proof. destruct rest; [congruence|reflexivity]. Qed.

Theorem sh_rung_levels_first grace rf incr max_t l :
  sh_rung_levels None grace rf incr max_t = Some l -> exists rest, l = grace :: rest.
Proof.
  intro H. destruct (sh_rung_levels_wf None grace rf incr max_t l H) as [_ Hne].
  unfold sh_rung_levels in H.
  destruct ((1 <=? grace)%Z && (1 <=? max_t)%Z && (grace <? max_t)%Z) eqn:E; [|discriminate].
  apply andb_true_iff in E as [E E3]. apply andb_true_iff in E as [E1 E2].
  assert (Hfuel : exists f, Z.to_nat max_t = S f) by (exists (Z.to_nat max_t - 1)%nat; lia).
  destruct Hfuel as [f Hf].
  assert (Hshape : exists l0 rest0, l = (if (last l0 0 =? max_t)%Z then removelast l0 else l0) /\ l0 = grace :: rest0).
  { destruct rf as [rf|].
    - destruct (Qleb 2 rf); [|discriminate]. simpl in H. injection H as <-.
      assert (Hlt : Qltb (inject_Z grace) (inject_Z max_t) = true) by (apply Qltb_lt; rewrite <- Zlt_Qlt; lia).
      eexists. eexists. split; [reflexivity|]. rewrite Hf. simpl. rewrite Hlt, round_he_Z. reflexivity.
    - destruct incr as [incr|]; [|discriminate]. destruct (1 <=? incr)%Z; [|discriminate]. simpl in H. injection H as <-.
      eexists. eexists. split; [reflexivity|]. rewrite Hf. simpl. destruct (grace <? max_t)%Z eqn:Eg; [reflexivity|lia]. }
  destruct Hshape as [l0 [rest0 [-> ->]]].
  destruct (last (grace :: rest0) 0 =? max_t)%Z eqn:El; [|eexists; reflexivity].
  destruct rest0 as [|y r]; [simpl in Hne; congruence|]. rewrite removelast_hd by discriminate. eexists. reflexivity.
Qed.

Theorem stopping_symmetry_across_restore cfg levels brackets evs1 evs2 :
  c_mode cfg = Min -> wf_levels levels (c_max_t cfg) ->
  outcomes (with_mode Max cfg)
           (restore_state (with_mode Max cfg) (reached (with_mode Max cfg) levels brackets (map neg_event evs1)))
           (map neg_event evs2) =
  outcomes cfg (restore_state cfg (reached cfg levels brackets evs1)) evs2.
Proof.
  intros Hmd Hwf.
  destruct (stopping_mode_symmetry_from_init cfg levels brackets evs1 Hmd Hwf) as [H1 _]. rewrite H1.
  rewrite (restore_state_neg cfg _ Hmd).
  assert (HI : Inv cfg (restore_state cfg (reached cfg levels brackets evs1))).
  { rewrite restore_state_id; apply reached_inv; exact Hwf. }
  exact (proj2 (stopping_mode_symmetry cfg evs2 _ Hmd HI)).
Qed.

(* ======================================================================== *)
(* 11. Exact content of the constructed rung levels                          *)
(* ======================================================================== *)

Lemma arith_levels_spec max_t incr fuel : forall cur, (1 <= incr)%Z -> (max_t - cur <= Z.of_nat fuel)%Z ->
  forall x, In x (arith_levels fuel cur incr max_t) <-> exists k, (0 <= k)%Z /\ x = (cur + k * incr)%Z /\ (x < max_t)%Z.
Proof.
  induction fuel as [|fuel IH]; intros cur Hi Hf x; simpl.
  - split; [contradiction|]. intros [k [Hk [Hx Hlt]]]. nia.
  - destruct (cur <? max_t)%Z eqn:E.
    + simpl. rewrite (IH (cur + incr)%Z Hi ltac:(lia) x). split.
      * intros [<-|[k [Hk [Hx Hlt]]]]; [exists 0%Z; lia|exists (k + 1)%Z; nia].
      * intros [k [Hk [Hx Hlt]]]. destruct (Z.eq_dec k 0) as [->|Hne]; [left; lia|right; exists (k - 1)%Z; nia].
    + split; [contradiction|]. intros [k [Hk [Hx Hlt]]]. nia.
Qed.

(* rung_increment: exactly the levels grace, grace + inc, grace + 2 inc, ... below max_t - none dropped, none added *)
Theorem increment_levels_exact grace incr max_t l :
  sh_rung_levels None grace None (Some incr) max_t = Some l ->
  StronglySorted Z.lt l /\
  forall x, In x l <-> exists k, (0 <= k)%Z /\ x = (grace + k * incr)%Z /\ (x < max_t)%Z.
Proof.
  intro H. destruct (sh_rung_levels_wf None grace None (Some incr) max_t l H) as [[Hs _] _]. split; [exact Hs|].
  unfold sh_rung_levels in H.
  destruct ((1 <=? grace)%Z && (1 <=? max_t)%Z && (grace <? max_t)%Z) eqn:E; [|discriminate].
  apply andb_true_iff in E as [E E3]. apply andb_true_iff in E as [E1 E2].
  destruct (1 <=? incr)%Z eqn:Ei; [|discriminate]. simpl in H. injection H as <-.
  set (l0 := arith_levels (Z.to_nat max_t) grace incr max_t).
  assert (Hspec : forall x, In x l0 <-> exists k, (0 <= k)%Z /\ x = (grace + k * incr)%Z /\ (x < max_t)%Z).
  { apply arith_levels_spec; lia. }
  assert (Hne : l0 <> []).
  { intro Hn. assert (Hin : In grace l0) by (apply Hspec; exists 0%Z; lia). rewrite Hn in Hin. contradiction. }
  destruct (last l0 0 =? max_t)%Z eqn:El; [|exact Hspec].
  exfalso. pose proof (last_In l0 Hne) as Hin. apply Hspec in Hin as [k [_ [_ Hlt]]]. lia.
Qed.

(* explicit rung_levels: grace_period, reduction_factor and rung_increment are ignored; the list is returned as it is,
   except that a final entry equal to max_t is stripped (and nothing else) *)
Theorem explicit_levels_exact l0 grace rf incr max_t l :
  sh_rung_levels (Some l0) grace rf incr max_t = Some l ->
  l = (if (last l0 0 =? max_t)%Z then removelast l0 else l0) /\
  sh_rung_levels (Some l0) 1 None None max_t = Some l.
Proof.
  unfold sh_rung_levels. intro H.
  destruct ((2 <=? length l0)%nat && forallb (fun x => (1 <=? x)%Z) l0 && strictly_increasing l0 && (last l0 0 <=? max_t)%Z);
    [|discriminate].
  simpl in *. injection H as <-. split; reflexivity.
Qed.
