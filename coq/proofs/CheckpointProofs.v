(* CheckpointProofs.v — lemmas about model/Checkpoint.v (C20). *)
From Verif Require Import model.Base model.Checkpoint.
From Coq Require Import Lia.

Definition is_del (e : event) : bool := match e with EDelete _ _ => true | _ => false end.
Definition nodel (l : list event) : Prop := forall e, In e l -> is_del e = false.

Lemma nodel_nil : nodel []. Proof. intros e []. Qed.
Lemma nodel_cons e l : is_del e = false -> nodel l -> nodel (e :: l).
Proof. intros H1 H2 x [<-|Hx]; auto. Qed.
Lemma nodel_app a b : nodel a -> nodel b -> nodel (a ++ b).
Proof. intros Ha Hb x Hx. apply in_app_or in Hx as [H|H]; auto. Qed.
Lemma nodel_clone i cl : nodel (clone_ev i cl).
Proof. destruct cl; simpl; [apply nodel_cons; [reflexivity|apply nodel_nil] | apply nodel_nil]. Qed.

(* ==== Part A: every deletion is made at an allowed program point ================ *)
Section Generic.
  Context {S R G : Type}.
  Variable sch : scheduler S R G.
  Variable c : cfg.

  Definition allowed (pre : list event) (i : Z) (w : why) : Prop :=
    match w with
    | WStop => delete_checkpoints c = true /\
               exists p cl, pre = p ++ EDecision i STOP :: clone_ev i cl ++ [EStop i]
    | WCallback => remove_callback c = true /\ exists p, pre = p ++ [ERemovable i]
    | WSpec => speculative c = true
    | WStopAll => delete_checkpoints c = true /\ In EStopAll pre
    end.

  Lemma allowed_app x pre i w : allowed pre i w -> allowed (x ++ pre) i w.
  Proof.
    destruct w; simpl; auto.
    - intros [H [p [cl ->]]]. split; [exact H|]. exists (x ++ p), cl. now rewrite app_assoc.
    - intros [H [p ->]]. split; [exact H|]. exists (x ++ p). now rewrite app_assoc.
    - intros [H1 H2]. split; [exact H1|]. apply in_or_app. now right.
  Qed.

  Fixpoint wf_from (pre l : list event) : Prop :=
    match l with
    | [] => True
    | e :: r => match e with EDelete i w => allowed pre i w | _ => True end /\ wf_from (pre ++ [e]) r
    end.

  Lemma wf_from_app l1 : forall p l2, wf_from p (l1 ++ l2) <-> wf_from p l1 /\ wf_from (p ++ l1) l2.
  Proof.
    induction l1 as [|e l1 IH]; intros p l2; simpl.
    - rewrite app_nil_r. tauto.
    - rewrite IH. rewrite <- app_assoc. simpl. tauto.
  Qed.

  Lemma wf_from_mono l : forall x p, wf_from p l -> wf_from (x ++ p) l.
  Proof.
    induction l as [|e l IH]; intros x p; simpl; [auto|].
    intros [H1 H2]. split.
    - destruct e; auto. now apply allowed_app.
    - rewrite <- app_assoc. now apply IH.
  Qed.

  Lemma wf_from_nodel l : forall p, nodel l -> wf_from p l.
  Proof.
    induction l as [|e l IH]; intros p H; simpl; [exact I|]. split.
    - assert (is_del e = false) by (apply H; now left). destruct e; try exact I. discriminate.
    - apply IH. intros x Hx. apply H. now right.
  Qed.

  Lemma wf_from_spec l : forall p, wf_from p l ->
    forall pre i w post, l = pre ++ EDelete i w :: post -> allowed (p ++ pre) i w.
  Proof.
    induction l as [|e l IH]; intros p H pre i w post E.
    - destruct pre; discriminate.
    - destruct pre as [|e' pre]; simpl in E; injection E as -> E.
      + rewrite app_nil_r. exact (proj1 H).
      + destruct H as [_ H]. specialize (IH _ H _ _ _ _ E). now rewrite <- app_assoc in IH.
  Qed.

  (* --- backend chunks --- *)
  Lemma b_pause_nodel b i : nodel (snd (b_pause b i)).
  Proof. simpl. apply nodel_cons; [reflexivity|apply nodel_nil]. Qed.

  Lemma b_start_nodel b f : nodel (snd (b_start b f)).
  Proof.
    unfold b_start; simpl. apply nodel_cons; [reflexivity|].
    destruct f; repeat (apply nodel_cons; [reflexivity|]); apply nodel_nil.
  Qed.

  Lemma b_resume_nodel b i b' e : b_resume b i = Some (b', e) -> nodel e.
  Proof.
    unfold b_resume. destruct (_ && _); [|discriminate].
    destruct (status_of (stat b) i) as [[]|]; try discriminate.
    intros H; injection H as _ <-. repeat (apply nodel_cons; [reflexivity|]). apply nodel_nil.
  Qed.

  Lemma b_stop_events b i w :
    snd (b_stop c b i w) = if delete_checkpoints c then [EStop i; EDelete i w] else [EStop i].
  Proof. unfold b_stop. destruct (delete_checkpoints c); reflexivity. Qed.

  Lemma delete_list_wf w : forall l b p, (forall p' i, allowed (p ++ p') i w) ->
    wf_from p (snd (delete_list b l w)).
  Proof.
    induction l as [|i l IH]; intros b p H; simpl; [exact I|].
    destruct (delete_list _ l w) as [b2 e2] eqn:E. simpl. split.
    - specialize (H [] i). now rewrite app_nil_r in H.
    - specialize (IH {| ids := ids b; stat := stat b; deleted := i :: deleted b |} (p ++ [EDelete i w])).
      rewrite E in IH. apply IH. intros p' j. rewrite <- app_assoc. apply H.
  Qed.

  Lemma removable_events_wf : forall l b p, remove_callback c = true ->
    wf_from p (snd (removable_events b l)).
  Proof.
    induction l as [|i l IH]; intros b p H; simpl; [exact I|].
    destruct (removable_events _ l) as [b2 e2] eqn:E. simpl. split; [exact I|]. split.
    - split; [exact H|]. now exists p.
    - specialize (IH {| ids := ids b; stat := stat b; deleted := i :: deleted b |}
                     ((p ++ [ERemovable i]) ++ [EDelete i WCallback]) H).
      now rewrite E in IH.
  Qed.

  Lemma stop_running_wf st0 : forall l b p, In EStopAll p ->
    wf_from p (snd (stop_running c b st0 l)).
  Proof.
    induction l as [|i l IH]; intros b p H; simpl; [exact I|].
    destruct (status_of st0 i) as [[]|]; try (apply IH; exact H).
    destruct (b_stop c b i WStopAll) as [b1 e1] eqn:E1.
    destruct (stop_running c b1 st0 l) as [b2 e2] eqn:E2. simpl.
    apply wf_from_app. split.
    - pose proof (b_stop_events b i WStopAll) as Hs. rewrite E1 in Hs. simpl in Hs. rewrite Hs.
      destruct (delete_checkpoints c) eqn:D; simpl; [|tauto].
      repeat split; auto. apply in_or_app. now left.
    - specialize (IH b1 (p ++ e1)). rewrite E2 in IH. apply IH. apply in_or_app. now left.
  Qed.

  Lemma finish_wf (st : tstate S) p : wf_from p (finish c st).
  Proof.
    unfold finish. simpl. split; [exact I|]. unfold b_stop_all.
    destruct (stop_running c (be st) (stat (be st)) (ids (be st))) as [b1 e1] eqn:E1.
    assert (In EStopAll (p ++ [EStopAll])) as Hin by (apply in_or_app; right; now left).
    pose proof (stop_running_wf (stat (be st)) (ids (be st)) (be st) _ Hin) as H1. rewrite E1 in H1. simpl in H1.
    destruct (delete_checkpoints c) eqn:D; [|exact H1].
    destruct (delete_list b1 (ids (be st)) WStopAll) as [b2 e2] eqn:E2. simpl.
    apply wf_from_app. split; [exact H1|].
    pose proof (delete_list_wf WStopAll (ids (be st)) b1 ((p ++ [EStopAll]) ++ e1)) as H2.
    rewrite E2 in H2. apply H2. intros p' i. simpl. split; [exact D|].
    apply in_or_app. left. apply in_or_app. now left.
  Qed.

  (* --- tuner chunks --- *)
  Lemma process_results_wf compl : forall rs s b done p,
    wf_from p (snd (process_results sch c s b done compl rs)).
  Proof.
    induction rs as [|[i r] rs IH]; intros s b done p; simpl; [exact I|].
    destruct (mem_Z i done); [apply IH|].
    destruct (on_result sch s i r) as [[s1 d] cl] eqn:Eo.
    destruct d.
    - (* CONTINUE *)
      specialize (IH s1 b done). destruct (process_results sch c s1 b done compl rs) as [[[s2 b2] d2] evs] eqn:E.
      simpl. split; [exact I|]. apply wf_from_app. split; [apply wf_from_nodel, nodel_clone|].
      simpl. specialize (IH ((p ++ [EDecision i CONTINUE]) ++ clone_ev i cl)). exact IH.
    - (* PAUSE *)
      specialize (IH s1 (set_status b i Paused) (i :: done)).
      destruct (process_results sch c s1 (set_status b i Paused) (i :: done) compl rs) as [[[s2 b2] d2] evs] eqn:E.
      simpl. split; [exact I|]. apply wf_from_app. split; [apply wf_from_nodel, nodel_clone|].
      simpl. split; [exact I|]. apply IH.
    - (* STOP *)
      destruct (mem_Z i compl).
      + specialize (IH s1 b (i :: done)).
        destruct (process_results sch c s1 b (i :: done) compl rs) as [[[s2 b2] d2] evs] eqn:E.
        simpl. split; [exact I|]. apply wf_from_app. split; [apply wf_from_nodel, nodel_clone|].
        simpl. apply IH.
      + destruct (b_stop c b i WStop) as [b' e] eqn:Es.
        specialize (IH s1 b' (i :: done)).
        destruct (process_results sch c s1 b' (i :: done) compl rs) as [[[s2 b2] d2] evs] eqn:E.
        simpl. split; [exact I|]. apply wf_from_app. split; [apply wf_from_nodel, nodel_clone|].
        apply wf_from_app. split; [|apply IH].
        pose proof (b_stop_events b i WStop) as Hs. rewrite Es in Hs. simpl in Hs. rewrite Hs.
        destruct (delete_checkpoints c) eqn:D; simpl; [|tauto].
        repeat split; auto. exists p, cl. rewrite <- !app_assoc. reflexivity.
  Qed.

  Local Arguments b_start : simpl never.
  Local Arguments b_resume : simpl never.
  Local Arguments new_trial_id : simpl never.

  Lemma schedule_nodel : forall gs s b run, nodel (snd (schedule sch s b run gs)).
  Proof.
    induction gs as [|g gs IH]; intros s b run; [apply nodel_nil|]. cbn [schedule].
    destruct (suggest sch s (new_trial_id b) g) as [s1 sg]. destruct sg as [|j|i|].
    - destruct (b_start b None) as [b1 e] eqn:Eb.
      specialize (IH s1 b1 (new_trial_id b :: run)).
      destruct (schedule sch s1 b1 (new_trial_id b :: run) gs) as [[[[[s2 b2] r2] ex] er] evs]. simpl in *.
      apply nodel_app; [|exact IH]. pose proof (b_start_nodel b None) as H. now rewrite Eb in H.
    - destruct (b_start b (Some j)) as [b1 e] eqn:Eb.
      specialize (IH s1 b1 (new_trial_id b :: run)).
      destruct (schedule sch s1 b1 (new_trial_id b :: run) gs) as [[[[[s2 b2] r2] ex] er] evs]. simpl in *.
      apply nodel_app; [|exact IH]. pose proof (b_start_nodel b (Some j)) as H. now rewrite Eb in H.
    - destruct (b_resume b i) as [[b1 e]|] eqn:Eb.
      + specialize (IH s1 b1 (i :: run)).
        destruct (schedule sch s1 b1 (i :: run) gs) as [[[[[s2 b2] r2] ex] er] evs]. simpl in *.
        apply nodel_app; [|exact IH]. eapply b_resume_nodel; eauto.
      + simpl. apply nodel_cons; [reflexivity|apply nodel_nil].
    - simpl. apply nodel_nil.
  Qed.

  Lemma loop_end_wf s b choice p : wf_from p (snd (loop_end sch c s b choice)).
  Proof.
    unfold loop_end.
    destruct (remove_callback c) eqn:Hr.
    - destruct (removables sch s) as [s' l].
      pose proof (removable_events_wf l b p Hr) as H1.
      destruct (removable_events b l) as [b' e] eqn:E.
      destruct (speculative c) eqn:Hs; [|exact H1].
      pose proof (delete_list_wf WSpec (filter (spec_ok sch s') choice) b' (p ++ e)) as H2.
      destruct (delete_list b' (filter (spec_ok sch s') choice) WSpec) as [b2 e2]. simpl in *.
      apply wf_from_app. split; [exact H1|]. apply H2. intros; exact Hs.
    - destruct (speculative c) eqn:Hs; [|exact I].
      pose proof (delete_list_wf WSpec (filter (spec_ok sch s) choice) b p) as H2.
      destruct (delete_list b (filter (spec_ok sch s) choice) WSpec) as [b2 e2]. simpl in *.
      apply H2. intros; exact Hs.
  Qed.

  Lemma iteration_wf st it p : wf_from p (snd (fst (iteration sch c st it))).
  Proof.
    unfold iteration.
    set (run0 := running st).
    set (rs := filter _ (reports it)). set (compl := filter _ (completed it)).
    set (fl := filter _ (failed it)).
    pose proof (process_results_wf compl rs (sst st) (mark_failed (mark_completed (be st) compl) fl) [] p) as H1.
    destruct (process_results sch c (sst st) (mark_failed (mark_completed (be st) compl) fl) [] compl rs) as [[[s1 b1] done] ev1].
    simpl in H1.
    set (s1' := fold_left (on_error sch) (filter (fun i => negb (mem_Z i done)) fl) s1).
    destruct (exhausted st || hold it).
    - match goal with |- context [if nilb ?r then _ else _] => destruct (nilb r) end; [simpl; exact H1|].
      pose proof (loop_end_wf s1' b1 (spec_choice it) (p ++ ev1)) as H3.
      destruct (loop_end sch c s1' b1 (spec_choice it)) as [[s3 b3] ev3]. simpl in *.
      apply wf_from_app. tauto.
    - pose proof (schedule_nodel (sugg it) s1' b1 (filter (fun i => negb (mem_Z i done) && negb (mem_Z i compl) && negb (mem_Z i fl)) run0)) as H2.
      destruct (schedule sch s1' b1 _ (sugg it)) as [[[[[s2 b2] run2] ex] er] ev2]. simpl in H2.
      destruct er; simpl.
      + apply wf_from_app. split; [exact H1|]. now apply wf_from_nodel.
      + pose proof (loop_end_wf s2 b2 (spec_choice it) ((p ++ ev1) ++ ev2)) as H3.
        destruct (loop_end sch c s2 b2 (spec_choice it)) as [[s3 b3] ev3]. simpl in *.
        apply wf_from_app. split; [exact H1|]. apply wf_from_app. split; [now apply wf_from_nodel|exact H3].
  Qed.

  Lemma run_wf : forall its st p, wf_from p (run sch c st its).
  Proof.
    induction its as [|it its IH]; intros st p; simpl; [apply finish_wf|].
    pose proof (iteration_wf st it p) as H1.
    destruct (iteration sch c st it) as [[st' ev] er]. simpl in H1.
    apply wf_from_app. split; [exact H1|].
    destruct er; [apply finish_wf | apply IH].
  Qed.

  Theorem delete_only_when_allowed : forall st its pre i w post,
    run sch c st its = pre ++ EDelete i w :: post -> allowed pre i w.
  Proof.
    intros st its pre i w post E.
    exact (wf_from_spec _ [] (run_wf its st []) pre i w post E).
  Qed.
End Generic.

(* ==== paused trials keep their checkpoint ========================================= *)
Lemma last_life_app a : forall b i acc, last_life (a ++ b) i acc = last_life b i (last_life a i acc).
Proof. induction a as [|e a IH]; intros b i acc; simpl; [reflexivity|]. apply IH. Qed.

Lemma last_life_nolife l i : forall acc,
  (forall e, In e l -> match e with EStart _ _ | EResume _ | EPause _ | EStop _ => False | _ => True end) ->
  last_life l i acc = acc.
Proof.
  induction l as [|e l IH]; intros acc H; simpl; [reflexivity|].
  rewrite IH; [|intros x Hx; apply H; now right].
  specialize (H e (or_introl eq_refl)). destruct e; try reflexivity; contradiction.
Qed.

Section Paused.
  Context {S R G : Type}.
  Variable sch : scheduler S R G.
  Variable c : cfg.

  Theorem paused_keeps_checkpoint : forall st its pre i w post,
    run sch c st its = pre ++ EDelete i w :: post ->
    last_life pre i None = Some LPaused ->
    w <> WStop.
  Proof.
    intros st its pre i w post E HL ->.
    destruct (delete_only_when_allowed sch c st its pre i WStop post E) as [_ [p [cl ->]]].
    change (p ++ EDecision i STOP :: clone_ev i cl ++ [EStop i])
      with (p ++ (EDecision i STOP :: clone_ev i cl) ++ [EStop i]) in HL.
    rewrite !app_assoc in HL. rewrite last_life_app in HL. simpl in HL.
    rewrite Z.eqb_refl in HL. discriminate.
  Qed.
End Paused.

(* ==== Part B: a resumed trial's checkpoint was never deleted ======================= *)
Definition is_res (e : event) : bool := match e with EResume _ | ECopy _ _ | EClone _ _ => true | _ => false end.
Definition nores (l : list event) : Prop := forall e, In e l -> is_res e = false.
Lemma nores_nil : nores []. Proof. intros e []. Qed.
Lemma nores_cons e l : is_res e = false -> nores l -> nores (e :: l).
Proof. intros H1 H2 x [<-|Hx]; auto. Qed.
Lemma nores_app a b : nores a -> nores b -> nores (a ++ b).
Proof. intros Ha Hb x Hx. apply in_app_or in Hx as [H|H]; auto. Qed.

Definition dstep (D : list Z) (e : event) : list Z := match e with EDelete j _ => j :: D | _ => D end.
Definition dset (D : list Z) (l : list event) : list Z := fold_left dstep l D.

(* [cc]: also check clone sources at copy time (false for the pre-fix PBT, where that fails) *)
Fixpoint rs_from (cc : bool) (D : list Z) (l : list event) : Prop :=
  match l with
  | [] => True
  | e :: r => match e with
              | EResume i => ~ In i D
              | ECopy j _ => if cc then ~ In j D else True
              | EClone _ j => ~ In j D
              | _ => True
              end /\ rs_from cc (dstep D e) r
  end.

Lemma dset_app D a b : dset D (a ++ b) = dset (dset D a) b.
Proof. unfold dset. apply fold_left_app. Qed.

Lemma dset_nodel l : forall D, nodel l -> dset D l = D.
Proof.
  induction l as [|e l IH]; intros D H; simpl; [reflexivity|].
  assert (is_del e = false) as He by (apply H; now left).
  unfold dset in *. simpl. replace (dstep D e) with D by (destruct e; try reflexivity; discriminate).
  apply IH. intros x Hx. apply H. now right.
Qed.

Lemma dset_mono l : forall D x, In x D -> In x (dset D l).
Proof.
  induction l as [|e l IH]; intros D x H; simpl; [exact H|]. apply IH.
  destruct e; simpl; auto.
Qed.

Lemma rs_from_app cc a : forall D b, rs_from cc D (a ++ b) <-> rs_from cc D a /\ rs_from cc (dset D a) b.
Proof.
  induction a as [|e a IH]; intros D b; simpl; [tauto|]. rewrite IH. unfold dset. simpl. tauto.
Qed.

Lemma rs_from_nores cc l : forall D, nores l -> rs_from cc D l.
Proof.
  induction l as [|e l IH]; intros D H; simpl; [exact I|]. split.
  - assert (is_res e = false) by (apply H; now left). destruct e; try exact I; discriminate.
  - apply IH. intros x Hx. apply H. now right.
Qed.

Lemma rs_from_spec cc pre : forall D l i post, rs_from cc D l -> l = pre ++ EResume i :: post ->
  ~ In i D /\ forall w, ~ In (EDelete i w) pre.
Proof.
  induction pre as [|e pre IH]; intros D l i post H ->; simpl in H.
  - split; [exact (proj1 H) | intros w []].
  - destruct H as [_ H]. destruct (IH _ _ _ _ H eq_refl) as [H1 H2]. split.
    + intro Hin. apply H1. destruct e; simpl; auto.
    + intros w [Hw|Hw]; [|exact (H2 w Hw)]. subst e. simpl in H1. apply H1. now left.
Qed.

Lemma rs_from_spec_copy pre : forall D l j t post, rs_from true D l -> l = pre ++ ECopy j t :: post ->
  ~ In j D /\ forall w, ~ In (EDelete j w) pre.
Proof.
  induction pre as [|e pre IH]; intros D l j t post H ->; simpl in H.
  - split; [exact (proj1 H) | intros w []].
  - destruct H as [_ H]. destruct (IH _ _ _ _ _ H eq_refl) as [H1 H2]. split.
    + intro Hin. apply H1. destruct e; simpl; auto.
    + intros w [Hw|Hw]; [|exact (H2 w Hw)]. subst e. simpl in H1. apply H1. now left.
Qed.

Lemma rs_from_spec_clone cc pre : forall D l i j post, rs_from cc D l -> l = pre ++ EClone i j :: post ->
  ~ In j D /\ forall w, ~ In (EDelete j w) pre.
Proof.
  induction pre as [|e pre IH]; intros D l i j post H ->; simpl in H.
  - split; [exact (proj1 H) | intros w []].
  - destruct H as [_ H]. destruct (IH _ _ _ _ _ H eq_refl) as [H1 H2]. split.
    + intro Hin. apply H1. destruct e; simpl; auto.
    + intros w [Hw|Hw]; [|exact (H2 w Hw)]. subst e. simpl in H1. apply H1. now left.
Qed.

(* the events of one processed report: decision, optional clone marker, then backend calls *)
Lemma rs_head cc D i d cl tl : (forall j, cl = Some j -> ~ In j D) -> nores tl ->
  rs_from cc D (EDecision i d :: clone_ev i cl ++ tl).
Proof.
  intros Hc Ht. simpl. split; [exact I|]. destruct cl as [j|]; simpl.
  - split; [now apply Hc|]. now apply rs_from_nores.
  - now apply rs_from_nores.
Qed.

Lemma b_stop_ids c b i w : new_trial_id (fst (b_stop c b i w)) = new_trial_id b.
Proof. unfold b_stop. destruct (delete_checkpoints c); reflexivity. Qed.

Lemma delete_list_ids w : forall l b, new_trial_id (fst (delete_list b l w)) = new_trial_id b.
Proof.
  induction l as [|i l IH]; intros b; simpl; [reflexivity|].
  specialize (IH {| ids := ids b; stat := stat b; deleted := i :: deleted b |}).
  destruct (delete_list _ l w) as [b2 e2]. simpl in *. exact IH.
Qed.

Lemma mark_completed_ids l : forall b, new_trial_id (mark_completed b l) = new_trial_id b.
Proof. induction l as [|i l IH]; intros b; simpl; [reflexivity|]. rewrite IH. reflexivity. Qed.
Lemma mark_failed_ids l : forall b, new_trial_id (mark_failed b l) = new_trial_id b.
Proof. induction l as [|i l IH]; intros b; simpl; [reflexivity|]. rewrite IH. reflexivity. Qed.

Lemma finish_nores {S} c (st : tstate S) : nores (finish c st).
Proof.
  unfold finish. apply nores_cons; [reflexivity|].
  assert (forall st0 l b, nores (snd (stop_running c b st0 l))) as H1.
  { intros st0 l. induction l as [|i l IH]; intros b; simpl; [apply nores_nil|].
    destruct (status_of st0 i) as [[]|]; try apply IH.
    destruct (b_stop c b i WStopAll) as [b1 e1] eqn:E1. specialize (IH b1).
    destruct (stop_running c b1 st0 l) as [b2 e2]. simpl in *.
    apply nores_app; [|exact IH].
    pose proof (b_stop_events c b i WStopAll) as Hs. rewrite E1 in Hs. simpl in Hs. rewrite Hs.
    destruct (delete_checkpoints c); repeat (apply nores_cons; [reflexivity|]); apply nores_nil. }
  assert (forall w l b, nores (snd (delete_list b l w))) as H2.
  { intros w l. induction l as [|i l IH]; intros b; simpl; [apply nores_nil|].
    specialize (IH {| ids := ids b; stat := stat b; deleted := i :: deleted b |}).
    destruct (delete_list _ l w) as [b2 e2]. simpl in *. apply nores_cons; [reflexivity|exact IH]. }
  unfold b_stop_all. specialize (H1 (stat (be st)) (ids (be st)) (be st)).
  destruct (stop_running c (be st) (stat (be st)) (ids (be st))) as [b1 e1]. simpl in H1.
  destruct (delete_checkpoints c); [|exact H1].
  specialize (H2 WStopAll (ids (be st)) b1).
  destruct (delete_list b1 (ids (be st)) WStopAll) as [b2 e2]. simpl in *. now apply nores_app.
Qed.

Section ResumeSafe.
  Context {S R G : Type}.
  Variable sch : scheduler S R G.
  Variable c : cfg.
  Hypothesis Hspec : speculative c = false.
  Variable cc : bool.   (* are clone sources checked at copy time? *)
  (* [needed s]: the trials whose checkpoint the scheduler may still ask for (running or
     possibly resumed later); [sinv n s]: scheduler invariant when n trials exist *)
  Variable needed : S -> list Z.
  (* [active s]: the trials the scheduler expects reports from (its view of "running") *)
  Variable active : S -> list Z.
  Variable sinv : Z -> S -> Prop.
  Hypothesis H_bound : forall n s, sinv n s -> forall i, In i (needed s) -> (0 <= i < n)%Z.
  Hypothesis H_res : forall n s i r s' d cl, sinv n s -> In i (active s) -> on_result sch s i r = (s', d, cl) ->
    sinv n s' /\ incl (needed s') (needed s) /\ (d = STOP -> ~ In i (needed s')) /\
    (forall j, cl = Some j -> In j (needed s)) /\
    (forall x, In x (active s) -> x <> i \/ d = CONTINUE -> In x (active s')).
  Hypothesis H_sug : forall n s g s' sg, sinv n s -> suggest sch s n g = (s', sg) ->
    match sg with
    | SNone => sinv n s' /\ incl (needed s') (needed s) /\ incl (active s) (active s')
    | SNew => sinv (n + 1)%Z s' /\ incl (needed s') (n :: needed s) /\ incl (n :: active s) (active s')
    | SFrom j => sinv (n + 1)%Z s' /\ incl (needed s') (n :: needed s) /\ incl (n :: active s) (active s') /\
                 (cc = true -> In j (needed s))
    | SResume i => sinv n s' /\ incl (needed s') (needed s) /\ incl (i :: active s) (active s') /\ In i (needed s)
    end.
  Hypothesis H_rem : forall n s s' l, sinv n s -> removables sch s = (s', l) ->
    sinv n s' /\ incl (needed s') (needed s) /\ incl (active s) (active s') /\
    forall i, In i l -> ~ In i (needed s') /\ (0 <= i < n)%Z.

  Hypothesis H_err : forall n s i, sinv n s ->
    sinv n (on_error sch s i) /\ incl (needed (on_error sch s i)) (needed s) /\
    (forall x, In x (active s) -> x <> i -> In x (active (on_error sch s i))).

  Definition Inv (D : list Z) (n : Z) (s : S) : Prop :=
    sinv n s /\ (forall i, In i D -> (0 <= i < n)%Z) /\ (forall i, In i (needed s) -> ~ In i D).

  Lemma Inv_step D n s s' : Inv D n s -> sinv n s' -> incl (needed s') (needed s) -> Inv D n s'.
  Proof.
    intros [_ [H2 H3]] Hs Hi. split; [exact Hs|]. split; [exact H2|].
    intros i Hin. apply H3. now apply Hi.
  Qed.

  Lemma on_error_fold_Inv D n : forall l s, Inv D n s -> Inv D n (fold_left (on_error sch) l s).
  Proof.
    induction l as [|i l IH]; intros s HI; simpl; [exact HI|]. apply IH.
    destruct (H_err n s i (proj1 HI)) as [A [B _]]. eapply Inv_step; eauto.
  Qed.

  Lemma on_error_fold_active D n x : forall l s, Inv D n s -> ~ In x l -> In x (active s) ->
    In x (active (fold_left (on_error sch) l s)).
  Proof.
    induction l as [|i l IH]; intros s HI Hx Ha; simpl; [exact Ha|].
    destruct (H_err n s i (proj1 HI)) as [A [B Cc]]. apply IH.
    - eapply Inv_step; eauto.
    - intros H. apply Hx. now right.
    - apply Cc; [exact Ha|]. intros ->. apply Hx. now left.
  Qed.

  Lemma mem_Z_false_notin i l : mem_Z i l = false -> ~ In i l.
  Proof.
    induction l as [|y l IH]; simpl; [tauto|]. intros H [Hy|Hy].
    - subst y. rewrite Z.eqb_refl in H. discriminate.
    - apply orb_false_iff in H as [_ H]. exact (IH H Hy).
  Qed.

  (* [A] = running_trials_ids: every report comes from A; trials of A not yet stopped/paused in this
     batch are active for the scheduler *)
  Lemma process_results_safe compl (A : list Z) : forall rs s b done D s' b' done' ev,
    Inv D (new_trial_id b) s ->
    (forall i r, In (i, r) rs -> (0 <= i < new_trial_id b)%Z /\ In i A) ->
    (forall x, In x A -> ~ In x done -> In x (active s)) ->
    process_results sch c s b done compl rs = (s', b', done', ev) ->
    new_trial_id b' = new_trial_id b /\ rs_from cc D ev /\ Inv (dset D ev) (new_trial_id b) s' /\
    (forall x, In x A -> ~ In x done' -> In x (active s')).
  Proof.
    induction rs as [|[i r] rs IH]; intros s b done D s' b' done' ev HI Hb HA E; simpl in E.
    - injection E as <- <- <- <-. simpl. auto.
    - assert (forall i r, In (i, r) rs -> (0 <= i < new_trial_id b)%Z /\ In i A) as Hb' by (intros; eapply Hb; right; eauto).
      destruct (mem_Z i done) eqn:Emd; [eapply IH; eauto|].
      apply mem_Z_false_notin in Emd.
      assert (In i (active s)) as Hia by (apply HA; [exact (proj2 (Hb i r (or_introl eq_refl)))|exact Emd]).
      destruct (on_result sch s i r) as [[s1 d] cl] eqn:Eo.
      destruct (H_res _ _ _ _ _ _ _ (proj1 HI) Hia Eo) as [Hs1 [Hinc [Hstop [Hcl Hact]]]].
      assert (forall j, cl = Some j -> ~ In j D) as HclD by (intros j Hj; apply (proj2 (proj2 HI)); now apply Hcl).
      assert (forall X b1 dn1 evs D1,
                 rs_from cc D X -> new_trial_id b1 = new_trial_id b -> dset D X = D1 -> Inv D1 (new_trial_id b) s1 ->
                 (dn1 = done /\ d = CONTINUE \/ dn1 = i :: done) ->
                 process_results sch c s1 b1 dn1 compl rs = (s', b', done', evs) ->
                 new_trial_id b' = new_trial_id b /\ rs_from cc D (X ++ evs) /\ Inv (dset D (X ++ evs)) (new_trial_id b) s' /\
                 (forall x, In x A -> ~ In x done' -> In x (active s'))) as K.
      { intros X b1 dn1 evs D1 HX Hid HD HI1 Hdn E1.
        assert (forall x, In x A -> ~ In x dn1 -> In x (active s1)) as HA1.
        { intros x Hx Hnd. destruct Hdn as [[-> ->] | ->].
          - apply Hact; [apply HA; assumption | now right].
          - apply Hact; [apply HA; [assumption|]; intros H; apply Hnd; now right | left; intros ->; apply Hnd; now left]. }
        rewrite <- Hid in HI1, Hb'. destruct (IH _ _ _ _ _ _ _ _ HI1 Hb' HA1 E1) as [A0 [B [C Dd]]].
        rewrite Hid in *. split; [exact A0|]. rewrite rs_from_app, dset_app, HD. split; [|split; [exact C|exact Dd]].
        split; [exact HX | exact B]. }
      destruct d.
      + destruct (process_results sch c s1 b done compl rs) as [[[s2 b2] d2] evs] eqn:E1.
        injection E as <- <- <- <-.
        apply (K (EDecision i CONTINUE :: clone_ev i cl) b done evs D); auto.
        * rewrite <- (app_nil_r (clone_ev i cl)). apply rs_head; [exact HclD|apply nores_nil].
        * apply dset_nodel. apply nodel_cons; [reflexivity|apply nodel_clone].
        * eapply Inv_step; eauto.
      + destruct (process_results sch c s1 (set_status b i Paused) (i :: done) compl rs) as [[[s2 b2] d2] evs] eqn:E1.
        injection E as <- <- <- <-.
        assert (EDecision i PAUSE :: clone_ev i cl ++ EPause i :: evs
                = (EDecision i PAUSE :: clone_ev i cl ++ [EPause i]) ++ evs) as EQ
          by (simpl; rewrite <- app_assoc; reflexivity).
        rewrite EQ.
        apply (K _ (set_status b i Paused) (i :: done) evs D); auto.
        * apply rs_head; [exact HclD|]. apply nores_cons; [reflexivity|apply nores_nil].
        * apply dset_nodel. apply nodel_cons; [reflexivity|]. apply nodel_app; [apply nodel_clone|].
          apply nodel_cons; [reflexivity|apply nodel_nil].
        * eapply Inv_step; eauto.
      + destruct (mem_Z i compl).
        * destruct (process_results sch c s1 b (i :: done) compl rs) as [[[s2 b2] d2] evs] eqn:E1.
          injection E as <- <- <- <-.
          apply (K (EDecision i STOP :: clone_ev i cl) b (i :: done) evs D); auto.
          -- rewrite <- (app_nil_r (clone_ev i cl)). apply rs_head; [exact HclD|apply nores_nil].
          -- apply dset_nodel. apply nodel_cons; [reflexivity|apply nodel_clone].
          -- eapply Inv_step; eauto.
        * destruct (b_stop c b i WStop) as [bs es] eqn:Es.
          destruct (process_results sch c s1 bs (i :: done) compl rs) as [[[s2 b2] d2] evs] eqn:E1.
          injection E as <- <- <- <-.
          pose proof (b_stop_events c b i WStop) as Hev. rewrite Es in Hev. simpl in Hev.
          pose proof (b_stop_ids c b i WStop) as Hid. rewrite Es in Hid. simpl in Hid.
          replace (EDecision i STOP :: clone_ev i cl ++ es ++ evs)
            with ((EDecision i STOP :: clone_ev i cl ++ es) ++ evs) by (simpl; now rewrite <- app_assoc).
          destruct (delete_checkpoints c) eqn:Dc; subst es.
          -- apply (K _ bs (i :: done) evs (i :: D)); auto.
             ++ apply rs_head; [exact HclD|]. repeat (apply nores_cons; [reflexivity|]). apply nores_nil.
             ++ change (EDecision i STOP :: clone_ev i cl ++ [EStop i; EDelete i WStop])
                  with ((EDecision i STOP :: clone_ev i cl) ++ [EStop i; EDelete i WStop]).
                rewrite dset_app, (dset_nodel (EDecision i STOP :: clone_ev i cl)); [reflexivity|].
                apply nodel_cons; [reflexivity|apply nodel_clone].
             ++ destruct HI as [_ [H2 H3]]. split; [exact Hs1|]. split.
                ** intros x [<-|Hx]; [exact (proj1 (Hb i r (or_introl eq_refl))) | auto].
                ** intros x Hx [<-|Hd]; [now apply Hstop | exact (H3 x (Hinc x Hx) Hd)].
          -- apply (K _ bs (i :: done) evs D); auto.
             ++ apply rs_head; [exact HclD|]. apply nores_cons; [reflexivity|apply nores_nil].
             ++ apply dset_nodel. apply nodel_cons; [reflexivity|]. apply nodel_app; [apply nodel_clone|].
                apply nodel_cons; [reflexivity|apply nodel_nil].
             ++ eapply Inv_step; eauto.
  Qed.
  Local Arguments b_start : simpl never.
  Local Arguments b_resume : simpl never.
  Local Arguments new_trial_id : simpl never.

  Lemma b_start_ids b f : new_trial_id (fst (b_start b f)) = (new_trial_id b + 1)%Z.
  Proof. unfold b_start, new_trial_id; simpl. rewrite app_length. simpl. lia. Qed.

  Lemma b_start_events b f : snd (b_start b f) =
    EStart (new_trial_id b) f ::
    match f with Some j => [ECopy j (new_trial_id b); ESchedule (new_trial_id b)] | None => [ESchedule (new_trial_id b)] end.
  Proof. reflexivity. Qed.

  Lemma b_resume_spec b i b' e : b_resume b i = Some (b', e) ->
    e = [EResume i; ESchedule i] /\ new_trial_id b' = new_trial_id b /\ (0 <= i < new_trial_id b)%Z.
  Proof.
    unfold b_resume. destruct (Z.leb 0 i && Z.ltb i (new_trial_id b)) eqn:Eb; [|discriminate].
    destruct (status_of (stat b) i) as [[]|]; try discriminate.
    intros H; injection H as <- <-. repeat split; try reflexivity; lia.
  Qed.

  Lemma Inv_grow D n s : (forall i, In i D -> (0 <= i < n)%Z) -> sinv (n + 1)%Z s ->
    (forall i, In i (needed s) -> ~ In i D) -> Inv D (n + 1)%Z s.
  Proof. intros H1 H2 H3. split; [exact H2|]. split; [|exact H3]. intros i Hi. specialize (H1 i Hi). lia. Qed.

  Definition bounded (n : Z) (l : list Z) : Prop := forall i, In i l -> (0 <= i < n)%Z.

  Lemma schedule_safe : forall gs s b run D s' b' run' ex er ev,
    Inv D (new_trial_id b) s -> bounded (new_trial_id b) run -> incl run (active s) ->
    schedule sch s b run gs = (s', b', run', ex, er, ev) ->
    rs_from cc D ev /\ dset D ev = D /\ Inv D (new_trial_id b') s' /\ bounded (new_trial_id b') run' /\
    incl run' (active s').
  Proof.
    induction gs as [|g gs IH]; intros s b run D s' b' run' ex er ev HI Hr Hra E.
    - simpl in E. injection E as <- <- <- <- <- <-. simpl. auto.
    - assert (dset D ev = D) as Hd.
      { apply dset_nodel. pose proof (schedule_nodel sch (g :: gs) s b run) as Hn. now rewrite E in Hn. }
      cbn [schedule] in E.
      destruct (suggest sch s (new_trial_id b) g) as [s1 sg] eqn:Es.
      pose proof (H_sug _ _ _ _ _ (proj1 HI) Es) as Hs.
      destruct HI as [HI1 [HI2 HI3]].
      assert (forall f b1 e evs, b_start b f = (b1, e) ->
                (sinv (new_trial_id b + 1)%Z s1 /\ incl (needed s1) (new_trial_id b :: needed s) /\
                 incl (new_trial_id b :: active s) (active s1)) ->
                match f with Some j => cc = true -> In j (needed s) | None => True end ->
                schedule sch s1 b1 (new_trial_id b :: run) gs = (s', b', run', ex, er, evs) ->
                rs_from cc D (e ++ evs) /\ Inv D (new_trial_id b') s' /\ bounded (new_trial_id b') run' /\
                incl run' (active s')) as K.
      { intros f b1 e evs Eb [Hs1 [Hinc Hacs]] Hf E1.
        assert (incl (new_trial_id b :: run) (active s1)) as Hra'.
        { intros x [<-|Hx]; apply Hacs; [now left | right; now apply Hra]. }
        pose proof (b_start_ids b f) as Hid. rewrite Eb in Hid. simpl in Hid.
        pose proof (b_start_events b f) as Hne. rewrite Eb in Hne. simpl in Hne.
        assert (Inv D (new_trial_id b1) s1) as HI'.
        { rewrite Hid. apply Inv_grow; auto. intros x Hx Hd'. apply Hinc in Hx. destruct Hx as [<-|Hx].
          - specialize (HI2 _ Hd'). lia.
          - exact (HI3 x Hx Hd'). }
        assert (bounded (new_trial_id b1) (new_trial_id b :: run)) as Hr'.
        { rewrite Hid. intros x [<-|Hx]; [unfold new_trial_id; lia | specialize (Hr x Hx); lia]. }
        destruct (IH _ _ _ _ _ _ _ _ _ _ HI' Hr' Hra' E1) as [A [B [C [Dd Ee]]]].
        split; [|split; [assumption|split; assumption]]. rewrite rs_from_app. split.
        - rewrite Hne. destruct f as [j|]; simpl; [|tauto]. split; [exact I|]. split; [|tauto].
          destruct cc; [exact (HI3 j (Hf eq_refl)) | exact I].
        - rewrite dset_nodel; [exact A|]. pose proof (b_start_nodel b f) as Hn. now rewrite Eb in Hn. }
      destruct sg as [|j|i|].
      + destruct (b_start b None) as [b1 e] eqn:Eb.
        destruct (schedule sch s1 b1 (new_trial_id b :: run) gs) as [[[[[s2 b2] r2] ex2] er2] evs] eqn:E1.
        injection E as <- <- <- <- <- <-. destruct (K None b1 e evs Eb Hs I E1) as [A [B [C Dd]]]. auto.
      + destruct (b_start b (Some j)) as [b1 e] eqn:Eb.
        destruct (schedule sch s1 b1 (new_trial_id b :: run) gs) as [[[[[s2 b2] r2] ex2] er2] evs] eqn:E1.
        injection E as <- <- <- <- <- <-. destruct Hs as [Hs1 [Hs2 [Hs3 Hs4]]].
        destruct (K (Some j) b1 e evs Eb (conj Hs1 (conj Hs2 Hs3)) Hs4 E1) as [A [B [C Dd]]]. auto.
      + destruct Hs as [Hs1 [Hinc [Hacs Hin]]].
        assert (incl run (active s1)) as Hra1 by (intros x Hx; apply Hacs; right; now apply Hra).
        destruct (b_resume b i) as [[b1 e]|] eqn:Eb.
        * destruct (schedule sch s1 b1 (i :: run) gs) as [[[[[s2 b2] r2] ex2] er2] evs] eqn:E1.
          injection E as <- <- <- <- <- <-.
          destruct (b_resume_spec _ _ _ _ Eb) as [-> [Hid Hbi]].
          assert (Inv D (new_trial_id b1) s1) as HI'.
          { rewrite Hid. split; [exact Hs1|]. split; [exact HI2|]. intros x Hx. apply HI3. now apply Hinc. }
          assert (bounded (new_trial_id b1) (i :: run)) as Hr'.
          { rewrite Hid. intros x [<-|Hx]; [exact Hbi | exact (Hr x Hx)]. }
          assert (incl (i :: run) (active s1)) as Hra'.
          { intros x [<-|Hx]; [apply Hacs; now left | now apply Hra1]. }
          destruct (IH _ _ _ _ _ _ _ _ _ _ HI' Hr' Hra' E1) as [A [B [C [Dd Ee]]]].
          split; [|auto]. simpl. split; [exact (HI3 i Hin) | split; [exact I|exact A]].
        * injection E as <- <- <- <- <- <-. simpl. split; [tauto|]. split; [reflexivity|]. split; [|split; [exact Hr|exact Hra1]].
          split; [exact Hs1|]. split; [exact HI2|]. intros x Hx. apply HI3. now apply Hinc.
      + destruct Hs as [Hs1 [Hinc Hacs]]. injection E as <- <- <- <- <- <-. simpl. split; [exact I|]. split; [reflexivity|].
        split; [|split; [exact Hr|intros x Hx; apply Hacs; now apply Hra]].
        split; [exact Hs1|]. split; [exact HI2|]. intros x Hx. apply HI3. now apply Hinc.
  Qed.

  Lemma removable_events_safe : forall l b D b' ev, removable_events b l = (b', ev) ->
    new_trial_id b' = new_trial_id b /\ nores ev /\ forall x, In x (dset D ev) -> In x l \/ In x D.
  Proof.
    induction l as [|i l IH]; intros b D b' ev E; simpl in E.
    - injection E as <- <-. simpl. split; [reflexivity|]. split; [apply nores_nil|auto].
    - destruct (removable_events {| ids := ids b; stat := stat b; deleted := i :: deleted b |} l) as [b2 e2] eqn:E2.
      injection E as <- <-. destruct (IH _ (i :: D) _ _ E2) as [A [B C]]. split; [exact A|]. split.
      + repeat (apply nores_cons; [reflexivity|]). exact B.
      + intros x Hx. simpl in Hx. unfold dset in Hx. simpl in Hx. destruct (C x Hx) as [H|[<-|H]]; simpl; auto.
  Qed.

  Lemma loop_end_safe s b choice D s' b' ev : Inv D (new_trial_id b) s ->
    loop_end sch c s b choice = (s', b', ev) ->
    new_trial_id b' = new_trial_id b /\ rs_from cc D ev /\ Inv (dset D ev) (new_trial_id b) s' /\
    incl (active s) (active s').
  Proof.
    intros HI E. unfold loop_end in E. rewrite Hspec in E.
    destruct (remove_callback c).
    - destruct (removables sch s) as [s1 l] eqn:Er.
      destruct (H_rem _ _ _ _ (proj1 HI) Er) as [Hs1 [Hinc [Hacs Hl]]].
      destruct (removable_events b l) as [b1 e] eqn:Ee. injection E as <- <- <-.
      destruct (removable_events_safe l b D b1 e Ee) as [A [B C]].
      split; [exact A|]. split; [now apply rs_from_nores|].
      destruct HI as [_ [H2 H3]]. split; [|exact Hacs]. split; [exact Hs1|]. split.
      + intros x Hx. destruct (C x Hx) as [H|H]; [exact (proj2 (Hl x H)) | exact (H2 x H)].
      + intros x Hx Hd. destruct (C x Hd) as [H|H]; [exact (proj1 (Hl x H) Hx) | exact (H3 x (Hinc x Hx) H)].
    - injection E as <- <- <-. simpl. split; [reflexivity|]. split; [exact I|]. split; [exact HI|apply incl_refl].
  Qed.

  Definition InvT (D : list Z) (st : tstate S) : Prop :=
    Inv D (new_trial_id (be st)) (sst st) /\ bounded (new_trial_id (be st)) (running st) /\
    incl (running st) (active (sst st)).

  Lemma iteration_safe D st it st' ev er : InvT D st -> iteration sch c st it = (st', ev, er) ->
    rs_from cc D ev /\ InvT (dset D ev) st'.
  Proof.
    intros [HI [Hr Hra]] E. unfold iteration in E.
    set (rs := filter (fun r => mem_Z (fst r) (running st)) (reports it)) in *.
    set (compl := filter (fun i => mem_Z i (running st)) (completed it)) in *.
    set (fl := filter (fun i => mem_Z i (running st)) (failed it)) in *.
    assert (forall i r, In (i, r) rs -> (0 <= i < new_trial_id (mark_failed (mark_completed (be st) compl) fl))%Z /\ In i (running st)) as Hb.
    { intros i r Hin. rewrite mark_failed_ids, mark_completed_ids. apply filter_In in Hin as [_ Hm]. simpl in Hm.
      assert (In i (running st)) as Hir.
      { clear -Hm. induction (running st) as [|y l IHl]; simpl in *; [discriminate|].
        apply orb_true_iff in Hm as [Hm|Hm]; [left; symmetry; now apply Z.eqb_eq | right; auto]. }
      split; [exact (Hr i Hir)|exact Hir]. }
    assert (forall x, In x (running st) -> ~ In x [] -> In x (active (sst st))) as HA0 by (intros x Hx _; now apply Hra).
    rewrite <- (mark_completed_ids compl), <- (mark_failed_ids fl) in HI.
    destruct (process_results sch c (sst st) (mark_failed (mark_completed (be st) compl) fl) [] compl rs) as [[[s1 b1] done] ev1] eqn:E1.
    destruct (process_results_safe compl (running st) rs _ _ _ D _ _ _ _ HI Hb HA0 E1) as [Hid1 [Hrs1 [HI1 HA1]]].
    rewrite <- Hid1 in HI1.
    set (run1 := filter (fun i => negb (mem_Z i done) && negb (mem_Z i compl) && negb (mem_Z i fl)) (running st)) in *.
    assert (incl run1 (active (fold_left (on_error sch) (filter (fun i => negb (mem_Z i done)) fl) s1))) as Hra1.
    { intros x Hx. apply filter_In in Hx as [Hx Hf]. apply andb_true_iff in Hf as [Hf Hf3]. apply andb_true_iff in Hf as [Hf1 Hf2].
      apply negb_true_iff in Hf1, Hf3.
      apply (on_error_fold_active _ _ x _ _ HI1).
      - intros Hin. apply filter_In in Hin as [Hin _]. exact (mem_Z_false_notin _ _ Hf3 Hin).
      - apply HA1; [exact Hx | exact (mem_Z_false_notin _ _ Hf1)]. }
    apply (on_error_fold_Inv _ _ (filter (fun i => negb (mem_Z i done)) fl)) in HI1.
    set (s1' := fold_left (on_error sch) (filter (fun i => negb (mem_Z i done)) fl) s1) in *.
    assert (bounded (new_trial_id b1) run1) as Hr1.
    { intros x Hx. apply filter_In in Hx as [Hx _]. rewrite Hid1, mark_failed_ids, mark_completed_ids. exact (Hr x Hx). }
    destruct (exhausted st || hold it).
    - destruct (nilb run1).
      { injection E as <- <- <-. split; [exact Hrs1|]. split; [exact HI1|]. split; [exact Hr1|exact Hra1]. }
      destruct (loop_end sch c s1' b1 (spec_choice it)) as [[s3 b3] ev3] eqn:E3.
      injection E as <- <- <-.
      destruct (loop_end_safe _ _ _ _ _ _ _ HI1 E3) as [Hid3 [Hrs3 [HI3 Hac3]]].
      rewrite rs_from_app, dset_app. split; [tauto|]. split; [|split]; simpl; try (rewrite Hid3; assumption).
      intros x Hx. apply Hac3. now apply Hra1.
    - destruct (schedule sch s1' b1 run1 (sugg it)) as [[[[[s2 b2] run2] ex] er2] ev2] eqn:E2.
      destruct (schedule_safe _ _ _ _ _ _ _ _ _ _ _ HI1 Hr1 Hra1 E2) as [Hrs2 [Hd2 [HI2 [Hr2 Hra2]]]].
      destruct er2.
      + injection E as <- <- <-. rewrite rs_from_app, dset_app, Hd2. split; [tauto|]. split; [|split]; assumption.
      + destruct (loop_end sch c s2 b2 (spec_choice it)) as [[s3 b3] ev3] eqn:E3.
        injection E as <- <- <-.
        destruct (loop_end_safe _ _ _ _ _ _ _ HI2 E3) as [Hid3 [Hrs3 [HI3 Hac3]]].
        rewrite !rs_from_app, !dset_app, Hd2. split; [tauto|]. split; [|split]; simpl; try (rewrite Hid3; assumption).
        intros x Hx. apply Hac3. now apply Hra2.
  Qed.

  Lemma run_safe : forall its D st, InvT D st -> rs_from cc D (run sch c st its).
  Proof.
    induction its as [|it its IH]; intros D st HI; cbn [run].
    - apply rs_from_nores, finish_nores.
    - destruct (iteration sch c st it) as [[st' ev] er] eqn:E.
      destruct (iteration_safe _ _ _ _ _ _ HI E) as [A B].
      rewrite rs_from_app. split; [exact A|].
      destruct er; [apply rs_from_nores, finish_nores | now apply IH].
  Qed.

  Theorem resume_has_checkpoint : forall s0 its pre i post, sinv 0%Z s0 ->
    run sch c (init s0) its = pre ++ EResume i :: post ->
    forall w, ~ In (EDelete i w) pre.
  Proof.
    intros s0 its pre i post H0 E.
    assert (InvT [] (init s0)) as HI.
    { split; [|split; intros x []]. split; [exact H0|]. split; [intros x []|intros x _ []]. }
    exact (proj2 (rs_from_spec cc pre [] _ i post (run_safe its [] _ HI) E)).
  Qed.

  Theorem clone_source_alive_at_decision : forall s0 its pre i j post, sinv 0%Z s0 ->
    run sch c (init s0) its = pre ++ EClone i j :: post ->
    forall w, ~ In (EDelete j w) pre.
  Proof.
    intros s0 its pre i j post H0 E.
    assert (InvT [] (init s0)) as HI.
    { split; [|split; intros x []]. split; [exact H0|]. split; [intros x []|intros x _ []]. }
    exact (proj2 (rs_from_spec_clone cc pre [] _ i j post (run_safe its [] _ HI) E)).
  Qed.

  Theorem copy_has_checkpoint : cc = true -> forall s0 its pre j t post, sinv 0%Z s0 ->
    run sch c (init s0) its = pre ++ ECopy j t :: post ->
    forall w, ~ In (EDelete j w) pre.
  Proof.
    intros Hcc s0 its pre j t post H0 E.
    assert (InvT [] (init s0)) as HI.
    { split; [|split; intros x []]. split; [exact H0|]. split; [intros x []|intros x _ []]. }
    pose proof (run_safe its [] _ HI) as Hrun. rewrite Hcc in Hrun.
    exact (proj2 (rs_from_spec_copy pre [] _ j t post Hrun E)).
  Qed.
End ResumeSafe.

(* ==== after stop_all only stop_trial / delete_checkpoint calls happen ============== *)
Definition is_end (e : event) : bool := match e with EStopAll => true | _ => false end.
Definition is_final (e : event) : bool :=
  match e with EStop _ => true | EDelete _ WStopAll => true | _ => false end.
Definition NE (l : list event) : Prop := Forall (fun e => is_end e = false) l.
Definition AF (l : list event) : Prop := Forall (fun e => is_final e = true) l.

Lemma NE_clone i cl : NE (clone_ev i cl).
Proof. destruct cl; repeat constructor. Qed.

Lemma b_stop_NE c b i w : NE (snd (b_stop c b i w)).
Proof. rewrite b_stop_events. destruct (delete_checkpoints c); repeat constructor. Qed.

Lemma delete_list_Forall (P : event -> Prop) w : (forall i, P (EDelete i w)) ->
  forall l b, Forall P (snd (delete_list b l w)).
Proof.
  intros HP. induction l as [|i l IH]; intros b; simpl; [constructor|].
  specialize (IH {| ids := ids b; stat := stat b; deleted := i :: deleted b |}).
  destruct (delete_list _ l w) as [b2 e2]. simpl in *. constructor; [apply HP|exact IH].
Qed.

Section EndSection.
  Context {S R G : Type}.
  Variable sch : scheduler S R G.
  Variable c : cfg.
  Local Arguments b_start : simpl never.
  Local Arguments b_resume : simpl never.
  Local Arguments new_trial_id : simpl never.

  Lemma process_results_NE compl : forall rs s b done, NE (snd (process_results sch c s b done compl rs)).
  Proof.
    induction rs as [|[i r] rs IH]; intros s b done; simpl; [constructor|].
    destruct (mem_Z i done); [apply IH|].
    destruct (on_result sch s i r) as [[s1 d] cl].
    destruct d.
    - specialize (IH s1 b done). destruct (process_results sch c s1 b done compl rs) as [[[s2 b2] d2] evs].
      simpl in *. constructor; [reflexivity|]. apply Forall_app. split; [apply NE_clone|exact IH].
    - specialize (IH s1 (set_status b i Paused) (i :: done)).
      destruct (process_results sch c s1 (set_status b i Paused) (i :: done) compl rs) as [[[s2 b2] d2] evs].
      simpl in *. constructor; [reflexivity|]. apply Forall_app. split; [apply NE_clone|].
      constructor; [reflexivity|exact IH].
    - destruct (mem_Z i compl).
      + specialize (IH s1 b (i :: done)). destruct (process_results sch c s1 b (i :: done) compl rs) as [[[s2 b2] d2] evs].
        simpl in *. constructor; [reflexivity|]. apply Forall_app. split; [apply NE_clone|exact IH].
      + pose proof (b_stop_NE c b i WStop) as Hs. destruct (b_stop c b i WStop) as [b' e].
        specialize (IH s1 b' (i :: done)). destruct (process_results sch c s1 b' (i :: done) compl rs) as [[[s2 b2] d2] evs].
        simpl in *. constructor; [reflexivity|]. apply Forall_app. split; [apply NE_clone|].
        apply Forall_app. split; assumption.
  Qed.

  Lemma schedule_NE : forall gs s b run, NE (snd (schedule sch s b run gs)).
  Proof.
    induction gs as [|g gs IH]; intros s b run; [constructor|]. cbn [schedule].
    destruct (suggest sch s (new_trial_id b) g) as [s1 sg]. destruct sg as [|j|i|].
    - pose proof (b_start_events b None) as He. destruct (b_start b None) as [b1 e].
      specialize (IH s1 b1 (new_trial_id b :: run)).
      destruct (schedule sch s1 b1 (new_trial_id b :: run) gs) as [[[[[s2 b2] r2] ex] er] evs]. simpl in *.
      subst e. repeat (constructor; [reflexivity|]). exact IH.
    - pose proof (b_start_events b (Some j)) as He. destruct (b_start b (Some j)) as [b1 e].
      specialize (IH s1 b1 (new_trial_id b :: run)).
      destruct (schedule sch s1 b1 (new_trial_id b :: run) gs) as [[[[[s2 b2] r2] ex] er] evs]. simpl in *.
      subst e. repeat (constructor; [reflexivity|]). exact IH.
    - destruct (b_resume b i) as [[b1 e]|] eqn:Eb.
      + destruct (b_resume_spec _ _ _ _ Eb) as [-> _].
        specialize (IH s1 b1 (i :: run)).
        destruct (schedule sch s1 b1 (i :: run) gs) as [[[[[s2 b2] r2] ex] er] evs]. simpl in *.
        repeat (constructor; [reflexivity|]). exact IH.
      + simpl. repeat constructor.
    - simpl. constructor.
  Qed.

  Lemma removable_events_NE : forall l b, NE (snd (removable_events b l)).
  Proof.
    induction l as [|i l IH]; intros b; simpl; [constructor|].
    specialize (IH {| ids := ids b; stat := stat b; deleted := i :: deleted b |}).
    destruct (removable_events _ l) as [b2 e2]. simpl in *. repeat (constructor; [reflexivity|]). exact IH.
  Qed.

  Lemma loop_end_NE s b choice : NE (snd (loop_end sch c s b choice)).
  Proof.
    unfold loop_end.
    assert (forall b l, NE (snd (delete_list b l WSpec))) as Hd
      by (intros; apply delete_list_Forall; reflexivity).
    destruct (remove_callback c).
    - destruct (removables sch s) as [s' l]. pose proof (removable_events_NE l b) as H1.
      destruct (removable_events b l) as [b' e]. destruct (speculative c); [|exact H1].
      specialize (Hd b' (filter (spec_ok sch s') choice)).
      destruct (delete_list b' _ WSpec) as [b2 e2]. simpl in *. apply Forall_app. split; assumption.
    - destruct (speculative c); [|constructor].
      specialize (Hd b (filter (spec_ok sch s) choice)). destruct (delete_list b _ WSpec) as [b2 e2]. exact Hd.
  Qed.

  Lemma iteration_NE st it : NE (snd (fst (iteration sch c st it))).
  Proof.
    unfold iteration.
    set (rs := filter _ (reports it)). set (compl := filter _ (completed it)). set (fl := filter _ (failed it)).
    pose proof (process_results_NE compl rs (sst st) (mark_failed (mark_completed (be st) compl) fl) []) as H1.
    destruct (process_results sch c (sst st) _ [] compl rs) as [[[s1 b1] done] ev1]. simpl in H1.
    set (s1' := fold_left (on_error sch) _ s1).
    destruct (exhausted st || hold it).
    - match goal with |- context [if nilb ?r then _ else _] => destruct (nilb r) end; [simpl; exact H1|].
      pose proof (loop_end_NE s1' b1 (spec_choice it)) as H3.
      destruct (loop_end sch c s1' b1 (spec_choice it)) as [[s3 b3] ev3]. simpl in *.
      apply Forall_app. split; assumption.
    - match goal with |- context [schedule sch s1' b1 ?r (sugg it)] => pose proof (schedule_NE (sugg it) s1' b1 r) as H2;
        destruct (schedule sch s1' b1 r (sugg it)) as [[[[[s2 b2] run2] ex] er] ev2] end.
      simpl in H2. destruct er; simpl.
      + apply Forall_app. split; assumption.
      + pose proof (loop_end_NE s2 b2 (spec_choice it)) as H3.
        destruct (loop_end sch c s2 b2 (spec_choice it)) as [[s3 b3] ev3]. simpl in *.
        apply Forall_app. split; [assumption|]. apply Forall_app. split; assumption.
  Qed.

  Lemma stop_all_AF b : AF (snd (b_stop_all c b)).
  Proof.
    unfold b_stop_all.
    assert (forall st0 l b, AF (snd (stop_running c b st0 l))) as H1.
    { intros st0 l. induction l as [|i l IH]; intros b0; simpl; [constructor|].
      destruct (status_of st0 i) as [[]|]; try apply IH.
      pose proof (b_stop_events c b0 i WStopAll) as Hs.
      destruct (b_stop c b0 i WStopAll) as [b1 e1]. specialize (IH b1).
      destruct (stop_running c b1 st0 l) as [b2 e2]. simpl in *. apply Forall_app. split; [|exact IH].
      rewrite Hs. destruct (delete_checkpoints c); repeat constructor. }
    specialize (H1 (stat b) (ids b) b). destruct (stop_running c b (stat b) (ids b)) as [b1 e1]. simpl in H1.
    destruct (delete_checkpoints c); [|exact H1].
    pose proof (delete_list_Forall (fun e => is_final e = true) WStopAll (fun _ => eq_refl) (ids b) b1) as H2.
    destruct (delete_list b1 (ids b) WStopAll) as [b2 e2]. simpl in *. apply Forall_app. split; assumption.
  Qed.

  (* the trace is  body ++ EStopAll :: tail  with no EStopAll in body and only final calls in tail *)
  Lemma run_shape : forall its st, exists body tail,
    run sch c st its = body ++ EStopAll :: tail /\ NE body /\ AF tail.
  Proof.
    induction its as [|it its IH]; intros st; cbn [run].
    - exists [], (snd (b_stop_all c (be st))). split; [reflexivity|]. split; [constructor|apply stop_all_AF].
    - pose proof (iteration_NE st it) as H1. destruct (iteration sch c st it) as [[st' ev] er]. simpl in H1.
      destruct er.
      + exists ev, (snd (b_stop_all c (be st'))). split; [reflexivity|]. split; [exact H1|apply stop_all_AF].
      + destruct (IH st') as [body [tail [E [H2 H3]]]]. exists (ev ++ body), tail.
        split; [rewrite E; now rewrite app_assoc|]. split; [apply Forall_app; split; assumption|exact H3].
  Qed.

  Lemma NE_split body tail pre post : NE body -> body ++ EStopAll :: tail = pre ++ EStopAll :: post ->
    NE pre -> pre = body /\ post = tail.
  Proof.
    revert pre. induction body as [|e body IH]; intros pre Hb E Hp.
    - destruct pre as [|e' pre]; simpl in E; [injection E as <-; auto|].
      injection E as <- _. inversion Hp; subst. discriminate.
    - destruct pre as [|e' pre]; simpl in E.
      + injection E as -> _. inversion Hb; subst. discriminate.
      + injection E as <- E. inversion Hb; subst. inversion Hp; subst.
        destruct (IH pre H2 E H4) as [-> ->]. auto.
  Qed.

  Theorem after_stop_all_only_final : forall st its pre post,
    run sch c st its = pre ++ EStopAll :: post ->
    AF post /\ NE pre.
  Proof.
    intros st its pre post E. destruct (run_shape its st) as [body [tail [E' [H1 H2]]]].
    rewrite E' in E.
    (* the first EStopAll of the trace is the one of [body ++ EStopAll :: tail] *)
    assert (forall body pre, NE body -> body ++ EStopAll :: tail = pre ++ EStopAll :: post ->
              (pre = body /\ post = tail) \/ exists mid, pre = body ++ EStopAll :: mid /\ tail = mid ++ EStopAll :: post) as K.
    { induction body0 as [|e body0 IH]; intros pre0 Hb E0.
      - destruct pre0 as [|e' pre0]; simpl in E0; [injection E0 as <-; auto|].
        injection E0 as <- E0. right. exists pre0. auto.
      - destruct pre0 as [|e' pre0]; simpl in E0.
        + injection E0 as -> _. inversion Hb; subst. discriminate.
        + injection E0 as <- E0. inversion Hb; subst. destruct (IH pre0 H4 E0) as [[-> ->]|[mid [-> ->]]]; [auto|].
          right. exists mid. auto. }
    destruct (K body pre H1 E) as [[-> ->]|[mid [-> Ht]]]; [auto|].
    exfalso. rewrite Ht in H2. apply Forall_app in H2 as [_ H2]. inversion H2; subst. discriminate.
  Qed.
End EndSection.

(* ---- instance: promotion-type book-keeping ---------------------------------------- *)
Lemma mem_Z_In i l : mem_Z i l = true <-> In i l.
Proof.
  induction l as [|y l IH]; simpl; [split; [discriminate|tauto]|].
  rewrite orb_true_iff, IH, Z.eqb_eq. split; intros [H|H]; auto.
Qed.

Lemma remove_Z_In x i l : In x (remove_Z i l) <-> In x l /\ x <> i.
Proof. unfold remove_Z. rewrite filter_In, negb_true_iff, Z.eqb_neq. tauto. Qed.

Definition promo_needed (s : promo) : list Z := p_paused s ++ p_active s.
Definition promo_inv (n : Z) (s : promo) : Prop :=
  (0 <= n)%Z /\ forall i, In i (promo_needed s) -> (0 <= i < n)%Z.

Lemma promo_inv_incl n s s1 : promo_inv n s -> incl (promo_needed s1) (promo_needed s) -> promo_inv n s1.
Proof. intros [H0 H] Hi. split; [exact H0|]. intros x Hx. apply H. now apply Hi. Qed.

Lemma promo_H_res : forall n s i r s' d cl, promo_inv n s -> In i (p_active s) ->
  on_result promo_sched s i r = (s', d, cl) ->
  promo_inv n s' /\ incl (promo_needed s') (promo_needed s) /\ (d = STOP -> ~ In i (promo_needed s')) /\
  (forall j, cl = Some j -> In j (promo_needed s)) /\
  (forall x, In x (p_active s) -> x <> i \/ d = CONTINUE -> In x (p_active s')).
Proof.
  intros n s i r s' d cl Hinv Hia E. simpl in E. unfold promo_on_result in E.
  assert (forall j : Z, @None Z = Some j -> In j (promo_needed s)) as HN by discriminate.
  apply mem_Z_In in Hia. rewrite Hia in E. apply mem_Z_In in Hia.
  assert (forall x, In x (p_active s) -> x <> i \/ PAUSE = CONTINUE -> In x (remove_Z i (p_active s))) as HP.
  { intros x Hx [Hn|Hn]; [|discriminate]. apply remove_Z_In. tauto. }
  assert (forall x, In x (p_active s) -> x <> i \/ STOP = CONTINUE -> In x (remove_Z i (p_active s))) as HS.
  { intros x Hx [Hn|Hn]; [|discriminate]. apply remove_Z_In. tauto. }
  destruct r; injection E as <- <- <-.
  - split; [exact Hinv|]. split; [apply incl_refl|]. split; [discriminate|]. split; [exact HN|auto].
  - assert (incl (promo_needed {| p_active := remove_Z i (p_active s); p_paused := i :: p_paused s |}) (promo_needed s)) as Hi.
    { intros x Hx. unfold promo_needed in *. simpl in Hx. apply in_or_app.
      destruct Hx as [<-|Hx]; [now right|]. apply in_app_or in Hx as [Hx|Hx]; [now left|].
      apply remove_Z_In in Hx. right; tauto. }
    split; [eapply promo_inv_incl; eauto|]. split; [exact Hi|]. split; [discriminate|]. split; [exact HN|exact HP].
  - assert (incl (promo_needed {| p_active := remove_Z i (p_active s); p_paused := remove_Z i (p_paused s) |}) (promo_needed s)) as Hi.
    { intros x Hx. unfold promo_needed in *. simpl in Hx. apply in_or_app.
      apply in_app_or in Hx as [Hx|Hx]; apply remove_Z_In in Hx; tauto. }
    split; [eapply promo_inv_incl; eauto|]. split; [exact Hi|]. split; [|split; [exact HN|exact HS]].
    intros _ Hx. unfold promo_needed in Hx. simpl in Hx.
    apply in_app_or in Hx as [Hx|Hx]; apply remove_Z_In in Hx; tauto.
Qed.

Lemma promo_new n s : promo_inv n s ->
  promo_inv (n + 1)%Z {| p_active := n :: p_active s; p_paused := p_paused s |} /\
  incl (promo_needed {| p_active := n :: p_active s; p_paused := p_paused s |}) (n :: promo_needed s).
Proof.
  intros [H0 H].
  assert (incl (promo_needed {| p_active := n :: p_active s; p_paused := p_paused s |}) (n :: promo_needed s)) as Hi.
  { intros x Hx. unfold promo_needed in *. simpl in *. apply in_app_or in Hx as [Hx|[<-|Hx]]; [right|now left|right];
      apply in_or_app; tauto. }
  split; [|exact Hi]. split; [lia|]. intros x Hx. apply Hi in Hx. destruct Hx as [<-|Hx]; [lia|].
  specialize (H x Hx). lia.
Qed.

Lemma promo_H_sug : forall n s g s' sg, promo_inv n s -> suggest promo_sched s n g = (s', sg) ->
  match sg with
  | SNone => promo_inv n s' /\ incl (promo_needed s') (promo_needed s) /\ incl (p_active s) (p_active s')
  | SNew => promo_inv (n + 1)%Z s' /\ incl (promo_needed s') (n :: promo_needed s) /\ incl (n :: p_active s) (p_active s')
  | SFrom j => promo_inv (n + 1)%Z s' /\ incl (promo_needed s') (n :: promo_needed s) /\ incl (n :: p_active s) (p_active s') /\
               (true = true -> In j (promo_needed s))
  | SResume i => promo_inv n s' /\ incl (promo_needed s') (promo_needed s) /\ incl (i :: p_active s) (p_active s') /\
                 In i (promo_needed s)
  end.
Proof.
  intros n s g s' sg Hinv E. simpl in E. unfold promo_suggest in E.
  destruct g as [i|]; [destruct (mem_Z i (p_paused s)) eqn:Em|]; injection E as <- <-;
    try (destruct (promo_new n s Hinv) as [A B]; split; [exact A|]; split; [exact B|apply incl_refl]).
  apply mem_Z_In in Em.
  assert (incl (promo_needed {| p_active := i :: p_active s; p_paused := remove_Z i (p_paused s) |}) (promo_needed s)) as Hi.
  { intros x Hx. unfold promo_needed in *. simpl in Hx. apply in_or_app.
    apply in_app_or in Hx as [Hx|[<-|Hx]]; [apply remove_Z_In in Hx; tauto | now left | now right]. }
  split; [eapply promo_inv_incl; eauto|]. split; [exact Hi|]. split; [apply incl_refl|].
  unfold promo_needed. apply in_or_app. now left.
Qed.

Lemma promo_H_rem : forall n s s' l, promo_inv n s -> removables promo_sched s = (s', l) ->
  promo_inv n s' /\ incl (promo_needed s') (promo_needed s) /\ incl (p_active s) (p_active s') /\
  forall i, In i l -> ~ In i (promo_needed s') /\ (0 <= i < n)%Z.
Proof.
  intros n s s' l Hinv E. simpl in E. injection E as <- <-.
  split; [exact Hinv|]. split; [apply incl_refl|]. split; [apply incl_refl|]. intros i [].
Qed.

Lemma promo_H_err : forall n s i, promo_inv n s ->
  promo_inv n (on_error promo_sched s i) /\ incl (promo_needed (on_error promo_sched s i)) (promo_needed s) /\
  (forall x, In x (p_active s) -> x <> i -> In x (p_active (on_error promo_sched s i))).
Proof.
  intros n s i Hinv. simpl.
  assert (incl (promo_needed {| p_active := remove_Z i (p_active s); p_paused := p_paused s |}) (promo_needed s)) as Hi.
  { intros x Hx. unfold promo_needed in *. simpl in Hx. apply in_or_app.
    apply in_app_or in Hx as [Hx|Hx]; [now left|]. apply remove_Z_In in Hx. right; tauto. }
  split; [eapply promo_inv_incl; eauto|]. split; [exact Hi|].
  intros x Hx Hn. apply remove_Z_In. tauto.
Qed.

Theorem promo_resume_has_checkpoint : forall c its pre i post, speculative c = false ->
  run promo_sched c (init promo0) its = pre ++ EResume i :: post ->
  forall w, ~ In (EDelete i w) pre.
Proof.
  intros c its pre i post Hs E.
  apply (resume_has_checkpoint promo_sched c Hs true promo_needed p_active promo_inv promo_H_res promo_H_sug promo_H_rem
           promo_H_err promo0 its pre i post); [|exact E].
  split; [lia|]. intros x [].
Qed.

(* ---- instance: PBT after the fix (source re-drawn when stopped in the meantime) ------ *)
Definition pbt_needed (s : pbt) : list Z :=
  map pt_id (filter (fun t => negb (pt_stopped t)) (pb_trials s)).
Definition pbt_inv (n : Z) (s : pbt) : Prop :=
  (0 <= n)%Z /\ (forall i, In i (map pt_id (pb_trials s)) -> (0 <= i < n)%Z) /\ NoDup (map pt_id (pb_trials s)).

Definition live (l : list pbt_trial) : list Z := map pt_id (filter (fun t => negb (pt_stopped t)) l).

Lemma pbt_find_In l i t : pbt_find l i = Some t -> In t l /\ pt_id t = i.
Proof.
  induction l as [|x l IH]; simpl; [discriminate|].
  destruct (Z.eqb (pt_id x) i) eqn:E.
  - intros H; injection H as <-. split; [now left | now apply Z.eqb_eq].
  - intros H. destruct (IH H). split; [now right | assumption].
Qed.

Lemma pbt_update_ids l i f : (forall t, pt_id (f t) = pt_id t) ->
  map pt_id (pbt_update l i f) = map pt_id l.
Proof.
  intros Hf. induction l as [|x l IH]; simpl; [reflexivity|].
  destruct (Z.eqb (pt_id x) i); simpl; [now rewrite Hf | now rewrite IH].
Qed.

Lemma pbt_update_live l i f : (forall t, pt_id (f t) = pt_id t) ->
  (forall t, pt_stopped t = true -> pt_stopped (f t) = true) ->
  incl (live (pbt_update l i f)) (live l).
Proof.
  intros Hid Hf. unfold live. induction l as [|x l IH]; simpl; [apply incl_refl|].
  destruct (Z.eqb (pt_id x) i).
  - simpl. destruct (pt_stopped (f x)) eqn:E1; destruct (pt_stopped x) eqn:E2; simpl.
    + apply incl_refl.
    + apply incl_tl, incl_refl.
    + rewrite (Hf x E2) in E1. discriminate.
    + rewrite Hid. apply incl_refl.
  - simpl. destruct (pt_stopped x); simpl; [exact IH|].
    intros y [<-|Hy]; [now left | right; now apply IH].
Qed.

Lemma live_sub_ids l : incl (live l) (map pt_id l).
Proof.
  unfold live. induction l as [|x l IH]; simpl; [apply incl_refl|].
  destruct (pt_stopped x); simpl; [apply incl_tl, IH|].
  intros y [<-|Hy]; [now left | right; now apply IH].
Qed.

Lemma pbt_update_stop_dead l i f : (forall t, pt_id (f t) = pt_id t) ->
  (forall t, pt_stopped (f t) = true) -> NoDup (map pt_id l) ->
  ~ In i (live (pbt_update l i f)).
Proof.
  intros Hid Hf. induction l as [|x l IH]; simpl; intros Hnd; [tauto|].
  inversion Hnd as [|? ? Hx Hnd']; subst.
  destruct (Z.eqb (pt_id x) i) eqn:E.
  - apply Z.eqb_eq in E. unfold live. simpl. rewrite Hf. simpl.
    intros Hin. apply Hx. rewrite E. now apply (live_sub_ids l).
  - apply Z.eqb_neq in E. unfold live. simpl. destruct (pt_stopped x); simpl.
    + now apply IH.
    + intros [H|H]; [contradiction | now apply IH in H].
Qed.

Lemma skipn_In_sub {A} n (l : list A) x : In x (skipn n l) -> In x l.
Proof. intros H. rewrite <- (firstn_skipn n l). apply in_or_app. now right. Qed.

Lemma insert_by_In le x l y : In y (insert_by le x l) -> y = x \/ In y l.
Proof.
  induction l as [|z l IH]; simpl; [intros [<-|[]]; now left|].
  destruct (le (snd z) (snd x)); simpl.
  - intros [<-|H]; [right; now left|]. destruct (IH H); [now left | right; now right].
  - intros [<-|H]; [now left | now right].
Qed.

Lemma stable_sort_In mx l y : In y (stable_sort mx l) -> In y l.
Proof.
  unfold stable_sort.
  assert (forall le l acc, In y (fold_left (fun acc x => insert_by le x acc) l acc) -> In y acc \/ In y l) as K.
  { intros le. induction l0 as [|x l0 IH]; intros acc; simpl; [auto|].
    intros H. destruct (IH _ H) as [H1|H1]; [|right; now right].
    destruct (insert_by_In _ _ _ _ H1) as [->|H2]; [right; now left | now left]. }
  intros H. destruct (K _ _ _ H) as [[]|H1]. exact H1.
Qed.

Lemma scored_live l j sc : In (j, sc) (scored l) -> In j (live l).
Proof.
  unfold live. induction l as [|x l IH]; simpl; [tauto|].
  destruct (pt_score x) as [s0|]; destruct (pt_stopped x); simpl; auto.
  intros [H|H]; [injection H as <- _; now left | right; now apply IH].
Qed.

Lemma quantiles_upper_live qf l j : In j (snd (quantiles qf l)) -> In j (live l).
Proof.
  unfold quantiles.
  set (trials := map fst (stable_sort false (scored l))).
  assert (forall x, In x trials -> In x (live l)) as K.
  { intros x Hx. apply in_map_iff in Hx as [[a sc] [<- Hx]]. simpl. apply stable_sort_In in Hx.
    eapply scored_live; eauto. }
  destruct (Nat.leb (length trials) 1); simpl; [tauto|].
  match goal with |- context [if Nat.eqb ?n 0 then _ else _] => destruct (Nat.eqb n 0) end.
  - apply K.
  - intros H. apply K. eapply skipn_In_sub; eauto.
Qed.

Lemma pbt_inv_ids n s tr : pbt_inv n s -> map pt_id tr = map pt_id (pb_trials s) ->
  forall st, pbt_inv n {| pb_trials := tr; pb_stack := st |}.
Proof. intros [H0 [H1 H2]] E st. unfold pbt_inv. simpl. rewrite E. auto. Qed.

Definition pbt_active (s : pbt) : list Z := map pt_id (pb_trials s).

Lemma pbt_H_res0 fx p : forall n s i r s' d cl, pbt_inv n s -> on_result (pbt_sched_gen fx p) s i r = (s', d, cl) ->
  pbt_inv n s' /\ incl (pbt_needed s') (pbt_needed s) /\ (d = STOP -> ~ In i (pbt_needed s')) /\
  (forall j, cl = Some j -> In j (pbt_needed s)).
Proof.
  intros n s i [[cost score] choice] s' d cl Hinv E. simpl in E. unfold pbt_on_result in E.
  assert (forall j : Z, @None Z = Some j -> In j (pbt_needed s)) as HN by discriminate.
  destruct (pbt_find (pb_trials s) i) as [t|] eqn:Ef.
  2:{ injection E as <- <- <-. split; [exact Hinv|]. split; [apply incl_refl|]. split; [discriminate|exact HN]. }
  set (fstop := fun t0 : pbt_trial => {| pt_id := pt_id t0; pt_score := pt_score t0; pt_last := pt_last t0; pt_stopped := true |}) in *.
  set (fsc := fun t0 : pbt_trial => {| pt_id := pt_id t0; pt_score := Some score; pt_last := cost; pt_stopped := pt_stopped t0 |}) in *.
  assert (forall t0, pt_id (fstop t0) = pt_id t0) as Hid1 by reflexivity.
  assert (forall t0, pt_id (fsc t0) = pt_id t0) as Hid2 by reflexivity.
  pose proof Hinv as [H0 [H1 H2]].
  destruct (Qleb (pp_max_t p) cost).
  - injection E as <- <- <-. split; [|split; [|split]].
    + apply (pbt_inv_ids n s); [exact Hinv | now apply pbt_update_ids].
    + apply (pbt_update_live (pb_trials s) i fstop Hid1). reflexivity.
    + intros _. apply (pbt_update_stop_dead (pb_trials s) i fstop Hid1); [reflexivity|exact H2].
    + exact HN.
  - destruct (Qltb (cost - pt_last t) (pp_interval p)).
    + injection E as <- <- <-. split; [exact Hinv|]. split; [apply incl_refl|]. split; [discriminate|exact HN].
    + set (tr1 := pbt_update (pb_trials s) i fsc) in *.
      assert (map pt_id tr1 = map pt_id (pb_trials s)) as Eid by (now apply pbt_update_ids).
      assert (incl (live tr1) (live (pb_trials s))) as Hl1
        by (apply (pbt_update_live (pb_trials s) i fsc Hid2); intros t0 Ht; exact Ht).
      pose proof (quantiles_upper_live (pp_qf p) tr1) as Hup.
      destruct (quantiles (pp_qf p) tr1) as [lower upper]. simpl in Hup.
      assert (pbt_inv n {| pb_trials := tr1; pb_stack := pb_stack s |}) as Hinv1
        by (apply (pbt_inv_ids n s); [exact Hinv | exact Eid]).
      destruct (mem_Z i lower).
      * destruct upper as [|u upper].
        -- injection E as <- <- <-. split; [exact Hinv1|]. split; [exact Hl1|]. split; [discriminate|exact HN].
        -- injection E as <- <- <-. split; [|split; [|split]].
           ++ apply (pbt_inv_ids n s); [exact Hinv|]. rewrite pbt_update_ids; [exact Eid|exact Hid1].
           ++ eapply incl_tran; [|exact Hl1]. apply (pbt_update_live tr1 i fstop Hid1). reflexivity.
           ++ intros _. apply (pbt_update_stop_dead tr1 i fstop Hid1); [reflexivity|]. now rewrite Eid.
           ++ intros j Hj. injection Hj as <-. apply Hl1, Hup.
              match goal with |- In (if ?cnd then _ else _) _ => destruct cnd eqn:Em end; [|now left].
              apply (mem_Z_In choice (u :: upper)). exact Em.
      * injection E as <- <- <-. split; [exact Hinv1|]. split; [exact Hl1|]. split; [discriminate|exact HN].
Qed.

Lemma pbt_on_result_ids p s i r s' d cl : pbt_on_result p s i r = (s', d, cl) ->
  map pt_id (pb_trials s') = map pt_id (pb_trials s).
Proof.
  destruct r as [[cost score] choice]. unfold pbt_on_result.
  destruct (pbt_find (pb_trials s) i); [|intros E; injection E as <- _ _; reflexivity].
  destruct (Qleb (pp_max_t p) cost); [intros E; injection E as <- _ _; simpl; now apply pbt_update_ids|].
  destruct (Qltb _ _); [intros E; injection E as <- _ _; reflexivity|].
  destruct (quantiles _ _) as [lower upper].
  destruct (mem_Z i lower); [|intros E; injection E as <- _ _; simpl; now apply pbt_update_ids].
  destruct upper; intros E; injection E as <- _ _; simpl; [now apply pbt_update_ids|].
  rewrite pbt_update_ids; [now apply pbt_update_ids | reflexivity].
Qed.

Lemma pbt_H_res fx p : forall n s i r s' d cl, pbt_inv n s -> In i (pbt_active s) ->
  on_result (pbt_sched_gen fx p) s i r = (s', d, cl) ->
  pbt_inv n s' /\ incl (pbt_needed s') (pbt_needed s) /\ (d = STOP -> ~ In i (pbt_needed s')) /\
  (forall j, cl = Some j -> In j (pbt_needed s)) /\
  (forall x, In x (pbt_active s) -> x <> i \/ d = CONTINUE -> In x (pbt_active s')).
Proof.
  intros n s i r s' d cl Hinv _ E. destruct (pbt_H_res0 fx p n s i r s' d cl Hinv E) as [A [B [C Dd]]].
  repeat (split; [assumption|]). intros x Hx _. unfold pbt_active. simpl in E.
  now rewrite (pbt_on_result_ids p s i r s' d cl E).
Qed.

Lemma NoDup_snoc {A} (l : list A) a : NoDup l -> ~ In a l -> NoDup (l ++ [a]).
Proof.
  induction l as [|x l IH]; simpl; intros Hn Ha; [constructor; [tauto|constructor]|].
  inversion Hn; subst. constructor.
  - intros Hin. apply in_app_or in Hin as [Hin|[<-|[]]]; [contradiction|]. apply Ha. now left.
  - apply IH; [assumption|]. intros Hin. apply Ha. now right.
Qed.

Lemma live_app l1 l2 : live (l1 ++ l2) = live l1 ++ live l2.
Proof. unfold live. now rewrite filter_app, map_app. Qed.

Lemma pbt_new n s st :
  pbt_inv n s ->
  let tr := pb_trials s ++ [{| pt_id := n; pt_score := None; pt_last := 0; pt_stopped := false |}] in
  pbt_inv (n + 1)%Z {| pb_trials := tr; pb_stack := st |} /\
  incl (pbt_needed {| pb_trials := tr; pb_stack := st |}) (n :: pbt_needed s) /\
  incl (n :: pbt_active s) (pbt_active {| pb_trials := tr; pb_stack := st |}).
Proof.
  intros [H0 [H1 H2]] tr. split; [|split].
  3:{ unfold pbt_active. simpl. unfold tr. rewrite map_app. simpl. intros x [<-|Hx]; apply in_or_app; [right; now left | now left]. }
  - unfold pbt_inv. simpl. unfold tr. rewrite map_app. simpl. split; [lia|]. split.
    + intros i Hi. apply in_app_or in Hi as [Hi|[<-|[]]]; [specialize (H1 i Hi)|]; lia.
    + apply NoDup_snoc; [exact H2|]. intros Hn. specialize (H1 n Hn). lia.
  - unfold pbt_needed. simpl. fold (live tr). unfold tr. rewrite live_app. simpl.
    intros x Hx. apply in_app_or in Hx as [Hx|[<-|[]]]; [right; exact Hx | now left].
Qed.

Lemma pbt_H_sug p : forall n s g s' sg, pbt_inv n s -> suggest (pbt_sched p) s n g = (s', sg) ->
  match sg with
  | SNone => pbt_inv n s' /\ incl (pbt_needed s') (pbt_needed s) /\ incl (pbt_active s) (pbt_active s')
  | SNew => pbt_inv (n + 1)%Z s' /\ incl (pbt_needed s') (n :: pbt_needed s) /\ incl (n :: pbt_active s) (pbt_active s')
  | SFrom j => pbt_inv (n + 1)%Z s' /\ incl (pbt_needed s') (n :: pbt_needed s) /\ incl (n :: pbt_active s) (pbt_active s') /\
               (true = true -> In j (pbt_needed s))
  | SResume i => pbt_inv n s' /\ incl (pbt_needed s') (pbt_needed s) /\ incl (i :: pbt_active s) (pbt_active s') /\
                 In i (pbt_needed s)
  end.
Proof.
  intros n s g s' sg Hinv E. simpl in E. unfold pbt_suggest in E.
  destruct (pb_stack s) as [|j st].
  - injection E as <- <-. exact (pbt_new n s [] Hinv).
  - simpl in E. destruct (pbt_stopped s j) eqn:Es.
    + pose proof (quantiles_upper_live (pp_qf p) (pb_trials s)) as Hu.
      destruct (snd (quantiles (pp_qf p) (pb_trials s))) as [|u upper].
      * injection E as <- <-. exact (pbt_new n s st Hinv).
      * injection E as <- <-. destruct (pbt_new n s st Hinv) as [A [B Cc]]. split; [exact A|]. split; [exact B|].
        split; [exact Cc|]. intros _.
        apply Hu. match goal with |- In (if ?cnd then _ else _) _ => destruct cnd eqn:Em end; [|now left].
        apply (mem_Z_In g (u :: upper)). exact Em.
    + injection E as <- <-. destruct (pbt_new n s st Hinv) as [A [B Cc]]. split; [exact A|]. split; [exact B|].
      split; [exact Cc|]. intros _.
      unfold pbt_stopped in Es. destruct (pbt_find (pb_trials s) j) as [t|] eqn:Ef; [|discriminate].
      destruct (pbt_find_In _ _ _ Ef) as [Hin <-]. unfold pbt_needed. apply in_map.
      apply filter_In. split; [exact Hin|]. now rewrite Es.
Qed.

Lemma pbt_H_rem p : forall n s s' l, pbt_inv n s -> removables (pbt_sched p) s = (s', l) ->
  pbt_inv n s' /\ incl (pbt_needed s') (pbt_needed s) /\ incl (pbt_active s) (pbt_active s') /\
  forall i, In i l -> ~ In i (pbt_needed s') /\ (0 <= i < n)%Z.
Proof.
  intros n s s' l Hinv E. simpl in E. injection E as <- <-.
  split; [exact Hinv|]. split; [apply incl_refl|]. split; [apply incl_refl|]. intros i [].
Qed.

Theorem pbt_clone_source_alive : forall p c its pre j t post, speculative c = false ->
  run (pbt_sched p) c (init pbt0) its = pre ++ ECopy j t :: post ->
  forall w, ~ In (EDelete j w) pre.
Proof.
  intros p c its pre j t post Hs E.
  apply (copy_has_checkpoint (pbt_sched p) c Hs true pbt_needed pbt_active pbt_inv (pbt_H_res true p) (pbt_H_sug p) (pbt_H_rem p)
           (fun n s i H => conj H (conj (incl_refl _) (fun x Hx _ => Hx))) eq_refl pbt0 its pre j t post); [|exact E].
  split; [lia|]. split; [intros x []|constructor].
Qed.

(* ---- synchronous Hyperband: what is reported as removable is not promoted ---------- *)
Lemma sync_removable_not_promoted mx b pos t m b' rem :
  bracket_on_result mx b pos t m = (b', Some rem) ->
  forall x, In x rem -> ~ In (Some x) (map fst (b_cur b')).
Proof.
  unfold bracket_on_result.
  destruct (Nat.leb _ _ && all_occupied _); [|discriminate].
  destruct (b_later b) as [|[sz lv] later]; [discriminate|].
  intros E. injection E as <- <-. simpl. intros x Hx Hin.
  unfold remaining_list in Hx. apply filter_In in Hx as [_ Hx]. apply negb_true_iff in Hx.
  rewrite map_map in Hin. simpl in Hin. apply in_map_iff in Hin as [y [Hy Hin]]. injection Hy as ->.
  apply mem_Z_In in Hin. congruence.
Qed.

(* ==== PBT: the clone source can be deleted before the clone starts ================ *)
Open Scope Q_scope.
Definition wcfg := {| delete_checkpoints := true; remove_callback := false; speculative := false |}.
Definition wprm := {| pp_max_t := 3; pp_interval := 1; pp_qf := 1 # 2 |}.
(* two workers; one poll delivers 0@1 1@1 0@2 1@2 1@3 (score of trial 0 below trial 1) *)
Definition wits : list (iter_in (Q * Q * Z) Z) :=
  [ {| reports := []; completed := []; failed := []; hold := false; sugg := [0%Z; 0%Z]; spec_choice := [] |};
    {| reports := [(0%Z, (1, 1, 0%Z)); (1%Z, (1, 2, 0%Z)); (0%Z, (2, 1, 1%Z)); (1%Z, (2, 2, 0%Z)); (1%Z, (3, 2, 0%Z))];
       completed := []; failed := []; hold := false; sugg := [0%Z; 0%Z]; spec_choice := [] |} ].
Definition wpre : list event :=
  [EStart 0 None; ESchedule 0; EStart 1 None; ESchedule 1; EDecision 0 CONTINUE; EDecision 1 CONTINUE; EDecision 0 STOP; EClone 0 1;
   EStop 0; EDelete 0 WStop; EDecision 1 CONTINUE; EDecision 1 STOP; EStop 1; EDelete 1 WStop;
   EStart 2 (Some 1%Z)].
Definition wpost : list event :=
  [ESchedule 2; EStart 3 None; ESchedule 3; EStopAll; EStop 2; EDelete 2 WStopAll; EStop 3; EDelete 3 WStopAll;
   EDelete 0 WStopAll; EDelete 1 WStopAll; EDelete 2 WStopAll; EDelete 3 WStopAll].

Lemma pbt_clone_source_deleted_witness :
  run (pbt_sched_unfixed wprm) wcfg (init pbt0) wits = wpre ++ ECopy 1 2 :: wpost /\ deleted_in wpre 1 = true.
Proof. split; vm_compute; reflexivity. Qed.
Close Scope Q_scope.

(* ---- partial version: the source is alive unless the scheduler stopped it first ---- *)
Lemma deleted_in_split pre j : deleted_in pre j = true ->
  exists a w b, pre = a ++ EDelete j w :: b.
Proof.
  unfold deleted_in. intros H. apply existsb_exists in H as [e [Hin He]].
  destruct e; try discriminate. simpl in He. apply Z.eqb_eq in He. subst i.
  apply in_split in Hin as [a [b ->]]. now exists a, w, b.
Qed.

Theorem clone_source_alive_partial {S R G} (sch : scheduler S R G) (c : cfg) :
  remove_callback c = false -> speculative c = false ->
  forall st its pre j t post,
    run sch c st its = pre ++ ECopy j t :: post ->
    ~ In EStopAll pre -> ~ In (EDecision j STOP) pre ->
    deleted_in pre j = false.
Proof.
  intros Hr Hs st its pre j t post E Hend Hstop.
  destruct (deleted_in pre j) eqn:Hd; [|reflexivity]. exfalso.
  destruct (deleted_in_split _ _ Hd) as [a [w [b ->]]].
  rewrite <- app_assoc in E. simpl in E.
  pose proof (delete_only_when_allowed sch c st its a j w _ E) as HA.
  destruct w; simpl in HA.
  - destruct HA as [_ [p [cl ->]]]. apply Hstop. apply in_or_app. left. apply in_or_app. right. now left.
  - destruct HA as [HA _]. congruence.
  - congruence.
  - destruct HA as [_ HA]. apply Hend. apply in_or_app. now left.
Qed.

(* ==== PBT before the fix: exactly when a clone is started from a deleted checkpoint ==== *)
Lemma pbt_H_sug_unfixed p : forall n s g s' sg, pbt_inv n s -> suggest (pbt_sched_unfixed p) s n g = (s', sg) ->
  match sg with
  | SNone => pbt_inv n s' /\ incl (pbt_needed s') (pbt_needed s) /\ incl (pbt_active s) (pbt_active s')
  | SNew => pbt_inv (n + 1)%Z s' /\ incl (pbt_needed s') (n :: pbt_needed s) /\ incl (n :: pbt_active s) (pbt_active s')
  | SFrom j => pbt_inv (n + 1)%Z s' /\ incl (pbt_needed s') (n :: pbt_needed s) /\ incl (n :: pbt_active s) (pbt_active s') /\
               (false = true -> In j (pbt_needed s))
  | SResume i => pbt_inv n s' /\ incl (pbt_needed s') (pbt_needed s) /\ incl (i :: pbt_active s) (pbt_active s') /\
                 In i (pbt_needed s)
  end.
Proof.
  intros n s g s' sg Hinv E. simpl in E. unfold pbt_suggest in E.
  destruct (pb_stack s) as [|j st]; simpl in E; injection E as <- <-.
  - exact (pbt_new n s [] Hinv).
  - destruct (pbt_new n s st Hinv) as [A [B Cc]]. split; [exact A|]. split; [exact B|]. split; [exact Cc|discriminate].
Qed.

(* (a) when the clone decision is taken, the chosen source's checkpoint has never been deleted *)
Theorem pbt_unfixed_source_alive_at_decision : forall p c its pre i j post, speculative c = false ->
  run (pbt_sched_unfixed p) c (init pbt0) its = pre ++ EClone i j :: post ->
  forall w, ~ In (EDelete j w) pre.
Proof.
  intros p c its pre i j post Hs E.
  apply (clone_source_alive_at_decision (pbt_sched_unfixed p) c Hs false pbt_needed pbt_active pbt_inv (pbt_H_res false p)
           (pbt_H_sug_unfixed p) (pbt_H_rem p) (fun n s i H => conj H (conj (incl_refl _) (fun x Hx _ => Hx)))
           pbt0 its pre i j post); [|exact E].
  split; [lia|]. split; [intros x []|constructor].
Qed.

(* (b) stack discipline: a clone is only started from a trial pushed by an earlier clone decision *)
Definition cstep (C : list Z) (e : event) : list Z := match e with EClone _ j => j :: C | _ => C end.
Definition cset (C : list Z) (l : list event) : list Z := fold_left cstep l C.
Fixpoint cp_from (C : list Z) (l : list event) : Prop :=
  match l with
  | [] => True
  | e :: r => match e with ECopy j _ => In j C | _ => True end /\ cp_from (cstep C e) r
  end.

Lemma cset_app C a b : cset C (a ++ b) = cset (cset C a) b.
Proof. unfold cset. apply fold_left_app. Qed.

Lemma cp_from_app a : forall C b, cp_from C (a ++ b) <-> cp_from C a /\ cp_from (cset C a) b.
Proof. induction a as [|e a IH]; intros C b; simpl; [tauto|]. rewrite IH. unfold cset. simpl. tauto. Qed.

Lemma nores_cp l : forall C, nores l -> cp_from C l /\ cset C l = C.
Proof.
  induction l as [|e l IH]; intros C H; simpl; [auto|].
  assert (is_res e = false) as He by (apply H; now left).
  assert (nores l) as Hl by (intros x Hx; apply H; now right).
  destruct (IH (cstep C e) Hl) as [A B]. unfold cset in *. simpl.
  assert (cstep C e = C) as Ec by (destruct e; try reflexivity; discriminate). rewrite Ec in *.
  split; [|exact B]. split; [destruct e; try exact I; discriminate | exact A].
Qed.

Lemma cp_from_spec pre : forall C l j t post, cp_from C l -> l = pre ++ ECopy j t :: post ->
  In j C \/ exists i, In (EClone i j) pre.
Proof.
  induction pre as [|e pre IH]; intros C l j t post H ->; simpl in H.
  - left. exact (proj1 H).
  - destruct H as [_ H]. destruct (IH _ _ _ _ _ H eq_refl) as [H1|[i H1]].
    + destruct e; simpl in H1; auto. destruct H1 as [<-|H1]; [right; eexists; now left | now left].
    + right. exists i. now right.
Qed.

Lemma pbt_on_result_stack p s i r s' d cl : pbt_on_result p s i r = (s', d, cl) ->
  pb_stack s' = match cl with Some j => j :: pb_stack s | None => pb_stack s end.
Proof.
  destruct r as [[cost score] choice]. unfold pbt_on_result.
  destruct (pbt_find (pb_trials s) i); [|intros E; injection E as <- _ <-; reflexivity].
  destruct (Qleb (pp_max_t p) cost); [intros E; injection E as <- _ <-; reflexivity|].
  destruct (Qltb _ _); [intros E; injection E as <- _ <-; reflexivity|].
  destruct (quantiles _ _) as [lower upper].
  destruct (mem_Z i lower); [|intros E; injection E as <- _ <-; reflexivity].
  destruct upper; intros E; injection E as <- _ <-; reflexivity.
Qed.

Lemma delete_list_nores w : forall l b, nores (snd (delete_list b l w)).
Proof.
  induction l as [|i l IH]; intros b; simpl; [apply nores_nil|].
  specialize (IH {| ids := ids b; stat := stat b; deleted := i :: deleted b |}).
  destruct (delete_list _ l w) as [b2 e2]. simpl in *. apply nores_cons; [reflexivity|exact IH].
Qed.

Lemma b_stop_nores c b i w : nores (snd (b_stop c b i w)).
Proof.
  rewrite b_stop_events. destruct (delete_checkpoints c); repeat (apply nores_cons; [reflexivity|]); apply nores_nil.
Qed.

Section PbtStack.
  Variable p : pbt_prm.
  Variable c : cfg.
  Let sch := pbt_sched_unfixed p.
  Local Arguments b_start : simpl never.
  Local Arguments b_resume : simpl never.
  Local Arguments new_trial_id : simpl never.

  Definition SInv (C : list Z) (s : pbt) : Prop := incl (pb_stack s) C.

  Lemma pbt_process_results_cp compl : forall rs s b done C s' b' done' ev, SInv C s ->
    process_results sch c s b done compl rs = (s', b', done', ev) ->
    cp_from C ev /\ SInv (cset C ev) s'.
  Proof.
    induction rs as [|[i r] rs IH]; intros s b done C s' b' done' ev HI E; cbn [process_results] in E.
    - injection E as <- <- <- <-. simpl. auto.
    - destruct (mem_Z i done); [eapply IH; eauto|].
      destruct (on_result sch s i r) as [[s1 d] cl] eqn:Eo.
      pose proof (pbt_on_result_stack p s i r s1 d cl Eo) as Hst.
      assert (SInv (cset C (clone_ev i cl)) s1) as HI1.
      { unfold SInv. rewrite Hst. destruct cl as [j|]; simpl; [|exact HI].
        intros x [<-|Hx]; [now left | right; now apply HI]. }
      assert (forall tl b1 dn1 evs, nores tl ->
                process_results sch c s1 b1 dn1 compl rs = (s', b', done', evs) ->
                cp_from C (EDecision i d :: clone_ev i cl ++ tl ++ evs) /\
                SInv (cset C (EDecision i d :: clone_ev i cl ++ tl ++ evs)) s') as K.
      { intros tl b1 dn1 evs Htl E1.
        destruct (nores_cp tl (cset C (clone_ev i cl)) Htl) as [A B].
        assert (cset C (EDecision i d :: clone_ev i cl ++ tl) = cset C (clone_ev i cl)) as EC.
        { change (EDecision i d :: clone_ev i cl ++ tl) with ([EDecision i d] ++ clone_ev i cl ++ tl).
          rewrite !cset_app. simpl. exact B. }
        replace (EDecision i d :: clone_ev i cl ++ tl ++ evs) with ((EDecision i d :: clone_ev i cl ++ tl) ++ evs)
          by (simpl; now rewrite <- app_assoc).
        rewrite cp_from_app, cset_app, EC.
        destruct (IH _ _ _ _ _ _ _ _ HI1 E1) as [A1 B1]. split; [|exact B1]. split; [|exact A1].
        simpl. split; [exact I|]. rewrite cp_from_app. split; [|exact A].
        destruct cl; simpl; auto. }
      destruct d; unfold b_pause in E; cbn beta iota zeta in E.
      + destruct (process_results sch c s1 b done compl rs) as [[[s2 b2] d2] evs] eqn:E1.
        injection E as <- <- <- <-. exact (K [] b done evs nores_nil E1).
      + destruct (process_results sch c s1 (set_status b i Paused) (i :: done) compl rs) as [[[s2 b2] d2] evs] eqn:E1.
        injection E as <- <- <- <-.
        exact (K [EPause i] _ _ evs (nores_cons (EPause i) [] eq_refl nores_nil) E1).
      + destruct (mem_Z i compl); cbn beta iota zeta in E.
        * destruct (process_results sch c s1 b (i :: done) compl rs) as [[[s2 b2] d2] evs] eqn:E1.
          injection E as <- <- <- <-. exact (K [] b (i :: done) evs nores_nil E1).
        * pose proof (b_stop_nores c b i WStop) as Hn. destruct (b_stop c b i WStop) as [bs es]. cbn beta iota zeta in E.
          destruct (process_results sch c s1 bs (i :: done) compl rs) as [[[s2 b2] d2] evs] eqn:E1.
          injection E as <- <- <- <-. exact (K es bs (i :: done) evs Hn E1).
  Qed.

  Lemma pbt_schedule_cp : forall gs s b run C s' b' run' ex er ev, SInv C s ->
    schedule sch s b run gs = (s', b', run', ex, er, ev) ->
    cp_from C ev /\ cset C ev = C /\ SInv C s'.
  Proof.
    induction gs as [|g gs IH]; intros s b run C s' b' run' ex er ev HI E.
    - simpl in E. injection E as <- <- <- <- <- <-. simpl. auto.
    - cbn [schedule] in E.
      destruct (suggest sch s (new_trial_id b) g) as [s1 sg] eqn:Es.
      simpl in Es. unfold pbt_suggest in Es.
      destruct (pb_stack s) as [|j st] eqn:Est; simpl in Es; injection Es as <- <-.
      + pose proof (b_start_events b None) as He. destruct (b_start b None) as [b1 e].
        destruct (schedule sch _ b1 (new_trial_id b :: run) gs) as [[[[[s2 b2] r2] ex2] er2] evs] eqn:E1.
        injection E as <- <- <- <- <- <-. simpl in He. subst e.
        assert (SInv C {| pb_trials := pb_trials s ++ [{| pt_id := new_trial_id b; pt_score := None; pt_last := 0; pt_stopped := false |}];
                          pb_stack := [] |}) as HI1 by (intros x []).
        destruct (IH _ _ _ _ _ _ _ _ _ _ HI1 E1) as [A [B Cc]]. simpl. repeat split; auto.
      + pose proof (b_start_events b (Some j)) as He. destruct (b_start b (Some j)) as [b1 e].
        destruct (schedule sch _ b1 (new_trial_id b :: run) gs) as [[[[[s2 b2] r2] ex2] er2] evs] eqn:E1.
        injection E as <- <- <- <- <- <-. simpl in He. subst e.
        assert (SInv C {| pb_trials := pb_trials s ++ [{| pt_id := new_trial_id b; pt_score := None; pt_last := 0; pt_stopped := false |}];
                          pb_stack := st |}) as HI1.
        { intros x Hx. apply HI. rewrite Est. now right. }
        destruct (IH _ _ _ _ _ _ _ _ _ _ HI1 E1) as [A [B Cc]]. simpl. repeat split; auto.
        apply HI. rewrite Est. now left.
  Qed.

  Lemma pbt_loop_end_cp s b choice C : let r := loop_end sch c s b choice in
    fst (fst r) = s /\ cp_from C (snd r) /\ cset C (snd r) = C.
  Proof.
    unfold loop_end. simpl.
    assert (forall b l w, cp_from C (snd (delete_list b l w)) /\ cset C (snd (delete_list b l w)) = C) as Hd
      by (intros; apply nores_cp, delete_list_nores).
    destruct (remove_callback c); simpl.
    - destruct (speculative c); simpl; [|auto].
      specialize (Hd b (filter (fun _ => false) choice) WSpec).
      destruct (delete_list b _ WSpec) as [b2 e2]. simpl in *. tauto.
    - destruct (speculative c); simpl; [|auto].
      specialize (Hd b (filter (fun _ => false) choice) WSpec).
      destruct (delete_list b _ WSpec) as [b2 e2]. simpl in *. tauto.
  Qed.

  Lemma pbt_on_error_fold l : forall s : pbt, fold_left (on_error sch) l s = s.
  Proof. induction l as [|i l IH]; intros s; simpl; [reflexivity|apply IH]. Qed.

  Lemma pbt_iteration_cp C st it st' ev er : SInv C (sst st) -> iteration sch c st it = (st', ev, er) ->
    cp_from C ev /\ SInv (cset C ev) (sst st').
  Proof.
    intros HI E. unfold iteration in E.
    set (rs := filter _ (reports it)) in *. set (compl := filter _ (completed it)) in *. set (fl := filter _ (failed it)) in *.
    destruct (process_results sch c (sst st) _ [] compl rs) as [[[s1 b1] done] ev1] eqn:E1.
    destruct (pbt_process_results_cp _ _ _ _ _ _ _ _ _ _ HI E1) as [A1 B1].
    rewrite pbt_on_error_fold in E.
    destruct (exhausted st || hold it).
    - match type of E with context [if nilb ?r then _ else _] => destruct (nilb r) end.
      { injection E as <- <- <-. simpl. split; [exact A1|exact B1]. }
      destruct (pbt_loop_end_cp s1 b1 (spec_choice it) (cset C ev1)) as [L1 [L2 L3]].
      destruct (loop_end sch c s1 b1 (spec_choice it)) as [[s3 b3] ev3]. simpl in *. subst s3.
      injection E as <- <- <-. simpl. rewrite cp_from_app, cset_app, L3. tauto.
    - destruct (schedule sch s1 b1 _ (sugg it)) as [[[[[s2 b2] run2] ex] er2] ev2] eqn:E2.
      destruct (pbt_schedule_cp _ _ _ _ _ _ _ _ _ _ _ B1 E2) as [A2 [B2 C2]].
      destruct er2.
      + injection E as <- <- <-. simpl. rewrite cp_from_app, cset_app, B2. tauto.
      + destruct (pbt_loop_end_cp s2 b2 (spec_choice it) (cset C ev1)) as [L1 [L2 L3]].
        destruct (loop_end sch c s2 b2 (spec_choice it)) as [[s3 b3] ev3]. simpl in *. subst s3.
        injection E as <- <- <-. simpl. rewrite !cp_from_app, !cset_app, B2, L3. tauto.
  Qed.

  Lemma pbt_run_cp : forall its C st, SInv C (sst st) -> cp_from C (run sch c st its).
  Proof.
    induction its as [|it its IH]; intros C st HI; cbn [run].
    - apply nores_cp, finish_nores.
    - destruct (iteration sch c st it) as [[st' ev] er] eqn:E.
      destruct (pbt_iteration_cp _ _ _ _ _ _ HI E) as [A B].
      rewrite cp_from_app. split; [exact A|].
      destruct er; [apply nores_cp, finish_nores | now apply IH].
  Qed.

  Theorem pbt_copy_after_clone_decision : forall its pre j t post,
    run sch c (init pbt0) its = pre ++ ECopy j t :: post -> exists i, In (EClone i j) pre.
  Proof.
    intros its pre j t post E.
    assert (SInv [] (sst (init pbt0))) as HI by (intros x []).
    destruct (cp_from_spec pre [] _ j t post (pbt_run_cp its [] _ HI) E) as [[]|H]. exact H.
  Qed.
End PbtStack.

Lemma deleted_in_false pre j : (forall w, ~ In (EDelete j w) pre) -> deleted_in pre j = false.
Proof.
  intros H. destruct (deleted_in pre j) eqn:E; [|reflexivity].
  destruct (deleted_in_split _ _ E) as [a [w [b ->]]]. exfalso. apply (H w). apply in_or_app. right. now left.
Qed.

(* localisation: a clone is started from a deleted checkpoint ONLY IF stop_trial was called for the
   source (which only happens right after the scheduler's STOP for it) between the clone decision
   that pushed it and the clone's start; at the clone decision its checkpoint had never been deleted *)
Theorem pbt_unfixed_localised : forall p c its pre j t post,
  remove_callback c = false -> speculative c = false ->
  run (pbt_sched_unfixed p) c (init pbt0) its = pre ++ ECopy j t :: post ->
  deleted_in pre j = true ->
  exists p1 i p2, pre = p1 ++ EClone i j :: p2 /\ deleted_in p1 j = false /\ In (EStop j) p2.
Proof.
  intros p c its pre j t post Hr Hs E Hd.
  destruct (pbt_copy_after_clone_decision p c its pre j t post E) as [i Hi].
  apply in_split in Hi as [p1 [p2 ->]]. exists p1, i, p2. split; [reflexivity|].
  assert (deleted_in p1 j = false) as Hp1.
  { apply deleted_in_false. rewrite <- app_assoc in E. simpl in E.
    exact (pbt_unfixed_source_alive_at_decision p c its p1 i j _ Hs E). }
  split; [exact Hp1|].
  (* the deletion lies in p2 *)
  unfold deleted_in in Hd. rewrite existsb_app in Hd. fold (deleted_in p1 j) in Hd. rewrite Hp1 in Hd. simpl in Hd.
  fold (deleted_in p2 j) in Hd. destruct (deleted_in_split _ _ Hd) as [a [w [b ->]]].
  assert (run (pbt_sched_unfixed p) c (init pbt0) its = (p1 ++ EClone i j :: a) ++ EDelete j w :: (b ++ ECopy j t :: post)) as E'.
  { rewrite E. rewrite <- !app_assoc. simpl. rewrite <- !app_assoc. reflexivity. }
  pose proof (delete_only_when_allowed _ c _ _ _ _ _ _ E') as HA.
  destruct w; simpl in HA.
  - destruct HA as [_ [q [cl Hq]]].
    destruct (exists_last (l := EClone i j :: a)) as [a' [x Ha]]; [discriminate|].
    assert (x = EStop j) as ->.
    { rewrite Ha in Hq. rewrite app_assoc in Hq.
      change (q ++ EDecision j STOP :: clone_ev j cl ++ [EStop j]) with (q ++ (EDecision j STOP :: clone_ev j cl) ++ [EStop j]) in Hq.
      rewrite app_assoc in Hq. apply app_inj_tail in Hq as [_ Hq]. exact Hq. }
    destruct a' as [|y a']; simpl in Ha; [discriminate|]. injection Ha as _ Ha. subst a.
    apply in_or_app. left. apply in_or_app. right. now left.
  - destruct HA as [HA _]. congruence.
  - congruence.
  - destruct HA as [_ HA]. exfalso. apply in_split in HA as [x [y Hxy]].
    rewrite Hxy in E'. rewrite <- app_assoc in E'. simpl in E'.
    destruct (after_stop_all_only_final _ c _ _ _ _ E') as [Haf _].
    apply Forall_app in Haf as [_ Haf]. inversion Haf as [|? ? _ Haf']; subst.
    apply Forall_app in Haf' as [_ Haf']. inversion Haf'; subst. discriminate.
Qed.

(* ==== start_trial copies the source checkpoint BEFORE the job is scheduled ================== *)
Definition is_sched (e : event) : bool := match e with ESchedule _ => true | _ => false end.
Definition NS (l : list event) : Prop := Forall (fun e => is_sched e = false) l.

Definition sched_ok (pre : list event) (t : Z) : Prop :=
  (exists p, pre = p ++ [EStart t None]) \/
  (exists p j, pre = p ++ [EStart t (Some j); ECopy j t]) \/
  (exists p, pre = p ++ [EResume t]).

Fixpoint sf_from (pre l : list event) : Prop :=
  match l with
  | [] => True
  | e :: r => match e with ESchedule t => sched_ok pre t | _ => True end /\ sf_from (pre ++ [e]) r
  end.

Lemma sf_from_app l1 : forall p l2, sf_from p (l1 ++ l2) <-> sf_from p l1 /\ sf_from (p ++ l1) l2.
Proof.
  induction l1 as [|e l1 IH]; intros p l2; simpl.
  - rewrite app_nil_r. tauto.
  - rewrite IH. rewrite <- app_assoc. simpl. tauto.
Qed.

Lemma sf_from_NS l : forall p, NS l -> sf_from p l.
Proof.
  induction l as [|e l IH]; intros p H; simpl; [exact I|]. inversion H; subst. split; [|now apply IH].
  destruct e; try exact I. discriminate.
Qed.

Lemma sf_from_spec l : forall p, sf_from p l ->
  forall pre t post, l = pre ++ ESchedule t :: post -> sched_ok (p ++ pre) t.
Proof.
  induction l as [|e l IH]; intros p H pre t post E.
  - destruct pre; discriminate.
  - destruct pre as [|e' pre]; simpl in E; injection E as -> E.
    + rewrite app_nil_r. exact (proj1 H).
    + destruct H as [_ H]. specialize (IH _ H _ _ _ E). now rewrite <- app_assoc in IH.
Qed.

Section SchedOrder.
  Context {S R G : Type}.
  Variable sch : scheduler S R G.
  Variable c : cfg.
  Local Arguments b_start : simpl never.
  Local Arguments b_resume : simpl never.
  Local Arguments new_trial_id : simpl never.

  Lemma NS_clone i cl : NS (clone_ev i cl).
  Proof. destruct cl; repeat constructor. Qed.

  Lemma process_results_NS compl : forall rs s b done, NS (snd (process_results sch c s b done compl rs)).
  Proof.
    induction rs as [|[i r] rs IH]; intros s b done; simpl; [constructor|].
    destruct (mem_Z i done); [apply IH|].
    destruct (on_result sch s i r) as [[s1 d] cl].
    destruct d.
    - specialize (IH s1 b done). destruct (process_results sch c s1 b done compl rs) as [[[s2 b2] d2] evs].
      simpl in *. constructor; [reflexivity|]. apply Forall_app. split; [apply NS_clone|exact IH].
    - specialize (IH s1 (set_status b i Paused) (i :: done)).
      destruct (process_results sch c s1 (set_status b i Paused) (i :: done) compl rs) as [[[s2 b2] d2] evs].
      simpl in *. constructor; [reflexivity|]. apply Forall_app. split; [apply NS_clone|].
      constructor; [reflexivity|exact IH].
    - destruct (mem_Z i compl).
      + specialize (IH s1 b (i :: done)). destruct (process_results sch c s1 b (i :: done) compl rs) as [[[s2 b2] d2] evs].
        simpl in *. constructor; [reflexivity|]. apply Forall_app. split; [apply NS_clone|exact IH].
      + pose proof (b_stop_events c b i WStop) as Hs. destruct (b_stop c b i WStop) as [b' e].
        specialize (IH s1 b' (i :: done)). destruct (process_results sch c s1 b' (i :: done) compl rs) as [[[s2 b2] d2] evs].
        simpl in *. constructor; [reflexivity|]. apply Forall_app. split; [apply NS_clone|].
        apply Forall_app. split; [|exact IH]. rewrite Hs. destruct (delete_checkpoints c); repeat constructor.
  Qed.

  Lemma schedule_sf : forall gs s b run p, sf_from p (snd (schedule sch s b run gs)).
  Proof.
    induction gs as [|g gs IH]; intros s b run p; [exact I|]. cbn [schedule].
    destruct (suggest sch s (new_trial_id b) g) as [s1 sg]. destruct sg as [|j|i|].
    - pose proof (b_start_events b None) as He. destruct (b_start b None) as [b1 e].
      specialize (IH s1 b1 (new_trial_id b :: run)).
      destruct (schedule sch s1 b1 (new_trial_id b :: run) gs) as [[[[[s2 b2] r2] ex] er] evs]. simpl in *.
      subst e. simpl. split; [exact I|]. split; [left; now exists p|]. apply IH.
    - pose proof (b_start_events b (Some j)) as He. destruct (b_start b (Some j)) as [b1 e].
      specialize (IH s1 b1 (new_trial_id b :: run)).
      destruct (schedule sch s1 b1 (new_trial_id b :: run) gs) as [[[[[s2 b2] r2] ex] er] evs]. simpl in *.
      subst e. simpl. split; [exact I|]. split; [exact I|]. split; [|apply IH].
      right; left. exists p, j. now rewrite <- app_assoc.
    - destruct (b_resume b i) as [[b1 e]|] eqn:Eb.
      + destruct (b_resume_spec _ _ _ _ Eb) as [-> _].
        specialize (IH s1 b1 (i :: run)).
        destruct (schedule sch s1 b1 (i :: run) gs) as [[[[[s2 b2] r2] ex] er] evs]. simpl in *.
        split; [exact I|]. split; [right; right; now exists p|]. apply IH.
      + simpl. tauto.
    - simpl. exact I.
  Qed.

  Lemma loop_end_NS s b choice : NS (snd (loop_end sch c s b choice)).
  Proof.
    unfold loop_end.
    assert (forall b l, NS (snd (delete_list b l WSpec))) as Hd
      by (intros; apply delete_list_Forall; reflexivity).
    assert (forall l b, NS (snd (removable_events b l))) as Hr.
    { induction l as [|i l IH]; intros b0; simpl; [constructor|].
      specialize (IH {| ids := ids b0; stat := stat b0; deleted := i :: deleted b0 |}).
      destruct (removable_events _ l) as [b2 e2]. simpl in *. repeat (constructor; [reflexivity|]). exact IH. }
    destruct (remove_callback c).
    - destruct (removables sch s) as [s' l]. pose proof (Hr l b) as H1.
      destruct (removable_events b l) as [b' e]. destruct (speculative c); [|exact H1].
      specialize (Hd b' (filter (spec_ok sch s') choice)).
      destruct (delete_list b' _ WSpec) as [b2 e2]. simpl in *. apply Forall_app. split; assumption.
    - destruct (speculative c); [|constructor].
      specialize (Hd b (filter (spec_ok sch s) choice)). destruct (delete_list b _ WSpec) as [b2 e2]. exact Hd.
  Qed.

  Lemma finish_NS (st : tstate S) : NS (finish c st).
  Proof.
    unfold finish. constructor; [reflexivity|].
    eapply Forall_impl; [|apply stop_all_AF]. intros e He. destruct e; try discriminate; reflexivity.
  Qed.

  Lemma iteration_sf st it p : sf_from p (snd (fst (iteration sch c st it))).
  Proof.
    unfold iteration.
    set (rs := filter _ (reports it)). set (compl := filter _ (completed it)). set (fl := filter _ (failed it)).
    pose proof (process_results_NS compl rs (sst st) (mark_failed (mark_completed (be st) compl) fl) []) as H1.
    destruct (process_results sch c (sst st) _ [] compl rs) as [[[s1 b1] done] ev1]. simpl in H1.
    set (s1' := fold_left (on_error sch) _ s1).
    destruct (exhausted st || hold it).
    - match goal with |- context [if nilb ?r then _ else _] => destruct (nilb r) end; [simpl; apply sf_from_NS; exact H1|].
      pose proof (loop_end_NS s1' b1 (spec_choice it)) as H3.
      destruct (loop_end sch c s1' b1 (spec_choice it)) as [[s3 b3] ev3]. simpl in *.
      apply sf_from_NS. apply Forall_app. split; assumption.
    - match goal with |- context [schedule sch s1' b1 ?r (sugg it)] =>
        pose proof (schedule_sf (sugg it) s1' b1 r (p ++ ev1)) as H2;
        destruct (schedule sch s1' b1 r (sugg it)) as [[[[[s2 b2] run2] ex] er] ev2] end.
      simpl in H2. destruct er; simpl.
      + apply sf_from_app. split; [now apply sf_from_NS|exact H2].
      + pose proof (loop_end_NS s2 b2 (spec_choice it)) as H3.
        destruct (loop_end sch c s2 b2 (spec_choice it)) as [[s3 b3] ev3]. simpl in *.
        apply sf_from_app. split; [now apply sf_from_NS|]. apply sf_from_app. split; [exact H2|now apply sf_from_NS].
  Qed.

  Lemma run_sf : forall its st p, sf_from p (run sch c st its).
  Proof.
    induction its as [|it its IH]; intros st p; cbn [run]; [apply sf_from_NS, finish_NS|].
    pose proof (iteration_sf st it p) as H1.
    destruct (iteration sch c st it) as [[st' ev] er]. simpl in H1.
    apply sf_from_app. split; [exact H1|].
    destruct er; [apply sf_from_NS, finish_NS | apply IH].
  Qed.

  Theorem copy_before_schedule : forall st its pre t post,
    run sch c st its = pre ++ ESchedule t :: post -> sched_ok pre t.
  Proof. intros st its pre t post E. exact (sf_from_spec _ [] (run_sf its st []) pre t post E). Qed.
End SchedOrder.

(* ==== the checkpoint directories: copy is a copy, delete removes exactly one ================= *)
Lemma fs_get_del f i k : fs_get (fs_del f i) k = if Z.eqb k i then None else fs_get f k.
Proof.
  induction f as [|[j c] f IH]; simpl; [now destruct (Z.eqb k i)|].
  destruct (Z.eqb j i) eqn:Eji; simpl.
  - rewrite IH. destruct (Z.eqb k i) eqn:Eki; [reflexivity|].
    destruct (Z.eqb j k) eqn:Ejk; [|reflexivity]. apply Z.eqb_eq in Eji, Ejk. subst. rewrite Z.eqb_refl in Eki. discriminate.
  - destruct (Z.eqb j k) eqn:Ejk.
    + apply Z.eqb_eq in Ejk. subst k. now rewrite Eji.
    + exact IH.
Qed.

Lemma fs_get_set f i c k : fs_get (fs_set f i c) k = if Z.eqb k i then Some c else fs_get f k.
Proof.
  unfold fs_set. simpl. rewrite fs_get_del. rewrite (Z.eqb_sym i k). now destruct (Z.eqb k i).
Qed.

Theorem fs_copy_is_copy f src tgt f' : fs_step f (FsCopy src tgt) = Some f' ->
  exists c, fs_get f src = Some c /\ fs_get f tgt = None /\
            fs_get f' src = Some c /\ fs_get f' tgt = Some c /\
            forall k, k <> tgt -> fs_get f' k = fs_get f k.
Proof.
  simpl. destruct (fs_get f src) as [c|] eqn:Es; [|discriminate].
  destruct (fs_get f tgt) eqn:Et; [discriminate|]. intros H. injection H as <-.
  exists c. split; [reflexivity|]. split; [reflexivity|].
  assert (forall k, k <> tgt -> fs_get (fs_set f tgt c) k = fs_get f k) as K.
  { intros k Hk. rewrite fs_get_set. apply Z.eqb_neq in Hk. now rewrite Hk. }
  split; [|split; [|exact K]].
  - rewrite K; [exact Es|]. intros ->. congruence.
  - rewrite fs_get_set. now rewrite Z.eqb_refl.
Qed.

Theorem fs_delete_exact f i f' : fs_step f (FsDelete i) = Some f' ->
  fs_get f' i = None /\ forall k, k <> i -> fs_get f' k = fs_get f k.
Proof.
  simpl. intros H. injection H as <-. split.
  - rewrite fs_get_del. now rewrite Z.eqb_refl.
  - intros k Hk. rewrite fs_get_del. apply Z.eqb_neq in Hk. now rewrite Hk.
Qed.

(* a trial that has reported and whose checkpoint was never deleted has its checkpoint on disk *)
Lemma has_ckpt_snoc pre e j : has_ckpt (pre ++ [e]) j = ck_step (has_ckpt pre) e j.
Proof. unfold has_ckpt. rewrite fold_left_app. reflexivity. Qed.

Theorem reported_not_deleted_on_disk : forall pre j d,
  In (EDecision j d) pre -> (forall w, ~ In (EDelete j w) pre) ->
  (forall s, ~ In (ECopy s j) pre) -> has_ckpt pre j = true.
Proof.
  induction pre as [|e pre IH] using rev_ind; intros j d Hin Hnd Hnc; [destruct Hin|].
  rewrite has_ckpt_snoc.
  assert (forall w, ~ In (EDelete j w) pre) as Hnd' by (intros w H; apply (Hnd w); apply in_or_app; now left).
  assert (forall s, ~ In (ECopy s j) pre) as Hnc' by (intros s H; apply (Hnc s); apply in_or_app; now left).
  apply in_app_or in Hin as [Hin|[->|[]]].
  - specialize (IH j d Hin Hnd' Hnc'). destruct e; simpl; try exact IH.
    + destruct (Z.eqb j i); [reflexivity|exact IH].
    + destruct (Z.eqb j i) eqn:E; [|exact IH]. apply Z.eqb_eq in E. subst i.
      exfalso. apply (Hnd w). apply in_or_app. right. now left.
    + destruct (Z.eqb j tgt) eqn:E; [|exact IH]. apply Z.eqb_eq in E. subst tgt.
      exfalso. apply (Hnc src). apply in_or_app. right. now left.
  - simpl. now rewrite Z.eqb_refl.
Qed.

(* ==== a warm-started job is launched with the copied checkpoint in place ===================== *)
Lemma has_ckpt_after_copy p t j : has_ckpt (p ++ [EStart t (Some j); ECopy j t]) t = has_ckpt p j.
Proof.
  change (p ++ [EStart t (Some j); ECopy j t]) with (p ++ [EStart t (Some j)] ++ [ECopy j t]).
  rewrite app_assoc, has_ckpt_snoc. simpl. rewrite Z.eqb_refl. now rewrite has_ckpt_snoc.
Qed.

Theorem warm_start_checkpoint_at_launch {S R G} (sch : scheduler S R G) (c : cfg) :
  forall st its pre t post, run sch c st its = pre ++ ESchedule t :: post ->
    (exists p, pre = p ++ [EStart t None]) \/ (exists p, pre = p ++ [EResume t]) \/
    (exists p j, pre = p ++ [EStart t (Some j); ECopy j t] /\ has_ckpt pre t = has_ckpt p j).
Proof.
  intros st its pre t post E.
  destruct (copy_before_schedule sch c st its pre t post E) as [H|[[p [j Hp]]|H]]; [now left| |right; now left].
  right; right. exists p, j. split; [exact Hp|]. subst pre. apply has_ckpt_after_copy.
Qed.

Theorem fs_schedule_keeps f t f' : fs_step f (FsSchedule t) = Some f' -> f' = f.
Proof. simpl. intros H. now injection H as <-. Qed.
