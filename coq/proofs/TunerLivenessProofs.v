(* TunerLivenessProofs.v — C12 liveness: with wait_trial_completion_when_stopping=True the drain phase ends.
   Fairness hypothesis on the world oracle, stated from a point of the run on: every look at an active worker
   shows a final status (Completed / Failed / Stopped), and the stop condition keeps holding. *)
From Verif Require Import model.Base model.Tuner proofs.TunerProofs.
From Coq Require Import Lia.
Local Open Scope nat_scope.

Definition wfinal (w : wstatus) : bool := match w with WCompleted | WFailed | WStopped => true | _ => false end.
Lemma wfinal_inactive w : wfinal w = true -> active (st_of_w w) = false.
Proof. destruct w; simpl; congruence. Qed.

(* ---- trials the scheduler stopped never run again: trace-only fact ------------------------------------ *)
Lemma stopped_phase t tr : (exists idx, In (ESResult t idx STOP) tr) ->
  phase_of t tr = PS1 \/ phase_of t tr = PS2 \/ phase_of t tr = PE \/ phase_of t tr = PBad.
Proof.
  induction tr as [|e tr IH]; intros [idx Hin]; [destruct Hin|].
  destruct Hin as [->|Hin].
  - simpl. rewrite Nat.eqb_refl. destruct (phase_of t tr); simpl; auto.
  - specialize (IH (ex_intro _ idx Hin)). simpl. destruct (tev_of t e) as [x|]; [|exact IH].
    destruct IH as [H|[H|[H|H]]]; rewrite H; destruct x as [| |d| | | | | |]; simpl; auto; destruct d; auto.
Qed.

Section Liveness.
Variable prm : params.
Variable o : oracles.
Notation w_of st t := (b_w (s_bt st t)).
Notation td_of st t := (b_td (s_bt st t)).

Definition Tinv (st : state) : Prop :=
  forall t, In t (s_sstopped st) -> exists idx, In (ESResult t idx STOP) (s_trace st).

(* [st'] extends the trace of [st]; every new member of trials_scheduler_stopped has a new STOP answer *)
Definition sst_ext (st st' : state) : Prop :=
  exists new, s_trace st' = new ++ s_trace st /\
    forall t, In t (s_sstopped st') -> In t (s_sstopped st) \/ exists idx, In (ESResult t idx STOP) new.

Lemma sst_ext_refl st : sst_ext st st.
Proof. exists []. split; [reflexivity|auto]. Qed.
Lemma sst_ext_trans a b c : sst_ext a b -> sst_ext b c -> sst_ext a c.
Proof.
  intros (n1 & H1 & S1) (n2 & H2 & S2). exists (n2 ++ n1). split; [rewrite H2, H1, app_assoc; reflexivity|].
  intros t Ht. destruct (S2 t Ht) as [H|[idx H]].
  - destruct (S1 t H) as [H'|[idx H']]; [auto|right; exists idx; apply in_or_app; auto].
  - right. exists idx. apply in_or_app. auto.
Qed.
Lemma sst_ext_same st st' new : s_trace st' = new ++ s_trace st -> s_sstopped st' = s_sstopped st -> sst_ext st st'.
Proof. intros Ht Hs. exists new. split; [exact Ht|]. intros t H. rewrite Hs in H. auto. Qed.
Lemma Tinv_ext st st' : sst_ext st st' -> Tinv st -> Tinv st'.
Proof.
  intros (new & Ht & S) HT t Hin. rewrite Ht. destruct (S t Hin) as [H|[idx H]].
  - destruct (HT t H) as [idx H']. exists idx. apply in_or_app. auto.
  - exists idx. apply in_or_app. auto.
Qed.

Lemma result_step_sst sd st done r st' done' :
  result_step o sd (st, done) r = (st', done') ->
  sst_ext st st' /\ (forall t, In t (s_sstopped st') -> In t (s_sstopped st) \/ amem t done' = true) /\
  (forall t, amem t done = true -> amem t done' = true).
Proof.
  unfold result_step. destruct r as [[t idx] rep]. destruct (amem t done) eqn:Em.
  { intro H; injection H as <- <-. split; [apply sst_ext_refl|auto]. }
  destruct (notify_result o sd t idx st) as [[st1 s] d] eqn:En. intro Ha.
  apply notify_result_spec in En. destruct En as (_ & _ & _ & _ & Htr1 & _ & Hss1).
  apply apply_decision_spec in Ha. destruct Ha as (_ & _ & Ha).
  assert (Hmono : forall v x, amem x done = true -> amem x (aset t v done) = true)
    by (intros v x Hx; rewrite amem_aset, Hx; apply orb_true_r).
  destruct d.
  - destruct Ha as [-> ->]. split; [apply (sst_ext_same st st1 [ECbResult t s idx CONTINUE; ESResult t idx CONTINUE]); auto|].
    split; [intros x Hx; rewrite Hss1 in Hx; auto|auto].
  - destruct Ha as (-> & Hss2 & Htr2 & _).
    split; [apply (sst_ext_same st st' [ESRemove t; EBPause t; ECbResult t s idx PAUSE; ESResult t idx PAUSE]);
            [rewrite Htr2, Htr1; reflexivity|congruence]|].
    split; [intros x Hx; rewrite Hss2, Hss1 in Hx; auto|apply Hmono].
  - destruct Ha as (Hss2 & _ & Ha).
    assert (Hcase : exists new v, s_trace st' = new ++ s_trace st /\ In (ESResult t idx STOP) new /\ done' = aset t v done).
    { destruct s;
        try (destruct Ha as (-> & Htr2 & _);
             eexists [ESRemove t; EBStop t; ECbResult t _ idx STOP; ESResult t idx STOP], _;
             split; [rewrite Htr2, Htr1; reflexivity|]; split; [simpl; auto|reflexivity]).
      destruct Ha as (-> & Htr2 & _).
      eexists [ESRemove t; ECbResult t Completed idx STOP; ESResult t idx STOP], _.
      split; [rewrite Htr2, Htr1; reflexivity|]. split; [simpl; auto|reflexivity]. }
    destruct Hcase as (new & v & Htr' & Hin & ->).
    split; [|split; [|apply Hmono]].
    + exists new. split; [exact Htr'|]. intros x Hx. rewrite Hss2 in Hx. destruct Hx as [<-|Hx].
      * right. exists idx. exact Hin.
      * left. rewrite Hss1 in Hx. exact Hx.
    + intros x Hx. rewrite Hss2 in Hx. destruct Hx as [<-|Hx].
      * right. rewrite amem_aset, Nat.eqb_refl. reflexivity.
      * left. rewrite Hss1 in Hx. exact Hx.
Qed.

Lemma loop1_sst sd rs : forall st done st' done',
  loop1 o sd rs st done = (st', done') ->
  sst_ext st st' /\ (forall t, In t (s_sstopped st') -> In t (s_sstopped st) \/ amem t done' = true) /\
  (forall t, amem t done = true -> amem t done' = true).
Proof.
  unfold loop1. induction rs as [|r rs IH]; intros st done st' done' H; cbn [fold_left] in H.
  - injection H as <- <-. split; [apply sst_ext_refl|auto].
  - destruct (result_step o sd (st, done) r) as [st1 done1] eqn:E1.
    apply result_step_sst in E1. destruct E1 as (A1 & B1 & C1).
    apply IH in H. destruct H as (A & B & C).
    split; [eapply sst_ext_trans; eauto|]. split; [|auto].
    intros t Ht. destruct (B t Ht) as [H|H]; [|auto]. destruct (B1 t H) as [H'|H']; auto.
Qed.

Lemma status_step_sst st done err e st' done' err' :
  status_step (st, done, err) e = (st', done', err') -> sst_ext st st' /\ s_sstopped st' = s_sstopped st.
Proof.
  intro H. pose proof (status_step_ext _ _ _ _ _ _ _ H) as (new & Ht & _).
  assert (Hs : s_sstopped st' = s_sstopped st).
  { unfold status_step in H. destruct err; [injection H as <- _ _; reflexivity|].
    destruct e as [t s]. destruct s; try (injection H as <- _ _; reflexivity).
    - destruct (s_last st t); [|injection H as <- _ _; reflexivity].
      injection H as <- _ _. destruct (amem t done); destruct (match aget t done with Some Paused => Paused | _ => Completed end); reflexivity.
    - injection H as <- _ _. destruct (amem t done); reflexivity.
    - destruct (mem_nat t (s_sstopped st)); injection H as <- _ _; reflexivity. }
  split; [eapply sst_ext_same; eauto|exact Hs].
Qed.

Lemma loop2_sst sd : forall st done err st' done' err',
  fold_left status_step sd (st, done, err) = (st', done', err') -> sst_ext st st' /\ s_sstopped st' = s_sstopped st.
Proof.
  induction sd as [|e sd IH]; intros st done err st' done' err' H; cbn [fold_left] in H.
  - injection H as <- <- <-. split; [apply sst_ext_refl|reflexivity].
  - destruct (status_step (st, done, err) e) as [[st1 done1] err1] eqn:E1.
    apply status_step_sst in E1. destruct E1 as [A1 B1]. apply IH in H. destruct H as [A B].
    split; [eapply sst_ext_trans; eauto|congruence].
Qed.

(* ---- the drain step: after a poll in which every look shows a final status nothing is running --------- *)
Definition looks_final_from (n0 : nat) : Prop := forall n, n0 <= n -> wfinal (snd (o_world o n)) = true.

Lemma world_apply_nw t st : s_nw st <= s_nw (world_apply o t st).
Proof.
  unfold world_apply. destruct (active (b_w (s_bt st t))); [|lia].
  destruct (o_world o (s_nw st)) as [reps ws]. simpl. lia.
Qed.

Lemma world_apply_drain t st : looks_final_from (s_nw st) -> active (w_of (world_apply o t st) t) = false.
Proof.
  intro Hf. unfold world_apply. destruct (active (b_w (s_bt st t))) eqn:Ea; [|exact Ea].
  pose proof (Hf (s_nw st) (le_n _)) as Hw. destruct (o_world o (s_nw st)) as [reps ws]. simpl in *.
  rewrite upd_same. simpl. apply wfinal_inactive. exact Hw.
Qed.

Lemma atr_nw ids : forall st, s_nw st <= s_nw (all_trial_results o ids st).
Proof.
  unfold all_trial_results. induction ids as [|t ids IH]; intro st; simpl; [lia|].
  pose proof (world_apply_nw t st). specialize (IH (world_apply o t st)). lia.
Qed.

Lemma atr_drain ids : forall st, looks_final_from (s_nw st) ->
  forall t, In t ids -> active (w_of (all_trial_results o ids st) t) = false.
Proof.
  induction ids as [|x ids IH]; intros st Hf t Hin; [destruct Hin|].
  change (all_trial_results o (x :: ids) st) with (all_trial_results o ids (world_apply o x st)).
  destruct Hin as [->|Hin].
  - destruct (active (w_of (all_trial_results o ids (world_apply o t st)) t)) eqn:Ea; [|reflexivity].
    apply atr_mono in Ea. rewrite world_apply_drain in Ea by exact Hf. discriminate.
  - apply IH; [|exact Hin]. intros n Hn. apply Hf. pose proof (world_apply_nw x st). lia.
Qed.

Lemma fetch_drain order st st' sd rs :
  fetch o order st = (st', sd, rs) -> looks_final_from (s_nw st) ->
  (forall t, In t order -> active (w_of st' t) = false) /\ s_nw st <= s_nw st'.
Proof.
  unfold fetch. intros H Hf.
  destruct (fold_left fetch_one order (all_trial_results o order st, [])) as [st2 rs2] eqn:E.
  injection H as H1 _ _. subst st'.
  assert (Hnw : s_nw st2 = s_nw (all_trial_results o order st)).
  { clear - E. revert E. generalize (all_trial_results o order st). generalize (@nil result).
    induction order as [|t order IH]; intros rs0 s0 E; cbn [fold_left] in E; [injection E as <- _; reflexivity|].
    destruct (fetch_one (s0, rs0) t) as [s1 rs1] eqn:E1. apply IH in E. rewrite E.
    unfold fetch_one in E1. destruct (b_reports (s_bt s0 t)); [injection E1 as <- _; reflexivity|].
    destruct (hidden (b_w (s_bt s0 t))); injection E1 as <- _; reflexivity. }
  apply fetch_fold in E. destruct E as (_ & B & _).
  split; [|rewrite Hnw; apply atr_nw].
  intros t Ht. rewrite B. apply atr_drain; auto.
Qed.

(* second loop: every listed trial whose status is Completed / Failed / Stopped ends up in done_trials *)
Lemma loop2_all_done sd : forall st done st' done',
  fold_left status_step sd (st, done, None) = (st', done', None) ->
  (forall t s, In (t, s) sd -> s = Completed \/ s = Failed \/
      (s = Stopped /\ (mem_nat t (s_sstopped st) = true -> amem t done = true))) ->
  forall t s, In (t, s) sd -> amem t done' = true.
Proof.
  induction sd as [|e sd IH]; intros st done st' done' H Hsd t s Hin; [destruct Hin|].
  cbn [fold_left] in H. destruct (status_step (st, done, None) e) as [[st1 done1] err1] eqn:E1.
  pose proof (status_step_sst _ _ _ _ _ _ _ E1) as [_ Hss].
  pose proof (loop2_keys (map fst (e :: sd)) sd _ _ _ _ _ _ H) as Hk.
  assert (Herr1 : err1 = None).
  { destruct err1 as [e1|]; [|reflexivity]. exfalso.
    pose proof (loop2_err _ _ _ _ _ _ _ H) as [Hx|[t' Hx]]; [discriminate|].
    (* an error never disappears *)
    clear - H. revert H. generalize st1 done1. induction sd as [|e' sd IH]; intros s0 d0 H; cbn [fold_left] in H; [discriminate|].
    unfold status_step at 2 in H. eapply IH; eauto. }
  subst err1.
  pose proof (status_step_keys st done None e st1 done1 None (map fst (e :: sd)) E1) as Hk1.
  assert (Hmono1 : forall x, amem x done = true -> amem x done1 = true).
  { intros x Hx.
    clear - E1 Hx. unfold status_step in E1. destruct e as [t0 s0].
    assert (G : forall v, amem x (aset t0 v done) = true) by (intro v; rewrite amem_aset, Hx; apply orb_true_r).
    destruct s0; try solve [injection E1 as _ <-; auto].
    - destruct (s_last st t0); try discriminate; injection E1 as _ <-; auto.
    - destruct (mem_nat t0 (s_sstopped st)); injection E1 as _ <-; auto. }
  assert (Hhead : forall t0 s0, e = (t0, s0) -> amem t0 done1 = true).
  { intros t0 s0 ->. destruct (Hsd t0 s0 (or_introl eq_refl)) as [->|[->|[-> Hst]]]; unfold status_step in E1.
    - destruct (s_last st t0); [|discriminate]. injection E1 as _ <-. rewrite amem_aset, Nat.eqb_refl. reflexivity.
    - injection E1 as _ <-. rewrite amem_aset, Nat.eqb_refl. reflexivity.
    - destruct (mem_nat t0 (s_sstopped st)) eqn:Em.
      + injection E1 as _ <-. auto.
      + injection E1 as _ <-. rewrite amem_aset, Nat.eqb_refl. reflexivity. }
  assert (Hmono2 : forall x, amem x done1 = true -> amem x done' = true).
  { intros x Hx.
    assert (G : forall sd0 s0 d0 e0 s' d' e', fold_left status_step sd0 (s0, d0, e0) = (s', d', e') ->
                amem x d0 = true -> amem x d' = true).
    { clear. induction sd0 as [|ent sd0 IH]; intros s0 d0 e0 s' d' e' H Hx; cbn [fold_left] in H; [injection H as _ <- _; exact Hx|].
      destruct (status_step (s0, d0, e0) ent) as [[s1 d1] e1] eqn:E1. eapply IH; [exact H|].
      unfold status_step in E1. destruct e0; [injection E1 as _ <- _; exact Hx|]. destruct ent as [t0 s0'].
      assert (G : forall v, amem x (aset t0 v d0) = true) by (intro v; rewrite amem_aset, Hx; apply orb_true_r).
      destruct s0'; try solve [injection E1 as _ <- _; auto].
      - destruct (s_last s0 t0); injection E1 as _ <- _; auto.
      - destruct (mem_nat t0 (s_sstopped s0)); injection E1 as _ <- _; auto. }
    eapply G; eauto. }
  destruct Hin as [->|Hin].
  - apply Hmono2. eapply Hhead. reflexivity.
  - eapply (IH st1 done1 st' done' H); [|exact Hin].
    intros t0 s0 Hin0. destruct (Hsd t0 s0 (or_intror Hin0)) as [H0|[H0|[H0 Hst]]]; auto.
    right. right. split; [exact H0|]. rewrite Hss. intro Hm. apply Hmono1. auto.
Qed.

(* ---- oracle cursors only move forward ------------------------------------------------------------------ *)
Definition cur_eq (st st' : state) : Prop := s_nw st' = s_nw st /\ s_nc st' = s_nc st.

Lemma result_step_cur sd st done r st' done' : result_step o sd (st, done) r = (st', done') -> cur_eq st st'.
Proof.
  unfold result_step, cur_eq. destruct r as [[t idx] rep]. destruct (amem t done); [intro H; injection H as <- _; auto|].
  unfold notify_result, apply_decision, backend_stop, backend_pause.
  destruct (o_dec o _); [| |destruct (sd_status t sd)]; intro H; injection H as <- _; simpl; auto.
Qed.
Lemma loop1_cur sd rs : forall st done st' done', loop1 o sd rs st done = (st', done') -> cur_eq st st'.
Proof.
  unfold loop1. induction rs as [|r rs IH]; intros st done st' done' H; cbn [fold_left] in H.
  - injection H as <- _. split; reflexivity.
  - destruct (result_step o sd (st, done) r) as [st1 done1] eqn:E1. apply result_step_cur in E1. apply IH in H.
    unfold cur_eq in *. intuition congruence.
Qed.
Lemma status_step_cur st done err e st' done' err' : status_step (st, done, err) e = (st', done', err') -> cur_eq st st'.
Proof.
  unfold status_step, cur_eq. destruct err; [intro H; injection H as <- _ _; auto|]. destruct e as [t s].
  destruct s; try (intro H; injection H as <- _ _; auto; fail).
  - destruct (s_last st t); intro H; injection H as <- _ _; auto.
    destruct (amem t done); destruct (match aget t done with Some Paused => Paused | _ => Completed end); auto.
  - intro H; injection H as <- _ _. destruct (amem t done); auto.
  - destruct (mem_nat t (s_sstopped st)); intro H; injection H as <- _ _; auto.
Qed.
Lemma loop2_cur sd : forall st done err st' done' err',
  fold_left status_step sd (st, done, err) = (st', done', err') -> cur_eq st st'.
Proof.
  induction sd as [|e sd IH]; intros st done err st' done' err' H; cbn [fold_left] in H.
  - injection H as <- _ _. split; reflexivity.
  - destruct (status_step (st, done, err) e) as [[st1 done1] err1] eqn:E1. apply status_step_cur in E1. apply IH in H.
    unfold cur_eq in *. intuition congruence.
Qed.
Lemma status_update_cur sd rs st : cur_eq st (status_update sd rs st).
Proof.
  unfold status_update. apply (fold_left_inv (fun s => cur_eq st s)).
  - intros a r [A B]. unfold stats_add. destruct r as [[t i] rep]. split; simpl; assumption.
  - split; reflexivity.
Qed.

(* ---- the drain step ------------------------------------------------------------------------------------- *)
Lemma pnr_drains st st' done :
  process_new_results prm o st = (st', done, None) -> NoDup (s_running st) ->
  LInv st -> Tinv st -> looks_final_from (s_nw st) ->
  (forall t, In t (s_running st) -> amem t done = true).
Proof.
  unfold process_new_results.
  set (order := poll_order (s_running st) (o_ord o (s_np st))).
  set (st0 := emit (EBFetch order) (set_np st (S (s_np st)))).
  destruct (fetch o order st0) as [[st1 sd] rs] eqn:Ef.
  intros H Hnd [HLI HR] HT Hf.
  assert (HLI0 : LI st0 /\ forall x, phase_of x (s_trace st0) = phase_of x (s_trace st)).
  { apply (LI_quiet st st0 [EBFetch order]); auto. intros x e [<-|[]]. reflexivity. }
  destruct HLI0 as [HLI0 Hph0].
  pose proof (fetch_drain _ _ _ _ _ Ef Hf) as [Hinact _].
  apply fetch_spec in Ef. destruct Ef as (A & _ & _ & _ & _ & Hp & Hsdk & Hsd & _).
  set (st1' := emit (ECbFetch sd (map (fun r => (fst (fst r), snd (fst r))) rs)) st1) in *.
  destruct (Nat.ltb (n_workers prm) (length (s_running st1'))); [discriminate|].
  destruct (loop1 o sd rs st1' []) as [st2 done2] eqn:E1.
  pose proof (loop1_sst _ _ _ _ _ _ E1) as (_ & Hss2 & _).
  destruct (loop2 sd st2 done2) as [[st3 done3] err3] eqn:E2. unfold loop2 in E2.
  destruct err3; [discriminate|]. injection H as _ <-.
  assert (Hstat : forall t s, In (t, s) sd -> In t (s_running st) /\ (s = Completed \/ s = Failed \/ s = Stopped)).
  { intros t s Hin. assert (Hto : In t order) by (rewrite <- Hsdk; apply in_map_iff; exists (t, s); auto).
    assert (Htr : In t (s_running st)) by (eapply poll_order_incl; eauto). split; [exact Htr|].
    pose proof (Hsd t s Hin) as Hw. pose proof (Hinact t Hto) as Hi. rewrite Hw in Hi.
    destruct s; simpl in Hi; try discriminate; auto.
    exfalso. apply Hp in Hw. destruct HLI0 as (_ & _ & L4).
    assert (Hz : phase_of t (s_trace st0) = PZ) by (apply L4; right; exact Hw).
    rewrite Hph0, (HR t Htr) in Hz. discriminate. }
  intros t Ht.
  assert (Hto : In t order) by (apply poll_order_complete; exact Ht).
  rewrite <- Hsdk in Hto. apply in_map_iff in Hto. destruct Hto as ([t' s] & Heq & Hin). simpl in Heq. subst t'.
  eapply (loop2_all_done sd st2 done2 st3 done3 E2); [|exact Hin].
  intros t0 s0 Hin0. destruct (Hstat t0 s0 Hin0) as [Hr0 [Hs0|[Hs0|Hs0]]]; subst s0; auto.
  right. right. split; [reflexivity|]. intro Hm. apply mem_nat_In in Hm.
  destruct (Hss2 t0 Hm) as [Hold|Hd]; [|exact Hd]. exfalso.
  assert (Hold' : In t0 (s_sstopped st)).
  { unfold st1' in Hold. simpl in Hold. destruct A as (_ & _ & _ & _ & Hs & _). rewrite Hs in Hold. exact Hold. }
  destruct (stopped_phase t0 (s_trace st) (HT t0 Hold')) as [Hx|[Hx|[Hx|Hx]]]; rewrite (HR t0 Hr0) in Hx; discriminate.
Qed.

Lemma pnr_cur st st' done err : process_new_results prm o st = (st', done, err) -> s_nw st <= s_nw st' /\ s_nc st' = s_nc st.
Proof.
  unfold process_new_results.
  set (order := poll_order (s_running st) (o_ord o (s_np st))).
  set (st0 := emit (EBFetch order) (set_np st (S (s_np st)))).
  destruct (fetch o order st0) as [[st1 sd] rs] eqn:Ef.
  assert (F : s_nw st <= s_nw st1 /\ s_nc st1 = s_nc st).
  { clear - Ef. unfold fetch in Ef.
    destruct (fold_left fetch_one order (all_trial_results o order st0, [])) as [st2 rs2] eqn:E. injection Ef as <- _ _.
    assert (G : forall l s0 r0 s2 r2, fold_left fetch_one l (s0, r0) = (s2, r2) -> s_nw s2 = s_nw s0 /\ s_nc s2 = s_nc s0).
    { induction l as [|t l IH]; intros s0 r0 s2' r2' H; cbn [fold_left] in H; [injection H as <- _; auto|].
      destruct (fetch_one (s0, r0) t) as [s1 r1] eqn:E1. apply IH in H. destruct H as [-> ->].
      unfold fetch_one in E1. destruct (b_reports (s_bt s0 t)); [injection E1 as <- _; auto|].
      destruct (hidden (b_w (s_bt s0 t))); injection E1 as <- _; auto. }
    apply G in E. destruct E as [-> ->].
    assert (G2 : forall l s0, s_nw s0 <= s_nw (all_trial_results o l s0) /\ s_nc (all_trial_results o l s0) = s_nc s0).
    { unfold all_trial_results. induction l as [|t l IH]; intro s0; simpl; [auto|].
      destruct (IH (world_apply o t s0)) as [A B]. pose proof (world_apply_nw t s0).
      split; [lia|]. rewrite B. unfold world_apply. destruct (active _); [|reflexivity].
      destruct (o_world o (s_nw s0)). reflexivity. }
    destruct (G2 order st0) as [A B]. unfold st0 in *. simpl in *. split; [exact A|exact B]. }
  set (st1' := emit (ECbFetch sd (map (fun r => (fst (fst r), snd (fst r))) rs)) st1).
  destruct (Nat.ltb (n_workers prm) (length (s_running st1'))); [intro H; injection H as <- _ _; simpl; exact F|].
  destruct (loop1 o sd rs st1' []) as [st2 done2] eqn:E1. apply loop1_cur in E1.
  destruct (loop2 sd st2 done2) as [[st3 done3] err3] eqn:E2. unfold loop2 in E2. apply loop2_cur in E2.
  unfold cur_eq in *. simpl in E1.
  destruct err3; intro H; injection H as <- _ _.
  - lia.
  - destruct (status_update_cur (aupdate sd done3) rs st3) as [A B]. lia.
Qed.

Lemma poll_drains st st' :
  poll prm o st = (st', None) -> binv prm st -> LInv st -> Tinv st -> looks_final_from (s_nw st) -> s_running st' = [].
Proof.
  unfold poll. destruct (process_new_results prm o (emit ECbLoopStart st)) as [[st1 done] err1] eqn:E.
  intros H Hb HL HT Hf. destruct err1; [discriminate|]. injection H as <-.
  pose proof E as Eb. apply pnr_budget in Eb. destruct Eb as (R1 & _). simpl in R1.
  assert (HL0 : LInv (emit ECbLoopStart st)) by (apply LInv_emit_quiet; [reflexivity|exact HL]).
  assert (HT0 : Tinv (emit ECbLoopStart st)) by (intros t Ht; destruct (HT t Ht) as [i Hi]; exists i; right; exact Hi).
  pose proof (pnr_drains _ _ _ E (proj1 Hb) HL0 HT0 Hf) as Hd. clear E. rename Hd into E.
  cbn [s_running set_running set_doneall]. rewrite R1.
  destruct (remove_all (map fst done) (s_running st)) as [|t l] eqn:Er; [reflexivity|]. exfalso.
  assert (Hin : In t (remove_all (map fst done) (s_running st))) by (rewrite Er; left; reflexivity).
  apply remove_all_In in Hin. destruct Hin as [Hin Hn]. apply Hn. apply amem_keys. apply E. exact Hin.
Qed.

Lemma poll_cur st st' err : poll prm o st = (st', err) -> s_nw st <= s_nw st' /\ s_nc st' = s_nc st.
Proof.
  unfold poll. destruct (process_new_results prm o (emit ECbLoopStart st)) as [[st1 done] err1] eqn:E.
  apply pnr_cur in E. simpl in E. destruct err1; intro H; injection H as <- _; simpl; exact E.
Qed.

Lemma poll_Tinv st st' err : poll prm o st = (st', err) -> Tinv st -> Tinv st'.
Proof.
  unfold poll. destruct (process_new_results prm o (emit ECbLoopStart st)) as [[st1 done] err1] eqn:E.
  intros H HT.
  assert (HT1 : Tinv st1).
  { revert E. unfold process_new_results.
    set (order := poll_order (s_running (emit ECbLoopStart st)) (o_ord o (s_np (emit ECbLoopStart st)))).
    set (st0 := emit (EBFetch order) (set_np (emit ECbLoopStart st) (S (s_np (emit ECbLoopStart st))))).
    destruct (fetch o order st0) as [[st1a sd] rs] eqn:Ef. apply fetch_spec in Ef. destruct Ef as (A & _).
    set (st1' := emit (ECbFetch sd (map (fun r => (fst (fst r), snd (fst r))) rs)) st1a).
    assert (HT1' : Tinv st1').
    { intros t Ht. unfold st1' in *. simpl in *. destruct A as (_ & _ & Htr & _ & Hs & _). rewrite Hs in Ht. simpl in Ht.
      destruct (HT t Ht) as [i Hi]. exists i. right. rewrite Htr. simpl. right. right. exact Hi. }
    destruct (Nat.ltb (n_workers prm) (length (s_running st1'))); [intro E; injection E as <- _ _; exact HT1'|].
    destruct (loop1 o sd rs st1' []) as [st2 done2] eqn:E1. apply loop1_sst in E1. destruct E1 as (X1 & _).
    destruct (loop2 sd st2 done2) as [[st3 done3] err3] eqn:E2. unfold loop2 in E2. apply loop2_sst in E2. destruct E2 as (X2 & _).
    assert (HT3 : Tinv st3) by (eapply Tinv_ext; [exact X2|]; eapply Tinv_ext; [exact X1|exact HT1']).
    destruct err3; intro E; injection E as <- _ _; [exact HT3|].
    destruct (status_update_frame (aupdate sd done3) rs st3) as (_ & _ & _ & F4 & _ & _ & _ & F8).
    intros t Ht. rewrite F8 in Ht. rewrite F4. apply HT3. exact Ht. }
  destruct err1; injection H as <- _; [exact HT1|]. intros t Ht. apply (HT1 t Ht).
Qed.

Lemma schedule_new_task_frame st st' r : schedule_new_task o st = (st', r) ->
  s_sstopped st' = s_sstopped st /\ s_nw st' = s_nw st /\ s_nc st' = s_nc st /\ ext sched_ev st st'.
Proof.
  intro H. pose proof (schedule_new_task_ext _ _ _ _ H) as He. split; [|split; [|split; [|exact He]]];
  unfold schedule_new_task in H; destruct (o_sug o (s_ns st)) as [|cfg ck|id cfg];
    try (injection H as <- _; reflexivity);
    (destruct (Nat.ltb id (s_ntrials st)); [destruct (b_td _)|]; injection H as <- _; reflexivity).
Qed.
Lemma schedule_k_frame k : forall st st' r, schedule_k o k st = (st', r) ->
  s_sstopped st' = s_sstopped st /\ s_nw st' = s_nw st /\ s_nc st' = s_nc st /\ ext sched_ev st st'.
Proof.
  induction k as [|k IH]; intros st st' r H; simpl in H.
  - injection H as <- _. repeat split; auto. apply ext_refl.
  - destruct (ckpt_missing o st) as [j|].
    { injection H as <- _. repeat split; auto. exists [ESSuggest (s_ntrials st) (o_sug o (s_ns st))]. auto. }
    destruct (schedule_new_task o st) as [st1 r1] eqn:E1. apply schedule_new_task_frame in E1.
    destruct E1 as (A1 & B1 & C1 & D1).
    destruct r1; [apply IH in H; destruct H as (A & B & C & D); repeat split; try congruence; eapply ext_trans; eauto| |];
      injection H as <- _; auto.
Qed.
Lemma schedule_new_tasks_frame st st' r : schedule_new_tasks prm o st = (st', r) ->
  s_sstopped st' = s_sstopped st /\ s_nw st <= s_nw st' /\ s_nc st' = s_nc st /\ exists new, s_trace st' = new ++ s_trace st.
Proof.
  intro H. apply schedule_new_tasks_cases in H. destruct H as (st1 & Hbl & Hc).
  assert (E1 : s_sstopped st1 = s_sstopped st /\ s_nw st <= s_nw st1 /\ s_nc st1 = s_nc st /\ exists new, s_trace st1 = new ++ s_trace st).
  { destruct Hbl as [->|[busy Hb]]; [repeat split; auto; exists []; reflexivity|]. apply busy_look_spec in Hb.
    destruct Hb as (_ & _ & Ht & _ & R5 & _ & _ & _ & _ & _ & Hnw & Hnc). repeat split; auto. exists [EBBusy busy]. exact Ht. }
  destruct E1 as (A1 & B1 & C1 & (n1 & D1)). destruct Hc as [[-> ->]|(k & _ & Hk)].
  - simpl. repeat split; auto. exists (ECbSleep :: n1). rewrite D1. reflexivity.
  - apply schedule_k_frame in Hk. destruct Hk as (A & B & C & (n2 & D & _)).
    repeat split; try congruence; try lia. exists (n2 ++ n1). rewrite D, D1, app_assoc. reflexivity.
Qed.
Lemma Tinv_frame st st' : s_sstopped st' = s_sstopped st -> (exists new, s_trace st' = new ++ s_trace st) -> Tinv st -> Tinv st'.
Proof. intros Hs [new Ht] HT. eapply Tinv_ext; [|exact HT]. eapply sst_ext_same; eauto. Qed.

Lemma iteration_end_frame2 st st' c : iteration_end prm o st = (st', c) ->
  s_sstopped st' = s_sstopped st /\ s_nw st' = s_nw st /\ s_nc st' = S (s_nc st) /\
  (exists new, s_trace st' = new ++ s_trace st) /\ s_running st' = s_running st /\
  (o_ext o (s_nc st) = true -> c = true).
Proof.
  unfold iteration_end, stop_condition. intro H. injection H as <- <-. simpl. repeat split; auto.
  - eexists [_; _]. reflexivity.
  - intros ->. rewrite orb_true_r. reflexivity.
Qed.

(* ---- termination of the drain phase ------------------------------------------------------------------------ *)
Definition DInv (st : state) : Prop := binv prm st /\ LInv st /\ Tinv st.
(* from the cursors of [st] on: every look shows a final status, the (user) stop criterion holds *)
Definition Dc (st : state) : Prop := looks_final_from (s_nw st) /\ (forall n, s_nc st <= n -> o_ext o n = true).

Lemma Dc_mono st st' : s_nw st <= s_nw st' -> s_nc st <= s_nc st' -> Dc st -> Dc st'.
Proof. intros A B [H1 H2]. split; [intros n Hn; apply H1; lia|intros n Hn; apply H2; lia]. Qed.

Lemma poll_DInv st st' : poll prm o st = (st', None) -> DInv st -> DInv st'.
Proof.
  intros H (A & B & C). split; [|split].
  - eapply poll_budget; eauto.
  - eapply poll_life; eauto.
  - eapply poll_Tinv; eauto.
Qed.

(* an iteration that starts with the stop condition True ends the loop *)
Lemma drain_one f st ex :
  wait_completion prm = true -> DInv st -> Dc st ->
  exists st' x, loop prm o (S f) st true ex = (st', x) /\ x <> LFuel.
Proof.
  intros Hw (A & B & C) [Hf _]. rewrite loop_S.
  destruct (while_cond prm st true); [|eexists _, _; split; [reflexivity|discriminate]].
  destruct (poll prm o st) as [st1 err] eqn:Ep.
  destruct err as [e|]; [eexists _, _; split; [reflexivity|discriminate]|].
  rewrite Hw. simpl. rewrite orb_true_r.
  rewrite (poll_drains _ _ Ep A B C Hf). eexists _, _; split; [reflexivity|discriminate].
Qed.

Lemma drain_two st c ex :
  wait_completion prm = true -> DInv st -> Dc st ->
  exists st' x, loop prm o 2 st c ex = (st', x) /\ x <> LFuel.
Proof.
  intros Hw HI HD. destruct c; [apply drain_one; auto|].
  pose proof HI as (A & B & C). pose proof HD as [Hf Hx]. rewrite loop_S.
  destruct (while_cond prm st false); [|eexists _, _; split; [reflexivity|discriminate]].
  destruct (poll prm o st) as [st1 err] eqn:Ep.
  destruct err as [e|]; [eexists _, _; split; [reflexivity|discriminate]|].
  pose proof (poll_drains _ _ Ep A B C Hf) as Hr1.
  pose proof (poll_DInv _ _ Ep HI) as (A1 & B1 & C1).
  pose proof (poll_cur _ _ _ Ep) as [Hnw1 Hnc1].
  rewrite andb_false_r, orb_false_r. destruct ex.
  - rewrite Hr1. eexists _, _; split; [reflexivity|discriminate].
  - destruct (schedule_new_tasks prm o st1) as [st2 r] eqn:Es.
    pose proof (schedule_new_tasks_frame _ _ _ Es) as (Fs & Fnw & Fnc & Ftr).
    pose proof (schedule_new_tasks_budget _ _ _ _ _ Es A1) as [A2 _].
    pose proof (schedule_new_tasks_life _ _ _ _ _ Es B1) as B2.
    pose proof (Tinv_frame _ _ Fs Ftr C1) as C2.
    assert (Hnext : forall ex', exists st' x,
              (let '(st3, c') := iteration_end prm o st2 in loop prm o 1 st3 c' ex') = (st', x) /\ x <> LFuel).
    { intro ex'. destruct (iteration_end prm o st2) as [st3 c'] eqn:Ei.
      pose proof (iteration_end_frame2 _ _ _ Ei) as (Gs & Gnw & Gnc & Gtr & Grun & Gc).
      assert (Hc' : c' = true) by (apply Gc; apply Hx; lia). subst c'.
      apply drain_one; [exact Hw| |].
      - split; [eapply iteration_end_budget; eauto|split; [eapply iteration_end_life; eauto|eapply Tinv_frame; eauto]].
      - eapply Dc_mono; [| |exact HD]; lia. }
    destruct r as [| |e]; [apply Hnext|apply Hnext|eexists _, _; split; [reflexivity|discriminate]].
Qed.

(* running on after the fuel ran out is the same as continuing the loop from that state *)
Lemma loop_continue a : forall st c ex st1, loop prm o a st c ex = (st1, LFuel) ->
  forall b, exists c1 ex1, loop prm o (a + b) st c ex = loop prm o b st1 c1 ex1.
Proof.
  induction a as [|a IH]; intros st c ex st1 H b.
  - simpl in H. injection H as <-. exists c, ex. reflexivity.
  - change (S a + b) with (S (a + b)). rewrite loop_S in *.
    destruct (while_cond prm st c); [|discriminate].
    destruct (poll prm o st) as [st2 err]. destruct err; [discriminate|].
    destruct (ex || wait_completion prm && c).
    + destruct (s_running st2); [discriminate|].
      destruct (iteration_end prm o (sleep st2)) as [st3 c']. eapply IH; eauto.
    + destruct (schedule_new_tasks prm o st2) as [st3 r]. destruct r; [| |discriminate];
        destruct (iteration_end prm o st3) as [st4 c']; eapply IH; eauto.
Qed.

Lemma run_loop_DInv fuel st : run_loop prm o fuel = (st, LFuel) -> DInv st.
Proof.
  unfold run_loop. destruct (stop_condition prm o (emit ECbTuningStart init_state)) as [st0 c0] eqn:E0. intro H.
  assert (G : LFuel = LFuel -> DInv st); [|apply G; reflexivity].
  eapply (loop_rule2 prm o (fun s _ _ => DInv s) (fun s _ _ => DInv s) (fun s x => x = LFuel -> DInv s)); [| | | | | |exact H|].
  - auto.
  - discriminate.
  - intros s c ex s' err HI _ Ep. destruct err; [discriminate|]. eapply poll_DInv; eauto.
  - discriminate.
  - intros s c ex s' c' (A & B & C) _ _ Ei.
    pose proof (iteration_end_frame2 _ _ _ Ei) as (Gs & _ & _ & Gtr & _).
    split; [eapply iteration_end_budget; [exact Ei|apply binv_emit; exact A]|].
    split; [eapply iteration_end_life; [exact Ei|apply LInv_emit_quiet; [reflexivity|exact B]]|].
    eapply Tinv_frame; [exact Gs|exact Gtr|]. intros t Ht. destruct (C t Ht) as [i Hi]. exists i. right. exact Hi.
  - intros s c ex s2 r (A & B & C) _ Es.
    pose proof (schedule_new_tasks_frame _ _ _ Es) as (Fs & _ & _ & Ftr).
    pose proof (schedule_new_tasks_budget _ _ _ _ _ Es A) as [A2 _].
    pose proof (schedule_new_tasks_life _ _ _ _ _ Es B) as B2.
    pose proof (Tinv_frame _ _ Fs Ftr C) as C2.
    assert (Hn : forall s3 c', iteration_end prm o s2 = (s3, c') -> DInv s3).
    { intros s3 c' Ei. pose proof (iteration_end_frame2 _ _ _ Ei) as (Gs & _ & _ & Gtr & _).
      split; [eapply iteration_end_budget; eauto|split; [eapply iteration_end_life; eauto|eapply Tinv_frame; eauto]]. }
    destruct r; [exact Hn|exact Hn|discriminate].
  - unfold stop_condition in E0. injection E0 as <- _. split; [|split].
    + unfold binv. simpl. repeat split; [constructor|lia|intros t Ht; lia].
    + unfold LInv, LI. simpl. repeat split; auto; try discriminate.
      * intros t [Hx|Hx]; discriminate.
      * intros t [].
    + intros t [].
Qed.

(* C12 liveness: if after f0 iterations the loop is still running, and from the oracle cursors of that moment on
   every look at a worker shows a final status and the stop criterion holds, then two more iterations end the loop;
   when it ends without an exception no trial is running. *)
Theorem drain_terminates f0 st0 :
  wait_completion prm = true -> run_loop prm o f0 = (st0, LFuel) ->
  looks_final_from (s_nw st0) -> (forall n, s_nc st0 <= n -> o_ext o n = true) ->
  exists st x, run_loop prm o (f0 + 2) = (st, x) /\ x <> LFuel /\ (x = LExit None -> s_running st = []).
Proof.
  intros Hw H Hf Hx. pose proof (run_loop_DInv _ _ H) as HI.
  unfold run_loop in *. destruct (stop_condition prm o (emit ECbTuningStart init_state)) as [s0 c0] eqn:E0.
  destruct (loop_continue _ _ _ _ _ H 2) as (c1 & ex1 & Heq).
  destruct (drain_two st0 c1 ex1 Hw HI (conj Hf Hx)) as (st & x & Hl & Hne).
  exists st, x. rewrite Heq. split; [exact Hl|]. split; [exact Hne|].
  intro Hn. assert (Hrl : run_loop prm o (f0 + 2) = (st, x)) by (unfold run_loop; rewrite E0, Heq; exact Hl).
  apply run_loop_exit in Hrl. destruct Hrl as [_ Hex]. apply (Hex Hn). exact Hw.
Qed.

End Liveness.
