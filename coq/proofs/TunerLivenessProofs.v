(* TunerLivenessProofs.v — C12 liveness: with wait_trial_completion_when_stopping=True the drain phase ends.
   Fairness hypothesis on the world oracle, stated from a point of the run on: every look at an active worker
   shows a final status (Completed / Failed / Stopped), and the stop condition keeps holding. *)
From Verif Require Import model.Base model.Tuner proofs.TunerProofs.
From Coq Require Import Lia.
Local Open Scope nat_scope.

Definition wfinal (w : wstatus) : bool := match w with WCompleted | WFailed | WStopped => true | _ => false end.
Lemma wfinal_inactive w : wfinal w = true -> active (st_of_w w) = false.
Proof. destruct w; simpl; congruence. Qed.

(* ---- trials the scheduler stopped never run again: trace-only fact ------------------------------------ *)
Lemma stopped_phase t tr : (exists idx, In (ESResult t idx STOP) tr) ->
  phase_of t tr = PS1 \/ phase_of t tr = PS2 \/ phase_of t tr = PE \/ phase_of t tr = PBad.
Proof.
  induction tr as [|e tr IH]; intros [idx Hin]; [destruct Hin|].
  destruct Hin as [->|Hin].
  - simpl. rewrite Nat.eqb_refl. destruct (phase_of t tr); simpl; auto.
  - specialize (IH (ex_intro _ idx Hin)). simpl. destruct (tev_of t e) as [x|]; [|exact IH].
    destruct IH as [H|[H|[H|H]]]; rewrite H; destruct x as [| |d| | | | | |]; simpl; auto; destruct d; auto.
Qed.

Section Liveness.
Variable prm : params.
Variable o : oracles.
Notation w_of st t := (b_w (s_bt st t)).
Notation td_of st t := (b_td (s_bt st t)).

Definition Tinv (st : state) : Prop :=
  forall t, In t (s_sstopped st) -> exists idx, In (ESResult t idx STOP) (s_trace st).

(* [st'] extends the trace of [st]; every new member of trials_scheduler_stopped has a new STOP answer *)
Definition sst_ext (st st' : state) : Prop :=
  exists new, s_trace st' = new ++ s_trace st /\
    forall t, In t (s_sstopped st') -> In t (s_sstopped st) \/ exists idx, In (ESResult t idx STOP) new.

Lemma sst_ext_refl st : sst_ext st st.
Proof. exists []. split; [reflexivity|auto]. Qed.
Lemma sst_ext_trans a b c : sst_ext a b -> sst_ext b c -> sst_ext a c.
Proof.
  intros (n1 & H1 & S1) (n2 & H2 & S2). exists (n2 ++ n1). split; [rewrite H2, H1, app_assoc; reflexivity|].
  intros t Ht. destruct (S2 t Ht) as [H|[idx H]].
  - destruct (S1 t H) as [H'|[idx H']]; [auto|right; exists idx; apply in_or_app; auto].
  - right. exists idx. apply in_or_app. auto.
Qed.
Lemma sst_ext_same st st' new : s_trace st' = new ++ s_trace st -> s_sstopped st' = s_sstopped st -> sst_ext st st'.
Proof. intros Ht Hs. exists new. split; [exact Ht|]. intros t H. rewrite Hs in H. auto. Qed.
Lemma Tinv_ext st st' : sst_ext st st' -> Tinv st -> Tinv st'.
Proof.
  intros (new & Ht & S) HT t Hin. rewrite Ht. destruct (S t Hin) as [H|[idx H]].
  - destruct (HT t H) as [idx H']. exists idx. apply in_or_app. auto.
  - exists idx. apply in_or_app. auto.
Qed.

Lemma result_step_sst sd st done r st' done' :
  result_step o sd (st, done) r = (st', done') ->
  sst_ext st st' /\ (forall t, In t (s_sstopped st') -> In t (s_sstopped st) \/ amem t done' = true) /\
  (forall t, amem t done = true -> amem t done' = true).
Proof.
  unfold result_step. destruct r as [[t idx] rep]. destruct (amem t done) eqn:Em.
  { intro H; injection H as <- <-. split; [apply sst_ext_refl|auto]. }
  destruct (notify_result o sd t idx st) as [[st1 s] d] eqn:En. intro Ha.
  apply notify_result_spec in En. destruct En as (_ & _ & _ & _ & Htr1 & _ & Hss1).
  apply apply_decision_spec in Ha. destruct Ha as (_ & _ & Ha).
  assert (Hmono : forall v x, amem x done = true -> amem x (aset t v done) = true)
    by (intros v x Hx; rewrite amem_aset, Hx; apply orb_true_r).
  destruct d.
  - destruct Ha as [-> ->]. split; [apply (sst_ext_same st st1 [ECbResult t s idx CONTINUE; ESResult t idx CONTINUE]); auto|].
    split; [intros x Hx; rewrite Hss1 in Hx; auto|auto].
  - destruct Ha as (-> & Hss2 & Htr2 & _).
    split; [apply (sst_ext_same st st' [ESRemove t; EBPause t; ECbResult t s idx PAUSE; ESResult t idx PAUSE]);
            [rewrite Htr2, Htr1; reflexivity|congruence]|].
    split; [intros x Hx; rewrite Hss2, Hss1 in Hx; auto|apply Hmono].
  - destruct Ha as (Hss2 & _ & Ha).
    assert (Hcase : exists new v, s_trace st' = new ++ s_trace st /\ In (ESResult t idx STOP) new /\ done' = aset t v done).
    { destruct s;
        try (destruct Ha as (-> & Htr2 & _);
             eexists [ESRemove t; EBStop t; ECbResult t _ idx STOP; ESResult t idx STOP], _;
             split; [rewrite Htr2, Htr1; reflexivity|]; split; [simpl; auto|reflexivity]).
      destruct Ha as (-> & Htr2 & _).
      eexists [ESRemove t; ECbResult t Completed idx STOP; ESResult t idx STOP], _.
      split; [rewrite Htr2, Htr1; reflexivity|]. split; [simpl; auto|reflexivity]. }
    destruct Hcase as (new & v & Htr' & Hin & ->).
    split; [|split; [|apply Hmono]].
    + exists new. split; [exact Htr'|]. intros x Hx. rewrite Hss2 in Hx. destruct Hx as [<-|Hx].
      * right. exists idx. exact Hin.
      * left. rewrite Hss1 in Hx. exact Hx.
    + intros x Hx. rewrite Hss2 in Hx. destruct Hx as [<-|Hx].
      * right. rewrite amem_aset, Nat.eqb_refl. reflexivity.
      * left. rewrite Hss1 in Hx. exact Hx.
Qed.

Lemma loop1_sst sd rs : forall st done st' done',
  loop1 o sd rs st done = (st', done') ->
  sst_ext st st' /\ (forall t, In t (s_sstopped st') -> In t (s_sstopped st) \/ amem t done' = true) /\
  (forall t, amem t done = true -> amem t done' = true).
Proof.
  unfold loop1. induction rs as [|r rs IH]; intros st done st' done' H; cbn [fold_left] in H.
  - injection H as <- <-. split; [apply sst_ext_refl|auto].
  - destruct (result_step o sd (st, done) r) as [st1 done1] eqn:E1.
    apply result_step_sst in E1. destruct E1 as (A1 & B1 & C1).
    apply IH in H. destruct H as (A & B & C).
    split; [eapply sst_ext_trans; eauto|]. split; [|auto].
    intros t Ht. destruct (B t Ht) as [H|H]; [|auto]. destruct (B1 t H) as [H'|H']; auto.
Qed.

Lemma status_step_sst st done err e st' done' err' :
  status_step (st, done, err) e = (st', done', err') -> sst_ext st st' /\ s_sstopped st' = s_sstopped st.
Proof.
  intro H. pose proof (status_step_ext _ _ _ _ _ _ _ H) as (new & Ht & _).
  assert (Hs : s_sstopped st' = s_sstopped st).
  { unfold status_step in H. destruct err; [injection H as <- _ _; reflexivity|].
    destruct e as [t s]. destruct s; try (injection H as <- _ _; reflexivity).
    - destruct (s_last st t); [|injection H as <- _ _; reflexivity].
      injection H as <- _ _. destruct (amem t done); destruct (match aget t done with Some Paused => Paused | _ => Completed end); reflexivity.
    - injection H as <- _ _. destruct (amem t done); reflexivity.
    - destruct (mem_nat t (s_sstopped st)); injection H as <- _ _; reflexivity. }
  split; [eapply sst_ext_same; eauto|exact Hs].
Qed.

Lemma loop2_sst sd : forall st done err st' done' err',
  fold_left status_step sd (st, done, err) = (st', done', err') -> sst_ext st st' /\ s_sstopped st' = s_sstopped st.
Proof.
  induction sd as [|e sd IH]; intros st done err st' done' err' H; cbn [fold_left] in H.
  - injection H as <- <- <-. split; [apply sst_ext_refl|reflexivity].
  - destruct (status_step (st, done, err) e) as [[st1 done1] err1] eqn:E1.
    apply status_step_sst in E1. destruct E1 as [A1 B1]. apply IH in H. destruct H as [A B].
    split; [eapply sst_ext_trans; eauto|congruence].
Qed.

(* ---- the drain step: after a poll in which every look shows a final status nothing is running --------- *)
Definition looks_final_from (n0 : nat) : Prop := forall n, n0 <= n -> wfinal (snd (o_world o n)) = true.

Lemma world_apply_nw t st : s_nw st <= s_nw (world_apply o t st).
Proof.
  unfold world_apply. destruct (active (b_w (s_bt st t))); [|lia].
  destruct (o_world o (s_nw st)) as [reps ws]. simpl. lia.
Qed.

Lemma world_apply_drain t st : looks_final_from (s_nw st) -> active (w_of (world_apply o t st) t) = false.
Proof.
  intro Hf. unfold world_apply. destruct (active (b_w (s_bt st t))) eqn:Ea; [|exact Ea].
  pose proof (Hf (s_nw st) (le_n _)) as Hw. destruct (o_world o (s_nw st)) as [reps ws]. simpl in *.
  rewrite upd_same. simpl. apply wfinal_inactive. exact Hw.
Qed.

Lemma atr_nw ids : forall st, s_nw st <= s_nw (all_trial_results o ids st).
Proof.
  unfold all_trial_results. induction ids as [|t ids IH]; intro st; simpl; [lia|].
  pose proof (world_apply_nw t st). specialize (IH (world_apply o t st)). lia.
Qed.

Lemma atr_drain ids : forall st, looks_final_from (s_nw st) ->
  forall t, In t ids -> active (w_of (all_trial_results o ids st) t) = false.
Proof.
  induction ids as [|x ids IH]; intros st Hf t Hin; [destruct Hin|].
  change (all_trial_results o (x :: ids) st) with (all_trial_results o ids (world_apply o x st)).
  destruct Hin as [->|Hin].
  - destruct (active (w_of (all_trial_results o ids (world_apply o t st)) t)) eqn:Ea; [|reflexivity].
    apply atr_mono in Ea. rewrite world_apply_drain in Ea by exact Hf. discriminate.
  - apply IH; [|exact Hin]. intros n Hn. apply Hf. pose proof (world_apply_nw x st). lia.
Qed.

Lemma fetch_drain order st st' sd rs :
  fetch o order st = (st', sd, rs) -> looks_final_from (s_nw st) ->
  (forall t, In t order -> active (w_of st' t) = false) /\ s_nw st <= s_nw st'.
Proof.
  unfold fetch. intros H Hf.
  destruct (fold_left fetch_one order (all_trial_results o order st, [])) as [st2 rs2] eqn:E.
  injection H as H1 _ _. subst st'.
  assert (Hnw : s_nw st2 = s_nw (all_trial_results o order st)).
  { clear - E. revert E. generalize (all_trial_results o order st). generalize (@nil result).
    induction order as [|t order IH]; intros rs0 s0 E; cbn [fold_left] in E; [injection E as <- _; reflexivity|].
    destruct (fetch_one (s0, rs0) t) as [s1 rs1] eqn:E1. apply IH in E. rewrite E.
    unfold fetch_one in E1. destruct (b_reports (s_bt s0 t)); [injection E1 as <- _; reflexivity|].
    destruct (hidden (b_w (s_bt s0 t))); injection E1 as <- _; reflexivity. }
  apply fetch_fold in E. destruct E as (_ & B & _).
  split; [|rewrite Hnw; apply atr_nw].
  intros t Ht. rewrite B. apply atr_drain; auto.
Qed.

(* second loop: every listed trial whose status is Completed / Failed / Stopped ends up in done_trials *)
Lemma loop2_all_done sd : forall st done st' done',
  fold_left status_step sd (st, done, None) = (st', done', None) ->
  (forall t s, In (t, s) sd -> s = Completed \/ s = Failed \/
      (s = Stopped /\ (mem_nat t (s_sstopped st) = true -> amem t done = true))) ->
  forall t s, In (t, s) sd -> amem t done' = true.
Proof.
  induction sd as [|e sd IH]; intros st done st' done' H Hsd t s Hin; [destruct Hin|].
  cbn [fold_left] in H. destruct (status_step (st, done, None) e) as [[st1 done1] err1] eqn:E1.
  pose proof (status_step_sst _ _ _ _ _ _ _ E1) as [_ Hss].
  pose proof (loop2_keys (map fst (e :: sd)) sd _ _ _ _ _ _ H) as Hk.
  assert (Herr1 : err1 = None).
  { destruct err1 as [e1|]; [|reflexivity]. exfalso.
    pose proof (loop2_err _ _ _ _ _ _ _ H) as [Hx|[t' Hx]]; [discriminate|].
    (* an error never disappears *)
    clear - H. revert H. generalize st1 done1. induction sd as [|e' sd IH]; intros s0 d0 H; cbn [fold_left] in H; [discriminate|].
    unfold status_step at 2 in H. eapply IH; eauto. }
  subst err1.
  pose proof (status_step_keys st done None e st1 done1 None (map fst (e :: sd)) E1) as Hk1.
  assert (Hmono1 : forall x, amem x done = true -> amem x done1 = true).
  { intros x Hx.
    clear - E1 Hx. unfold status_step in E1. destruct e as [t0 s0].
    assert (G : forall v, amem x (aset t0 v done) = true) by (intro v; rewrite amem_aset, Hx; apply orb_true_r).
    destruct s0; try solve [injection E1 as _ <-; auto].
    - destruct (s_last st t0); try discriminate; injection E1 as _ <-; auto.
    - destruct (mem_nat t0 (s_sstopped st)); injection E1 as _ <-; auto. }
  assert (Hhead : forall t0 s0, e = (t0, s0) -> amem t0 done1 = true).
  { intros t0 s0 ->. destruct (Hsd t0 s0 (or_introl eq_refl)) as [->|[->|[-> Hst]]]; unfold status_step in E1.
    - destruct (s_last st t0); [|discriminate]. injection E1 as _ <-. rewrite amem_aset, Nat.eqb_refl. reflexivity.
    - injection E1 as _ <-. rewrite amem_aset, Nat.eqb_refl. reflexivity.
    - destruct (mem_nat t0 (s_sstopped st)) eqn:Em.
      + injection E1 as _ <-. auto.
      + injection E1 as _ <-. rewrite amem_aset, Nat.eqb_refl. reflexivity. }
  assert (Hmono2 : forall x, amem x done1 = true -> amem x done' = true).
  { intros x Hx.
    assert (G : forall sd0 s0 d0 e0 s' d' e', fold_left status_step sd0 (s0, d0, e0) = (s', d', e') ->
                amem x d0 = true -> amem x d' = true).
    { clear. induction sd0 as [|ent sd0 IH]; intros s0 d0 e0 s' d' e' H Hx; cbn [fold_left] in H; [injection H as _ <- _; exact Hx|].
      destruct (status_step (s0, d0, e0) ent) as [[s1 d1] e1] eqn:E1. eapply IH; [exact H|].
      unfold status_step in E1. destruct e0; [injection E1 as _ <- _; exact Hx|]. destruct ent as [t0 s0'].
      assert (G : forall v, amem x (aset t0 v d0) = true) by (intro v; rewrite amem_aset, Hx; apply orb_true_r).
      destruct s0'; try solve [injection E1 as _ <- _; auto].
      - destruct (s_last s0 t0); injection E1 as _ <- _; auto.
      - destruct (mem_nat t0 (s_sstopped s0)); injection E1 as _ <- _; auto. }
    eapply G; eauto. }
  destruct Hin as [->|Hin].
  - apply Hmono2. eapply Hhead. reflexivity.
  - eapply (IH st1 done1 st' done' H); [|exact Hin].
    intros t0 s0 Hin0. destruct (Hsd t0 s0 (or_intror Hin0)) as [H0|[H0|[H0 Hst]]]; auto.
    right. right. split; [exact H0|]. rewrite Hss. intro Hm. apply Hmono1. auto.
Qed.

End Liveness.
